#!/bin/bash
# tools/sweep.sh "<seeds>" : quick tier of all 20 checks for each seed on the unchanged tree; one summary line per run.
cd "$(dirname "$0")/.."
./bin/setup > /dev/null 2>&1 || { echo "setup failed"; exit 2; }
for s in $1; do
  for p in C01 C02 C03 C04 C05 C06 C07 C08 C09 C10 C11 C12 C13 C14 C15 C16 C17 C18 C19 C20; do
    out=$(VERIF_SEED=$s ./bin/check $p --tier quick 2>&1); code=$?
    echo "seed=$s $p exit=$code $(echo "$out" | grep -E '^(C[0-9]+ tier|VIOLATION)' | tr '\n' ' ')"
  done
done
