HOOK_COMMITS = ["03b20ac", "2e32ea2"]
CHECKS = {
 "C07": ("Theorems for every text, every list of chunks whose cuts respect CRLF (any number, any positions, inside lines / code points / blank runs), every worker count >= 1 and every arrival permutation: "
         "the chunks concatenate to the text, the real chunker never cuts inside CRLF, merging the per-batch results yields exactly the serial block list, and the collected results do not depend on arrival order. "
         "Model<->code: chunking and merged block structure for every worker count 1..len+2 per text; the property itself (parallel == serial: records, blocks, line numbers, errors) is checked on the real parsers with forced arrival orders (hook H3).", "DESIGN.md §6 C07"),
 "C08": ("Theorems for every byte string: lines and blocks reproduce the text byte for byte, block shape (blank*, significant+, blank*; leading blanks only in the first block), consecutive line numbers, no blocks iff all blank. "
         "Model<->code: exhaustive byte strings up to length 6/7 over {a,space,tab,CR,LF,0xff} plus generated documents, layouts and raw bytes; the property is also evaluated on the code's own blocks and on a no-op reconcile.", "DESIGN.md §6 C08"),
}
