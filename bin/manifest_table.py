HOOK_COMMITS = ["03b20ac"]
CHECKS = {
 "C08": ("Theorems for every byte string: lines and blocks reproduce the text byte for byte, block shape (blank*, significant+, blank*; leading blanks only in the first block), consecutive line numbers, no blocks iff all blank. "
         "Model<->code: exhaustive byte strings up to length 6/7 over {a,space,tab,CR,LF,0xff} plus generated documents, layouts and raw bytes; the property is also evaluated on the code's own blocks and on a no-op reconcile.", "DESIGN.md §6 C08"),
}
