package main

import (
	"encoding/json"
	"fmt"
	"strings"
	"unicode/utf8"

	"github.com/jotaen/klog/klog/app"
	tf "github.com/jotaen/klog/klog/app/cli/terminalformat"
	"github.com/jotaen/klog/klog/app/cli/util"
	"github.com/jotaen/klog/klog/parser"
	"github.com/jotaen/klog/klog/parser/txt"
)

// C10: syntax errors are reported at the right place and can always be displayed.

func init() {
	register(&Prop{
		ID: "C10",
		Rule: "DocGen documents with one rule-violating edit of a random class injected at a random line (first/middle/last line of the file, inside multi-line summaries, after blank-line runs, in any record), plus documents with several edits and token layouts; parsed serially and in parallel (2 and 7 workers); " +
			"errors inspected through txt.Error, the terminal rendering (`klog print`) and `klog json`. Non-trivial: the faulty line is not the first line of the file; distinct = distinct texts",
		Count: func(tier string) int {
			if tier == "thorough" {
				return 150000
			}
			return 8000
		},
		Gen: func(r *Rand, idx int, tier string) map[string]any {
			d := GenDoc(r, DocOpts{MinRecords: 1})
			if idx%16 == 15 { // the re-flower on its own: arbitrary words, widths and line prefixes
				n := r.Intn(12) + 1
				var ws []string
				for i := 0; i < n; i++ {
					w := Pick(r, []string{"", "a", "ab", "word", "ä", "日本", "loooooooooong", "x\ty", "#tag", "1h30m", "-", "\x1b[0m"})
					ws = append(ws, w)
				}
				text := strings.Join(ws, Pick(r, []string{" ", " ", " ", "  ", "\n", " \n"}))
				var pf []string
				for i := r.Intn(4); i > 0; i-- {
					pf = append(pf, Pick(r, []string{"", "    ", "# ", "#   ", "> ", "ä "}))
				}
				return map[string]any{"kind": "reflow", "text": hx(text), "width": r.Intn(24), "prefixes": strings.Join(pf, "\x00"), "nprefixes": len(pf), "line": -1}
			}
			m := Mutate(r, d)
			if m == nil {
				return map[string]any{"text": hx(GenLayout(r)), "kind": "layout", "line": -1}
			}
			if r.P(1, 6) { // a second fault further down (the first error must still be on the first faulty line or earlier)
				d2 := GenDoc(r, DocOpts{MinRecords: 1})
				if m2 := Mutate(r, d2); m2 != nil {
					sep := "\n\n"
					if !strings.HasSuffix(m.Text, "\n") {
						sep = "\n\n\n"
					}
					return map[string]any{"text": hx(m.Text + sep + m2.Text), "kind": "multi", "class": m.Class, "line": m.Line}
				}
			}
			return map[string]any{"text": hx(m.Text), "kind": "single", "class": m.Class, "line": m.Line}
		},
		Run: runC10,
	})
}

func runC10(env *Env, data map[string]any) *Outcome {
	text := textOf(data, "text")
	kind := str(data, "kind")
	o := &Outcome{Key: hashKey(text), Tags: []string{"kind:" + kind, "class:" + str(data, "class")}}
	if kind == "reflow" {
		var pf []string
		if num(data, "nprefixes") > 0 {
			pf = strings.Split(str(data, "prefixes"), "\x00")
		}
		got := tf.NewReflower(num(data, "width"), "\n").Reflow(text, pf)
		arg := "none"
		if len(pf) > 0 {
			var hs []string
			for _, x := range pf {
				hs = append(hs, hx(x))
			}
			arg = strings.Join(hs, ",")
		}
		model := env.Drv.Ask("reflow", fmt.Sprint(num(data, "width")), hx(text), arg)
		o.Evals = 1
		o.Nontrivial = strings.Contains(got, "\n")
		if model != "ok "+hx(got) {
			o.Findings = append(o.Findings, Finding{Kind: "K", What: "K.C10.reflow: Reflower.Reflow differs from the model", Impl: short(got, 800), Model: short(unhx(strings.TrimPrefix(model, "ok ")), 800)})
		}
		if gd := gsDriver(env); gd != nil {
			// the translated Go source of Reflow (Gen/GoFmt.lean) evaluated against the running code
			if gm := gd.Ask("gs.reflow", fmt.Sprint(num(data, "width")), hx(text), arg); gm != "ok "+hx(got) {
				o.Findings = append(o.Findings, Finding{Kind: "K", What: "K.gosrc.reflow: the Go source of Reflow as translated into Lean (Gen/GoFmt.lean) differs from the running code", Impl: short(got, 800), Model: short(gm, 800)})
			}
		}
		// D: re-flowing only replaces blanks by line breaks (and adds prefixes): without prefixes, the words stay
		if len(pf) == 0 && strings.Join(strings.Fields(got), " ") != strings.Join(strings.Fields(text), " ") {
			o.Findings = append(o.Findings, Finding{Kind: "D", What: "re-flowing changes the words of the text", Impl: short(got, 800)})
		}
		return o
	}
	impl, pmsg := implParse(text)
	model := env.Drv.Ask("parse", hx(text))
	if impl != model {
		o.Findings = append(o.Findings, Finding{Kind: "K", What: "K.C10.parse: errors differ from the model" + pmsgNote(pmsg), Impl: short(impl, 2500), Model: short(model, 2500)})
	}
	if pmsg != "" {
		o.Findings = append(o.Findings, Finding{Kind: "D", What: "parser panics: " + pmsg, Signature: crashSignature("C10", "panic: "+pmsg, data)})
		return o
	}
	lines := splitKeep(text)
	check := func(who string, errs []txt.Error) {
		last := 0
		for i, e := range errs {
			var lt string
			if p := safely(func() { lt = e.LineText() }); p != "" {
				o.Findings = append(o.Findings, Finding{Kind: "D", What: who + ": LineText() of an error panics: " + p, Impl: canonErrs(errs)})
				return
			}
			ln := e.LineNumber()
			if ln < 1 || ln > len(lines) {
				o.Findings = append(o.Findings, Finding{Kind: "D", What: fmt.Sprintf("%s: error %d names line %d of a %d-line text", who, i+1, ln, len(lines)), Impl: canonErrs(errs)})
				return
			}
			body, _ := lineBody(lines[ln-1])
			if lt != body {
				o.Findings = append(o.Findings, Finding{Kind: "D", What: fmt.Sprintf("%s: error %d quotes %q but line %d is %q", who, i+1, lt, ln, body), Impl: canonErrs(errs)})
				return
			}
			n := utf8.RuneCountInString(body)
			if e.Position() < 0 || e.Length() < 0 || e.Position()+e.Length() > n+1 {
				o.Findings = append(o.Findings, Finding{Kind: "D", What: fmt.Sprintf("%s: error %d spans columns %d+%d on a line of %d characters", who, i+1, e.Position(), e.Length(), n), Impl: canonErrs(errs)})
				return
			}
			if e.Column() != e.Position()+1 {
				o.Findings = append(o.Findings, Finding{Kind: "D", What: who + ": column is not position+1"})
			}
			if ln <= last {
				o.Findings = append(o.Findings, Finding{Kind: "D", What: fmt.Sprintf("%s: errors are not in ascending line order (line %d after line %d)", who, ln, last), Impl: canonErrs(errs)})
				return
			}
			last = ln
		}
	}
	_, _, errs := parser.NewSerialParser().Parse(text)
	if kind != "layout" && errs == nil {
		o.Findings = append(o.Findings, Finding{Kind: "D", What: "a text with a rule-violating edit (" + str(data, "class") + ") is accepted", Impl: short(impl, 500)})
		return o
	}
	if errs == nil {
		return o
	}
	check("serial", errs)
	o.Evals = 1
	for _, n := range []int{2, 7} {
		_, _, perrs := parser.NewParallelParser(n).Parse(text)
		o.Evals++
		if canonErrs(perrs) != canonErrs(errs) {
			o.Findings = append(o.Findings, Finding{Kind: "D", What: fmt.Sprintf("parallel parser (%d workers) reports different errors", n), Impl: canonErrs(perrs), Model: canonErrs(errs)})
			break
		}
	}
	// the first error is on the first line at which the text stops conforming
	faulty := num(data, "line")
	if kind != "layout" && faulty >= 0 {
		// independent oracle: the first line-prefix that the parser itself rejects
		firstBad := -1
		for k := 1; k <= len(lines); k++ {
			if _, _, e := parser.NewSerialParser().Parse(strings.Join(lines[:k], "")); e != nil {
				firstBad = k
				break
			}
		}
		got := errs[0].LineNumber()
		if firstBad > 0 && got != firstBad {
			o.Findings = append(o.Findings, Finding{Kind: "D", What: fmt.Sprintf("the first error is reported on line %d, but the text stops conforming at line %d (every shorter line-prefix is accepted)", got, firstBad), Impl: canonErrs(errs)})
		}
		if got != faulty+1 {
			o.Findings = append(o.Findings, Finding{Kind: "D", What: fmt.Sprintf("the faulty line is line %d, the first error is reported on line %d", faulty+1, got), Impl: canonErrs(errs)})
		}
		o.Nontrivial = faulty > 0
	}
	// renderings
	file := writeFile(env, "c10.klg", text)
	res := runCLI(env, CLIOpts{Now: mkTime(2021, 3, 4, 12, 0)}, "print", "--no-style", file)
	o.Evals++
	if res.Panic != "" {
		o.Findings = append(o.Findings, Finding{Kind: "D", What: "rendering the errors on the terminal crashes: " + res.Panic})
	} else if res.Code == 0 {
		o.Findings = append(o.Findings, Finding{Kind: "D", What: "`klog print` of an invalid file exits with status 0"})
	} else {
		for _, e := range errs {
			marker := fmt.Sprintf("in line %d", e.LineNumber())
			if !strings.Contains(res.Err, marker) && !strings.Contains(strings.ToLower(res.Err), fmt.Sprintf("line %d", e.LineNumber())) {
				o.Findings = append(o.Findings, Finding{Kind: "D", What: fmt.Sprintf("terminal rendering does not mention line %d", e.LineNumber()), Impl: short(res.Err, 600)})
				break
			}
			carets := strings.Repeat("^", e.Length())
			if e.Length() > 0 && !strings.Contains(res.Err, carets) {
				o.Findings = append(o.Findings, Finding{Kind: "D", What: fmt.Sprintf("terminal rendering lacks %d carets for the error on line %d", e.Length(), e.LineNumber()), Impl: short(res.Err, 600)})
				break
			}
		}
	}
	// the prettifier itself, for every colour theme: against the model (K) and read back by an
	// independent reader of the uncoloured form (D)
	c10Pretty(env, o, text, errs)
	js := runCLI(env, CLIOpts{Now: mkTime(2021, 3, 4, 12, 0)}, "json", file)
	o.Evals++
	if js.Panic != "" || js.Code != 0 {
		o.Findings = append(o.Findings, Finding{Kind: "D", What: "`klog json` of an invalid file fails: " + js.Panic + js.Err})
	} else {
		var env2 struct {
			Records any `json:"records"`
			Errors  []struct {
				Line, Column, Length int
				Title, Details       string
			} `json:"errors"`
		}
		if err := json.Unmarshal([]byte(js.Stdout), &env2); err != nil {
			o.Findings = append(o.Findings, Finding{Kind: "D", What: "`klog json` output is not JSON: " + err.Error(), Impl: short(js.Stdout, 400)})
		} else if len(env2.Errors) != len(errs) || env2.Records != nil {
			o.Findings = append(o.Findings, Finding{Kind: "D", What: "`klog json` errors array does not match the parser's errors", Impl: short(js.Stdout, 400)})
		} else {
			for i, e := range errs {
				j := env2.Errors[i]
				if j.Line != e.LineNumber() || j.Column != e.Column() || j.Length != e.Length() || j.Title != e.Title() || j.Details != e.Details() {
					o.Findings = append(o.Findings, Finding{Kind: "D", What: fmt.Sprintf("`klog json` error %d differs from the terminal report", i+1), Impl: short(js.Stdout, 400)})
					break
				}
			}
		}
	}
	// several input files: the errors keep the line numbers of THEIR file and all of them are reported
	if len(text)%4 == 0 {
		valid := writeFile(env, "c10-valid.klg", "2000-01-01\n    1h\n\n2000-01-02\nfoo\n    8:00 - 9:00 bar\n")
		for _, order := range [][]string{{valid, file}, {file, valid}, {file, file}} {
			jm := runCLI(env, CLIOpts{Now: mkTime(2021, 3, 4, 12, 0)}, append([]string{"json"}, order...)...)
			o.Evals++
			var envm struct {
				Records any `json:"records"`
				Errors  []struct{ Line, Column, Length int } `json:"errors"`
			}
			want := len(errs)
			if order[0] == order[1] {
				want = 2 * len(errs)
			}
			bad := jm.Panic != "" || jm.Code != 0 || json.Unmarshal([]byte(jm.Stdout), &envm) != nil || envm.Records != nil || len(envm.Errors) != want
			if !bad {
				for i, j := range envm.Errors {
					e := errs[i%len(errs)]
					if j.Line != e.LineNumber() || j.Column != e.Column() || j.Length != e.Length() {
						bad = true
					}
				}
			}
			if bad {
				o.Findings = append(o.Findings, Finding{Kind: "D", What: "`klog json` with two input files does not report the errors of the faulty file(s) with the line numbers of that file", Impl: short(jm.Stdout+jm.Err+jm.Panic, 500)})
				break
			}
		}
		o.Tags = append(o.Tags, "two-files")
	}
	o.Sample = map[string]any{"class": str(data, "class"), "faulty_line": faulty + 1, "first_error": canonErr(errs[0])}
	return o
}

var c10Themes = []tf.ColourTheme{tf.COLOUR_THEME_NO_COLOUR, tf.COLOUR_THEME_DARK, tf.COLOUR_THEME_LIGHT, tf.COLOUR_THEME_BASIC}

// c10Pretty renders the errors with util.PrettifyParsingError under every colour theme and
// compares with the model (K); the uncoloured rendering is read back line by line (D): per error
// an empty line, the header naming the line number (and origin), the quoted line (tabs as
// blanks), exactly Position() blanks and Length() carets under it, then the message.
func c10Pretty(env *Env, o *Outcome, text string, errs []txt.Error) {
	origin := Pick(NewRand(int64(len(text)), "C10-origin", len(errs)), []string{"", "a.klg", "/x/y z/100%s.klg", "\u00e4.klg"})
	for _, e := range errs {
		e.SetOrigin(origin)
	}
	for ti, th := range c10Themes {
		var out string
		if p := safely(func() { out = util.PrettifyParsingError(app.NewParserErrors(errs), tf.NewStyler(th)).Error() }); p != "" {
			o.Findings = append(o.Findings, Finding{Kind: "D", What: "PrettifyParsingError panics: " + p})
			return
		}
		o.Evals++
		model := env.Drv.Ask("prettyerr", hx(text), string(th), hx(origin))
		got := "ok " + hx(string([]rune(out))) // decoded form: invalid bytes become U+FFFD on both sides
		if model != got {
			o.Findings = append(o.Findings, Finding{Kind: "K", What: "K.C10.pretty: terminal rendering of the errors (" + string(th) + ") differs from the model", Impl: short(out, 1500), Model: short(unhx(strings.TrimPrefix(model, "ok ")), 1500)})
			return
		}
		if ti != 0 {
			if tf.StripAllAnsiSequences(out) != tf.StripAllAnsiSequences(c10Plain(errs)) {
				o.Findings = append(o.Findings, Finding{Kind: "D", What: "the coloured rendering of the errors (" + string(th) + "), with the colour sequences removed, is not the uncoloured rendering", Impl: short(out, 1500)})
				return
			}
			continue
		}
		// D: read the uncoloured rendering back
		rest := out
		for i, e := range errs {
			head := "\n[SYNTAX ERROR] in line " + fmt.Sprint(e.LineNumber())
			if origin != "" {
				head += " of file " + origin
			}
			head += "\n"
			if !strings.HasPrefix(rest, head) {
				o.Findings = append(o.Findings, Finding{Kind: "D", What: fmt.Sprintf("terminal rendering: the block of error %d does not start with the header for line %d", i+1, e.LineNumber()), Impl: short(out, 1500)})
				return
			}
			rest = rest[len(head):]
			quoted := "    " + strings.ReplaceAll(e.LineText(), "\t", " ") + "\n"
			carets := "    " + strings.Repeat(" ", e.Position()) + strings.Repeat("^", e.Length()) + "\n"
			if !strings.HasPrefix(rest, quoted+carets) {
				o.Findings = append(o.Findings, Finding{Kind: "D", What: fmt.Sprintf("terminal rendering: error %d does not quote its line with %d blanks and %d carets under it", i+1, e.Position(), e.Length()), Impl: short(out, 1500)})
				return
			}
			rest = rest[len(quoted)+len(carets):]
			// the message: its words, in order, each line indented
			k := strings.Index(rest, "\n\n[SYNTAX ERROR]")
			msg := rest
			if k >= 0 {
				msg, rest = rest[:k+1], rest[k+1:]
			} else {
				rest = ""
			}
			if strings.Join(strings.Fields(msg), " ") != strings.Join(strings.Fields(e.Message()), " ") {
				o.Findings = append(o.Findings, Finding{Kind: "D", What: fmt.Sprintf("terminal rendering: the message of error %d is not title and details word by word", i+1), Impl: short(out, 1500)})
				return
			}
			for _, ml := range strings.Split(strings.TrimSuffix(msg, "\n"), "\n") {
				if !strings.HasPrefix(ml, "    ") {
					o.Findings = append(o.Findings, Finding{Kind: "D", What: fmt.Sprintf("terminal rendering: a message line of error %d is not indented", i+1), Impl: short(out, 1500)})
					return
				}
			}
		}
	}
}

func c10Plain(errs []txt.Error) string {
	return util.PrettifyParsingError(app.NewParserErrors(errs), tf.NewStyler(tf.COLOUR_THEME_NO_COLOUR)).Error()
}
