package main

import (
	"flag"
	"fmt"
	"os"
	"strings"

	"github.com/jotaen/klog/klog/parser"
)

// raceprobe: run by a copy of this binary built with `go build -race` (bin/check C07).  It parses
// documents in which neighbouring records differ in every value (dates, should-totals, times, durations,
// summaries, tags) with the real parallel parser under natural scheduling.  The Go race detector reports
// every pair of unsynchronised accesses to shared memory by two workers whether or not the values got
// torn in this run — a data race means the result depends on the interleaving (C07).  Exit 0: no race and
// every result equal to the serial parser's; exit 66: the race detector fired (its report is in -log.*);
// exit 3: a parallel result differs from the serial one (printed).
func cmdRaceProbe(args []string) int {
	fs := flag.NewFlagSet("raceprobe", flag.ExitOnError)
	seed := fs.Int64("seed", 1, "")
	n := fs.Int("n", 40, "")
	fs.Parse(args)
	for i := 0; i < *n; i++ {
		r := NewRand(*seed, "raceprobe", i)
		var sb strings.Builder
		recs := 20 + r.Intn(200)
		y, m, d := 1990+r.Intn(30), 1+r.Intn(12), 1+r.Intn(28)
		cur := ymd{y, m, d}
		for k := 0; k < recs; k++ {
			cur, _ = cur.plus(1 + r.Intn(3))
			sep := Pick(r, []string{"-", "/"})
			fmt.Fprintf(&sb, "%04d%s%02d%s%02d", cur.y, sep, cur.m, sep, cur.d)
			if r.P(2, 3) {
				fmt.Fprintf(&sb, " (%s!)", Pick(r, []string{"8h", "7h30m", "6h", "-30m", "0m", "4h15m", "1h", "90m", "8h1m", "12h"}))
			}
			sb.WriteString("\n")
			if r.P(1, 2) {
				fmt.Fprintf(&sb, "summary %d #tag%d=%d\n", k, k%7, r.Intn(100))
			}
			ind := Pick(r, []string{"    ", "  ", "\t", "   "})
			for e := r.Intn(5); e > 0; e-- {
				switch r.Intn(4) {
				case 0:
					fmt.Fprintf(&sb, "%s%dh%dm entry %d #e%d\n", ind, r.Intn(9), r.Intn(60), e, r.Intn(9))
				case 1:
					a := r.Intn(12)
					fmt.Fprintf(&sb, "%s%d:%02d - %d:%02d work #w=%d\n", ind, a, r.Intn(60), 12+r.Intn(11), r.Intn(60), r.Intn(50))
				case 2:
					fmt.Fprintf(&sb, "%s<23:%02d-%d:%02dam\n%s%smore %d\n", ind, r.Intn(60), 1+r.Intn(11), r.Intn(60), ind, ind, r.Intn(1000))
				default:
					fmt.Fprintf(&sb, "%s-%dm\n", ind, 1+r.Intn(59))
				}
			}
			if r.P(1, 40) {
				sb.WriteString(ind + "not an entry\n") // an error somewhere in the file
			}
			sb.WriteString(Pick(r, []string{"\n", "\n", "\r\n", " \n\n"}))
		}
		text := sb.String()
		rs0, bs0, es0 := parser.NewSerialParser().Parse(text)
		serial := canonParse(rs0, bs0, es0)
		for _, w := range []int{2, 3, 4, 8, 16} {
			for rep := 0; rep < 2; rep++ {
				rs, bs, es := parser.NewParallelParser(w).Parse(text)
				if par := canonParse(rs, bs, es); par != serial {
					fmt.Printf("DIFF workers=%d doc=%d seed=%d\n%s\n", w, i, *seed, hx(text))
					return 3
				}
			}
		}
	}
	fmt.Println("raceprobe ok")
	return 0
}

func init() {
	_ = os.Args
}
