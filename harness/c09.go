package main

import (
	"strings"

	"github.com/jotaen/klog/klog/app"
	tf "github.com/jotaen/klog/klog/app/cli/terminalformat"
	"github.com/jotaen/klog/klog/parser"
)

func plainSerialiser() app.TextSerialiser {
	return app.NewSerialiser(tf.NewStyler(tf.COLOUR_THEME_NO_COLOUR), false)
}

// implPrint: unstyled canonical serialisation of a text ("" + ok=false if the text is invalid).
func implPrint(text string) (string, bool) {
	rs, _, errs := parser.NewSerialParser().Parse(text)
	if errs != nil {
		return "", false
	}
	return parser.SerialiseRecords(plainSerialiser(), rs...).ToString(), true
}

// lineTextEndsInCR reports whether some line's *text* (without its line ending) ends in a CR.
func lineTextEndsInCR(text string) bool {
	rest := text
	for len(rest) > 0 {
		i := strings.IndexByte(rest, '\n')
		var line string
		if i < 0 {
			line, rest = rest, ""
		} else {
			line, rest = rest[:i], rest[i+1:]
			line = strings.TrimSuffix(line, "\r")
		}
		if strings.HasSuffix(line, "\r") {
			return true
		}
	}
	return false
}

func init() {
	register(&Prop{
		ID: "C09",
		Rule: "DocGen valid documents in every admissible formatting (indentation styles, CRLF/LF, blank-line runs, 12h/24h, dash spacing, placeholder lengths, redundant spellings, multi-line and extra-indented summaries, invalid bytes); " +
			"print -> parse -> compare records, print again -> compare text. Non-trivial: at least 2 records and at least 3 entries; distinct = distinct texts",
		Count: func(tier string) int {
			if tier == "thorough" {
				return 300000
			}
			return 12000
		},
		Gen: func(r *Rand, idx int, tier string) map[string]any {
			d := GenDoc(r, DocOpts{})
			return map[string]any{"text": hx(d.Text), "expect": d.CanonRecords(), "nrec": len(d.Records)}
		},
		Run: runC09,
	})
}

func runC09(env *Env, data map[string]any) *Outcome {
	text := textOf(data, "text")
	o := &Outcome{Key: hashKey(text)}
	orig, pmsg := implParse(text)
	if pmsg != "" || !strings.HasPrefix(orig, "records ") {
		if _, isCorpus := data["_corpus"]; !isCorpus {
			o.Findings = append(o.Findings, Finding{Kind: "D", What: "generated valid document rejected (see C01)", Impl: short(orig, 500)})
		}
		return o
	}
	printed, _ := implPrint(text)
	model := env.Drv.Ask("print", hx(text))
	if "ok "+hx(printed) != model {
		o.Findings = append(o.Findings, Finding{Kind: "K", What: "K.C09.print: serialised text differs from the model", Impl: hx(printed), Model: model})
	}
	sig := ""
	if lineTextEndsInCR(text) {
		sig = "line-text-ends-in-cr"
		o.Tags = append(o.Tags, "line-text-ends-in-cr")
	}
	// D: the printed text is a valid file with the same records ...
	origRecords := orig[:strings.Index(orig, " | ")]
	again, pmsg2 := implParse(printed)
	if pmsg2 != "" || !strings.HasPrefix(again, "records ") {
		o.Findings = append(o.Findings, Finding{Kind: "D", What: "the printed text is not a valid file", Impl: short(again, 800), Model: hx(printed), Signature: sig})
		return o
	}
	againRecords := again[:strings.Index(again, " | ")]
	if againRecords != origRecords {
		o.Findings = append(o.Findings, Finding{Kind: "D", What: "the printed text parses to different records (value or notation lost)", Impl: short(againRecords, 2500), Model: short(origRecords, 2500), Signature: sig})
	}
	// ... and printing it again reproduces it unchanged
	printed2, _ := implPrint(printed)
	if printed2 != printed {
		o.Findings = append(o.Findings, Finding{Kind: "D", What: "printing the printed text changes it (no fixed point)", Impl: hx(printed2), Model: hx(printed), Signature: sig})
	}
	// canonical layout: LF only, 4-space indentation, exactly one blank line between records
	if strings.Contains(printed, "\r\n") || strings.Contains(printed, "\n\n\n") || strings.HasPrefix(printed, "\n") {
		if sig == "" {
			o.Findings = append(o.Findings, Finding{Kind: "D", What: "printed text is not in canonical layout", Impl: hx(printed)})
		}
	}
	o.Nontrivial = num(data, "nrec") >= 2 && strings.Count(origRecords, "):[") >= 3
	o.Evals = 3
	o.Sample = map[string]any{"text": short(text, 160), "printed": short(printed, 160)}
	return o
}
