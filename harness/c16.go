package main

import (
	"fmt"
	"strings"

	"github.com/jotaen/klog/klog"
)

// C16: value literals. Cases are batches of an enumerated space; each element is checked
// against the model (K) and against an independent reading of the specification (D).

const c16Batch = 500

type c16Space struct {
	name  string
	count func(tier string) int
	run   func(env *Env, r *Rand, i int, o *Outcome)
}

var digits = "0123456789"

// ---- (a) all strings <?D{1,2}:DD(am|pm)?>? ----

func timeStringAt(i int) string {
	gt := i % 2
	i /= 2
	ap := i % 3
	i /= 3
	mm := i % 100
	i /= 100
	hh := i % 110 // 0..9 one digit, 10..109 two digits 00..99
	i /= 110
	lt := i % 2
	s := ""
	if lt == 1 {
		s += "<"
	}
	if hh < 10 {
		s += fmt.Sprint(hh)
	} else {
		s += fmt.Sprintf("%02d", hh-10)
	}
	s += fmt.Sprintf(":%02d", mm)
	s += []string{"", "am", "pm"}[ap]
	if gt == 1 {
		s += ">"
	}
	return s
}

// oracleTime: the specification's reading of a time literal of that shape.
// returns ok, hour(0-23), minute, shift, is24
func oracleTime(s string) (bool, int, int, int, bool) {
	lt := strings.HasPrefix(s, "<")
	gt := strings.HasSuffix(s, ">")
	s = strings.TrimSuffix(strings.TrimPrefix(s, "<"), ">")
	ap := ""
	if strings.HasSuffix(s, "am") || strings.HasSuffix(s, "pm") {
		ap = s[len(s)-2:]
		s = s[:len(s)-2]
	}
	parts := strings.Split(s, ":")
	var h, m int
	fmt.Sscanf(parts[0], "%d", &h)
	fmt.Sscanf(parts[1], "%d", &m)
	if lt && gt {
		return false, 0, 0, 0, false
	}
	shift := 0
	if lt {
		shift = -1
	}
	if gt {
		shift = 1
	}
	if m > 59 {
		return false, 0, 0, 0, false
	}
	if ap != "" {
		if h < 1 || h > 12 {
			return false, 0, 0, 0, false
		}
		if ap == "am" && h == 12 {
			h = 0
		} else if ap == "pm" && h != 12 {
			h += 12
		}
		return true, h, m, shift, false
	}
	if h == 24 && m == 0 && shift <= 0 {
		return true, 0, 0, shift + 1, true
	}
	if h > 23 {
		return false, 0, 0, 0, false
	}
	return true, h, m, shift, true
}

func oracleTimeText(h, m, shift int, is24 bool) string {
	s := ""
	if shift < 0 {
		s = "<"
	}
	if is24 {
		s += fmt.Sprintf("%d:%02d", h, m)
	} else {
		hh, ap := h, "am"
		if h == 0 {
			hh = 12
		} else if h == 12 {
			ap = "pm"
		} else if h > 12 {
			hh, ap = h-12, "pm"
		}
		s += fmt.Sprintf("%d:%02d%s", hh, m, ap)
	}
	if shift > 0 {
		s += ">"
	}
	return s
}

func implTime(s string) (string, klog.Time) {
	t, err := klog.NewTimeFromString(s)
	if err != nil {
		return "err", nil
	}
	return fmt.Sprintf("ok %s %s %d", canonTime(t), t.ToString(), t.MidnightOffset().InMinutes()), t
}

func checkTimeString(env *Env, s string, o *Outcome) {
	impl, t := implTime(s)
	model := env.Drv.Ask("time", hx(s))
	if impl != model {
		addF(o, Finding{Kind: "K", What: "K.C16.time: NewTimeFromString/ToString/MidnightOffset differ from the model on " + s, Impl: impl, Model: model, Input: map[string]any{"space": "time", "s": s}})
	}
	ok, h, m, shift, is24 := oracleTime(s)
	in := map[string]any{"space": "time", "s": s}
	gsCheckTimeString(env, s, impl, in, o)
	if ok != (t != nil) {
		addF(o, Finding{Kind: "D", What: fmt.Sprintf("time literal %q: specification says valid=%v, implementation says %v", s, ok, t != nil), Impl: impl, Input: in})
		return
	}
	if !ok {
		return
	}
	want := fmt.Sprintf("ok %d:%d:%d:%s %s %d", h, m, shift, b01(is24), oracleTimeText(h, m, shift, is24), shift*1440+h*60+m)
	if impl != want {
		addF(o, Finding{Kind: "D", What: fmt.Sprintf("time literal %q denotes %s by the specification", s, want), Impl: impl, Model: want, Input: in})
		return
	}
	// round trip: writing the value out and reading it back yields the same value and notation
	back, _ := implTime(t.ToString())
	if back != impl {
		addF(o, Finding{Kind: "D", What: fmt.Sprintf("time %q does not survive ToString/parse", s), Impl: back, Model: impl, Input: in})
	}
}

func addF(o *Outcome, f Finding) {
	if len(o.Findings) < 5 {
		o.Findings = append(o.Findings, f)
	}
}

// ---- (b) all 4320 shifted times: pairs and plus ----

func timeAt(i int) klog.Time { // i in [0, 4320)
	shift := i/1440 - 1
	h, m := (i%1440)/60, i%60
	var t klog.Time
	switch shift {
	case -1:
		t, _ = klog.NewTimeYesterday(h, m)
	case 0:
		t, _ = klog.NewTime(h, m)
	default:
		t, _ = klog.NewTimeTomorrow(h, m)
	}
	return t
}

func checkPair(env *Env, a, b int, o *Outcome) {
	ta, tb := timeAt(a), timeAt(b)
	in := map[string]any{"space": "pair", "a": a, "b": b}
	r, err := klog.NewRange(ta, tb)
	impl := "err"
	if err == nil {
		impl = fmt.Sprintf("ok %d %s", r.Duration().InMinutes(), r.ToString())
	}
	model := env.Drv.Ask("range", hx(ta.ToString()), hx(tb.ToString()))
	if impl != model {
		addF(o, Finding{Kind: "K", What: "K.C16.range: NewRange/Duration/ToString differ from the model", Impl: impl, Model: model, Input: in})
	}
	{
		h1, m1, s1 := gsHMS(a)
		h2, m2, s2 := gsHMS(b)
		gsCompare(env, o, "range", impl, in, "gs.range", h1, m1, s1, h2, m2, s2)
	}
	// D: valid iff end not before start; lasts end - start minutes
	offA, offB := a-1440, b-1440
	if (err == nil) != (offB >= offA) {
		addF(o, Finding{Kind: "D", What: fmt.Sprintf("range %s - %s: valid must be %v", ta.ToString(), tb.ToString(), offB >= offA), Impl: impl, Input: in})
	} else if err == nil && r.Duration().InMinutes() != offB-offA {
		addF(o, Finding{Kind: "D", What: fmt.Sprintf("range %s - %s must last %d minutes", ta.ToString(), tb.ToString(), offB-offA), Impl: impl, Input: in})
	}
}

func checkPlus(env *Env, a int, d int, fmt12 bool, o *Outcome) {
	ta := timeAt(a)
	if fmt12 {
		ta, _ = klog.NewTimeFromString(ta.ToStringWithFormat(klog.TimeFormat{Use24HourClock: false}))
	}
	in := map[string]any{"space": "plus", "a": a, "d": d, "fmt12": fmt12}
	var impl string
	var res klog.Time
	if p := safely(func() {
		t, err := ta.Plus(klog.NewDuration(0, d))
		if err != nil {
			impl = "err"
		} else {
			res = t
			impl = fmt.Sprintf("ok %s %s", canonTime(t), t.ToString())
		}
	}); p != "" {
		impl = "panic"
	}
	shift := a/1440 - 1
	model := env.Drv.Ask("timeplus", fmt.Sprint((a%1440)/60), fmt.Sprint(a%60), fmt.Sprint(shift), b01(!fmt12), fmt.Sprint(d))
	if impl != model {
		addF(o, Finding{Kind: "K", What: "K.C16.plus: Time.Plus differs from the model", Impl: impl, Model: model, Input: in})
	}
	gsCompare(env, o, "timeplus", impl, in, "gs.timeplus", fmt.Sprint((a%1440)/60), fmt.Sprint(a%60), fmt.Sprint(shift), b01(!fmt12), fmt.Sprint(d))
	off := a - 1440 + d
	want := off >= -1440 && off < 2880
	if impl == "panic" {
		addF(o, Finding{Kind: "D", What: "Time.Plus panics", Impl: impl, Input: in})
	} else if (res != nil) != want {
		addF(o, Finding{Kind: "D", What: fmt.Sprintf("%s plus %d minutes: must succeed=%v", ta.ToString(), d, want), Impl: impl, Input: in})
	} else if res != nil && res.MidnightOffset().InMinutes() != off {
		addF(o, Finding{Kind: "D", What: fmt.Sprintf("%s plus %d minutes must be the time at offset %d", ta.ToString(), d, off), Impl: impl, Input: in})
	} else if res != nil && res.Format().Use24HourClock == fmt12 {
		addF(o, Finding{Kind: "D", What: "Time.Plus changed the notation", Impl: impl, Input: in})
	}
}

// ---- (c) date strings ----

func dateStringAt(year int, i int) string {
	// i: sepKind(4) x month 0..13 x day 0..32
	d := i % 33
	i /= 33
	m := i % 14
	i /= 14
	seps := [][2]string{{"-", "-"}, {"/", "/"}, {"-", "/"}, {"/", "-"}}[i%4]
	return fmt.Sprintf("%04d%s%02d%s%02d", year, seps[0], m, seps[1], d)
}

func checkDateString(env *Env, s string, year, m, d int, sameSep bool, o *Outcome) {
	in := map[string]any{"space": "date", "s": s}
	dt, err := klog.NewDateFromString(s)
	impl := "err"
	if err == nil {
		impl = "ok " + dt.ToString()
	}
	model := env.Drv.Ask("date", hx(s))
	if impl != model {
		addF(o, Finding{Kind: "K", What: "K.C16.date: NewDateFromString/ToString differ from the model on " + s, Impl: impl, Model: model, Input: in})
	}
	if groups, ok := gsSubmatch("datePattern", s); ok {
		gsCompare(env, o, "date", impl, in, append([]string{"gs.date", hx(s)}, groups...)...)
		gsCheckSubmatch(env, o, "datePattern", "rx_klog_datePattern", 3, s, in)
	}
	valid := sameSep && m >= 1 && m <= 12 && d >= 1 && d <= gDaysIn(year, m)
	if valid != (err == nil) {
		addF(o, Finding{Kind: "D", What: fmt.Sprintf("date literal %q: the calendar says valid=%v", s, valid), Impl: impl, Input: in})
	} else if valid && (dt.ToString() != s || dt.Year() != year || dt.Month() != m || dt.Day() != d) {
		addF(o, Finding{Kind: "D", What: fmt.Sprintf("date literal %q is not reproduced", s), Impl: impl, Input: in})
	}
}

// ---- (d) duration strings ----

func durStringAt(i int) (string, bool, int, string) {
	// sign(3) x layout(3) x hours 0..120 x minutes 0..130
	mi := i % 131
	i /= 131
	h := i % 121
	i /= 121
	layout := i % 3
	i /= 3
	sign := []string{"", "+", "-"}[i%3]
	var body string
	valid := true
	mins := 0
	switch layout {
	case 0:
		body = fmt.Sprintf("%dh%dm", h, mi)
		valid = mi < 60
		mins = h*60 + mi
	case 1:
		body = fmt.Sprintf("%dh", h)
		mins = h * 60
	default:
		body = fmt.Sprintf("%dm", mi)
		mins = mi
	}
	if sign == "-" {
		mins = -mins
	}
	return sign + body, valid, mins, durCanon(mins, sign)
}

func implDur(s string) string {
	var impl string
	if p := safely(func() {
		d, err := klog.NewDurationFromString(s)
		if err != nil {
			impl = "err"
		} else {
			impl = fmt.Sprintf("ok %d %s %s", d.InMinutes(), d.ToString(), d.ToStringWithSign())
		}
	}); p != "" {
		impl = "panic"
	}
	return impl
}

func checkDurString(env *Env, s string, valid bool, mins int, canon string, o *Outcome) {
	in := map[string]any{"space": "dur", "s": s}
	impl := implDur(s)
	model := env.Drv.Ask("dur", hx(s))
	if impl != model {
		addF(o, Finding{Kind: "K", What: "K.C16.dur: NewDurationFromString/ToString differ from the model on " + s, Impl: impl, Model: model, Input: in})
	}
	gsCheckDurString(env, s, impl, in, o)
	if !valid {
		if impl != "err" {
			addF(o, Finding{Kind: "D", What: fmt.Sprintf("duration literal %q must be rejected (minutes >= 60 with hours)", s), Impl: impl, Input: in})
		}
		return
	}
	want := fmt.Sprintf("ok %d %s ", mins, canon)
	if !strings.HasPrefix(impl, want) {
		addF(o, Finding{Kind: "D", What: fmt.Sprintf("duration literal %q denotes %d minutes, canonical %q", s, mins, canon), Impl: impl, Model: want, Input: in})
		return
	}
	if back := implDur(canon); !strings.HasPrefix(back, want) {
		addF(o, Finding{Kind: "D", What: fmt.Sprintf("duration %q does not survive ToString/parse", s), Impl: back, Model: want, Input: in})
	}
}

// other strings of the same shapes that must be rejected
var otherLiterals = []string{"", " ", "8", "8:", ":00", "8:00 ", " 8:00", "8:00a", "8:00AM", "8:00amm", "<<8:00", "8:00>>", ">8:00", "8:00<", "８:００", "8：00",
	"1h ", " 1h", "1 h", "1H", "1h1h", "1m1m", "1m1h", "h", "m", "+", "-", "+-1h", "1.5h", "1,5h", "１h", "0x1h", "1e3m",
	"2020-1-1", "2020-01-1", "20-01-01", "02020-01-01", "2020-01-01 ", " 2020-01-01", "2020.01.01", "2020-01-01\n", "２０２０-01-01", "2020-01-01T", "2020--01-01"}

func checkOther(env *Env, s string, o *Outcome) {
	in := map[string]any{"space": "other", "s": s}
	it, _ := implTime(s)
	if mt := env.Drv.Ask("time", hx(s)); it != mt {
		addF(o, Finding{Kind: "K", What: "K.C16.time differs on " + fmt.Sprintf("%q", s), Impl: it, Model: mt, Input: in})
	}
	gsCheckTimeString(env, s, it, in, o)
	id := implDur(s)
	gsCheckDurString(env, s, id, in, o)
	if md := env.Drv.Ask("dur", hx(s)); id != md {
		addF(o, Finding{Kind: "K", What: "K.C16.dur differs on " + fmt.Sprintf("%q", s), Impl: id, Model: md, Input: in})
	}
	dt, err := klog.NewDateFromString(s)
	idt := "err"
	if err == nil {
		idt = "ok " + dt.ToString()
	}
	if mdt := env.Drv.Ask("date", hx(s)); idt != mdt {
		addF(o, Finding{Kind: "K", What: "K.C16.date differs on " + fmt.Sprintf("%q", s), Impl: idt, Model: mdt, Input: in})
	}
	if it != "err" || id != "err" || idt != "err" {
		addF(o, Finding{Kind: "D", What: fmt.Sprintf("%q is not a literal of the specification but is accepted", s), Impl: it + " | " + id + " | " + idt, Input: in})
	}
}

// ---- the enumeration ----

type c16Seg struct {
	name string
	n    int
}

func c16Segments(tier string) []c16Seg {
	th := tier == "thorough"
	years := 300
	pairs, plus := 40000, 60000
	if th {
		years = 10000
		pairs, plus = 4320*4320, 4320*5761*2
	}
	return []c16Seg{
		{"time", 2 * 110 * 100 * 3 * 2},
		{"dur", 3 * 3 * 121 * 131},
		{"date", years * 4 * 14 * 33},
		{"pair", pairs},
		{"plus", plus},
		{"other", len(otherLiterals)},
		{"gosrc", map[bool]int{false: 4000, true: 200000}[th]},
	}
}

func c16Years(tier string, i int) int {
	if tier == "thorough" {
		return i
	}
	// 300 years: boundary and leap-rule years plus a spread
	special := []int{0, 1, 4, 99, 100, 400, 1582, 1600, 1700, 1900, 1999, 2000, 2001, 2020, 2024, 2100, 2400, 9996, 9998, 9999}
	if i < len(special) {
		return special[i]
	}
	return (i * 37) % 10000
}

func init() {
	register(&Prop{
		ID: "C16",
		Rule: "enumerated spaces, in batches of 500 elements: all 132000 strings <?D{1,2}:DD(am|pm)?>?; all duration strings sign x {XhYm,Xh,Ym} x hours 0-120 x minutes 0-130; " +
			"all Y-M-D / Y/M/D / mixed-separator strings with month 00-13 and day 00-32 for 300 years (quick) or all years 0000-9999 (thorough); pairs of the 4320 shifted times (sampled quick, all thorough); " +
			"times x durations in [-2880,2880] in both notations (sampled quick, all thorough); a list of near-miss literals. Every element counts as an evaluation; non-trivial/distinct = distinct batches with at least one accepted and one rejected element",
		Count: func(tier string) int {
			n := 0
			for _, s := range c16Segments(tier) {
				n += (s.n + c16Batch - 1) / c16Batch
			}
			return n
		},
		Exhaustive: func(tier string) bool { return tier == "thorough" },
		Gen: func(r *Rand, idx int, tier string) map[string]any {
			for _, s := range c16Segments(tier) {
				nb := (s.n + c16Batch - 1) / c16Batch
				if idx < nb {
					return map[string]any{"space": s.name, "batch": idx, "rseed": r.Intn(1 << 30)}
				}
				idx -= nb
			}
			return map[string]any{"space": "other", "batch": 0}
		},
		Run: runC16,
	})
}

func runC16(env *Env, data map[string]any) *Outcome {
	space := str(data, "space")
	o := &Outcome{Tags: []string{"space:" + space}}
	// single-element replay
	if _, ok := data["s"]; ok || data["a"] != nil {
		switch space {
		case "time":
			checkTimeString(env, str(data, "s"), o)
		case "dur", "date", "other":
			checkOther(env, str(data, "s"), o)
			o.Findings = nil
			replayLiteral(env, space, str(data, "s"), o)
		case "pair":
			checkPair(env, num(data, "a"), num(data, "b"), o)
		case "plus":
			checkPlus(env, num(data, "a"), num(data, "d"), boolv(data, "fmt12"), o)
		}
		return o
	}
	b := num(data, "batch")
	var total int
	for _, s := range c16Segments(env.Tier) {
		if s.name == space {
			total = s.n
		}
	}
	r := NewRand(int64(num(data, "rseed")), "C16", b)
	lo, hi := b*c16Batch, min((b+1)*c16Batch, total)
	before := 0
	for i := lo; i < hi; i++ {
		switch space {
		case "time":
			checkTimeString(env, timeStringAt(i), o)
		case "dur":
			s, valid, mins, canon := durStringAt(i)
			checkDurString(env, s, valid, mins, canon, o)
		case "date":
			per := 4 * 14 * 33
			year := c16Years(env.Tier, i/per)
			j := i % per
			s := dateStringAt(year, j)
			checkDateString(env, s, year, (j/33)%14, j%33, (j/(33*14))%4 < 2, o)
		case "pair":
			if env.Tier == "thorough" {
				checkPair(env, i/4320, i%4320, o)
			} else {
				a := r.Intn(4320)
				bb := a + r.Range(-3, 3)
				if r.P(1, 2) || bb < 0 || bb >= 4320 {
					bb = r.Intn(4320)
				}
				checkPair(env, a, bb, o)
			}
		case "plus":
			if env.Tier == "thorough" {
				j := i / 2
				checkPlus(env, j/5761, j%5761-2880, i%2 == 1, o)
			} else {
				a := r.Intn(4320)
				d := r.Range(-2880, 2880)
				if r.P(1, 3) { // near the representable boundaries
					d = Pick(r, []int{-1440, 2879, 2880, -1441}) - (a - 1440) + r.Range(-1, 1)
				}
				checkPlus(env, a, d, r.P(1, 3), o)
			}
		case "other":
			checkOther(env, otherLiterals[i], o)
		case "gosrc":
			gsCheckMisc(env, r, o)
		}
		_ = before
	}
	o.Evals = hi - lo
	o.Key = fmt.Sprintf("%s/%d", space, b)
	o.Nontrivial = true
	if b == 0 {
		o.Sample = map[string]any{"space": space, "first_elements": c16SampleOf(env, space)}
	}
	return o
}

func replayLiteral(env *Env, space, s string, o *Outcome) {
	switch space {
	case "dur":
		// recompute expectations by parsing the shape
		for i := 0; i < 3*3*121*131; i++ {
			if t, valid, mins, canon := durStringAt(i); t == s {
				checkDurString(env, s, valid, mins, canon, o)
				return
			}
		}
	case "date":
		var y, m, d int
		if len(s) == 10 {
			fmt.Sscanf(s[0:4], "%d", &y)
			fmt.Sscanf(s[5:7], "%d", &m)
			fmt.Sscanf(s[8:10], "%d", &d)
			checkDateString(env, s, y, m, d, s[4] == s[7], o)
			return
		}
	}
	checkOther(env, s, o)
}

func c16SampleOf(env *Env, space string) []string {
	switch space {
	case "time":
		return []string{timeStringAt(0), timeStringAt(12345), timeStringAt(131999)}
	case "dur":
		a, _, _, _ := durStringAt(7)
		b, _, _, _ := durStringAt(100000)
		return []string{a, b}
	case "date":
		return []string{dateStringAt(2020, 5), dateStringAt(1900, 2*33+29)}
	}
	return []string{space}
}
