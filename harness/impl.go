package main

// Adapters that call the real klog packages and render their results in the canonical
// one-line forms that the Lean driver prints (KlogV/Model/Canon.lean).

import (
	"fmt"
	"strings"

	"github.com/jotaen/klog/klog"
	"github.com/jotaen/klog/klog/parser"
	"github.com/jotaen/klog/klog/parser/txt"
)

func b01(b bool) string {
	if b {
		return "1"
	}
	return "0"
}

func canonTime(t klog.Time) string {
	shift := 0
	if t.IsYesterday() {
		shift = -1
	} else if t.IsTomorrow() {
		shift = 1
	}
	return fmt.Sprintf("%d:%d:%d:%s", t.Hour(), t.Minute(), shift, b01(t.Format().Use24HourClock))
}

func canonLinesS(ls []string) string {
	xs := make([]string, len(ls))
	for i, l := range ls {
		xs[i] = hx(l)
	}
	return "[" + strings.Join(xs, ",") + "]"
}

func canonEntry(e klog.Entry) string {
	v := klog.Unbox[string](&e,
		func(r klog.Range) string {
			return fmt.Sprintf("T(%s,%s,%s)", canonTime(r.Start()), canonTime(r.End()), b01(r.Format().UseSpacesAroundDash))
		},
		func(d klog.Duration) string {
			return fmt.Sprintf("D(%d,%s)", d.InMinutes(), d.ToString())
		},
		func(o klog.OpenRange) string {
			return fmt.Sprintf("O(%s,%s,%d)", canonTime(o.Start()), b01(o.Format().UseSpacesAroundDash), o.Format().AdditionalPlaceholderChars)
		})
	return v + ":" + canonLinesS(e.Summary().Lines())
}

func canonRecord(r klog.Record) string {
	es := make([]string, len(r.Entries()))
	for i, e := range r.Entries() {
		es[i] = canonEntry(e)
	}
	return fmt.Sprintf("R(%s,%d,%s,[%s])", r.Date().ToString(), r.ShouldTotal().InMinutes(), canonLinesS(r.Summary().Lines()), strings.Join(es, ","))
}

func canonRecords(rs []klog.Record) string {
	xs := make([]string, len(rs))
	for i, r := range rs {
		xs[i] = canonRecord(r)
	}
	return strings.Join(xs, " ")
}

func canonErr(e txt.Error) string {
	lt := "PANIC"
	if msg := safely(func() { lt = hx(e.LineText()) }); msg != "" {
		lt = "PANIC"
	}
	return fmt.Sprintf("E(%d,%d,%d,%s,%s)", e.LineNumber(), e.Position(), e.Length(), e.Code(), lt)
}

func canonErrs(es []txt.Error) string {
	xs := make([]string, len(es))
	for i, e := range es {
		xs[i] = canonErr(e)
	}
	return strings.Join(xs, " ")
}

func canonEnding(s string) string {
	switch s {
	case "":
		return "n"
	case "\n":
		return "l"
	case "\r\n":
		return "c"
	}
	return "?" + hx(s)
}

func canonBlock(b txt.Block) string {
	ls := make([]string, len(b.Lines()))
	for i, l := range b.Lines() {
		ls[i] = hx(l.Text) + "/" + canonEnding(l.LineEnding)
	}
	return fmt.Sprintf("B(%d;%s)", b.OverallLineIndex(0), strings.Join(ls, ","))
}

func canonBlocks(bs []txt.Block) string {
	xs := make([]string, len(bs))
	for i, b := range bs {
		xs[i] = canonBlock(b)
	}
	return strings.Join(xs, " ")
}

// canonParse renders the result of a parser run like Lean's `canonDoc`.
func canonParse(rs []klog.Record, bs []txt.Block, errs []txt.Error) string {
	if errs != nil {
		return "errors " + canonErrs(errs)
	}
	return "records " + canonRecords(rs) + " | " + canonBlocks(bs)
}

// implParse runs the serial parser; a panic is rendered as "panic".
func implParse(text string) (res string, panicMsg string) {
	panicMsg = safely(func() {
		rs, bs, errs := parser.NewSerialParser().Parse(text)
		res = canonParse(rs, bs, errs)
	})
	if panicMsg != "" {
		res = "panic"
	}
	return
}

// implBlocks renders only the block structure, obtained from ParseBlock directly, so that it is
// available for invalid texts too.
func implBlocks(text string) (res string, panicMsg string) {
	panicMsg = safely(func() {
		var bs []txt.Block
		total, lines := 0, 0
		for {
			b, n := txt.ParseBlock(text[total:], lines)
			if n == 0 || b == nil {
				break
			}
			total += n
			lines += len(b.Lines())
			bs = append(bs, b)
		}
		res = "ok " + canonBlocks(bs)
	})
	if panicMsg != "" {
		res = "panic"
	}
	return
}
