package main

import (
	"fmt"
	"os"
	"path/filepath"
	"strings"
)

// C05: a mutating command either leaves a valid file or leaves the file untouched.

var failingKinds = []string{"track", "start", "stop", "switch", "switch", "pause", "create"}

func init() {
	register(&Prop{
		ID: "C05",
		Rule: "files: DocGen valid documents, rule-violating mutants (invalid), token layouts and raw bytes, plus a missing path and a directory as target; crossed with every mutating command, with parameters biased towards failure at each step " +
			"(no record / no open range / end before start / second open range / --resume-nth out of range / conflicting flags / entry text that is not an entry or breaks the record), run through the real CLI on a real file. " +
			"Observed: bytes and mtime before/after, exit status. Non-trivial: the command fails on a valid file, or succeeds; distinct = distinct (file, command, clock, config)",
		Count: func(tier string) int {
			if tier == "thorough" {
				return 200000
			}
			return 8000
		},
		Gen: func(r *Rand, idx int, tier string) map[string]any {
			var text, kind string
			doc := GenDoc(r, DocOpts{CleanText: r.P(3, 4), SortedDates: r.P(1, 2)})
			switch r.Weighted(6, 3, 1, 1) {
			case 0:
				text, kind = doc.Text, "valid"
			case 1:
				if m := Mutate(r, doc); m != nil {
					text, kind = m.Text, "invalid"
				} else {
					text, kind = doc.Text, "valid"
				}
			case 2:
				text, kind = GenLayout(r), "layout"
			default:
				text, kind = GenBytes(r), "bytes"
			}
			c := GenCmdCase(r, doc, failingKinds)
			c.Text = text
			d := c.Data()
			d["filekind"] = kind
			d["target"] = []string{"file", "file", "file", "file", "file", "file", "file", "file", "missing", "dir"}[r.Intn(10)]
			return d
		},
		Run: runC05,
	})
}

func runC05(env *Env, data map[string]any) *Outcome {
	c := cmdCaseOf(data)
	target := str(data, "target")
	o := &Outcome{Key: hashKey(fmt.Sprint(data)), Tags: []string{"cmd:" + c.Cmd.Kind, "file:" + str(data, "filekind"), "target:" + target}}
	if target == "missing" || target == "dir" {
		p := filepath.Join(env.TmpDir, "nonexistent.klg")
		if target == "dir" {
			p = filepath.Join(env.TmpDir, "adir")
			os.MkdirAll(p, 0755)
		}
		t0 := mkTime(c.Now[0], c.Now[1], c.Now[2], c.Now[3], c.Now[4])
		cmd := c.Cmd
		cmd.Ticks = nil
		res := runCLI(env, CLIOpts{Config: c.Cfg.Ini(), Now: t0}, cmd.CLIArgs(p)...)
		_, statErr := os.Stat(filepath.Join(env.TmpDir, "nonexistent.klg"))
		if res.Panic != "" {
			o.Findings = append(o.Findings, Finding{Kind: "D", What: "command on a " + target + " target panics: " + res.Panic})
		} else if res.Code == 0 {
			o.Findings = append(o.Findings, Finding{Kind: "D", What: "command on a " + target + " target reports success"})
		} else if target == "missing" && statErr == nil {
			o.Findings = append(o.Findings, Finding{Kind: "D", What: "failed command created the missing target file"})
			os.Remove(filepath.Join(env.TmpDir, "nonexistent.klg"))
		}
		o.Nontrivial = true
		return o
	}
	res := runCommand(env, c.Text, c.Cfg, c.Now, c.Cmd, cpusFor(c.Text))
	model := modelCommand(env, c.Text, c.Cfg, c.Now, c.Cmd)
	if res.Outcome != model {
		o.Findings = append(o.Findings, Finding{Kind: "K", What: "K.C05.cmd: outcome of `klog " + c.Cmd.Kind + "` differs from the model", Impl: short(res.Outcome, 3000) + " | " + short(res.Err, 200), Model: short(model, 3000)})
	}
	switch {
	case res.Panic != "":
		o.Findings = append(o.Findings, Finding{Kind: "D", What: "klog " + c.Cmd.Kind + " panics: " + res.Panic, Impl: "panic", Signature: crashSignature("C05", res.Panic, data)})
	case res.Code == 0:
		o.Tags = append(o.Tags, "success")
		if parsed, pm := implParse(res.After); pm != "" || !strings.HasPrefix(parsed, "records ") {
			o.Findings = append(o.Findings, Finding{Kind: "D", What: "the command reports success but the file on disk does not parse", Impl: hx(res.After), Model: short(parsed, 400)})
		}
		if str(data, "filekind") == "invalid" {
			o.Findings = append(o.Findings, Finding{Kind: "D", What: "the command succeeds on an unparseable target", Impl: hx(res.After)})
		}
		o.Nontrivial = true
	default:
		o.Tags = append(o.Tags, "failure")
		if res.After != c.Text {
			o.Findings = append(o.Findings, Finding{Kind: "D", What: "the command reports failure but the file's bytes changed (partially applied edit?)", Impl: hx(res.After), Model: hx(c.Text)})
		} else if res.Written {
			o.Findings = append(o.Findings, Finding{Kind: "D", What: "the command reports failure but the file was written (mtime changed)"})
		}
		o.Nontrivial = str(data, "filekind") == "valid"
	}
	o.Sample = map[string]any{"cmd": c.Cmd, "file": str(data, "filekind"), "outcome": short(res.Outcome, 40), "exit": res.Code}
	return o
}
