package main

// The regular expressions of the code under test, translated into Lean terms (KlogV/Gen/Regexes.lean).
//
// This is a TRANSLATOR tie (DESIGN.md §0.9): the Go source files of the module this binary was built
// against are parsed (go/parser), every `regexp.MustCompile(<literal>)` is located, its pattern is parsed
// with Go's own `regexp/syntax` (Perl flags, exactly what `regexp.MustCompile` does) and the syntax tree
// is printed as a term of `KlogV.Rx.Re`.  `\p{L}` and `\p{Zs}` — which `regexp/syntax` expands into
// rune ranges — are folded back into named classes 0 and 1, so that the theorems hold for every
// letter table, as the rest of the model does.  The theorems in KlogV/Props/Regexes.lean then
// prove (by a verified equivalence checker, evaluated in the kernel) that each extracted expression
// denotes the same marked language — including the positions of all capture groups — as the
// expression the model was written against.

import (
	"fmt"
	"go/ast"
	"go/parser"
	"go/token"
	"os"
	"path/filepath"
	"regexp/syntax"
	"runtime/debug"
	"sort"
	"strconv"
	"strings"
	"unicode"
)

// repoDir: the directory of the klog module this binary was built against (the `replace` target).
func repoDir() string {
	if d := os.Getenv("KLOGV_REPO"); d != "" {
		return d
	}
	if bi, ok := debug.ReadBuildInfo(); ok {
		for _, m := range bi.Deps {
			if m.Path == "github.com/jotaen/klog" && m.Replace != nil && m.Replace.Path != "" {
				return m.Replace.Path
			}
		}
	}
	return "/repo"
}

type rxFound struct {
	name string // Lean identifier
	src  string // pattern
	pos  string // file:line
}

func leanIdent(parts ...string) string {
	s := strings.Join(parts, "_")
	var sb strings.Builder
	for _, c := range s {
		if c >= 'a' && c <= 'z' || c >= 'A' && c <= 'Z' || c >= '0' && c <= '9' || c == '_' {
			sb.WriteRune(c)
		} else {
			sb.WriteByte('_')
		}
	}
	return sb.String()
}

// findRegexes walks the non-test, non-verif Go files below <repo>/klog.
func findRegexes(repo string) ([]rxFound, error) {
	var res []rxFound
	fset := token.NewFileSet()
	var paths []string
	filepath.Walk(filepath.Join(repo, "klog"), func(p string, info os.FileInfo, err error) error {
		if err == nil && !info.IsDir() && strings.HasSuffix(p, ".go") && !strings.HasSuffix(p, "_test.go") && !strings.HasPrefix(filepath.Base(p), "verif_hook") {
			paths = append(paths, p)
		}
		return nil
	})
	sort.Strings(paths)
	// package-level string constants / variables with a literal value, per package directory (a pattern may be given by name)
	pkgConsts := map[string]map[string]ast.Expr{}
	parsed := map[string]*ast.File{}
	for _, p := range paths {
		f, err := parser.ParseFile(fset, p, nil, 0)
		if err != nil {
			return nil, err
		}
		parsed[p] = f
		m := pkgConsts[filepath.Dir(p)]
		if m == nil {
			m = map[string]ast.Expr{}
			pkgConsts[filepath.Dir(p)] = m
		}
		for _, d := range f.Decls {
			if gd, ok := d.(*ast.GenDecl); ok && (gd.Tok == token.CONST || gd.Tok == token.VAR) {
				for _, sp := range gd.Specs {
					if vs, ok := sp.(*ast.ValueSpec); ok {
						for i, n := range vs.Names {
							if i < len(vs.Values) {
								m[n.Name] = vs.Values[i]
							}
						}
					}
				}
			}
		}
	}
	for _, p := range paths {
		f := parsed[p]
		rel, _ := filepath.Rel(filepath.Join(repo, "klog"), p)
		pkg := strings.TrimSuffix(filepath.ToSlash(filepath.Dir(rel)), "/")
		if pkg == "." {
			pkg = "klog"
		}
		consts := pkgConsts[filepath.Dir(p)]
		isMustCompile := func(c *ast.CallExpr) (string, bool) {
			sel, ok := c.Fun.(*ast.SelectorExpr)
			if !ok || (sel.Sel.Name != "MustCompile" && sel.Sel.Name != "Compile") {
				return "", false
			}
			if id, ok := sel.X.(*ast.Ident); !ok || id.Name != "regexp" {
				return "", false
			}
			if len(c.Args) != 1 {
				return "", false
			}
			s, ok := constString(c.Args[0], consts)
			if !ok {
				return "?", true // a pattern that is not a constant string: reported as untranslatable
			}
			return s, true
		}
		for _, d := range f.Decls {
			switch x := d.(type) {
			case *ast.GenDecl:
				for _, sp := range x.Specs {
					vs, ok := sp.(*ast.ValueSpec)
					if !ok {
						continue
					}
					for i, v := range vs.Values {
						c, ok := v.(*ast.CallExpr)
						if !ok || i >= len(vs.Names) {
							continue
						}
						if s, ok := isMustCompile(c); ok {
							res = append(res, rxFound{name: leanIdent("rx", pkg, vs.Names[i].Name), src: s, pos: fmt.Sprintf("%s:%d", filepath.ToSlash(filepath.Join("klog", rel)), fset.Position(c.Pos()).Line)})
						}
					}
				}
			case *ast.FuncDecl:
				n := 0
				fn := x.Name.Name
				if x.Recv != nil && len(x.Recv.List) == 1 {
					t := x.Recv.List[0].Type
					if st, ok := t.(*ast.StarExpr); ok {
						t = st.X
					}
					if id, ok := t.(*ast.Ident); ok {
						fn = id.Name + "_" + fn
					}
				}
				ast.Inspect(x, func(nd ast.Node) bool {
					if c, ok := nd.(*ast.CallExpr); ok {
						if s, ok := isMustCompile(c); ok {
							n++
							res = append(res, rxFound{name: leanIdent("rx", pkg, fn, strconv.Itoa(n)), src: s, pos: fmt.Sprintf("%s:%d", filepath.ToSlash(filepath.Join("klog", rel)), fset.Position(c.Pos()).Line)})
						}
					}
					return true
				})
			}
		}
	}
	return res, nil
}

// constString evaluates a constant string expression: literals, names of package-level constants, `+`, parentheses.
func constString(e ast.Expr, consts map[string]ast.Expr) (string, bool) {
	return constStringN(e, consts, 0)
}

func constStringN(e ast.Expr, consts map[string]ast.Expr, depth int) (string, bool) {
	if depth > 20 {
		return "", false
	}
	switch x := e.(type) {
	case *ast.BasicLit:
		if x.Kind != token.STRING {
			return "", false
		}
		s, err := strconv.Unquote(x.Value)
		return s, err == nil
	case *ast.ParenExpr:
		return constStringN(x.X, consts, depth+1)
	case *ast.Ident:
		if v, ok := consts[x.Name]; ok {
			return constStringN(v, consts, depth+1)
		}
		return "", false
	case *ast.BinaryExpr:
		if x.Op != token.ADD {
			return "", false
		}
		a, ok1 := constStringN(x.X, consts, depth+1)
		b, ok2 := constStringN(x.Y, consts, depth+1)
		return a + b, ok1 && ok2
	}
	return "", false
}

type rset [][2]rune // sorted, disjoint, non-adjacent inclusive ranges

func rsetOf(pairs []rune) rset {
	var r rset
	for i := 0; i+1 < len(pairs); i += 2 {
		r = append(r, [2]rune{pairs[i], pairs[i+1]})
	}
	return r.norm()
}

func (r rset) norm() rset {
	sort.Slice(r, func(i, j int) bool { return r[i][0] < r[j][0] })
	var out rset
	for _, x := range r {
		if len(out) > 0 && x[0] <= out[len(out)-1][1]+1 {
			if x[1] > out[len(out)-1][1] {
				out[len(out)-1][1] = x[1]
			}
		} else {
			out = append(out, x)
		}
	}
	return out
}

func (r rset) complement() rset {
	var out rset
	next := rune(0)
	for _, x := range r {
		if x[0] > next {
			out = append(out, [2]rune{next, x[0] - 1})
		}
		next = x[1] + 1
	}
	if next <= unicode.MaxRune {
		out = append(out, [2]rune{next, unicode.MaxRune})
	}
	return out
}

func (r rset) size() int {
	n := 0
	for _, x := range r {
		n += int(x[1]-x[0]) + 1
	}
	return n
}

func (r rset) containsAll(o rset) bool { return o.minus(r).size() == 0 }

func (r rset) minus(o rset) rset { return r.intersect(o.complement()) }

func (r rset) intersect(o rset) rset {
	var out rset
	i, j := 0, 0
	for i < len(r) && j < len(o) {
		lo, hi := max(r[i][0], o[j][0]), min(r[i][1], o[j][1])
		if lo <= hi {
			out = append(out, [2]rune{lo, hi})
		}
		if r[i][1] < o[j][1] {
			i++
		} else {
			j++
		}
	}
	return out
}

func tableSet(t *unicode.RangeTable) rset {
	var r rset
	for _, x := range t.R16 {
		for c := rune(x.Lo); c <= rune(x.Hi); c += rune(x.Stride) {
			r = append(r, [2]rune{c, c})
		}
	}
	for _, x := range t.R32 {
		for c := rune(x.Lo); c <= rune(x.Hi); c += rune(x.Stride) {
			r = append(r, [2]rune{c, c})
		}
	}
	return r.norm()
}

var namedClasses = []struct {
	name string
	set  rset
}{{"L", tableSet(unicode.L)}, {"Zs", tableSet(unicode.Zs)}}

func leanCls(set rset) string {
	neg := false
	if set.size() > (unicode.MaxRune+1)/2 {
		neg = true
		set = set.complement()
	}
	var named []string
	for k, nc := range namedClasses {
		if set.containsAll(nc.set) {
			named = append(named, strconv.Itoa(k))
			set = set.minus(nc.set)
		}
	}
	var rs []string
	for _, x := range set {
		rs = append(rs, fmt.Sprintf("(%d, %d)", x[0], x[1]))
	}
	return fmt.Sprintf("(Re.cls ⟨%v, [%s], [%s]⟩)", neg, strings.Join(rs, ", "), strings.Join(named, ", "))
}

type rxTrans struct {
	unsupported []string
}

func (t *rxTrans) re(r *syntax.Regexp) string {
	switch r.Op {
	case syntax.OpNoMatch:
		return "Re.zero"
	case syntax.OpEmptyMatch:
		return "Re.eps"
	case syntax.OpLiteral:
		if r.Flags&syntax.FoldCase != 0 {
			t.unsupported = append(t.unsupported, "case-insensitive literal")
		}
		var xs []string
		for _, c := range r.Rune {
			xs = append(xs, strconv.Itoa(int(c)))
		}
		return "(Re.lit [" + strings.Join(xs, ", ") + "])"
	case syntax.OpCharClass:
		return leanCls(rsetOf(r.Rune))
	case syntax.OpAnyCharNotNL:
		return "(Re.cls ⟨true, [(10, 10)], []⟩)"
	case syntax.OpAnyChar:
		return "(Re.cls ⟨true, [], []⟩)"
	case syntax.OpCapture:
		return fmt.Sprintf("(Re.group %d %s)", r.Cap, t.re(r.Sub[0]))
	case syntax.OpStar:
		return "(Re.star " + t.re(r.Sub[0]) + ")"
	case syntax.OpPlus:
		return "(Re.plus " + t.re(r.Sub[0]) + ")"
	case syntax.OpQuest:
		return "(Re.opt " + t.re(r.Sub[0]) + ")"
	case syntax.OpRepeat:
		s := t.re(r.Sub[0])
		if r.Max < 0 {
			return fmt.Sprintf("(Re.cat (Re.rep %s %d) (Re.star %s))", s, r.Min, s)
		}
		return fmt.Sprintf("(Re.repRange %s %d %d)", s, r.Min, r.Max)
	case syntax.OpConcat:
		var xs []string
		for _, s := range r.Sub {
			xs = append(xs, t.re(s))
		}
		return "(Re.catl [" + strings.Join(xs, ", ") + "])"
	case syntax.OpAlternate:
		var xs []string
		for _, s := range r.Sub {
			xs = append(xs, t.re(s))
		}
		return "(Re.altl [" + strings.Join(xs, ", ") + "])"
	default:
		t.unsupported = append(t.unsupported, r.Op.String())
		return "Re.zero"
	}
}

// translate: anchors at the two ends of the top-level concatenation become flags.
func translateRegex(src string) (term string, anchStart, anchEnd bool, unsupported []string) {
	r, err := syntax.Parse(src, syntax.Perl)
	if err != nil {
		return "Re.zero", false, false, []string{"does not parse: " + err.Error()}
	}
	t := &rxTrans{}
	subs := []*syntax.Regexp{r}
	if r.Op == syntax.OpConcat {
		subs = append([]*syntax.Regexp{}, r.Sub...)
	}
	if len(subs) > 0 && subs[0].Op == syntax.OpBeginText {
		anchStart = true
		subs = subs[1:]
	}
	if len(subs) > 0 && subs[len(subs)-1].Op == syntax.OpEndText {
		anchEnd = true
		subs = subs[:len(subs)-1]
	}
	var xs []string
	for _, s := range subs {
		xs = append(xs, t.re(s))
	}
	switch len(xs) {
	case 0:
		term = "Re.eps"
	case 1:
		term = xs[0]
	default:
		term = "(Re.catl [" + strings.Join(xs, ", ") + "])"
	}
	return term, anchStart, anchEnd, t.unsupported
}

func genRegexes() string {
	repo := repoDir()
	found, err := findRegexes(repo)
	var sb strings.Builder
	sb.WriteString("/- GENERATED by `klogv extract`: every regexp.MustCompile(<literal>) in the Go sources of the module under test,\n" +
		"parsed with Go's regexp/syntax (Perl flags) and printed as a term of KlogV.Rx.Re; `\\p{L}` = named class 0, `\\p{Zs}` = named class 1\n" +
		"(Unicode " + unicode.Version + ").  Do not edit. -/\nimport KlogV.Regex.Basic\nnamespace KlogV.Gen\nopen KlogV.Rx\n\n")
	if err != nil {
		sb.WriteString("-- ERROR: " + err.Error() + "\n")
	}
	var names []string
	for _, f := range found {
		term, a, e, uns := translateRegex(f.src)
		sb.WriteString(fmt.Sprintf("-- %s: `%s`\n", f.pos[:strings.LastIndex(f.pos, ":")], strings.ReplaceAll(strings.ReplaceAll(f.src, "\n", "\\n"), "\r", "\\r")))
		sb.WriteString(fmt.Sprintf("def %s : Re :=\n  %s\n", f.name, term))
		sb.WriteString(fmt.Sprintf("def %s_anchors : Bool × Bool := (%v, %v)\n", f.name, a, e))
		sb.WriteString(fmt.Sprintf("def %s_unsupported : List String := [%s]\n\n", f.name, strings.Join(mapS(uns, leanStr), ", ")))
		names = append(names, leanStr(f.name))
	}
	sb.WriteString("def regexNames : List String := [" + strings.Join(names, ", ") + "]\n\n")
	// all of them as one list: the ties look a pattern up by its LANGUAGE, not by its name, so that renaming or moving a
	// pattern in the Go code does not break them
	var all []string
	for _, f := range found {
		all = append(all, fmt.Sprintf("(%s, %s, %s_anchors, %s_unsupported)", leanStr(f.name), f.name, f.name, f.name))
	}
	sb.WriteString("def allRegexes : List (String × Re × (Bool × Bool) × List String) :=\n  [" + strings.Join(all, ",\n   ") + "]\n\nend KlogV.Gen\n")
	return sb.String()
}

func mapS(xs []string, f func(string) string) []string {
	out := make([]string, len(xs))
	for i, x := range xs {
		out[i] = f(x)
	}
	return out
}

func init() {
	extraExtractors["Regexes.lean"] = genRegexes
}
