package main

import (
	"fmt"
	"regexp"
	"strings"

	"github.com/jotaen/klog/klog"
	"github.com/jotaen/klog/klog/app"
	"github.com/jotaen/klog/klog/service"
)

// The configuration file (klog/app/config.go, service.NewRoundingFromString): correspondence with the
// model (`newConfig`, KlogV/Model/ConfigFile.lean) and, for files built from documented settings, the
// configuration the documentation promises.

var reCfgKey = regexp.MustCompile("`([a-z_0-9]+)` setting")

// implConfig runs the real app.NewConfig and renders the result like the driver's `config` op.
func implConfig(text string, cpus int, noColor bool, editor string) string {
	res := ""
	msg := safely(func() {
		cfg, err := app.NewConfig(
			app.FromDeterminedValues{NumCpus: cpus},
			app.FromEnvVars{GetVar: func(k string) string {
				switch k {
				case "NO_COLOR":
					if noColor {
						return "1"
					}
				case "EDITOR":
					return editor
				}
				return ""
			}},
			app.FromConfigFile{FileContents: text},
		)
		if err != nil {
			// which setting was refused is read off the message; when the wording does not allow that, only the refusal counts
			if m := reCfgKey.FindStringSubmatch(err.Details()); m != nil {
				res = "bad " + m[1]
			} else if strings.Contains(err.Details(), "Malformed syntax in line") {
				res = "bad syntax"
			} else {
				res = "bad ?"
			}
			return
		}
		ed := "~"
		cfg.Editor.Unwrap(func(s string) { ed = hx(s) })
		round, should, dashes, t24, nowarn := "~", "~", "~", "~", "~"
		cfg.DefaultRounding.Unwrap(func(r service.Rounding) { round = fmt.Sprint(r.ToInt()) })
		cfg.DefaultShouldTotal.Unwrap(func(s klog.ShouldTotal) { should = fmt.Sprint(s.InMinutes()) })
		b01 := func(b bool) string {
			if b {
				return "1"
			}
			return "0"
		}
		cfg.DateUseDashes.Unwrap(func(b bool) { dashes = b01(b) })
		cfg.TimeUse24HourClock.Unwrap(func(b bool) { t24 = b01(b) })
		cfg.NoWarnings.Unwrap(func(d service.DisabledCheckers) {
			nowarn = ""
			for _, n := range warnNames {
				nowarn += b01(d[n])
			}
		})
		res = fmt.Sprintf("ok editor=%s colour=%s cpus=%d round=%s should=%s dashes=%s t24=%s nowarn=%s", ed, string(cfg.ColourScheme.Value()), cfg.CpuKernels.Value(), round, should, dashes, t24, nowarn)
	})
	if msg != "" {
		return "panic"
	}
	return res
}

type cfgExpect struct {
	editor, colour, round, should, dashes, t24, nowarn string
}

type cfgSetting struct {
	line string
	set  func(e *cfgExpect)
}

var goodSettings = []cfgSetting{
	{"editor = vim", func(e *cfgExpect) { e.editor = hx("vim") }},
	{"editor = code --wait  ", func(e *cfgExpect) { e.editor = hx("code --wait  ") }},
	{"editor = \"my editor\" -x", func(e *cfgExpect) { e.editor = hx("\"my editor\" -x") }},
	{"colour_scheme = dark", func(e *cfgExpect) { e.colour = "dark" }},
	{"colour_scheme = light", func(e *cfgExpect) { e.colour = "light" }},
	{"colour_scheme = basic", func(e *cfgExpect) { e.colour = "basic" }},
	{"colour_scheme = no_colour", func(e *cfgExpect) { e.colour = "no_colour" }},
	{"default_rounding = 5m", func(e *cfgExpect) { e.round = "5" }},
	{"default_rounding = 10m", func(e *cfgExpect) { e.round = "10" }},
	{"default_rounding = 15m", func(e *cfgExpect) { e.round = "15" }},
	{"default_rounding = 30m", func(e *cfgExpect) { e.round = "30" }},
	{"default_rounding = 60m", func(e *cfgExpect) { e.round = "60" }},
	{"default_should_total = 8h!", func(e *cfgExpect) { e.should = "480" }},
	{"default_should_total = 6h30m!", func(e *cfgExpect) { e.should = "390" }},
	{"default_should_total = 45m!", func(e *cfgExpect) { e.should = "45" }},
	{"date_format = YYYY-MM-DD", func(e *cfgExpect) { e.dashes = "1" }},
	{"date_format = YYYY/MM/DD", func(e *cfgExpect) { e.dashes = "0" }},
	{"time_convention = 24h", func(e *cfgExpect) { e.t24 = "1" }},
	{"time_convention = 12h", func(e *cfgExpect) { e.t24 = "0" }},
	{"no_warnings = UNCLOSED_OPEN_RANGE", func(e *cfgExpect) { e.nowarn = "1000" }},
	{"no_warnings = FUTURE_ENTRIES", func(e *cfgExpect) { e.nowarn = "0100" }},
	{"no_warnings = OVERLAPPING_RANGES", func(e *cfgExpect) { e.nowarn = "0010" }},
	{"no_warnings = MORE_THAN_24H", func(e *cfgExpect) { e.nowarn = "0001" }},
	{"no_warnings = UNCLOSED_OPEN_RANGE, MORE_THAN_24H", func(e *cfgExpect) { e.nowarn = "1001" }},
	{"no_warnings = MORE_THAN_24H,FUTURE_ENTRIES, OVERLAPPING_RANGES", func(e *cfgExpect) { e.nowarn = "0111" }},
}

// lines that the documentation does not mention but the reader accepts or refuses in some definite way
// (correspondence only)
var oddLines = []string{
	"default_rounding = 1h", "default_rounding = 60", "default_rounding = +15m", "default_rounding = 015m", "default_rounding = 12m", "default_rounding = 20m",
	"default_rounding = 7m", "default_rounding = 0m", "default_rounding = -5m", "default_rounding = m", "default_rounding = 5mm", "default_rounding = 1hm", "default_rounding = 5 m",
	"default_rounding = 99999999999999999999m", "default_rounding = 9223372036854775807m",
	"default_should_total = 8h", "default_should_total = -30m!", "default_should_total = +0m!", "default_should_total = 8h!!", "default_should_total = 8h 30m!", "default_should_total = 1h60m!",
	"default_should_total = !", "default_should_total = 8!", "default_should_total = 153722867280912930h!", "default_should_total = 153722867280912931h!",
	"colour_scheme = blue", "colour_scheme = Dark", "colour_scheme = dark ", "colour_scheme =  dark",
	"date_format = yyyy-mm-dd", "date_format = YYYY.MM.DD", "time_convention = 24", "time_convention = 12H",
	"no_warnings = FOO", "no_warnings = UNCLOSED_OPEN_RANGE,", "no_warnings = ,", "no_warnings = unclosed_open_range", "no_warnings = MORE_THAN_24H\tFUTURE_ENTRIES", "no_warnings = MORE_THAN_24H , MORE_THAN_24H",
	"editor =", "editor = ", "editor =  ", "editor=vim", "editor =vim", "editor= vim", "editor  = vim", "editor\t= vim", "edi tor = vim", " editor = vim", "editor = a=b", "= x", " = x", "editor",
	"[section]", "[section] ", "[ ]", "[]", "[", "[a]b", "[a[b]", "[a]]", "# comment", "#", "   ", "\t", "", "unknown_key = 1", "EDITOR = vim",
	"editor = \xff\xfe", "editor = ä", "colour_scheme = därk", "default_rounding = 1٥m",
}

// genConfigText returns the text and, for texts made of documented settings only, the expected result.
func genConfigText(r *Rand) (text string, expect string, kind string) {
	eol := Pick(r, []string{"\n", "\n", "\r\n"})
	n := r.Range(0, 6)
	documented := r.P(1, 2)
	e := cfgExpect{editor: "~", colour: "dark", round: "~", should: "~", dashes: "~", t24: "~", nowarn: "~"}
	var sb strings.Builder
	inSection := false
	for i := 0; i < n; i++ {
		if documented {
			switch r.Weighted(8, 1, 1, 1) {
			case 0:
				s := Pick(r, goodSettings)
				sb.WriteString(s.line + eol)
				if !inSection {
					s.set(&e)
				}
			case 1:
				sb.WriteString(Pick(r, []string{"# a comment", "#editor = emacs", "", "  ", "\t"}) + eol)
			case 2: // an empty value is an absent setting (and, coming last, hides an earlier value)
				s := Pick(r, []cfgSetting{
					{"date_format =", func(e *cfgExpect) { e.dashes = "~" }}, {"editor = ", func(e *cfgExpect) { e.editor = "~" }},
					{"no_warnings =", func(e *cfgExpect) { e.nowarn = "~" }}, {"colour_scheme = ", func(e *cfgExpect) { e.colour = "dark" }}})
				sb.WriteString(s.line + eol)
				if !inSection {
					s.set(&e)
				}
			default:
				if i > 0 && r.P(1, 2) {
					sb.WriteString("[" + Pick(r, []string{"other", "a b", "x"}) + "]" + eol)
					inSection = true
				}
			}
		} else {
			if r.P(1, 2) {
				sb.WriteString(Pick(r, oddLines))
			} else {
				sb.WriteString(Pick(r, goodSettings).line)
			}
			sb.WriteString(Pick(r, []string{"\n", "\n", "\r\n", "\r\r\n", "\r"}))
		}
	}
	text = sb.String()
	if r.P(1, 4) {
		text = strings.TrimSuffix(strings.TrimSuffix(text, "\n"), "\r")
	}
	if documented {
		kind = "documented"
		expect = fmt.Sprintf("editor=%s colour=%s round=%s should=%s dashes=%s t24=%s nowarn=%s", e.editor, e.colour, e.round, e.should, e.dashes, e.t24, e.nowarn)
	} else {
		kind = "odd"
	}
	return
}

func genConfigCase(r *Rand) map[string]any {
	text, expect, kind := genConfigText(r)
	ed := ""
	if r.P(1, 4) {
		ed = Pick(r, []string{"nano", "vi -u NONE"})
	}
	return map[string]any{"kind": "cfgfile", "cfgtext": hx(text), "expect": expect, "cfgkind": kind, "cpus": r.Range(1, 8), "nocolor": r.P(1, 4), "editor": ed}
}

func runConfigCase(env *Env, data map[string]any, prop string) *Outcome {
	text := textOf(data, "cfgtext")
	o := &Outcome{Key: hashKey(fmt.Sprint(data)), Tags: []string{"cfgfile:" + str(data, "cfgkind")}, Nontrivial: strings.Contains(text, "=")}
	cpus, noColor, editor := num(data, "cpus"), boolv(data, "nocolor"), str(data, "editor")
	impl := implConfig(text, cpus, noColor, editor)
	nc := "0"
	if noColor {
		nc = "1"
	}
	ed := "~"
	if editor != "" {
		ed = hx(editor)
	}
	model := env.Drv.Ask("config", fmt.Sprint(cpus), nc, ed, hx(text))
	o.Evals = 1
	if impl == "bad ?" && strings.HasPrefix(model, "bad ") {
		impl = model
	}
	if impl != model {
		o.Findings = append(o.Findings, Finding{Kind: "K", What: "K." + prop + ".config: app.NewConfig differs from the model", Impl: short(impl, 800), Model: short(model, 800)})
	}
	o.Tags = append(o.Tags, "cfg:"+strings.SplitN(impl, " ", 2)[0])
	if exp := str(data, "expect"); exp != "" {
		// documented settings: the environment overrides the file, the file overrides the defaults
		e := exp
		if noColor {
			e = regexp.MustCompile(`colour=\S+`).ReplaceAllString(e, "colour=no_colour")
		}
		if editor != "" {
			e = regexp.MustCompile(`editor=\S+`).ReplaceAllString(e, "editor="+hx(editor))
		}
		want := strings.Replace("ok "+e, " round=", fmt.Sprintf(" cpus=%d round=", cpus), 1)
		if impl != want {
			o.Findings = append(o.Findings, Finding{Kind: "D", What: "a configuration file of documented settings does not yield the documented configuration", Impl: short(impl, 800), Model: short(want, 800)})
		}
	}
	return o
}
