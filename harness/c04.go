package main

import (
	"fmt"
	"strings"

	"github.com/jotaen/klog/klog"
	"github.com/jotaen/klog/klog/parser"
)

// C04: mutating commands have exactly their intended effect over any command history.
// The oracle is an abstract model on *records* (DESIGN.md appendix C): it never looks at text.

type AEntry struct {
	Canon   string // full canonical form (value incl. notation + summary), for untouched entries
	Kind    string // "range" | "dur" | "open"
	Start   int    // start offset (range/open)
	End     int    // end offset (range)
	Mins    int    // duration value (dur)
	Summary []string
	Fresh   bool // created or rewritten by the command: compared on value level only
}

type ARecord struct {
	Canon   string
	Date    ymd
	Should  int
	Summary []string
	Entries []AEntry
	Fresh   bool
}

func aEntryOf(e klog.Entry) AEntry {
	a := AEntry{Canon: canonEntry(e), Summary: append([]string(nil), e.Summary().Lines()...)}
	klog.Unbox[any](&e, func(r klog.Range) any {
		a.Kind, a.Start, a.End = "range", r.Start().MidnightOffset().InMinutes(), r.End().MidnightOffset().InMinutes()
		return nil
	}, func(d klog.Duration) any {
		a.Kind, a.Mins = "dur", d.InMinutes()
		return nil
	}, func(o klog.OpenRange) any {
		a.Kind, a.Start = "open", o.Start().MidnightOffset().InMinutes()
		return nil
	})
	return a
}

func aRecordsOf(rs []klog.Record) []ARecord {
	out := make([]ARecord, len(rs))
	for i, r := range rs {
		a := ARecord{Canon: canonRecord(r), Date: ymd{r.Date().Year(), r.Date().Month(), r.Date().Day()}, Should: r.ShouldTotal().InMinutes(),
			Summary: append([]string(nil), r.Summary().Lines()...)}
		for _, e := range r.Entries() {
			a.Entries = append(a.Entries, aEntryOf(e))
		}
		out[i] = a
	}
	return out
}

func (r *ARecord) openIdx() int {
	for i, e := range r.Entries {
		if e.Kind == "open" {
			return i
		}
	}
	return -1
}

func valueString(e AEntry) string {
	switch e.Kind {
	case "range":
		return fmt.Sprintf("range(%d,%d)", e.Start, e.End)
	case "open":
		return fmt.Sprintf("open(%d)", e.Start)
	}
	return fmt.Sprintf("dur(%d)", e.Mins)
}

// compareAbstract: "" if `got` (re-read from the file) is what the abstract model predicts.
func compareAbstract(want, got []ARecord) string {
	if len(want) != len(got) {
		return fmt.Sprintf("%d records expected, %d found", len(want), len(got))
	}
	for i := range want {
		w, g := want[i], got[i]
		if !w.Fresh {
			if w.Canon != g.Canon {
				return fmt.Sprintf("record %d (%s) must be unchanged", i+1, w.Date)
			}
			continue
		}
		if cmpYMD(w.Date, g.Date) != 0 || w.Should != g.Should || strings.Join(w.Summary, "\n") != strings.Join(g.Summary, "\n") {
			return fmt.Sprintf("record %d: date/should-total/summary differ: want %s (%d) %q, got %s (%d) %q", i+1, w.Date, w.Should, w.Summary, g.Date, g.Should, g.Summary)
		}
		if len(w.Entries) != len(g.Entries) {
			return fmt.Sprintf("record %d (%s): %d entries expected, %d found", i+1, w.Date, len(w.Entries), len(g.Entries))
		}
		for k := range w.Entries {
			we, ge := w.Entries[k], g.Entries[k]
			if !we.Fresh {
				if we.Canon != ge.Canon {
					return fmt.Sprintf("record %d (%s): entry %d must be unchanged", i+1, w.Date, k+1)
				}
				continue
			}
			if valueString(we) != valueString(ge) || strings.Join(we.Summary, "\n") != strings.Join(ge.Summary, "\n") {
				return fmt.Sprintf("record %d (%s): entry %d must be %s %q, found %s %q", i+1, w.Date, k+1, valueString(we), we.Summary, valueString(ge), ge.Summary)
			}
		}
	}
	return ""
}

func selDate(sel string, today ymd) (ymd, bool) {
	switch {
	case sel == "yesterday":
		return today.prev(), false
	case sel == "tomorrow":
		return today.next(), false
	case strings.HasPrefix(sel, "d:"):
		var y, m, d int
		s := strings.ReplaceAll(sel[2:], "/", "-")
		fmt.Sscanf(s, "%d-%d-%d", &y, &m, &d)
		return ymd{y, m, d}, true
	}
	return today, false
}

// abstractTime: the time the command uses, as an offset relative to the target date.
func abstractTime(c CmdCase, date ymd) (int, bool) {
	if c.Cmd.Time != "" {
		ok, h, m, shift, _ := oracleTime(c.Cmd.Time)
		if !ok {
			return 0, false
		}
		return shift*1440 + h*60 + m, true
	}
	today := ymd{c.Now[0], c.Now[1], c.Now[2]}
	off := c.Now[3]*60 + c.Now[4]
	r := c.Cmd.Round
	if r == 0 {
		r = c.Cfg.Round
	}
	off = roundNearest(off, r)
	switch {
	case cmpYMD(date, today) == 0:
		return off, true
	case cmpYMD(date, today.prev()) == 0:
		return off + 1440, off+1440 < 2880
	case cmpYMD(date, today.next()) == 0:
		return off - 1440, true
	}
	return 0, false
}

func insertPosition(rs []ARecord, d ymd) int {
	if len(rs) == 0 {
		return 0
	}
	if cmpYMD(d, rs[0].Date) < 0 {
		return 0
	}
	for i := range rs {
		if i == len(rs)-1 || (cmpYMD(d, rs[i].Date) >= 0 && cmpYMD(d, rs[i+1].Date) < 0) {
			return i + 1
		}
	}
	return len(rs)
}

func findRecord(rs []ARecord, d ymd) int {
	for i, r := range rs {
		if cmpYMD(r.Date, d) == 0 {
			return i
		}
	}
	return -1
}

func cloneRecords(rs []ARecord) []ARecord {
	out := make([]ARecord, len(rs))
	for i, r := range rs {
		out[i] = r
		out[i].Entries = append([]AEntry(nil), r.Entries...)
	}
	return out
}

// parseEntryText: the entry that the text of `klog track` denotes, read with the (separately
// verified, C01) parser from a synthetic one-record file.
func parseEntryText(lines []string) (AEntry, bool) {
	if len(lines) == 0 || strings.HasPrefix(lines[0], " ") || strings.HasPrefix(lines[0], "\t") || lines[0] == "" {
		return AEntry{}, false
	}
	text := "2000-01-01\n    " + lines[0] + "\n"
	for _, l := range lines[1:] {
		text += "        " + l + "\n"
	}
	rs, _, errs := parser.NewSerialParser().Parse(text)
	if errs != nil || len(rs) != 1 || len(rs[0].Entries()) != 1 {
		return AEntry{}, false
	}
	return aEntryOf(rs[0].Entries()[0]), true
}

func normSummary(s []string) []string {
	if len(s) == 0 {
		return []string{""}
	}
	return s
}

func resumeSummary(c CmdSpec, cur ARecord, prev *ARecord) ([]string, bool) {
	if c.HasSummary && (c.Resume || c.ResumeNth != 0) {
		return nil, false
	}
	if c.Resume && c.ResumeNth != 0 {
		return nil, false
	}
	if c.HasSummary {
		return c.Summary, true
	}
	if c.Resume {
		if n := len(cur.Entries); n > 0 {
			return cur.Entries[n-1].Summary, true
		}
		if prev != nil && len(prev.Entries) > 0 {
			return prev.Entries[len(prev.Entries)-1].Summary, true
		}
		return nil, true
	}
	if c.ResumeNth != 0 {
		n := len(cur.Entries)
		i := c.ResumeNth - 1
		if c.ResumeNth < 0 {
			i = n + c.ResumeNth
		}
		if i < 0 || i >= n {
			return nil, false
		}
		return cur.Entries[i].Summary, true
	}
	return nil, true
}

func previousRecordOf(rs []ARecord, d ymd) *ARecord {
	var best *ARecord
	for i := range rs {
		if cmpYMD(rs[i].Date, d) < 0 && (best == nil || cmpYMD(rs[i].Date, best.Date) > 0) {
			best = &rs[i]
		}
	}
	return best
}

// appendSummary: what `stop --summary` does to an entry's summary.
func appendSummary(old []string, add []string) []string {
	res := append([]string(nil), old...)
	if len(add) == 0 {
		return res
	}
	last := len(res) - 1
	if add[0] != "" {
		if len(res) == 1 && res[0] == "" {
			res[0] = add[0] // the blank is the separator between value and summary
		} else {
			res[last] = res[last] + " " + add[0]
		}
	}
	return append(res, add[1:]...)
}

// abstractStep applies a command to a list of records. ok=false: the model rejects it.
func abstractStep(rs []ARecord, c CmdCase) ([]ARecord, bool, string) {
	today := ymd{c.Now[0], c.Now[1], c.Now[2]}
	out := cloneRecords(rs)
	cmd := c.Cmd
	date, explicit := selDate(cmd.DateSel, today)
	newRecord := func(should int, summary []string) int {
		pos := insertPosition(out, date)
		nr := ARecord{Date: date, Should: should, Summary: summary, Fresh: true}
		out = append(out[:pos], append([]ARecord{nr}, out[pos:]...)...)
		return pos
	}
	switch cmd.Kind {
	case "create":
		should := cmd.ShouldMins
		if cmd.Should == "" {
			should = 0
			if c.Cfg.Should != "" {
				should = c.Cfg.ShouldMins
			}
		}
		var sum []string
		if cmd.HasSummary {
			sum = cmd.Summary
		}
		newRecord(should, sum)
		return out, true, ""
	case "track":
		e, ok := parseEntryText(cmd.Entry)
		if !ok {
			return nil, false, "the text is not an entry"
		}
		i := findRecord(out, date)
		if i < 0 {
			should := 0
			if c.Cfg.Should != "" {
				should = c.Cfg.ShouldMins
			}
			i = newRecord(should, nil)
		}
		if e.Kind == "open" && out[i].openIdx() >= 0 {
			return nil, false, "second open range"
		}
		e.Fresh = true
		out[i].Fresh = true
		out[i].Entries = append(out[i].Entries, e)
		return out, true, ""
	case "start":
		t, ok := abstractTime(c, date)
		if !ok {
			return nil, false, "no representable time"
		}
		i := findRecord(out, date)
		prev := previousRecordOf(rs, date)
		if i < 0 {
			should := 0
			if c.Cfg.Should != "" {
				should = c.Cfg.ShouldMins
			}
			i = newRecord(should, nil)
		}
		if out[i].openIdx() >= 0 {
			return nil, false, "second open range"
		}
		sum, ok := resumeSummary(cmd, out[i], prev)
		if !ok {
			return nil, false, "summary flags"
		}
		out[i].Fresh = true
		out[i].Entries = append(out[i].Entries, AEntry{Kind: "open", Start: t, Summary: normSummary(sum), Fresh: true})
		return out, true, ""
	case "stop", "switch":
		t, ok := abstractTime(c, date)
		if !ok {
			return nil, false, "no representable time"
		}
		i := findRecord(out, date)
		auto := !explicit && cmd.Time == ""
		if i < 0 && cmd.Kind == "stop" && auto {
			i = findRecord(out, date.prev())
			t += 1440
			if i >= 0 && t >= 2880 {
				return nil, false, "time not representable relative to yesterday's record"
			}
		}
		if i < 0 {
			return nil, false, "no record"
		}
		oi := out[i].openIdx()
		if oi < 0 {
			return nil, false, "nothing to stop"
		}
		old := out[i].Entries[oi]
		if t < old.Start {
			return nil, false, "end before start"
		}
		var add []string
		if cmd.Kind == "stop" && cmd.HasSummary {
			add = cmd.Summary
		}
		out[i].Fresh = true
		out[i].Entries[oi] = AEntry{Kind: "range", Start: old.Start, End: t, Summary: appendSummary(old.Summary, add), Fresh: true}
		if cmd.Kind == "switch" {
			sum, ok := resumeSummary(cmd, out[i], nil)
			if !ok {
				return nil, false, "summary flags"
			}
			out[i].Entries = append(out[i].Entries, AEntry{Kind: "open", Start: t, Summary: normSummary(sum), Fresh: true})
		}
		return out, true, ""
	case "pause":
		if cmd.Extend && cmd.HasSummary {
			return nil, false, "flag combination"
		}
		i := findRecord(out, today)
		if i < 0 {
			i = findRecord(out, today.prev())
		}
		if i < 0 {
			return nil, false, "no record"
		}
		oi := out[i].openIdx()
		if oi < 0 {
			return nil, false, "nothing to pause"
		}
		captured := 0
		for _, t := range cmd.Ticks {
			if t > captured {
				captured = t
			}
		}
		out[i].Fresh = true
		if cmd.Extend {
			pi := -1
			for k, e := range out[i].Entries {
				if e.Kind == "dur" && e.Mins <= 0 {
					pi = k
				}
			}
			if pi < 0 {
				return nil, false, "no pause to extend"
			}
			e := out[i].Entries[pi]
			e.Mins -= captured
			e.Fresh = true
			out[i].Entries[pi] = e
			return out, true, ""
		}
		sum := []string{""}
		if cmd.HasSummary {
			sum = append([]string(nil), cmd.Summary...)
		}
		if !cmd.NoTags {
			// the tags of the open range's summary, as klog writes tags (separately verified, C14)
			s, _ := klog.NewEntrySummary(out[i].Entries[oi].Summary...)
			tags := strings.Join(s.Tags().ToStrings(), " ")
			last := len(sum) - 1
			if last == 0 && sum[0] == "" {
				sum[0] = tags
			} else {
				sum[last] = sum[last] + " " + tags
			}
		}
		out[i].Entries = append(out[i].Entries, AEntry{Kind: "dur", Mins: -captured, Summary: sum, Fresh: true})
		return out, true, ""
	}
	return nil, false, "unknown command"
}

var c04Kinds = []string{"track", "track", "start", "start", "stop", "stop", "switch", "pause", "create"}

func init() {
	register(&Prop{
		ID: "C04",
		Rule: "histories of 1-10 mutating commands (track/start/stop/switch/pause with tick scripts incl. clock jumps/create; explicit and relative dates, times, shifted times, rounding, one- and multi-line summaries, --resume/--resume-nth, should-totals) starting from a DocGen file; the file written by one command is the input of the next; the clock advances between commands. " +
			"After every step the records re-read from the file are compared with an abstract model on records. evaluations = commands executed; non-trivial: at least 3 successful commands in the history; distinct = distinct histories",
		Count: func(tier string) int {
			if tier == "thorough" {
				return 60000
			}
			return 2500
		},
		Gen: func(r *Rand, idx int, tier string) map[string]any {
			doc := GenDoc(r, DocOpts{CleanText: true, SortedDates: r.P(3, 4), MaxRecords: 4, NoOpen: r.P(1, 2), Window: 12, Base: [3]int{2021, 3, 1}})
			n := r.Range(1, 10)
			var steps []any
			today := ymd{2021, 3, 1 + r.Intn(12)}
			minute := r.Range(0, 600)
			for i := 0; i < n; i++ {
				c := GenCmdCase(r, doc, c04Kinds)
				// histories live on a moving clock of their own
				minute += r.Range(1, 240)
				if minute >= 1440 {
					minute -= 1440
					today = today.next()
				}
				c.Now = []int{today.y, today.m, today.d, minute / 60, minute % 60}
				if strings.HasPrefix(c.Cmd.DateSel, "d:") && r.P(1, 2) {
					a, _ := today.plus(r.Range(-2, 1))
					c.Cmd.DateSel = "d:" + a.String()
				}
				steps = append(steps, map[string]any{"cfg": c.Cfg, "now": c.Now, "cmd": c.Cmd})
			}
			return map[string]any{"text": hx(doc.Text), "steps": steps}
		},
		Run: runC04,
	})
}

func runC04(env *Env, data map[string]any) *Outcome {
	text := textOf(data, "text")
	o := &Outcome{Key: hashKey(fmt.Sprint(data))}
	steps, _ := data["steps"].([]any)
	cur := text
	okCount := 0
	for si, s := range steps {
		sm, _ := s.(map[string]any)
		c := cmdCaseOf(map[string]any{"text": hx(cur), "cfg": sm["cfg"], "now": sm["now"], "cmd": sm["cmd"]})
		before, _, errs := parser.NewSerialParser().Parse(cur)
		if errs != nil {
			o.Findings = append(o.Findings, Finding{Kind: "D", What: fmt.Sprintf("step %d: the file left by the previous command does not parse", si+1), Impl: hx(cur)})
			break
		}
		want, wantOK, why := abstractStep(aRecordsOf(before), c)
		res := runCommand(env, cur, c.Cfg, c.Now, c.Cmd, cpusFor(cur))
		model := modelCommand(env, cur, c.Cfg, c.Now, c.Cmd)
		o.Evals++
		stepIn := map[string]any{"text": hx(cur), "steps": []any{s}}
		if res.Outcome != model {
			o.Findings = append(o.Findings, Finding{Kind: "K", What: fmt.Sprintf("K.C04.cmd: step %d `klog %s` differs from the model", si+1, c.Cmd.Kind), Impl: short(res.Outcome, 2000) + " | " + short(res.Err, 200), Model: short(model, 2000), Input: stepIn})
		}
		o.Tags = append(o.Tags, "cmd:"+c.Cmd.Kind)
		switch {
		case res.Panic != "":
			o.Findings = append(o.Findings, Finding{Kind: "D", What: fmt.Sprintf("step %d: klog %s panics: %s", si+1, c.Cmd.Kind, res.Panic), Input: stepIn, Signature: crashSignature("C04", res.Panic, data)})
		case res.Code == 0 && !wantOK:
			o.Findings = append(o.Findings, Finding{Kind: "D", What: fmt.Sprintf("step %d: klog %s succeeds although the abstract model rejects the command (%s)", si+1, c.Cmd.Kind, why), Impl: hx(res.After), Model: hx(cur), Input: stepIn})
		case res.Code != 0 && wantOK:
			o.Findings = append(o.Findings, Finding{Kind: "D", What: fmt.Sprintf("step %d: klog %s fails (%s) although the abstract model accepts the command", si+1, c.Cmd.Kind, short(res.Err, 160)), Impl: res.Outcome, Input: stepIn})
		case res.Code != 0:
			if res.After != cur {
				o.Findings = append(o.Findings, Finding{Kind: "D", What: fmt.Sprintf("step %d: rejected command changed the file", si+1), Impl: hx(res.After), Model: hx(cur), Input: stepIn})
			}
			o.Tags = append(o.Tags, "rejected:"+why)
		default:
			after, _, aerrs := parser.NewSerialParser().Parse(res.After)
			if aerrs != nil {
				o.Findings = append(o.Findings, Finding{Kind: "D", What: fmt.Sprintf("step %d: the file does not parse after a successful command", si+1), Impl: hx(res.After), Input: stepIn})
			} else if v := compareAbstract(want, aRecordsOf(after)); v != "" {
				o.Findings = append(o.Findings, Finding{Kind: "D", What: fmt.Sprintf("step %d: after `klog %s` the file does not hold the records the abstract model predicts: %s", si+1, c.Cmd.Kind, v), Impl: hx(res.After), Model: hx(cur), Input: stepIn})
			}
			okCount++
		}
		if len(o.Findings) > 0 {
			break
		}
		cur = res.After
	}
	o.Nontrivial = okCount >= 3
	o.Sample = map[string]any{"steps": len(steps), "successful": okCount, "first": func() any {
		if len(steps) > 0 {
			return steps[0]
		}
		return nil
	}()}
	return o
}
