package main

import (
	"fmt"
	"strings"
)

// c01Case builds a text: valid DocGen doc, mutated doc, or token layout.
func genParseCase(r *Rand, idx int, tier string) map[string]any {
	switch r.Weighted(5, 4, 1) {
	case 0:
		d := GenDoc(r, DocOpts{})
		return map[string]any{"text": hx(d.Text), "kind": "valid", "expect": d.CanonRecords(), "nrec": len(d.Records)}
	case 1:
		d := GenDoc(r, DocOpts{MinRecords: 1})
		m := Mutate(r, d)
		if m == nil {
			return map[string]any{"text": hx(d.Text), "kind": "valid", "expect": d.CanonRecords(), "nrec": len(d.Records)}
		}
		return map[string]any{"text": hx(m.Text), "kind": "mutant", "class": m.Class, "line": m.Line}
	default:
		return map[string]any{"text": hx(GenLayout(r)), "kind": "layout"}
	}
}

func init() {
	register(&Prop{
		ID: "C01",
		Rule: "DocGen documents (grammar-directed, with the records they denote as oracle), the same with one rule-violating edit of a random class at a random line, and random token layouts. " +
			"Non-trivial: a valid document with at least 2 records and at least 3 entries, or a mutant; distinct = distinct texts",
		Count: func(tier string) int {
			if tier == "thorough" {
				return 400000
			}
			return 16000
		},
		Gen: genParseCase,
		Run: runC01,
	})
}

func runC01(env *Env, data map[string]any) *Outcome {
	text := textOf(data, "text")
	kind := str(data, "kind")
	o := &Outcome{Key: hashKey(text), Tags: []string{"kind:" + kind}}
	impl, pmsg := implParse(text)
	model := env.Drv.Ask("parse", hx(text))
	if impl != model {
		o.Findings = append(o.Findings, Finding{Kind: "K", What: "K.C01.parse: parser result differs from the model" + pmsgNote(pmsg), Impl: short(impl, 4000), Model: short(model, 4000)})
	}
	for _, c := range []string{"ErrorInvalidDate", "ErrorIllegalIndentation", "ErrorMalformedShouldTotal", "ErrorUnrecognisedProperty",
		"ErrorMalformedPropertiesSyntax", "ErrorUnrecognisedTextInHeadline", "ErrorMalformedSummary", "ErrorMalformedEntry",
		"ErrorDuplicateOpenRange", "ErrorIllegalRange"} {
		if strings.Contains(impl, c) {
			o.Tags = append(o.Tags, "err:"+c)
		}
	}
	switch kind {
	case "valid":
		expect := "records " + str(data, "expect") + " | "
		if pmsg != "" {
			o.Findings = append(o.Findings, Finding{Kind: "D", What: "parser panics on a conforming document: " + pmsg, Impl: impl,
				Signature: crashSignature("C01", "panic: "+pmsg, data)})
		} else if !strings.HasPrefix(impl, "records ") {
			o.Findings = append(o.Findings, Finding{Kind: "D", What: "a document that conforms to the specification is rejected", Impl: short(impl, 2000), Model: expect})
		} else if !strings.HasPrefix(impl, expect) {
			o.Findings = append(o.Findings, Finding{Kind: "D", What: "the records returned differ from the records the text denotes", Impl: short(impl, 4000), Model: expect})
		}
		o.Nontrivial = num(data, "nrec") >= 2 && strings.Count(str(data, "expect"), "):[") >= 3
		o.Tags = append(o.Tags, fmt.Sprintf("records:%d", min(num(data, "nrec"), 5)))
		for _, k := range []string{"T(", "D(", "O("} {
			if strings.Contains(str(data, "expect"), k) {
				o.Tags = append(o.Tags, "entry:"+k[:1])
			}
		}
	case "mutant":
		o.Tags = append(o.Tags, "class:"+str(data, "class"))
		o.Nontrivial = true
		if pmsg != "" {
			o.Findings = append(o.Findings, Finding{Kind: "D", What: "parser panics: " + pmsg, Impl: impl, Signature: crashSignature("C01", "panic: "+pmsg, data)})
		} else if !strings.HasPrefix(impl, "errors E(") {
			o.Findings = append(o.Findings, Finding{Kind: "D", What: "a text that breaks a MUST rule (" + str(data, "class") + ") is accepted", Impl: short(impl, 2000)})
		}
	}
	if kind != "layout" {
		o.Sample = map[string]any{"kind": kind, "class": str(data, "class"), "text": short(text, 200)}
	}
	return o
}
