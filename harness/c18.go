package main

import (
	"fmt"
	"strings"
	"unicode/utf8"

	tf "github.com/jotaen/klog/klog/app/cli/terminalformat"
)

// C18: colour and styling never change what is printed.

var c18Commands = [][]string{
	{"print"}, {"print", "--with-totals"}, {"total", "--diff"}, {"report", "--diff"}, {"report", "-a", "w", "--fill"}, {"report", "-a", "m", "--chart"},
	{"tags", "-v", "-c"}, {"tags"}, {"today", "--diff", "--now"}, {"today"},
	// flags that change WHAT is printed must do so alike with and without styling
	{"total", "--diff", "--decimal"}, {"report", "--diff", "--decimal"}, {"tags", "--decimal"}, {"today", "--diff", "--decimal"},
}
var c18Tabular = map[string]bool{"report": true, "tags": true, "today": true}

type scheme struct {
	name string
	cfg  string
	env  map[string]string
	flag string
}

var c18Schemes = []scheme{
	{"dark", "colour_scheme = dark\n", nil, ""}, {"light", "colour_scheme = light\n", nil, ""}, {"basic", "colour_scheme = basic\n", nil, ""},
	{"no_colour", "colour_scheme = no_colour\n", nil, ""}, {"--no-style", "", nil, "--no-style"}, {"NO_COLOR", "", map[string]string{"NO_COLOR": "1"}, ""},
}

func init() {
	register(&Prop{
		ID: "C18",
		Rule: "DocGen documents (Unicode summaries and tags, negative/large totals, summaries containing raw ESC fragments such as a dangling `ESC[3` or a complete `ESC[31m`) x commands {print, print --with-totals, total --diff, report in three aggregations with diff/fill/chart, tags with and without -v -c, today with and without --diff --now} " +
			"x colour schemes {dark, light, basic, no_colour, --no-style, NO_COLOR} through the real CLI; plus the model's ANSI stripper against klog's on generated strings. evaluations = CLI runs; non-trivial: document with at least 2 records and a tag; distinct = distinct texts",
		Count: func(tier string) int {
			if tier == "thorough" {
				return 12000
			}
			return 900
		},
		Gen: func(r *Rand, idx int, tier string) map[string]any {
			y, m, d := genDate(r)
			if y > 9990 {
				y = 9990
			}
			if y < 1 {
				y = 1
			}
			doc := GenDoc(r, DocOpts{Window: 40, Base: [3]int{y, m, d}})
			text := doc.Text
			if r.P(1, 3) { // raw escape fragments inside summaries
				for _, rep := range [][2]string{{"foo", "fo\x1b[3"}, {"bar", "\x1b[31mbar\x1b[0m"}, {"Lorem", "m\x1b[;1"}, {"ipsum", "\x1b["}} {
					if r.P(1, 2) {
						text = strings.ReplaceAll(text, rep[0], rep[1])
					}
				}
			}
			var frag strings.Builder
			for k := r.Range(0, 12); k > 0; k-- {
				frag.WriteString(Pick(r, []string{"\x1b", "[", "0", "1", ";", "m", "3", "8", "x", "#t", " ", "\x1b[0m", "\x1b[38;5;120m", "ä"}))
			}
			return map[string]any{"text": hx(text), "today": []int{y, m, d}, "frag": hx(frag.String())}
		},
		Run: runC18,
	})
}

func runC18(env *Env, data map[string]any) *Outcome {
	text := textOf(data, "text")
	td := ints(data, "today")
	o := &Outcome{Key: hashKey(text)}
	// K: the model's stripper against klog's
	for _, s := range []string{textOf(data, "frag"), text} {
		impl := "ok " + hx(decoded(tf.StripAllAnsiSequences(s))) // the model works on decoded characters
		model := env.Drv.Ask("strip", hx(s))
		o.Evals++
		if impl != model {
			o.Findings = append(o.Findings, Finding{Kind: "K", What: "K.C18.strip: StripAllAnsiSequences differs from the model", Impl: impl, Model: model})
		}
	}
	// K: the table renderer (random cells with and without sequences, both alignments, fill cells)
	{
		r := NewRand(int64(len(text))*7919+int64(len(textOf(data, "frag"))), "C18-table", 0)
		ncols := r.Range(2, 5)
		nrows := r.Range(1, 5)
		table := tf.NewTable(ncols, " ")
		args := []string{"table", fmt.Sprint(ncols), hx(" ")}
		for i := 0; i < ncols*nrows; i++ {
			var v strings.Builder
			for k := r.Range(0, 4); k > 0; k-- {
				v.WriteString(Pick(r, []string{"a", "bc", "ä", "日本", "12", "\x1b[0m", "\x1b[38;5;120m", "\x1b[1m", "#t", "-", "x y"}))
			}
			val := v.String()
			switch r.Weighted(4, 4, 1, 1) {
			case 0:
				table.CellL(val)
				args = append(args, hx(val)+":0:0")
			case 1:
				table.CellR(val)
				args = append(args, hx(val)+":0:1")
			case 2:
				table.Skip(1)
				args = append(args, "-:0:0")
			default:
				table.Fill("=")
				args = append(args, hx("=")+":1:0")
			}
		}
		var out strings.Builder
		table.Collect(func(s string) { out.WriteString(s) })
		impl := "ok " + hx(out.String())
		model := env.Drv.Ask(args...)
		o.Evals++
		if impl != model {
			o.Findings = append(o.Findings, Finding{Kind: "K", What: "K.C18.table: tf.Table output differs from the model", Impl: impl, Model: model})
		}
		// D on the real table: all rows have the same visible width
		w := -1
		for _, l := range strings.Split(strings.TrimSuffix(tf.StripAllAnsiSequences(out.String()), "\n"), "\n") {
			n := utf8.RuneCountInString(l)
			if w >= 0 && n != w {
				o.Findings = append(o.Findings, Finding{Kind: "D", What: "tf.Table: rows have different numbers of visible characters", Impl: out.String()})
				break
			}
			w = n
		}
	}
	file := writeFile(env, "c18.klg", text)
	parsed, _ := implParse(text)
	if !strings.HasPrefix(parsed, "records ") {
		return o
	}
	for _, cmd := range c18Commands {
		outs := map[string]string{}
		for _, sc := range c18Schemes {
			args := append([]string{}, cmd...)
			args = append(args, "--no-warn")
			if sc.flag != "" {
				args = append(args, sc.flag)
			}
			args = append(args, file)
			res := runCLI(env, CLIOpts{Config: sc.cfg, Env: sc.env, Now: mkTime(td[0], td[1], td[2], 13, 37)}, args...)
			o.Evals++
			if res.Panic != "" || res.Code != 0 {
				if res.Panic != "" {
					o.Findings = append(o.Findings, Finding{Kind: "D", What: fmt.Sprintf("`klog %s` (%s) panics: %s", strings.Join(cmd, " "), sc.name, res.Panic), Signature: crashSignature("C18", "panic: "+res.Panic, data)})
				}
				return o
			}
			outs[sc.name] = res.Stdout
			// tables line up
			if c18Tabular[cmd[0]] {
				w := -1
				for _, l := range strings.Split(strings.TrimRight(tf.StripAllAnsiSequences(res.Stdout), "\n"), "\n") {
					n := utf8.RuneCountInString(l)
					if w >= 0 && n != w {
						o.Findings = append(o.Findings, Finding{Kind: "D", What: fmt.Sprintf("`klog %s` (%s): rows have different numbers of visible characters (%d vs %d)", strings.Join(cmd, " "), sc.name, n, w), Impl: res.Stdout})
						break
					}
					w = n
				}
			}
		}
		base := tf.StripAllAnsiSequences(outs["no_colour"])
		for _, sc := range c18Schemes {
			if tf.StripAllAnsiSequences(outs[sc.name]) != base {
				o.Findings = append(o.Findings, Finding{Kind: "D", What: fmt.Sprintf("`klog %s`: scheme %s differs from no_colour by more than SGR sequences", strings.Join(cmd, " "), sc.name), Impl: hx(outs[sc.name]), Model: hx(outs["no_colour"])})
			}
		}
		for _, plain := range []string{"no_colour", "--no-style", "NO_COLOR"} {
			if outs[plain] != outs["no_colour"] {
				o.Findings = append(o.Findings, Finding{Kind: "D", What: fmt.Sprintf("`klog %s`: %s output differs from colour_scheme = no_colour", strings.Join(cmd, " "), plain), Impl: hx(outs[plain]), Model: hx(outs["no_colour"])})
			}
		}
		// K: the styled serialiser of the model (print only)
		if len(cmd) == 1 && cmd[0] == "print" {
			for _, th := range []string{"dark", "light", "basic", "no_colour"} {
				model := env.Drv.Ask("styledprint", hx(text), th)
				impl := "ok " + hx(strings.TrimSuffix(strings.TrimPrefix(outs[th], "\n"), "\n"))
				if outs[th] == "" {
					impl = "ok -"
				}
				if impl != model {
					o.Findings = append(o.Findings, Finding{Kind: "K", What: "K.C18.styledprint: styled `klog print` (" + th + ") differs from the model", Impl: short(impl, 1500), Model: short(model, 1500)})
				}
			}
		}
		if len(o.Findings) > 2 {
			break
		}
	}
	o.Nontrivial = strings.Count(parsed, "R(") >= 2 && strings.Contains(text, "#")
	o.Sample = map[string]any{"text": short(text, 120), "schemes": len(c18Schemes), "commands": len(c18Commands)}
	return o
}
