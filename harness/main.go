// klogv: correspondence / direct-check harness for the Lean model of klog.
//
//	klogv run  <Cxx> -tier quick|thorough -seed N -driver PATH -out FILE [-replay FILE] [-budget X]
//	klogv worker ...   (internal: one shard of a run, same flags plus -shard i/n, -only k)
//	klogv extract -out DIR   (dump tables from the code: unicode, themes, ...)
//
// The orchestrator (`run`) starts one worker process per shard. A worker generates case k from
// (seed, k) alone, runs the REAL klog code in-process, asks the Lean driver (a subprocess) for the
// model's answer, compares (K = correspondence) and evaluates the property predicate on the
// implementation's own output (D = direct check). A worker that dies (a panic inside a klog
// goroutine cannot be recovered) is restarted after the case that killed it; the crash itself
// is an observation.
package main

import (
	"bufio"
	"encoding/json"
	"flag"
	"fmt"
	"os"
	"os/exec"
	"os/signal"
	"path/filepath"
	"runtime"
	"sort"
	"strconv"
	"strings"
	"sync"
	"syscall"
	"time"
)

// Finding is something a case reports: a correspondence disagreement (K), a violation of the
// property observed on the implementation (D), or a crash of the implementation process.
type Finding struct {
	Kind      string `json:"kind"` // "K", "D", "CRASH"
	Case      int    `json:"case"`
	What      string `json:"what"`
	Signature string `json:"signature,omitempty"` // identifies a known finding, if any
	Impl      string `json:"impl,omitempty"`
	Model     string `json:"model,omitempty"`
	Input     any    `json:"input,omitempty"`
}

// Outcome of running one case.
type Outcome struct {
	Findings   []Finding `json:"findings,omitempty"`
	Tags       []string  `json:"tags,omitempty"`       // histogram keys hit
	Nontrivial bool      `json:"nontrivial,omitempty"` // by the property's stated rule
	Key        string    `json:"key,omitempty"`        // identity of the case for distinct counting
	Evals      int       `json:"evals,omitempty"`      // number of impl/model evaluations in this case (default 1)
	Sample     any       `json:"sample,omitempty"`
}

// Case is a replayable input of a property check.
type Case struct {
	Idx  int            `json:"idx"`
	Data map[string]any `json:"data"`
}

// Prop is the per-property plug-in.
type Prop struct {
	ID string
	// Count returns the number of generated cases for a tier (budget multiplies it during search).
	Count func(tier string) int
	// Gen builds case idx from its own PRNG.
	Gen func(r *Rand, idx int, tier string) map[string]any
	// Run executes a case.
	Run func(env *Env, data map[string]any) *Outcome
	// Rule describes how cases are generated and what makes one non-trivial.
	Rule string
	// Exhaustive: the tier enumerates a finite space completely.
	Exhaustive func(tier string) bool
}

var props = map[string]*Prop{}

func register(p *Prop) { props[p.ID] = p }

type Env struct {
	Drv        *Driver
	DriverPath string
	gsOnce     sync.Once
	gs         *Driver
	TmpDir     string
	Seed       int64
	Tier       string
	PropID     string
}

func main() {
	if len(os.Args) < 2 {
		fmt.Fprintln(os.Stderr, "usage: klogv run|worker|extract ...")
		os.Exit(2)
	}
	switch os.Args[1] {
	case "run":
		os.Exit(cmdRun(os.Args[2:]))
	case "worker":
		os.Exit(cmdWorker(os.Args[2:]))
	case "extract":
		os.Exit(cmdExtract(os.Args[2:]))
	case "raceprobe":
		os.Exit(cmdRaceProbe(os.Args[2:]))
	default:
		fmt.Fprintln(os.Stderr, "unknown subcommand")
		os.Exit(2)
	}
}

type runFlags struct {
	prop    string
	tier    string
	seed    int64
	driver  string
	out     string
	replay  string
	budget  float64
	shard   string
	only    int
	from    int
	corpus  string
	workers int
	tables  string
	tmproot string
}

func parseFlags(args []string) *runFlags {
	fs := flag.NewFlagSet("klogv", flag.ExitOnError)
	f := &runFlags{}
	fs.StringVar(&f.tier, "tier", "quick", "")
	fs.Int64Var(&f.seed, "seed", 1, "")
	fs.StringVar(&f.driver, "driver", "", "")
	fs.StringVar(&f.out, "out", "", "")
	fs.StringVar(&f.replay, "replay", "", "")
	fs.Float64Var(&f.budget, "budget", 1, "")
	fs.StringVar(&f.shard, "shard", "0/1", "")
	fs.IntVar(&f.only, "only", -1, "")
	fs.IntVar(&f.from, "from", 0, "")
	fs.StringVar(&f.corpus, "corpus", "", "")
	fs.IntVar(&f.workers, "workers", 0, "")
	fs.StringVar(&f.tables, "tables", "", "")
	fs.StringVar(&f.tmproot, "tmproot", "", "")
	if len(args) < 1 {
		fmt.Fprintln(os.Stderr, "missing property id")
		os.Exit(2)
	}
	f.prop = args[0]
	fs.Parse(args[1:])
	return f
}

// ---------- worker ----------

func caseCount(p *Prop, f *runFlags) int {
	n := p.Count(f.tier)
	if f.budget != 1 && !(p.Exhaustive != nil && p.Exhaustive(f.tier)) {
		n = int(float64(n) * f.budget)
	}
	return n
}

func loadCorpus(dir string) []map[string]any {
	var res []map[string]any
	if dir == "" {
		return nil
	}
	files, _ := filepath.Glob(filepath.Join(dir, "*.json"))
	sort.Strings(files)
	for _, fn := range files {
		b, err := os.ReadFile(fn)
		if err != nil {
			continue
		}
		var c struct {
			Data map[string]any `json:"data"`
		}
		if json.Unmarshal(b, &c) == nil && c.Data != nil {
			c.Data["_corpus"] = filepath.Base(fn)
			res = append(res, c.Data)
		}
	}
	return res
}

// Case numbering: 0..len(corpus)-1 are corpus cases, then generated cases.
func getCase(p *Prop, f *runFlags, corpus []map[string]any, k int) map[string]any {
	if k < len(corpus) {
		return corpus[k]
	}
	idx := k - len(corpus)
	return p.Gen(NewRand(f.seed, p.ID, idx), idx, f.tier)
}

func cmdWorker(args []string) int {
	f := parseFlags(args)
	p := props[f.prop]
	if p == nil {
		fmt.Fprintln(os.Stderr, "unknown property", f.prop)
		return 2
	}
	// The worker's stdin must never be consumed by klog's stdin retriever.
	devnull, _ := os.Open(os.DevNull)
	os.Stdin = devnull
	out := bufio.NewWriter(os.Stdout)
	realStdout := os.Stdout
	_ = realStdout
	drv, err := StartDriver(f.driver, f.tables)
	if err != nil {
		fmt.Fprintln(os.Stderr, "cannot start driver:", err)
		return 2
	}
	defer drv.Close()
	// scratch directory: inside the orchestrator's root, which the orchestrator removes even when
	// this process dies in a case (a panic of the implementation skips the deferred removal)
	tmp, _ := os.MkdirTemp(f.tmproot, "klogv-"+f.prop+"-")
	defer os.RemoveAll(tmp)
	env := &Env{Drv: drv, DriverPath: f.driver, TmpDir: tmp, Seed: f.seed, Tier: f.tier, PropID: f.prop}

	emit := func(k int, o *Outcome) {
		b, _ := json.Marshal(o)
		fmt.Fprintf(out, "R %d %s\n", k, b)
		out.Flush()
	}
	if f.replay != "" {
		b, err := os.ReadFile(f.replay)
		if err != nil {
			fmt.Fprintln(os.Stderr, err)
			return 2
		}
		var c struct {
			Data map[string]any `json:"data"`
		}
		if err := json.Unmarshal(b, &c); err != nil || c.Data == nil {
			fmt.Fprintln(os.Stderr, "bad replay file")
			return 2
		}
		fmt.Fprintf(out, "S 0\n")
		out.Flush()
		emit(0, runCase(p, env, c.Data, 0))
		fmt.Fprintf(out, "END\n")
		out.Flush()
		return 0
	}
	corpus := loadCorpus(f.corpus)
	total := len(corpus) + caseCount(p, f)
	var si, sn int
	fmt.Sscanf(f.shard, "%d/%d", &si, &sn)
	if sn <= 0 {
		sn = 1
	}
	for k := f.from; k < total; k++ {
		if f.only >= 0 && k != f.only {
			continue
		}
		if f.only < 0 && k%sn != si {
			continue
		}
		fmt.Fprintf(out, "S %d\n", k)
		out.Flush()
		data := getCase(p, f, corpus, k)
		emit(k, runCase(p, env, data, k))
	}
	fmt.Fprintf(out, "END\n")
	out.Flush()
	return 0
}

func runCase(p *Prop, env *Env, data map[string]any, k int) *Outcome {
	o := p.Run(env, data)
	if o == nil {
		o = &Outcome{}
	}
	for i := range o.Findings {
		o.Findings[i].Case = k
		if o.Findings[i].Input == nil {
			o.Findings[i].Input = data
		}
	}
	if o.Evals == 0 {
		o.Evals = 1
	}
	return o
}

// ---------- orchestrator ----------

type RunResult struct {
	Property    string         `json:"property"`
	Tier        string         `json:"tier"`
	Seed        int64          `json:"seed"`
	Cases       int            `json:"cases"`
	Evaluations int            `json:"evaluations"`
	Distinct    int            `json:"distinct_nontrivial"`
	Hist        map[string]int `json:"histogram"`
	Samples     []any          `json:"samples"`
	Findings    []Finding      `json:"findings"`
	Crashes     int            `json:"crashes"`
	Rule        string         `json:"rule"`
	Exhaustive  bool           `json:"exhaustive"`
	WallS       float64        `json:"wall_s"`
	CorpusCases int            `json:"corpus_cases"`
	WorkerError string         `json:"worker_error,omitempty"`
}

func cmdRun(args []string) int {
	f := parseFlags(args)
	p := props[f.prop]
	if p == nil {
		fmt.Fprintln(os.Stderr, "unknown property", f.prop)
		return 2
	}
	start := time.Now()
	nw := f.workers
	if nw <= 0 {
		nw = runtime.NumCPU()
	}
	corpus := loadCorpus(f.corpus)
	total := len(corpus) + caseCount(p, f)
	if f.replay != "" {
		nw, total = 1, 1
	}
	if total < nw*4 {
		nw = 1 + total/8
	}
	res := &RunResult{Property: f.prop, Tier: f.tier, Seed: f.seed, Hist: map[string]int{}, Rule: p.Rule, CorpusCases: len(corpus)}
	res.Exhaustive = p.Exhaustive != nil && p.Exhaustive(f.tier) && f.replay == ""
	distinct := map[string]bool{}
	var mu sync.Mutex
	var wg sync.WaitGroup
	self, _ := os.Executable()
	tmproot, _ := os.MkdirTemp("", "klogv-run-"+f.prop+"-")
	defer os.RemoveAll(tmproot)
	sigc := make(chan os.Signal, 1)
	signal.Notify(sigc, os.Interrupt, syscall.SIGTERM)
	go func() {
		<-sigc
		os.RemoveAll(tmproot)
		os.Exit(130)
	}()
	add := func(k int, o *Outcome) {
		mu.Lock()
		defer mu.Unlock()
		res.Cases++
		res.Evaluations += o.Evals
		for _, t := range o.Tags {
			res.Hist[t]++
		}
		if o.Nontrivial && o.Key != "" {
			distinct[o.Key] = true
		}
		if o.Sample != nil && len(res.Samples) < 6 {
			res.Samples = append(res.Samples, o.Sample)
		}
		res.Findings = append(res.Findings, o.Findings...)
	}
	for w := 0; w < nw; w++ {
		wg.Add(1)
		go func(w int) {
			defer wg.Done()
			from := 0
			lastDone, idle := -1, 0
			for attempt := 0; attempt < 200; attempt++ {
				wargs := []string{"worker", f.prop, "-tier", f.tier, "-seed", strconv.FormatInt(f.seed, 10), "-driver", f.driver,
					"-budget", fmt.Sprint(f.budget), "-shard", fmt.Sprintf("%d/%d", w, nw), "-from", strconv.Itoa(from),
					"-corpus", f.corpus, "-tables", f.tables, "-tmproot", tmproot}
				if f.replay != "" {
					wargs = append(wargs, "-replay", f.replay)
				}
				cmd := exec.Command(self, wargs...)
				cmd.Env = append(os.Environ(), "GOMEMLIMIT=3GiB")
				stdout, _ := cmd.StdoutPipe()
				var stderr strings.Builder
				cmd.Stderr = &limitedWriter{b: &stderr, max: 1 << 16}
				if err := cmd.Start(); err != nil {
					mu.Lock()
					res.WorkerError = err.Error()
					mu.Unlock()
					return
				}
				sc := bufio.NewScanner(stdout)
				sc.Buffer(make([]byte, 1<<20), 1<<28)
				current := -1
				ended := false
				done := make(chan struct{})
				// watchdog: a case that takes longer than 120 s is a hang
				var lastProgress = time.Now()
				var pmu sync.Mutex
				go func() {
					t := time.NewTicker(2 * time.Second)
					defer t.Stop()
					for {
						select {
						case <-done:
							return
						case <-t.C:
							pmu.Lock()
							stuck := time.Since(lastProgress) > 120*time.Second
							pmu.Unlock()
							if stuck {
								cmd.Process.Kill()
								return
							}
						}
					}
				}()
				for sc.Scan() {
					line := sc.Text()
					pmu.Lock()
					lastProgress = time.Now()
					pmu.Unlock()
					switch {
					case strings.HasPrefix(line, "S "):
						current, _ = strconv.Atoi(line[2:])
					case strings.HasPrefix(line, "R "):
						rest := line[2:]
						sp := strings.IndexByte(rest, ' ')
						k, _ := strconv.Atoi(rest[:sp])
						var o Outcome
						json.Unmarshal([]byte(rest[sp+1:]), &o)
						add(k, &o)
						current = -1
						lastDone = k
					case line == "END":
						ended = true
					}
				}
				close(done)
				cmd.Wait()
				if ended {
					return
				}
				// The worker died in case `current`.
				if current < 0 {
					// between two cases (start-up, or killed from outside): start again behind the
					// last case that was completed; give up after three such deaths in a row
					idle++
					if idle <= 3 {
						from = lastDone + 1
						continue
					}
					mu.Lock()
					res.WorkerError = "worker died outside a case: " + tail(stderr.String(), 2000)
					mu.Unlock()
					return
				}
				idle = 0
				var data map[string]any
				if f.replay == "" {
					data = getCase(p, f, corpus, current)
				}
				msg := panicLine(stderr.String())
				if site := callSite("panic(\n" + stderr.String()); site != "" {
					msg += " @" + site
				}
				o := &Outcome{Evals: 1, Tags: []string{"crash"}, Findings: []Finding{{Kind: "CRASH", Case: current,
					What: "the implementation process died: " + msg, Impl: tail(stderr.String(), 1500), Input: data,
					Signature: crashSignature(f.prop, msg, data)}}}
				mu.Lock()
				res.Crashes++
				mu.Unlock()
				add(current, o)
				if f.replay != "" {
					return
				}
				from = current + 1
			}
		}(w)
	}
	wg.Wait()
	res.Distinct = len(distinct)
	res.WallS = time.Since(start).Seconds()
	sort.Slice(res.Findings, func(i, j int) bool { return res.Findings[i].Case < res.Findings[j].Case })
	b, _ := json.MarshalIndent(res, "", " ")
	if f.out != "" {
		os.WriteFile(f.out, b, 0644)
	} else {
		os.Stdout.Write(b)
	}
	if res.WorkerError != "" {
		fmt.Fprintln(os.Stderr, "worker error:", res.WorkerError)
		return 3
	}
	return 0
}

type limitedWriter struct {
	b   *strings.Builder
	max int
	mu  sync.Mutex
}

func (l *limitedWriter) Write(p []byte) (int, error) {
	l.mu.Lock()
	defer l.mu.Unlock()
	if l.b.Len() < l.max {
		l.b.Write(p)
	}
	return len(p), nil
}

func tail(s string, n int) string {
	if len(s) > n {
		return s[len(s)-n:]
	}
	return s
}

func panicLine(stderr string) string {
	for _, l := range strings.Split(stderr, "\n") {
		if strings.HasPrefix(l, "panic:") || strings.HasPrefix(l, "fatal error:") {
			return l
		}
	}
	if stderr == "" {
		return "(no output; killed, e.g. watchdog after 120 s or out of memory)"
	}
	return tail(strings.TrimSpace(stderr), 200)
}
