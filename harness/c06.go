package main

import (
	"fmt"
	"regexp"
	"strings"
	gotime "time"

	"github.com/jotaen/klog/klog"
	"github.com/jotaen/klog/klog/parser"
	"github.com/jotaen/klog/klog/service"
)

// C06: no file content can crash klog.

var readOnlyCommands = [][]string{
	{"print"}, {"print", "--with-totals"}, {"total", "--diff", "--now"}, {"report"}, {"report", "-a", "w", "--fill"}, {"report", "-a", "m", "--diff"},
	{"report", "-a", "q"}, {"report", "-a", "y", "--chart"}, {"tags", "-v", "-c"}, {"today", "--diff", "--now"}, {"json", "--pretty"}, {"json"},
}

var reDateLine = regexp.MustCompile(`(?m)^(\d{4})[-/](\d{2})[-/](\d{2})`)

func c06Token(tier string) int {
	if tier == "thorough" {
		return 4
	}
	return 3
}

func init() {
	register(&Prop{
		ID: "C06",
		Rule: "byte strings: all strings of up to 3 (quick) / 4 (thorough) tokens over an alphabet of 25 klog fragments (dates, newlines incl. CR/CRLF, indentations, durations, times, `-`, `?`, parentheses, tags, 0xff, a truncated multi-byte sequence, NBSP, a 20-digit number), enumerated exhaustively; " +
			"mutations of DocGen documents; raw random bytes. Each is parsed serially and in parallel; every read-only command (print, print --with-totals, total --diff --now, report in all aggregations with fill/diff/chart, tags -v -c, today --diff --now, json, json --pretty) is run through the real CLI with and without warnings. " +
			"evaluations = parser and CLI runs; non-trivial = the text has at least one significant line; distinct = distinct texts",
		Count: func(tier string) int {
			n := enumCount(len(tokenAlphabet), c06Token(tier))
			if tier == "thorough" {
				return n + 40000
			}
			return n + 1500
		},
		Gen: func(r *Rand, idx int, tier string) map[string]any {
			n := enumCount(len(tokenAlphabet), c06Token(tier))
			if idx < n {
				return map[string]any{"text": hx(enumString(tokenAlphabet, idx)), "src": "enum", "cmds": idx%60 == 0}
			}
			if r.P(1, 12) { // records at the ends of the calendar (date arithmetic there can leave the calendar: D11)
				base := Pick(r, [][3]int{{9999, 12, 30}, {9999, 12, 30}, {0, 1, 1}})
				return map[string]any{"text": hx(GenDoc(r, DocOpts{Window: 2, Base: base, MinRecords: 1}).Text), "src": "calendar-end", "cmds": true}
			}
			switch r.Weighted(3, 3, 2, 2) {
			case 0:
				y, m, dd := genDate(r)
				if y > 9990 {
					y = 9990
				}
				return map[string]any{"text": hx(GenDoc(r, DocOpts{Window: 300, Base: [3]int{y, m, dd}}).Text), "src": "docgen", "cmds": true}
			case 1:
				y, m, dd := genDate(r)
				if y > 9990 {
					y = 9990
				}
				d := GenDoc(r, DocOpts{MinRecords: 1, Window: 300, Base: [3]int{y, m, dd}})
				t := d.Text
				for k := r.Range(1, 3); k > 0; k-- { // one or more rule-violating edits / byte-level mutations
					if m := Mutate(r, d); m != nil && r.P(1, 2) {
						t = m.Text
					} else if len(t) > 0 {
						i := r.Intn(len(t))
						t = t[:i] + Pick(r, tokenAlphabet) + t[i+r.Intn(min(3, len(t)-i)):]
					}
				}
				return map[string]any{"text": hx(t), "src": "mutated", "cmds": true}
			case 2:
				return map[string]any{"text": hx(GenLayout(r)), "src": "layout", "cmds": true}
			default:
				return map[string]any{"text": hx(GenBytes(r)), "src": "bytes", "cmds": true}
			}
		},
		Run: runC06,
	})
}

func runC06(env *Env, data map[string]any) *Outcome {
	text := textOf(data, "text")
	o := &Outcome{Key: hashKey(text), Tags: []string{"src:" + str(data, "src")}}
	impl, pmsg := implParse(text)
	model := env.Drv.Ask("parse", hx(text))
	o.Evals = 1
	if impl != model {
		o.Findings = append(o.Findings, Finding{Kind: "K", What: "K.C06.parse: parser outcome differs from the model" + pmsgNote(pmsg), Impl: short(impl, 2000), Model: short(model, 2000)})
	}
	if pmsg != "" {
		o.Tags = append(o.Tags, "outcome:panic")
		o.Findings = append(o.Findings, Finding{Kind: "D", What: "the parser panics: " + pmsg, Impl: "panic", Signature: crashSignature("C06", "panic: "+pmsg, data)})
		return o
	}
	// shape
	var shapeProblem string
	safely(func() {
		rs, bs, errs := parser.NewSerialParser().Parse(text)
		switch {
		case errs == nil && len(rs) != len(bs):
			shapeProblem = fmt.Sprintf("%d records but %d blocks", len(rs), len(bs))
		case errs != nil && (len(errs) == 0 || rs != nil || bs != nil):
			shapeProblem = "errors together with records, or an empty error list"
		}
		for _, e := range errs { // every accessor used by the renderers
			_ = e.LineText()
			_ = e.Message()
			if e.Position() < 0 || e.Length() < 0 {
				shapeProblem = "negative position or length in an error"
			}
		}
	})
	if shapeProblem != "" {
		o.Findings = append(o.Findings, Finding{Kind: "D", What: "parser result has the wrong shape: " + shapeProblem, Impl: short(impl, 1000)})
	}
	valid := strings.HasPrefix(impl, "records ")
	if valid {
		o.Tags = append(o.Tags, "outcome:records")
	} else {
		o.Tags = append(o.Tags, "outcome:errors")
	}
	o.Nontrivial = strings.Contains(impl, "B(") || strings.Contains(impl, "E(")
	// parallel parser (a panic inside a worker goroutine kills the process; the orchestrator records it)
	for _, n := range []int{2, 5} {
		rs, bs, errs := parser.NewParallelParser(n).Parse(text)
		o.Evals++
		if par := canonParse(rs, bs, errs); par != impl {
			o.Findings = append(o.Findings, Finding{Kind: "D", What: fmt.Sprintf("parallel parser (%d workers) differs from the serial parser", n), Impl: short(par, 1500), Model: short(impl, 1500)})
			break
		}
	}
	if valid {
		c06Warnings(env, o, text, data)
	}
	if !boolv(data, "cmds") {
		return o
	}
	file := writeFile(env, "c06.klg", text)
	// the clock: the date of one of the file's records when there is one (so that `today` and `--now` have something to do)
	nowT := mkTime(2021, 3, 4, 13, 37)
	if ds := reDateLine.FindAllStringSubmatch(text, -1); len(ds) > 0 {
		d := ds[len(text)%len(ds)]
		var y, m, dd int
		fmt.Sscanf(d[1]+" "+d[2]+" "+d[3], "%d %d %d", &y, &m, &dd)
		if y >= 1 && y <= 9998 && m >= 1 && m <= 12 && dd >= 1 && dd <= gDaysIn(y, m) {
			nowT = mkTime(y, m, dd, 13+len(text)%10, 37)
		}
	}
	for ci, cmd := range readOnlyCommands {
		for _, warn := range []bool{false, true} {
			if warn && ci%3 != 0 {
				continue
			}
			args := append([]string{}, cmd...)
			if !warn {
				args = append(args, "--no-warn")
			}
			args = append(args, file)
			res := runCLI(env, CLIOpts{Now: nowT, Cpus: 1 + ci%3}, args...)
			o.Evals++
			if res.Panic != "" {
				sig := crashSignature("C06", "panic: "+res.Panic, data)
				o.Findings = append(o.Findings, Finding{Kind: "D", What: fmt.Sprintf("`klog %s` crashes: %s", strings.Join(cmd, " "), res.Panic), Impl: "panic", Signature: sig})
				return o
			}
			if !valid && cmd[0] != "json" && (res.Code == 0 || strings.TrimSpace(res.Err) == "") {
				o.Findings = append(o.Findings, Finding{Kind: "D", What: fmt.Sprintf("`klog %s` on an invalid file must fail with the rendered errors (exit %d)", strings.Join(cmd, " "), res.Code), Impl: short(res.Stdout, 300)})
				return o
			}
		}
	}
	return o
}

var warnNames = []string{"UNCLOSED_OPEN_RANGE", "FUTURE_ENTRIES", "OVERLAPPING_RANGES", "MORE_THAN_24H"}

// implWarnings runs the real service.CheckForWarnings and renders the warnings as `date:NAME,…`.
func implWarnings(rs []klog.Record, now gotime.Time, dis [4]bool) string {
	var out []string
	res := ""
	msg := safely(func() {
		d := service.NewDisabledCheckers()
		for i, n := range warnNames {
			d[n] = dis[i]
		}
		byMsg := learnWarnMessages()
		service.CheckForWarnings(func(w service.Warning) {
			n, ok := byMsg[w.Warning()]
			if !ok {
				n = "?" + w.Warning()
			}
			out = append(out, w.Date().ToString()+":"+n)
		}, now, rs, d)
		res = "ok " + strings.Join(out, ",")
	})
	if msg != "" {
		return "panic"
	}
	return res
}

// c06Warnings: the warnings of a valid document at clock readings on and around its record dates
// (correspondence with the model; a panic away from the ends of the calendar is a violation).
func c06Warnings(env *Env, o *Outcome, text string, data map[string]any) {
	rs, _, errs := parser.NewSerialParser().Parse(text)
	if errs != nil || len(rs) == 0 {
		return
	}
	small := len(rs) <= 12
	for _, r := range rs {
		if len(r.Entries()) > 12 {
			small = false
		}
	}
	h := 0
	for i := 0; i < len(text); i++ {
		h = (h*31 + int(text[i])) & 0xffffff
	}
	r := rs[h%len(rs)]
	for k := 0; k < 3; k++ {
		hh := (h >> 3 * (k + 1)) % 24
		mm := (h >> 5 * (k + 1)) % 60
		if k == 1 { // late evening: the grace period reaches into the next day
			hh, mm = 23, 29+(h>>7)%31
		}
		y, m, d := r.Date().Year(), r.Date().Month(), r.Date().Day()
		shift := []int{0, 1, -1, 2, -2, -3}[(h>>(2+k))%6]
		now := gotime.Date(y, gotime.Month(m), d+shift, hh, mm, 0, 0, gotime.UTC)
		if now.Year() < 0 || now.Year() > 9999 {
			continue
		}
		var dis [4]bool
		if k == 2 {
			for i := range dis {
				dis[i] = (h>>(9+i))&1 == 1
			}
		}
		impl := implWarnings(rs, now, dis)
		o.Evals++
		atEnd := now.Year() == 0 && now.Month() == 1 && now.Day() <= 2 || now.Year() == 9999 && now.Month() == 12 && now.Day() >= 30
		for _, x := range rs {
			if x.Date().Year() == 0 && x.Date().Month() == 1 && x.Date().Day() == 1 || x.Date().Year() == 9999 && x.Date().Month() == 12 && x.Date().Day() == 31 {
				atEnd = true
			}
		}
		if impl == "panic" && !atEnd && !strings.Contains(text, "99999999") {
			o.Findings = append(o.Findings, Finding{Kind: "D", What: fmt.Sprintf("CheckForWarnings panics (clock %s)", now.Format("2006-01-02 15:04")), Impl: "panic"})
			return
		}
		if small {
			bits := ""
			for _, b := range dis {
				if b {
					bits += "1"
				} else {
					bits += "0"
				}
			}
			model := env.Drv.Ask("warn", hx(text), fmt.Sprint(now.Year()), fmt.Sprint(int(now.Month())), fmt.Sprint(now.Day()), fmt.Sprint(hh), fmt.Sprint(mm), bits)
			if model != impl {
				o.Findings = append(o.Findings, Finding{Kind: "K", What: fmt.Sprintf("K.C06.warnings: CheckForWarnings differs from the model (clock %s, disabled %s)", now.Format("2006-01-02 15:04"), bits), Impl: short(impl, 1500), Model: short(model, 1500)})
				return
			}
			if strings.Contains(impl, ":") {
				o.Tags = append(o.Tags, "warnings:some")
			} else {
				o.Tags = append(o.Tags, "warnings:none")
			}
		}
	}
}

// learnWarnMessages finds out which message each of the four checkers uses by provoking it alone, so that the
// correspondence does not depend on the wording of the messages (only on which checker fires for which record).
var learnedWarnMessages map[string]string

func learnWarnMessages() map[string]string {
	if learnedWarnMessages != nil {
		return learnedWarnMessages
	}
	m := map[string]string{}
	probe := func(text string, now gotime.Time, kind int) {
		rs, _, errs := parser.NewSerialParser().Parse(text)
		if errs != nil {
			return
		}
		d := service.NewDisabledCheckers()
		for i, n := range warnNames {
			d[n] = i != kind
		}
		safely(func() {
			service.CheckForWarnings(func(w service.Warning) {
				if _, seen := m[w.Warning()]; !seen {
					m[w.Warning()] = warnNames[kind]
				}
			}, now, rs, d)
		})
	}
	now := gotime.Date(2021, 3, 10, 12, 0, 0, 0, gotime.UTC)
	probe("2021-03-01\n    8:00 - ?\n", now, 0)
	probe("2021-04-01\n    1h\n", now, 1)
	probe("2021-03-01\n    8:00 - 10:00\n    9:00 - 11:00\n", now, 2)
	probe("2021-03-01\n    25h\n", now, 3)
	learnedWarnMessages = m
	return m
}
