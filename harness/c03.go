package main

import (
	"fmt"
	"strings"
)

// C03: mutating commands touch only the lines they are defined to change.

// lineEditShape is the statement of C03 as a predicate on (old text, new text, command).
// It returns "" if `new` is `old` with: at most one rewritten entry (first line: only a
// placeholder run / duration token replaced, text appended only at the end of the entry's last
// line), contiguous blocks of added lines, at most one line gaining a line ending directly before
// an added block, everything else byte-identical and in order.
func lineEditShape(old, new string, cmd CmdSpec) string {
	ol, nl := splitKeep(old), splitKeep(new)
	allBlank := true
	for _, l := range ol {
		if !isBlankLine(l) {
			allBlank = false
		}
	}
	if allBlank {
		return "" // a file with nothing but blank lines may be replaced wholesale
	}
	// greedy alignment: walk both lists
	i, j := 0, 0
	rewritten := 0
	addedBlocks := 0
	inAdded := false
	gainedEnding := 0
	var problems []string
	sameModuloEnding := func(a, b string) bool {
		ab, ae := lineBody(a)
		bb, _ := lineBody(b)
		return ae == "" && ab == bb
	}
	for i < len(ol) || j < len(nl) {
		switch {
		case i < len(ol) && j < len(nl) && ol[i] == nl[j]:
			i++
			j++
			inAdded = false
		case i < len(ol) && j < len(nl) && sameModuloEnding(ol[i], nl[j]) && j+1 < len(nl) && (i+1 >= len(ol) || ol[i+1] != nl[j+1]):
			// a line without ending gains one, directly before added lines
			gainedEnding++
			i++
			j++
			inAdded = false
		case i < len(ol) && j < len(nl) && isRewrite(ol[i], nl[j], cmd):
			rewritten++
			i++
			j++
			inAdded = false
		case j < len(nl):
			// an added line
			if !inAdded {
				addedBlocks++
				inAdded = true
			}
			j++
		default:
			problems = append(problems, fmt.Sprintf("original line %d (%q) is missing from the result", i+1, ol[i]))
			i++
		}
		if len(problems) > 3 {
			break
		}
	}
	if rewritten > 2 {
		problems = append(problems, fmt.Sprintf("%d existing lines were rewritten", rewritten))
	}
	if gainedEnding > 1 {
		problems = append(problems, "more than one line gained a line ending")
	}
	maxBlocks := 1
	switch cmd.Kind {
	case "switch":
		maxBlocks = 2
	case "stop":
		maxBlocks = 1
	}
	if addedBlocks > maxBlocks {
		problems = append(problems, fmt.Sprintf("added lines form %d separate blocks", addedBlocks))
	}
	return strings.Join(problems, "; ")
}

// isRewrite: `b` is `a` with one token (placeholder run or duration value) replaced and/or
// text appended at the end of the line; the line ending is unchanged.
func isRewrite(a, b string, cmd CmdSpec) bool {
	if cmd.Kind != "stop" && cmd.Kind != "switch" && cmd.Kind != "pause" {
		return false
	}
	ab, ae := lineBody(a)
	bb, be := lineBody(b)
	if ae != be && !(ae == "" && be != "") {
		return false
	}
	// common prefix / suffix
	p := 0
	for p < len(ab) && p < len(bb) && ab[p] == bb[p] {
		p++
	}
	if p == len(ab) {
		return true // pure append at the end of the line
	}
	if cmd.Kind == "pause" {
		// the duration token: leading blanks + token + rest unchanged
		ta, tb := strings.TrimLeft(ab, " \t"), strings.TrimLeft(bb, " \t")
		if len(ab)-len(ta) != len(bb)-len(tb) {
			return false
		}
		ra, rb := strings.IndexAny(ta, " \t"), strings.IndexAny(tb, " \t")
		if ra < 0 {
			ra = len(ta)
		}
		if rb < 0 {
			rb = len(tb)
		}
		return ta[ra:] == tb[rb:]
	}
	// stop/switch: the first run of `?` is replaced, and text may be appended at the end
	q := strings.Index(ab, "?")
	if q < 0 || q > p {
		return false
	}
	e := q
	for e < len(ab) && ab[e] == '?' {
		e++
	}
	rest := ab[e:]
	// b = ab[:q] + <time> + rest + <appended>
	if !strings.HasPrefix(bb, ab[:q]) {
		return false
	}
	tail := bb[q:]
	k := strings.Index(tail, rest)
	if rest == "" {
		return !strings.ContainsAny(strings.SplitN(tail, " ", 2)[0], "?")
	}
	return k >= 0 && k <= 12
}

var allCmdKinds = []string{"track", "track", "start", "start", "stop", "stop", "switch", "pause", "pause", "create"}

func init() {
	register(&Prop{
		ID: "C03",
		Rule: "DocGen files (mixed indentation per record, CRLF/LF/mixed, missing final newline, blank-line runs, whitespace-only lines, multi-line summaries) x one mutating command (track/start/stop/switch/pause incl. tick scripts/create) with parameters (explicit/relative dates before/between/after the records, times, rounding, multi-line summaries, --resume/--resume-nth, should-totals) and a configuration, run through the real CLI on a real file. " +
			"Non-trivial: the command succeeds on a file with at least 2 records; distinct = distinct (file, command, clock, config)",
		Count: func(tier string) int {
			if tier == "thorough" {
				return 250000
			}
			return 10000
		},
		Gen: func(r *Rand, idx int, tier string) map[string]any {
			doc := GenDoc(r, DocOpts{CleanText: r.P(4, 5), SortedDates: r.P(2, 3)})
			return GenCmdCase(r, doc, allCmdKinds).Data()
		},
		Run: runC03,
	})
}

func runC03(env *Env, data map[string]any) *Outcome {
	c := cmdCaseOf(data)
	o := &Outcome{Key: hashKey(fmt.Sprint(data)), Tags: []string{"cmd:" + c.Cmd.Kind}}
	res := runCommand(env, c.Text, c.Cfg, c.Now, c.Cmd, 1)
	model := modelCommand(env, c.Text, c.Cfg, c.Now, c.Cmd)
	if res.Outcome != model {
		o.Findings = append(o.Findings, Finding{Kind: "K", What: "K.C03.cmd: result of `klog " + c.Cmd.Kind + "` differs from the model", Impl: short(res.Outcome, 3000) + " | " + short(res.Err, 300), Model: short(model, 3000)})
	}
	switch {
	case res.Panic != "":
		o.Findings = append(o.Findings, Finding{Kind: "D", What: "klog " + c.Cmd.Kind + " panics: " + res.Panic, Impl: "panic", Signature: crashSignature("C03", res.Panic, data)})
	case res.Code == 0:
		o.Tags = append(o.Tags, "success:"+c.Cmd.Kind)
		if v := lineEditShape(c.Text, res.After, c.Cmd); v != "" {
			sig := ""
			if lineTextEndsInCR(c.Text) {
				sig = "line-text-ends-in-cr"
			}
			o.Findings = append(o.Findings, Finding{Kind: "D", What: "the command changed more than the lines it is defined to change: " + v, Impl: hx(res.After), Model: hx(c.Text), Signature: sig})
		}
		o.Nontrivial = strings.Count(c.Text, "\n") > 4
	default:
		o.Tags = append(o.Tags, "failure:"+c.Cmd.Kind)
		if res.After != c.Text {
			o.Findings = append(o.Findings, Finding{Kind: "D", What: "the command failed but changed the file", Impl: hx(res.After), Model: hx(c.Text)})
		}
	}
	o.Sample = map[string]any{"cmd": c.Cmd, "now": c.Now, "outcome": short(res.Outcome, 60)}
	return o
}
