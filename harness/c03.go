package main

import (
	"fmt"
	"strings"
)

// C03: mutating commands touch only the lines they are defined to change.

// lineEditShape is the statement of C03 as a predicate on (old text, new text, command).
// It returns "" if `new` is `old` with: at most one rewritten entry (first line: only a
// placeholder run / duration token replaced, text appended only at the end of the entry's last
// line), contiguous blocks of added lines, at most one line gaining a line ending directly before
// an added block, everything else byte-identical and in order.
func lineEditShape(old, new string, cmd CmdSpec) string {
	ol, nl := splitKeep(old), splitKeep(new)
	allBlank := true
	for _, l := range ol {
		if !isBlankLine(l) {
			allBlank = false
		}
	}
	if allBlank {
		return "" // a file with nothing but blank lines may be replaced wholesale
	}
	// Best alignment of old and new lines (dynamic programme): every old line is either kept
	// byte-for-byte, kept with a gained line ending, or rewritten in the permitted way; new lines
	// that correspond to no old line are additions. Minimise (lost lines, rewrites, added blocks).
	n, m := len(ol), len(nl)
	const INF = 1 << 40
	const LOST, REWRITE, GAIN = 1 << 20, 1 << 10, 1 << 5
	// cost[i][j][s]: s=1 if the previous step was an addition
	cost := make([][][2]int, n+2)
	for i := range cost {
		cost[i] = make([][2]int, m+2)
		for j := range cost[i] {
			cost[i][j] = [2]int{INF, INF}
		}
	}
	cost[n][m] = [2]int{0, 0}
	sameModuloEnding := func(a, b string) bool {
		ab, ae := lineBody(a)
		bb, be := lineBody(b)
		return ae == "" && be != "" && ab == bb
	}
	for i := n; i >= 0; i-- {
		for j := m; j >= 0; j-- {
			if i == n && j == m {
				continue
			}
			for st := 0; st < 2; st++ {
				best := INF
				if i < n && j < m {
					if ol[i] == nl[j] {
						best = min(best, cost[i+1][j+1][0])
					} else if sameModuloEnding(ol[i], nl[j]) && j+1 < m { // … only when lines are added after it
						best = min(best, GAIN+cost[i+1][j+1][0])
					} else if isRewrite(ol[i], nl[j], cmd) {
						best = min(best, REWRITE+cost[i+1][j+1][0])
					}
				}
				if j < m {
					c := cost[i][j+1][1]
					if st == 0 {
						c++
					}
					best = min(best, c)
				}
				if i < n {
					best = min(best, LOST+cost[i+1][j][0])
				}
				cost[i][j][st] = best
			}
		}
	}
	total := cost[0][0][0]
	lost, rewritten, gained, addedBlocks := total/LOST, (total%LOST)/REWRITE, (total%REWRITE)/GAIN, total%GAIN
	var problems []string
	if lost > 0 {
		problems = append(problems, fmt.Sprintf("%d original line(s) do not survive", lost))
	}
	maxRewritten := 0
	switch cmd.Kind {
	case "stop", "switch":
		maxRewritten = 2
	case "pause":
		maxRewritten = 1
	}
	if rewritten > maxRewritten {
		problems = append(problems, fmt.Sprintf("%d existing lines were rewritten", rewritten))
	}
	if gained > 1 {
		problems = append(problems, "more than one line gained a line ending")
	}
	maxBlocks := 1
	if cmd.Kind == "switch" {
		maxBlocks = 2
	}
	if addedBlocks > maxBlocks {
		problems = append(problems, fmt.Sprintf("added lines form %d separate blocks", addedBlocks))
	}
	return strings.Join(problems, "; ")
}

// isRewrite: `b` is `a` with one token (placeholder run or duration value) replaced and/or
// text appended at the end of the line; the line ending is unchanged.
func isRewrite(a, b string, cmd CmdSpec) bool {
	if cmd.Kind != "stop" && cmd.Kind != "switch" && cmd.Kind != "pause" {
		return false
	}
	ab, ae := lineBody(a)
	bb, be := lineBody(b)
	if ae != be && !(ae == "" && be != "") {
		return false
	}
	// common prefix / suffix
	p := 0
	for p < len(ab) && p < len(bb) && ab[p] == bb[p] {
		p++
	}
	if p == len(ab) {
		return true // pure append at the end of the line
	}
	if cmd.Kind == "pause" {
		// the duration token: leading blanks + token + rest unchanged
		ta, tb := strings.TrimLeft(ab, " \t"), strings.TrimLeft(bb, " \t")
		if len(ab)-len(ta) != len(bb)-len(tb) {
			return false
		}
		ra, rb := strings.IndexAny(ta, " \t"), strings.IndexAny(tb, " \t")
		if ra < 0 {
			ra = len(ta)
		}
		if rb < 0 {
			rb = len(tb)
		}
		return ta[ra:] == tb[rb:]
	}
	// stop/switch: the first run of `?` is replaced, and text may be appended at the end
	q := strings.Index(ab, "?")
	if q < 0 || q > p {
		return false
	}
	e := q
	for e < len(ab) && ab[e] == '?' {
		e++
	}
	rest := ab[e:]
	// b = ab[:q] + <time> + rest + <appended>
	if !strings.HasPrefix(bb, ab[:q]) {
		return false
	}
	tail := bb[q:]
	k := strings.Index(tail, rest)
	if rest == "" {
		return !strings.ContainsAny(strings.SplitN(tail, " ", 2)[0], "?")
	}
	return k >= 0 && k <= 12
}

var allCmdKinds = []string{"track", "track", "start", "start", "stop", "stop", "switch", "pause", "pause", "create"}

func init() {
	register(&Prop{
		ID: "C03",
		Rule: "DocGen files (mixed indentation per record, CRLF/LF/mixed, missing final newline, blank-line runs, whitespace-only lines, multi-line summaries) x one mutating command (track/start/stop/switch/pause incl. tick scripts/create) with parameters (explicit/relative dates before/between/after the records, times, rounding, multi-line summaries, --resume/--resume-nth, should-totals) and a configuration, run through the real CLI on a real file. " +
			"Non-trivial: the command succeeds on a file with at least 2 records; distinct = distinct (file, command, clock, config)",
		Count: func(tier string) int {
			if tier == "thorough" {
				return 250000
			}
			return 10000
		},
		Gen: func(r *Rand, idx int, tier string) map[string]any {
			doc := GenDoc(r, DocOpts{CleanText: r.P(4, 5), SortedDates: r.P(2, 3)})
			return GenCmdCase(r, doc, allCmdKinds).Data()
		},
		Run: runC03,
	})
}

func runC03(env *Env, data map[string]any) *Outcome {
	c := cmdCaseOf(data)
	o := &Outcome{Key: hashKey(fmt.Sprint(data)), Tags: []string{"cmd:" + c.Cmd.Kind}}
	res := runCommand(env, c.Text, c.Cfg, c.Now, c.Cmd, cpusFor(c.Text))
	model := modelCommand(env, c.Text, c.Cfg, c.Now, c.Cmd)
	if res.Outcome != model {
		o.Findings = append(o.Findings, Finding{Kind: "K", What: "K.C03.cmd: result of `klog " + c.Cmd.Kind + "` differs from the model", Impl: short(res.Outcome, 3000) + " | " + short(res.Err, 300), Model: short(model, 3000)})
	}
	switch {
	case res.Panic != "":
		o.Findings = append(o.Findings, Finding{Kind: "D", What: "klog " + c.Cmd.Kind + " panics: " + res.Panic, Impl: "panic", Signature: crashSignature("C03", res.Panic, data)})
	case res.Code == 0:
		o.Tags = append(o.Tags, "success:"+c.Cmd.Kind)
		if v := lineEditShape(c.Text, res.After, c.Cmd); v != "" {
			sig := ""
			if lineTextEndsInCR(c.Text) {
				sig = "line-text-ends-in-cr"
			}
			o.Findings = append(o.Findings, Finding{Kind: "D", What: "the command changed more than the lines it is defined to change: " + v, Impl: hx(res.After), Model: hx(c.Text), Signature: sig})
		}
		o.Nontrivial = strings.Count(c.Text, "\n") > 4
	default:
		o.Tags = append(o.Tags, "failure:"+c.Cmd.Kind)
		if res.After != c.Text {
			o.Findings = append(o.Findings, Finding{Kind: "D", What: "the command failed but changed the file", Impl: hx(res.After), Model: hx(c.Text)})
		}
	}
	o.Sample = map[string]any{"cmd": c.Cmd, "now": c.Now, "outcome": short(res.Outcome, 60)}
	return o
}
