package main

// Validation of the translator tie (extract_gosrc.go): the driver's `gs.*` ops evaluate the Lean definitions that were
// GENERATED from the Go sources (KlogV/Gen/GoSrc.lean) under the hand-written Go semantics (KlogV/GoSem/Prelude.lean); here the
// same questions are put to the running code.  A disagreement means the translator or the prelude misrepresents the code
// (trusted base), or — because the generated file was produced from the very sources this binary was built from — that the
// generated file is stale.  It is reported as a K finding of the property whose check asked.

import (
	"fmt"
	"os"
	"path/filepath"
	"regexp"
	"strings"
	"sync"

	"github.com/jotaen/klog/klog"
	"github.com/jotaen/klog/klog/service"
)

var gsRxOnce sync.Once
var gsRx map[string]*regexp.Regexp

// gsRegex: the pattern of the package-level regexp variable `name`, read from the sources like the translator does.
func gsRegex(name string) *regexp.Regexp {
	gsRxOnce.Do(func() {
		gsRx = map[string]*regexp.Regexp{}
		found, _ := findRegexes(repoDir())
		for _, f := range found {
			if re, err := regexp.Compile(f.src); err == nil {
				parts := strings.Split(f.name, "_")
				gsRx[parts[len(parts)-1]] = re
			}
		}
	})
	return gsRx[name]
}

func gsSubmatch(name, s string) ([]string, bool) {
	re := gsRegex(name)
	if re == nil {
		return nil, false
	}
	var toks []string
	for _, g := range re.FindStringSubmatch(s) {
		toks = append(toks, hx(g))
	}
	return toks, true
}

// gsDriver: the executable built from the translated Go source, next to the model driver; nil when it does not exist
// (the translated file did not compile: bin/check reports that as a broken obligation and removes the stale binary).
func gsDriver(env *Env) *Driver {
	env.gsOnce.Do(func() {
		p := filepath.Join(filepath.Dir(env.DriverPath), "klogv-gsdriver")
		if _, err := os.Stat(p); err == nil {
			if d, err := StartDriver(p, ""); err == nil {
				env.gs = d
			}
		}
	})
	return env.gs
}

// gsCheckSubmatch: the generic contract of FindStringSubmatch assumed by Props/GoRx.lean (`SubmatchSpec`: nil, or the string
// and the texts between the group markers of THE marked word over the string), evaluated on the syntax tree translated from
// the source, against what Go's regexp package really returns for the pattern of the source.
func gsCheckSubmatch(env *Env, o *Outcome, varName, leanName string, ngroups int, s string, in map[string]any) {
	d := gsDriver(env)
	re := gsRegex(varName)
	if d == nil || re == nil {
		return
	}
	for _, r := range s {
		if r > 127 {
			return // the validation parser interprets the named classes for ASCII only
		}
	}
	impl := "nil"
	if m := re.FindStringSubmatch(s); m != nil {
		var toks []string
		for _, g := range m {
			toks = append(toks, hx(g))
		}
		impl = strings.Join(toks, " ")
	}
	if model := d.Ask("rx.groups", leanName, fmt.Sprint(ngroups), hx(s)); model != impl {
		addF(o, Finding{Kind: "K", What: "K.gosrc.submatch: FindStringSubmatch of " + varName + " differs from the generic contract (SubmatchSpec) evaluated on the pattern translated from the source", Impl: impl, Model: model, Input: in})
	}
}

func gsCompare(env *Env, o *Outcome, what string, impl string, in map[string]any, parts ...string) {
	d := gsDriver(env)
	if d == nil {
		return
	}
	model := d.Ask(parts...)
	if impl != model {
		addF(o, Finding{Kind: "K", What: "K.gosrc." + what + ": the Go source as translated into Lean (Gen/GoSrc.lean) differs from the running code", Impl: impl, Model: model, Input: in})
	}
}

func gsCheckTimeString(env *Env, s string, impl string, in map[string]any, o *Outcome) {
	groups, ok := gsSubmatch("timePattern", s)
	if !ok {
		return // the variable was renamed: this validation of the translator is skipped (the ties of §0.9 look patterns up by language)
	}
	gsCompare(env, o, "time", impl, in, append([]string{"gs.time", hx(s)}, groups...)...)
	gsCheckSubmatch(env, o, "timePattern", "rx_klog_timePattern", 5, s, in)
}

func gsCheckDurString(env *Env, s string, impl string, in map[string]any, o *Outcome) {
	groups, ok := gsSubmatch("durationPattern", s)
	if !ok {
		return
	}
	gsCompare(env, o, "dur", impl, in, append([]string{"gs.dur", hx(s)}, groups...)...)
	gsCheckSubmatch(env, o, "durationPattern", "rx_klog_durationPattern", 5, s, in)
}

func gsHMS(a int) (string, string, string) {
	return fmt.Sprint((a % 1440) / 60), fmt.Sprint(a % 60), fmt.Sprint(a/1440 - 1)
}

// gsCheckMisc: roundings, overflow-checked duration arithmetic, printing of extreme durations.
func gsCheckMisc(env *Env, r *Rand, o *Outcome) {
	// NewRoundingFromString
	rs := Pick(r, []string{"5m", "10m", "12m", "15m", "20m", "30m", "60m", "1h", "5", "60", "7m", "0m", "-5m", "+5m", "05m", "5mm", "m", "", "1h ", "2h", "15 m",
		"99999999999999999999m", "9223372036854775807", "6", "12", fmt.Sprint(r.Range(-3, 70)), fmt.Sprint(r.Range(0, 61)) + "m"})
	impl := "err"
	if ro, err := service.NewRoundingFromString(rs); err == nil {
		impl = fmt.Sprintf("ok %d", ro.ToInt())
	}
	gsCompare(env, o, "rounding", impl, map[string]any{"space": "gosrc", "rounding": rs}, "gs.rounding", hx(rs))
	// RoundToNearest on every kind of time
	a := r.Intn(4320)
	if r.P(1, 2) {
		a = 1440 + r.Intn(1440)
	}
	v := Pick(r, []int{5, 10, 12, 15, 20, 30, 60})
	ro, _ := service.NewRounding(v)
	impl = ""
	if p := safely(func() { impl = "ok " + canonTime(service.RoundToNearest(timeAt(a), ro)) }); p != "" {
		impl = "panic"
	}
	h, m, s := gsHMS(a)
	gsCompare(env, o, "round", impl, map[string]any{"space": "gosrc", "a": a, "v": v}, "gs.round", h, m, s, fmt.Sprint(v))
	// NewDuration with overflow
	big := []int{0, 1, -1, 59, 60, 153722867280912930, 153722867280912931, -153722867280912930, -153722867280912931, 9223372036854775807, -9223372036854775807, -9223372036854775808, 4611686018427387904}
	hh, mm := Pick(r, big), Pick(r, big)
	if r.P(1, 2) {
		hh, mm = r.Range(-100, 100), r.Range(-5000, 5000)
	}
	impl = ""
	if p := safely(func() { impl = fmt.Sprintf("ok %d", klog.NewDuration(hh, mm).InMinutes()) }); p != "" {
		impl = "panic"
	}
	gsCompare(env, o, "newdur", impl, map[string]any{"space": "gosrc", "h": hh, "m": mm}, "gs.newdur", fmt.Sprint(hh), fmt.Sprint(mm))
	// Plus / Minus / ToString / ToStringWithSign of computed durations
	x, y := Pick(r, big), Pick(r, big)
	if r.P(1, 2) {
		x, y = r.Range(-100000, 100000), r.Range(-100000, 100000)
	}
	if x == -9223372036854775808 {
		x++ // NewDuration(0, minInt) itself panics: not a value
	}
	if y == -9223372036854775808 {
		y++
	}
	var dx, dy klog.Duration
	if p := safely(func() { dx, dy = klog.NewDuration(0, x), klog.NewDuration(0, y) }); p == "" {
		part := func(f func() string) string {
			out := ""
			if p := safely(func() { out = f() }); p != "" {
				return "panic"
			}
			return out
		}
		impl = part(func() string { return fmt.Sprint(dx.Plus(dy).InMinutes()) }) + " " + part(func() string { return fmt.Sprint(dx.Minus(dy).InMinutes()) }) + " " + dx.ToString() + " " + dx.ToStringWithSign()
		gsCompare(env, o, "durarith", impl, map[string]any{"space": "gosrc", "x": x, "y": y}, "gs.durarith", fmt.Sprint(x), fmt.Sprint(y))
	}
}
