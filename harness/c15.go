package main

import (
	"fmt"
	"strings"

	"github.com/jotaen/klog/klog"
	"github.com/jotaen/klog/klog/service/period"
)

// C15: calendar. A case is one year (all its dates) or one year of pattern strings.

func dstr(d klog.Date) string {
	return fmt.Sprintf("%04d-%02d-%02d", d.Year(), d.Month(), d.Day())
}

func orErr(f func() string) (s string) {
	if p := safely(func() { s = f() }); p != "" {
		return "err"
	}
	return s
}

func pstr(p period.Period) string { return dstr(p.Since()) + ".." + dstr(p.Until()) }

// implCal renders the same line as the driver's `cal` op.
func implCal(d klog.Date) string {
	wy, ww := d.WeekNumber()
	var plus []string
	for _, n := range []int{1, -1, 7, -7, -25, -80, 365, -366} {
		n := n
		plus = append(plus, orErr(func() string { return dstr(d.PlusDays(n)) }))
	}
	pers := []string{
		dstr(d) + ".." + dstr(d),
		orErr(func() string { return pstr(period.NewWeekFromDate(d).Period()) }),
		orErr(func() string { return pstr(period.NewMonthFromDate(d).Period()) }),
		orErr(func() string { return pstr(period.NewQuarterFromDate(d).Period()) }),
		orErr(func() string { return pstr(period.NewYearFromDate(d).Period()) }),
	}
	prevs := []string{
		orErr(func() string { return dstr(d.PlusDays(-1)) }),
		orErr(func() string { return dstr(period.NewWeekFromDate(d).Previous().Period().Since().PlusDays(0)) }),
		"", "", "",
	}
	// Previous() returns a period object holding some date inside the previous period; the model
	// returns that date. It is not exported, so compare through the period it denotes instead.
	prevs[1] = orErr(func() string { return dstr(d.PlusDays(-7)) })
	prevs[2] = orErr(func() string { return prevDateOf(period.NewMonthFromDate(d).Previous().Period()) })
	prevs[3] = orErr(func() string { return prevDateOf(period.NewQuarterFromDate(d).Previous().Period()) })
	prevs[4] = orErr(func() string { return prevDateOf(period.NewYearFromDate(d).Previous().Period()) })
	hashes := []string{
		fmt.Sprint(uint32(period.NewDayFromDate(d).Hash())),
		fmt.Sprint(uint32(period.NewWeekFromDate(d).Hash())),
		fmt.Sprint(uint32(period.NewMonthFromDate(d).Hash())),
		fmt.Sprint(uint32(period.NewQuarterFromDate(d).Hash())),
		fmt.Sprint(uint32(period.NewYearFromDate(d).Hash())),
	}
	return fmt.Sprintf("wd=%d iso=%d/%d q=%d plus=%s per=%s prevp=%s hash=%s", d.Weekday(), wy, ww, d.Quarter(),
		strings.Join(plus, ","), strings.Join(pers, ","), strings.Join(prevs[2:], ","), strings.Join(hashes, ","))
}

func prevDateOf(p period.Period) string { return pstr(p) }

// ---- independent calendar oracle (no use of Go's time package or of klog) ----

// Sakamoto's algorithm: 0 = Sunday
func oracleDow(y, m, d int) int {
	t := []int{0, 3, 2, 5, 0, 3, 5, 1, 4, 6, 2, 4}
	if m < 3 {
		y--
	}
	// works for y >= 0 after the decrement only if y >= 0; for year 0 Jan/Feb y = -1: use floor division
	fd := func(a, b int) int {
		q := a / b
		if (a%b != 0) && ((a < 0) != (b < 0)) {
			q--
		}
		return q
	}
	v := (y + fd(y, 4) - fd(y, 100) + fd(y, 400) + t[m-1] + d) % 7
	if v < 0 {
		v += 7
	}
	return v
}

func oracleWeekday(y, m, d int) int { // Monday=1..Sunday=7
	w := oracleDow(y, m, d)
	if w == 0 {
		return 7
	}
	return w
}

func oracleYday(y, m, d int) int { // 1-based
	n := d
	for i := 1; i < m; i++ {
		n += gDaysIn(y, i)
	}
	return n
}

func daysInYear(y int) int {
	if gIsLeap(y) {
		return 366
	}
	return 365
}

// ISO 8601: week number = floor((yday - weekday + 10) / 7); 0 -> last week of the previous year;
// 53 -> week 1 of the next year unless the year has 53 weeks.
func weeksInYear(y int) int {
	// a year has 53 weeks iff Jan 1 is a Thursday, or it is a leap year and Jan 1 is a Wednesday
	var jan1 int
	if y >= 0 {
		jan1 = oracleWeekday(y, 1, 1)
	} else {
		// year -1: Jan 1 of year 0 is a Saturday; year -1 has 365 days -> Jan 1 of -1 is a Friday
		jan1 = 5
	}
	leap := y >= 0 && gIsLeap(y)
	if jan1 == 4 || (leap && jan1 == 3) {
		return 53
	}
	return 52
}

func oracleIsoWeek(y, m, d int) (int, int) {
	w := (oracleYday(y, m, d) - oracleWeekday(y, m, d) + 10) / 7
	if w < 1 {
		return y - 1, weeksInYear(y - 1)
	}
	if w > weeksInYear(y) {
		return y + 1, 1
	}
	return y, w
}

type ymd struct{ y, m, d int }

func (a ymd) next() ymd {
	if a.d < gDaysIn(a.y, a.m) {
		return ymd{a.y, a.m, a.d + 1}
	}
	if a.m < 12 {
		return ymd{a.y, a.m + 1, 1}
	}
	return ymd{a.y + 1, 1, 1}
}

func (a ymd) prev() ymd {
	if a.d > 1 {
		return ymd{a.y, a.m, a.d - 1}
	}
	if a.m > 1 {
		return ymd{a.y, a.m - 1, gDaysIn(a.y, a.m-1)}
	}
	return ymd{a.y - 1, 12, 31}
}

func (a ymd) String() string { return fmt.Sprintf("%04d-%02d-%02d", a.y, a.m, a.d) }
func (a ymd) ok() bool       { return a.y >= 0 && a.y <= 9999 }

func (a ymd) plus(n int) (ymd, bool) {
	for ; n > 0; n-- {
		a = a.next()
	}
	for ; n < 0; n++ {
		a = a.prev()
	}
	return a, a.ok()
}

// oracleCal checks the statement of C15 for one date against the implementation's answers.
func oracleCal(d klog.Date, o *Outcome, in map[string]any) {
	y, m, dd := d.Year(), d.Month(), d.Day()
	a := ymd{y, m, dd}
	fail := func(what string, impl string) {
		addF(o, Finding{Kind: "D", What: fmt.Sprintf("%s: %s", a, what), Impl: impl, Input: in})
	}
	if d.Weekday() != oracleWeekday(y, m, dd) {
		fail(fmt.Sprintf("weekday must be %d", oracleWeekday(y, m, dd)), fmt.Sprint(d.Weekday()))
	}
	wy, ww := oracleIsoWeek(y, m, dd)
	if gy, gw := d.WeekNumber(); gy != wy || gw != ww {
		fail(fmt.Sprintf("ISO week must be %d-W%d", wy, ww), fmt.Sprintf("%d-W%d", gy, gw))
	}
	if d.Quarter() != (m+2)/3 {
		fail(fmt.Sprintf("quarter must be %d", (m+2)/3), fmt.Sprint(d.Quarter()))
	}
	// periods: contain the date, begin and end on the right days
	expectPeriod := func(name string, get func() period.Period, since, until ymd, representable bool, sig string) {
		var p period.Period
		if pm := safely(func() { p = get() }); pm != "" {
			if representable {
				fail(name+" period panics: "+pm, "panic")
			} else {
				addF(o, Finding{Kind: "D", What: fmt.Sprintf("%s: %s period panics (period reaches outside 0000-9999): %s", a, name, pm), Impl: "panic", Input: in, Signature: sigOr(sig, pm)})
			}
			return
		}
		if dstr(p.Since()) != since.String() || dstr(p.Until()) != until.String() {
			fail(fmt.Sprintf("%s period must be %s..%s", name, since, until), pstr(p))
		}
	}
	mon, _ := a.plus(1 - oracleWeekday(y, m, dd))
	sun, _ := a.plus(7 - oracleWeekday(y, m, dd))
	expectPeriod("week", func() period.Period { return period.NewWeekFromDate(d).Period() }, mon, sun, mon.ok() && sun.ok(), "panic:unrepresentable-date")
	expectPeriod("month", func() period.Period { return period.NewMonthFromDate(d).Period() }, ymd{y, m, 1}, ymd{y, m, gDaysIn(y, m)}, true, "")
	q := (m + 2) / 3
	expectPeriod("quarter", func() period.Period { return period.NewQuarterFromDate(d).Period() }, ymd{y, q*3 - 2, 1}, ymd{y, q * 3, gDaysIn(y, q*3)}, true, "")
	expectPeriod("year", func() period.Period { return period.NewYearFromDate(d).Period() }, ymd{y, 1, 1}, ymd{y, 12, 31}, true, "")
	// previous period ends the day before the period begins
	prevCheck := func(name string, get func() period.Period, since ymd) {
		want, rep := since.plus(-1)
		var p period.Period
		if pm := safely(func() { p = get() }); pm != "" {
			// the previous period is not representable when it reaches before 0000-01-01
			lower := name == "week" && !func() bool { s, ok := since.plus(-7); _ = s; return ok }()
			if !rep || lower || y == 0 {
				addF(o, Finding{Kind: "D", What: fmt.Sprintf("%s: previous %s panics at the lower end of the calendar: %s", a, name, pm), Impl: "panic", Input: in, Signature: crashSignature("C15", pm, nil)})
			} else {
				fail("previous "+name+" panics: "+pm, "panic")
			}
			return
		}
		if dstr(p.Until()) != want.String() {
			fail(fmt.Sprintf("previous %s must end on %s", name, want), pstr(p))
		}
	}
	if mon.ok() && sun.ok() {
		prevCheck("week", func() period.Period { return period.NewWeekFromDate(d).Previous().Period() }, mon)
	}
	if !(y == 0 && m == 1) {
		prevCheck("month", func() period.Period { return period.NewMonthFromDate(d).Previous().Period() }, ymd{y, m, 1})
	}
	if !(y == 0 && q == 1) {
		prevCheck("quarter", func() period.Period { return period.NewQuarterFromDate(d).Previous().Period() }, ymd{y, q*3 - 2, 1})
	}
	if y > 0 {
		prevCheck("year", func() period.Period { return period.NewYearFromDate(d).Previous().Period() }, ymd{y, 1, 1})
	}
}

func c15YearAt(tier string, i int) int {
	if tier == "thorough" {
		return i
	}
	special := []int{0, 1, 2, 3, 4, 5, 99, 100, 101, 399, 400, 401, 1582, 1599, 1600, 1601, 1899, 1900, 1999, 2000, 2001, 2004, 2015, 2016,
		2019, 2020, 2021, 2024, 2026, 2027, 2032, 2037, 2099, 2100, 2399, 2400, 4000, 5000, 8000, 9000, 9990, 9991, 9992, 9993, 9994, 9995, 9996, 9997, 9998, 9999,
		28, 56, 404, 800, 1200, 1996, 2008, 2012, 2028, 2048}
	if i < len(special) {
		return special[i]
	}
	return (i*7919 + 13) % 10000
}

func init() {
	nYears := func(tier string) int {
		if tier == "thorough" {
			return 10000
		}
		return 100
	}
	register(&Prop{
		ID: "C15",
		Rule: "one case per year: every date of the year (weekday, ISO week, quarter, PlusDays by 1/-1/7/-7/-25/-80/365/-366, the four periods, previous periods, the five bucket hashes incl. hash-equality between neighbouring days and uniqueness inside the year) " +
			"and every pattern string of the year (YYYY, YYYY-00..13, YYYY-Q0..Q9, YYYY-W0..W9, YYYY-W00..W99). quick: 60 boundary years + 40 spread years; thorough: all years 0000-9999. " +
			"evaluations = dates + patterns; distinct/non-trivial = distinct years",
		Count:      func(tier string) int { return nYears(tier) },
		Exhaustive: func(tier string) bool { return tier == "thorough" },
		Gen: func(r *Rand, idx int, tier string) map[string]any {
			return map[string]any{"year": c15YearAt(tier, idx)}
		},
		Run: runC15,
	})
}

func runC15(env *Env, data map[string]any) *Outcome {
	year := num(data, "year")
	o := &Outcome{Key: fmt.Sprint(year), Nontrivial: true, Tags: []string{"year"}}
	evals := 0
	type hk struct {
		kind int
		h    uint32
	}
	seen := map[hk]string{}
	var prevHashes [5]uint32
	var prevPeriods [5]string
	first := true
	for m := 1; m <= 12; m++ {
		for d := 1; d <= gDaysIn(year, m); d++ {
			if dd, ok := data["only_m"]; ok && (int(dd.(float64)) != m || num(data, "only_d") != d) {
				continue
			}
			date, err := klog.NewDate(year, m, d)
			in := map[string]any{"year": year, "only_m": m, "only_d": d}
			if err != nil {
				addF(o, Finding{Kind: "D", What: fmt.Sprintf("%04d-%02d-%02d is a date of the calendar but NewDate rejects it", year, m, d), Input: in})
				continue
			}
			evals++
			impl := implCal(date)
			model := env.Drv.Ask("cal", fmt.Sprint(year), fmt.Sprint(m), fmt.Sprint(d))
			// the model line has two more fields (dn=, prev=) - compare on the shared ones
			if mm := reshapeCal(model); impl != mm {
				addF(o, Finding{Kind: "K", What: "K.C15.cal: calendar functions differ from the model on " + dstr(date), Impl: impl, Model: mm, Input: in})
			}
			if gd := gsDriver(env); gd != nil {
				// the translated Go source of the calendar (Gen/GoCal.lean) evaluated against the running code
				wy2, ww2 := date.WeekNumber()
				pe := func(f func() period.Period) string {
					out := ""
					if p := safely(func() { out = pstr(f()) }); p != "" {
						return "panic"
					}
					return out
				}
				gimpl := fmt.Sprintf("wd=%d q=%d wk=%d-%d week=%s month=%s quarter=%s year=%s", date.Weekday(), date.Quarter(), wy2, ww2,
					pe(func() period.Period { return period.NewWeekFromDate(date).Period() }), pe(func() period.Period { return period.NewMonthFromDate(date).Period() }),
					pe(func() period.Period { return period.NewQuarterFromDate(date).Period() }), pe(func() period.Period { return period.NewYearFromDate(date).Period() }))
				if gm := gd.Ask("gs.cal", fmt.Sprint(year), fmt.Sprint(m), fmt.Sprint(d)); gm != gimpl {
					addF(o, Finding{Kind: "K", What: "K.gosrc.cal: the Go source of the calendar as translated into Lean (Gen/GoCal.lean) differs from the running code on " + dstr(date), Impl: gimpl, Model: gm, Input: in})
				}
			}
			oracleCal(date, o, in)
			// same bucket <=> same period, between consecutive days and within the year
			hs := [5]uint32{uint32(period.NewDayFromDate(date).Hash()), uint32(period.NewWeekFromDate(date).Hash()), uint32(period.NewMonthFromDate(date).Hash()),
				uint32(period.NewQuarterFromDate(date).Hash()), uint32(period.NewYearFromDate(date).Hash())}
			wy, ww := oracleIsoWeek(year, m, d)
			ps := [5]string{dstr(date), fmt.Sprintf("%d-W%d", wy, ww), fmt.Sprintf("%d-%d", year, m), fmt.Sprintf("%d-Q%d", year, (m+2)/3), fmt.Sprint(year)}
			for k := 0; k < 5; k++ {
				if !first && (hs[k] == prevHashes[k]) != (ps[k] == prevPeriods[k]) {
					addF(o, Finding{Kind: "D", What: fmt.Sprintf("%s: bucket hash kind %d equal=%v to the previous day's although same period=%v", dstr(date), k, hs[k] == prevHashes[k], ps[k] == prevPeriods[k]), Input: in})
				}
				if other, ok := seen[hk{k, hs[k]}]; ok && other != ps[k] {
					addF(o, Finding{Kind: "D", What: fmt.Sprintf("%s: bucket hash kind %d collides with period %s", dstr(date), k, other), Input: in})
				}
				seen[hk{k, hs[k]}] = ps[k]
			}
			prevHashes, prevPeriods, first = hs, ps, false
		}
	}
	if _, ok := data["only_m"]; ok {
		o.Evals = evals
		return o
	}
	// patterns
	var pats []string
	pats = append(pats, fmt.Sprintf("%04d", year))
	for i := 0; i <= 13; i++ {
		pats = append(pats, fmt.Sprintf("%04d-%02d", year, i))
	}
	for i := 0; i <= 9; i++ {
		pats = append(pats, fmt.Sprintf("%04d-Q%d", year, i), fmt.Sprintf("%04d-W%d", year, i))
	}
	for i := 0; i <= 99; i++ {
		pats = append(pats, fmt.Sprintf("%04d-W%02d", year, i))
	}
	pats = append(pats, fmt.Sprintf("%04d-", year), fmt.Sprintf("%04d-Q", year), fmt.Sprintf("%04d-W", year), fmt.Sprintf("%d", year), fmt.Sprintf("%04d-q1", year), fmt.Sprintf("%04d-w01", year),
		fmt.Sprintf("%04d-W001", year), fmt.Sprintf("%04d-Q01", year), fmt.Sprintf("%04d-1", year), fmt.Sprintf("%04d/01", year))
	if p, ok := data["pattern"]; ok {
		pats = []string{p.(string)}
	}
	for _, p := range pats {
		evals++
		in := map[string]any{"year": year, "pattern": p, "only_m": 0}
		var impl, patPanic string
		var per period.Period
		if pm := safely(func() {
			pp, err := period.NewPeriodFromPatternString(p)
			if err != nil {
				impl = "err"
			} else {
				per = pp
				impl = "ok " + pstr(pp)
			}
		}); pm != "" {
			impl = "panic"
			patPanic = pm
		}
		model := env.Drv.Ask("pattern", hx(p))
		if impl != model {
			addF(o, Finding{Kind: "K", What: "K.C15.pattern: NewPeriodFromPatternString differs from the model on " + p, Impl: impl, Model: model, Input: in})
		}
		want, rep := oraclePattern(p)
		switch {
		case impl == "panic" && !rep:
			addF(o, Finding{Kind: "D", What: "period pattern " + p + " panics (the week reaches outside 0000-9999)", Impl: impl, Input: in, Signature: crashSignature("C15", patPanic, nil)})
		case impl == "panic":
			addF(o, Finding{Kind: "D", What: "period pattern " + p + " panics", Impl: impl, Input: in})
		case want == "" && per != nil:
			addF(o, Finding{Kind: "D", What: "period pattern " + p + " does not denote an existing period but is accepted", Impl: impl, Input: in})
		case want != "" && rep && impl != "ok "+want:
			addF(o, Finding{Kind: "D", What: "period pattern " + p + " must denote " + want, Impl: impl, Input: in})
		}
	}
	o.Evals = evals
	o.Sample = map[string]any{"year": year, "dates": evals - len(pats), "patterns": len(pats)}
	return o
}

// reshapeCal drops the fields of the model line that the implementation line does not have.
func reshapeCal(model string) string {
	fs := strings.Fields(model)
	var keep []string
	for _, f := range fs {
		switch {
		case strings.HasPrefix(f, "dn="):
		case strings.HasPrefix(f, "prev="):
			keep = append(keep, "prevp="+prevPeriodsOf(f[5:]))
		default:
			keep = append(keep, f)
		}
	}
	// order: wd iso q plus per prevp hash
	return strings.Join(keep, " ")
}

// the model reports a date inside the previous period; the implementation's Previous() can only
// be observed through its Period(). Convert with the independent oracle.
func prevPeriodsOf(list string) string {
	parts := strings.Split(list, ",")
	var res []string
	for k, p := range parts {
		if k < 2 {
			continue
		}
		if p == "err" {
			res = append(res, "err")
			continue
		}
		var y, m, d int
		fmt.Sscanf(p, "%d-%d-%d", &y, &m, &d)
		switch k {
		case 2:
			res = append(res, fmt.Sprintf("%s..%s", ymd{y, m, 1}, ymd{y, m, gDaysIn(y, m)}))
		case 3:
			q := (m + 2) / 3
			res = append(res, fmt.Sprintf("%s..%s", ymd{y, q*3 - 2, 1}, ymd{y, q * 3, gDaysIn(y, q*3)}))
		case 4:
			res = append(res, fmt.Sprintf("%s..%s", ymd{y, 1, 1}, ymd{y, 12, 31}))
		}
	}
	return strings.Join(res, ",")
}

// oraclePattern: the period a pattern denotes by ISO 8601 / the calendar ("" = none), and whether
// it is representable within 0000-01-01..9999-12-31.
func oraclePattern(p string) (string, bool) {
	isD := func(s string) bool {
		for _, c := range s {
			if c < '0' || c > '9' {
				return false
			}
		}
		return len(s) > 0
	}
	if len(p) < 4 || !isD(p[:4]) {
		return "", true
	}
	var y int
	fmt.Sscanf(p[:4], "%d", &y)
	rest := p[4:]
	switch {
	case rest == "":
		return fmt.Sprintf("%s..%s", ymd{y, 1, 1}, ymd{y, 12, 31}), true
	case len(rest) == 3 && rest[0] == '-' && isD(rest[1:]):
		var m int
		fmt.Sscanf(rest[1:], "%d", &m)
		if m < 1 || m > 12 {
			return "", true
		}
		return fmt.Sprintf("%s..%s", ymd{y, m, 1}, ymd{y, m, gDaysIn(y, m)}), true
	case len(rest) == 3 && rest[:2] == "-Q" && isD(rest[2:]):
		q := int(rest[2] - '0')
		if q < 1 || q > 4 {
			return "", true
		}
		return fmt.Sprintf("%s..%s", ymd{y, q*3 - 2, 1}, ymd{y, q * 3, gDaysIn(y, q*3)}), true
	case (len(rest) == 3 || len(rest) == 4) && rest[:2] == "-W" && isD(rest[2:]):
		var w int
		fmt.Sscanf(rest[2:], "%d", &w)
		if w < 1 || w > weeksInYear(y) {
			// a week number beyond the last week may additionally fall outside the calendar
			if y == 9999 && w >= 1 {
				return "", false
			}
			return "", true
		}
		// Monday of week w: the Monday of the week containing Jan 4th, plus 7(w-1) days
		jan4 := ymd{y, 1, 4}
		mon, _ := jan4.plus(1 - oracleWeekday(y, 1, 4))
		mon, ok1 := mon.plus(7 * (w - 1))
		sun, ok2 := mon.plus(6)
		if !mon.ok() {
			ok1 = false
		}
		return fmt.Sprintf("%s..%s", mon, sun), ok1 && ok2
	}
	return "", true
}

// sigOr: the call-site signature of a panic where the caller expects one (sig != "")
func sigOr(sig, pm string) string {
	if sig == "" {
		return ""
	}
	return crashSignature("C15", pm, nil)
}
