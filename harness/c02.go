package main

import (
	"encoding/json"
	"fmt"
	"strconv"
	"strings"
	gotime "time"

	"github.com/jotaen/klog/klog"
	"github.com/jotaen/klog/klog/parser"
	"github.com/jotaen/klog/klog/service"
)

func resInt(f func() int) string {
	var v int
	if p := safely(func() { v = f() }); p != "" {
		return "panic"
	}
	return fmt.Sprintf("ok %d", v)
}

// implEval renders totals like the driver's evalLine.
func implEval(rs []klog.Record) string {
	per := make([]string, len(rs))
	for i, r := range rs {
		per[i] = fmt.Sprintf("%d/%d", service.Total(r).InMinutes(), r.ShouldTotal().InMinutes())
	}
	total := resInt(func() int { return service.Total(rs...).InMinutes() })
	should := resInt(func() int { return service.ShouldTotalSum(rs...).InMinutes() })
	diff := resInt(func() int { return service.Diff(service.ShouldTotalSum(rs...), service.Total(rs...)).InMinutes() })
	return fmt.Sprintf("total=%s should=%s diff=%s per=[%s]", total, should, diff, strings.Join(per, ","))
}

func init() {
	register(&Prop{
		ID: "C02",
		Rule: "DocGen valid documents (durations of any sign, ranges with every shift combination, open ranges, duplicate dates, missing/negative should-totals), evaluated plainly and with --now at an instant chosen on/around the record dates. " +
			"Non-trivial: at least 2 records and at least one range with a shifted time or an open range; distinct = distinct (text, instant)",
		Count: func(tier string) int {
			if tier == "thorough" {
				return 300000
			}
			return 12000
		},
		Gen: func(r *Rand, idx int, tier string) map[string]any {
			d := GenDoc(r, DocOpts{})
			m := map[string]any{"text": hx(d.Text), "total": d.Total()}
			should := 0
			for _, rec := range d.Records {
				should += rec.Should
			}
			m["should"] = should
			var per []any // per record: date, total, should — for the filtered `klog total --diff`
			for _, rec := range d.Records {
				t := 0
				for _, e := range rec.Entries {
					t += e.Mins
				}
				per = append(per, []any{rec.Y, rec.M, rec.D, t, rec.Should})
			}
			m["recs"] = per
			// an instant: on the date of a record, the day after, or unrelated
			if len(d.Records) > 0 && r.P(3, 4) {
				rec := Pick(r, d.Records)
				a := ymd{rec.Y, rec.M, rec.D}
				switch r.Weighted(3, 3, 1, 1) {
				case 1:
					a, _ = a.plus(1)
				case 2:
					a, _ = a.plus(2)
				case 3:
					a, _ = a.plus(-1)
				}
				if !a.ok() || (a.y == 0 && a.m == 1 && a.d == 1) {
					a = ymd{2000, 6, 15}
				}
				m["now"] = []int{a.y, a.m, a.d, r.Range(0, 23), r.Range(0, 59)}
			} else {
				m["now"] = []int{2021, 3, 4, r.Range(0, 23), r.Range(0, 59)}
			}
			return m
		},
		Run: runC02,
	})
}

func ints(m map[string]any, k string) []int {
	var res []int
	switch x := m[k].(type) {
	case []int:
		return x
	case []any:
		for _, e := range x {
			if f, ok := e.(float64); ok {
				res = append(res, int(f))
			}
		}
	}
	return res
}

func runC02(env *Env, data map[string]any) *Outcome {
	text := textOf(data, "text")
	now := ints(data, "now")
	o := &Outcome{Key: hashKey(text + fmt.Sprint(now))}
	rs, _, errs := parser.NewSerialParser().Parse(text)
	if errs != nil {
		o.Findings = append(o.Findings, Finding{Kind: "D", What: "generated valid document rejected (see C01)", Impl: canonErrs(errs)})
		return o
	}
	impl := implEval(rs)
	model := env.Drv.Ask("eval", hx(text))
	if impl != model {
		o.Findings = append(o.Findings, Finding{Kind: "K", What: "K.C02.eval: Total/ShouldTotalSum/Diff differ from the model", Impl: impl, Model: model})
	}
	// D: the specification's evaluation, computed by the generator while it built the text
	wantTotal, wantShould := num(data, "total"), num(data, "should")
	want := fmt.Sprintf("total=ok %d should=ok %d diff=ok %d per=", wantTotal, wantShould, wantTotal-wantShould)
	if !strings.HasPrefix(impl, want) {
		o.Findings = append(o.Findings, Finding{Kind: "D", What: "total/should-total/diff differ from the specification's evaluation rules", Impl: impl, Model: want})
	}
	// --now
	if len(now) == 5 {
		t := gotime.Date(now[0], gotime.Month(now[1]), now[2], now[3], now[4], 0, 0, gotime.UTC)
		rs2, _, _ := parser.NewSerialParser().Parse(text)
		var implNow string
		// expected by the specification: every open range in a record dated today counts now-start,
		// in a record dated yesterday now+24h-start; any other open range (or start after now) is refused
		expectExtra, expectErr, anyOpen := 0, false, false
		today := ymd{now[0], now[1], now[2]}
		yesterday, _ := today.plus(-1)
		for _, r := range rs2 {
			for _, e := range r.Entries() {
				klog.Unbox[any](&e, func(klog.Range) any { return nil }, func(klog.Duration) any { return nil }, func(or klog.OpenRange) any {
					anyOpen = true
					nowOff := now[3]*60 + now[4]
					rd := ymd{r.Date().Year(), r.Date().Month(), r.Date().Day()}
					switch rd {
					case today:
					case yesterday:
						nowOff += 1440
					default:
						expectErr = true
						return nil
					}
					start := or.Start().MidnightOffset().InMinutes()
					if nowOff < start {
						expectErr = true
					} else {
						expectExtra += nowOff - start
					}
					return nil
				})
			}
		}
		if p := safely(func() {
			closed, err := service.CloseOpenRanges(t, rs2...)
			if err != nil {
				implNow = "uncloseable"
			} else {
				implNow = fmt.Sprintf("closed=%s %s", b01(closed), implEval(rs2))
			}
		}); p != "" {
			implNow = "panic"
		}
		modelNow := env.Drv.Ask("evalnow", hx(text), fmt.Sprint(now[0]), fmt.Sprint(now[1]), fmt.Sprint(now[2]), fmt.Sprint(now[3]), fmt.Sprint(now[4]))
		if implNow != modelNow {
			o.Findings = append(o.Findings, Finding{Kind: "K", What: "K.C02.evalnow: CloseOpenRanges + totals differ from the model", Impl: implNow, Model: modelNow})
		}
		if expectErr {
			if implNow != "uncloseable" {
				o.Findings = append(o.Findings, Finding{Kind: "D", What: "--now must refuse an open range that cannot be closed at that instant", Impl: implNow})
			}
			o.Tags = append(o.Tags, "now:refused")
		} else {
			wantNow := fmt.Sprintf("closed=%s total=ok %d should=ok %d diff=ok %d per=", b01(anyOpen), wantTotal+expectExtra, wantShould, wantTotal+expectExtra-wantShould)
			if !strings.HasPrefix(implNow, wantNow) {
				o.Findings = append(o.Findings, Finding{Kind: "D", What: "--now must add exactly the minutes from each open range's start to now", Impl: implNow, Model: wantNow})
			}
			if anyOpen {
				o.Tags = append(o.Tags, "now:closed")
			}
		}
		o.Evals = 2
	}
	// the places the property names as observation points: `klog json` (per record and per entry)
	c02Json(env, o, text, rs, wantTotal, wantShould)
	c02Filtered(env, o, text, data)
	shifted := strings.Contains(text, "<") || strings.Contains(text, ">") || strings.Contains(text, "?")
	o.Nontrivial = len(rs) >= 2 && shifted
	o.Tags = append(o.Tags, fmt.Sprintf("records:%d", min(len(rs), 5)))
	if wantTotal < 0 {
		o.Tags = append(o.Tags, "negative-total")
	}
	o.Sample = map[string]any{"text": short(text, 160), "now": now, "total": wantTotal}
	return o
}

// c02Json: `klog json` must report, per record, total_mins = sum of its entries' total_mins,
// diff_mins = total_mins - should_total_mins (an absent should-total counts as 0), and over all
// records the specification's total and should-total.
func c02Json(env *Env, o *Outcome, text string, rs []klog.Record, wantTotal, wantShould int) {
	file := writeFile(env, "c02.klg", text)
	res := runCLI(env, CLIOpts{Now: mkTime(2021, 3, 4, 12, 0)}, "json", file)
	o.Evals++
	if res.Panic != "" || res.Code != 0 {
		o.Findings = append(o.Findings, Finding{Kind: "D", What: "`klog json` of a valid file fails: " + res.Panic + res.Err, Signature: crashSignature("C02", res.Panic, nil)})
		return
	}
	var out struct {
		Records []struct {
			Total     int    `json:"total_mins"`
			Should    int    `json:"should_total_mins"`
			Diff      int    `json:"diff_mins"`
			TotalStr  string `json:"total"`
			ShouldStr string `json:"should_total"`
			DiffStr   string `json:"diff"`
			Entries   []struct {
				Total int `json:"total_mins"`
			} `json:"entries"`
		} `json:"records"`
	}
	if err := json.Unmarshal([]byte(res.Stdout), &out); err != nil {
		o.Findings = append(o.Findings, Finding{Kind: "D", What: "`klog json` output is not JSON: " + err.Error()})
		return
	}
	if len(out.Records) != len(rs) {
		o.Findings = append(o.Findings, Finding{Kind: "D", What: fmt.Sprintf("`klog json` lists %d records, the file has %d", len(out.Records), len(rs))})
		return
	}
	sumT, sumS := 0, 0
	for i, r := range out.Records {
		es := 0
		for _, e := range r.Entries {
			es += e.Total
		}
		if r.Total != es {
			o.Findings = append(o.Findings, Finding{Kind: "D", What: fmt.Sprintf("`klog json` record %d: total_mins %d is not the sum of its entries (%d)", i+1, r.Total, es), Impl: short(res.Stdout, 600)})
			return
		}
		if r.Diff != r.Total-r.Should {
			o.Findings = append(o.Findings, Finding{Kind: "D", What: fmt.Sprintf("`klog json` record %d: diff_mins %d is not total_mins - should_total_mins (%d - %d)", i+1, r.Diff, r.Total, r.Should), Impl: short(res.Stdout, 600)})
			return
		}
		if want := durCanonPlain(r.Diff, true); r.DiffStr != want {
			o.Findings = append(o.Findings, Finding{Kind: "D", What: fmt.Sprintf("`klog json` record %d: diff %q does not denote diff_mins %d", i+1, r.DiffStr, r.Diff), Impl: short(res.Stdout, 600)})
			return
		}
		if want := durCanonPlain(r.Total, false); r.TotalStr != want {
			o.Findings = append(o.Findings, Finding{Kind: "D", What: fmt.Sprintf("`klog json` record %d: total %q does not denote total_mins %d", i+1, r.TotalStr, r.Total), Impl: short(res.Stdout, 600)})
			return
		}
		sumT += r.Total
		sumS += r.Should
	}
	if sumT != wantTotal || sumS != wantShould {
		o.Findings = append(o.Findings, Finding{Kind: "D", What: fmt.Sprintf("`klog json`: the records' totals add up to %d / %d, the specification says %d / %d", sumT, sumS, wantTotal, wantShould), Impl: short(res.Stdout, 600)})
	}
}

// durCanonPlain: klog's notation of a number of minutes (`1h30m`, `-45m`, `0m`), with an explicit
// `+` for positive values when signed.
func durCanonPlain(mins int, signed bool) string {
	if mins == 0 {
		return "0m"
	}
	sign := ""
	if mins < 0 {
		sign = "-"
		mins = -mins
	} else if signed {
		sign = "+"
	}
	h, m := mins/60, mins%60
	s := sign
	if h > 0 {
		s += fmt.Sprintf("%dh", h)
	}
	if m > 0 {
		s += fmt.Sprintf("%dm", m)
	}
	return s
}

// c02Filtered: `klog total --diff --decimal` under a date filter reports the total, the should-total and the diff
// of exactly the selected records (the should-total is the sum of THEIR should-totals).
func c02Filtered(env *Env, o *Outcome, text string, data map[string]any) {
	per, ok := data["recs"].([]any)
	if !ok || len(per) == 0 {
		return
	}
	type rec struct{ y, m, d, t, s int }
	var recs []rec
	for _, x := range per {
		v, ok := x.([]any)
		if !ok || len(v) != 5 {
			return
		}
		f := func(i int) int {
			switch n := v[i].(type) {
			case float64:
				return int(n)
			case int:
				return n
			}
			return 0
		}
		recs = append(recs, rec{f(0), f(1), f(2), f(3), f(4)})
	}
	pick := recs[len(text)%len(recs)]
	ds := fmt.Sprintf("%04d-%02d-%02d", pick.y, pick.m, pick.d)
	key := func(r rec) int { return r.y*10000 + r.m*100 + r.d }
	flag := []string{"--since", "--until", "--date"}[(len(text)/7)%3]
	wt, ws := 0, 0
	for _, r := range recs {
		sel := false
		switch flag {
		case "--since":
			sel = key(r) >= key(pick)
		case "--until":
			sel = key(r) <= key(pick)
		default:
			sel = key(r) == key(pick)
		}
		if sel {
			wt += r.t
			ws += r.s
		}
	}
	file := writeFile(env, "c02f.klg", text)
	res := runCLI(env, CLIOpts{Now: mkTime(2021, 3, 4, 12, 0)}, "total", "--diff", "--decimal", "--no-style", "--no-warn", flag, ds, file)
	o.Evals++
	if res.Panic != "" || res.Code != 0 {
		o.Findings = append(o.Findings, Finding{Kind: "D", What: "`klog total --diff " + flag + " " + ds + "` fails: " + res.Panic + res.Err, Impl: short(res.Stdout, 300), Signature: crashSignature("C02", res.Panic, data)})
		return
	}
	g := map[string]int{}
	for _, m := range reTotalLine.FindAllStringSubmatch(res.Stdout, -1) {
		v, _ := strconv.Atoi(m[2])
		g[m[1]] = v
	}
	if g["Total"] != wt || g["Should"] != ws || g["Diff"] != wt-ws {
		o.Findings = append(o.Findings, Finding{Kind: "D", What: fmt.Sprintf("`klog total --diff %s %s`: total/should/diff are not those of the selected records (want %d / %d / %d)", flag, ds, wt, ws, wt-ws), Impl: short(res.Stdout, 300)})
	}
	o.Tags = append(o.Tags, "filtered:"+flag)
}
