package main

import (
	"fmt"
	"strings"
	gotime "time"

	"github.com/jotaen/klog/klog"
	"github.com/jotaen/klog/klog/parser"
	"github.com/jotaen/klog/klog/service"
)

func resInt(f func() int) string {
	var v int
	if p := safely(func() { v = f() }); p != "" {
		return "panic"
	}
	return fmt.Sprintf("ok %d", v)
}

// implEval renders totals like the driver's evalLine.
func implEval(rs []klog.Record) string {
	per := make([]string, len(rs))
	for i, r := range rs {
		per[i] = fmt.Sprintf("%d/%d", service.Total(r).InMinutes(), r.ShouldTotal().InMinutes())
	}
	total := resInt(func() int { return service.Total(rs...).InMinutes() })
	should := resInt(func() int { return service.ShouldTotalSum(rs...).InMinutes() })
	diff := resInt(func() int { return service.Diff(service.ShouldTotalSum(rs...), service.Total(rs...)).InMinutes() })
	return fmt.Sprintf("total=%s should=%s diff=%s per=[%s]", total, should, diff, strings.Join(per, ","))
}

func init() {
	register(&Prop{
		ID: "C02",
		Rule: "DocGen valid documents (durations of any sign, ranges with every shift combination, open ranges, duplicate dates, missing/negative should-totals), evaluated plainly and with --now at an instant chosen on/around the record dates. " +
			"Non-trivial: at least 2 records and at least one range with a shifted time or an open range; distinct = distinct (text, instant)",
		Count: func(tier string) int {
			if tier == "thorough" {
				return 300000
			}
			return 12000
		},
		Gen: func(r *Rand, idx int, tier string) map[string]any {
			d := GenDoc(r, DocOpts{})
			m := map[string]any{"text": hx(d.Text), "total": d.Total()}
			should := 0
			for _, rec := range d.Records {
				should += rec.Should
			}
			m["should"] = should
			// an instant: on the date of a record, the day after, or unrelated
			if len(d.Records) > 0 && r.P(3, 4) {
				rec := Pick(r, d.Records)
				a := ymd{rec.Y, rec.M, rec.D}
				switch r.Weighted(3, 3, 1, 1) {
				case 1:
					a, _ = a.plus(1)
				case 2:
					a, _ = a.plus(2)
				case 3:
					a, _ = a.plus(-1)
				}
				if !a.ok() || (a.y == 0 && a.m == 1 && a.d == 1) {
					a = ymd{2000, 6, 15}
				}
				m["now"] = []int{a.y, a.m, a.d, r.Range(0, 23), r.Range(0, 59)}
			} else {
				m["now"] = []int{2021, 3, 4, r.Range(0, 23), r.Range(0, 59)}
			}
			return m
		},
		Run: runC02,
	})
}

func ints(m map[string]any, k string) []int {
	var res []int
	switch x := m[k].(type) {
	case []int:
		return x
	case []any:
		for _, e := range x {
			if f, ok := e.(float64); ok {
				res = append(res, int(f))
			}
		}
	}
	return res
}

func runC02(env *Env, data map[string]any) *Outcome {
	text := textOf(data, "text")
	now := ints(data, "now")
	o := &Outcome{Key: hashKey(text + fmt.Sprint(now))}
	rs, _, errs := parser.NewSerialParser().Parse(text)
	if errs != nil {
		o.Findings = append(o.Findings, Finding{Kind: "D", What: "generated valid document rejected (see C01)", Impl: canonErrs(errs)})
		return o
	}
	impl := implEval(rs)
	model := env.Drv.Ask("eval", hx(text))
	if impl != model {
		o.Findings = append(o.Findings, Finding{Kind: "K", What: "K.C02.eval: Total/ShouldTotalSum/Diff differ from the model", Impl: impl, Model: model})
	}
	// D: the specification's evaluation, computed by the generator while it built the text
	wantTotal, wantShould := num(data, "total"), num(data, "should")
	want := fmt.Sprintf("total=ok %d should=ok %d diff=ok %d per=", wantTotal, wantShould, wantTotal-wantShould)
	if !strings.HasPrefix(impl, want) {
		o.Findings = append(o.Findings, Finding{Kind: "D", What: "total/should-total/diff differ from the specification's evaluation rules", Impl: impl, Model: want})
	}
	// --now
	if len(now) == 5 {
		t := gotime.Date(now[0], gotime.Month(now[1]), now[2], now[3], now[4], 0, 0, gotime.UTC)
		rs2, _, _ := parser.NewSerialParser().Parse(text)
		var implNow string
		// expected by the specification: every open range in a record dated today counts now-start,
		// in a record dated yesterday now+24h-start; any other open range (or start after now) is refused
		expectExtra, expectErr, anyOpen := 0, false, false
		today := ymd{now[0], now[1], now[2]}
		yesterday, _ := today.plus(-1)
		for _, r := range rs2 {
			for _, e := range r.Entries() {
				klog.Unbox[any](&e, func(klog.Range) any { return nil }, func(klog.Duration) any { return nil }, func(or klog.OpenRange) any {
					anyOpen = true
					nowOff := now[3]*60 + now[4]
					rd := ymd{r.Date().Year(), r.Date().Month(), r.Date().Day()}
					switch rd {
					case today:
					case yesterday:
						nowOff += 1440
					default:
						expectErr = true
						return nil
					}
					start := or.Start().MidnightOffset().InMinutes()
					if nowOff < start {
						expectErr = true
					} else {
						expectExtra += nowOff - start
					}
					return nil
				})
			}
		}
		if p := safely(func() {
			closed, err := service.CloseOpenRanges(t, rs2...)
			if err != nil {
				implNow = "uncloseable"
			} else {
				implNow = fmt.Sprintf("closed=%s %s", b01(closed), implEval(rs2))
			}
		}); p != "" {
			implNow = "panic"
		}
		modelNow := env.Drv.Ask("evalnow", hx(text), fmt.Sprint(now[0]), fmt.Sprint(now[1]), fmt.Sprint(now[2]), fmt.Sprint(now[3]), fmt.Sprint(now[4]))
		if implNow != modelNow {
			o.Findings = append(o.Findings, Finding{Kind: "K", What: "K.C02.evalnow: CloseOpenRanges + totals differ from the model", Impl: implNow, Model: modelNow})
		}
		if expectErr {
			if implNow != "uncloseable" {
				o.Findings = append(o.Findings, Finding{Kind: "D", What: "--now must refuse an open range that cannot be closed at that instant", Impl: implNow})
			}
			o.Tags = append(o.Tags, "now:refused")
		} else {
			wantNow := fmt.Sprintf("closed=%s total=ok %d should=ok %d diff=ok %d per=", b01(anyOpen), wantTotal+expectExtra, wantShould, wantTotal+expectExtra-wantShould)
			if !strings.HasPrefix(implNow, wantNow) {
				o.Findings = append(o.Findings, Finding{Kind: "D", What: "--now must add exactly the minutes from each open range's start to now", Impl: implNow, Model: wantNow})
			}
			if anyOpen {
				o.Tags = append(o.Tags, "now:closed")
			}
		}
		o.Evals = 2
	}
	shifted := strings.Contains(text, "<") || strings.Contains(text, ">") || strings.Contains(text, "?")
	o.Nontrivial = len(rs) >= 2 && shifted
	o.Tags = append(o.Tags, fmt.Sprintf("records:%d", min(len(rs), 5)))
	if wantTotal < 0 {
		o.Tags = append(o.Tags, "negative-total")
	}
	o.Sample = map[string]any{"text": short(text, 160), "now": now, "total": wantTotal}
	return o
}
