package main

import (
	"fmt"
	"regexp"
	"strings"
)

// C11: inserted text follows the file's own style, deterministically.

var reTimeTok = regexp.MustCompile(`\d{1,2}:\d{2}(am|pm)?`)

type sRecord struct {
	date    ymd
	dashes  bool
	indent  string // "" = the record has no indented line
	eol     string
	is24    int // 1 / 0 / -1 (no time in the record)
	spaced  int
	extraQ  int // -1 = no open range
	hasOpen bool
	lines   []string
}

// GenStyleDoc builds a file in which every record exhibits its own combination of style facts.
func GenStyleDoc(r *Rand) (string, []sRecord) {
	n := r.Range(0, 4)
	base := ymd{2021, 3, 1}
	var recs []sRecord
	var sb strings.Builder
	fileEol := Pick(r, []string{"\n", "\n", "\r\n"})
	perRecordEol := r.P(1, 3)
	if r.P(1, 4) { // whitespace-only / blank lines before the first record
		sb.WriteString(Pick(r, []string{"   ", "", "\t", "  "}) + fileEol)
	}
	for i := 0; i < n; i++ {
		rec := sRecord{date: base, dashes: !r.P(1, 3), eol: fileEol, is24: -1, spaced: -1, extraQ: -1}
		base, _ = base.plus(r.Range(1, 3))
		if perRecordEol && !(i == 0 && sb.Len() > 0) {
			rec.eol = Pick(r, []string{"\n", "\r\n"})
		}
		sep := "-"
		if !rec.dashes {
			sep = "/"
		}
		head := fmt.Sprintf("%04d%s%02d%s%02d", rec.date.y, sep, rec.date.m, sep, rec.date.d)
		sb.WriteString(head + rec.eol)
		if r.P(1, 4) {
			sb.WriteString("summary #tag" + rec.eol)
		}
		ne := r.Weighted(2, 3, 3, 1)
		if ne > 0 {
			rec.indent = Pick(r, []string{"    ", "   ", "  ", "\t"})
		}
		for k := 0; k < ne; k++ {
			var val string
			switch r.Weighted(2, 3, 1) {
			case 0:
				val = Pick(r, []string{"1h", "30m", "-15m", "2h30m"})
			case 1:
				h12 := r.P(1, 3)
				sp := r.P(2, 3)
				rec.is24, rec.spaced = 1, 0
				if h12 {
					rec.is24 = 0
				}
				if sp {
					rec.spaced = 1
				}
				a, b := r.Range(6, 11), r.Range(13, 22)
				s := func(h int) string {
					if h12 {
						if h > 12 {
							return fmt.Sprintf("%d:00pm", h-12)
						}
						return fmt.Sprintf("%d:00am", h)
					}
					return fmt.Sprintf("%d:00", h)
				}
				d := "-"
				if sp {
					d = " - "
				}
				val = s(a) + d + s(b)
			default:
				if rec.hasOpen {
					val = "45m"
					break
				}
				rec.hasOpen = true
				h12 := r.P(1, 3)
				sp := r.P(2, 3)
				rec.is24, rec.spaced = 1, 0
				if h12 {
					rec.is24 = 0
				}
				if sp {
					rec.spaced = 1
				}
				rec.extraQ = Pick(r, []int{0, 0, 1, 2})
				st := "9:00"
				if h12 {
					st = "9:00am"
				}
				d := "-"
				if sp {
					d = " - "
				}
				val = st + d + strings.Repeat("?", 1+rec.extraQ)
			}
			sb.WriteString(rec.indent + val + Pick(r, []string{"", " foo", " #x"}) + rec.eol)
			if r.P(1, 3) { // multi-line entry summary: indented twice
				sb.WriteString(rec.indent + rec.indent + Pick(r, []string{"more text", "second line #y", " extra indented"}) + rec.eol)
				if r.P(1, 3) {
					sb.WriteString(rec.indent + rec.indent + "third line" + rec.eol)
				}
			}
		}
		recs = append(recs, rec)
		if i < n-1 {
			sb.WriteString(Pick(r, []string{"", "", "  ", "\t"}) + rec.eol)
			if r.P(1, 5) {
				sb.WriteString(rec.eol)
			}
		}
	}
	text := sb.String()
	if r.P(1, 3) && strings.HasSuffix(text, "\n") && n > 0 && len(recs[n-1].indent) > 0 {
		text = strings.TrimSuffix(strings.TrimSuffix(text, "\n"), "\r")
	}
	return text, recs
}

func init() {
	register(&Prop{
		ID: "C11",
		Rule: "style documents: 0-4 records, each with its own indentation (4/3/2 spaces, tab, or no indented line), line ending (per file or per record), date separator, clock convention, dash spacing and placeholder length, including ties between styles and whitespace-only lines before the first record; " +
			"x track/start/stop/switch/pause/create on an existing or a new record x date_format/time_convention settings; each command is run 4 times on the same input (byte-equality) through the real CLI. " +
			"1 case in 8: a configuration file (documented settings in any order with duplicates, comments, sections, empty values; or odd/malformed lines) x environment (NO_COLOR, EDITOR) read by the real app.NewConfig. " +
			"Non-trivial: at least 2 records with different styles; distinct = distinct (file, command, config)",
		Count: func(tier string) int {
			if tier == "thorough" {
				return 120000
			}
			return 6000
		},
		Gen: func(r *Rand, idx int, tier string) map[string]any {
			if idx%8 == 7 { // the configuration file itself
				return genConfigCase(r)
			}
			text, recs := GenStyleDoc(r)
			cfg := CfgSpec{}
			if r.P(1, 4) {
				cfg.Dashes = Pick(r, []string{"0", "1"})
			}
			if r.P(1, 4) {
				cfg.T24 = Pick(r, []string{"0", "1"})
			}
			cmd := CmdSpec{Kind: Pick(r, []string{"track", "start", "start", "create", "stop", "switch", "pause"})}
			today := ymd{2021, 3, 20}
			targetIdx := -1
			if len(recs) > 0 && r.P(3, 4) {
				targetIdx = r.Intn(len(recs))
				if cmd.Kind == "stop" || cmd.Kind == "switch" || cmd.Kind == "pause" {
					for k := range recs {
						if recs[(targetIdx+k)%len(recs)].hasOpen {
							targetIdx = (targetIdx + k) % len(recs)
							break
						}
					}
				}
				today = recs[targetIdx].date
			} else if r.P(1, 2) {
				today = ymd{2021, 2, 1} // before all records
			}
			if cmd.Kind == "create" {
				targetIdx = -1
			}
			if r.P(1, 4) {
				sep := Pick(r, []string{"-", "/"})
				cmd.DateSel = fmt.Sprintf("d:%04d%s%02d%s%02d", today.y, sep, today.m, sep, today.d)
			}
			if cmd.Kind == "pause" {
				cmd.DateSel = ""
				cmd.Ticks = []int{0, 1, 3}
			}
			switch cmd.Kind {
			case "track":
				cmd.Entry = []string{Pick(r, []string{"2h", "10:00 - 11:00 bar", "45m #tag"})}
				if r.P(1, 3) {
					cmd.Entry = append(cmd.Entry, "more text")
				}
			case "start", "switch":
				if r.P(1, 3) {
					cmd.Time = Pick(r, []string{"23:00", "11:00pm"})
				} else if r.P(1, 3) {
					cmd.Round = Pick(r, []int{5, 15, 30, 60}) // rounding the current time is not an explicit time: the file's clock convention applies
				}
				if r.P(1, 3) {
					cmd.HasSummary, cmd.Summary = true, []string{"work", "second line"}
				}
			case "stop":
				if r.P(1, 3) {
					cmd.Time = Pick(r, []string{"23:00", "11:00pm"})
				} else if r.P(1, 3) {
					cmd.Round = Pick(r, []int{5, 15, 30, 60})
				}
				if r.P(1, 2) {
					cmd.HasSummary, cmd.Summary = true, []string{"done", "second line"}
				}
			case "create":
				if r.P(1, 2) {
					cmd.HasSummary, cmd.Summary = true, []string{"new record"}
				}
			}
			srecs := make([]any, len(recs))
			for i, s := range recs {
				srecs[i] = map[string]any{"indent": s.indent, "eol": s.eol, "dashes": s.dashes, "is24": s.is24, "spaced": s.spaced, "extraQ": s.extraQ}
			}
			c := CmdCase{Text: text, Cfg: cfg, Now: []int{today.y, today.m, today.d, 22, 5}, Cmd: cmd}
			d := c.Data()
			d["target"] = targetIdx
			d["recs"] = srecs
			return d
		},
		Run: runC11,
	})
}

func runC11(env *Env, data map[string]any) *Outcome {
	if str(data, "kind") == "cfgfile" {
		return runConfigCase(env, data, "C11")
	}
	c := cmdCaseOf(data)
	o := &Outcome{Key: hashKey(fmt.Sprint(data)), Tags: []string{"cmd:" + c.Cmd.Kind}}
	var recs []map[string]any
	if xs, ok := data["recs"].([]any); ok {
		for _, x := range xs {
			if m, ok := x.(map[string]any); ok {
				recs = append(recs, m)
			}
		}
	}
	target := num(data, "target")
	first := runCommand(env, c.Text, c.Cfg, c.Now, c.Cmd, 1)
	model := modelCommand(env, c.Text, c.Cfg, c.Now, c.Cmd)
	if first.Outcome != model {
		o.Findings = append(o.Findings, Finding{Kind: "K", What: "K.C11.cmd: `klog " + c.Cmd.Kind + "` differs from the model", Impl: short(first.Outcome, 2000) + " | " + short(first.Err, 200), Model: short(model, 2000)})
	}
	// determinism: the output is a function of file, command and configuration alone
	for i := 0; i < 3; i++ {
		again := runCommand(env, c.Text, c.Cfg, c.Now, c.Cmd, 1)
		if again.Outcome != first.Outcome {
			o.Findings = append(o.Findings, Finding{Kind: "D", What: "repeating the command on the same input yields different bytes", Impl: short(again.Outcome, 1500), Model: short(first.Outcome, 1500)})
			break
		}
	}
	o.Evals = 4
	if first.Panic != "" {
		o.Findings = append(o.Findings, Finding{Kind: "D", What: "klog " + c.Cmd.Kind + " panics: " + first.Panic})
		return o
	}
	if first.Code != 0 {
		o.Tags = append(o.Tags, "failed")
		// a well-formed request must not be refused because of the style chosen for the insertion
		if strings.Contains(first.Err, "valid record") {
			o.Findings = append(o.Findings, Finding{Kind: "D", What: "the inserted text was not accepted by the parser (mixed indentation / style mismatch): " + short(first.Err, 200), Impl: first.Outcome})
		}
		return o
	}
	o.Tags = append(o.Tags, "ok")
	if parsed, _ := implParse(first.After); !strings.HasPrefix(parsed, "records ") {
		o.Findings = append(o.Findings, Finding{Kind: "D", What: "result is not accepted by the parser", Impl: hx(first.After)})
		return o
	}
	// added lines = lines of the result that are not in the original (as a multiset, in order)
	oldLines := map[string]int{}
	for _, l := range splitKeep(c.Text) {
		oldLines[l]++
	}
	var added []string
	for _, l := range splitKeep(first.After) {
		if oldLines[l] > 0 {
			oldLines[l]--
		} else {
			added = append(added, l)
		}
	}
	// expected style sets
	collect := func(key string, absent any) (own any, others []any) {
		for i, m := range recs {
			v := m[key]
			if fmt.Sprint(v) == fmt.Sprint(absent) {
				continue
			}
			if i == target {
				own = v
			} else {
				others = append(others, v)
			}
		}
		return
	}
	allowed := func(key string, absent any, dflt any) []string {
		own, others := collect(key, absent)
		if own != nil {
			return []string{fmt.Sprint(own)}
		}
		if len(others) == 0 {
			return []string{fmt.Sprint(dflt)}
		}
		var res []string
		for _, v := range others {
			res = append(res, fmt.Sprint(v))
		}
		return res
	}
	okIndents := allowed("indent", "", "    ")
	okEols := allowed("eol", nil, "\n")
	in := func(x string, xs []string) bool {
		for _, y := range xs {
			if x == y {
				return true
			}
		}
		return false
	}
	for _, l := range added {
		body, eol := lineBody(l)
		if eol != "" && !in(eol, okEols) {
			o.Findings = append(o.Findings, Finding{Kind: "D", What: fmt.Sprintf("an added line ends in %q; the target record / the file's records use %q", eol, okEols), Impl: hx(first.After)})
			break
		}
		if strings.HasPrefix(body, " ") || strings.HasPrefix(body, "\t") {
			// an entry line is one indentation unit followed by a non-blank; a continuation line is two units
			good := false
			for _, u := range okIndents {
				if u == "" {
					continue
				}
				rest := strings.TrimPrefix(body, u)
				if rest != body && rest != "" && rest[0] != ' ' && rest[0] != '\t' {
					good = true
				}
				if strings.HasPrefix(body, u+u) {
					good = true
				}
			}
			if !good {
				o.Findings = append(o.Findings, Finding{Kind: "D", What: fmt.Sprintf("an added line (%q) is not indented with the style the target record / the file's records use (%q)", body, okIndents), Impl: hx(first.After)})
				break
			}
		}
	}
	// generated times follow the configured preference, else the target record's clock convention, else the
	// other records', else 24h — unless the user typed the time
	if (c.Cmd.Kind == "start" || c.Cmd.Kind == "switch" || c.Cmd.Kind == "stop") && c.Cmd.Time == "" {
		old := map[string]int{}
		for _, t := range reTimeTok.FindAllString(c.Text, -1) {
			old[t]++
		}
		ok24 := allowed("is24", -1, 1)
		if c.Cfg.T24 != "" {
			ok24 = []string{c.Cfg.T24}
		}
		for _, t := range reTimeTok.FindAllString(first.After, -1) {
			if old[t] > 0 {
				old[t]--
				continue
			}
			is24 := "1"
			if strings.HasSuffix(t, "m") {
				is24 = "0"
			}
			if !in(is24, ok24) {
				o.Findings = append(o.Findings, Finding{Kind: "D", What: fmt.Sprintf("the generated time %q does not follow the clock convention of the configuration / the target record / the file's records (24h allowed: %v)", t, ok24), Impl: hx(first.After)})
				break
			}
		}
	}
	distinctStyles := map[string]bool{}
	for _, m := range recs {
		distinctStyles[fmt.Sprint(m["indent"], m["eol"], m["dashes"])] = true
	}
	o.Nontrivial = len(distinctStyles) >= 2
	o.Sample = map[string]any{"cmd": c.Cmd, "cfg": c.Cfg, "added": added, "text": short(c.Text, 120)}
	return o
}
