package main

// Rule-violating edits: each mutator takes a valid generated document and breaks exactly one
// MUST rule of Specification.md at a chosen place. The result must be rejected by the parser.

import (
	"strings"
)

type Mutation struct {
	Class string // which rule is violated
	Text  string
	Line  int // 0-based index of the faulty line in Text (the first line at which the text stops conforming)
}

// lines of a doc with their endings preserved
func splitKeep(text string) []string {
	var res []string
	for len(text) > 0 {
		i := strings.IndexByte(text, '\n')
		if i < 0 {
			res = append(res, text)
			break
		}
		res = append(res, text[:i+1])
		text = text[i+1:]
	}
	return res
}

func lineBody(l string) (string, string) {
	if strings.HasSuffix(l, "\r\n") {
		return l[:len(l)-2], "\r\n"
	}
	if strings.HasSuffix(l, "\n") {
		return l[:len(l)-1], "\n"
	}
	return l, ""
}

func isBlankLine(l string) bool {
	b, _ := lineBody(l)
	return strings.Trim(b, " \t") == ""
}

type lineInfo struct {
	idx    int
	kind   string // "head", "rsum", "entry", "cont", "blank"
	rec    int
	indent string
}

// classify lines of a DocGen document using the generator's own record structure
func classifyLines(doc *GDoc) []lineInfo {
	ls := splitKeep(doc.Text)
	var res []lineInfo
	ri := -1
	state := "none"
	remainingSummary, entryIdx := 0, 0
	contLeft := 0
	for i, l := range ls {
		if isBlankLine(l) {
			res = append(res, lineInfo{i, "blank", ri, ""})
			state = "none"
			continue
		}
		if state == "none" {
			ri++
			if ri >= len(doc.Records) {
				res = append(res, lineInfo{i, "unknown", ri, ""})
				continue
			}
			res = append(res, lineInfo{i, "head", ri, doc.Records[ri].Indent})
			state = "rec"
			remainingSummary = len(doc.Records[ri].Summary)
			entryIdx, contLeft = 0, 0
			continue
		}
		rec := doc.Records[ri]
		if remainingSummary > 0 {
			remainingSummary--
			res = append(res, lineInfo{i, "rsum", ri, rec.Indent})
			continue
		}
		if contLeft > 0 {
			contLeft--
			res = append(res, lineInfo{i, "cont", ri, rec.Indent})
			continue
		}
		if entryIdx < len(rec.Entries) {
			contLeft = len(rec.Entries[entryIdx].Summary) - 1
			entryIdx++
			res = append(res, lineInfo{i, "entry", ri, rec.Indent})
			continue
		}
		res = append(res, lineInfo{i, "unknown", ri, rec.Indent})
	}
	return res
}

var badDates = []string{"2020-13-01", "2020-02-30", "2020-1-01", "20200101", "2020-01/01", "2021-02-29", "1900-02-29", "2020-00-10",
	"2020-01-00", "2020-01-32", "2020/01-01", "10000-01-01", "2020-04-31", "202O-01-01", "2020_01_01", "01-01-2020"}
var badTimes = []string{"25:00", "8:60", "13:00am", "0:00am", "8:0", "<8:00>", "24:00>", "24:01", "8.00", "8:000", "123:00", "8:00AM", ":30", "<24:01", "12:60pm", "-1:00"}
var badDurs = []string{"1h60m", "1m1h", "h", "1.5h", "++1h", "1hm", "1h30", "m", "1H", "1h-30m", "+-1h"}

// Mutate applies one random rule-violating edit; returns nil if none was applicable.
func Mutate(r *Rand, doc *GDoc) *Mutation {
	ls := splitKeep(doc.Text)
	info := classifyLines(doc)
	pickLine := func(kind string) int {
		var c []int
		for _, li := range info {
			if li.kind == kind {
				c = append(c, li.idx)
			}
		}
		if len(c) == 0 {
			return -1
		}
		return c[r.Intn(len(c))]
	}
	join := func() string { return strings.Join(ls, "") }
	for attempt := 0; attempt < 20; attempt++ {
		switch r.Intn(16) {
		case 15: // a non-ASCII blank (Unicode Zs) where the grammar demands a space or tab: between date and should-total, between value and summary
			zs := Pick(r, []string{"\u00a0", "\u2003", "\u3000", "\u2009"})
			if r.P(1, 2) {
				i := pickLine("head")
				if i < 0 {
					continue
				}
				body, end := lineBody(ls[i])
				ls[i] = body[:10] + zs + Pick(r, []string{"(8h!)", "(-30m!)"}) + end
				return &Mutation{"zs-blank", join(), i}
			}
			i := pickLine("entry")
			if i < 0 {
				continue
			}
			_, end := lineBody(ls[i])
			ls[i] = info[i].indent + Pick(r, []string{"8h", "-15m", "8:00 - 9:00", "8:00-?", "7:00 - ?"}) + zs + "text" + end
			return &Mutation{"zs-blank", join(), i}
		case 13: // a continuation line of an entry summary that consists of blank characters only
			i := pickLine("cont")
			if i < 0 {
				// make one: add a blank-only continuation line after an entry line
				i = pickLine("entry")
				if i < 0 {
					continue
				}
				ind := info[i].indent
				body, end := lineBody(ls[i])
				e := end
				if e == "" {
					e = "\n"
				}
				ls[i] = body + e + ind + ind + Pick(r, []string{"\u00a0", "\u3000 ", " \u00a0\t", "\u2003"}) + end
				return &Mutation{"blank-continuation", join(), i + 1}
			}
			ind := info[i].indent
			_, end := lineBody(ls[i])
			ls[i] = ind + ind + Pick(r, []string{"\u00a0", "\u3000 ", " \u00a0\t", "\u2003"}) + end
			return &Mutation{"blank-continuation", join(), i}
		case 14: // a stray carriage return behind the date or the entry value (a line ending in CR CR LF is not CRLF)
			i := pickLine("head")
			if r.P(1, 2) {
				if j := pickLine("entry"); j >= 0 {
					body, _ := lineBody(ls[j])
					if f := strings.Fields(body); len(f) == 1 && strings.TrimLeft(body, " \t") == f[0] { // a value without summary: the CR sticks to the value
						i = j
					}
				}
			}
			if i < 0 {
				continue
			}
			body, end := lineBody(ls[i])
			if info[i].kind == "head" && strings.ContainsAny(body[10:], " \t(") {
				body = body[:10] // the date alone
			}
			end = "\r\n" // CR CR LF: the first CR belongs to the line's text
			ls[i] = body + "\r" + end
			return &Mutation{"stray-cr", join(), i}
		case 0: // malformed / non-Gregorian date
			i := pickLine("head")
			if i < 0 {
				continue
			}
			body, end := lineBody(ls[i])
			ls[i] = Pick(r, badDates) + body[10:] + end
			return &Mutation{"date", join(), i}
		case 1: // extra text in the headline
			i := pickLine("head")
			if i < 0 {
				continue
			}
			body, end := lineBody(ls[i])
			extra := Pick(r, []string{" foo", " (8h!) x", " 1h", "\tbar", " (8h!)(8h!)"})
			if len(body) == 10 && r.P(1, 4) { // a should-total glued to the date: the separating blank is mandatory
				ls[i] = body + Pick(r, []string{"(8h!)", "(-30m!)", "(8h!) "}) + end
				return &Mutation{"headline-text", join(), i}
			}
			if r.P(1, 3) { // very long line: the faulty text lies far right of column 80
				extra = strings.Repeat(Pick(r, []string{" ", " ", "\t"}), 60+r.Intn(200)) + strings.TrimLeft(extra, " \t") + strings.Repeat("x", r.Intn(120))
			}
			ls[i] = body + extra + end
			if strings.Contains(body, "(") && strings.HasSuffix(ls[i], "(8h!) x"+end) {
				// "… (8h!) (8h!) x": still extra text; fine
			}
			return &Mutation{"headline-text", join(), i}
		case 2: // broken should-total
			i := pickLine("head")
			if i < 0 {
				continue
			}
			body, end := lineBody(ls[i])
			ls[i] = body[:10] + Pick(r, []string{" (8h)", " (!)", " (8h!", " ()", " (8h! foo)", " (asdf!)", " (8h!!)", " ( )"}) + end
			return &Mutation{"should-total", join(), i}
		case 3: // wrong indentation of an entry
			i := pickLine("entry")
			if i < 0 {
				continue
			}
			ind := info[i].indent
			body, end := lineBody(ls[i])
			rest := body[len(ind):]
			var bad string
			switch ind {
			case "    ":
				bad = Pick(r, []string{" ", "     ", "    \t", "      "})
			case "   ":
				bad = Pick(r, []string{" ", "   \t", "    ", "     "})
			case "  ":
				bad = Pick(r, []string{" ", "  \t", "   "})
			default:
				bad = Pick(r, []string{" ", "\t ", "\t\t"})
			}
			// Only the first entry may legitimately define another style; and a doubly indented line
			// after an entry is a summary continuation. Mutate a non-first entry, or use a single space.
			first := i > 0 && info[i-1].kind != "entry" && info[i-1].kind != "cont"
			if first {
				bad = " "
				if r.P(1, 2) && ind != "\t" {
					bad = ind + " " // e.g. 5 spaces: indentation followed by a blank
					if ind == "  " || ind == "   " {
						continue // would be read as another valid style
					}
				}
			} else if bad == ind+ind || (len(bad) >= 2*len(ind) && strings.HasPrefix(bad, ind+ind)) {
				continue
			}
			ls[i] = bad + rest + end
			return &Mutation{"indentation", join(), i}
		case 4: // mixed indentation inside a record
			i := pickLine("entry")
			if i < 0 || i == 0 || (info[i-1].kind != "entry" && info[i-1].kind != "cont") {
				continue
			}
			ind := info[i].indent
			body, end := lineBody(ls[i])
			other := "\t"
			if ind == "\t" {
				other = "    "
			}
			if ind != "\t" && r.P(1, 2) {
				other = ind[:len(ind)-1]
				if other == " " {
					other = "\t"
				}
			}
			ls[i] = other + body[len(ind):] + end
			return &Mutation{"mixed-indentation", join(), i}
		case 5, 6, 7, 8: // malformed entry value
			i := pickLine("entry")
			if i < 0 {
				continue
			}
			ind := info[i].indent
			_, end := lineBody(ls[i])
			// replacing the entry drops its continuation lines' anchor, so only mutate entries without continuation
			if i+1 < len(info) && info[i+1].kind == "cont" {
				continue
			}
			var val, class string
			switch r.Intn(6) {
			case 0:
				val, class = Pick(r, badTimes)+" - 9:00", "time"
			case 1:
				val, class = "8:00 - "+Pick(r, badTimes), "time"
			case 2:
				val, class = Pick(r, badDurs), "duration"
			case 3:
				val, class = Pick(r, []string{"8:00 -", "8:00 ~ 9:00", "8:00 -\t9:00", "8:00\t- 9:00", "8:00 9:00", "- 9:00", "8:00 -- 9:00", "8:00 - 9:00pm>x"}), "range"
			case 4:
				val, class = Pick(r, []string{"9:00 - 8:00", "8:00> - 9:00", "8:00 - <9:00", "12:00pm - 12:00am", "0:01 - 0:00",
					"<23:00 - <22:00", "13:00> - 12:00>", "<0:01-<0:00", "23:59> - 0:00>", "24:00 - 23:59", "<24:00 - <23:00"}), "reversed-range"
			default:
				val, class = Pick(r, []string{"8:00 - ?>", "8:00 - <?", "8:00 - ?x", "8:00 - ??!", "8:00 - ?-"}), "shifted-placeholder"
			}
			ls[i] = ind + val + Pick(r, []string{"", " foo"}) + end
			return &Mutation{class, join(), i}
		case 9: // second open range
			// find a record with an open range and add another one after its last entry
			var cands []int
			for ri, rec := range doc.Records {
				if rec.HasOpen {
					cands = append(cands, ri)
				}
			}
			if len(cands) == 0 {
				continue
			}
			ri := cands[r.Intn(len(cands))]
			last := -1
			for _, li := range info {
				if li.rec == ri && (li.kind == "entry" || li.kind == "cont") {
					last = li.idx
				}
			}
			if last < 0 {
				continue
			}
			body, end := lineBody(ls[last])
			e := end
			if e == "" {
				e = "\n"
			}
			ind := doc.Records[ri].Indent
			switch r.Intn(3) {
			case 0: // the faulty entry has a well-formed continuation line
				ls[last] = body + e + ind + "7:00 - ?" + e + ind + ind + "more" + end
				return &Mutation{"second-open-range+continuation", join(), last + 1}
			case 1: // … or a malformed one (a second fault on the following line; the former D19)
				ls[last] = body + e + ind + "7:00 - ?" + e + ind + ind + Pick(r, []string{"\u00a0", "\u3000 ", " \u00a0\t", "\u2003"}) + end
				return &Mutation{"second-open-range+bad-continuation", join(), last + 1}
			}
			ls[last] = body + e + ind + "7:00 - ?" + end
			return &Mutation{"second-open-range", join(), last + 1}
		case 10: // record summary line starting with a blank character
			i := pickLine("rsum")
			if i < 0 {
				continue
			}
			// only when followed by another summary line or entry? A summary line may be last. Fine either way.
			ls[i] = Pick(r, []string{" ", "\u00a0", "\u3000", "\u2003"}) + ls[i]
			return &Mutation{"summary-blank-start", join(), i}
		case 11: // blank line inside a record, in front of an entry line
			i := pickLine("entry")
			if i < 0 {
				continue
			}
			_, end := lineBody(ls[i])
			if end == "" {
				end = "\n"
			}
			ls[i] = Pick(r, []string{"", " ", "\t"}) + end + ls[i]
			return &Mutation{"blank-line-in-record", join(), i + 1}
		default: // stray non-record text as its own block
			stray := Pick(r, []string{"foo bar", "Hello", "1h", "8:00 - 9:00", "#tag", "2020", "2020-01-01x", "x2020-01-01"})
			if len(doc.Records) == 0 {
				if doc.Text != "" && !strings.HasSuffix(doc.Text, "\n") {
					return &Mutation{"stray-text", doc.Text + "\n" + stray + "\n", len(ls)}
				}
				return &Mutation{"stray-text", doc.Text + stray + "\n", len(ls)}
			}
			// insert before a headline, separated by blank lines
			i := pickLine("head")
			ls[i] = stray + "\n\n" + ls[i]
			return &Mutation{"stray-text", join(), i}
		}
	}
	return nil
}
