package main

// DocGen: grammar-directed generator of valid klog documents. It emits the text AND the
// records that the text denotes according to Specification.md (as canonical strings), so it is
// an oracle that shares no code with klog's parser or with the Lean model.

import (
	"fmt"
	"strings"
	"unicode"
	"unicode/utf8"
)

type GEntry struct {
	Kind     string // "range", "dur", "open"
	Canon    string // canonical value, e.g. T(8:0:0:1,9:0:0:1,1)
	Text     string // value as written
	Summary  []string
	Mins     int
	StartOff int
	EndOff   int
}

type GRecord struct {
	Y, M, D   int
	Dashes    bool
	DateText  string
	Should    int
	HasShould bool
	Summary   []string
	Entries   []GEntry
	Indent    string
	HasOpen   bool
}

type GDoc struct {
	Text    string
	Records []GRecord
	Tags    []string
}

func gIsLeap(y int) bool { return y%4 == 0 && (y%100 != 0 || y%400 == 0) }

func gDaysIn(y, m int) int {
	switch m {
	case 2:
		if gIsLeap(y) {
			return 29
		}
		return 28
	case 4, 6, 9, 11:
		return 30
	}
	return 31
}

func genYear(r *Rand) int {
	switch r.Weighted(1, 1, 8, 3, 2) {
	case 0:
		return 0
	case 1:
		return 9999
	case 2:
		return r.Range(1990, 2030)
	case 3:
		return r.Range(0, 9999)
	default:
		return Pick(r, []int{1600, 1900, 2000, 2100, 2400, 4, 100, 400})
	}
}

func genDate(r *Rand) (y, m, d int) {
	if r.P(1, 40) { // the ends of the calendar
		e := Pick(r, [][3]int{{9999, 12, 31}, {0, 1, 1}, {9999, 12, 30}, {0, 1, 2}})
		return e[0], e[1], e[2]
	}
	y = genYear(r)
	m = r.Range(1, 12)
	switch r.Weighted(6, 1, 1) {
	case 0:
		d = r.Range(1, gDaysIn(y, m))
	case 1:
		d = gDaysIn(y, m)
	default:
		d = 1
	}
	if r.P(1, 20) {
		m, d = 2, gDaysIn(y, 2)
	}
	return
}

// canonical spelling of a time value, mirroring the spec's canonical form; used by generators
// that need the expected text of a value (independent of klog's ToString).
type GTime struct {
	H, M, Shift int
	Is24        bool
	Text        string
}

func (t GTime) Canon() string { return fmt.Sprintf("%d:%d:%d:%s", t.H, t.M, t.Shift, b01(t.Is24)) }
func (t GTime) Off() int      { return t.Shift*1440 + t.H*60 + t.M }

func genTime(r *Rand) GTime {
	h, m := r.Range(0, 23), r.Range(0, 59)
	switch r.Weighted(5, 1, 1) {
	case 1:
		m = Pick(r, []int{0, 59, 30})
	case 2:
		h = Pick(r, []int{0, 12, 23, 11, 13})
	}
	shift := []int{0, 0, 0, 0, -1, 1}[r.Intn(6)]
	pre, suf := "", ""
	if shift < 0 {
		pre = "<"
	} else if shift > 0 {
		suf = ">"
	}
	switch r.Weighted(8, 4, 1) {
	case 0: // 24-hour clock
		hs := fmt.Sprintf("%d", h)
		if h < 10 && r.P(1, 3) {
			hs = "0" + hs
		}
		return GTime{h, m, shift, true, pre + hs + fmt.Sprintf(":%02d", m) + suf}
	case 1: // 12-hour clock
		hh, ap := h, "am"
		if h == 0 {
			hh = 12
		} else if h == 12 {
			ap = "pm"
		} else if h > 12 {
			hh, ap = h-12, "pm"
		}
		hs := fmt.Sprintf("%d", hh)
		if hh < 10 && r.P(1, 4) {
			hs = "0" + hs
		}
		return GTime{h, m, shift, false, pre + hs + fmt.Sprintf(":%02d", m) + ap + suf}
	default: // 24:00 forms
		if r.P(1, 2) {
			return GTime{0, 0, 1, true, "24:00"}
		}
		return GTime{0, 0, 0, true, "<24:00"}
	}
}

func durCanon(mins int, signGiven string) string {
	if mins == 0 {
		return signGiven + "0m"
	}
	a := mins
	s := ""
	if mins < 0 {
		a = -mins
		s = "-"
	} else if signGiven == "+" {
		s = "+"
	}
	h, m := a/60, a%60
	if h > 0 {
		s += fmt.Sprintf("%dh", h)
	}
	if m > 0 {
		s += fmt.Sprintf("%dm", m)
	}
	return s
}

// genDur returns (text, minutes, canonical spelling).
func genDur(r *Rand, allowSign bool) (string, int, string) {
	sign := ""
	if allowSign {
		sign = []string{"", "", "", "-", "-", "+"}[r.Intn(6)]
	}
	var h, m int
	var body string
	z := func(n int) string { // occasionally with a leading zero
		if r.P(1, 8) {
			return fmt.Sprintf("0%d", n)
		}
		return fmt.Sprintf("%d", n)
	}
	switch r.Weighted(4, 3, 3, 1) {
	case 0:
		h, m = r.Range(0, 30), r.Range(0, 59)
		body = z(h) + "h" + z(m) + "m"
	case 1:
		h = r.Range(0, 200)
		body = z(h) + "h"
	case 2:
		m = r.Range(0, 600)
		body = z(m) + "m"
	default:
		h, m = 0, 0
		body = Pick(r, []string{"0m", "0h", "0h0m", "00m"})
	}
	mins := h*60 + m
	if sign == "-" {
		mins = -mins
	}
	return sign + body, mins, durCanon(mins, sign)
}

var wordPool = []string{"foo", "bar", "Lorem", "ipsum", "meeting", "#tag", "#Tag=val", "#x_y-z", "#tag=\"a b\"", "#t='q'",
	"\u00e4", "\u00dcn\u00efc\u00f6d\u00e9", "\u65e5\u672c\u8a9e", "#\u00fcberf\u00e4llig", "1h", "8:00", "8:00 - 9:00", "-", "?", "2020-01-01", "(8h!)", "#", "#=", "a#b",
	"\u2026", "\u00a0", "x y", "\ufffd", "  ", "\t", "\xff", "\xc3", "a\rb", "!", "(", ")", "#a=1#b", "#A", "#a", "\u3000x",
	"100%", "%s", "%d%%", "%!", "#t=\"open", "#q='open", "\"", "'", "x\"", "y'", "\\", "#v=\"a'b\"", "#w='c\"d'",
	"#ticket=\"ABC/123\"", "#p='a.b,c'", "#k=\"x:y\"", "#e=\"\"", "#u=a/b", "#n=\"plain\""}

func genText(r *Rand, nonBlankStart bool) string {
	n := r.Range(1, 5)
	var parts []string
	for i := 0; i < n; i++ {
		parts = append(parts, Pick(r, wordPool))
	}
	s := strings.Join(parts, " ")
	if r.P(1, 10) {
		s += Pick(r, []string{" ", "  ", "\t"})
	}
	if nonBlankStart {
		for len(s) > 0 && isBlankStartG(s) {
			_, w := utf8.DecodeRuneInString(s)
			s = s[w:]
		}
		if s == "" || isBlankStartG(s) {
			s = "x" + s
		}
	}
	return s
}

func isBlankRuneG(c rune) bool { return c == '\t' || unicode.Is(unicode.Zs, c) }

func isBlankStartG(s string) bool {
	for _, c := range s {
		return isBlankRuneG(c)
	}
	return false
}

func allBlankG(s string) bool {
	for _, c := range s {
		if !isBlankRuneG(c) {
			return false
		}
	}
	return true
}

// decoded mirrors what any Go program sees when it converts bytes to text: invalid bytes become
// U+FFFD (this is the Go standard library, not klog).
func decoded(s string) string { return string([]rune(s)) }

type DocOpts struct {
	MaxRecords  int
	MinRecords  int
	NoOpen      bool // no open ranges
	AllowCR     bool
	CleanText   bool // summaries without exotic bytes
	SortedDates bool
	Window      int    // if > 0: all dates within Window days after Base
	Base        [3]int // base date for Window
}

func genEntry(r *Rand, rec *GRecord, o DocOpts) (GEntry, string, []string) {
	// returns the entry, the first line (without indentation/ending) and continuation texts
	var e GEntry
	kind := r.Weighted(5, 5, 2)
	if kind == 2 && (rec.HasOpen || o.NoOpen) {
		kind = r.Intn(2)
	}
	switch kind {
	case 0:
		txt, mins, canon := genDur(r, true)
		e = GEntry{Kind: "dur", Text: txt, Mins: mins, Canon: fmt.Sprintf("D(%d,%s)", mins, canon)}
	case 1:
		a, b := genTime(r), genTime(r)
		if b.Off() < a.Off() {
			a, b = b, a
		}
		before, after := Pick(r, []string{" ", " ", "", "  "}), Pick(r, []string{" ", " ", "", "  "})
		e = GEntry{Kind: "range", Text: a.Text + before + "-" + after + b.Text, Mins: b.Off() - a.Off(),
			Canon: fmt.Sprintf("T(%s,%s,%s)", a.Canon(), b.Canon(), b01(before != "")), StartOff: a.Off(), EndOff: b.Off()}
	default:
		a := genTime(r)
		before, after := Pick(r, []string{" ", " ", "", "  "}), Pick(r, []string{" ", " ", "", "  "})
		extra := []int{0, 0, 0, 1, 2, 5}[r.Intn(6)]
		e = GEntry{Kind: "open", Text: a.Text + before + "-" + after + strings.Repeat("?", 1+extra), Mins: 0,
			Canon: fmt.Sprintf("O(%s,%s,%d)", a.Canon(), b01(before != ""), extra), StartOff: a.Off()}
		rec.HasOpen = true
	}
	first := e.Text
	sum0 := ""
	switch r.Weighted(3, 5, 1, 1) {
	case 0:
	case 1:
		sum0 = genTextO(r, false, o)
		first += " " + sum0
	case 2:
		sum0 = genTextO(r, false, o)
		first += "\t" + sum0
	default:
		first += " " // dangling blank: empty summary
	}
	e.Summary = []string{decoded(sum0)}
	var conts []string
	if r.P(1, 4) {
		n := r.Range(1, 3)
		for i := 0; i < n; i++ {
			t := genTextO(r, false, o)
			if r.P(1, 5) {
				t = Pick(r, []string{" ", "  ", "\t"}) + t // extra indentation belongs to the text
			}
			if t == "" || allBlankG(decoded(t)) {
				t += "x"
			}
			conts = append(conts, t)
			e.Summary = append(e.Summary, decoded(t))
		}
	}
	return e, first, conts
}

func genTextO(r *Rand, nonBlankStart bool, o DocOpts) string {
	for {
		s := genText(r, nonBlankStart)
		if o.CleanText && (strings.ContainsAny(s, "\xff\xc3\r") || strings.Contains(s, "\ufffd")) {
			continue
		}
		if strings.HasSuffix(s, "\r") {
			continue
		}
		return s
	}
}

func GenDoc(r *Rand, o DocOpts) *GDoc {
	if o.MaxRecords == 0 {
		o.MaxRecords = 5
	}
	doc := &GDoc{}
	n := r.Range(o.MinRecords, o.MaxRecords)
	if r.P(1, 30) {
		n = 0
	}
	eol := "\n"
	if r.P(1, 4) {
		eol = "\r\n"
	}
	mixed := r.P(1, 12)
	nl := func() string {
		if mixed {
			return Pick(r, []string{"\n", "\r\n"})
		}
		return eol
	}
	blank := func() string { return Pick(r, []string{"", "", "", " ", "  ", "\t", "    "}) }
	var sb strings.Builder
	for i := r.Intn(3) - 1; i > 0; i-- {
		sb.WriteString(blank() + nl())
	}
	if n == 0 && r.P(1, 2) {
		sb.WriteString(blank() + nl())
	}
	var dates [][3]int
	for i := 0; i < n; i++ {
		y, m, d := genDate(r)
		if o.Window > 0 {
			a, _ := ymd{o.Base[0], o.Base[1], o.Base[2]}.plus(r.Intn(o.Window))
			y, m, d = a.y, a.m, a.d
		}
		dates = append(dates, [3]int{y, m, d})
	}
	if o.SortedDates {
		for i := 1; i < len(dates); i++ {
			for j := i; j > 0 && lessDate(dates[j], dates[j-1]); j-- {
				dates[j], dates[j-1] = dates[j-1], dates[j]
			}
		}
	} else if n > 1 && r.P(1, 5) { // duplicate date
		dates[r.Intn(n)] = dates[r.Intn(n)]
	}
	for i := 0; i < n; i++ {
		rec := GRecord{Y: dates[i][0], M: dates[i][1], D: dates[i][2], Dashes: !r.P(1, 4)}
		sep := "-"
		if !rec.Dashes {
			sep = "/"
		}
		rec.DateText = fmt.Sprintf("%04d%s%02d%s%02d", rec.Y, sep, rec.M, sep, rec.D)
		rec.Indent = Pick(r, []string{"    ", "    ", "   ", "  ", "\t"})
		head := rec.DateText
		if r.P(1, 3) {
			txt, mins, _ := genDur(r, true)
			rec.Should, rec.HasShould = mins, true
			in1, in2 := Pick(r, []string{"", "", " ", "\t"}), Pick(r, []string{"", "", " "})
			head += Pick(r, []string{" ", " ", "  ", "\t"}) + "(" + in1 + txt + "!" + in2 + ")"
		}
		if r.P(1, 12) {
			head += Pick(r, []string{" ", "\t", "  "})
		}
		sb.WriteString(head + nl())
		for k := r.Weighted(5, 3, 1, 1); k > 0; k-- {
			t := genTextO(r, true, o)
			rec.Summary = append(rec.Summary, decoded(t))
			sb.WriteString(t + nl())
		}
		ne := r.Weighted(1, 3, 3, 2, 1, 1)
		for k := 0; k < ne; k++ {
			e, first, conts := genEntry(r, &rec, o)
			sb.WriteString(rec.Indent + first + nl())
			for _, c := range conts {
				sb.WriteString(rec.Indent + rec.Indent + c + nl())
			}
			rec.Entries = append(rec.Entries, e)
		}
		doc.Records = append(doc.Records, rec)
		if i < n-1 {
			for k := r.Weighted(6, 2, 1) + 1; k > 0; k-- {
				sb.WriteString(blank() + nl())
			}
		}
	}
	for i := r.Intn(3) - 1; i > 0; i-- {
		sb.WriteString(blank() + nl())
	}
	s := sb.String()
	if r.P(1, 3) { // no final newline
		s = strings.TrimSuffix(strings.TrimSuffix(s, "\n"), "\r")
	}
	doc.Text = s
	return doc
}

func lessDate(a, b [3]int) bool {
	if a[0] != b[0] {
		return a[0] < b[0]
	}
	if a[1] != b[1] {
		return a[1] < b[1]
	}
	return a[2] < b[2]
}

func (rec *GRecord) Canon() string {
	es := make([]string, len(rec.Entries))
	for i, e := range rec.Entries {
		es[i] = e.Canon + ":" + canonLinesS(e.Summary)
	}
	return fmt.Sprintf("R(%s,%d,%s,[%s])", rec.DateText, rec.Should, canonLinesS(rec.Summary), strings.Join(es, ","))
}

func (d *GDoc) CanonRecords() string {
	xs := make([]string, len(d.Records))
	for i := range d.Records {
		xs[i] = d.Records[i].Canon()
	}
	return strings.Join(xs, " ")
}

func (d *GDoc) Total() int {
	t := 0
	for _, r := range d.Records {
		for _, e := range r.Entries {
			t += e.Mins
		}
	}
	return t
}
