package main

import (
	"bufio"
	"encoding/hex"
	"encoding/json"
	"fmt"
	"hash/fnv"
	"io"
	"os"
	"os/exec"
	"regexp"
	"runtime/debug"
	"strings"
	"sync"
)

// ---------- PRNG: every case has its own stream derived from (seed, property, index) ----------

type Rand struct{ s uint64 }

func NewRand(seed int64, prop string, idx int) *Rand {
	h := fnv.New64a()
	fmt.Fprintf(h, "%d|%s|%d", seed, prop, idx)
	r := &Rand{s: h.Sum64() | 1}
	r.next()
	r.next()
	return r
}

func (r *Rand) next() uint64 { // splitmix64
	r.s += 0x9E3779B97F4A7C15
	z := r.s
	z = (z ^ (z >> 30)) * 0xBF58476D1CE4E5B9
	z = (z ^ (z >> 27)) * 0x94D049BB133111EB
	return z ^ (z >> 31)
}

// Intn returns a number in [0, n).
func (r *Rand) Intn(n int) int {
	if n <= 1 {
		return 0
	}
	return int(r.next() % uint64(n))
}

// Range returns a number in [lo, hi].
func (r *Rand) Range(lo, hi int) int { return lo + r.Intn(hi-lo+1) }

// P returns true with probability num/den.
func (r *Rand) P(num, den int) bool { return r.Intn(den) < num }

func Pick[T any](r *Rand, xs []T) T { return xs[r.Intn(len(xs))] }

// Weighted picks an index according to weights.
func (r *Rand) Weighted(ws ...int) int {
	t := 0
	for _, w := range ws {
		t += w
	}
	x := r.Intn(t)
	for i, w := range ws {
		if x < w {
			return i
		}
		x -= w
	}
	return len(ws) - 1
}

// ---------- Lean driver client ----------

type Driver struct {
	cmd *exec.Cmd
	in  io.WriteCloser
	out *bufio.Reader
	mu  sync.Mutex
	N   int
}

func StartDriver(path string, tables string) (*Driver, error) {
	if path == "" {
		return nil, fmt.Errorf("no driver path")
	}
	args := []string{}
	if tables != "" {
		args = append(args, tables)
	}
	cmd := exec.Command(path, args...)
	in, err := cmd.StdinPipe()
	if err != nil {
		return nil, err
	}
	out, err := cmd.StdoutPipe()
	if err != nil {
		return nil, err
	}
	cmd.Stderr = os.Stderr
	if err := cmd.Start(); err != nil {
		return nil, err
	}
	return &Driver{cmd: cmd, in: in, out: bufio.NewReaderSize(out, 1<<20)}, nil
}

// Ask sends one request line and returns the one response line.
func (d *Driver) Ask(parts ...string) string {
	d.mu.Lock()
	defer d.mu.Unlock()
	d.N++
	line := strings.Join(parts, " ") + "\n"
	if _, err := io.WriteString(d.in, line); err != nil {
		return "DRIVER-ERROR " + err.Error()
	}
	resp, err := d.out.ReadString('\n')
	if err != nil {
		return "DRIVER-ERROR " + err.Error()
	}
	return strings.TrimRight(resp, "\n")
}

func (d *Driver) Close() {
	d.in.Close()
	d.cmd.Wait()
}

// ---------- encoding ----------

func hx(s string) string {
	if s == "" {
		return "-"
	}
	return hex.EncodeToString([]byte(s))
}

func unhx(s string) string {
	if s == "-" {
		return ""
	}
	b, _ := hex.DecodeString(s)
	return string(b)
}

func str(m map[string]any, k string) string {
	if v, ok := m[k]; ok {
		if s, ok := v.(string); ok {
			return s
		}
	}
	return ""
}

func num(m map[string]any, k string) int {
	if v, ok := m[k]; ok {
		switch x := v.(type) {
		case float64:
			return int(x)
		case int:
			return x
		case int64:
			return int(x)
		}
	}
	return 0
}

func boolv(m map[string]any, k string) bool {
	if v, ok := m[k]; ok {
		if b, ok := v.(bool); ok {
			return b
		}
	}
	return false
}

func strs(m map[string]any, k string) []string {
	var res []string
	if v, ok := m[k]; ok {
		switch x := v.(type) {
		case []string:
			return x
		case []any:
			for _, e := range x {
				if s, ok := e.(string); ok {
					res = append(res, s)
				}
			}
		}
	}
	return res
}

// reJSON converts a generic JSON value (or a struct) into a typed value.
func reJSON(v any, out any) {
	b, err := json.Marshal(v)
	if err == nil {
		json.Unmarshal(b, out)
	}
}

// text inputs are stored hex-encoded in case data so that any byte survives JSON.
func textOf(m map[string]any, k string) string { return unhx(str(m, k)) }

func short(s string, n int) string {
	if len(s) > n {
		return s[:n] + "…"
	}
	return s
}

func hashKey(s string) string {
	h := fnv.New64a()
	h.Write([]byte(s))
	return fmt.Sprintf("%x", h.Sum64())
}

// ---------- running implementation code ----------

// safely runs f and converts a panic into a string.
func safely(f func()) (panicMsg string) {
	defer func() {
		if r := recover(); r != nil {
			panicMsg = fmt.Sprint(r)
			if panicMsg == "" {
				panicMsg = "panic"
			}
			if site := callSite(string(debug.Stack())); site != "" {
				panicMsg += " @" + site
			}
		}
	}()
	f()
	return ""
}

var stdoutMu sync.Mutex

// captureStdout runs f with os.Stdout redirected into a buffer (klog prints with fmt.Print).
func captureStdout(f func()) string {
	stdoutMu.Lock()
	defer stdoutMu.Unlock()
	old := os.Stdout
	r, w, err := os.Pipe()
	if err != nil {
		f()
		return ""
	}
	os.Stdout = w
	done := make(chan string)
	go func() {
		b, _ := io.ReadAll(r)
		done <- string(b)
	}()
	func() {
		defer func() {
			os.Stdout = old
			w.Close()
		}()
		f()
	}()
	return <-done
}

// ---------- crash signatures (known findings are matched on these) ----------

var reAtoi = regexp.MustCompile(`strconv\.Atoi: parsing "\d{19,}": value out of range`)

func crashSignature(prop string, msg string, data map[string]any) string {
	switch {
	case reAtoi.MatchString(msg):
		return "panic:atoi-out-of-range"
	case strings.Contains(msg, "Integer overflow"):
		return "panic:integer-overflow"
	case strings.Contains(msg, "UNREPRESENTABLE_DATE"):
		// identified by the call site: the klog function that asked for the date
		if i := strings.LastIndex(msg, " @"); i >= 0 {
			return "panic:unrepresentable-date@" + msg[i+2:]
		}
		return "panic:unrepresentable-date"
	}
	return ""
}

// callSite names the klog function in which a panic originated: the innermost frame of
// github.com/jotaen/klog that is not the date arithmetic itself (klog/date.go).
func callSite(stack string) string {
	lines := strings.Split(stack, "\n")
	seenPanic := false
	for i := 0; i+1 < len(lines); i++ {
		l := lines[i]
		if strings.HasPrefix(l, "panic(") {
			seenPanic = true
			continue
		}
		if !seenPanic || !strings.HasPrefix(l, "github.com/jotaen/klog/") {
			continue
		}
		file := strings.TrimSpace(lines[i+1])
		if strings.Contains(file, "/klog/date.go:") {
			continue
		}
		fn := strings.TrimPrefix(l, "github.com/jotaen/klog/")
		if k := strings.LastIndex(fn, "("); k > 0 {
			fn = fn[:k]
		}
		fn = strings.TrimPrefix(fn, "klog/")
		// closures: keep the enclosing function
		for strings.HasSuffix(fn, ".func1") || strings.HasSuffix(fn, ".func2") || strings.HasSuffix(fn, ".func3") {
			fn = fn[:len(fn)-6]
		}
		return fn
	}
	return ""
}
