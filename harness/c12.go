package main

import (
	"fmt"
	"regexp"
	"strconv"
	"strings"

	"github.com/jotaen/klog/klog"
	"github.com/jotaen/klog/klog/parser"
)

// C12: report / total / today / print --with-totals agree, through the real CLI.

// parseTable cuts an (unstyled) klog table into its value cells, using the `====` line of the
// footer to find the value columns. Returns data rows (cells per value column) and the footer row.
func parseTable(out string) (rows [][]string, footer []string, ok bool) {
	lines := strings.Split(strings.TrimRight(out, "\n"), "\n")
	sep := -1
	for i, l := range lines {
		if strings.Contains(l, "=") && strings.Trim(l, " =") == "" {
			sep = i
		}
	}
	if sep < 1 || sep+1 >= len(lines) {
		return nil, nil, false
	}
	// column spans (in runes) from the separator line
	type span struct{ lo, hi int }
	var spans []span
	rs := []rune(lines[sep])
	for i := 0; i < len(rs); {
		if rs[i] == '=' {
			j := i
			for j < len(rs) && rs[j] == '=' {
				j++
			}
			spans = append(spans, span{i, j})
			i = j
		} else {
			i++
		}
	}
	cells := func(l string) []string {
		r := []rune(l)
		var res []string
		for _, s := range spans {
			lo, hi := s.lo, s.hi
			if lo > len(r) {
				lo = len(r)
			}
			if hi > len(r) {
				hi = len(r)
			}
			res = append(res, strings.TrimSpace(string(r[lo:hi])))
		}
		return res
	}
	for _, l := range lines[1:sep] {
		rows = append(rows, cells(l))
	}
	return rows, cells(lines[sep+1]), true
}

func cellInt(s string) (int, bool) {
	s = strings.TrimSuffix(s, "!")
	v, err := strconv.Atoi(s)
	return v, err == nil
}

func init() {
	register(&Prop{
		ID: "C12",
		Rule: "DocGen documents (unsorted, duplicate dates, dates within a window that may straddle year / ISO-week-year boundaries, negative totals, open ranges) x aggregation {day,week,month,quarter,year} x --fill x --now; " +
			"`klog report --diff --decimal`, `klog total --diff --decimal`, `klog today --diff --decimal`, `klog print --with-totals` through the real CLI. evaluations = CLI runs. " +
			"Non-trivial: at least 3 records falling into at least 2 different periods of the chosen kind; distinct = distinct (text, aggregation, fill)",
		Count: func(tier string) int {
			if tier == "thorough" {
				return 100000
			}
			return 5000
		},
		Gen: func(r *Rand, idx int, tier string) map[string]any {
			y, m, d := genDate(r)
			if y > 9990 {
				y = 9990
			}
			opts := DocOpts{CleanText: true, Window: Pick(r, []int{5, 20, 70, 400}), Base: [3]int{y, m, d}, MaxRecords: 7}
			if r.P(1, 3) {
				opts.Base, opts.Window = [3]int{y, 12, 18}, 30
			}
			doc := GenDoc(r, opts)
			today := ymd{opts.Base[0], opts.Base[1], opts.Base[2]}
			if len(doc.Records) > 0 {
				rec := Pick(r, doc.Records)
				today, _ = ymd{rec.Y, rec.M, rec.D}.plus(r.Range(-1, 2))
			}
			if today.y < 1 || today.y > 9998 {
				today = ymd{2021, 3, 4}
			}
			recs := make([]any, len(doc.Records))
			for i, rec := range doc.Records {
				t := 0
				for _, e := range rec.Entries {
					t += e.Mins
				}
				recs[i] = []int{rec.Y, rec.M, rec.D, t, rec.Should}
			}
			return map[string]any{"text": hx(doc.Text), "kind": Pick(r, []string{"day", "week", "month", "quarter", "year"}),
				"fill": r.P(1, 2), "today": []int{today.y, today.m, today.d, r.Range(0, 23), r.Range(0, 59)}, "recs": recs}
		},
		Run: runC12,
	})
}

type recSum struct {
	d             ymd
	total, should int
}

func recsOf(data map[string]any) []recSum {
	var res []recSum
	if xs, ok := data["recs"].([]any); ok {
		for _, x := range xs {
			var v []int
			switch t := x.(type) {
			case []int:
				v = t
			case []any:
				for _, e := range t {
					v = append(v, int(e.(float64)))
				}
			}
			if len(v) == 5 {
				res = append(res, recSum{ymd{v[0], v[1], v[2]}, v[3], v[4]})
			}
		}
	}
	return res
}

var reTotalLine = regexp.MustCompile(`(?m)^(Total|Should|Diff): (-?\d+)!?$`)

func runC12(env *Env, data map[string]any) *Outcome {
	text := textOf(data, "text")
	kind := str(data, "kind")
	fill := boolv(data, "fill")
	td := ints(data, "today")
	recs := recsOf(data)
	o := &Outcome{Key: hashKey(text + kind + fmt.Sprint(fill)), Tags: []string{"agg:" + kind, fmt.Sprintf("fill:%v", fill)}}
	file := writeFile(env, "c12.klg", text)
	opts := CLIOpts{Now: mkTime(td[0], td[1], td[2], td[3], td[4])}
	fail := func(what, impl, want string) {
		o.Findings = append(o.Findings, Finding{Kind: "D", What: what, Impl: short(impl, 3000), Model: short(want, 3000)})
	}
	evals := 0
	// ---- klog total ----
	tot := runCLI(env, opts, "total", "--diff", "--decimal", "--no-style", "--no-warn", file)
	evals++
	grand := map[string]int{}
	if tot.Panic != "" || tot.Code != 0 {
		o.Findings = append(o.Findings, Finding{Kind: "D", What: "klog total fails: " + tot.Panic + tot.Err, Impl: tot.Stdout, Signature: crashSignature("C12", tot.Panic, data)})
		return o
	}
	for _, m := range reTotalLine.FindAllStringSubmatch(tot.Stdout, -1) {
		v, _ := strconv.Atoi(m[2])
		grand[m[1]] = v
	}
	wantTotal, wantShould := 0, 0
	for _, r := range recs {
		wantTotal += r.total
		wantShould += r.should
	}
	if grand["Total"] != wantTotal || grand["Should"] != wantShould || grand["Diff"] != wantTotal-wantShould {
		fail("klog total differs from the sum over the records", tot.Stdout, fmt.Sprintf("Total %d Should %d Diff %d", wantTotal, wantShould, wantTotal-wantShould))
	}
	// ---- several input files: the records of all files, in argument order, are one input ----
	if len(recs) >= 2 {
		if _, bs, errs := parser.NewSerialParser().Parse(text); errs == nil && len(bs) >= 2 {
			cut := 1 + len(text)%(len(bs)-1)
			var a, b strings.Builder
			for i, blk := range bs {
				for _, l := range blk.Lines() {
					if i < cut {
						a.WriteString(l.Original())
					} else {
						b.WriteString(l.Original())
					}
				}
			}
			f1, f2 := writeFile(env, "c12-a.klg", a.String()), writeFile(env, "c12-b.klg", b.String())
			for _, order := range [][]string{{f1, f2}, {f2, f1}} {
				two := runCLI(env, opts, append([]string{"total", "--diff", "--decimal", "--no-style", "--no-warn"}, order...)...)
				evals++
				g2 := map[string]int{}
				for _, m := range reTotalLine.FindAllStringSubmatch(two.Stdout, -1) {
					v, _ := strconv.Atoi(m[2])
					g2[m[1]] = v
				}
				if two.Panic != "" || two.Code != 0 || g2["Total"] != grand["Total"] || g2["Should"] != grand["Should"] || g2["Diff"] != grand["Diff"] || !strings.Contains(two.Stdout, fmt.Sprintf("(In %d record", len(recs))) {
					fail("`klog total` over the same records split into two files differs from the single file", two.Stdout+two.Err+two.Panic, tot.Stdout)
					break
				}
			}
			o.Tags = append(o.Tags, "two-files")
		}
	}
	// ---- klog report ----
	args := []string{"report", "--aggregate", kind, "--diff", "--decimal", "--no-style", "--no-warn"}
	if fill {
		args = append(args, "--fill")
	}
	rep := runCLI(env, opts, append(args, file)...)
	evals++
	if rep.Panic != "" || rep.Code != 0 {
		o.Findings = append(o.Findings, Finding{Kind: "D", What: "klog report fails: " + rep.Panic + rep.Err, Impl: rep.Stdout, Signature: crashSignature("C12", rep.Panic, data)})
		return o
	}
	var implRows []string
	implLine := "ok [] 0/0"
	if len(recs) > 0 {
		rows, footer, ok := parseTable(rep.Stdout)
		if !ok || len(footer) != 3 {
			fail("report output is not a table with Total/Should/Diff columns", rep.Stdout, "")
			return o
		}
		sumT, sumS := 0, 0
		for _, c := range rows {
			if c[0] == "" && c[1] == "" && c[2] == "" {
				implRows = append(implRows, "-")
				continue
			}
			t, ok1 := cellInt(c[0])
			s, ok2 := cellInt(c[1])
			df, ok3 := cellInt(c[2])
			if !ok1 || !ok2 || !ok3 {
				fail("report row has non-numeric cells", strings.Join(c, "|"), "")
				return o
			}
			if df != t-s {
				fail("report row: diff is not total minus should", strings.Join(c, "|"), "")
			}
			sumT += t
			sumS += s
			implRows = append(implRows, fmt.Sprintf("%d/%d", t, s))
		}
		ft, _ := cellInt(footer[0])
		fs, _ := cellInt(footer[1])
		if sumT != ft || sumS != fs {
			fail("the rows of the report do not sum to its grand total", rep.Stdout, fmt.Sprintf("rows sum to %d/%d", sumT, sumS))
		}
		if ft != grand["Total"] || fs != grand["Should"] {
			fail("the report's grand total differs from `klog total`", rep.Stdout, tot.Stdout)
		}
		implLine = fmt.Sprintf("ok [%s] %d/%d", strings.Join(implRows, ","), ft, fs)
		// the same report with a chart: the chart is an extra column, every value cell stays where it is
		if len(text)%3 == 0 {
			repC := runCLI(env, opts, append(append([]string{}, args...), "--chart", file)...)
			evals++
			rowsC, footerC, okC := parseTable(repC.Stdout)
			same := repC.Panic == "" && repC.Code == 0 && okC && len(rowsC) == len(rows) && strings.Join(footerC, "|") == strings.Join(footer, "|")
			if same {
				for i := range rows {
					if strings.Join(rowsC[i], "|") != strings.Join(rows[i], "|") {
						same = false
					}
				}
			}
			if !same {
				fail("`klog report --chart` shows other values than the same report without the chart", repC.Stdout+repC.Err+repC.Panic, rep.Stdout)
			}
			o.Tags = append(o.Tags, "chart")
		}
		// oracle rows: one per period that contains a record (chronological), plus empty ones when filling
		type bucket struct{ t, s int }
		byKey := map[string]*bucket{}
		first, last := recs[0].d, recs[0].d
		for _, r := range recs {
			k := periodKeyOracle(kind, r.d)
			if byKey[k] == nil {
				byKey[k] = &bucket{}
			}
			byKey[k].t += r.total
			byKey[k].s += r.should
			if cmpYMD(r.d, first) < 0 {
				first = r.d
			}
			if cmpYMD(r.d, last) > 0 {
				last = r.d
			}
		}
		var want []string
		seen := map[string]bool{}
		for a := first; cmpYMD(a, last) <= 0; a = a.next() {
			k := periodKeyOracle(kind, a)
			if seen[k] {
				continue
			}
			seen[k] = true
			if b := byKey[k]; b != nil {
				want = append(want, fmt.Sprintf("%d/%d", b.t, b.s))
			} else if fill {
				want = append(want, "-")
			}
		}
		if strings.Join(want, ",") != strings.Join(implRows, ",") {
			fail("report rows are not `one row per calendar period containing a record, in chronological order"+map[bool]string{true: ", gaps filled with empty rows", false: ""}[fill]+"`",
				strings.Join(implRows, ","), strings.Join(want, ","))
		}
		o.Nontrivial = len(recs) >= 3 && len(byKey) >= 2
		o.Tags = append(o.Tags, fmt.Sprintf("rows:%d", min(len(implRows), 6)))
	} else if rep.Stdout != "" {
		fail("report of no records prints something", rep.Stdout, "")
	}
	fillArg := "0"
	if fill {
		fillArg = "1"
	}
	model := env.Drv.Ask("report", hx(text), kind, fillArg)
	if model != implLine {
		o.Findings = append(o.Findings, Finding{Kind: "K", What: "K.C12.report: report rows differ from the model", Impl: implLine, Model: model})
	}
	// ---- klog today ----
	tdy := runCLI(env, opts, "today", "--diff", "--decimal", "--no-style", "--no-warn", file)
	evals++
	if tdy.Panic != "" || tdy.Code != 0 {
		o.Findings = append(o.Findings, Finding{Kind: "D", What: "klog today fails: " + tdy.Panic + tdy.Err, Impl: tdy.Stdout})
	} else {
		rows, footer, ok := parseTable(tdy.Stdout)
		if !ok || len(rows) != 2 || len(footer) != 3 {
			fail("today output is not the expected table", tdy.Stdout, "")
		} else {
			ct, cok := cellInt(rows[0][0])
			cs, _ := cellInt(rows[0][1])
			ot, _ := cellInt(rows[1][0])
			os_, _ := cellInt(rows[1][1])
			at, _ := cellInt(footer[0])
			as, _ := cellInt(footer[1])
			if !cok { // n/a
				ct, cs = 0, 0
			}
			if ct+ot != at || cs+os_ != as || at != grand["Total"] || as != grand["Should"] {
				fail("klog today: current + other != all, or all != klog total", tdy.Stdout, tot.Stdout)
			}
			// oracle split
			today := ymd{td[0], td[1], td[2]}
			yest := today.prev()
			var tT, tS, yT, yS, nT, nY int
			for _, r := range recs {
				if cmpYMD(r.d, today) == 0 {
					tT += r.total
					tS += r.should
					nT++
				} else if cmpYMD(r.d, yest) == 0 {
					yT += r.total
					yS += r.should
					nY++
				}
			}
			wantC, wantCS := 0, 0
			if nT > 0 {
				wantC, wantCS = tT, tS
			} else if nY > 0 {
				wantC, wantCS = yT, yS
			}
			if ct != wantC || cs != wantCS {
				fail("klog today: the current-day row is not the total of today's (else yesterday's) records", tdy.Stdout, fmt.Sprintf("%d/%d", wantC, wantCS))
			}
			nC := nT
			if nT == 0 {
				nC = nY
			}
			implSplit := fmt.Sprintf("ok %d:%d/%d %d:%d/%d %s", nC, ct, cs, len(recs)-nC, ot, os_, b01(nT == 0 && nY > 0))
			modelSplit := env.Drv.Ask("todaysplit", hx(text), fmt.Sprint(td[0]), fmt.Sprint(td[1]), fmt.Sprint(td[2]))
			if implSplit != modelSplit {
				o.Findings = append(o.Findings, Finding{Kind: "K", What: "K.C12.today: current/other split differs from the model", Impl: implSplit, Model: modelSplit})
			}
		}
	}
	// ---- klog today --diff --now: must not crash; when it succeeds current + other = all still holds ----
	tn := runCLI(env, opts, "today", "--diff", "--now", "--decimal", "--no-style", "--no-warn", file)
	evals++
	if tn.Panic != "" {
		o.Findings = append(o.Findings, Finding{Kind: "D", What: "klog today --diff --now crashes: " + tn.Panic, Impl: tn.Stdout, Signature: crashSignature("C12", tn.Panic, data)})
	} else if tn.Code == 0 {
		if rows, footer, ok := parseTable(tn.Stdout); ok && len(rows) == 2 && len(footer) >= 3 {
			ct, cok := cellInt(rows[0][0])
			ot, _ := cellInt(rows[1][0])
			at, _ := cellInt(footer[0])
			if !cok {
				ct = 0
			}
			if ct+ot != at {
				fail("klog today --now: current + other != all", tn.Stdout, "")
			}
		}
	}
	// … and `today --now` closes / refuses exactly what `total --now` closes / refuses
	if tn.Panic == "" {
		totN := runCLI(env, opts, "total", "--diff", "--now", "--decimal", "--no-style", "--no-warn", file)
		evals++
		if totN.Panic == "" {
			if (totN.Code == 0) != (tn.Code == 0) {
				fail("one of `klog today --now` and `klog total --now` refuses the open ranges and the other does not", fmt.Sprintf("today exit %d: %s", tn.Code, tn.Stdout+tn.Err), fmt.Sprintf("total exit %d: %s", totN.Code, totN.Stdout+totN.Err))
			} else if tn.Code == 0 {
				gN := map[string]int{}
				for _, m := range reTotalLine.FindAllStringSubmatch(totN.Stdout, -1) {
					v, _ := strconv.Atoi(m[2])
					gN[m[1]] = v
				}
				if _, footer, ok := parseTable(tn.Stdout); ok && len(footer) >= 1 {
					if at, ok := cellInt(footer[0]); ok && at != gN["Total"] {
						fail("`klog today --now`: the total of all records differs from `klog total --now`", tn.Stdout, totN.Stdout)
					}
				}
			}
		}
	}
	// ---- klog print --with-totals ----
	pw := runCLI(env, opts, "print", "--with-totals", "--no-style", "--no-warn", file)
	evals++
	if pw.Panic != "" || pw.Code != 0 {
		o.Findings = append(o.Findings, Finding{Kind: "D", What: "klog print --with-totals fails: " + pw.Panic + pw.Err, Impl: pw.Stdout})
	} else if len(recs) > 0 {
		sumAll := 0
		recTotal, entrySum, inRec := 0, 0, false
		flush := func() {
			if inRec && recTotal != entrySum {
				fail("print --with-totals: a record's total is not the sum of its entries' values", pw.Stdout, "")
			}
		}
		for _, l := range strings.Split(pw.Stdout, "\n") {
			i := strings.Index(l, "  |  ")
			if i < 0 {
				flush()
				inRec = false
				continue
			}
			pre := strings.TrimSpace(l[:i])
			body := l[i+5:]
			if pre == "" {
				continue
			}
			d, err := klog.NewDurationFromString(pre)
			if err != nil {
				fail("print --with-totals: prefix is not a duration", l, "")
				continue
			}
			if !strings.HasPrefix(body, " ") { // headline
				flush()
				inRec, recTotal, entrySum = true, d.InMinutes(), 0
				sumAll += d.InMinutes()
			} else {
				entrySum += d.InMinutes()
			}
		}
		flush()
		if sumAll != grand["Total"] {
			fail("print --with-totals: record totals do not add up to `klog total`", pw.Stdout, tot.Stdout)
		}
	}
	// ---- with a filter (and --now): the report evaluates exactly what `klog total` evaluates ----
	if len(recs) > 0 {
		pick := recs[len(text)%len(recs)].d
		ds := fmt.Sprintf("%04d-%02d-%02d", pick.y, pick.m, pick.d)
		filters := [][]string{{"--entry-type", "open-range"}, {"--entry-type", "range"}, {"--entry-type", "duration"}, {"--since", ds}, {"--until", ds},
			{"--date", ds}, {"--tag", "tag"}, {"--entry-type", "open-range", "--since", ds}, {"--until", ds, "--tag", "a"}}
		flt := filters[(len(text)/3)%len(filters)]
		for _, withNow := range []bool{false, true} {
			extra := append([]string{}, flt...)
			if withNow {
				extra = append(extra, "--now")
			}
			ft := runCLI(env, opts, append(append([]string{"total", "--diff", "--decimal", "--no-style", "--no-warn"}, extra...), file)...)
			fr := runCLI(env, opts, append(append([]string{"report", "--aggregate", kind, "--diff", "--decimal", "--no-style", "--no-warn"}, extra...), file)...)
			evals += 2
			what := "`" + strings.Join(extra, " ") + "`"
			if ft.Panic != "" || fr.Panic != "" {
				o.Findings = append(o.Findings, Finding{Kind: "D", What: "klog total/report " + what + " crashes: " + ft.Panic + fr.Panic, Signature: crashSignature("C12", ft.Panic+fr.Panic, data)})
				break
			}
			if (ft.Code == 0) != (fr.Code == 0) {
				fail("with "+what+" one of `klog total` and `klog report` fails and the other does not", fmt.Sprintf("report exit %d: %s%s", fr.Code, fr.Stdout, fr.Err), fmt.Sprintf("total exit %d: %s%s", ft.Code, ft.Stdout, ft.Err))
				break
			}
			if ft.Code != 0 {
				o.Tags = append(o.Tags, "filtered:refused")
				continue
			}
			g := map[string]int{}
			for _, m := range reTotalLine.FindAllStringSubmatch(ft.Stdout, -1) {
				v, _ := strconv.Atoi(m[2])
				g[m[1]] = v
			}
			if strings.TrimSpace(fr.Stdout) == "" {
				if g["Total"] != 0 || g["Should"] != 0 {
					fail("with "+what+" the report is empty but `klog total` is not zero", fr.Stdout, ft.Stdout)
					break
				}
				continue
			}
			rows, footer, ok := parseTable(fr.Stdout)
			if !ok || len(footer) != 3 {
				fail("report "+what+" is not a table with Total/Should/Diff columns", fr.Stdout, "")
				break
			}
			rt, _ := cellInt(footer[0])
			rsh, _ := cellInt(footer[1])
			sumT := 0
			for _, c := range rows {
				if t, ok := cellInt(c[0]); ok {
					sumT += t
				}
			}
			if rt != g["Total"] || rsh != g["Should"] || sumT != rt {
				fail("with "+what+" the report's rows / grand total differ from `klog total`", fr.Stdout, ft.Stdout)
				break
			}
			o.Tags = append(o.Tags, "filtered:equal")
		}
	}
	o.Evals = evals
	o.Sample = map[string]any{"aggregate": kind, "fill": fill, "rows": implRows, "total": grand["Total"]}
	return o
}
