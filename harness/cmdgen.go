package main

import (
	"fmt"
	"strings"
)

// CmdGen: mutating commands with parameters, a clock reading and a configuration, chosen so
// that most commands hit an existing record / open range, with a separate stream of failing ones.

var cleanWords = []string{"foo", "bar", "Lorem", "ipsum", "meeting", "#tag", "#Tag=val", "#x_y-z", "#tag=\"a b\"", "#t='q'",
	"ä", "Ünïcödé", "日本語", "#überfällig", "1h", "8:00", "-", "?", "some-thing", "(8h!)", "#", "a#b", "…", "x y", "-word", "??"}

func genSummaryLine(r *Rand) string {
	n := r.Range(1, 4)
	var parts []string
	for i := 0; i < n; i++ {
		parts = append(parts, Pick(r, cleanWords))
	}
	return strings.Join(parts, " ")
}

func genSummaryLines(r *Rand) []string {
	ls := []string{genSummaryLine(r)}
	multi := r.P(1, 4)
	if multi && r.P(1, 4) {
		ls[0] = ""
	}
	if multi {
		for k := r.Range(1, 2); k > 0; k-- {
			l := genSummaryLine(r)
			if r.P(1, 6) {
				l = " " + l // extra indentation is part of the text
			}
			ls = append(ls, l)
		}
	}
	return ls
}

type CmdCase struct {
	Text string
	Cfg  CfgSpec
	Now  []int
	Cmd  CmdSpec
}

func (c CmdCase) Data() map[string]any {
	return map[string]any{"text": hx(c.Text), "cfg": c.Cfg, "now": c.Now, "cmd": c.Cmd}
}

func cmdCaseOf(data map[string]any) CmdCase {
	var c CmdCase
	c.Text = textOf(data, "text")
	c.Now = ints(data, "now")
	reJSON(data["cfg"], &c.Cfg)
	reJSON(data["cmd"], &c.Cmd)
	return c
}

func genCfg(r *Rand) CfgSpec {
	var c CfgSpec
	if r.P(1, 5) {
		c.Round = Pick(r, []int{5, 10, 15, 30, 60})
	}
	if r.P(1, 5) {
		c.Should, c.ShouldMins = Pick(r, []struct {
			s string
			m int
		}{{"8h", 480}, {"7h30m", 450}, {"-30m", -30}, {"0m", 0}}).s, 0
		switch c.Should {
		case "8h":
			c.ShouldMins = 480
		case "7h30m":
			c.ShouldMins = 450
		case "-30m":
			c.ShouldMins = -30
		}
	}
	if r.P(1, 5) {
		c.Dashes = Pick(r, []string{"0", "1"})
	}
	if r.P(1, 5) {
		c.T24 = Pick(r, []string{"0", "1"})
	}
	return c
}

// GenCmdCase builds a file, a clock reading and a command.
func GenCmdCase(r *Rand, doc *GDoc, kinds []string) CmdCase {
	c := CmdCase{Text: doc.Text, Cfg: genCfg(r)}
	kind := Pick(r, kinds)
	cmd := CmdSpec{Kind: kind}
	// choose the reference record: prefer one with an open range for stop/switch/pause
	var target *GRecord
	if len(doc.Records) > 0 {
		idx := r.Intn(len(doc.Records))
		if kind == "stop" || kind == "switch" || kind == "pause" {
			for k := 0; k < len(doc.Records); k++ {
				if doc.Records[(idx+k)%len(doc.Records)].HasOpen {
					idx = (idx + k) % len(doc.Records)
					break
				}
			}
		}
		target = &doc.Records[idx]
	}
	today := ymd{2021, 3, 4}
	if target != nil {
		today = ymd{target.Y, target.M, target.D}
	}
	rel := r.Weighted(10, 3, 1, 2) // now is: the record's date, the day after, the day before, unrelated
	switch rel {
	case 1:
		today = today.next()
	case 2:
		today = today.prev()
	case 3:
		y, m, d := genDate(r)
		today = ymd{y, m, d}
	}
	if today.y < 1 || today.y > 9998 {
		today = ymd{2021, 3, 4}
		rel = 3
	}
	hh, mm := r.Range(0, 23), r.Range(0, 59)
	if r.P(1, 6) {
		hh, mm = 23, r.Range(30, 59)
	}
	if r.P(1, 10) {
		hh, mm = 0, r.Range(0, 29)
	}
	c.Now = []int{today.y, today.m, today.d, hh, mm}
	// date selection
	switch r.Weighted(6, 1, 1, 1, 3) {
	case 1:
		cmd.DateSel = "today"
	case 2:
		cmd.DateSel = "yesterday"
	case 3:
		cmd.DateSel = "tomorrow"
	case 4:
		a := today
		if target != nil && r.P(2, 3) {
			a = ymd{target.Y, target.M, target.D}
		} else if r.P(1, 2) {
			y, m, d := genDate(r)
			a = ymd{y, m, d}
		}
		if r.P(1, 12) { // the ends of the calendar (the former D20: `stop --date 0000-01-01`)
			a = Pick(r, []ymd{{0, 1, 1}, {9999, 12, 31}, {0, 1, 2}, {9999, 12, 30}})
		}
		sep := "-"
		if r.P(1, 3) {
			sep = "/"
		}
		cmd.DateSel = fmt.Sprintf("d:%04d%s%02d%s%02d", a.y, sep, a.m, sep, a.d)
	}
	if kind == "pause" {
		cmd.DateSel = ""
	}
	// time
	if kind == "start" || kind == "stop" || kind == "switch" {
		if r.P(1, 2) {
			t := genTime(r)
			if r.P(2, 3) { // a plausible time later in the day
				t = GTime{H: r.Range(12, 23), M: r.Range(0, 59), Is24: true}
				t.Text = fmt.Sprintf("%d:%02d", t.H, t.M)
			}
			cmd.Time = t.Text
		}
		if r.P(1, 4) {
			cmd.Round = Pick(r, []int{5, 10, 12, 15, 20, 30, 60})
		}
	}
	switch kind {
	case "track":
		var first string
		switch r.Weighted(4, 3, 1, 1, 1) {
		case 0:
			first, _, _ = genDur(r, true)
		case 1:
			a, b := genTime(r), genTime(r)
			if b.Off() < a.Off() {
				a, b = b, a
			}
			first = a.Text + " - " + b.Text
		case 2:
			first = genTime(r).Text + " - ?"
		case 3:
			first = Pick(r, []string{"foo", "25:00 - 26:00", "1h60m", "9:00 - 8:00", "8:00 -", "#tag only", "99999999999999999999h", "9223372036854775807h x"})
		default:
			first = Pick(r, []string{" ", "  ", "\t", "    "}) + "2h"
		}
		sum := genSummaryLines(r)
		if r.P(1, 3) {
			sum = []string{""}
		}
		if sum[0] != "" {
			first += " " + sum[0]
		}
		cmd.Entry = append([]string{first}, sum[1:]...)
	case "create":
		if r.P(1, 3) {
			cmd.Should, cmd.ShouldMins = "8h", 480
			if r.P(1, 3) {
				cmd.Should, cmd.ShouldMins = "-1h30m", -90
			} else if r.P(1, 3) { // an explicit zero is a value too: it overrides a configured default
				cmd.Should, cmd.ShouldMins = Pick(r, []string{"0m", "0h", "-0m"}), 0
			}
			cmd.ShouldAlias = r.P(1, 3)
		}
		if r.P(1, 3) {
			cmd.HasSummary = true
			cmd.Summary = []string{genSummaryLine(r)}
			if r.P(1, 3) {
				cmd.Summary = append(cmd.Summary, genSummaryLine(r))
			}
		}
	case "start", "switch":
		switch r.Weighted(4, 3, 2, 2, 1) {
		case 1:
			cmd.HasSummary, cmd.Summary = true, genSummaryLines(r)
		case 2:
			cmd.Resume = true
		case 3:
			cmd.ResumeNth = Pick(r, []int{1, 2, -1, -2, 3, 99})
		case 4: // conflicting flags
			cmd.HasSummary, cmd.Summary, cmd.Resume = true, []string{"x"}, true
		}
	case "stop":
		if r.P(1, 3) {
			cmd.HasSummary, cmd.Summary = true, genSummaryLines(r)
		}
	case "pause":
		if r.P(1, 3) {
			cmd.HasSummary, cmd.Summary = true, []string{genSummaryLine(r)}
		}
		cmd.NoTags = r.P(1, 4)
		cmd.Extend = r.P(1, 4)
		n := r.Range(0, 7)
		cur := 0
		for i := 0; i < n; i++ {
			switch r.Weighted(4, 3, 1, 1, 1) {
			case 1:
				cur++
			case 2:
				cur += r.Range(2, 90)
			case 3:
				cur -= r.Range(1, 30) // clock jumps backwards
			case 4:
				cur = r.Range(-5, 5)
			}
			cmd.Ticks = append(cmd.Ticks, cur)
		}
	}
	c.Cmd = cmd
	return c
}
