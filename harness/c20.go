package main

import (
	"encoding/json"
	"fmt"
	"sort"
	"strings"
)

// C20: the JSON output is well-formed and faithful to the data.

func init() {
	register(&Prop{
		ID: "C20",
		Rule: "texts: DocGen valid documents (summaries with quotes, backslashes, control characters, <>&, non-ASCII, U+2028, invalid UTF-8), the same with rule-violating edits (errors), token layouts; `klog json` and `klog json --pretty`, with --sort and filters in a third of the cases, through the real CLI. " +
			"Non-trivial: valid document with at least 2 records and 3 entries, or an invalid one; distinct = distinct (text, flags)",
		Count: func(tier string) int {
			if tier == "thorough" {
				return 300000
			}
			return 9000
		},
		Gen: func(r *Rand, idx int, tier string) map[string]any {
			var text, kind string
			var doc *GDoc
			switch r.Weighted(6, 3, 1) {
			case 0:
				doc = GenDoc(r, DocOpts{})
				text, kind = doc.Text, "valid"
				// sprinkle JSON-relevant characters into summaries (valid: summary text is arbitrary)
				if r.P(1, 2) {
					for _, rep := range [][2]string{{"foo", "f\"o\\o"}, {"bar", "b<a>r&"}, {"Lorem", "Lo\x01rem\x7f"}, {"ipsum", "ip sum "}, {"meeting", "meet\x0bing\x08\x0c"}} {
						if r.P(1, 2) {
							text = strings.ReplaceAll(text, rep[0], rep[1])
						}
					}
				}
			case 1:
				d := GenDoc(r, DocOpts{MinRecords: 1})
				if m := Mutate(r, d); m != nil {
					text, kind = m.Text, "invalid"
				} else {
					doc = d
					text, kind = d.Text, "valid"
				}
			default:
				text, kind = GenLayout(r), "layout"
			}
			flags := []string{}
			if r.P(1, 2) {
				flags = append(flags, "--pretty")
			}
			return map[string]any{"text": hx(text), "kind": kind, "flags": flags, "sort": []string{"", "", "asc", "desc"}[r.Intn(4)]}
		},
		Run: runC20,
	})
}

func runC20(env *Env, data map[string]any) *Outcome {
	text := textOf(data, "text")
	flags := strs(data, "flags")
	o := &Outcome{Key: hashKey(text + fmt.Sprint(flags)), Tags: []string{"kind:" + str(data, "kind")}}
	file := writeFile(env, "c20.klg", text)
	pretty := len(flags) > 0
	args := append([]string{"json"}, flags...)
	args = append(args, file)
	res := runCLI(env, CLIOpts{Now: mkTime(2021, 3, 4, 12, 0)}, args...)
	var impl string
	switch {
	case res.Panic != "":
		impl = "panic"
	case res.Code != 0:
		impl = fmt.Sprintf("exit %d", res.Code)
	default:
		impl = "ok " + hx(strings.TrimSuffix(res.Stdout, "\n"))
	}
	model := env.Drv.Ask("json", hx(text), b01(pretty), hx(file))
	if impl != model {
		o.Findings = append(o.Findings, Finding{Kind: "K", What: "K.C20.json: `klog json` output differs from the model", Impl: short(unhxSafe(impl), 2500), Model: short(unhxSafe(model), 2500)})
	}
	if res.Panic != "" {
		o.Findings = append(o.Findings, Finding{Kind: "D", What: "klog json panics: " + res.Panic, Signature: crashSignature("C20", "panic: "+res.Panic, data)})
		return o
	}
	if res.Code != 0 {
		o.Findings = append(o.Findings, Finding{Kind: "D", What: "klog json exits with a non-zero status on a readable input", Impl: res.Err})
		return o
	}
	// D: one well-formed JSON document (decoded with Go's own JSON reader, independent of klog) ...
	var doc struct {
		Records *[]map[string]any `json:"records"`
		Errors  *[]map[string]any `json:"errors"`
	}
	dec := json.NewDecoder(strings.NewReader(res.Stdout))
	if err := dec.Decode(&doc); err != nil {
		o.Findings = append(o.Findings, Finding{Kind: "D", What: "output is not well-formed JSON: " + err.Error(), Impl: short(res.Stdout, 600)})
		return o
	}
	if dec.More() {
		o.Findings = append(o.Findings, Finding{Kind: "D", What: "more than one JSON document in the output"})
	}
	// ... in which exactly one of records / errors is non-null
	if (doc.Records == nil) == (doc.Errors == nil) {
		o.Findings = append(o.Findings, Finding{Kind: "D", What: "records and errors are both null or both non-null", Impl: short(res.Stdout, 400)})
		return o
	}
	parsed, _ := implParse(text)
	if strings.HasPrefix(parsed, "records ") != (doc.Records != nil) {
		o.Findings = append(o.Findings, Finding{Kind: "D", What: "envelope kind does not match the validity of the input", Impl: short(res.Stdout, 400)})
		return o
	}
	if doc.Records != nil {
		// faithful: re-build the canonical records from the JSON view and compare with the parser's
		canon := strings.Fields(strings.TrimPrefix(parsed[:strings.Index(parsed, " | ")], "records "))
		if len(*doc.Records) != len(canon) {
			o.Findings = append(o.Findings, Finding{Kind: "D", What: fmt.Sprintf("%d record objects for %d records", len(*doc.Records), len(canon))})
			return o
		}
		for i, rv := range *doc.Records {
			if v := checkRecordView(rv, canon[i]); v != "" {
				o.Findings = append(o.Findings, Finding{Kind: "D", What: fmt.Sprintf("record %d: %s", i+1, v), Impl: short(fmt.Sprint(rv), 800), Model: short(canon[i], 800)})
				break
			}
		}
		o.Nontrivial = len(canon) >= 2 && strings.Count(parsed, "):[") >= 3
	} else {
		o.Nontrivial = true
		errsCanon := strings.Fields(strings.TrimPrefix(parsed, "errors "))
		if len(*doc.Errors) != len(errsCanon) {
			o.Findings = append(o.Findings, Finding{Kind: "D", What: "number of error objects differs from the number of parser errors"})
		}
		for i, ev := range *doc.Errors {
			if i >= len(errsCanon) {
				break
			}
			// E(line,pos,len,code,text)
			parts := strings.Split(strings.TrimSuffix(strings.TrimPrefix(errsCanon[i], "E("), ")"), ",")
			if fmt.Sprint(ev["line"]) != parts[0] || fmt.Sprint(ev["length"]) != parts[2] || fmt.Sprint(int(ev["column"].(float64))-1) != parts[1] {
				o.Findings = append(o.Findings, Finding{Kind: "D", What: fmt.Sprintf("error object %d carries a different line/column/length than the parser error", i+1), Impl: fmt.Sprint(ev), Model: errsCanon[i]})
				break
			}
			if ev["title"] == "" || ev["details"] == "" {
				o.Findings = append(o.Findings, Finding{Kind: "D", What: "error object without title/details"})
			}
		}
	}
	// with the other flags of the command (--now, --sort, filters) the output is still ONE well-formed document and nothing else
	if doc.Records != nil {
		extra := [][]string{{"--now"}, {"--sort", "desc"}, {"--now", "--pretty"}, {"--entry-type", "range", "--now"}}[len(text)%4]
		rx := runCLI(env, CLIOpts{Now: mkTime(2021, 3, 4, 12, 0)}, append(append([]string{"json"}, extra...), file)...)
		o.Evals++
		if rx.Panic != "" {
			o.Findings = append(o.Findings, Finding{Kind: "D", What: "klog json " + strings.Join(extra, " ") + " panics: " + rx.Panic, Signature: crashSignature("C20", "panic: "+rx.Panic, data)})
		} else if rx.Code == 0 {
			var d2 struct {
				Records *[]map[string]any `json:"records"`
				Errors  *[]map[string]any `json:"errors"`
			}
			dec2 := json.NewDecoder(strings.NewReader(rx.Stdout))
			err := dec2.Decode(&d2)
			rest := ""
			if err == nil {
				rest = strings.TrimSpace(rx.Stdout[dec2.InputOffset():])
			}
			if err != nil || rest != "" || (d2.Records == nil) == (d2.Errors == nil) {
				o.Findings = append(o.Findings, Finding{Kind: "D", What: "`klog json " + strings.Join(extra, " ") + "` does not emit exactly one well-formed JSON document", Impl: short(rx.Stdout, 600)})
			}
		}
	}
	o.Sample = map[string]any{"kind": str(data, "kind"), "pretty": pretty, "json": short(res.Stdout, 200)}
	return o
}

func unhxSafe(s string) string {
	if strings.HasPrefix(s, "ok ") {
		return "ok " + unhx(s[3:])
	}
	return s
}

func numOf(v any) int {
	if f, ok := v.(float64); ok {
		return int(f)
	}
	return -1 << 40
}

// checkRecordView compares one JSON record object with the canonical record R(date,should,[sum],[entries]).
func checkRecordView(rv map[string]any, canon string) string {
	// canonical: R(<date>,<should>,[hex,..],[E1,E2..]) with entries  X(...):[hex,...]
	inner := strings.TrimSuffix(strings.TrimPrefix(canon, "R("), ")")
	p1 := strings.Index(inner, ",")
	date := inner[:p1]
	rest := inner[p1+1:]
	p2 := strings.Index(rest, ",")
	should := rest[:p2]
	rest = rest[p2+1:]
	p3 := strings.Index(rest, "]")
	sumHex := rest[1:p3]
	entriesPart := strings.TrimSuffix(strings.TrimPrefix(rest[p3+2:], "["), "]")
	if rv["date"] != date {
		return "date differs"
	}
	if fmt.Sprint(numOf(rv["should_total_mins"])) != should {
		return "should_total_mins differs"
	}
	var sumLines []string
	if sumHex != "" {
		for _, h := range strings.Split(sumHex, ",") {
			sumLines = append(sumLines, unhx(h))
		}
	}
	if rv["summary"] != strings.Join(sumLines, "\n") {
		return "summary differs"
	}
	// tags of the record summary, by the specification, as written by Tag.ToString (sorted)
	if v := checkTags(rv["tags"], sumLines); v != "" {
		return v
	}
	entries, _ := rv["entries"].([]any)
	var ecanon []string
	if entriesPart != "" {
		// split at "],"
		for _, e := range strings.SplitAfter(entriesPart, "],") {
			ecanon = append(ecanon, strings.TrimSuffix(e, ","))
		}
	}
	if len(entries) != len(ecanon) {
		return fmt.Sprintf("%d entry objects for %d entries", len(entries), len(ecanon))
	}
	sum := 0
	for i, ev := range entries {
		em, _ := ev.(map[string]any)
		ec := ecanon[i]
		sum += numOf(em["total_mins"])
		var typ string
		switch ec[0] {
		case 'T':
			typ = "range"
			if numOf(em["total_mins"]) != numOf(em["end_mins"])-numOf(em["start_mins"]) {
				return fmt.Sprintf("entry %d: a range's total is not end_mins - start_mins", i+1)
			}
			// T(h:m:s:f,h:m:s:f,sp)
			ts := strings.Split(ec[2:strings.Index(ec, ")")], ",")
			if offOfCanonTime(ts[0]) != numOf(em["start_mins"]) || offOfCanonTime(ts[1]) != numOf(em["end_mins"]) {
				return fmt.Sprintf("entry %d: start_mins/end_mins differ from the parsed times", i+1)
			}
		case 'O':
			typ = "open_range"
			ts := strings.Split(ec[2:strings.Index(ec, ")")], ",")
			if offOfCanonTime(ts[0]) != numOf(em["start_mins"]) || numOf(em["total_mins"]) != 0 {
				return fmt.Sprintf("entry %d: open range view differs", i+1)
			}
		case 'D':
			typ = "duration"
			mins := ec[2:strings.Index(ec, ",")]
			if fmt.Sprint(numOf(em["total_mins"])) != mins {
				return fmt.Sprintf("entry %d: duration minutes differ", i+1)
			}
		}
		if em["type"] != typ {
			return fmt.Sprintf("entry %d: type %v, expected %s", i+1, em["type"], typ)
		}
		sh := ec[strings.LastIndex(ec, ":[")+2 : len(ec)-1]
		var lines []string
		for _, h := range strings.Split(sh, ",") {
			lines = append(lines, unhx(h))
		}
		if em["summary"] != strings.Join(lines, "\n") {
			return fmt.Sprintf("entry %d: summary differs", i+1)
		}
		if v := checkTags(em["tags"], lines); v != "" {
			return fmt.Sprintf("entry %d: %s", i+1, v)
		}
	}
	if numOf(rv["total_mins"]) != sum {
		return "total_mins is not the sum of the entries' total_mins"
	}
	if numOf(rv["diff_mins"]) != numOf(rv["total_mins"])-numOf(rv["should_total_mins"]) {
		return "diff_mins is not total_mins - should_total_mins"
	}
	return ""
}

func offOfCanonTime(s string) int {
	var h, m, sh, f int
	fmt.Sscanf(s, "%d:%d:%d:%d", &h, &m, &sh, &f)
	return sh*1440 + h*60 + m
}

func checkTags(v any, lines []string) string {
	arr, _ := v.([]any)
	var want []string
	for _, l := range lines {
		for _, t := range specTags(l) {
			s := "#" + t.name
			if t.value != "" {
				q := ""
				for _, c := range t.value {
					if !isNameRune(c) {
						q = "\""
					}
				}
				if q != "" && strings.Contains(t.value, "\"") {
					q = "'"
				}
				s += "=" + q + t.value + q
			}
			want = append(want, s)
		}
	}
	sort.Strings(want)
	var got []string
	for _, x := range arr {
		got = append(got, fmt.Sprint(x))
	}
	if strings.Join(got, "\x00") != strings.Join(want, "\x00") {
		return fmt.Sprintf("tags %q, expected %q", got, want)
	}
	return ""
}
