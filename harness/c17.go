package main

import (
	"fmt"
	"strings"
)

// C17: clock-relative behaviour at every minute of the day. A case is one (day, minute); it
// runs every rounding x date selection x layout x command.

var c17Days = [][3]int{{2021, 3, 4}, {2021, 3, 31}, {2021, 12, 31}, {2020, 2, 29}, {2022, 1, 1}, {2019, 3, 1}}
var c17Roundings = []int{0, 5, 10, 12, 15, 20, 30, 60}

func fmtTime24(off int) string { // off in minutes relative to the record's midnight
	switch {
	case off < 0:
		return fmt.Sprintf("<%d:%02d", (off+1440)/60, (off+1440)%60)
	case off >= 1440:
		return fmt.Sprintf("%d:%02d>", (off-1440)/60, (off-1440)%60)
	}
	return fmt.Sprintf("%d:%02d", off/60, off%60)
}

// roundNearest: nearest multiple of r, ties up.
func roundNearest(m, r int) int {
	if r == 0 {
		return m
	}
	lo := m - m%r
	if 2*(m-lo) >= r {
		return lo + r
	}
	return lo
}

func init() {
	register(&Prop{
		ID: "C17",
		Rule: "one case per (day, minute): day in {ordinary, month end, year end, leap day, new year, day after a leap-less February}; minute: every 7th minute plus 23:00-00:30 completely (quick) or all 1440 (thorough); " +
			"each case runs start/stop/switch x roundings {none,5,10,12,15,20,30,60} x date selection {default,--today,--yesterday,--tomorrow,--date} x layouts {open range today / yesterday / both / none} through the real CLI, and `klog total --now` on open ranges today/yesterday/older/future. " +
			"evaluations = CLI runs; distinct/non-trivial = distinct (day, minute)",
		Count: func(tier string) int {
			if tier == "thorough" {
				return 1440 * 2
			}
			n := 0
			for m := 0; m < 1440; m++ {
				if c17Minute(m) {
					n++
				}
			}
			return n
		},
		Exhaustive: func(tier string) bool { return tier == "thorough" },
		Gen: func(r *Rand, idx int, tier string) map[string]any {
			if tier == "thorough" {
				return map[string]any{"minute": idx % 1440, "day": (idx / 1440) + 2*(idx%3)}
			}
			k := 0
			for m := 0; m < 1440; m++ {
				if c17Minute(m) {
					if k == idx {
						return map[string]any{"minute": m, "day": idx % len(c17Days)}
					}
					k++
				}
			}
			return map[string]any{"minute": 0, "day": 0}
		},
		Run: runC17,
	})
}

func c17Minute(m int) bool { return m%7 == 0 || m >= 23*60 || m <= 30 }

func runC17(env *Env, data map[string]any) *Outcome {
	minute := num(data, "minute")
	day := c17Days[num(data, "day")%len(c17Days)]
	today := ymd{day[0], day[1], day[2]}
	yesterday, tomorrow := today.prev(), today.next()
	now := []int{today.y, today.m, today.d, minute / 60, minute % 60}
	o := &Outcome{Key: fmt.Sprintf("%v/%d", day, minute), Nontrivial: true, Tags: []string{fmt.Sprintf("day:%s", today)}}
	evals := 0
	check := func(layout string, text string, cfg CfgSpec, cmd CmdSpec, wantOK bool, want string, note string) {
		evals++
		res := runCommand(env, text, cfg, now, cmd, 1)
		model := modelCommand(env, text, cfg, now, cmd)
		in := map[string]any{"text": hx(text), "cfg": cfg, "now": now, "cmd": cmd, "minute": minute, "day": num(data, "day"), "layout": layout, "single": true}
		if res.Outcome != model {
			addF(o, Finding{Kind: "K", What: "K.C17.cmd: `klog " + cmd.Kind + "` differs from the model (" + note + ")", Impl: short(res.Outcome, 1500), Model: short(model, 1500), Input: in})
		}
		if res.Panic != "" {
			addF(o, Finding{Kind: "D", What: fmt.Sprintf("klog %s crashes at %02d:%02d (%s): %s", cmd.Kind, minute/60, minute%60, note, res.Panic), Impl: "panic", Input: in})
			return
		}
		if wantOK {
			if res.Code != 0 {
				addF(o, Finding{Kind: "D", What: fmt.Sprintf("klog %s at %02d:%02d (%s) must succeed", cmd.Kind, minute/60, minute%60, note), Impl: res.Outcome + " " + short(res.Err, 200), Model: want, Input: in})
			} else if res.After != want {
				addF(o, Finding{Kind: "D", What: fmt.Sprintf("klog %s at %02d:%02d (%s) wrote a wrong time / wrong record", cmd.Kind, minute/60, minute%60, note), Impl: res.After, Model: want, Input: in})
			}
		} else {
			if res.Code == 0 {
				addF(o, Finding{Kind: "D", What: fmt.Sprintf("klog %s at %02d:%02d (%s) must fail with an error message", cmd.Kind, minute/60, minute%60, note), Impl: res.After, Input: in})
			} else if res.After != text {
				addF(o, Finding{Kind: "D", What: "failed command changed the file", Impl: res.After, Model: text, Input: in})
			} else if strings.TrimSpace(res.Err) == "" {
				addF(o, Finding{Kind: "D", What: "command failed without an error message", Input: in})
			}
		}
	}
	if boolv(data, "single") { // replay of one sub-case
		c := cmdCaseOf(data)
		res := runCommand(env, c.Text, c.Cfg, c.Now, c.Cmd, 1)
		model := modelCommand(env, c.Text, c.Cfg, c.Now, c.Cmd)
		if res.Outcome != model {
			addF(o, Finding{Kind: "K", What: "K.C17.cmd differs from the model", Impl: res.Outcome, Model: model})
		}
		if res.Panic != "" {
			addF(o, Finding{Kind: "D", What: "crash: " + res.Panic, Impl: "panic"})
		}
		return o
	}
	recT, recY, recTm := today.String(), yesterday.String(), tomorrow.String()
	for _, r := range c17Roundings {
		rounded := roundNearest(minute, r) // minutes since today's midnight, may be 1440
		for _, sel := range []string{"def", "today", "yesterday", "tomorrow", "explicit-today", "explicit-other"} {
			cmd := CmdSpec{Round: r}
			var relOff int // rounded time relative to the target record's date
			var targetDate string
			timeOK := true
			switch sel {
			case "def":
				targetDate, relOff = recT, rounded
			case "today":
				cmd.DateSel, targetDate, relOff = "today", recT, rounded
			case "yesterday":
				cmd.DateSel, targetDate, relOff = "yesterday", recY, rounded+1440
			case "tomorrow":
				cmd.DateSel, targetDate, relOff = "tomorrow", recTm, rounded-1440
			case "explicit-today":
				cmd.DateSel, targetDate, relOff = "d:"+recT, recT, rounded
			case "explicit-other":
				cmd.DateSel, targetDate, timeOK = "d:2001-05-05", "2001-05-05", false
			}
			if relOff >= 2880 || relOff < -1440 {
				timeOK = false
			}
			timeText := fmtTime24(relOff)
			cfg := CfgSpec{}
			// ---- start: on a file that has the target record without open range, and on an empty target ----
			{
				c := cmd
				c.Kind = "start"
				text := targetDate + "\n    1h\n"
				want := targetDate + "\n    1h\n    " + timeText + " - ?\n"
				check("start-existing", text, cfg, c, timeOK, want, fmt.Sprintf("start %s round %d", sel, r))
				if r == 0 || r == 30 {
					// new record is created (dated after the existing one)
					text2 := "1999-01-01\n    1h\n"
					want2 := text2 + "\n" + targetDate + "\n    " + timeText + " - ?\n"
					if sel == "explicit-other" {
						want2 = ""
					}
					check("start-new", text2, cfg, c, timeOK, want2, fmt.Sprintf("start %s round %d new record", sel, r))
				}
			}
			// ---- stop / switch: the target record has an open range that started at its 0:00 of the day before ----
			for _, kind := range []string{"stop", "switch"} {
				if kind == "switch" && r != 0 && r != 15 {
					continue
				}
				c := cmd
				c.Kind = kind
				text := targetDate + "\n    <0:00 - ?\n"
				var want string
				if kind == "stop" {
					want = targetDate + "\n    <0:00 - " + timeText + "\n"
				} else {
					want = targetDate + "\n    <0:00 - " + timeText + "\n    " + timeText + " - ?\n"
				}
				check(kind+"-open", text, cfg, c, timeOK, want, fmt.Sprintf("%s %s round %d", kind, sel, r))
			}
		}
		// ---- stop's fallback to yesterday's record: only when there is no record for today ----
		{
			c := CmdSpec{Kind: "stop", Round: r}
			relOff := rounded + 1440
			ok := relOff < 2880
			textY := recY + "\n    23:00 - ?\n"
			check("stop-fallback", textY, CfgSpec{}, c, ok, recY+"\n    23:00 - "+fmtTime24(relOff)+"\n", fmt.Sprintf("stop fallback round %d", r))
			// both records exist: today's is the target; it has no open range -> error, yesterday's untouched
			textB := recY + "\n    23:00 - ?\n\n" + recT + "\n    1h\n"
			check("stop-no-fallback", textB, CfgSpec{}, c, false, "", fmt.Sprintf("stop with a record for today, round %d", r))
			// both have open ranges: today's is closed
			textBB := recY + "\n    23:00 - ?\n\n" + recT + "\n    0:00 - ?\n"
			check("stop-both", textBB, CfgSpec{}, c, true, recY+"\n    23:00 - ?\n\n"+recT+"\n    0:00 - "+fmtTime24(rounded)+"\n", fmt.Sprintf("stop with open ranges today and yesterday, round %d", r))
			// none
			check("stop-none", "1999-01-01\n    1h\n", CfgSpec{}, c, false, "", "stop without any recent record")
		}
	}
	// ---- total --now ----
	for _, lay := range []struct {
		name, date string
		start      int // start offset of the open range relative to its record
		wantExtra  int
		ok         bool
	}{
		{"now-today", recT, 0, minute, true},
		{"now-today-late", recT, minute + 1, 0, false}, // starts after now
		{"now-today-exact", recT, minute, 0, true},
		{"now-yesterday", recY, 600, minute + 1440 - 600, true},
		{"now-yesterday-shifted", recY, 1440 + minute, 0, true},
		{"now-older", yesterday.prev().String(), 600, 0, false},
		{"now-future", recTm, -60, 0, false},
	} {
		if lay.start >= 2880 {
			continue
		}
		text := lay.date + "\n    30m\n    " + fmtTime24(lay.start) + " - ?\n"
		file := writeFile(env, "c17now.klg", text)
		evals++
		res := runCLI(env, CLIOpts{Now: mkTime(now[0], now[1], now[2], now[3], now[4])}, "total", "--now", "--decimal", "--no-style", "--no-warn", file)
		in := map[string]any{"text": hx(text), "now": now, "layout": lay.name}
		model := env.Drv.Ask("evalnow", hx(text), fmt.Sprint(now[0]), fmt.Sprint(now[1]), fmt.Sprint(now[2]), fmt.Sprint(now[3]), fmt.Sprint(now[4]))
		var impl string
		switch {
		case res.Panic != "":
			impl = "panic"
		case res.Code != 0:
			impl = "uncloseable"
		default:
			m := reTotalLine.FindStringSubmatch(res.Stdout)
			if m != nil {
				impl = "total " + m[2]
			}
		}
		modelShort := model
		if strings.HasPrefix(model, "closed=") {
			if i := strings.Index(model, "total=ok "); i >= 0 {
				modelShort = "total " + strings.Fields(model[i+9:])[0]
			}
		}
		if impl != modelShort {
			addF(o, Finding{Kind: "K", What: "K.C17.now: `klog total --now` differs from the model (" + lay.name + ")", Impl: impl, Model: model, Input: in})
		}
		if res.Panic != "" {
			addF(o, Finding{Kind: "D", What: "klog total --now crashes (" + lay.name + "): " + res.Panic, Input: in})
		} else if lay.ok && impl != fmt.Sprintf("total %d", 30+lay.wantExtra) {
			addF(o, Finding{Kind: "D", What: fmt.Sprintf("total --now (%s) must add exactly %d minutes", lay.name, lay.wantExtra), Impl: impl + " " + short(res.Err, 100), Input: in})
		} else if !lay.ok && impl != "uncloseable" {
			addF(o, Finding{Kind: "D", What: "total --now (" + lay.name + ") must refuse the open range", Impl: impl, Input: in})
		}
		// every evaluating command takes --now the same way: closed or refused exactly like `klog total --now`
		other := [][]string{{"tags", "--no-warn"}, {"report", "--no-warn"}, {"today", "--no-warn"}, {"json"}, {"report", "-a", "w", "--fill", "--no-warn"}}[(minute+len(lay.name))%5]
		evals++
		ro := runCLI(env, CLIOpts{Now: mkTime(now[0], now[1], now[2], now[3], now[4])}, append(append([]string{}, other...), "--now", file)...)
		if ro.Panic != "" {
			addF(o, Finding{Kind: "D", What: "klog " + strings.Join(other, " ") + " --now crashes (" + lay.name + "): " + ro.Panic, Input: in})
		} else if res.Panic == "" && (ro.Code == 0) != (res.Code == 0) {
			addF(o, Finding{Kind: "D", What: fmt.Sprintf("`klog %s --now` (%s) exits %d although `klog total --now` exits %d: an open range is closed / refused at an instant by one command and not by the other", strings.Join(other, " "), lay.name, ro.Code, res.Code), Impl: short(ro.Stdout+ro.Err, 300), Input: in})
		}
	}
	// ---- total --now with open ranges in several records (each one is closed or refused on its own) ----
	recOf := func(date string, start int) string { return date + "\n    30m\n    " + fmtTime24(start) + " - ?\n" }
	for _, lay := range []struct {
		name      string
		recs      []string
		wantExtra int
		ok        bool
	}{
		{"now-yesterday+today", []string{recOf(recY, 600), recOf(recT, 0)}, (minute + 1440 - 600) + minute, true},
		{"now-today+yesterday", []string{recOf(recT, 0), recOf(recY, 600)}, (minute + 1440 - 600) + minute, true},
		{"now-today+today", []string{recOf(recT, 0), recOf(recT, minute)}, minute, true},
		{"now-today+older", []string{recOf(recT, 0), recOf(yesterday.prev().String(), 600)}, 0, false},
		{"now-older+today", []string{recOf(yesterday.prev().String(), 600), recOf(recT, 0)}, 0, false},
		{"now-yesterday+future", []string{recOf(recY, 600), recOf(recTm, -60)}, 0, false},
		{"now-today+today-late", []string{recOf(recT, 0), recOf(recT, minute+1)}, 0, false},
	} {
		if minute+1 >= 1440 && lay.name == "now-today+today-late" {
			continue
		}
		text := strings.Join(lay.recs, "\n")
		file := writeFile(env, "c17now2.klg", text)
		evals++
		res := runCLI(env, CLIOpts{Now: mkTime(now[0], now[1], now[2], now[3], now[4])}, "total", "--now", "--decimal", "--no-style", "--no-warn", file)
		in := map[string]any{"text": hx(text), "now": now, "layout": lay.name}
		model := env.Drv.Ask("evalnow", hx(text), fmt.Sprint(now[0]), fmt.Sprint(now[1]), fmt.Sprint(now[2]), fmt.Sprint(now[3]), fmt.Sprint(now[4]))
		var impl string
		switch {
		case res.Panic != "":
			impl = "panic"
		case res.Code != 0:
			impl = "uncloseable"
		default:
			if m := reTotalLine.FindStringSubmatch(res.Stdout); m != nil {
				impl = "total " + m[2]
			}
		}
		modelShort := model
		if strings.HasPrefix(model, "closed=") {
			if i := strings.Index(model, "total=ok "); i >= 0 {
				modelShort = "total " + strings.Fields(model[i+9:])[0]
			}
		}
		if impl != modelShort {
			addF(o, Finding{Kind: "K", What: "K.C17.now: `klog total --now` differs from the model (" + lay.name + ")", Impl: impl, Model: model, Input: in})
		}
		if res.Panic != "" {
			addF(o, Finding{Kind: "D", What: "klog total --now crashes (" + lay.name + "): " + res.Panic, Input: in})
		} else if lay.ok && impl != fmt.Sprintf("total %d", 60+lay.wantExtra) {
			addF(o, Finding{Kind: "D", What: fmt.Sprintf("total --now (%s) must add exactly %d minutes", lay.name, lay.wantExtra), Impl: impl + " " + short(res.Err, 100), Input: in})
		} else if !lay.ok && impl != "uncloseable" {
			addF(o, Finding{Kind: "D", What: "total --now (" + lay.name + ") must refuse the open range that cannot be closed", Impl: impl, Input: in})
		}
		// `klog today --now` evaluates the same records at the same instant
		evals++
		td := runCLI(env, CLIOpts{Now: mkTime(now[0], now[1], now[2], now[3], now[4])}, "today", "--now", "--decimal", "--no-style", "--no-warn", file)
		if td.Panic != "" {
			addF(o, Finding{Kind: "D", What: "klog today --now crashes (" + lay.name + "): " + td.Panic, Input: in})
		} else if res.Panic == "" && (td.Code == 0) != (res.Code == 0) {
			addF(o, Finding{Kind: "D", What: fmt.Sprintf("`klog today --now` (%s) exits %d although `klog total --now` exits %d", lay.name, td.Code, res.Code), Impl: short(td.Stdout+td.Err, 300), Input: in})
		} else if td.Code == 0 && strings.HasPrefix(impl, "total ") {
			if _, footer, ok := parseTable(td.Stdout); ok && len(footer) >= 1 {
				if at, ok := cellInt(footer[0]); ok && fmt.Sprintf("total %d", at) != impl {
					addF(o, Finding{Kind: "D", What: fmt.Sprintf("`klog today --now` (%s): the total of all records is %d, `klog total --now` says %s", lay.name, at, impl), Impl: short(td.Stdout, 400), Input: in})
				}
			}
		}
	}
	o.Evals = evals
	o.Sample = map[string]any{"day": today.String(), "minute": fmt.Sprintf("%02d:%02d", minute/60, minute%60), "cli_runs": evals}
	return o
}
