package main

import (
	"os"
	"path/filepath"
	gotime "time"

	"github.com/jotaen/klog/klog/app"
	klogmain "github.com/jotaen/klog/klog/app/main"
)

type CLIResult struct {
	Stdout string
	Code   int
	Err    string
	Panic  string
}

type CLIOpts struct {
	Config string        // contents of config.ini
	Script []gotime.Time // successive clock readings (overrides Now)
	Now    gotime.Time
	Cpus   int
	Env    map[string]string
}

var cliNow gotime.Time
var cliNowScript []gotime.Time // successive readings; the last one repeats
var cliNowCalls int

func init() {
	app.VerifNow = func() (gotime.Time, bool) {
		if len(cliNowScript) > 0 {
			i := cliNowCalls
			cliNowCalls++
			if i >= len(cliNowScript) {
				i = len(cliNowScript) - 1
			}
			return cliNowScript[i], true
		}
		if cliNow.IsZero() {
			return gotime.Time{}, false
		}
		return cliNow, true
	}
}

func mkTime(y, m, d, hh, mm int) gotime.Time {
	return gotime.Date(y, gotime.Month(m), d, hh, mm, 0, 0, gotime.UTC)
}

// runCLI runs the real command line entry point (kong parsing, flag decoders, command, exit code)
// in-process, with a controlled clock and a private config folder.
func runCLI(env *Env, o CLIOpts, args ...string) CLIResult {
	cfgDir := filepath.Join(env.TmpDir, "cfg")
	os.MkdirAll(cfgDir, 0755)
	home, _ := app.NewFile(cfgDir)
	cpus := o.Cpus
	if cpus == 0 {
		cpus = 1
	}
	var res CLIResult
	cfg, cErr := app.NewConfig(
		app.FromDeterminedValues{NumCpus: cpus},
		app.FromEnvVars{GetVar: func(k string) string { return o.Env[k] }},
		app.FromConfigFile{FileContents: o.Config},
	)
	if cErr != nil {
		res.Code = -1
		res.Err = "config: " + cErr.Error()
		return res
	}
	cliNow = o.Now
	cliNowScript, cliNowCalls = o.Script, 0
	defer func() { cliNow = gotime.Time{}; cliNowScript = nil }()
	res.Stdout = captureStdout(func() {
		res.Panic = safely(func() {
			code, err := klogmain.Run(home, app.Meta{Version: "v0", SrcHash: "abc1234"}, cfg, args)
			res.Code = code
			if err != nil {
				res.Err = err.Error()
			}
		})
	})
	return res
}

func writeFile(env *Env, name string, text string) string {
	p := filepath.Join(env.TmpDir, name)
	os.WriteFile(p, []byte(text), 0644)
	return p
}

func readFile(p string) string {
	b, _ := os.ReadFile(p)
	return string(b)
}
