package main

import (
	"fmt"
	"strings"
	"sync"
	"time"

	"github.com/jotaen/klog/klog/parser"
	"github.com/jotaen/klog/klog/parser/engine"
)

// ---- forcing the arrival order of batch results through the H3 schedule point ----

type orderForcer struct {
	mu    sync.Mutex
	cond  *sync.Cond
	pos   map[int]int // batch index -> position in the arrival order
	turn  int
	gen   int
	armed bool
}

var forcer = func() *orderForcer {
	f := &orderForcer{}
	f.cond = sync.NewCond(&f.mu)
	engine.VerifSchedulePoint = f.point
	return f
}()

func (f *orderForcer) arm(order []int) {
	f.mu.Lock()
	f.pos = map[int]int{}
	for p, i := range order {
		f.pos[i] = p
	}
	f.turn = 0
	f.gen++
	f.armed = true
	f.mu.Unlock()
}

func (f *orderForcer) disarm() {
	f.mu.Lock()
	f.armed = false
	f.cond.Broadcast()
	f.mu.Unlock()
}

func (f *orderForcer) point(i int, n int) {
	f.mu.Lock()
	if !f.armed {
		f.mu.Unlock()
		return
	}
	p, ok := f.pos[i]
	if !ok {
		f.mu.Unlock()
		return
	}
	for f.armed && f.turn != p {
		f.cond.Wait()
	}
	gen := f.gen
	f.mu.Unlock()
	// let this worker reach its channel send before the next one is released
	go func() {
		time.Sleep(15 * time.Microsecond)
		f.mu.Lock()
		if f.gen == gen {
			f.turn++
			f.cond.Broadcast()
		}
		f.mu.Unlock()
	}()
}

func permutations(n int) [][]int {
	if n == 0 {
		return [][]int{{}}
	}
	var res [][]int
	var rec func(cur []int, used []bool)
	rec = func(cur []int, used []bool) {
		if len(cur) == n {
			res = append(res, append([]int(nil), cur...))
			return
		}
		for i := 0; i < n; i++ {
			if !used[i] {
				used[i] = true
				rec(append(cur, i), used)
				used[i] = false
			}
		}
	}
	rec(nil, make([]bool, n))
	return res
}

func randPerm(r *Rand, n int) []int {
	p := make([]int, n)
	for i := range p {
		p[i] = i
	}
	for i := n - 1; i > 0; i-- {
		j := r.Intn(i + 1)
		p[i], p[j] = p[j], p[i]
	}
	return p
}

// GenCrlfText produces texts that are dense in CRLF / blank-line / multi-byte boundaries.
func GenCrlfText(r *Rand) string {
	toks := []string{"2020-01-01", "\r\n", "\r\n", " \r\n", "\n", "  ", "\t", "    1h", "x", "\r", "ä", "日", "\xff", "2020-01-02", " ", "    8:00 - ?"}
	var sb strings.Builder
	n := r.Range(1, 16)
	for i := 0; i < n; i++ {
		sb.WriteString(Pick(r, toks))
	}
	return sb.String()
}

func init() {
	register(&Prop{
		ID: "C07",
		Rule: "texts from DocGen, rule-violating mutants, token layouts, CRLF-dense texts, raw bytes and (1 in 25) large texts of 4 KiB to 66 KiB (worker counts 1-8, 16 and a random one up to 56); each text is parsed with every worker count 1..len+2 (capped at 40 in the quick tier, plus two larger counts) " +
			"and, per worker count, with forced arrival orders of the batch results (all n! for n<=3 quick / n<=5 thorough; beyond that natural scheduling plus the reverse and a random order for n<=8, the reverse order for every fourth n). " +
			"Non-trivial: the text has at least 2 blocks and some worker count yields a batch with a complete middle block; distinct = distinct texts",
		Count: func(tier string) int {
			if tier == "thorough" {
				return 5000
			}
			return 1500
		},
		Gen: func(r *Rand, idx int, tier string) map[string]any {
			var text, src string
			if idx%25 == 24 { // large texts: implementations may treat sizes beyond some threshold differently
				target := Pick(r, []int{4096, 4200, 8192, 9000, 20000, 33000, 66000})
				var sb strings.Builder
				base := [3]int{1990 + r.Intn(20), 1 + r.Intn(12), 1 + r.Intn(28)}
				faulty := r.P(1, 4)
				for sb.Len() < target {
					d := GenDoc(r, DocOpts{MinRecords: 1, Base: base, Window: 20})
					t := d.Text
					if faulty && r.P(1, 6) {
						if m := Mutate(r, d); m != nil {
							t = m.Text
						}
					}
					sb.WriteString(t)
					if !strings.HasSuffix(t, "\n") {
						sb.WriteString("\n")
					}
					sb.WriteString(Pick(r, []string{"\n", "\n", "\r\n", " \n", "\n\n"}))
				}
				text, src = sb.String(), "large"
				return map[string]any{"text": hx(text), "src": src, "oseed": r.Intn(1 << 30)}
			}
			switch r.Weighted(4, 2, 2, 3, 1) {
			case 0:
				text, src = GenDoc(r, DocOpts{}).Text, "docgen"
			case 1:
				d := GenDoc(r, DocOpts{MinRecords: 1})
				if m := Mutate(r, d); m != nil {
					text, src = m.Text, "mutant"
				} else {
					text, src = d.Text, "docgen"
				}
			case 2:
				text, src = GenLayout(r), "layout"
			case 3:
				text, src = GenCrlfText(r), "crlf"
			default:
				text, src = GenBytes(r), "bytes"
			}
			return map[string]any{"text": hx(text), "src": src, "oseed": r.Intn(1 << 30)}
		},
		Run: runC07,
	})
}

func runC07(env *Env, data map[string]any) *Outcome {
	text := textOf(data, "text")
	o := &Outcome{Key: hashKey(text), Tags: []string{"src:" + str(data, "src")}}
	serial, pmsg := implParse(text)
	if pmsg != "" {
		// A panic of the serial parser is C06's business; the parallel parser would take the
		// whole process down with it (panic inside a goroutine), so it is not run.
		o.Tags = append(o.Tags, "serial-panics")
		o.Findings = append(o.Findings, Finding{Kind: "D", What: "serial parser panics: " + pmsg, Impl: "panic", Signature: crashSignature("C07", "panic: "+pmsg, data)})
		return o
	}
	r := NewRand(int64(num(data, "oseed")), "C07-orders", 0)
	maxN := len(text) + 2
	var ns []int
	limit := 40
	if env.Tier == "thorough" {
		limit = 400
	}
	large := len(text) > 3000
	if large {
		ns = []int{1, 2, 3, 4, 5, 7, 8, 16, 17 + r.Intn(40)}
	} else {
		for n := 1; n <= maxN && n <= limit; n++ {
			ns = append(ns, n)
		}
		if maxN > limit {
			ns = append(ns, maxN, limit+r.Intn(maxN-limit)+1)
		}
	}
	fullPerms := 3
	if env.Tier == "thorough" {
		fullPerms = 5
	}
	evals := 0
	sawMiddle := false
	for _, n := range ns {
		// K: chunking and block structure against the model
		chunks := engine.VerifSplitIntoChunks(text, n)
		cs := make([]string, len(chunks))
		for i, c := range chunks {
			cs[i] = hx(c)
		}
		implChunks := "ok " + strings.Join(cs, ",")
		modelChunks := implChunks
		if !large || n <= 3 {
			modelChunks = env.Drv.Ask("chunks", hx(text), fmt.Sprint(n))
		}
		if implChunks != modelChunks {
			o.Findings = append(o.Findings, Finding{Kind: "K", What: fmt.Sprintf("K.C07.chunks: splitIntoChunks differs for n=%d", n), Impl: implChunks, Model: modelChunks})
		}
		if d := gsDriver(env); d != nil && (!large || n <= 3) {
			// the translated Go source of splitIntoChunks (Gen/GoPar.lean) evaluated against the running code
			if gm := d.Ask("gs.chunks", hx(text), fmt.Sprint(n)); gm != implChunks {
				o.Findings = append(o.Findings, Finding{Kind: "K", What: fmt.Sprintf("K.gosrc.chunks: the Go source of splitIntoChunks as translated into Lean (Gen/GoPar.lean) differs from the running code for n=%d", n), Impl: implChunks, Model: gm})
			}
		}
		if strings.Join(chunks, "") != text {
			o.Findings = append(o.Findings, Finding{Kind: "D", What: fmt.Sprintf("chunks do not concatenate to the text for n=%d", n), Impl: implChunks})
		}
		var orders [][]int
		if n <= fullPerms {
			orders = permutations(n)
		} else {
			rev := make([]int, n)
			for i := range rev {
				rev[i] = n - 1 - i
			}
			if n <= 8 || env.Tier == "thorough" {
				orders = [][]int{nil, rev, randPerm(r, n)}
			} else if n%4 == 0 {
				orders = [][]int{nil, rev}
			} else {
				orders = [][]int{nil}
			}
		}
		for oi, order := range orders {
			if order != nil { // nil = natural scheduling
				forcer.arm(order)
			}
			rs, bs, errs := parser.NewParallelParser(n).Parse(text)
			if order != nil {
				forcer.disarm()
			}
			evals++
			par := canonParse(rs, bs, errs)
			if par != serial {
				o.Findings = append(o.Findings, Finding{Kind: "D", What: fmt.Sprintf("parallel parser (workers=%d, arrival order %v) differs from the serial parser", n, order), Impl: short(par, 3000), Model: short(serial, 3000)})
				break
			}
			if oi == 0 && errs == nil && (!large || n <= 3) {
				implB := "ok " + canonBlocks(bs)
				modelB := env.Drv.Ask("pblocks", hx(text), fmt.Sprint(n))
				if implB != modelB {
					o.Findings = append(o.Findings, Finding{Kind: "K", What: fmt.Sprintf("K.C07.pblocks: parallel block structure differs from the model for n=%d", n), Impl: short(implB, 3000), Model: short(modelB, 3000)})
				}
			}
		}
		// does some chunk contain a complete middle block? (three local blocks)
		for _, c := range chunks {
			if b, _ := implBlocks(c); strings.Count(b, "B(") >= 3 {
				sawMiddle = true
			}
		}
		if len(o.Findings) > 3 {
			break
		}
	}
	o.Evals = evals
	nb := strings.Count(serial, "B(")
	o.Nontrivial = sawMiddle && (nb >= 2 || strings.HasPrefix(serial, "errors"))
	if sawMiddle {
		o.Tags = append(o.Tags, "middle-block")
	}
	if strings.HasPrefix(serial, "errors") {
		o.Tags = append(o.Tags, "invalid")
	} else {
		o.Tags = append(o.Tags, "valid")
	}
	if strings.Contains(text, "\r\n") {
		o.Tags = append(o.Tags, "has-crlf")
	}
	o.Sample = map[string]any{"text": short(text, 100), "worker_counts": len(ns), "parses": evals}
	return o
}
