package main

import (
	"fmt"
	"sort"
	"strings"
	"unicode"

	"github.com/jotaen/klog/klog"
	"github.com/jotaen/klog/klog/parser"
	"github.com/jotaen/klog/klog/service"
)

var c14Alpha = []string{"a", "B", "ä", "1", "#", "=", "\"", "'", "_", "-", " ", "."}

type specTag struct{ name, value string }

func isNameRune(c rune) bool {
	return unicode.IsLetter(c) || (c >= '0' && c <= '9') || c == '_' || c == '-'
}

// specTags: the tags of one summary line by the rules of Specification.md ("Tag").
func specTags(line string) []specTag {
	rs := []rune(line)
	var res []specTag
	i := 0
	for i < len(rs) {
		if rs[i] != '#' {
			i++
			continue
		}
		j := i + 1
		for j < len(rs) && isNameRune(rs[j]) {
			j++
		}
		if j == i+1 { // no name
			i++
			continue
		}
		name := strings.Map(unicode.ToLower, string(rs[i+1:j]))
		value := ""
		if j < len(rs) && rs[j] == '=' {
			k := j + 1
			if k < len(rs) && (rs[k] == '"' || rs[k] == '\'') {
				q := rs[k]
				e := k + 1
				for e < len(rs) && rs[e] != q {
					e++
				}
				if e < len(rs) { // matching closing quote on the same line
					value = string(rs[k+1 : e])
					j = e + 1
				} else { // unterminated: value absent
					j = k
				}
			} else {
				e := k
				for e < len(rs) && isNameRune(rs[e]) {
					e++
				}
				value = string(rs[k:e])
				j = e
			}
		}
		res = append(res, specTag{name, value})
		i = j
	}
	return res
}

func specLookup(ts []specTag) []string {
	set := map[string]bool{}
	for _, t := range ts {
		set[t.name+"="+t.value] = true
		set[t.name+"="] = true
	}
	var keys []string
	for k := range set {
		keys = append(keys, k)
	}
	sort.Strings(keys)
	return keys
}

func implTagsLine(line string) (string, []string, []string) {
	s, _ := klog.NewEntrySummary(line)
	ts := s.Tags()
	printed := ts.ToStrings()
	ps := make([]string, len(printed))
	for i, p := range printed {
		ps[i] = hxNoDash(p)
	}
	var keys []string
	for t := range ts.ForLookup() {
		keys = append(keys, t.Name()+"="+t.Value())
	}
	sort.Strings(keys)
	ks := make([]string, len(keys))
	for i, k := range keys {
		ks[i] = hxNoDash(k)
	}
	return fmt.Sprintf("ok [%s] [%s]", strings.Join(ps, ","), strings.Join(ks, ",")), printed, keys
}

func hxNoDash(s string) string {
	if s == "" {
		return ""
	}
	return hx(s)
}

func checkTagLine(env *Env, line string, o *Outcome) {
	in := map[string]any{"line": hx(line)}
	var impl string
	var keys []string
	if p := safely(func() { impl, _, keys = implTagsLine(line) }); p != "" {
		addF(o, Finding{Kind: "D", What: "tag scanning panics: " + p, Impl: "panic", Input: in})
		return
	}
	model := env.Drv.Ask("tags", hx(line))
	if impl != model {
		addF(o, Finding{Kind: "K", What: "K.C14.tags: Summary.Tags() differs from the model", Impl: impl, Model: model, Input: in})
	}
	want := specLookup(specTags(line))
	if strings.Join(keys, "\x00") != strings.Join(want, "\x00") {
		addF(o, Finding{Kind: "D", What: fmt.Sprintf("the tags recognised in %q are not the specification's", line), Impl: strings.Join(keys, " | "), Model: strings.Join(want, " | "), Input: in})
	}
}

func init() {
	register(&Prop{
		ID: "C14",
		Rule: "summary lines: all strings up to length 5 (quick) / 6 (thorough) over {a,B,ä,1,#,=,\",',_,-,space,.} in batches of 500, random longer lines over a wider alphabet; " +
			"plus DocGen documents with tag-rich summaries for the per-tag totals (record-level and entry-level tags, repeated and redundant tags). Every line/document is one evaluation; distinct = distinct batches/documents; non-trivial = batch or document contains at least one tag with a value",
		Count: func(tier string) int {
			k := 5
			rnd, docs := 400, 3000
			if tier == "thorough" {
				k, rnd, docs = 6, 4000, 100000
			}
			return (enumCount(12, k)+499)/500 + rnd + docs
		},
		Gen: func(r *Rand, idx int, tier string) map[string]any {
			k, rnd := 5, 400
			if tier == "thorough" {
				k, rnd = 6, 4000
			}
			nb := (enumCount(12, k) + 499) / 500
			if idx < nb {
				return map[string]any{"kind": "enum", "batch": idx, "k": k}
			}
			if idx < nb+rnd {
				return map[string]any{"kind": "random", "rseed": r.Intn(1 << 30)}
			}
			d := GenDoc(r, DocOpts{})
			return map[string]any{"kind": "doc", "text": hx(d.Text)}
		},
		Run: runC14,
	})
}

var c14Wide = []string{"a", "B", "ä", "Ä", "ß", "Ω", "ω", "и", "Й", "中", "1", "９", "#", "=", "\"", "'", "_", "-", " ", ".", "\t", "ǅ", "İ", "ſ", "é", " ", "#tag", "#Tag=x", "=\"a b\"", "='x'"}

func runC14(env *Env, data map[string]any) *Outcome {
	o := &Outcome{Tags: []string{"kind:" + str(data, "kind")}}
	if l, ok := data["line"]; ok {
		checkTagLine(env, unhx(l.(string)), o)
		return o
	}
	switch str(data, "kind") {
	case "enum":
		b := num(data, "batch")
		total := enumCount(12, num(data, "k"))
		lo, hi := b*500, min((b+1)*500, total)
		for i := lo; i < hi; i++ {
			checkTagLine(env, enumString(c14Alpha, i), o)
		}
		o.Evals = hi - lo
		o.Key = fmt.Sprintf("enum/%d", b)
		o.Nontrivial = true
	case "random":
		r := NewRand(int64(num(data, "rseed")), "C14", 0)
		for i := 0; i < 200; i++ {
			var sb strings.Builder
			for n := r.Range(1, 14); n > 0; n-- {
				sb.WriteString(Pick(r, c14Wide))
			}
			checkTagLine(env, sb.String(), o)
		}
		o.Evals = 200
		o.Key = fmt.Sprintf("random/%d", num(data, "rseed"))
		o.Nontrivial = true
	case "doc":
		text := textOf(data, "text")
		o.Key = hashKey(text)
		rs, _, errs := parser.NewSerialParser().Parse(text)
		if errs != nil {
			return o
		}
		var impl string
		var stats []*service.TagStats
		if p := safely(func() {
			stats = service.AggregateTotalsByTags(rs...)
			xs := make([]string, len(stats))
			for i, s := range stats {
				xs[i] = fmt.Sprintf("%s:%d:%d", hx(s.Tag.Name()+"="+s.Tag.Value()), s.Total.InMinutes(), s.Count)
			}
			impl = "ok " + strings.Join(xs, ",")
		}); p != "" {
			impl = "panic"
		}
		model := env.Drv.Ask("tagstats", hx(text))
		if impl != model {
			o.Findings = append(o.Findings, Finding{Kind: "K", What: "K.C14.tagstats: AggregateTotalsByTags differs from the model", Impl: impl, Model: model})
		}
		// D: a tag's total is the sum of the durations of the entries that carry it (own or record-level), each entry once
		type acc struct{ total, count int }
		want := map[string]*acc{}
		for _, r := range rs {
			var rt []specTag
			for _, l := range r.Summary().Lines() {
				rt = append(rt, specTags(l)...)
			}
			for _, e := range r.Entries() {
				et := append([]specTag(nil), rt...)
				for _, l := range e.Summary().Lines() {
					et = append(et, specTags(l)...)
				}
				for _, k := range specLookup(et) {
					if want[k] == nil {
						want[k] = &acc{}
					}
					want[k].total += e.Duration().InMinutes()
					want[k].count++
				}
			}
		}
		var keys []string
		for k := range want {
			keys = append(keys, k)
		}
		sort.Strings(keys)
		xs := make([]string, len(keys))
		hasValue := false
		for i, k := range keys {
			xs[i] = fmt.Sprintf("%s:%d:%d", hx(k), want[k].total, want[k].count)
			if !strings.HasSuffix(k, "=") {
				hasValue = true
			}
		}
		if w := "ok " + strings.Join(xs, ","); impl != w {
			o.Findings = append(o.Findings, Finding{Kind: "D", What: "per-tag totals differ from `sum of the durations of the entries that carry the tag`", Impl: impl, Model: w})
		}
		o.Nontrivial = hasValue && len(keys) >= 3
		o.Sample = map[string]any{"text": short(text, 160), "tags": len(keys)}
		// the command line's `--tag NAME[=VALUE]`: names compared case-insensitively, values case-sensitively
		if len(keys) > 0 && impl != "panic" {
			k := keys[len(text)%len(keys)]
			eq := strings.Index(k, "=")
			name, value := k[:eq], k[eq+1:]
			ascii := true
			for _, c := range name {
				if c > 127 {
					ascii = false
				}
			}
			if ascii && len(text)%2 == 0 {
				name = strings.ToUpper(name)
			}
			plain := true
			for _, c := range value {
				if !isNameRune(c) {
					plain = false
				}
			}
			arg := ""
			switch {
			case value == "":
				arg = name
			case plain:
				arg = name + "=" + value
			case !strings.Contains(value, "\""):
				arg = name + "=\"" + value + "\""
			case !strings.Contains(value, "'"):
				arg = name + "='" + value + "'"
			}
			if arg != "" {
				file := writeFile(env, "c14.klg", text)
				res := runCLI(env, CLIOpts{Now: mkTime(2021, 3, 4, 12, 0)}, "total", "--decimal", "--no-style", "--no-warn", "--tag", strings.ReplaceAll(arg, ",", "\\,"), file) // kong splits a list flag at unescaped commas
				o.Evals++
				got := -1 << 40
				for _, m := range reTotalLine.FindAllStringSubmatch(res.Stdout, -1) {
					if m[1] == "Total" {
						fmt.Sscanf(m[2], "%d", &got)
					}
				}
				if res.Panic != "" || res.Code != 0 || got != want[k].total {
					o.Findings = append(o.Findings, Finding{Kind: "D", What: fmt.Sprintf("`klog total --tag %s` is not the total of the entries that carry the tag (%d)", arg, want[k].total), Impl: short(res.Stdout+res.Err+res.Panic, 300)})
				}
				o.Tags = append(o.Tags, "cli-tag")
			}
		}
	}
	return o
}
