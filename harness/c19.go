package main

import (
	"encoding/json"
	"fmt"
	"os"
	"path/filepath"
	"sort"
	"strings"
)

// C19: the bookmark database behaves as a persistent name-to-file map.

var bkNames = []string{"", "@", "work", "@work", "@@work", "default", "@default", "Ünï", "@日本", "a b", "@a b", "q\"uote", "back\\slash", "x@y", "@x@y", "tab\tname", "ü", "z", "A", "a", " sep", "new\nline", "work@", "@work@", "x@"}

type bkOp struct {
	Kind string `json:"kind"` // set, unset, clear, list, info, resolve
	Name string `json:"name"`
	Path int    `json:"path"` // index of the target file
}

func init() {
	register(&Prop{
		ID: "C19",
		Rule: "histories of 1-15 bookmark operations (set with/without name, unset of existing and unknown names, clear, list, info, and `klog total @name` / `klog total` resolving bookmarks) with names with or without `@`, several `@`, Unicode, spaces, quotes, backslashes, control characters, and target paths with spaces, quotes and non-ASCII characters; " +
			"each operation is a fresh run of the real CLI on a real config folder; after each the database file is read back. evaluations = operations; non-trivial: at least 5 operations with at least 2 distinct names; distinct = distinct histories",
		Count: func(tier string) int {
			if tier == "thorough" {
				return 60000
			}
			return 2500
		},
		Gen: func(r *Rand, idx int, tier string) map[string]any {
			n := r.Range(1, 15)
			var ops []any
			pool := []string{Pick(r, bkNames), Pick(r, bkNames), Pick(r, bkNames), Pick(r, bkNames)}
			for i := 0; i < n; i++ {
				op := bkOp{Name: Pick(r, pool), Path: r.Intn(6)}
				switch r.Weighted(6, 3, 1, 3, 2, 2) {
				case 0:
					op.Kind = "set"
				case 1:
					op.Kind = "unset"
				case 2:
					op.Kind = "clear"
				case 3:
					op.Kind = "list"
				case 4:
					op.Kind = "info"
				default:
					op.Kind = "resolve"
				}
				ops = append(ops, op)
			}
			return map[string]any{"ops": ops}
		},
		Run: runC19,
	})
}

// oracleName: the name of a bookmark as the property describes it: `@` prefixes are not part of
// the name, the unnamed bookmark is `default`.
func oracleName(s string) string {
	s = strings.TrimLeft(s, "@")
	if s == "" {
		return "default"
	}
	return s
}

func runC19(env *Env, data map[string]any) *Outcome {
	o := &Outcome{Key: hashKey(fmt.Sprint(data))}
	var ops []bkOp
	reJSON(data["ops"], &ops)
	cfgDir := filepath.Join(env.TmpDir, "cfg")
	os.RemoveAll(cfgDir)
	os.MkdirAll(cfgDir, 0755)
	dbPath := filepath.Join(cfgDir, "bookmarks.json")
	// target files (valid klog files) with awkward names
	dir := filepath.Join(env.TmpDir, "bk dir ü")
	os.MkdirAll(dir, 0755)
	dir2 := filepath.Join(env.TmpDir, "bk dir ü", "archive") // files of the SAME name in another folder are different targets
	os.MkdirAll(dir2, 0755)
	targets := []string{filepath.Join(dir, "a.klg"), filepath.Join(dir, "b c.klg"), filepath.Join(dir, "q\"uote'.klg"), filepath.Join(dir, "日本.klg"),
		filepath.Join(dir2, "a.klg"), filepath.Join(dir2, "b c.klg")}
	for i, t := range targets {
		os.WriteFile(t, []byte(fmt.Sprintf("2021-03-04\n    %dh\n", i+1)), 0644)
	}
	spec := map[string]string{} // the plain map
	var modelToks []string
	var implStates []string
	names := map[string]bool{}
	for i, op := range ops {
		o.Evals++
		o.Tags = append(o.Tags, "op:"+op.Kind)
		target := targets[op.Path%len(targets)]
		nm := op.Name
		if strings.ContainsAny(nm, "\n") && op.Kind != "set" {
			nm = strings.ReplaceAll(nm, "\n", "")
		}
		key := oracleName(nm)
		names[key] = true
		before, _ := os.ReadFile(dbPath)
		var res CLIResult
		fail := func(what, impl string) {
			o.Findings = append(o.Findings, Finding{Kind: "D", What: fmt.Sprintf("op %d (%s %q): %s", i+1, op.Kind, nm, what), Impl: short(impl, 600)})
		}
		switch op.Kind {
		case "set":
			args := []string{"bookmarks", "set", target}
			if nm != "" {
				args = append(args, nm)
			}
			res = runCLI(env, CLIOpts{}, args...)
			modelToks = append(modelToks, "set:"+hx(nm)+":"+hx(target))
			if res.Panic == "" && res.Code == 0 {
				spec[key] = target
			} else {
				fail("set fails: "+res.Panic+res.Err, "")
			}
		case "unset":
			res = runCLI(env, CLIOpts{}, "bookmarks", "unset", dashName(nm))
			modelToks = append(modelToks, "unset:"+hx(dashName(nm)))
			_, exists := spec[oracleName(dashName(nm))]
			if exists {
				if res.Code != 0 {
					fail("unset of an existing bookmark fails", res.Err)
				}
				delete(spec, oracleName(dashName(nm)))
			} else {
				after, _ := os.ReadFile(dbPath)
				if res.Code == 0 {
					fail("unset of an unknown name reports success", "")
				} else if string(after) != string(before) {
					fail("failed unset changed the database", string(after))
				}
			}
		case "clear":
			res = runCLI(env, CLIOpts{}, "bookmarks", "clear", "--yes")
			modelToks = append(modelToks, "clear")
			if res.Code != 0 {
				fail("clear fails", res.Err)
			}
			spec = map[string]string{}
		case "list":
			res = runCLI(env, CLIOpts{}, "bookmarks", "list")
			var want []string
			var keys []string
			for k := range spec {
				keys = append(keys, k)
			}
			sort.Strings(keys)
			for _, k := range keys {
				want = append(want, "@"+k+" -> "+spec[k])
			}
			w := strings.Join(want, "\n") + "\n"
			if len(spec) == 0 {
				w = "There are no bookmarks defined yet.\n"
			}
			if res.Stdout != w {
				fail("`bookmarks list` differs from the map, ordered by name", res.Stdout+" | want "+w)
			}
		case "info":
			res = runCLI(env, CLIOpts{}, "bookmarks", "info", dashName(nm))
			p, exists := spec[oracleName(dashName(nm))]
			if exists && strings.TrimSuffix(res.Stdout, "\n") != p {
				fail("`bookmarks info` differs from the map", res.Stdout+" | want "+p)
			}
			if !exists && res.Code == 0 {
				fail("`bookmarks info` of an unknown name succeeds", res.Stdout)
			}
		case "resolve":
			// as typed: the name with its own `@` prefix(es) (one is added if it has none); a bare
			// `@` and no argument at all both mean the unnamed (default) bookmark
			arg := nm
			if !strings.HasPrefix(arg, "@") {
				arg = "@" + arg
			}
			args := []string{"total", "--decimal", "--no-style", "--no-warn", arg}
			if len(nm) == 0 && i%2 == 0 {
				args = args[:len(args)-1] // no argument: the default bookmark
			}
			res = runCLI(env, CLIOpts{Now: mkTime(2021, 3, 4, 12, 0)}, args...)
			p, exists := spec[oracleName(nm)]
			if exists {
				idx := -1
				for k, t := range targets {
					if t == p {
						idx = k
					}
				}
				if !strings.Contains(res.Stdout, fmt.Sprintf("Total: %d\n", (idx+1)*60)) {
					fail("`klog total "+arg+"` does not read the bookmarked file", res.Stdout+res.Err)
				}
			} else if res.Code == 0 {
				fail("resolving an unknown bookmark succeeds", res.Stdout)
			}
		}
		if res.Panic != "" {
			fail("panics: "+res.Panic, "")
			break
		}
		// the database file can always be read back to exactly that map (independent JSON reader)
		after, _ := os.ReadFile(dbPath)
		got := map[string]string{}
		if len(after) > 0 {
			var arr []struct{ Name, Path string }
			if err := json.Unmarshal(after, &arr); err != nil {
				fail("bookmarks.json is not valid JSON: "+err.Error(), string(after))
				break
			}
			for _, e := range arr {
				got[e.Name] = e.Path
			}
		}
		if fmt.Sprint(got) != fmt.Sprint(spec) {
			fail("the database file does not hold the map", fmt.Sprint(got)+" | want "+fmt.Sprint(spec))
			break
		}
		if op.Kind == "set" || op.Kind == "unset" || op.Kind == "clear" {
			st := "fail"
			if res.Code == 0 {
				st = "ok:" + hx(string(after))
			}
			implStates = append(implStates, st)
		}
		if len(o.Findings) > 0 {
			break
		}
	}
	if len(modelToks) > 0 && len(o.Findings) == 0 {
		model := env.Drv.Ask(append([]string{"bkhist"}, modelToks...)...)
		if model != strings.Join(implStates, " ") {
			o.Findings = append(o.Findings, Finding{Kind: "K", What: "K.C19.bkhist: database file contents differ from the model after a set/unset/clear", Impl: short(strings.Join(implStates, " "), 2000), Model: short(model, 2000)})
		}
	}
	o.Nontrivial = len(ops) >= 5 && len(names) >= 2
	o.Sample = map[string]any{"ops": ops}
	return o
}

// a name that starts with `-` would be taken for a flag
func dashName(s string) string {
	if strings.HasPrefix(s, "-") {
		return "@" + s
	}
	if s == "" {
		return "@"
	}
	return s
}
