module klogv

go 1.24

require github.com/jotaen/klog v0.0.0

require (
	cloud.google.com/go v0.118.2 // indirect
	github.com/alecthomas/kong v1.8.0 // indirect
	github.com/hashicorp/errwrap v1.1.0 // indirect
	github.com/hashicorp/go-multierror v1.1.1 // indirect
	github.com/jotaen/genie v0.0.1 // indirect
	github.com/jotaen/kong-completion v0.0.6 // indirect
	github.com/jotaen/safemath v0.0.1 // indirect
	github.com/kballard/go-shellquote v0.0.0-20180428030007-95032a82bc51 // indirect
	github.com/posener/complete v1.2.3 // indirect
	github.com/riywo/loginshell v0.0.0-20200815045211-7d26008be1ab // indirect
)

replace github.com/jotaen/klog => /repo
