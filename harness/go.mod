module klogv

go 1.24

require github.com/jotaen/klog v0.0.0

require (
	cloud.google.com/go v0.118.2 // indirect
	github.com/jotaen/genie v0.0.1 // indirect
	github.com/jotaen/safemath v0.0.1 // indirect
	github.com/kballard/go-shellquote v0.0.0-20180428030007-95032a82bc51 // indirect
)

replace github.com/jotaen/klog => /repo
