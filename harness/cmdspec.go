package main

import (
	"fmt"
	"os"
	"regexp"
	"strings"
	gotime "time"

	cliutil "github.com/jotaen/klog/klog/app/cli/util"
)

// CmdSpec is a mutating command at command-line level; it can be rendered as CLI arguments for
// the real klog and as tokens for the Lean driver's `cmd` op.
type CmdSpec struct {
	Kind        string   `json:"kind"`
	DateSel     string   `json:"date,omitempty"` // def|today|yesterday|tomorrow|d:<date text>
	Time        string   `json:"time,omitempty"`
	Round       int      `json:"round,omitempty"`
	Summary     []string `json:"summary,omitempty"`
	HasSummary  bool     `json:"has_summary,omitempty"`
	Resume      bool     `json:"resume,omitempty"`
	ResumeNth   int      `json:"resume_nth,omitempty"`
	Entry       []string `json:"entry,omitempty"`
	Should      string   `json:"should,omitempty"`
	ShouldMins  int      `json:"should_mins,omitempty"`
	ShouldAlias bool     `json:"should_alias,omitempty"` // spelled --should-total
	NoTags      bool     `json:"no_tags,omitempty"`
	Extend      bool     `json:"extend,omitempty"`
	Ticks       []int    `json:"ticks,omitempty"`
}

type CfgSpec struct {
	Round      int    `json:"round,omitempty"`
	Should     string `json:"should,omitempty"`
	ShouldMins int    `json:"should_mins,omitempty"`
	Dashes     string `json:"dashes,omitempty"` // "", "1", "0"
	T24        string `json:"t24,omitempty"`
}

func (c CfgSpec) Ini() string {
	var sb strings.Builder
	if c.Round > 0 {
		fmt.Fprintf(&sb, "default_rounding = %dm\n", c.Round)
	}
	if c.Should != "" {
		fmt.Fprintf(&sb, "default_should_total = %s!\n", c.Should)
	}
	if c.Dashes == "1" {
		sb.WriteString("date_format = YYYY-MM-DD\n")
	} else if c.Dashes == "0" {
		sb.WriteString("date_format = YYYY/MM/DD\n")
	}
	if c.T24 == "1" {
		sb.WriteString("time_convention = 24h\n")
	} else if c.T24 == "0" {
		sb.WriteString("time_convention = 12h\n")
	}
	return sb.String()
}

func (c CfgSpec) Tokens() []string {
	var t []string
	if c.Round > 0 {
		t = append(t, fmt.Sprintf("round=%d", c.Round))
	}
	if c.Should != "" {
		t = append(t, fmt.Sprintf("should=%d", c.ShouldMins))
	}
	if c.Dashes != "" {
		t = append(t, "dashes="+c.Dashes)
	}
	if c.T24 != "" {
		t = append(t, "t24="+c.T24)
	}
	return t
}

func hexLines(ls []string) string {
	xs := make([]string, len(ls))
	for i, l := range ls {
		xs[i] = hx(l)
	}
	return strings.Join(xs, ",")
}

func optHexLines(has bool, ls []string) string {
	if !has {
		return "~"
	}
	return hexLines(ls)
}

func (c CmdSpec) dateFlags() []string {
	switch {
	case c.DateSel == "today":
		return []string{"--today"}
	case c.DateSel == "yesterday":
		return []string{"--yesterday"}
	case c.DateSel == "tomorrow":
		return []string{"--tomorrow"}
	case strings.HasPrefix(c.DateSel, "d:"):
		return []string{"--date=" + c.DateSel[2:]}
	}
	return nil
}

func (c CmdSpec) timeFlags() []string {
	var a []string
	if c.Time != "" {
		a = append(a, "--time="+c.Time)
	}
	if c.Round > 0 {
		a = append(a, fmt.Sprintf("--round=%dm", c.Round))
	}
	return a
}

func (c CmdSpec) summaryFlags() []string {
	var a []string
	if c.HasSummary {
		a = append(a, "--summary="+strings.Join(c.Summary, "\n"))
	}
	if c.Resume {
		a = append(a, "--resume")
	}
	if c.ResumeNth != 0 {
		a = append(a, fmt.Sprintf("--resume-nth=%d", c.ResumeNth))
	}
	return a
}

func (c CmdSpec) CLIArgs(file string) []string {
	a := []string{c.Kind}
	switch c.Kind {
	case "track":
		e := strings.Join(c.Entry, "\n")
		if strings.HasPrefix(e, "-") {
			e = "\\" + e
		}
		a = append(a, e)
		a = append(a, c.dateFlags()...)
	case "create":
		if c.Should != "" {
			if c.ShouldAlias {
				a = append(a, "--should-total="+c.Should+"!")
			} else {
				a = append(a, "--should="+c.Should+"!")
			}
		}
		if c.HasSummary {
			a = append(a, "--summary="+strings.Join(c.Summary, "\n"))
		}
		a = append(a, c.dateFlags()...)
	case "start", "switch":
		a = append(a, c.dateFlags()...)
		a = append(a, c.timeFlags()...)
		a = append(a, c.summaryFlags()...)
	case "stop":
		a = append(a, c.dateFlags()...)
		a = append(a, c.timeFlags()...)
		if c.HasSummary {
			a = append(a, "--summary="+strings.Join(c.Summary, "\n"))
		}
	case "pause":
		if c.HasSummary {
			a = append(a, "--summary="+strings.Join(c.Summary, "\n"))
		}
		if c.NoTags {
			a = append(a, "--no-tags")
		}
		if c.Extend {
			a = append(a, "--extend")
		}
	}
	// warnings are computed (and can fail) after the file is written: half of the commands run with them
	if (len(c.Kind)+len(c.Summary)+len(c.Time)+len(c.DateSel))%2 == 0 {
		a = append(a, "--no-warn")
	}
	return append(a, "--no-style", file)
}

func dash(s string) string {
	if s == "" {
		return "~"
	}
	return s
}

func (c CmdSpec) ModelTokens() []string {
	ds := c.DateSel
	if ds == "" {
		ds = "def"
	}
	t := "~"
	if c.Time != "" {
		t = hx(c.Time)
	}
	r := "~"
	if c.Round > 0 {
		r = fmt.Sprint(c.Round)
	}
	switch c.Kind {
	case "track":
		return []string{"track", ds, hexLines(c.Entry)}
	case "create":
		sh := "~"
		if c.Should != "" {
			sh = fmt.Sprint(c.ShouldMins)
		}
		return []string{"create", ds, sh, optHexLines(c.HasSummary, c.Summary)}
	case "start", "switch":
		return []string{c.Kind, ds, t, r, optHexLines(c.HasSummary, c.Summary), b01(c.Resume), fmt.Sprint(c.ResumeNth)}
	case "stop":
		return []string{"stop", ds, t, r, optHexLines(c.HasSummary, c.Summary)}
	case "pause":
		ticks := "~"
		if len(c.Ticks) > 0 {
			xs := make([]string, len(c.Ticks))
			for i, k := range c.Ticks {
				xs[i] = fmt.Sprint(k)
			}
			ticks = strings.Join(xs, ",")
		}
		return []string{"pause", optHexLines(c.HasSummary, c.Summary), b01(c.NoTags), b01(c.Extend), ticks}
	}
	return []string{"bad"}
}

type CmdResult struct {
	Code    int
	Err     string
	Panic   string
	After   string // file contents afterwards
	Stdout  string
	Outcome string // "ok <hex>" | "fail" | "panic" | "fail-but-changed <hex>"
	Written bool   // the file's mtime changed
}

// runCommand executes a mutating command through the real CLI on a real file.
func runCommand(env *Env, text string, cfg CfgSpec, now []int, c CmdSpec, cpus int) CmdResult {
	file := writeFile(env, "target.klg", text)
	past := gotime.Now().Add(-2 * gotime.Hour)
	os.Chtimes(file, past, past)
	t0 := mkTime(now[0], now[1], now[2], now[3], now[4])
	opts := CLIOpts{Config: cfg.Ini(), Now: t0, Cpus: cpus}
	if c.Kind == "pause" {
		// the pause starts somewhere inside a minute: elapsed WHOLE minutes, not minute boundaries crossed, are what counts
		t0 = t0.Add(gotime.Duration((now[3]*13+now[4]*7+len(text))%60) * gotime.Second)
		opts.Now = t0
		script := []gotime.Time{t0, t0}
		for i, d := range c.Ticks {
			secs := d*60 + (i*7)%60
			if d < 0 {
				secs = d*60 - (i*7)%60
			}
			script = append(script, t0.Add(gotime.Duration(secs)*gotime.Second))
		}
		opts.Script = script
		n := int64(len(c.Ticks))
		cliutil.VerifInterval = gotime.Microsecond
		cliutil.VerifRepeatDone = func(done int64) bool { return done >= n }
		defer func() { cliutil.VerifRepeatDone = nil }()
	}
	res := runCLI(env, opts, c.CLIArgs(file)...)
	after, _ := os.ReadFile(file)
	r := CmdResult{Code: res.Code, Err: res.Err, Panic: res.Panic, After: string(after), Stdout: res.Stdout}
	if st, err := os.Stat(file); err == nil && st.ModTime().After(past.Add(gotime.Hour)) {
		r.Written = true
	}
	switch {
	case res.Panic != "":
		r.Outcome = "panic"
	case res.Code == 0:
		r.Outcome = "ok " + hx(r.After)
	case r.After != text:
		r.Outcome = "fail-but-changed " + hx(r.After)
	default:
		r.Outcome = "fail"
	}
	return r
}

func modelCommand(env *Env, text string, cfg CfgSpec, now []int, c CmdSpec) string {
	args := []string{"cmd", hx(text), fmt.Sprint(now[0]), fmt.Sprint(now[1]), fmt.Sprint(now[2]), fmt.Sprint(now[3]), fmt.Sprint(now[4])}
	args = append(args, cfg.Tokens()...)
	args = append(args, "--")
	args = append(args, c.ModelTokens()...)
	return env.Drv.Ask(args...)
}

var reLongDigits = regexp.MustCompile(`[0-9]{18,}`)

// cpusFor: the number of CPUs klog is told it has (1 = serial parser, more = parallel parser with
// that many workers), varied with the text; texts with numbers of 18 or more digits (D1/D2: the
// parser panics, in a goroutine of the parallel parser) stay with the serial parser.
func cpusFor(text string) int {
	if reLongDigits.MatchString(text) {
		return 1
	}
	return 1 + len(text)%3
}
