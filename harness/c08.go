package main

import (
	"fmt"
	"github.com/jotaen/klog/klog/app"
	"strings"

	"github.com/jotaen/klog/klog"
	"github.com/jotaen/klog/klog/parser"
	"github.com/jotaen/klog/klog/parser/reconciling"
	"github.com/jotaen/klog/klog/parser/txt"
)

// token alphabet of klog fragments for byte-level generators
var tokenAlphabet = []string{"2020-01-01", "\n", "    ", "\t", "1h", "8:00", "-", "?", " ", "(", "!", ")", "#t", "\r",
	"\xff", " ", "99999999999999999999", "  ", "x", "\r\n", "2020-01-02", "9:00", "\xe4\xb8", "0m", "foo"}

// GenLayout produces arbitrary text with interesting line structure (valid or not).
func GenLayout(r *Rand) string {
	var sb strings.Builder
	n := r.Range(0, 14)
	for i := 0; i < n; i++ {
		sb.WriteString(Pick(r, tokenAlphabet))
	}
	return sb.String()
}

// GenBytes produces raw bytes.
func GenBytes(r *Rand) string {
	n := r.Range(0, 24)
	b := make([]byte, n)
	for i := range b {
		switch r.Weighted(3, 2, 2, 1) {
		case 0:
			b[i] = byte(r.Intn(256))
		case 1:
			b[i] = "\n\r \t"[r.Intn(4)]
		case 2:
			b[i] = "0123456789-:/hm?()!#ab<>"[r.Intn(24)]
		default:
			b[i] = byte(0x80 + r.Intn(0x80))
		}
	}
	return string(b)
}

// enumerate all strings of length ≤ k over an alphabet: index -> string
func enumString(alpha []string, idx int) string {
	// lengths 0,1,2,...: counts 1, a, a^2, ...
	a := len(alpha)
	l, block := 0, 1
	for idx >= block {
		idx -= block
		block *= a
		l++
	}
	parts := make([]string, l)
	for i := l - 1; i >= 0; i-- {
		parts[i] = alpha[idx%a]
		idx /= a
	}
	return strings.Join(parts, "")
}

func enumCount(a, k int) int {
	t, b := 0, 1
	for i := 0; i <= k; i++ {
		t += b
		b *= a
	}
	return t
}

var c08Alpha = []string{"a", " ", "\t", "\r", "\n", "\xff"}

func init() {
	register(&Prop{
		ID: "C08",
		Rule: "texts: (a) all byte strings up to length 6 (quick) / 7 (thorough) over {a,space,tab,CR,LF,0xff}, enumerated exhaustively; " +
			"(b) DocGen valid documents; (c) random token layouts and raw bytes. A case is non-trivial when the text has at least two lines and at least one significant line; distinct = distinct texts",
		Count: func(tier string) int {
			if tier == "thorough" {
				return enumCount(6, 7) + 400000
			}
			return enumCount(6, 6) + 12000
		},
		Gen: func(r *Rand, idx int, tier string) map[string]any {
			k := 6
			if tier == "thorough" {
				k = 7
			}
			if idx < enumCount(6, k) {
				return map[string]any{"text": hx(enumString(c08Alpha, idx)), "src": "enum"}
			}
			switch r.Weighted(5, 3, 2) {
			case 0:
				return map[string]any{"text": hx(GenDoc(r, DocOpts{}).Text), "src": "docgen"}
			case 1:
				return map[string]any{"text": hx(GenLayout(r)), "src": "layout"}
			default:
				return map[string]any{"text": hx(GenBytes(r)), "src": "bytes"}
			}
		},
		Run: runC08,
	})
}

func runC08(env *Env, data map[string]any) *Outcome {
	text := textOf(data, "text")
	o := &Outcome{Key: hashKey(text), Tags: []string{"src:" + str(data, "src")}}
	impl, pmsg := implBlocks(text)
	model := env.Drv.Ask("blocks", hx(text))
	if impl != model {
		o.Findings = append(o.Findings, Finding{Kind: "K", What: "K.C08.blocks: block structure differs" + pmsgNote(pmsg), Impl: impl, Model: model})
	}
	// the translated Go source of ParseBlock / SignificantLines (Gen/GoTxt.lean) evaluated against the running code
	if d := gsDriver(env); d != nil {
		gimpl := impl
		if pmsg == "" {
			var sigs []string
			safely(func() {
				total, lines := 0, 0
				for {
					b, n := txt.ParseBlock(text[total:], lines)
					if n == 0 || b == nil {
						break
					}
					total += n
					lines += len(b.Lines())
					sg, hc, tc := b.SignificantLines()
					sigs = append(sigs, fmt.Sprintf("%d/%d/%d", len(sg), hc, tc))
				}
			})
			gimpl = impl + " sig=" + strings.Join(sigs, ",")
		}
		if gm := d.Ask("gs.blocks", hx(text)); gm != gimpl {
			o.Findings = append(o.Findings, Finding{Kind: "K", What: "K.gosrc.blocks: the Go source of ParseBlock / SignificantLines as translated into Lean (Gen/GoTxt.lean) differs from the running code", Impl: gimpl, Model: gm})
		}
	}
	// D: the property itself, evaluated on the implementation's own blocks.
	var bs []txt.Block
	dPanic := safely(func() {
		total, lines := 0, 0
		for {
			b, n := txt.ParseBlock(text[total:], lines)
			if n == 0 || b == nil {
				break
			}
			total += n
			lines += len(b.Lines())
			bs = append(bs, b)
		}
	})
	if dPanic != "" {
		o.Findings = append(o.Findings, Finding{Kind: "D", What: "reading the text panics: " + dPanic, Impl: "panic"})
		return o
	}
	if v := checkBlocksReproduce(text, bs); v != "" {
		o.Findings = append(o.Findings, Finding{Kind: "D", What: v, Impl: impl})
	}
	nl := strings.Count(text, "\n")
	o.Nontrivial = nl >= 1 && len(bs) > 0
	o.Tags = append(o.Tags, fmt.Sprintf("blocks:%d", min(len(bs), 4)))
	if strings.Contains(text, "\r\n") {
		o.Tags = append(o.Tags, "has-crlf")
	}
	if !strings.HasSuffix(text, "\n") && text != "" {
		o.Tags = append(o.Tags, "no-final-newline")
	}
	// the file-reading layer: what klog reads from a file on disk is the file's bytes (for every byte sequence)
	{
		fp := writeFile(env, "c08-read.klg", text)
		if f, ferr := app.NewFile(fp); ferr == nil {
			got, rerr := app.ReadFile(f)
			o.Evals++
			if rerr != nil {
				o.Findings = append(o.Findings, Finding{Kind: "D", What: "reading the file fails: " + rerr.Error()})
			} else if got != text {
				o.Findings = append(o.Findings, Finding{Kind: "D", What: "reading a file does not return the file's bytes (app.ReadFile)", Impl: hx(short(got, 400))})
			}
		}
	}
	// For valid texts: the parser's blocks and a no-op reconcile.
	var valid bool
	safely(func() {
		rs, pbs, errs := parser.NewSerialParser().Parse(text)
		if errs == nil {
			valid = true
			o.Tags = append(o.Tags, "valid")
			if v := checkBlocksReproduce(text, pbs); v != "" {
				o.Findings = append(o.Findings, Finding{Kind: "D", What: "parser blocks: " + v, Impl: canonBlocks(pbs)})
			}
			if len(pbs) != len(rs) {
				o.Findings = append(o.Findings, Finding{Kind: "D", What: fmt.Sprintf("%d records but %d blocks", len(rs), len(pbs))})
			}
			if len(rs) > 0 {
				rec := reconciling.NewReconcilerAtRecord(rs[len(rs)-1].Date())(rs, pbs)
				if rec != nil {
					res, err := rec.MakeResult()
					if err != nil {
						o.Findings = append(o.Findings, Finding{Kind: "D", What: "no-op reconcile refused: " + err.Error()})
					} else if res.AllSerialised != text {
						o.Findings = append(o.Findings, Finding{Kind: "D", What: "no-op reconcile changed the file", Impl: hx(res.AllSerialised)})
					} else {
						o.Tags = append(o.Tags, "noop-reconcile-identical")
					}
				}
			}
		}
	})
	// the same on the blocks of the parallel parser (what klog uses on a multi-core machine)
	if valid {
		for _, n := range []int{2, 3, 5} {
			var prs []klog.Record
			var ppbs []txt.Block
			var perrs []txt.Error
			if p := safely(func() { prs, ppbs, perrs = parser.NewParallelParser(n).Parse(text) }); p != "" {
				o.Findings = append(o.Findings, Finding{Kind: "D", What: fmt.Sprintf("parallel parser (%d workers) panics: %s", n, p)})
				break
			}
			o.Evals++
			if perrs != nil {
				o.Findings = append(o.Findings, Finding{Kind: "D", What: fmt.Sprintf("parallel parser (%d workers) rejects a text the serial parser accepts", n), Impl: canonErrs(perrs)})
				break
			}
			if v := checkBlocksReproduce(text, ppbs); v != "" {
				o.Findings = append(o.Findings, Finding{Kind: "D", What: fmt.Sprintf("parallel parser (%d workers) blocks: %s", n, v), Impl: canonBlocks(ppbs)})
				break
			}
			if len(ppbs) != len(prs) {
				o.Findings = append(o.Findings, Finding{Kind: "D", What: fmt.Sprintf("parallel parser (%d workers): %d records but %d blocks", n, len(prs), len(ppbs))})
				break
			}
		}
	}
	if str(data, "src") != "enum" {
		o.Sample = map[string]any{"text": short(text, 120)}
	}
	return o
}

func pmsgNote(p string) string {
	if p == "" {
		return ""
	}
	return " (implementation panicked: " + p + ")"
}

// checkBlocksReproduce is the statement of C08 on a list of blocks.
func checkBlocksReproduce(text string, bs []txt.Block) string {
	var sb strings.Builder
	lineCount := 0
	for i, b := range bs {
		if b.OverallLineIndex(0) != lineCount {
			return fmt.Sprintf("block %d starts at line index %d, expected %d (line numbers not consecutive)", i, b.OverallLineIndex(0), lineCount)
		}
		mode := 0 // 0 leading blanks, 1 significant, 2 trailing blanks
		sig := 0
		for j, l := range b.Lines() {
			sb.WriteString(l.Original())
			blank := l.IsBlank()
			switch mode {
			case 0:
				if !blank {
					mode = 1
					sig++
				} else if i > 0 {
					return fmt.Sprintf("block %d has a leading blank line (line %d) although it is not the first block", i, j)
				}
			case 1:
				if blank {
					mode = 2
				} else {
					sig++
				}
			case 2:
				if !blank {
					return fmt.Sprintf("block %d contains two groups of significant lines", i)
				}
			}
		}
		if sig == 0 {
			return fmt.Sprintf("block %d has no significant line", i)
		}
		lineCount += len(b.Lines())
	}
	if len(bs) == 0 {
		for _, c := range strings.ReplaceAll(text, "\r\n", "\n") {
			if c != ' ' && c != '\t' && c != '\n' {
				return "no blocks although the text is not blank"
			}
		}
		return ""
	}
	if sb.String() != text {
		return "concatenated block lines differ from the input"
	}
	return ""
}
