package main

import (
	"fmt"
	"sort"
	"strings"
)

// C13: filters and sorting, through the real CLI (`klog print --no-style --no-warn <flags> FILE`).

type gFlags struct {
	cli   []string // command line flags
	model []string // tokens for the driver's `filter` op
	// oracle clauses
	dateOK func(a ymd) bool
	tags   []specTag
	etype  string
	sort   string
	desc   string
	reject bool // the flags must be refused (a period that does not exist)
}

func periodKeyOracle(kind string, a ymd) string {
	switch kind {
	case "week":
		y, w := oracleIsoWeek(a.y, a.m, a.d)
		return fmt.Sprintf("%d-W%d", y, w)
	case "month":
		return fmt.Sprintf("%d-%d", a.y, a.m)
	case "quarter":
		return fmt.Sprintf("%d-Q%d", a.y, (a.m+2)/3)
	case "year":
		return fmt.Sprint(a.y)
	}
	return a.String()
}

func cmpYMD(a, b ymd) int {
	if a.y != b.y {
		return a.y - b.y
	}
	if a.m != b.m {
		return a.m - b.m
	}
	return a.d - b.d
}

// previous period key of `today` by the calendar: the period that ends the day before the
// period of `today` begins.
func previousPeriodKey(kind string, today ymd) string {
	// walk back day by day until the key changes
	k := periodKeyOracle(kind, today)
	a := today
	for periodKeyOracle(kind, a) == k {
		a = a.prev()
	}
	return periodKeyOracle(kind, a)
}

func genFlags(r *Rand, doc *GDoc, today ymd, force string) *gFlags {
	f := &gFlags{dateOK: func(ymd) bool { return true }}
	var recDates []ymd
	for _, rec := range doc.Records {
		recDates = append(recDates, ymd{rec.Y, rec.M, rec.D})
	}
	pickDate := func() ymd {
		if r.P(1, 40) { // the ends of the calendar (`--after 9999-12-31`, `--before 0000-01-01`: D21)
			return Pick(r, []ymd{{0, 1, 1}, {9999, 12, 31}, {0, 1, 2}, {9999, 12, 30}})
		}
		if len(recDates) > 0 && r.P(3, 4) {
			a := Pick(r, recDates)
			switch r.Weighted(4, 1, 1) {
			case 1:
				if b, ok := a.plus(1); ok {
					a = b
				}
			case 2:
				if b, ok := a.plus(-1); ok {
					a = b
				}
			}
			return a
		}
		y, m, d := genDate(r)
		return ymd{y, m, d}
	}
	ds := func(a ymd) string {
		if r.P(1, 4) {
			return fmt.Sprintf("%04d/%02d/%02d", a.y, a.m, a.d)
		}
		return a.String()
	}
	add := func(flag, val, mtok string) {
		f.cli = append(f.cli, flag+"="+val)
		f.model = append(f.model, mtok)
	}
	clause := r.Weighted(2, 2, 2, 2, 2, 2, 3, 2, 4)
	if force != "" {
		clause = 8
	}
	switch clause {
	case 0:
	case 1:
		a := pickDate()
		add("--date", ds(a), "date="+a.String())
		f.dateOK = func(x ymd) bool { return cmpYMD(x, a) == 0 }
		f.desc = "date"
	case 2:
		a := pickDate()
		add("--since", ds(a), "since="+a.String())
		f.dateOK = func(x ymd) bool { return cmpYMD(x, a) >= 0 }
		f.desc = "since"
		if r.P(1, 2) {
			b := pickDate()
			add("--until", ds(b), "until="+b.String())
			f.dateOK = func(x ymd) bool { return cmpYMD(x, a) >= 0 && cmpYMD(x, b) <= 0 }
			f.desc = "since+until"
		}
	case 3:
		a := pickDate()
		add("--until", ds(a), "until="+a.String())
		f.dateOK = func(x ymd) bool { return cmpYMD(x, a) <= 0 }
		f.desc = "until"
	case 4:
		a := pickDate()
		add("--after", ds(a), "after="+a.String())
		f.dateOK = func(x ymd) bool { return cmpYMD(x, a) > 0 }
		f.desc = "after"
	case 5:
		a := pickDate()
		add("--before", ds(a), "before="+a.String())
		f.dateOK = func(x ymd) bool { return cmpYMD(x, a) < 0 }
		f.desc = "before"
	case 6:
		a := pickDate()
		kind := Pick(r, []string{"week", "month", "quarter", "year"})
		var pat string
		switch kind {
		case "week":
			y, w := oracleIsoWeek(a.y, a.m, a.d)
			if y < 0 || y > 9999 || (y == 9999 && w >= 52) || (y == 0 && w <= 1) {
				y, w = 2021, 7
			}
			pat = fmt.Sprintf("%04d-W%02d", y, w)
			if r.P(1, 3) {
				pat = fmt.Sprintf("%04d-W%d", y, w)
			}
			key := fmt.Sprintf("%d-W%d", y, w)
			f.dateOK = func(x ymd) bool { return periodKeyOracle("week", x) == key }
		case "month":
			pat = fmt.Sprintf("%04d-%02d", a.y, a.m)
			f.dateOK = func(x ymd) bool { return x.y == a.y && x.m == a.m }
		case "quarter":
			pat = fmt.Sprintf("%04d-Q%d", a.y, (a.m+2)/3)
			f.dateOK = func(x ymd) bool { return x.y == a.y && (x.m+2)/3 == (a.m+2)/3 }
		default:
			pat = fmt.Sprintf("%04d", a.y)
			f.dateOK = func(x ymd) bool { return x.y == a.y }
		}
		if r.P(1, 6) { // a period that does not exist: rejected, never rolled over into the next one
			y := a.y
			if y < 1 || y > 9998 {
				y = 2021
			}
			bad := []string{fmt.Sprintf("%04d-W00", y), fmt.Sprintf("%04d-W54", y), fmt.Sprintf("%04d-13", y), fmt.Sprintf("%04d-00", y), fmt.Sprintf("%04d-Q5", y), fmt.Sprintf("%04d-Q0", y)}
			if _, w := oracleIsoWeek(y, 12, 28); w == 52 { // 28 December is always in the last ISO week
				bad = append(bad, fmt.Sprintf("%04d-W53", y), fmt.Sprintf("%04d-W53", y))
			}
			pat = Pick(r, bad)
			f.reject = true
			kind = "nonexistent"
		}
		add("--period", pat, "period="+hx(pat))
		f.desc = "period:" + kind
	case 7:
		which := Pick(r, []string{"today", "yesterday", "tomorrow"})
		f.cli = append(f.cli, "--"+which)
		f.model = append(f.model, which)
		t := today
		if which == "yesterday" {
			t = today.prev()
		} else if which == "tomorrow" {
			t = today.next()
		}
		f.dateOK = func(x ymd) bool { return cmpYMD(x, t) == 0 }
		f.desc = which
	default:
		kind := Pick(r, []string{"week", "month", "quarter", "year"})
		last := r.P(1, 2)
		if force != "" {
			kind, last = force, r.P(3, 4)
		}
		name := "this"
		if last {
			name = "last"
		}
		flag := "--" + name + "-" + kind
		if r.P(1, 4) {
			flag = "--" + name + kind
		}
		f.cli = append(f.cli, flag)
		f.model = append(f.model, name+"="+kind)
		key := periodKeyOracle(kind, today)
		if last {
			key = previousPeriodKey(kind, today)
		}
		f.dateOK = func(x ymd) bool { return periodKeyOracle(kind, x) == key }
		f.desc = name + "-" + kind
	}
	// tag clauses
	if r.P(1, 2) {
		var pool []specTag
		for _, rec := range doc.Records {
			for _, l := range rec.Summary {
				pool = append(pool, specTags(l)...)
			}
			for _, e := range rec.Entries {
				for _, l := range e.Summary {
					pool = append(pool, specTags(l)...)
				}
			}
		}
		pool = append(pool, specTag{"tag", ""}, specTag{"nope", ""}, specTag{"tag", "val"}, specTag{"a", "1"})
		n := 1
		if r.P(1, 4) {
			n = 2
		}
		for i := 0; i < n; i++ {
			t := Pick(r, pool)
			if r.P(1, 3) {
				t.value = ""
			}
			if strings.ContainsAny(t.value, "\"'") || strings.ContainsAny(t.name+t.value, "\x00") {
				t.value = ""
			}
			s := "#" + t.name
			if r.P(1, 3) {
				s = "#" + strings.ToUpper(t.name)
			}
			if t.value != "" {
				q := ""
				for _, c := range t.value {
					if !isNameRune(c) {
						q = "\""
					}
				}
				s += "=" + q + t.value + q
			}
			add("--tag", strings.ReplaceAll(s, ",", "\\,"), "tag="+hx(s)) // kong splits a list flag at unescaped commas
			f.tags = append(f.tags, t)
		}
		f.desc += "+tag"
	}
	if r.P(1, 3) {
		f.etype = Pick(r, []string{"range", "open-range", "duration", "duration-positive", "duration-negative"})
		v := f.etype
		if r.P(1, 3) {
			v = strings.ToUpper(strings.ReplaceAll(v, "-", "_"))
		}
		add("--entry-type", v, "etype="+f.etype)
		f.desc += "+type"
	}
	if r.P(1, 3) {
		f.sort = Pick(r, []string{"asc", "desc", "ASC", "DESC"})
		add("--sort", f.sort, "sort="+strings.ToLower(f.sort))
		f.sort = strings.ToLower(f.sort)
		f.desc += "+sort"
	}
	return f
}

func entryTypeMatches(t string, e GEntry) bool {
	switch t {
	case "range":
		return e.Kind == "range"
	case "open-range":
		return e.Kind == "open"
	case "duration":
		return e.Kind == "dur"
	case "duration-positive":
		return e.Kind == "dur" && e.Mins >= 0
	case "duration-negative":
		return e.Kind == "dur" && e.Mins < 0
	}
	return true
}

func hasAllTags(q []specTag, have []specTag) bool {
	look := map[string]bool{}
	for _, k := range specLookup(have) {
		look[k] = true
	}
	for _, t := range q {
		if !look[t.name+"="+t.value] {
			return false
		}
	}
	return true
}

// oracleFilter: the records (canonical) the clauses select, by the property's statement.
func oracleFilter(doc *GDoc, f *gFlags) []string {
	var res []string
	for _, rec := range doc.Records {
		if !f.dateOK(ymd{rec.Y, rec.M, rec.D}) {
			continue
		}
		out := rec
		if len(f.tags) > 0 {
			var rt []specTag
			for _, l := range rec.Summary {
				rt = append(rt, specTags(l)...)
			}
			if !hasAllTags(f.tags, rt) {
				var es []GEntry
				for _, e := range rec.Entries {
					et := append([]specTag(nil), rt...)
					for _, l := range e.Summary {
						et = append(et, specTags(l)...)
					}
					if hasAllTags(f.tags, et) {
						es = append(es, e)
					}
				}
				if len(es) == 0 {
					continue
				}
				out.Entries = es
			}
		}
		if f.etype != "" {
			var es []GEntry
			for _, e := range out.Entries {
				if entryTypeMatches(f.etype, e) {
					es = append(es, e)
				}
			}
			if len(es) == 0 {
				continue
			}
			out.Entries = es
		}
		res = append(res, out.Canon())
	}
	return res
}

func init() {
	register(&Prop{
		ID: "C13",
		Rule: "DocGen documents x one date clause (--date/--since[/--until]/--until/--after/--before/--period of each kind/--today,--yesterday,--tomorrow/--this-*,--last-* incl. aliases) with boundary dates taken from the records (+-1 day), " +
			"x 0-2 tag clauses (tags of the document, with/without value, any case) x optional --entry-type x optional --sort; reference dates on/around record dates incl. year and ISO-week-year boundaries; run through the real CLI. " +
			"Non-trivial: the filter selects at least one but not all records, or reduces the entries of a record; distinct = distinct (text, flags, today)",
		Count: func(tier string) int {
			if tier == "thorough" {
				return 200000
			}
			return 9000
		},
		Gen: func(r *Rand, idx int, tier string) map[string]any {
			opts := DocOpts{CleanText: true}
			if r.P(1, 2) {
				y, m, d := genDate(r)
				if y > 9990 {
					y = 9990
				}
				opts.Window, opts.Base = Pick(r, []int{10, 40, 400}), [3]int{y, m, d}
				if r.P(1, 4) { // around a year boundary
					opts.Base = [3]int{y, 12, 20}
					opts.Window = 25
				}
			}
			doc := GenDoc(r, opts)
			today := ymd{2021, 3, 4}
			if len(doc.Records) > 0 && r.P(4, 5) {
				rec := Pick(r, doc.Records)
				today, _ = ymd{rec.Y, rec.M, rec.D}.plus(r.Range(-2, 40))
			}
			if r.P(1, 3) { // reference dates on period boundaries (first/last day of month, quarter, year; Mondays and Sundays)
				y := today.y
				b := Pick(r, []ymd{{y, 1, 1}, {y, 12, 31}, {y, 4, 1}, {y, 3, 31}, {y, 7, 1}, {y, 6, 30}, {y, 10, 1}, {y, 9, 30}, {y, 3, 1}, {y, 2, gDaysIn(y, 2)},
					{y, today.m, 1}, {y, today.m, gDaysIn(y, today.m)}})
				if r.P(1, 4) {
					b, _ = today.plus(1 - oracleWeekday(today.y, today.m, today.d)) // Monday of this week
					if r.P(1, 2) {
						b, _ = b.plus(6)
					}
				}
				today = b
			}
			// the property's reference dates: neighbours representable, and far enough from the calendar's ends for the shortcuts
			if !today.ok() || today.y < 1 || today.y > 9998 {
				today = ymd{2021, 3, 4}
			}
			force := ""
			if r.P(1, 5) { // a shortcut clause with the reference date on a boundary of that kind of period, records around it
				force = Pick(r, []string{"week", "month", "quarter", "year"})
				y := r.Range(1995, 2030)
				var b ymd
				switch force {
				case "quarter":
					b = Pick(r, []ymd{{y, 4, 1}, {y, 7, 1}, {y, 10, 1}, {y, 1, 1}, {y, 3, 31}, {y, 6, 30}, {y, 12, 31}, {y, 5, 15}})
				case "month":
					mm := r.Range(1, 12)
					b = Pick(r, []ymd{{y, mm, 1}, {y, mm, gDaysIn(y, mm)}, {y, 3, 1}, {y, 3, 31}, {y, 5, 31}, {y, 1, 1}})
				case "year":
					b = Pick(r, []ymd{{y, 1, 1}, {y, 12, 31}, {y, 2, 28}})
				default:
					b = ymd{y, r.Range(1, 12), r.Range(1, 28)}
					b, _ = b.plus(1 - oracleWeekday(b.y, b.m, b.d))
					if r.P(1, 2) {
						b, _ = b.plus(6)
					}
				}
				today = b
				base, _ := today.plus(-Pick(r, []int{100, 200, 400, 20}))
				doc = GenDoc(r, DocOpts{CleanText: true, Window: Pick(r, []int{120, 220, 420, 40}), Base: [3]int{base.y, base.m, base.d}, MinRecords: 3, MaxRecords: 7})
			}
			f := genFlags(r, doc, today, force)
			return map[string]any{"text": hx(doc.Text), "cli": f.cli, "model": f.model, "today": []int{today.y, today.m, today.d},
				"expect": oracleFilter(doc, f), "sort": f.sort, "desc": f.desc, "nrec": len(doc.Records), "reject": f.reject}
		},
		Run: runC13,
	})
}

func runC13(env *Env, data map[string]any) *Outcome {
	text := textOf(data, "text")
	td := ints(data, "today")
	cliFlags := strs(data, "cli")
	o := &Outcome{Key: hashKey(text + strings.Join(cliFlags, " ") + fmt.Sprint(td)), Tags: []string{"clause:" + str(data, "desc")}}
	file := writeFile(env, "c13.klg", text)
	args := append([]string{"print", "--no-style", "--no-warn"}, cliFlags...)
	args = append(args, file)
	res := runCLI(env, CLIOpts{Now: mkTime(td[0], td[1], td[2], 12, 0)}, args...)
	var impl string
	switch {
	case res.Panic != "":
		impl = "panic"
	case res.Code != 0:
		impl = fmt.Sprintf("exit %d %s", res.Code, short(res.Err, 200))
	default:
		body := res.Stdout
		if body != "" {
			body = strings.TrimPrefix(body, "\n")
			body = strings.TrimSuffix(body, "\n")
		}
		impl = "ok " + hx(body)
	}
	margs := append([]string{"filter", hx(text), fmt.Sprint(td[0]), fmt.Sprint(td[1]), fmt.Sprint(td[2])}, strs(data, "model")...)
	model := env.Drv.Ask(margs...)
	if boolv(data, "reject") {
		if model != "flag-error" {
			o.Findings = append(o.Findings, Finding{Kind: "K", What: "K.C13.filter: the model accepts a period that does not exist", Impl: impl, Model: model})
		}
		if res.Panic != "" || res.Code == 0 {
			o.Findings = append(o.Findings, Finding{Kind: "D", What: "a period that does not exist (" + strings.Join(cliFlags, " ") + ") is not refused", Impl: short(impl, 300), Signature: crashSignature("C13", res.Panic, data)})
		}
		o.Tags = append(o.Tags, "rejected-period")
		return o
	}
	nrec := num(data, "nrec")
	compareK := true
	if str(data, "sort") != "" && nrec > 12 {
		compareK = false // beyond 12 elements Go's sort.Slice leaves the order of equal dates open
	}
	if compareK && impl != model {
		o.Findings = append(o.Findings, Finding{Kind: "K", What: "K.C13.filter: `klog print <filters>` differs from the model", Impl: short(impl, 3000), Model: short(model, 3000)})
	}
	// D
	if !strings.HasPrefix(impl, "ok ") {
		o.Findings = append(o.Findings, Finding{Kind: "D", What: "filtering fails: " + impl, Impl: impl, Signature: crashSignature("C13", res.Panic, data)})
		return o
	}
	out := unhx(impl[3:])
	got, pm := implParse(out)
	if pm != "" || !strings.HasPrefix(got, "records ") {
		o.Findings = append(o.Findings, Finding{Kind: "D", What: "the filtered output is not a valid file", Impl: short(got, 500)})
		return o
	}
	gotRecs := strings.Fields(strings.TrimPrefix(got[:strings.Index(got, " | ")], "records "))
	want := strs(data, "expect")
	if str(data, "sort") == "" {
		if strings.Join(gotRecs, " ") != strings.Join(want, " ") {
			o.Findings = append(o.Findings, Finding{Kind: "D", What: "the filter does not return exactly the matching records/entries, unchanged and in original order (" + str(data, "desc") + ")",
				Impl: short(strings.Join(gotRecs, " "), 3000), Model: short(strings.Join(want, " "), 3000)})
		}
	} else {
		a, b := append([]string(nil), gotRecs...), append([]string(nil), want...)
		sort.Strings(a)
		sort.Strings(b)
		if strings.Join(a, " ") != strings.Join(b, " ") {
			o.Findings = append(o.Findings, Finding{Kind: "D", What: "--sort changes the set of records", Impl: short(strings.Join(gotRecs, " "), 2000), Model: short(strings.Join(want, " "), 2000)})
		}
		for i := 1; i < len(gotRecs); i++ {
			d0, d1 := strings.ReplaceAll(gotRecs[i-1][2:12], "/", "-"), strings.ReplaceAll(gotRecs[i][2:12], "/", "-")
			if (str(data, "sort") == "asc" && d0 > d1) || (str(data, "sort") == "desc" && d0 < d1) {
				o.Findings = append(o.Findings, Finding{Kind: "D", What: "--sort " + str(data, "sort") + " output is not ordered by date", Impl: short(strings.Join(gotRecs, " "), 2000)})
				break
			}
		}
	}
	o.Nontrivial = (len(want) > 0 && len(want) < nrec) || (len(want) > 0 && strings.Join(want, " ") != strings.Join(gotRecsAll(text), " "))
	o.Sample = map[string]any{"flags": cliFlags, "today": td, "selected": len(want), "of": nrec}
	return o
}

func gotRecsAll(text string) []string {
	got, _ := implParse(text)
	if !strings.HasPrefix(got, "records ") {
		return nil
	}
	return strings.Fields(strings.TrimPrefix(got[:strings.Index(got, " | ")], "records "))
}
