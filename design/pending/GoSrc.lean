/- Helper lemmas for KlogV/Props/GoSrc.lean, collected. -/
import KlogV.Lemmas.GoSrcA
import KlogV.Lemmas.GoSrcB
import KlogV.Lemmas.GoSrcC
