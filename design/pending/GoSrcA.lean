/- Helper lemmas for KlogV/Props/GoSrc.lean (the translated Go source computes the model's functions), part A. Core Lean only. -/
import KlogV.GoSem.Abs
namespace KlogV.GoL
open KlogV.Go

theorem newTime_eq (hour minute : Nat) (shift : Int) (is24 : Bool) (hs : inInt64 shift) :
    (GoSrc.newTime hour minute shift ⟨is24⟩).res = (optRes (Time.mk' hour minute shift is24)).map Time.toGo := by
  sorry

theorem newTime_negative (hour minute shift : Int) (f : GoSrc.TimeFormat) (h : hour < 0 ∨ minute < 0) :
    (GoSrc.newTime hour minute shift f).res = .err := by
  sorry

theorem NewTime_eq (hour minute : Nat) :
    (GoSrc.NewTime hour minute).res = (optRes (Time.mk' hour minute 0 true)).map Time.toGo := by
  sorry

theorem NewTimeYesterday_eq (hour minute : Nat) :
    (GoSrc.NewTimeYesterday hour minute).res = (optRes (Time.mk' hour minute (-1) true)).map Time.toGo := by
  sorry

theorem NewTimeTomorrow_eq (hour minute : Nat) :
    (GoSrc.NewTimeTomorrow hour minute).res = (optRes (Time.mk' hour minute 1 true)).map Time.toGo := by
  sorry

theorem midnightOffset_eq (t : Time) (h : t.wf = true) :
    t.toGo.MidnightOffset = .ok (durOfMins t.offset) := by
  sorry

theorem isAfterOrEqual_eq (a b : Time) (ha : a.wf = true) (hb : b.wf = true) :
    a.toGo.IsAfterOrEqual b.toGo = .ok (a.afterOrEqual b) := by
  sorry

theorem isEqualTo_eq (a b : Time) (ha : a.wf = true) (hb : b.wf = true) :
    a.toGo.IsEqualTo b.toGo = .ok (a.offset == b.offset) := by
  sorry

theorem shift_tests (t : Time) :
    t.toGo.IsToday = .ok (t.shift == 0) ∧ t.toGo.IsYesterday = .ok (decide (t.shift < 0)) ∧
    t.toGo.IsTomorrow = .ok (decide (t.shift > 0)) := by
  sorry

theorem time_plus_eq (t : Time) (d : GoSrc.duration) (h : t.wf = true)
    (hd : inRange d.minutes = true) (hsum : inRange (t.offset + d.minutes) = true) :
    (t.toGo.Plus d).res = (optRes (t.plus d.minutes)).map Time.toGo := by
  sorry

theorem time_plus_overflow (t : Time) (d : GoSrc.duration) (h : t.wf = true)
    (hd : ¬ (inRange d.minutes = true ∧ inRange (t.offset + d.minutes) = true)) :
    (t.toGo.Plus d).res = .panic := by
  sorry

theorem time_toString_eq (t : Time) (h : t.wf = true) : t.toGo.ToString = .ok t.print := by
  sorry

theorem time_toStringWithFormat_eq (t : Time) (b : Bool) (h : t.wf = true) :
    t.toGo.ToStringWithFormat ⟨b⟩ = .ok ({ t with is24 := b } : Time).print := by
  sorry

theorem newRange_eq (s e : Time) (sp : Bool) (hs : s.wf = true) (he : e.wf = true) :
    (GoSrc.NewRangeWithFormat s.toGo e.toGo ⟨sp⟩).res =
      if e.afterOrEqual s then .ok ⟨s.toGo, e.toGo, ⟨sp⟩⟩ else .err := by
  sorry

theorem range_duration_eq (s e : Time) (sp : Bool) (hs : s.wf = true) (he : e.wf = true) :
    (⟨s.toGo, e.toGo, ⟨sp⟩⟩ : GoSrc.timeRange).Duration = .ok (durOfMins (EntryVal.range s e sp).minutes) := by
  sorry

theorem range_toString_eq (s e : Time) (sp : Bool) (hs : s.wf = true) (he : e.wf = true) :
    (⟨s.toGo, e.toGo, ⟨sp⟩⟩ : GoSrc.timeRange).ToString = .ok (EntryVal.range s e sp).print := by
  sorry

theorem openRange_toString_eq (s : Time) (sp : Bool) (extra : Nat) (hs : s.wf = true) (hx : (extra : Int) < 9223372036854775807) :
    (⟨s.toGo, ⟨sp, extra⟩⟩ : GoSrc.openRange).ToString = .ok (EntryVal.openRange s sp extra).print := by
  sorry

end KlogV.GoL
