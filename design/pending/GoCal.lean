/- Helper lemmas for KlogV/Props/GoCal.lean, collected. -/
import KlogV.Lemmas.GoCalA
import KlogV.Lemmas.GoCalB
import KlogV.Lemmas.GoCalC
