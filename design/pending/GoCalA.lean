/- Helper lemmas for KlogV/Props/GoCal.lean (the translated date / period code computes the model's calendar), part A. Core Lean only. -/
import KlogV.GoSem.AbsCal
namespace KlogV.GoL
open KlogV.Go

theorem newDate_eq (y m d : Nat) : (GoCal.NewDate y m d).res = (optRes (mkDate y m d)).map Date.toGo := by
  sorry

theorem newDate_negative (y m d : Int) (h : y < 0 ∨ m < 0 ∨ d < 0) : (GoCal.NewDate y m d).res = .err := by
  sorry

theorem date_toString_eq (x : Date) (h : x.valid = true) : x.toGo.ToString = .ok x.print := by
  sorry

theorem date_weekday_eq (x : Date) (h : x.valid = true) : x.toGo.Weekday = .ok (x.weekday : Int) := by
  sorry

theorem date_quarter_eq (x : Date) (h : x.valid = true) : x.toGo.Quarter = .ok (x.quarter : Int) := by
  sorry

theorem date_weekNumber_eq (x : Date) (h : x.valid = true) :
    x.toGo.WeekNumber = .ok (x.isoWeek.1, (x.isoWeek.2 : Int)) := by
  sorry

theorem date_isEqualTo_eq (a b : Date) : a.toGo.IsEqualTo b.toGo = .ok (a.sameDay b) := by
  sorry

theorem date_isAfterOrEqual_eq (a b : Date) : a.toGo.IsAfterOrEqual b.toGo = .ok (a.afterOrEqual b) := by
  sorry

theorem date_plusDays_eq (x : Date) (n : Int) (h : x.valid = true) :
    (x.toGo.PlusDays n).res = match x.plusDays n with | some r => .ok r.toGo | none => .panic := by
  sorry

end KlogV.GoL
