/- Helper lemmas for KlogV/Props/GoRx.lean (the submatch contracts of the two value patterns follow from the generic contract). Core Lean only. -/
import KlogV.GoSem.RxSpec
import KlogV.Props.GoSrcParse
import KlogV.Props.Rx.Values
import KlogV.Props.Rx.Model
namespace KlogV.GoL
open KlogV.Go KlogV.Rx

theorem timeFind_of_spec (env : Env) (find : Str → List Str) (h : SubmatchSpec env Gen.rx_klog_timePattern 5 find) :
    TimeFind find := by
  sorry

theorem durFind_of_spec (env : Env) (find : Str → List Str) (h : SubmatchSpec env Gen.rx_klog_durationPattern 5 find) :
    DurFind find := by
  sorry

end KlogV.GoL
