/- Helper lemmas for KlogV/Props/GoCal.lean (the translated date / period code computes the model's calendar), part B. Core Lean only. -/
import KlogV.GoSem.AbsCal
namespace KlogV.GoL
open KlogV.Go

theorem week_period_eq (x : Date) (h : x.valid = true) :
    (GoCal.Week.Period ⟨x.toGo⟩).res = match weekPeriod x with | some p => .ok p.toGo | none => .panic := by
  sorry

theorem month_period_eq (x : Date) (h : x.valid = true) :
    (GoCal.Month.Period ⟨x.toGo⟩).res = .ok (monthPeriod x).toGo := by
  sorry

theorem quarter_period_eq (x : Date) (h : x.valid = true) :
    (GoCal.Quarter.Period ⟨x.toGo⟩).res = .ok (quarterPeriod x).toGo := by
  sorry

theorem year_period_eq (x : Date) (h : x.valid = true) :
    (GoCal.Year.Period ⟨x.toGo⟩).res = .ok (yearPeriod x).toGo := by
  sorry

theorem week_previous_eq (x : Date) (h : x.valid = true) :
    (GoCal.Week.Previous ⟨x.toGo⟩).res = match previousDate .week x with | some r => .ok ⟨r.toGo⟩ | none => .panic := by
  sorry

theorem month_previous_eq (x : Date) (h : x.valid = true) :
    (GoCal.Month.Previous ⟨x.toGo⟩).res = match previousDate .month x with | some r => .ok ⟨r.toGo⟩ | none => .panic := by
  sorry

theorem quarter_previous_eq (x : Date) (h : x.valid = true) :
    (GoCal.Quarter.Previous ⟨x.toGo⟩).res = match previousDate .quarter x with | some r => .ok ⟨r.toGo⟩ | none => .panic := by
  sorry

theorem year_previous_eq (x : Date) (h : x.valid = true) :
    (GoCal.Year.Previous ⟨x.toGo⟩).res = match previousDate .year x with | some r => .ok ⟨r.toGo⟩ | none => .panic := by
  sorry

end KlogV.GoL
