/- Helper lemmas for KlogV/Props/GoDateParse.lean. Core Lean only. -/
import KlogV.GoSem.AbsDate
import KlogV.Props.GoCal
import KlogV.Props.GoRx
import KlogV.Props.Rx.Values
import KlogV.Props.Rx.Model
namespace KlogV.GoL
open KlogV.Go KlogV.Rx

theorem dateFind_of_spec (env : Env) (find : Str → List Str) (h : SubmatchSpec env Gen.rx_klog_datePattern 3 find) :
    DateFind find := by
  sorry

theorem newDateFromString_eq (find : Str → List Str) (hf : DateFind find) (s : List Char) :
    (GoCal.NewDateFromString find s).res = (optRes (Date.parse s)).map Date.toGo := by
  sorry

end KlogV.GoL
