/- Helper lemmas for KlogV/Props/GoCal.lean (the translated date / period code computes the model's calendar), part C. Core Lean only. -/
import KlogV.GoSem.AbsCal
namespace KlogV.GoL
open KlogV.Go

theorem newYearFromString_eq (mt : Str → Bool) (hm : ∀ s, mt s = yearShape s) (s : List Char) :
    (GoCal.NewYearFromString mt s).res = (optRes (yearFromString s)).map (fun d => (⟨d.toGo⟩ : GoCal.Year)) := by
  sorry

theorem newMonthFromString_eq (mt : Str → Bool) (hm : ∀ s, mt s = monthShape s) (s : List Char) :
    (GoCal.NewMonthFromString mt s).res = (optRes (monthFromString s)).map (fun d => (⟨d.toGo⟩ : GoCal.Month)) := by
  sorry

theorem newQuarterFromString_eq (mt : Str → Bool) (hm : ∀ s, mt s = quarterShape s) (s : List Char) :
    (GoCal.NewQuarterFromString mt s).res = (optRes (quarterFromString s)).map (fun d => (⟨d.toGo⟩ : GoCal.Quarter)) := by
  sorry

theorem newWeekFromString_eq (mt : Str → Bool) (hm : ∀ s, mt s = weekShape s) (s : List Char) :
    (GoCal.NewWeekFromString mt s).res = (weekFromString s).map (fun d => (⟨d.toGo⟩ : GoCal.Week)) := by
  sorry

theorem periodFromPattern_eq (s : List Char) :
    periodFromPattern s =
      match yearFromString s with
      | some d => .ok (yearPeriod d)
      | none => match monthFromString s with
        | some d => .ok (monthPeriod d)
        | none => match quarterFromString s with
          | some d => .ok (quarterPeriod d)
          | none => match weekFromString s with
            | .ok d => (match weekPeriod d with | some p => .ok p | none => .panic)
            | .err => .err
            | .panic => .panic := by
  sorry

end KlogV.GoL
