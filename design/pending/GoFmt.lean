/- Helper lemmas for KlogV/Props/GoFmt.lean. Core Lean only. -/
import KlogV.Gen.GoFmt
import KlogV.Model.Prettify
import KlogV.GoSem.AbsBase
namespace KlogV.GoL
open KlogV.Go

theorem reflow_eq (maxLen : Nat) (prefixes : List (List Char)) (text : List Char)
    (h1 : (maxLen : Int) < 4611686018427387904) (h2 : ((encode text).length : Int) < 4611686018427387904)
    (h3 : (prefixes.length : Int) < 4611686018427387904)
    (h4 : ∀ p ∈ prefixes, ((encode p).length : Int) < 4611686018427387904) :
    (⟨(maxLen : Int), [10]⟩ : GoFmt.Reflower).Reflow (encode text) (prefixes.map encode) =
      .ok (encode (reflow maxLen prefixes text)) := by
  sorry

end KlogV.GoL
