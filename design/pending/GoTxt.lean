/- Helper lemmas for KlogV/Props/GoTxt.lean (the translated line / block layer computes the model's lines and blocks). Core Lean only. -/
import KlogV.GoSem.AbsTxt
namespace KlogV.GoL
open KlogV.Go

theorem newLineFromString_eq (raw : Bytes) (hlen : (raw.length : Int) < 9223372036854775808) : GoTxt.NewLineFromString raw = .ok (Line.ofRaw raw).toGo := by
  sorry

theorem line_original_eq (l : Line) : l.toGo.Original = .ok l.original := by
  sorry

theorem line_isBlank_eq (l : Line) : l.toGo.IsBlank = .ok l.isBlank := by
  sorry

theorem parseBlock_eq (t : Bytes) (n : Int) (hlen : (t.length : Int) < 9223372036854775808) : GoTxt.ParseBlock t n = .ok (firstBlock t n) := by
  sorry

theorem blocksOf_drop (t : Bytes) (b : List Line) (bs : List (List Line)) (h : blocksOf t = b :: bs) :
    blocksOf (t.drop (countBytes b)) = bs := by
  sorry

theorem significantLines_eq (b : List Line) (n : Int) (h : b.any (fun l => !l.isBlank) = true)
    (hlen : (b.length : Int) < 9223372036854775808) :
    (⟨n, b.map Line.toGo⟩ : GoTxt.block).SignificantLines =
      .ok ((significant b).1.map Line.toGo, ((significant b).2.1 : Int), ((significant b).2.2 : Int)) := by
  sorry

end KlogV.GoL
