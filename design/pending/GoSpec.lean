/- Helper lemmas for KlogV/Props/GoSpec.lean (end-to-end corollaries: the translated Go source satisfies the specification). Core Lean only. -/
import KlogV.GoSem.SpecDefs
import KlogV.Props.GoSrc
import KlogV.Props.GoCal
import KlogV.Props.C15
import KlogV.Props.C16
namespace KlogV.GoL
open KlogV.Go KlogV.GoTie

theorem go_time_plus (t : GoSrc.time) (d : GoSrc.duration) (ht : GoTimeWF t) (hd : inRange d.minutes = true) :
    ((-1440 ≤ goTimeOffset t + d.minutes ∧ goTimeOffset t + d.minutes < 2880) →
        ∃ r, t.Plus d = .ok r ∧ GoTimeWF r ∧ goTimeOffset r = goTimeOffset t + d.minutes ∧ r.format = t.format) ∧
    (¬ (-1440 ≤ goTimeOffset t + d.minutes ∧ goTimeOffset t + d.minutes < 2880) → (t.Plus d).res = .err) := by
  sorry

theorem go_range (s e : GoSrc.time) (f : GoSrc.RangeFormat) (hs : GoTimeWF s) (he : GoTimeWF e) :
    (goTimeOffset s ≤ goTimeOffset e →
        GoSrc.NewRangeWithFormat s e f = .ok ⟨s, e, f⟩ ∧
        (⟨s, e, f⟩ : GoSrc.timeRange).Duration = .ok ⟨goTimeOffset e - goTimeOffset s, ⟨false, 0⟩⟩) ∧
    (¬ goTimeOffset s ≤ goTimeOffset e → (GoSrc.NewRangeWithFormat s e f).res = .err) := by
  sorry

theorem go_midnightOffset (t : GoSrc.time) (ht : GoTimeWF t) : t.MidnightOffset = .ok ⟨goTimeOffset t, ⟨false, 0⟩⟩ := by
  sorry

theorem go_plusDays (x : GoCal.date) (n : Int) (hx : GoDateValid x) :
    ((0 ≤ goDayNumber x + n ∧ goDayNumber x + n ≤ 3652424) →
        ∃ r, x.PlusDays n = .ok r ∧ GoDateValid r ∧ goDayNumber r = goDayNumber x + n ∧ r.format = x.format) ∧
    (¬ (0 ≤ goDayNumber x + n ∧ goDayNumber x + n ≤ 3652424) → (x.PlusDays n).res = .panic) := by
  sorry

theorem go_weekday (x : GoCal.date) (hx : GoDateValid x) :
    x.Weekday = .ok ((goDayNumber x + 5) % 7 + 1) := by
  sorry

theorem go_week_period (x : GoCal.date) (hx : GoDateValid x) (p : GoCal.periodData)
    (hp : GoCal.Week.Period ⟨x⟩ = .ok p) :
    GoDateValid p.since ∧ GoDateValid p.until_ ∧ p.since.Weekday = .ok 1 ∧ p.until_.Weekday = .ok 7 ∧
      goDayNumber p.until_ = goDayNumber p.since + 6 ∧ goDayNumber p.since ≤ goDayNumber x ∧ goDayNumber x ≤ goDayNumber p.until_ := by
  sorry

theorem go_month_period (x : GoCal.date) (hx : GoDateValid x) :
    GoCal.Month.Period ⟨x⟩ =
      .ok ⟨⟨x.year, x.month, 1, ⟨true⟩⟩, ⟨x.year, x.month, daysInInt x.year x.month, ⟨true⟩⟩⟩ := by
  sorry

theorem go_quarter_period (x : GoCal.date) (hx : GoDateValid x) :
    x.Quarter = .ok ((x.month + 2) / 3) ∧
    GoCal.Quarter.Period ⟨x⟩ =
      .ok ⟨⟨x.year, 3 * ((x.month + 2) / 3) - 2, 1, ⟨true⟩⟩,
           ⟨x.year, 3 * ((x.month + 2) / 3), daysInInt x.year (3 * ((x.month + 2) / 3)), ⟨true⟩⟩⟩ := by
  sorry

theorem go_year_period (x : GoCal.date) (hx : GoDateValid x) :
    GoCal.Year.Period ⟨x⟩ = .ok ⟨⟨x.year, 1, 1, ⟨true⟩⟩, ⟨x.year, 12, 31, ⟨true⟩⟩⟩ := by
  sorry

end KlogV.GoL
