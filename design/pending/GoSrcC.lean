/- Helper lemmas for KlogV/Props/GoSrc.lean (the translated Go source computes the model's functions), part C. Core Lean only. -/
import KlogV.GoSem.Abs
namespace KlogV.GoL
open KlogV.Go

theorem newTimeFromString_eq (find : Str → List Str) (hf : TimeFind find) (s : List Char) :
    (GoSrc.NewTimeFromString find s).res = (optRes (Time.parse s)).map Time.toGo := by
  sorry

theorem newDurationFromString_eq (find : Str → List Str) (hf : DurFind find) (s : List Char) :
    (GoSrc.NewDurationFromString find s).res = (Dur.parse s).map Dur.toGo := by
  sorry

end KlogV.GoL
