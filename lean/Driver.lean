import KlogV.Model.Canon
open KlogV

def optStr {α} (f : α → String) : Option α → String
  | some a => f a
  | none => "err"

def handle (line : String) : String :=
  match (line.splitOn " ").filter (· ≠ "") with
  | ["blocks", h] => "ok " ++ canonBlocks (blocksOf (bytesOfHex h))
  | ["parse", h] => canonDoc (parseDoc (bytesOfHex h))
  | _ => "bad-op"

partial def loop (hin : IO.FS.Stream) (hout : IO.FS.Stream) : IO Unit := do
  let line ← hin.getLine
  if line.isEmpty then return ()
  hout.putStrLn (handle (line.dropRightWhile (fun c => c == '\n' || c == '\r')))
  hout.flush
  loop hin hout

def main : IO Unit := do
  loop (← IO.getStdin) (← IO.getStdout)
