import KlogV.Model.Canon
import KlogV.Model.Parallel
import KlogV.Model.Calendar
import KlogV.Model.Eval
import KlogV.Model.Serialiser
import KlogV.Model.Tags
import KlogV.Model.Report
import KlogV.Model.Commands
import KlogV.Model.JsonView
import KlogV.Model.Bookmarks
import KlogV.Model.Styler
import KlogV.Model.Prettify
import KlogV.Model.Warnings
import KlogV.Model.ConfigFile
import KlogV.Gen.Themes
open KlogV

def optStr {α} (f : α → String) : Option α → String
  | some a => f a
  | none => "err"

def resStr {α} (f : α → String) : Res α → String
  | .ok a => "ok " ++ f a
  | .err => "err"
  | .panic => "panic"

def canonDate (d : Date) : String := String.ofList d.print

def dateOfArgs (y m d : String) : Date := ⟨y.toNat!, m.toNat!, d.toNat!, true⟩

def canonPeriod (p : Period) : String := s!"{canonDate p.since}..{canonDate p.until_}"

def timeOfArgs (h m s f : String) : Time := ⟨h.toNat!, m.toNat!, s.toInt!, f == "1"⟩

def allKinds : List PeriodKind := [.day, .week, .month, .quarter, .year]

def calLine (x : Date) : String :=
  let wk := x.isoWeek
  let plus := [1, -1, 7, -7, -25, -80, 365, -366].map (fun n => optStr canonDate (x.plusDays n))
  let pers := allKinds.map (fun k => optStr canonPeriod (periodOf k x))
  let prevs := allKinds.map (fun k => optStr canonDate (previousDate k x))
  let hashes := allKinds.map (fun k => toString (hashOf k x))
  s!"wd={x.weekday} iso={wk.1}/{wk.2} q={x.quarter} dn={dayNumber x} plus={commaSep plus} per={commaSep pers} prev={commaSep prevs} hash={commaSep hashes}"

def evalLine (rs : List Record) : String :=
  let per := rs.map (fun r => s!"{r.total}/{r.shouldMins}")
  s!"total={resStr toString (totalRes rs)} should={resStr toString (shouldRes rs)} diff={resStr toString ((totalRes rs).bind fun t => (shouldRes rs).bind fun s => diffRes s t)} per=[{commaSep per}]"

def withRecords (h : String) (f : List Record → String) : String :=
  match parseDoc (bytesOfHex h) with
  | .records rs _ => f rs
  | .errors _ => "errors"
  | .panic => "panic"

def sortStats (xs : List TagStat) : List TagStat :=
  xs.foldl (fun acc x =>
    let (lo, hi) := acc.span (fun y => !charsLt (tagKey x.tag) (tagKey y.tag))
    lo ++ [x] ++ hi) []

def sortStrings (xs : List (List Char)) : List (List Char) :=
  xs.foldl (fun acc x =>
    let (lo, hi) := acc.span (fun y => !charsLt x y)
    lo ++ [x] ++ hi) []

def tagsLine (u : UTab) (lines : List (List Char)) : String :=
  let ts := summaryTags u lines
  let printed := ts.map (fun t => hexOfChars (t.print u))
  let look := sortStrings ((lookupSet ts).map tagKey)
  s!"ok [{commaSep printed}] [{commaSep (look.map hexOfChars)}]"

def statsLine (u : UTab) (rs : List Record) : String :=
  commaSep ((sortStats (aggregateTags u rs)).map (fun s => s!"{hexOfChars (tagKey s.tag)}:{s.total}:{s.count}"))

def dateOfStr (s : String) : Option Date := Date.parse s.toList

def kindOfStr : String → PeriodKind
  | "week" => .week | "month" => .month | "quarter" => .quarter | "year" => .year | _ => .day

def etypeOfStr : String → Option EntryType
  | "duration" => some .duration | "duration-positive" => some .positive | "duration-negative" => some .negative
  | "range" => some .range | "open-range" => some .openRange | _ => none

/-- flags: key=value tokens -/
def flagsOf (u : UTab) (toks : List String) : Res (FilterFlags × Option Bool) :=
  toks.foldl (fun acc tok => acc.bind fun (f, srt) =>
    match tok.splitOn "=" with
    | ["tag", h] => (match scanTags u (decodeGo (bytesOfHex h)) with
        | [t] => .ok ({ f with tags := f.tags ++ [t] }, srt) | _ => .err)
    | ["date", d] => .ok ({ f with date := dateOfStr d }, srt)
    | ["since", d] => .ok ({ f with since := dateOfStr d }, srt)
    | ["until", d] => .ok ({ f with until_ := dateOfStr d }, srt)
    | ["after", d] => .ok ({ f with after := dateOfStr d }, srt)
    | ["before", d] => .ok ({ f with before := dateOfStr d }, srt)
    | ["etype", t] => .ok ({ f with etype := etypeOfStr t }, srt)
    | ["period", h] => (match periodFromPattern (decodeGo (bytesOfHex h)) with
        | .ok p => .ok ({ f with period := some p }, srt) | .err => .err | .panic => .panic)
    | ["today"] => .ok ({ f with today := true }, srt)
    | ["yesterday"] => .ok ({ f with yesterday := true }, srt)
    | ["tomorrow"] => .ok ({ f with tomorrow := true }, srt)
    | ["this", k] => .ok ({ f with shortcut := some (kindOfStr k, false) }, srt)
    | ["last", k] => .ok ({ f with shortcut := some (kindOfStr k, true) }, srt)
    | ["sort", o] => .ok (f, some (o == "asc"))
    | _ => .err) (.ok ({}, none))

def rowStr (r : Row) : String :=
  match r.total with
  | some (t, s) => s!"{t}/{s}"
  | none => "-"

def linesOfArg (s : String) : List Bytes := (s.splitOn ",").map bytesOfHex

def optLines (s : String) : Option (List Bytes) := if s == "~" then none else some (linesOfArg s)

def dateSelOf (s : String) : Option DateSel :=
  match s with
  | "def" => some .default | "today" => some .today | "yesterday" => some .yesterday | "tomorrow" => some .tomorrow
  | _ => if s.startsWith "d:" then (Date.parse (s.toList.drop 2)).map .explicit else none

def optTime (s : String) : Option (Option Time) :=
  if s == "~" then some none else (Time.parse (decodeGo (bytesOfHex s))).map some

def optNat (s : String) : Option Nat := if s == "~" then none else some s.toNat!
def optInt (s : String) : Option Int := if s == "~" then none else some s.toInt!

def cfgOf (toks : List String) : Config :=
  toks.foldl (fun c t => match t.splitOn "=" with
    | ["round", v] => { c with rounding := some v.toNat! }
    | ["should", v] => { c with should := some v.toInt! }
    | ["dashes", v] => { c with dateDashes := some (v == "1") }
    | ["t24", v] => { c with time24 := some (v == "1") }
    | _ => c) {}

def cmdOf (toks : List String) : Option Cmd :=
  match toks with
  | ["track", d, e] => (dateSelOf d).map (fun d => .track d (linesOfArg e))
  | ["create", d, sh, sm] => (dateSelOf d).map (fun d => .create d (optInt sh) (optLines sm))
  | ["start", d, t, r, sm, res, nth] => do
    let d ← dateSelOf d; let t ← optTime t
    pure (.start ⟨d, t, optNat r⟩ ⟨optLines sm, res == "1", nth.toInt!⟩)
  | ["switch", d, t, r, sm, res, nth] => do
    let d ← dateSelOf d; let t ← optTime t
    pure (.switch ⟨d, t, optNat r⟩ ⟨optLines sm, res == "1", nth.toInt!⟩)
  | ["stop", d, t, r, sm] => do
    let d ← dateSelOf d; let t ← optTime t
    pure (.stop ⟨d, t, optNat r⟩ (optLines sm))
  | ["pause", sm, noTags, extend, ticks] =>
    some (.pause (optLines sm) (noTags == "1") (extend == "1") (if ticks == "~" then [] else (ticks.splitOn ",").map String.toInt!))
  | _ => none

def bkOpOf (tok : String) : Option BOp :=
  match tok.splitOn ":" with
  | ["set", n, p] => some (.set (decodeGo (bytesOfHex n)) (decodeGo (bytesOfHex p)))
  | ["unset", n] => some (.unset (decodeGo (bytesOfHex n)))
  | ["clear"] => some .clear
  | _ => none

def bkHistory (toks : List String) : String :=
  let (_, outs) := toks.foldl (fun (acc : Bookmarks × List String) tok =>
    match bkOpOf tok with
    | none => (acc.1, acc.2 ++ ["bad"])
    | some op => match acc.1.apply op with
      | some bc => (bc, acc.2 ++ ["ok:" ++ hexOrDash (hexOfChars bc.toJson)])
      | none => (acc.1, acc.2 ++ ["fail"])) ([], [])
  " ".intercalate outs

def stylerOf (theme : String) : Styler :=
  let rows := Gen.themeTable.filter (fun r => r.1 == theme)
  let bgRows := Gen.themeBgTable.filter (fun r => r.1 == theme)
  { seqs := fun p =>
      if p.background == .unspecified then
        match rows.find? (fun r => r.2.1 == p.color && r.2.2.1 == p.underlined && r.2.2.2.1 == p.bold) with
        | some r => r.2.2.2.2.1.toList
        | none => []
      else
        match bgRows.find? (fun r => r.2.1 == p.color && r.2.2.1 == p.background) with
        | some r => r.2.2.2.toList
        | none => [],
    reset := match rows.head? with | some r => r.2.2.2.2.2.toList | none => [] }

def handle (u : UTab) (args : List String) : String :=
  match args with
  | "table" :: ncols :: sep :: cells =>
    let cs : List Cell := cells.filterMap (fun c => match c.splitOn ":" with
      | [v, f, r] => some ⟨decodeGo (bytesOfHex v), f == "1", r == "1"⟩
      | _ => none)
    let rows := renderRows ncols.toNat! (decodeGo (bytesOfHex sep)) cs
    "ok " ++ hexOrDash (hexOfChars (rows.flatMap (· ++ ['\n'])))
  | ["prettyerr", h, theme, origin] =>
    (match parseDoc (bytesOfHex h) with
     | .errors es => (match prettyErrors (stylerOf theme) (decodeGo (bytesOfHex origin)) es with
        | some t => "ok " ++ hexOrDash (hexOfChars t)
        | none => "panic")
     | .records _ _ => "records"
     | .panic => "panic")
  | ["reflow", n, h, pfx] =>
    "ok " ++ hexOrDash (hexOfChars (reflow n.toNat! (if pfx == "none" then [] else (pfx.splitOn ",").map (fun x => decodeGo (bytesOfHex x))) (decodeGo (bytesOfHex h))))
  | ["strip", h] => "ok " ++ hexOrDash (hexOfChars (strip (decodeGo (bytesOfHex h))))
  | ["styledprint", h, theme] => withRecords h fun rs => "ok " ++ hexOrDash (hexOfChars (styledPrintRecords u (stylerOf theme) rs))
  | ["json", h, pretty, file] =>
    (match toJson u (decodeGo (bytesOfHex file)) (pretty == "1") (parseDoc (bytesOfHex h)) with
     | some js => "ok " ++ hexOrDash (hexOfChars js)
     | none => "panic")
  | "bkhist" :: toks => bkHistory toks
  | ["newname", h] => "ok " ++ hexOrDash (hexOfChars (newName (decodeGo (bytesOfHex h))))
  | "cmd" :: h :: y :: m :: d :: hh :: mm :: rest =>
    let cfgToks := rest.takeWhile (· != "--")
    let cmdToks := (rest.dropWhile (· != "--")).drop 1
    (match cmdOf cmdToks with
     | none => "bad-cmd"
     | some c =>
       match runCmd u (cfgOf cfgToks) ⟨dateOfArgs y m d, hh.toNat!, mm.toNat!⟩ c (bytesOfHex h) with
       | .ok f => "ok " ++ hexOrDash (hexOfBytes f)
       | .fail => "fail"
       | .panic => "panic")
  | "filter" :: h :: y :: m :: d :: toks =>
    withRecords h fun rs =>
      match flagsOf u toks with
      | .err => "flag-error"
      | .panic => "panic"
      | .ok (f, srt) =>
        match flagsToQuery (dateOfArgs y m d) f with
        | .ok q =>
          let out := filterRecords u q rs
          let out := match srt with | some asc => sortRecords asc out | none => out
          "ok " ++ hexOrDash (hexOfChars (printRecords out))
        | _ => "panic"
  | ["report", h, k, fill] =>
    withRecords h fun rs =>
      match reportRows (kindOfStr k) (fill == "1") rs with
      | some rows => s!"ok [{commaSep (rows.map rowStr)}] {totalMins rs}/{shouldSum rs}"
      | none => "panic"
  | ["todaysplit", h, y, m, d] =>
    withRecords h fun rs =>
      match splitCurrentOther (dateOfArgs y m d) rs with
      | some (c, o, isY) => s!"ok {c.length}:{totalMins c}/{shouldSum c} {o.length}:{totalMins o}/{shouldSum o} {b01 isY}"
      | none => "panic"
  | ["tags", h] => tagsLine u [decodeGo (bytesOfHex h)]
  | ["tagstats", h] => withRecords h fun rs => "ok " ++ statsLine u rs
  | ["blocks", h] => "ok " ++ canonBlocks (blocksOf (bytesOfHex h))
  | ["parse", h] => canonDoc (parseDoc (bytesOfHex h))
  | ["pblocks", h, n] => "ok " ++ canonBlocks (parallelBlocks (bytesOfHex h) n.toNat!)
  | ["chunks", h, n] => "ok " ++ commaSep ((splitIntoChunks (bytesOfHex h) n.toNat!).map (fun c => hexOrDash (hexOfBytes c)))
  | ["date", h] => optStr (fun d => "ok " ++ canonDate d) (Date.parse (decodeGo (bytesOfHex h)))
  | ["time", h] => optStr (fun t => "ok " ++ canonTime t ++ " " ++ String.ofList t.print ++ " " ++ toString t.offset) (Time.parse (decodeGo (bytesOfHex h)))
  | ["dur", h] => resStr (fun d => toString d.mins ++ " " ++ String.ofList d.print ++ " " ++ String.ofList d.printSigned) (Dur.parse (decodeGo (bytesOfHex h)))
  | ["timeplus", h, m, s, f, d] => optStr (fun t => "ok " ++ canonTime t ++ " " ++ String.ofList t.print) ((timeOfArgs h m s f).plus d.toInt!)
  | ["range", h1, h2] =>
    (match Time.parse (decodeGo (bytesOfHex h1)), Time.parse (decodeGo (bytesOfHex h2)) with
     | some a, some b => if b.afterOrEqual a then s!"ok {b.offset - a.offset} {String.ofList (EntryVal.range a b true).print}" else "err"
     | _, _ => "err")
  | ["cal", y, m, d] => calLine (dateOfArgs y m d)
  | ["pattern", h] => resStr canonPeriod (periodFromPattern (decodeGo (bytesOfHex h)))
  | ["eval", h] => withRecords h evalLine
  | ["evalnow", h, y, m, d, hh, mm] =>
    withRecords h fun rs =>
      match closeOpenRanges ⟨dateOfArgs y m d, hh.toNat!, mm.toNat!⟩ rs with
      | .ok (rs', closed) => s!"closed={b01 closed} " ++ evalLine rs'
      | .err => "uncloseable"
      | .panic => "panic"
  | ["warn", h, y, m, d, hh, mm, bits] =>
    withRecords h fun rs =>
      let bs := bits.toList.map (· == '1')
      let dis : Disabled := ⟨bs.getD 0 false, bs.getD 1 false, bs.getD 2 false, bs.getD 3 false⟩
      match checkWarnings ⟨dateOfArgs y m d, hh.toNat!, mm.toNat!⟩ dis rs with
      | .ok ws => "ok " ++ commaSep (ws.map fun (dt, k) => canonDate dt ++ ":" ++ k.name)
      | .err => "err"
      | .panic => "panic"
  | ["config", cpus, nc, ed, h] =>
    let env : EnvVars := ⟨nc == "1", if ed == "~" then none else some (bytesOfHex ed)⟩
    (match newConfig cpus.toNat! env (bytesOfHex h) with
     | .ok c =>
       let ob (o : Option Bool) : String := match o with | some b => b01 b | none => "~"
       let oi {α} [ToString α] (o : Option α) : String := match o with | some x => toString x | none => "~"
       let nw : String := match c.noWarnings with
         | some d => b01 d.unclosed ++ b01 d.future ++ b01 d.overlapping ++ b01 d.moreThan24h
         | none => "~"
       s!"ok editor={match c.editor with | some e => hexOrDash (hexOfBytes e) | none => "~"} colour={c.colour.name} cpus={c.cpus} round={oi c.rounding} should={oi c.should} dashes={ob c.dateDashes} t24={ob c.time24} nowarn={nw}"
     | .bad k => "bad " ++ k
     | .panic => "panic")
  | ["rounding", h] => (match parseRounding (decodeGo (bytesOfHex h)) with | some n => s!"ok {n}" | none => "err")
  | ["print", h] => withRecords h fun rs => "ok " ++ hexOrDash (hexOfChars (printRecords rs))
  | _ => "bad-op"

partial def loop (u : UTab) (hin : IO.FS.Stream) (hout : IO.FS.Stream) : IO Unit := do
  let line ← hin.getLine
  if line.isEmpty then return ()
  let line := (line.toList.filter (fun c => c != '\n' && c != '\r'))
  hout.putStrLn (handle u ((String.ofList line).splitOn " " |>.filter (· ≠ "")))
  hout.flush
  loop u hin hout

def readPairs (path : String) : IO (Array (Nat × Nat)) := do
  let txt ← IO.FS.readFile path
  let mut res : Array (Nat × Nat) := #[]
  for l in txt.splitOn "\n" do
    match l.splitOn " " with
    | [a, b] => res := res.push (a.toNat!, b.toNat!)
    | _ => pure ()
  return res

/-- binary search for the last entry with first component ≤ n -/
def findLE (arr : Array (Nat × Nat)) (n : Nat) : Option (Nat × Nat) := Id.run do
  let mut lo := 0
  let mut hi := arr.size
  while lo < hi do
    let mid := (lo + hi) / 2
    if arr[mid]!.1 ≤ n then lo := mid + 1 else hi := mid
  if lo == 0 then return none else return some arr[lo - 1]!

def asciiTab : UTab :=
  { isLetter := fun c => ('a' ≤ c && c ≤ 'z') || ('A' ≤ c && c ≤ 'Z'),
    lower := fun c => if 'A' ≤ c && c ≤ 'Z' then Char.ofNat (c.toNat + 32) else c }

def main (args : List String) : IO Unit := do
  let u ← match args with
    | dir :: _ => do
      let letters ← readPairs (dir ++ "/letters.txt")
      let lower ← readPairs (dir ++ "/lower.txt")
      pure ({ isLetter := fun c => match findLE letters c.toNat with | some (_, hi) => c.toNat ≤ hi | none => false,
              lower := fun c => match findLE lower c.toNat with | some (k, v) => if k == c.toNat then Char.ofNat v else c | none => c } : UTab)
    | [] => pure asciiTab
  loop u (← IO.getStdin) (← IO.getStdout)
