/-
`klogv-gsdriver`: line protocol over the TRANSLATED Go source (KlogV/Gen/GoSrc.lean, regenerated on every run).  It is a separate
executable so that a change of the Go code which the translator turns into something Lean rejects breaks this tie (and the
theorems about it) but not the model driver that every check needs.  Core Lean only.
-/
import KlogV.Model.Canon
import KlogV.Gen.GoSrc
import KlogV.Gen.GoTxt
import KlogV.Gen.GoPar
import KlogV.Gen.GoCal
import KlogV.Gen.GoFmt
import KlogV.Gen.Regexes
import KlogV.GoSem.RxSpec
open KlogV

/-! ### `gs.*`: the same questions answered by the TRANSLATED Go source (KlogV/Gen/GoSrc.lean); the harness compares the
answers with the running code, which validates the translator and the Go-semantics prelude. -/

def gRes {α} (f : α → String) : Go.G α → String
  | .ok a => f a
  | .error (.err _) => "err"
  | .error .panic => "panic"

def gsCanonTime (t : GoSrc.time) : String := s!"{t.hour}:{t.minute}:{t.dayShift}:{b01 t.format.Use24HourClock}"
def gsStr (x : Go.G Go.Str) : String := match x with | .ok s => String.ofList s | .error (.err _) => "<err>" | .error .panic => "<panic>"
def gsInt (x : Go.G Int) : String := match x with | .ok s => toString s | .error (.err _) => "<err>" | .error .panic => "<panic>"
def gsTimeOfArgs (h m s f : String) : GoSrc.time := ⟨h.toInt!, m.toInt!, s.toInt!, ⟨f == "1"⟩⟩
def gsGroups (toks : List String) : List Go.Str := toks.map (fun t => if t == "-" then [] else decodeGo (bytesOfHex t))

/-- the loop of the serial parser over the translated `ParseBlock`: blocks until nothing is consumed -/
def gsBlocksLoop : Nat → Go.BStr → Int → List (List GoTxt.Line) → Option (List (List GoTxt.Line))
  | 0, _, _, acc => some acc.reverse
  | fuel + 1, text, lines, acc =>
    match GoTxt.ParseBlock text lines with
    | .ok (some b, n) =>
      if n == 0 then some acc.reverse else gsBlocksLoop fuel (text.drop n.toNat) (lines + b.lines.length) (b.lines :: acc)
    | .ok (none, _) => some acc.reverse
    | .error _ => none

def gsLineToModel (l : GoTxt.Line) : Line :=
  ⟨l.Text, if l.LineEnding == [13, 10] then .crlf else if l.LineEnding == [10] then .lf else .none⟩

def gsSigLine (b : List GoTxt.Line) : String :=
  match (⟨0, b⟩ : GoTxt.block).SignificantLines with
  | .ok (sig, h, t) => s!"{sig.length}/{h}/{t}"
  | .error _ => "!"

/-! ### `rx.groups`: what the GENERIC contract `SubmatchSpec` (GoSem/RxSpec.lean) says `FindStringSubmatch` returns, computed
from the syntax tree translated from the source: all words of the marked language over the input (a list-of-successes parser,
validation code, nothing is proved about it), and the group texts read off each. -/

partial def rxParse (env : Rx.Env) : Rx.Re → List Nat → List (List Nat × List Nat)
  | .zero, _ => []
  | .eps, inp => [([], inp)]
  | .cls c, inp =>
    match c.neg, c.ranges, c.named with
    | false, [(a, b)], [] =>
      if a == b && a ≥ Rx.maxRune then [([a], inp)]      -- a marker: emitted, consumes nothing
      else (match inp with | x :: r => if c.mem env x then [([x], r)] else [] | [] => [])
    | _, _, _ => (match inp with | x :: r => if c.mem env x then [([x], r)] else [] | [] => [])
  | .cat a b, inp => (rxParse env a inp).flatMap fun (u, r1) => (rxParse env b r1).map fun (v, r2) => (u ++ v, r2)
  | .alt a b, inp => rxParse env a inp ++ rxParse env b inp
  | .star a, inp => ([], inp) :: ((rxParse env a inp).filter (fun p => p.2.length < inp.length)).flatMap fun (u, r1) =>
      (rxParse env (.star a) r1).map fun (v, r2) => (u ++ v, r2)
  | .group _ a, inp => rxParse env a inp

def rxAsciiEnv : Rx.Env := fun k a =>
  if k == 0 then (65 ≤ a && a ≤ 90) || (97 ≤ a && a ≤ 122) else if k == 1 then a == 32 else false

def rxGroupsLine (name : String) (n : Nat) (s : List Char) : String :=
  match Gen.allRegexes.find? (fun g => g.1 == name) with
  | none => "no-such-pattern"
  | some g =>
    let ms := ((rxParse rxAsciiEnv (Rx.mark g.2.1) (s.map Char.toNat)).filter (fun p => p.2.isEmpty)).map (·.1)
    let ms := ms.eraseDups
    match ms with
    | [] => "nil"
    | _ => " | ".intercalate (ms.map fun m =>
        " ".intercalate ((s :: (List.range n).map (fun i => groupText m (i + 1))).map (fun g => hexOrDash (hexOfChars g))))

def handleGs (args : List String) : Option String :=
  match args with
  | "gs.time" :: h :: groups =>
    some (gRes (fun t => "ok " ++ gsCanonTime t ++ " " ++ gsStr t.ToString ++ " " ++ gsInt (t.MidnightOffset >>= fun d => d.InMinutes))
      (GoSrc.NewTimeFromString (fun _ => gsGroups groups) (decodeGo (bytesOfHex h))))
  | "gs.dur" :: h :: groups =>
    some (gRes (fun d => "ok " ++ gsInt d.InMinutes ++ " " ++ gsStr d.ToString ++ " " ++ gsStr d.ToStringWithSign)
      (GoSrc.NewDurationFromString (fun _ => gsGroups groups) (decodeGo (bytesOfHex h))))
  | ["gs.timeplus", h, m, s, f, d] =>
    some (gRes (fun t => "ok " ++ gsCanonTime t ++ " " ++ gsStr t.ToString)
      (do let dur ← GoSrc.NewDuration 0 d.toInt!; (gsTimeOfArgs h m s f).Plus dur))
  | ["gs.range", h1, m1, s1, h2, m2, s2] =>
    some (gRes (fun r => "ok " ++ gsInt (r.Duration >>= fun d => d.InMinutes) ++ " " ++ gsStr r.ToString)
      (GoSrc.NewRange (gsTimeOfArgs h1 m1 s1 "1") (gsTimeOfArgs h2 m2 s2 "1")))
  | ["gs.rounding", h] => some (gRes (fun r => s!"ok {r.val}") (GoSrc.NewRoundingFromString (decodeGo (bytesOfHex h))))
  | ["gs.round", h, m, s, v] => some (gRes (fun t => "ok " ++ gsCanonTime t) (GoSrc.RoundToNearest (gsTimeOfArgs h m s "1") ⟨v.toInt!⟩))
  | ["gs.newdur", h, m] => some (gRes (fun d => s!"ok {d.minutes}") (GoSrc.NewDuration h.toInt! m.toInt!))
  | ["gs.durarith", a, b] =>
    let da : GoSrc.duration := ⟨a.toInt!, ⟨false, 0⟩⟩
    let db : GoSrc.duration := ⟨b.toInt!, ⟨false, 0⟩⟩
    some (gRes (fun d => s!"{d.minutes}") (da.Plus db) ++ " " ++ gRes (fun d => s!"{d.minutes}") (da.Minus db) ++ " " ++ gsStr da.ToString ++ " " ++ gsStr da.ToStringWithSign)
  | ["gs.blocks", h] =>
    let text := bytesOfHex h
    some (match gsBlocksLoop (text.length + 1) text 0 [] with
      | some bs => "ok " ++ canonBlocks (bs.map (·.map gsLineToModel)) ++ " sig=" ++ commaSep (bs.map gsSigLine)
      | none => "panic")
  | ["gs.chunks", h, n] =>
    let text := bytesOfHex h
    some (match GoPar.splitIntoChunks (text.length + 1) text n.toInt! with
      | .ok cs => "ok " ++ commaSep (cs.map (fun c => hexOrDash (hexOfBytes c)))
      | .error (.err m) => "err " ++ m
      | .error .panic => "panic")
  | "gs.date" :: h :: groups =>
    some (gRes (fun d => "ok " ++ gsStr d.ToString) (GoCal.NewDateFromString (fun _ => gsGroups groups) (decodeGo (bytesOfHex h))))
  | ["gs.cal", y, m, d] =>
    -- weekday, quarter, ISO week and the four periods of a date, by the translated calendar code
    let x : GoCal.date := ⟨y.toInt!, m.toInt!, d.toInt!, ⟨true⟩⟩
    let per (p : Go.G GoCal.periodData) : String := match p with
      | .ok q => gsStr q.since.ToString ++ ".." ++ gsStr q.until_.ToString
      | .error (.err _) => "err" | .error .panic => "panic"
    some (s!"wd={gsInt x.Weekday} q={gsInt x.Quarter} wk={match x.WeekNumber with | .ok (a, b) => s!"{a}-{b}" | _ => "!"} " ++
      s!"week={per (GoCal.Week.Period ⟨x⟩)} month={per (GoCal.Month.Period ⟨x⟩)} quarter={per (GoCal.Quarter.Period ⟨x⟩)} year={per (GoCal.Year.Period ⟨x⟩)}")
  | ["rx.groups", name, n, h] => some (rxGroupsLine name n.toNat! (decodeGo (bytesOfHex h)))
  | ["gs.reflow", n, h, pfx] =>
    let prefixes : List Go.BStr := if pfx == "none" then [] else (pfx.splitOn ",").map bytesOfHex
    some (match (⟨n.toInt!, [10]⟩ : GoFmt.Reflower).Reflow (bytesOfHex h) prefixes with
      | .ok t => "ok " ++ hexOrDash (hexOfBytes t)
      | .error (.err m) => "err " ++ m
      | .error .panic => "panic")
  | ["gs.translated"] => some (" ".intercalate GoSrc.translated)
  | _ => none


partial def gsLoop (hin : IO.FS.Stream) (hout : IO.FS.Stream) : IO Unit := do
  let line ← hin.getLine
  if line.isEmpty then return ()
  let line := (line.toList.filter (fun c => c != '\n' && c != '\r'))
  hout.putStrLn (match handleGs ((String.ofList line).splitOn " " |>.filter (· ≠ "")) with | some r => r | none => "bad-op")
  hout.flush
  gsLoop hin hout

def main : IO Unit := do gsLoop (← IO.getStdin) (← IO.getStdout)
