/- Calendar lemmas, part 1: day numbers, nextDay/prevDay, plusDays, injectivity, weekday. -/
import KlogV.Model.Calendar
namespace KlogV

theorem isLeap_iff (y : Nat) : isLeap y = true ↔ (y % 4 = 0 ∧ (y % 100 ≠ 0 ∨ y % 400 = 0)) := by
  unfold isLeap
  simp only [Bool.and_eq_true, Bool.or_eq_true, beq_iff_eq, bne_iff_ne]

theorem daysBeforeYear_succ (y : Nat) :
    daysBeforeYear ((y : Int) + 1) = daysBeforeYear y + (if isLeap y then 366 else 365) := by
  unfold daysBeforeYear
  by_cases h : isLeap y = true
  · rw [if_pos h]; rw [isLeap_iff] at h; omega
  · rw [if_neg h]; rw [isLeap_iff] at h; omega

theorem daysBeforeMonth_succ (y m : Nat) (h1 : 1 ≤ m) :
    daysBeforeMonth y (m + 1) = daysBeforeMonth y m + daysIn y m := by
  unfold daysBeforeMonth
  obtain ⟨k, rfl⟩ : ∃ k, m = k + 1 := ⟨m - 1, by omega⟩
  simp [List.range_succ]

theorem daysBeforeMonth_one (y : Nat) : daysBeforeMonth y 1 = 0 := by
  simp [daysBeforeMonth]


def leap (y : Nat) : Nat := if isLeap y then 1 else 0

theorem leap_le (y : Nat) : leap y ≤ 1 := by unfold leap; split <;> omega

theorem daysIn_eq (y m : Nat) :
    daysIn y m = if m = 2 then 28 + leap y else if m = 4 ∨ m = 6 ∨ m = 9 ∨ m = 11 then 30 else 31 := by
  unfold daysIn leap
  by_cases h : isLeap y = true <;> simp [h, or_assoc]

theorem dbm_eq (y m : Nat) (h1 : 1 ≤ m) (h2 : m ≤ 13) :
    daysBeforeMonth y m = if m ≤ 2 then 31 * (m - 1) else (153 * (m - 3) + 2) / 5 + 59 + leap y := by
  have : m = 1 ∨ m = 2 ∨ m = 3 ∨ m = 4 ∨ m = 5 ∨ m = 6 ∨ m = 7 ∨ m = 8 ∨ m = 9 ∨ m = 10 ∨ m = 11 ∨ m = 12 ∨ m = 13 := by omega
  rcases this with h | h | h | h | h | h | h | h | h | h | h | h | h <;> subst h <;>
    simp [daysBeforeMonth, List.range_succ, daysIn_eq] <;> omega


theorem daysIn_spec (y m : Nat) :
    (m = 2 → daysIn y m = 28 + leap y) ∧ (m = 4 ∨ m = 6 ∨ m = 9 ∨ m = 11 → daysIn y m = 30) ∧
    (m ≠ 2 ∧ m ≠ 4 ∧ m ≠ 6 ∧ m ≠ 9 ∧ m ≠ 11 → daysIn y m = 31) := by
  rw [daysIn_eq]
  refine ⟨?_, ?_, ?_⟩ <;> intro h
  · simp [h]
  · rw [if_neg (by omega), if_pos h]
  · rw [if_neg (by omega), if_neg (by omega)]

theorem dbm_spec (y m : Nat) (h1 : 1 ≤ m) (h2 : m ≤ 13) :
    (m = 1 → daysBeforeMonth y m = 0) ∧ (m = 2 → daysBeforeMonth y m = 31) ∧
    (m = 3 → daysBeforeMonth y m = 59 + leap y) ∧ (m = 4 → daysBeforeMonth y m = 90 + leap y) ∧
    (m = 5 → daysBeforeMonth y m = 120 + leap y) ∧ (m = 6 → daysBeforeMonth y m = 151 + leap y) ∧
    (m = 7 → daysBeforeMonth y m = 181 + leap y) ∧ (m = 8 → daysBeforeMonth y m = 212 + leap y) ∧
    (m = 9 → daysBeforeMonth y m = 243 + leap y) ∧ (m = 10 → daysBeforeMonth y m = 273 + leap y) ∧
    (m = 11 → daysBeforeMonth y m = 304 + leap y) ∧ (m = 12 → daysBeforeMonth y m = 334 + leap y) ∧
    (m = 13 → daysBeforeMonth y m = 365 + leap y) := by
  rw [dbm_eq y m h1 h2]
  refine ⟨?_, ?_, ?_, ?_, ?_, ?_, ?_, ?_, ?_, ?_, ?_, ?_, ?_⟩ <;> intro h <;> subst h <;> simp <;> omega

/-- Everything about month `m` of year `y`, one disjunct per month. -/
theorem month_facts (y m : Nat) (h1 : 1 ≤ m) (h2 : m ≤ 12) :
    (m = 1 ∧ daysBeforeMonth y m = 0 ∧ daysIn y m = 31 ∧ daysBeforeMonth y (m + 1) = 31) ∨
    (m = 2 ∧ daysBeforeMonth y m = 31 ∧ daysIn y m = 28 + leap y ∧ daysBeforeMonth y (m + 1) = 59 + leap y) ∨
    (m = 3 ∧ daysBeforeMonth y m = 59 + leap y ∧ daysIn y m = 31 ∧ daysBeforeMonth y (m + 1) = 90 + leap y) ∨
    (m = 4 ∧ daysBeforeMonth y m = 90 + leap y ∧ daysIn y m = 30 ∧ daysBeforeMonth y (m + 1) = 120 + leap y) ∨
    (m = 5 ∧ daysBeforeMonth y m = 120 + leap y ∧ daysIn y m = 31 ∧ daysBeforeMonth y (m + 1) = 151 + leap y) ∨
    (m = 6 ∧ daysBeforeMonth y m = 151 + leap y ∧ daysIn y m = 30 ∧ daysBeforeMonth y (m + 1) = 181 + leap y) ∨
    (m = 7 ∧ daysBeforeMonth y m = 181 + leap y ∧ daysIn y m = 31 ∧ daysBeforeMonth y (m + 1) = 212 + leap y) ∨
    (m = 8 ∧ daysBeforeMonth y m = 212 + leap y ∧ daysIn y m = 31 ∧ daysBeforeMonth y (m + 1) = 243 + leap y) ∨
    (m = 9 ∧ daysBeforeMonth y m = 243 + leap y ∧ daysIn y m = 30 ∧ daysBeforeMonth y (m + 1) = 273 + leap y) ∨
    (m = 10 ∧ daysBeforeMonth y m = 273 + leap y ∧ daysIn y m = 31 ∧ daysBeforeMonth y (m + 1) = 304 + leap y) ∨
    (m = 11 ∧ daysBeforeMonth y m = 304 + leap y ∧ daysIn y m = 30 ∧ daysBeforeMonth y (m + 1) = 334 + leap y) ∨
    (m = 12 ∧ daysBeforeMonth y m = 334 + leap y ∧ daysIn y m = 31 ∧ daysBeforeMonth y (m + 1) = 365 + leap y) := by
  have hm : m = 1 ∨ m = 2 ∨ m = 3 ∨ m = 4 ∨ m = 5 ∨ m = 6 ∨ m = 7 ∨ m = 8 ∨ m = 9 ∨ m = 10 ∨ m = 11 ∨ m = 12 := by omega
  rcases hm with h | h | h | h | h | h | h | h | h | h | h | h <;> subst h <;>
    simp [dbm_eq, daysIn_eq]

theorem valid_iff (x : Date) : x.valid = true ↔
    (x.y ≤ 9999 ∧ 1 ≤ x.m ∧ x.m ≤ 12 ∧ 1 ≤ x.d ∧ x.d ≤ daysIn x.y x.m) := by
  unfold Date.valid
  simp only [Bool.and_eq_true, decide_eq_true_eq]
  omega

theorem dby_succ' (y : Nat) : daysBeforeYear ((y : Int) + 1) = daysBeforeYear y + 365 + leap y := by
  rw [daysBeforeYear_succ]; unfold leap; split <;> simp <;> omega

theorem dayNumber_nextDay (x : Date) (h : x.valid = true) : dayNumber (nextDay x) = dayNumber x + 1 := by
  rw [valid_iff] at h
  obtain ⟨hy, hm1, hm2, hd1, hd2⟩ := h
  have hL := leap_le x.y
  unfold nextDay
  split
  · simp only [dayNumber]; omega
  · split
    · simp only [dayNumber]
      rcases month_facts x.y x.m hm1 hm2 with h | h | h | h | h | h | h | h | h | h | h | h <;>
        obtain ⟨h1, h2, h3, h4⟩ := h <;> omega
    · simp only [dayNumber]
      have hb' := daysBeforeMonth_one (x.y + 1)
      have := dby_succ' x.y
      have : ((x.y + 1 : Nat) : Int) = (x.y : Int) + 1 := by omega
      rw [this]
      rcases month_facts x.y x.m hm1 hm2 with h | h | h | h | h | h | h | h | h | h | h | h <;>
        obtain ⟨h1, h2, h3, h4⟩ := h <;> omega

theorem isLastDay_iff (x : Date) : isLastDay x = true ↔ (x.y = 9999 ∧ x.m = 12 ∧ x.d = 31) := by
  unfold isLastDay; simp only [Bool.and_eq_true, beq_iff_eq]; omega

theorem isFirstDay_iff (x : Date) : isFirstDay x = true ↔ (x.y = 0 ∧ x.m = 1 ∧ x.d = 1) := by
  unfold isFirstDay; simp only [Bool.and_eq_true, beq_iff_eq]; omega

theorem nextDay_valid (x : Date) (h : x.valid = true) (hl : isLastDay x = false) : (nextDay x).valid = true := by
  have hl' : ¬ (x.y = 9999 ∧ x.m = 12 ∧ x.d = 31) := by
    rw [← isLastDay_iff, hl]; simp
  rw [valid_iff] at h
  obtain ⟨hy, hm1, hm2, hd1, hd2⟩ := h
  rw [valid_iff]
  unfold nextDay
  split
  · simp only; omega
  · split
    · simp only
      rcases month_facts x.y (x.m + 1) (by omega) (by omega) with h | h | h | h | h | h | h | h | h | h | h | h <;>
        obtain ⟨h1, h2, h3, h4⟩ := h <;> omega
    · simp only
      have hm : x.m = 12 := by omega
      rcases month_facts x.y x.m hm1 hm2 with h | h | h | h | h | h | h | h | h | h | h | h <;>
        obtain ⟨h1, h2, h3, h4⟩ := h <;> try omega
      rcases month_facts (x.y + 1) 1 (by omega) (by omega) with h | h | h | h | h | h | h | h | h | h | h | h <;>
        obtain ⟨g1, g2, g3, g4⟩ := h <;> omega

theorem prevDay_spec (x : Date) (h : x.valid = true) (hf : isFirstDay x = false) :
    (prevDay x).valid = true ∧ dayNumber (prevDay x) = dayNumber x - 1 := by
  have hf' : ¬ (x.y = 0 ∧ x.m = 1 ∧ x.d = 1) := by
    rw [← isFirstDay_iff, hf]; simp
  rw [valid_iff] at h
  obtain ⟨hy, hm1, hm2, hd1, hd2⟩ := h
  rw [valid_iff]
  have hL := leap_le x.y
  unfold prevDay
  split
  · simp only [dayNumber]; omega
  · split
    · simp only [dayNumber]
      have e : x.m - 1 + 1 = x.m := by omega
      rcases month_facts x.y (x.m - 1) (by omega) (by omega) with h | h | h | h | h | h | h | h | h | h | h | h <;>
        obtain ⟨h1, h2, h3, h4⟩ := h <;> rw [e] at h4 <;> omega
    · simp only [dayNumber]
      have hm : x.m = 1 := by omega
      have hd : x.d = 1 := by omega
      have hy0 : 1 ≤ x.y := by omega
      have := dby_succ' (x.y - 1)
      have e : ((x.y - 1 : Nat) : Int) + 1 = (x.y : Int) := by omega
      rw [e] at this
      have hb' := daysBeforeMonth_one x.y
      rw [hm, hd]
      rcases month_facts (x.y - 1) 12 (by omega) (by omega) with h | h | h | h | h | h | h | h | h | h | h | h <;>
        obtain ⟨h1, h2, h3, h4⟩ := h <;> omega

theorem dby_mono (a b : Nat) (h : a ≤ b) : daysBeforeYear a ≤ daysBeforeYear b := by
  induction b with
  | zero => have : a = 0 := by omega
            subst this; exact Int.le_refl _
  | succ n ih =>
    by_cases h' : a = n + 1
    · subst h'; exact Int.le_refl _
    · have := ih (by omega)
      have h2 := dby_succ' n
      have : ((n + 1 : Nat) : Int) = (n : Int) + 1 := by omega
      rw [this]; omega

theorem dbm_mono (y a b : Nat) (h1 : 1 ≤ a) (h : a ≤ b) : daysBeforeMonth y a ≤ daysBeforeMonth y b := by
  induction b with
  | zero => omega
  | succ n ih =>
    by_cases h' : a = n + 1
    · subst h'; exact Nat.le_refl _
    · have := ih (by omega)
      rw [daysBeforeMonth_succ y n (by omega)]; omega

theorem dby_zero : daysBeforeYear 0 = 0 := by decide
theorem dby_10000 : daysBeforeYear 10000 = 3652425 := by decide

theorem dayNumber_lt_next_month (x : Date) (h : x.valid = true) :
    dayNumber x < daysBeforeYear x.y + daysBeforeMonth x.y (x.m + 1) := by
  rw [valid_iff] at h
  obtain ⟨hy, hm1, hm2, hd1, hd2⟩ := h
  rw [daysBeforeMonth_succ _ _ hm1]; unfold dayNumber; omega

theorem dbm_13 (y : Nat) : daysBeforeMonth y 13 = 365 + leap y := by
  rw [dbm_eq _ _ (by omega) (by omega)]; simp

theorem dayNumber_lt_next_year (x : Date) (h : x.valid = true) :
    dayNumber x < daysBeforeYear ((x.y : Int) + 1) := by
  have h1 := dayNumber_lt_next_month x h
  rw [valid_iff] at h
  obtain ⟨hy, hm1, hm2, hd1, hd2⟩ := h
  have := dbm_mono x.y (x.m + 1) 13 (by omega) (by omega)
  rw [dbm_13] at this
  rw [dby_succ']; omega

theorem dayNumber_ge_year (x : Date) (h : x.valid = true) : daysBeforeYear x.y ≤ dayNumber x := by
  rw [valid_iff] at h
  unfold dayNumber; omega

theorem dayNumber_range (x : Date) (hx : x.valid = true) : 0 ≤ dayNumber x ∧ dayNumber x ≤ 3652424 := by
  have h1 := dayNumber_ge_year x hx
  have h2 := dayNumber_lt_next_year x hx
  have hy : x.y ≤ 9999 := by rw [valid_iff] at hx; exact hx.1
  have h3 := dby_mono 0 x.y (by omega)
  have h4 := dby_mono (x.y + 1) 10000 (by omega)
  have : ((x.y + 1 : Nat) : Int) = (x.y : Int) + 1 := by omega
  rw [this] at h4
  have e1 : ((0 : Nat) : Int) = 0 := rfl
  have e2 : ((10000 : Nat) : Int) = 10000 := rfl
  rw [e1, dby_zero] at h3
  rw [e2, dby_10000] at h4
  omega

theorem dayNumber_lt_of_lt (x y : Date) (hx : x.valid = true) (hy : y.valid = true)
    (h : x.y < y.y ∨ (x.y = y.y ∧ (x.m < y.m ∨ (x.m = y.m ∧ x.d < y.d)))) : dayNumber x < dayNumber y := by
  rcases h with h | ⟨h, h' | ⟨h', h''⟩⟩
  · have h1 := dayNumber_lt_next_year x hx
    have h2 := dayNumber_ge_year y hy
    have h3 := dby_mono (x.y + 1) y.y (by omega)
    have : ((x.y + 1 : Nat) : Int) = (x.y : Int) + 1 := by omega
    rw [this] at h3
    omega
  · have h1 := dayNumber_lt_next_month x hx
    rw [valid_iff] at hx hy
    have := dbm_mono x.y (x.m + 1) y.m (by omega) (by omega)
    unfold dayNumber at *
    rw [← h]; omega
  · unfold dayNumber; rw [h, h']; omega

theorem dayNumber_inj (x y : Date) (hx : x.valid = true) (hy : y.valid = true)
    (h : dayNumber x = dayNumber y) : x.sameDay y = true := by
  unfold Date.sameDay
  simp only [Bool.and_eq_true, beq_iff_eq]
  have h1 := dayNumber_lt_of_lt x y hx hy
  have h2 := dayNumber_lt_of_lt y x hy hx
  by_cases a1 : x.y < y.y
  · have := h1 (Or.inl a1); omega
  by_cases a2 : y.y < x.y
  · have := h2 (Or.inl a2); omega
  have ey : x.y = y.y := by omega
  by_cases b1 : x.m < y.m
  · have := h1 (Or.inr ⟨ey, Or.inl b1⟩); omega
  by_cases b2 : y.m < x.m
  · have := h2 (Or.inr ⟨ey.symm, Or.inl b2⟩); omega
  have em : x.m = y.m := by omega
  by_cases c1 : x.d < y.d
  · have := h1 (Or.inr ⟨ey, Or.inr ⟨em, c1⟩⟩); omega
  by_cases c2 : y.d < x.d
  · have := h2 (Or.inr ⟨ey.symm, Or.inr ⟨em.symm, c2⟩⟩); omega
  omega


theorem dayNumber_last (x : Date) (h : isLastDay x = true) : dayNumber x = 3652424 := by
  rw [isLastDay_iff] at h
  obtain ⟨h1, h2, h3⟩ := h
  unfold dayNumber; rw [h1, h2, h3]; decide

theorem dayNumber_first (x : Date) (h : isFirstDay x = true) : dayNumber x = 0 := by
  rw [isFirstDay_iff] at h
  obtain ⟨h1, h2, h3⟩ := h
  unfold dayNumber; rw [h1, h2, h3]; decide

theorem isLastDay_of_dayNumber (x : Date) (hx : x.valid = true) (h : dayNumber x = 3652424) :
    isLastDay x = true := by
  cases hl : isLastDay x with
  | true => rfl
  | false =>
    have h1 := nextDay_valid x hx hl
    have h2 := dayNumber_nextDay x hx
    have := dayNumber_range _ h1
    omega

theorem isFirstDay_of_dayNumber (x : Date) (hx : x.valid = true) (h : dayNumber x = 0) :
    isFirstDay x = true := by
  cases hl : isFirstDay x with
  | true => rfl
  | false =>
    have h1 := prevDay_spec x hx hl
    have := dayNumber_range _ h1.1
    omega

theorem plusDaysFwd_some (n : Nat) (x y : Date) (h : x.valid = true) (hy : plusDaysFwd n x = some y) :
    y.valid = true ∧ dayNumber y = dayNumber x + n := by
  induction n generalizing x with
  | zero => simp [plusDaysFwd] at hy; subst hy; simp [h]
  | succ n ih =>
    unfold plusDaysFwd at hy
    cases hl : isLastDay x with
    | true => simp [hl] at hy
    | false =>
      simp [hl] at hy
      have := ih (nextDay x) (nextDay_valid x h hl) hy
      rw [dayNumber_nextDay x h] at this
      refine ⟨this.1, ?_⟩
      omega

theorem plusDaysBwd_some (n : Nat) (x y : Date) (h : x.valid = true) (hy : plusDaysBwd n x = some y) :
    y.valid = true ∧ dayNumber y = dayNumber x - n := by
  induction n generalizing x with
  | zero => simp [plusDaysBwd] at hy; subst hy; simp [h]
  | succ n ih =>
    unfold plusDaysBwd at hy
    cases hl : isFirstDay x with
    | true => simp [hl] at hy
    | false =>
      simp [hl] at hy
      have hp := prevDay_spec x h hl
      have := ih (prevDay x) hp.1 hy
      rw [hp.2] at this
      refine ⟨this.1, ?_⟩
      omega

theorem plusDays_some (x y : Date) (n : Int) (h : x.valid = true) (hy : x.plusDays n = some y) :
    y.valid = true ∧ dayNumber y = dayNumber x + n := by
  unfold Date.plusDays at hy
  split at hy
  · have := plusDaysFwd_some _ x y h hy
    refine ⟨this.1, ?_⟩
    omega
  · have := plusDaysBwd_some _ x y h hy
    refine ⟨this.1, ?_⟩
    omega

theorem plusDaysFwd_none_iff (n : Nat) (x : Date) (h : x.valid = true) :
    plusDaysFwd n x = none ↔ dayNumber x + n > 3652424 := by
  induction n generalizing x with
  | zero =>
    have := dayNumber_range x h
    simp [plusDaysFwd]; omega
  | succ n ih =>
    unfold plusDaysFwd
    cases hl : isLastDay x with
    | true =>
      have := dayNumber_last x hl
      simp; omega
    | false =>
      simp
      rw [ih _ (nextDay_valid x h hl), dayNumber_nextDay x h]
      omega

theorem plusDaysBwd_none_iff (n : Nat) (x : Date) (h : x.valid = true) :
    plusDaysBwd n x = none ↔ dayNumber x - n < 0 := by
  induction n generalizing x with
  | zero =>
    have := dayNumber_range x h
    simp [plusDaysBwd]; omega
  | succ n ih =>
    unfold plusDaysBwd
    cases hl : isFirstDay x with
    | true =>
      have := dayNumber_first x hl
      simp; omega
    | false =>
      simp
      have hp := prevDay_spec x h hl
      rw [ih _ hp.1, hp.2]
      omega

theorem plusDays_none_iff (x : Date) (n : Int) (h : x.valid = true) :
    x.plusDays n = none ↔ (dayNumber x + n < 0 ∨ dayNumber x + n > 3652424) := by
  have := dayNumber_range x h
  unfold Date.plusDays
  split
  · rw [plusDaysFwd_none_iff _ _ h]; omega
  · rw [plusDaysBwd_none_iff _ _ h]; omega

/-- Existence form: `plusDays` yields a date whenever the target lies in range. -/
theorem plusDays_exists (x : Date) (n : Int) (h : x.valid = true)
    (h0 : 0 ≤ dayNumber x + n) (h1 : dayNumber x + n ≤ 3652424) :
    ∃ y, x.plusDays n = some y ∧ y.valid = true ∧ dayNumber y = dayNumber x + n := by
  cases hp : x.plusDays n with
  | none => rw [plusDays_none_iff x n h] at hp; omega
  | some y => exact ⟨y, rfl, plusDays_some x y n h hp⟩


theorem weekdayOfNumber_succ (dn : Int) : weekdayOfNumber (dn + 1) = weekdayOfNumber dn % 7 + 1 := by
  unfold weekdayOfNumber; omega

theorem weekdayOfNumber_bounds (dn : Int) : 1 ≤ weekdayOfNumber dn ∧ weekdayOfNumber dn ≤ 7 := by
  unfold weekdayOfNumber; omega

theorem weekday_nextDay (x : Date) (h : x.valid = true) : (nextDay x).weekday = x.weekday % 7 + 1 := by
  unfold Date.weekday; rw [dayNumber_nextDay x h, weekdayOfNumber_succ]

theorem weekday_bounds (x : Date) : 1 ≤ x.weekday ∧ x.weekday ≤ 7 := weekdayOfNumber_bounds _

/-- The weekday as an Int expression that `omega` understands. -/
theorem weekday_eq (x : Date) : (x.weekday : Int) = (dayNumber x + 5) % 7 + 1 := by
  unfold Date.weekday weekdayOfNumber; omega

theorem quarter_spec (x : Date) (h : x.valid = true) :
    1 ≤ x.quarter ∧ x.quarter ≤ 4 ∧ 3 * (x.quarter - 1) < x.m ∧ x.m ≤ 3 * x.quarter := by
  rw [valid_iff] at h
  unfold Date.quarter; omega


end KlogV
