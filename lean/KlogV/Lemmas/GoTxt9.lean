/- Helper lemmas for KlogV/Lemmas/GoTxt.lean: utf8.DecodeLastRuneInString against the forward decoding; ParseBlock. Core Lean only. -/
import KlogV.Lemmas.GoTxt8
set_option linter.unusedSimpArgs false
namespace KlogV.GoL.T
open KlogV.Go

theorem find_range' {p : Nat → Bool} (f : Nat → Nat) (N : Nat) : ∀ (a j : Nat), j < N → p (f (a + j)) = true →
    (∀ i, i < j → p (f (a + i)) = false) → ((List.range' a N).map f).find? p = some (f (a + j)) := by
  induction N with
  | zero => intro a j h; omega
  | succ N ih =>
    intro a j hj hp hpre
    rw [List.range'_succ, List.map_cons, List.find?_cons]
    cases j with
    | zero => rw [Nat.add_zero] at hp; rw [hp]; rfl
    | succ j =>
      have := hpre 0 (by omega)
      rw [Nat.add_zero] at this
      rw [this]
      have e : a + (j + 1) = a + 1 + j := by omega
      rw [e]
      apply ih (a + 1) j (by omega) (by rw [← e]; exact hp)
      intro i hi
      have := hpre (i + 1) (by omega)
      have e2 : a + (i + 1) = a + 1 + i := by omega
      rw [← e2]; exact this

theorem find_range {p : Nat → Bool} (f : Nat → Nat) (N j : Nat) (hj : j < N) (hp : p (f j) = true)
    (hpre : ∀ i, i < j → p (f i) = false) : ((List.range N).map f).find? p = some (f j) := by
  rw [List.range_eq_range']
  have := find_range' (p := p) f N 0 j hj (by rw [Nat.zero_add]; exact hp) (by intro i hi; rw [Nat.zero_add]; exact hpre i hi)
  rw [Nat.zero_add] at this; exact this

set_option maxRecDepth 20000 in
theorem cont_mask : ∀ n, n < 256 → 0x80 ≤ n → n ≤ 0xBF → (n &&& 0xC0) = 0x80 := by decide
set_option maxRecDepth 20000 in
theorem start_mask : ∀ n, n < 256 → 0xC0 ≤ n → (n &&& 0xC0) = 0xC0 := by decide

theorem isStart_cont (c : UInt8) (h : isCont c = true) : ((c.toNat &&& 0xC0) != 0x80) = false := by
  have := (isCont_iff c).mp h
  rw [cont_mask _ (u8_lt c) this.1 this.2]; rfl

theorem isStart_start (c : UInt8) (h : 0xC2 ≤ c.toNat) : ((c.toNat &&& 0xC0) != 0x80) = true := by
  rw [start_mask _ (u8_lt c) (by omega)]; rfl

def isStartAt (s : Bytes) (i : Nat) : Bool :=
  match s[i]? with | some b => (b.toNat &&& 0xC0) != 0x80 | none => false

def startOf (s : Bytes) : Nat :=
  match ((List.range (s.length - 1 - (s.length - 4))).map (fun k => s.length - 2 - k)).find? (isStartAt s) with
  | some i => i
  | none => if s.length - 4 = 0 then 0 else s.length - 4 - 1

theorem dlr_unfold (s : Bytes) (lastB : UInt8) (h : s.getLast? = some lastB) (hb : ¬ lastB.toNat < 0x80) :
    utf8DecodeLastRune s =
      if startOf s + (decodeRune (s.drop (startOf s))).2 = s.length then
        (((decodeRune (s.drop (startOf s))).1.toNat : Int), ((decodeRune (s.drop (startOf s))).2 : Int))
      else (0xFFFD, 1) := by
  unfold utf8DecodeLastRune
  simp only [h, hb, if_false]
  rfl

theorem dlr_ascii (s : Bytes) (lastB : UInt8) (h : s.getLast? = some lastB) (hb : lastB.toNat < 0x80) :
    (utf8DecodeLastRune s).2 = 1 := by
  unfold utf8DecodeLastRune
  simp only [h, hb, if_true]

theorem startOf_lt (s : Bytes) (hs : s ≠ []) : startOf s < s.length := by
  have hn : 0 < s.length := List.length_pos_iff.mpr hs
  unfold startOf
  split
  · rename_i i hi
    have := List.mem_of_find?_eq_some hi
    obtain ⟨k, _, rfl⟩ := List.mem_map.mp this
    omega
  · split <;> omega

/-- without a rune of width ≥ 2 at the end, the last rune has width 1 -/
theorem dlr_noTail (s : Bytes) (hs : s ≠ []) (h : ∀ k, ¬ Tail s k) : (utf8DecodeLastRune s).2 = 1 := by
  obtain ⟨lastB, hl⟩ : ∃ b, s.getLast? = some b := ⟨s.getLast hs, List.getLast?_eq_some_getLast hs⟩
  by_cases hb : lastB.toNat < 0x80
  · exact dlr_ascii s lastB hl hb
  · rw [dlr_unfold s lastB hl hb]
    have hlt := startOf_lt s hs
    split
    · rename_i hc
      simp only
      obtain ⟨c, r, hcr⟩ : ∃ c r, s.drop (startOf s) = c :: r := by
        cases hd : s.drop (startOf s) with
        | nil =>
          have := congrArg List.length hd
          simp only [List.length_drop, List.length_nil] at this
          omega
        | cons c r => exact ⟨c, r, rfl⟩
      have hw := decodeRune_width_bounds c r
      rw [← hcr] at hw
      by_cases h2 : 2 ≤ (decodeRune (s.drop (startOf s))).2
      · exfalso
        apply h _
        refine ⟨h2, by omega, ?_⟩
        have : s.length - (decodeRune (s.drop (startOf s))).2 = startOf s := by omega
        rw [this]
      · have : (decodeRune (s.drop (startOf s))).2 = 1 := by omega
        rw [this]; rfl
    · rfl

/-- a rune of width ≥ 2 at the end is found -/
theorem dlr_tail (s : Bytes) (k : Nat) (h : Tail s k) : (utf8DecodeLastRune s).2 = (k : Int) := by
  obtain ⟨h1, h2, h3⟩ := h
  have hsplit : s.take (s.length - k) ++ s.drop (s.length - k) = s := List.take_append_drop _ _
  generalize hP : s.take (s.length - k) = P at hsplit
  generalize hR : s.drop (s.length - k) = R at hsplit h3
  have hPl : P.length = s.length - k := by rw [← hP, List.length_take]; omega
  have hRl : R.length = k := by rw [← hR, List.length_drop]; omega
  obtain ⟨b, rest, rfl⟩ : ∃ b rest, R = b :: rest := by
    cases R with
    | nil => simp at hRl; omega
    | cons b rest => exact ⟨b, rest, rfl⟩
  obtain ⟨cs, e, hc, hb⟩ := decodeRune_take b rest
  have hwb := decodeRune_width_bounds b rest
  rw [h3, ← hRl, List.take_length] at e
  have hcl : cs.length + 1 = k := by rw [← hRl, e]; rfl
  have hcne : cs ≠ [] := by intro h0; rw [h0] at hcl; simp at hcl; omega
  have hb' := hb hcne
  have hk4 : k ≤ 4 := by rw [← h3]; exact hwb.2.2
  have hn : s.length = P.length + k := by omega
  -- the last byte
  obtain ⟨lastB, hl⟩ : ∃ c, cs.getLast? = some c := ⟨cs.getLast hcne, List.getLast?_eq_some_getLast hcne⟩
  have hlast : s.getLast? = some lastB := by
    rw [← hsplit, e, List.getLast?_append, List.getLast?_cons_of_ne_nil hcne, hl]; rfl
  have hlc := (isCont_iff _).mp (hc _ (List.mem_of_getLast? hl))
  -- the start
  have hat0 : isStartAt s P.length = true := by
    unfold isStartAt
    rw [← hsplit, e, List.getElem?_append_right (Nat.le_refl _), Nat.sub_self]
    exact isStart_start b hb'
  have hatc : ∀ m, m < cs.length → isStartAt s (P.length + 1 + m) = false := by
    intro m hm
    unfold isStartAt
    rw [← hsplit, e, List.getElem?_append_right (by omega)]
    have : P.length + 1 + m - P.length = m + 1 := by omega
    rw [this, List.getElem?_cons_succ, List.getElem?_eq_getElem hm]
    exact isStart_cont _ (hc _ (List.getElem_mem hm))
  have hstart : startOf s = P.length := by
    unfold startOf
    rw [find_range (p := isStartAt s) (fun i => s.length - 2 - i) _ (k - 2) (by omega)
      (by
        have : s.length - 2 - (k - 2) = P.length := by omega
        simp only [this]; exact hat0)
      (by
        intro i hi
        have : s.length - 2 - i = P.length + 1 + (k - 3 - i) := by omega
        simp only [this]
        exact hatc _ (by omega))]
    simp only
    omega
  rw [dlr_unfold s lastB hlast (by omega), hstart]
  have hd : s.drop P.length = b :: rest := by
    rw [← hsplit]; exact List.drop_left
  rw [hd, h3, if_pos (by omega)]

/-- `utf8.DecodeLastRuneInString` finds the width of the last rune of the forward decoding -/
theorem dlr_eq (s : Bytes) : (utf8DecodeLastRune s).2 = (lastW s.length s : Int) := by
  cases s with
  | nil => rfl
  | cons b rest =>
    have hpos := lastW_pos (b :: rest).length (b :: rest) (by simp) (Nat.le_refl _)
    by_cases h2 : 2 ≤ lastW (b :: rest).length (b :: rest)
    · exact dlr_tail _ _ (lastW_tail _ _ (Nat.le_refl _) h2)
    · have h1 : lastW (b :: rest).length (b :: rest) = 1 := by omega
      rw [h1]
      exact dlr_noTail _ (by simp) (lastW_noTail _ _ (Nat.le_refl _) h1)

theorem parseBlock_eq (t : Bytes) (n : Int) (hlen : (t.length : Int) < 9223372036854775808) :
    GoTxt.ParseBlock t n = .ok (firstBlock t n) := by
  rw [pb_unf]
  have hloop := pb_loop t.length t (utf8DecodeLastRune t).2 0 [] [] t .pre (Nat.le_refl _) rfl rfl
    (fun _ => dlr_eq t) (fun h => rfl) (by simp) hlen
  have hinit : ((default : List GoTxt.Line), (0 : Int), (0 : Int), (0 : Int)) =
      (([] : List Line).map Line.toGo, ((countBytes [] : Nat) : Int), ((countBytes [] : Nat) : Int), modeInt .pre) := rfl
  have hspec := firstRun_spec (splitLines t) .pre []
  unfold splitLines at hspec
  obtain ⟨m, acc, hr⟩ : ∃ m acc, firstRun .pre [] ((splitRaw t).map Line.ofRaw) = (m, acc) := ⟨_, _, rfl⟩
  rw [List.nil_append, hr] at hloop
  rw [hr] at hspec
  unfold rangeStr
  rw [hinit, hloop]
  simp only [bind, Except.bind, pure, Except.pure, finalState]
  unfold firstBlock blocksOf blocksOfLines splitLines
  cases m with
  | pre =>
    obtain ⟨h1, h2⟩ := hspec.1 rfl
    simp only at h2
    rw [h1]
    simp only [modeInt]
    have : countBytes acc = t.length := by
      rw [h2, List.nil_append]
      show (joinLines (splitLines t)).length = _
      rw [joinLines_splitLines]
    rw [this]
    rfl
  | sig =>
    obtain ⟨rest, h1⟩ := hspec.2 (by simp)
    rw [h1]
    rfl
  | post =>
    obtain ⟨rest, h1⟩ := hspec.2 (by simp)
    rw [h1]
    rfl

end KlogV.GoL.T
