/-
C04b, part 4: an entry with a printed value is appended to a record (existing or new); `start`.
-/
import KlogV.Lemmas.RefineB3
namespace KlogV.RefineBLemmas
open KlogV KlogV.RefineLemmas KlogV.EditLemmas KlogV.GrammarLemmas

/-- a printed entry appended to the record of block `i` -/
theorem append_printed_existing (file : Bytes) (hcr : file.getLast? ≠ some 13) (rs : List Record) (bos : List BlockOut)
    (hp : parseDoc file = .records rs bos) (i : Nat) (r : Record) (bo : BlockOut)
    (hr : rs[i]? = some r) (hbo : bos[i]? = some bo) (v : EntryVal) (hv : ValWF v) (smb : List Bytes)
    (hs : CleanSummary smb) (rs' : List Record) (bos' : List BlockOut)
    (hp' : parseDoc (joinLines (insertLines (elect (determine r bo.lines) rs (bos.map (·.lines))) (bos.map (·.lines)).flatten
        (indexOfLastSignificantLine bo.first bo.lines) (toMultilineEntryTexts (bytesOfChars v.print) smb))) = .records rs' bos') :
    (joinLines (insertLines (elect (determine r bo.lines) rs (bos.map (·.lines))) (bos.map (·.lines)).flatten
        (indexOfLastSignificantLine bo.first bo.lines) (toMultilineEntryTexts (bytesOfChars v.print) smb))).getLast? ≠ some 13 ∧
      rs' = rs.take i ++ [{ r with entries := r.entries ++ [⟨v, Spec.normSummary (smb.map decodeGo)⟩] }] ++ rs.drop (i + 1) := by
  obtain ⟨hc1, ⟨b0, tl, hft, hb0⟩, _⟩ := firstText_props v smb hs
  rw [toMulti_eq, hft] at hp' ⊢
  have hclean : ∀ l ∈ (b0 :: tl) :: smb.drop 1, CleanLine l := by
    intro l hl
    rcases List.mem_cons.mp hl with rfl | hl
    · rw [← hft]; exact hc1
    · exact hs.1 l (List.mem_of_mem_drop hl)
  have hnb : ∀ l ∈ (b0 :: tl) :: smb.drop 1, l.all isBlankByte = false := by
    intro l hl
    rcases List.mem_cons.mp hl with rfl | hl
    · simp [hb0]
    · exact blank_bytes_summary l (hs.2 l hl)
  obtain ⟨t1, ind, e, t2, t3, t4⟩ := track_existing file hcr rs bos hp i r bo hr hbo b0 tl (smb.drop 1) hb0 hclean hnb rs' bos' hp'
  refine ⟨t1, ?_⟩
  have hg := printed_grp ind v hv smb hs
  rw [hft] at hg
  rw [t4, denotes_of_grp ind t2 _ _ e _ t3 hg]

/-- a printed entry as the only entry of a new record -/
theorem append_printed_fresh (file : Bytes) (hcr : file.getLast? ≠ some 13) (rs : List Record) (bos : List BlockOut)
    (hp : parseDoc file = .records rs bos) (d : Date) (hvd : d.valid = true) (fmt : Reformat Bool) (sh : Option Int)
    (v : EntryVal) (hv : ValWF v) (smb : List Bytes) (hs : CleanSummary smb)
    (rs' : List Record) (bos' : List BlockOut)
    (hp' : parseDoc (joinLines (insertLines (reconcilerForNewRecord d fmt { should := sh } rs bos).style
        (reconcilerForNewRecord d fmt { should := sh } rs bos).lines
        (reconcilerForNewRecord d fmt { should := sh } rs bos).lastLine
        (toMultilineEntryTexts (bytesOfChars v.print) smb))) = .records rs' bos') :
    (joinLines (insertLines (reconcilerForNewRecord d fmt { should := sh } rs bos).style
        (reconcilerForNewRecord d fmt { should := sh } rs bos).lines
        (reconcilerForNewRecord d fmt { should := sh } rs bos).lastLine
        (toMultilineEntryTexts (bytesOfChars v.print) smb))).getLast? ≠ some 13 ∧
    ∃ rec, Spec.InsertedAt rs (Spec.insertPos rs d) rec rs' ∧ Spec.SameDate rec.date d ∧ rec.shouldMins = sh.getD 0 ∧
      rec.summary = [] ∧ rec.entries = [⟨v, Spec.normSummary (smb.map decodeGo)⟩] := by
  obtain ⟨hc1, ⟨b0, tl, hft, hb0⟩, _⟩ := firstText_props v smb hs
  rw [toMulti_eq, hft] at hp' ⊢
  have hclean : ∀ l ∈ (b0 :: tl) :: smb.drop 1, CleanLine l := by
    intro l hl
    rcases List.mem_cons.mp hl with rfl | hl
    · rw [← hft]; exact hc1
    · exact hs.1 l (List.mem_of_mem_drop hl)
  have hnb : ∀ l ∈ (b0 :: tl) :: smb.drop 1, l.all isBlankByte = false := by
    intro l hl
    rcases List.mem_cons.mp hl with rfl | hl
    · simp [hb0]
    · exact blank_bytes_summary l (hs.2 l hl)
  obtain ⟨t1, ind, e, rec, t2, t3, t4, t5, t6, t7, t8⟩ :=
    track_fresh file hcr rs bos hp d hvd fmt sh b0 tl (smb.drop 1) hb0 hclean hnb rs' bos' hp'
  refine ⟨t1, rec, t4, t5, t6, t7, ?_⟩
  have hg := printed_grp ind v hv smb hs
  rw [hft] at hg
  rw [t8, denotes_of_grp ind t2 _ _ e _ t3 hg]

/-! ## `start` -/

theorem startOpenRange_inv (r r' : Reconciler) (t : Time) (fmt : Reformat Bool) (sm : List Bytes)
    (h : r.startOpenRange t fmt sm = some r') :
    findOpenRangeIndex r.record = none ∧ ∃ t' : Time, t'.offset = t.offset ∧ t'.wf = t.wf ∧
      r' = Reconciler.mk r.record r.style r.lastLine (insertLines r.style r.lines r.lastLine
        (toMultilineEntryTexts (bytesOfChars (EntryVal.openRange t' r.style.spaced.1 r.style.extraQ.1).print) sm)) r.recIdx := by
  unfold Reconciler.startOpenRange at h
  split at h
  · cases h
  · rename_i hno
    simp only [Option.some.injEq] at h
    refine ⟨by simpa using hno, ?_⟩
    cases hpk : fmt.pick r.style.time24.1 with
    | none =>
      rw [hpk] at h
      exact ⟨t, rfl, rfl, h.symm⟩
    | some b =>
      rw [hpk] at h
      exact ⟨{ t with is24 := b }, rfl, rfl, h.symm⟩

theorem findLastIdx_none {α} (p : α → Bool) (xs : List α) : findLastIdx p xs = none ↔ xs.any p = false := by
  unfold findLastIdx
  rw [Option.map_eq_none_iff, List.getLast?_eq_none_iff, List.filter_eq_nil_iff]
  constructor
  · intro h
    rw [List.any_eq_false]
    intro x hx
    obtain ⟨i, hi, rfl⟩ := List.getElem_of_mem hx
    have := h (xs[i], i) (by
      rw [List.mem_iff_getElem]
      exact ⟨i, by simpa using hi, by simp⟩)
    simpa using this
  · intro h a ha
    obtain ⟨x, i⟩ := a
    have hx : x ∈ xs := by
      have := List.mem_zipIdx ha
      simp only [Nat.zero_add] at this
      rw [this.2.2]
      exact List.getElem_mem _
    rw [List.any_eq_false] at h
    simpa using h x hx

theorem findOpen_none_iff (r : Record) : findOpenRangeIndex r = none ↔ r.hasOpen = false := by
  unfold findOpenRangeIndex Record.hasOpen
  exact findLastIdx_none _ _

theorem newRecord_record (d : Date) (fmt : Reformat Bool) (sh : Option Int) (rs : List Record) (bos : List BlockOut) :
    (reconcilerForNewRecord d fmt { should := sh } rs bos).record = ⟨d, sh, [], []⟩ := by
  unfold reconcilerForNewRecord
  dsimp only
  split
  · rfl
  · split <;> rfl

theorem runCmd_start_eq (u : UTab) (cfg : Config) (now : Instant) (a : AtArgs) (s : SummaryArgs)
    (file : Bytes) (rs : List Record) (bos : List BlockOut) (d : Date) (t : Time)
    (hp : parseDoc file = .records rs bos) (hd : atDate a.date now.date = some d) (ht : atTime a now cfg = .ok t) :
    runCmd u cfg now (.start a s) file =
      (reconcileFile file
        (fun rs bos => firstCreator [reconcilerAtRecord d rs bos,
          some (reconcilerForNewRecord d (dateFormatOf a.date cfg) { should := cfg.should } rs bos)])
        [fun r => match summaryOf s r.record (previousRecord d rs) with
          | none => .err
          | some sm => optRes (r.startOpenRange t (timeFormatOf a cfg) sm)]).1 := by
  unfold runCmd
  simp only [hd, ht, hp]
  rfl

/-- the creator of `start` / `track`: the record it is applied to is the "current record" -/
theorem creator_cases (file : Bytes) (rs : List Record) (bos : List BlockOut) (hp : parseDoc file = .records rs bos)
    (d : Date) (fmt : Reformat Bool) (sh : Option Int) (r0 : Reconciler)
    (hc : firstCreator [reconcilerAtRecord d rs bos, some (reconcilerForNewRecord d fmt { should := sh } rs bos)] = some r0) :
    (Spec.targetIdx rs d = none ∧ r0 = reconcilerForNewRecord d fmt { should := sh } rs bos ∧
      r0.record = currentRecord rs d sh) ∨
    (∃ r bo i, Spec.targetIdx rs d = some i ∧ rs[i]? = some r ∧ bos[i]? = some bo ∧
      r0 = Reconciler.mk r (elect (determine r bo.lines) rs (bos.map (·.lines)))
        (indexOfLastSignificantLine bo.first bo.lines) (bos.map (·.lines)).flatten i ∧
      r0.record = currentRecord rs d sh) := by
  rcases reconcilerAtRecord_cases d rs bos (bos_length file rs bos hp) with ⟨c1, c2⟩ | ⟨r, bo, i, c1, c2, c3, c4⟩
  · rw [c1, firstCreator_none_some] at hc
    cases hc
    refine Or.inl ⟨c2, rfl, ?_⟩
    rw [newRecord_record]
    unfold currentRecord
    rw [c2]
  · rw [c4, firstCreator_some] at hc
    cases hc
    refine Or.inr ⟨r, bo, i, c1, c2, c3, rfl, ?_⟩
    unfold currentRecord
    simp only [c1, c2]
    rfl

theorem currentRecord_wf (file : Bytes) (rs : List Record) (bos : List BlockOut) (hp : parseDoc file = .records rs bos)
    (d : Date) (sh : Option Int) : ∀ e ∈ (currentRecord rs d sh).entries, SumOK e.val e.summary := by
  unfold currentRecord
  cases Spec.targetIdx rs d with
  | none => intro e he; cases he
  | some i =>
    dsimp only
    cases hr : rs[i]? with
    | none => intro e he; cases he
    | some r =>
      intro e he
      exact (parseDoc_wf0 file rs bos hp r (List.mem_of_getElem? hr)).2.2.2.1 e he

/-- `start` (corrected: `hrcr`, a resumed summary has no line ending in a carriage return) -/
theorem start_refines_core (u : UTab) (cfg : Config) (now : Instant) (a : AtArgs) (s : SummaryArgs)
    (file file' : Bytes) (rs : List Record) (bos : List BlockOut) (d : Date) (t : Time)
    (hp : parseDoc file = .records rs bos) (hd : atDate a.date now.date = some d)
    (ht : atTime a now cfg = .ok t) (htw : t.wf = true)
    (hs : CleanSummary (s.text.getD [])) (hcr : file.getLast? ≠ some 13)
    (hv : Spec.targetIdx rs d = none → d.valid = true)
    (hrcr : s.text = none → ∀ sm, Spec.chosenSummary none s.resume s.resumeNth (currentRecord rs d cfg.should)
      (Spec.previousOf rs d) = some sm → ∀ l ∈ sm, l.getLast? ≠ some '\r')
    (h : runCmd u cfg now (.start a s) file = .ok file') :
    ∃ rs' bos' sm, parseDoc file' = .records rs' bos' ∧
      Spec.chosenSummary (s.text.map (·.map decodeGo)) s.resume s.resumeNth (currentRecord rs d cfg.should) (Spec.previousOf rs d) = some sm ∧
      Spec.Start rs d cfg.should t sm rs' := by
  rw [runCmd_start_eq u cfg now a s file rs bos d t hp hd ht] at h
  obtain ⟨r0, r1, rs', bos', hc, hf, hfile, hp'⟩ := reconcileFile_inv file _ _ rs bos file' hp h
  simp only [List.foldl_cons, List.foldl_nil, Res.bind] at hf
  cases hsm : summaryOf s r0.record (previousRecord d rs) with
  | none => rw [hsm] at hf; cases hf
  | some smb =>
  rw [hsm] at hf
  dsimp only at hf
  cases hso : r0.startOpenRange t (timeFormatOf a cfg) smb with
  | none => rw [hso] at hf; cases hf
  | some r1' =>
  rw [hso] at hf
  simp only [optRes, Res.ok.injEq] at hf
  subst hf
  obtain ⟨_, t', hto, htw', hr1⟩ := startOpenRange_inv r0 r1' t _ smb hso
  have hcur : r0.record = currentRecord rs d cfg.should := by
    rcases creator_cases file rs bos hp d _ _ r0 hc with ⟨_, _, h3⟩ | ⟨_, _, _, _, _, _, _, h3⟩ <;> exact h3
  rw [hcur, previousRecord_eq] at hsm
  have hchosen := summaryOf_chosen s (currentRecord rs d cfg.should) (Spec.previousOf rs d)
  rw [hsm] at hchosen
  simp only [Option.map_some] at hchosen
  have hclean : CleanSummary smb := by
    apply summaryOf_clean s _ _ smb hsm hs (currentRecord_wf file rs bos hp d cfg.should)
    · intro p hpp e he
      rw [← previousRecord_eq] at hpp
      exact (parseDoc_wf0 file rs bos hp p (previousRecord_mem d rs p hpp)).2.2.2.1 e he
    · intro htn
      apply hrcr htn
      rw [htn] at hchosen
      exact hchosen.symm
  have hvw : ValWF (EntryVal.openRange t' r0.style.spaced.1 r0.style.extraQ.1) := by
    show t'.wf = true
    rw [htw']; exact htw
  have hsame : ∀ x y, Spec.SameEntry ⟨EntryVal.openRange t' x y, Spec.normSummary (smb.map decodeGo)⟩
      ⟨.openRange t true 0, Spec.normSummary (smb.map decodeGo)⟩ := fun x y => ⟨hto, rfl⟩
  refine ⟨rs', bos', smb.map decodeGo, hp', hchosen.symm, ?_⟩
  subst hfile
  rw [hr1] at hp'
  dsimp only at hp'
  rcases creator_cases file rs bos hp d _ _ r0 hc with ⟨c2, c3, _⟩ | ⟨r, bo, i, c1, c2, c3, c4, _⟩
  · subst c3
    obtain ⟨_, rec, k1, k2, k3, k4, k5⟩ := append_printed_fresh file hcr rs bos hp d (hv c2) _ _ _ hvw smb hclean rs' bos' hp'
    exact Or.inr ⟨c2, _, rec, _, rfl, k1, k2, k3, k4, hsame _ _, k5⟩
  · subst c4
    dsimp only at hp'
    obtain ⟨_, k1⟩ := append_printed_existing file hcr rs bos hp i r bo c2 c3 _ hvw smb hclean rs' bos' hp'
    refine Or.inl ⟨i, r, _, c1, c2, hsame _ _, ?_, k1⟩
    apply Classical.byContradiction
    intro hn
    rw [List.getElem?_eq_none (by omega)] at c2
    cases c2

/-- `start` is rejected when the record has an open range or the summary flags select nothing -/
theorem start_rejected_core (u : UTab) (cfg : Config) (now : Instant) (a : AtArgs) (s : SummaryArgs)
    (file : Bytes) (rs : List Record) (bos : List BlockOut) (d : Date)
    (hp : parseDoc file = .records rs bos) (hd : atDate a.date now.date = some d)
    (hrej : (∃ i r, Spec.targetIdx rs d = some i ∧ rs[i]? = some r ∧ r.hasOpen = true) ∨
      Spec.chosenSummary (s.text.map (·.map decodeGo)) s.resume s.resumeNth (currentRecord rs d cfg.should) (Spec.previousOf rs d) = none) :
    ∀ f', runCmd u cfg now (.start a s) file ≠ .ok f' := by
  intro f' h
  cases ht : atTime a now cfg with
  | panic => unfold runCmd at h; simp only [hd, ht] at h; cases h
  | err => unfold runCmd at h; simp only [hd, ht] at h; cases h
  | ok t =>
    rw [runCmd_start_eq u cfg now a s file rs bos d t hp hd ht] at h
    refine reconcileFile_not_ok file _ _ rs bos hp ?_ f' h
    intro r0 hc r1 hf
    simp only [List.foldl_cons, List.foldl_nil, Res.bind] at hf
    have hcur : r0.record = currentRecord rs d cfg.should := by
      rcases creator_cases file rs bos hp d _ _ r0 hc with ⟨_, _, h3⟩ | ⟨_, _, _, _, _, _, _, h3⟩ <;> exact h3
    cases hsm : summaryOf s r0.record (previousRecord d rs) with
    | none => rw [hsm] at hf; cases hf
    | some smb =>
      rw [hsm] at hf
      dsimp only at hf
      rcases hrej with ⟨i, r, h1, h2, h3⟩ | hnone
      · have hrec : r0.record = r := by
          rw [hcur]
          unfold currentRecord
          simp only [h1, h2]
          rfl
        have hopen : (findOpenRangeIndex r0.record).isSome = true := by
          cases hf' : findOpenRangeIndex r0.record with
          | some _ => rfl
          | none =>
            rw [findOpen_none_iff, hrec, h3] at hf'
            cases hf'
        unfold Reconciler.startOpenRange at hf
        rw [if_pos hopen] at hf
        cases hf
      · rw [hcur, previousRecord_eq] at hsm
        have := summaryOf_chosen s (currentRecord rs d cfg.should) (Spec.previousOf rs d)
        rw [hsm, hnone] at this
        cases this

end KlogV.RefineBLemmas
