/- Quarter / year periods and the simple `Previous` functions of the translated period code, used by GoCalB.lean. Core Lean only. -/
import KlogV.Lemmas.GoCalB3
set_option linter.unusedSimpArgs false
namespace KlogV.GoL.B
open KlogV.Go

theorem valid_1_1 (y : Nat) (hy : y ≤ 9999) : (⟨y, 1, 1, true⟩ : Date).valid = true := by simp [Date.valid, daysIn, hy]
theorem valid_3_31 (y : Nat) (hy : y ≤ 9999) : (⟨y, 3, 31, true⟩ : Date).valid = true := by simp [Date.valid, daysIn, hy]
theorem valid_4_1 (y : Nat) (hy : y ≤ 9999) : (⟨y, 4, 1, true⟩ : Date).valid = true := by simp [Date.valid, daysIn, hy]
theorem valid_6_30 (y : Nat) (hy : y ≤ 9999) : (⟨y, 6, 30, true⟩ : Date).valid = true := by simp [Date.valid, daysIn, hy]
theorem valid_7_1 (y : Nat) (hy : y ≤ 9999) : (⟨y, 7, 1, true⟩ : Date).valid = true := by simp [Date.valid, daysIn, hy]
theorem valid_9_30 (y : Nat) (hy : y ≤ 9999) : (⟨y, 9, 30, true⟩ : Date).valid = true := by simp [Date.valid, daysIn, hy]
theorem valid_10_1 (y : Nat) (hy : y ≤ 9999) : (⟨y, 10, 1, true⟩ : Date).valid = true := by simp [Date.valid, daysIn, hy]
theorem valid_12_31 (y : Nat) (hy : y ≤ 9999) : (⟨y, 12, 31, true⟩ : Date).valid = true := by simp [Date.valid, daysIn, hy]

theorem year_period_go (x : Date) (h : x.valid = true) :
    GoCal.Year.Period ⟨x.toGo⟩ = .ok (yearPeriod x).toGo := by
  have v := (valid_iff x).1 h
  have e1 : GoCal.NewDate (x.y : Int) 1 1 = _ := newDate_ok x.y 1 1 (valid_1_1 x.y v.1)
  have e2 : GoCal.NewDate (x.y : Int) 12 31 = _ := newDate_ok x.y 12 31 (valid_12_31 x.y v.1)
  simp only [GoCal.Year.Period, GoCal.date.Year, toGo_year, bind, Except.bind, pure, Except.pure, e1, e2, try2, GoCal.NewPeriod]
  rfl

theorem quarter_period_go (x : Date) (h : x.valid = true) :
    GoCal.Quarter.Period ⟨x.toGo⟩ = .ok (quarterPeriod x).toGo := by
  have v := (valid_iff x).1 h
  have q := date_quarter_eq' x h
  have a1 : GoCal.NewDate (x.y : Int) 1 1 = _ := newDate_ok x.y 1 1 (valid_1_1 x.y v.1)
  have a2 : GoCal.NewDate (x.y : Int) 3 31 = _ := newDate_ok x.y 3 31 (valid_3_31 x.y v.1)
  have a3 : GoCal.NewDate (x.y : Int) 4 1 = _ := newDate_ok x.y 4 1 (valid_4_1 x.y v.1)
  have a4 : GoCal.NewDate (x.y : Int) 6 30 = _ := newDate_ok x.y 6 30 (valid_6_30 x.y v.1)
  have a5 : GoCal.NewDate (x.y : Int) 7 1 = _ := newDate_ok x.y 7 1 (valid_7_1 x.y v.1)
  have a6 : GoCal.NewDate (x.y : Int) 9 30 = _ := newDate_ok x.y 9 30 (valid_9_30 x.y v.1)
  have a7 : GoCal.NewDate (x.y : Int) 10 1 = _ := newDate_ok x.y 10 1 (valid_10_1 x.y v.1)
  have a8 : GoCal.NewDate (x.y : Int) 12 31 = _ := newDate_ok x.y 12 31 (valid_12_31 x.y v.1)
  rcases quarter_cases x h with e | e | e | e <;> rw [e] at q <;>
    simp [GoCal.Quarter.Period, q, GoCal.date.Year, toGo_year, bind, Except.bind, pure, Except.pure,
      a1, a2, a3, a4, a5, a6, a7, a8, try2, GoCal.NewPeriod, quarterPeriod, e, Period.toGo]

theorem week_previous_go (x : Date) (h : x.valid = true) :
    GoCal.Week.Previous ⟨x.toGo⟩ = match x.plusDays (-7) with | some r => .ok ⟨r.toGo⟩ | none => .error .panic := by
  have pd := date_plusDays_eq' x (-7) h
  simp only [GoCal.Week.Previous, GoCal.NewWeekFromDate, neg7, pd, bind, Except.bind, pure, Except.pure]
  cases x.plusDays (-7) <;> rfl

theorem sub1 (a : Int) (h : 0 ≤ a ∧ a ≤ 9999) : sub a 1 = a - 1 := by
  unfold sub wrap; omega

theorem year_previous_go (x : Date) (h : x.valid = true) :
    GoCal.Year.Previous ⟨x.toGo⟩ = match previousDate .year x with | some r => .ok ⟨r.toGo⟩ | none => .error .panic := by
  have v := (valid_iff x).1 h
  have s := sub1 (x.y : Int) (by omega)
  by_cases h0 : x.y = 0
  · obtain ⟨msg, e⟩ := newDate_neg (-1) (by omega)
    have s0 : sub 0 1 = -1 := by decide
    simp [s0, GoCal.Year.Previous, GoCal.date.Year, toGo_year, s, e, h0, previousDate, try2, bind, Except.bind, pure, Except.pure, isNil, GNil.isNil,
      throw, throwThe, MonadExceptOf.throw]
  · have c : ((x.y : Int) - 1) = ((x.y - 1 : Nat) : Int) := by omega
    have e : GoCal.NewDate ((x.y - 1 : Nat) : Int) 1 1 = _ := newDate_ok (x.y - 1) 1 1 (valid_1_1 _ (by omega))
    rw [← c] at e
    simp [GoCal.Year.Previous, GoCal.date.Year, toGo_year, s, e, h0, previousDate, try2, bind, Except.bind, pure, Except.pure, isNil, GNil.isNil]

end KlogV.GoL.B
