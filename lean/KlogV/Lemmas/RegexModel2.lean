/-
Regular expressions vs. model, part 2: `Expect.date` and `Date.parse`.
-/
import KlogV.Lemmas.RegexModel1
namespace KlogV.RxM
open KlogV.Rx

variable {env : Env}

theorem date_shape (s : List Char) :
    Matches env Expect.date (codes s) ↔
      ∃ y1 y2 y3 y4 a m1 m2 b d1 d2, s = [y1, y2, y3, y4, a, m1, m2, b, d1, d2] ∧
        [y1, y2, y3, y4, m1, m2, d1, d2].all isDigit = true ∧ (a = '-' ∨ a = '/') ∧ (b = '-' ∨ b = '/') := by
  simp only [Expect.date, Re.catl, m_cat_codes, matches_group, m_rep_digit_codes, m_oneOf_codes, m_eps_codes]
  constructor
  · rintro ⟨y, _, rfl, ⟨hy, hyd⟩, _, _, rfl, ⟨a, ha, rfl⟩, mo, _, rfl, ⟨hm, hmd⟩, _, _, rfl, ⟨b, hb, rfl⟩, d, _, rfl, ⟨hd, hdd⟩, rfl⟩
    obtain ⟨y1, y2, y3, y4, rfl⟩ := len4 y hy
    obtain ⟨m1, m2, rfl⟩ := len2 mo hm
    obtain ⟨d1, d2, rfl⟩ := len2 d hd
    refine ⟨y1, y2, y3, y4, a, m1, m2, b, d1, d2, by simp, ?_, by simpa using ha, by simpa using hb⟩
    simp only [List.all_cons, List.all_nil, Bool.and_true, Bool.and_eq_true] at hyd hmd hdd ⊢
    exact ⟨hyd.1, hyd.2.1, hyd.2.2.1, hyd.2.2.2, hmd.1, hmd.2, hdd.1, hdd.2⟩
  · rintro ⟨y1, y2, y3, y4, a, m1, m2, b, d1, d2, rfl, hdig, ha, hb⟩
    simp only [List.all_cons, List.all_nil, Bool.and_true, Bool.and_eq_true] at hdig
    obtain ⟨h1, h2, h3, h4, h5, h6, h7, h8⟩ := hdig
    exact ⟨[y1, y2, y3, y4], _, rfl, ⟨rfl, by simp [h1, h2, h3, h4]⟩, [a], _, rfl, ⟨a, by simpa using ha, rfl⟩,
      [m1, m2], _, rfl, ⟨rfl, by simp [h5, h6]⟩, [b], _, rfl, ⟨b, by simpa using hb, rfl⟩,
      [d1, d2], _, rfl, ⟨rfl, by simp [h7, h8]⟩, rfl⟩

theorem mark_date : mark Expect.date = Re.catl [
    G 1 (Re.rep Expect.digit 4), Expect.oneOf ['-', '/'], G 2 (Re.rep Expect.digit 2), Expect.oneOf ['-', '/'],
    G 3 (Re.rep Expect.digit 2)] := rfl

theorem date_marked (m : List Nat) :
    Matches env (mark Expect.date) m ↔
      ∃ y1 y2 y3 y4 a m1 m2 b d1 d2 : Char,
        [y1, y2, y3, y4, m1, m2, d1, d2].all isDigit = true ∧ (a = '-' ∨ a = '/') ∧ (b = '-' ∨ b = '/') ∧
        m = openSym 1 :: codes [y1, y2, y3, y4] ++ closeSym 1 :: a.toNat ::
            openSym 2 :: codes [m1, m2] ++ closeSym 2 :: b.toNat ::
            openSym 3 :: codes [d1, d2] ++ [closeSym 3] := by
  rw [mark_date]
  simp only [Re.catl, matches_cat, m_G, m_rep_digit, m_oneOf, matches_eps]
  constructor
  · rintro ⟨_, _, ⟨_, ⟨y, hy, hyd, rfl⟩, rfl⟩, ⟨_, _, ⟨a, ha, rfl⟩, ⟨_, _, ⟨_, ⟨mo, hm, hmd, rfl⟩, rfl⟩,
      ⟨_, _, ⟨b, hb, rfl⟩, ⟨_, _, ⟨_, ⟨d, hd, hdd, rfl⟩, rfl⟩, rfl, rfl⟩, rfl⟩, rfl⟩, rfl⟩, rfl⟩
    obtain ⟨y1, y2, y3, y4, rfl⟩ := len4 y hy
    obtain ⟨m1, m2, rfl⟩ := len2 mo hm
    obtain ⟨d1, d2, rfl⟩ := len2 d hd
    refine ⟨y1, y2, y3, y4, a, m1, m2, b, d1, d2, ?_, by simpa using ha, by simpa using hb, by simp [grp]⟩
    simp only [List.all_cons, List.all_nil, Bool.and_true, Bool.and_eq_true] at hyd hmd hdd ⊢
    exact ⟨hyd.1, hyd.2.1, hyd.2.2.1, hyd.2.2.2, hmd.1, hmd.2, hdd.1, hdd.2⟩
  · rintro ⟨y1, y2, y3, y4, a, m1, m2, b, d1, d2, hdig, ha, hb, rfl⟩
    simp only [List.all_cons, List.all_nil, Bool.and_true, Bool.and_eq_true] at hdig
    obtain ⟨h1, h2, h3, h4, h5, h6, h7, h8⟩ := hdig
    exact ⟨_, _, ⟨_, ⟨[y1, y2, y3, y4], rfl, by simp [h1, h2, h3, h4], rfl⟩, rfl⟩, ⟨_, _, ⟨a, by simpa using ha, rfl⟩,
      ⟨_, _, ⟨_, ⟨[m1, m2], rfl, by simp [h5, h6], rfl⟩, rfl⟩, ⟨_, _, ⟨b, by simpa using hb, rfl⟩,
      ⟨_, _, ⟨_, ⟨[d1, d2], rfl, by simp [h7, h8], rfl⟩, rfl⟩, rfl, rfl⟩, rfl⟩, rfl⟩, rfl⟩, by simp [grp]⟩

/-- the groups of a date are determined by the string: the marked word over a given string is unique -/
theorem date_groups (y1 y2 y3 y4 a m1 m2 b d1 d2 : Char) (m : List Nat)
    (hm : Matches env (mark Expect.date) m) (he : erase m = codes [y1, y2, y3, y4, a, m1, m2, b, d1, d2]) :
    m = openSym 1 :: codes [y1, y2, y3, y4] ++ closeSym 1 :: a.toNat ::
        openSym 2 :: codes [m1, m2] ++ closeSym 2 :: b.toNat ::
        openSym 3 :: codes [d1, d2] ++ [closeSym 3] := by
  obtain ⟨y1', y2', y3', y4', a', m1', m2', b', d1', d2', _, _, _, rfl⟩ := (date_marked m).1 hm
  have e : ∀ (x : Char) w, erase (x.toNat :: w) = x.toNat :: erase w := fun x w => erase_cons_lt (toNat_lt_maxRune x)
  simp only [codes_cons, codes_nil, List.cons_append, List.nil_append, erase_cons_ge (openSym_ge _),
    erase_cons_ge (closeSym_ge _), e, erase_nil, List.cons.injEq, Char.toNat_inj, and_true] at he
  obtain ⟨rfl, rfl, rfl, rfl, rfl, rfl, rfl, rfl, rfl, rfl⟩ := he
  rfl

/-! ### Link to `Date.parse` -/

theorem date_parse_matches {s : List Char} {d : Date} (h : Date.parse s = some d) :
    Matches env Expect.date (codes s) := by
  unfold Date.parse at h
  split at h
  · rename_i y1 y2 y3 y4 s1 m1 m2 s2 d1 d2
    split at h
    · rename_i hc
      simp only [Bool.and_eq_true, Bool.or_eq_true, beq_iff_eq] at hc
      obtain ⟨⟨⟨hdig, hs1⟩, hs2⟩, _⟩ := hc
      exact (date_shape _).2 ⟨y1, y2, y3, y4, s1, m1, m2, s2, d1, d2, rfl, hdig, hs1, hs2⟩
    · cases h
  · cases h

theorem date_parse_no_match {s : List Char} (h : ¬ Matches env Expect.date (codes s)) : Date.parse s = none := by
  cases e : Date.parse s with
  | none => rfl
  | some d => exact absurd (date_parse_matches e) h

theorem date_parse_shape (y1 y2 y3 y4 a m1 m2 b d1 d2 : Char)
    (hdig : [y1, y2, y3, y4, m1, m2, d1, d2].all isDigit = true) (ha : a = '-' ∨ a = '/') (hb : b = '-' ∨ b = '/') :
    Date.parse [y1, y2, y3, y4, a, m1, m2, b, d1, d2] =
      if a = b ∧ Date.valid ⟨digitsVal [y1, y2, y3, y4], digitsVal [m1, m2], digitsVal [d1, d2], a == '-'⟩ = true
      then some ⟨digitsVal [y1, y2, y3, y4], digitsVal [m1, m2], digitsVal [d1, d2], a == '-'⟩ else none := by
  unfold Date.parse
  simp only [hdig, Bool.true_and]
  rcases ha with rfl | rfl <;> rcases hb with rfl | rfl <;> simp

end KlogV.RxM
