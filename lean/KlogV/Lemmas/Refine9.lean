/-
Helper lemmas for C04, part 9: the style the reconciler writes with — an explicit line ending,
one of the four indentations, and for a record with entries the indentation the parser reads
that record with.
-/
import KlogV.Lemmas.Refine2
import KlogV.Lemmas.Refine4
import KlogV.Lemmas.Refine8
import KlogV.Lemmas.Style
namespace KlogV.RefineLemmas
open KlogV.StyleLemmas

/-! ## line ending -/

theorem foldl_preserves_ending {β} (F : Style → β → Style) (es : List β) (s : Style)
    (hF : ∀ s e, (F s e).lineEnding = s.lineEnding) :
    (es.foldl F s).lineEnding = s.lineEnding := by
  induction es generalizing s with
  | nil => rfl
  | cons e es ih => rw [List.foldl_cons, ih, hF]

theorem determine_lineEnding (r : Record) (b : List Line) :
    (determine r b).lineEnding =
      match b.head? with
      | some l => if l.ending != .none then (l.ending, true) else (.lf, false)
      | none => (.lf, false) := by
  unfold determine
  dsimp only
  have hf := foldl_preserves_ending (fun (s : Style) (e : Entry) =>
    match e.val with
    | .range st _ sp => { s with time24 := (st.is24, true), spaced := (sp, true) }
    | .dur _ => s
    | .openRange st sp x =>
      { s with time24 := (st.is24, true), spaced := (sp, true), extraQ := (x, true) })
    r.entries { dateDashes := (r.date.dashes, true) }
      (by intro s e; split <;> rfl)
  generalize List.foldl _ _ r.entries = s2 at hf ⊢
  cases (significantLines b).findSome? lineIndentation <;> cases b.head? <;> (try dsimp only) <;>
    (try split) <;> first | rfl | exact hf

theorem determine_lineEnding_ne (r : Record) (b : List Line) : (determine r b).lineEnding.1 ≠ .none := by
  rw [determine_lineEnding]
  cases b.head? with
  | none => simp
  | some l =>
    dsimp only
    split
    · rename_i h; simpa using h
    · simp

theorem elect_lineEnding_ne (base : Style) (rs : List Record) (bs : List (List Line))
    (hb : base.lineEnding.1 ≠ .none) : (elect base rs bs).lineEnding.1 ≠ .none := by
  cases hx : base.lineEnding.2 with
  | true => rw [(elect_own_style base rs bs).1 hx]; exact hb
  | false =>
    rcases (elect_from_file base rs bs).2 hx with ⟨h, _⟩ | ⟨s, hs, _, h⟩
    · rw [h]; exact hb
    · rw [h]
      obtain ⟨p, _, rfl⟩ := List.mem_map.mp hs
      exact determine_lineEnding_ne _ _

/-! ## indentation -/

theorem mem_of_find? {α} (p : α → Bool) (l : List α) (a : α) (h : l.find? p = some a) : a ∈ l :=
  List.mem_of_find?_eq_some h

theorem lineIndentation_mem (l : Line) (i : Bytes) (h : lineIndentation l = some i) : i ∈ indentationBytes :=
  mem_of_find? _ _ _ h

theorem findSome?_lineIndentation_mem (ls : List Line) (i : Bytes) (h : ls.findSome? lineIndentation = some i) :
    i ∈ indentationBytes := by
  obtain ⟨l, _, hl⟩ := List.exists_of_findSome?_eq_some h
  exact lineIndentation_mem l i hl

theorem determine_indentation_mem (r : Record) (b : List Line) : (determine r b).indentation.1 ∈ indentationBytes := by
  rw [determine_indentation]
  cases h : (significantLines b).findSome? lineIndentation with
  | none => decide
  | some i => exact findSome?_lineIndentation_mem _ i h

theorem elect_indentation_mem (base : Style) (rs : List Record) (bs : List (List Line))
    (hb : base.indentation.1 ∈ indentationBytes) : (elect base rs bs).indentation.1 ∈ indentationBytes := by
  cases hx : base.indentation.2 with
  | true => rw [(elect_own_style base rs bs).2.1 hx]; exact hb
  | false =>
    rcases (elect_from_file base rs bs).1 hx with ⟨h, _⟩ | ⟨s, hs, _, h⟩
    · rw [h]; exact hb
    · rw [h]
      obtain ⟨p, _, rfl⟩ := List.mem_map.mp hs
      exact determine_indentation_mem _ _

/-! ## agreement with the parser -/

theorem summaryGo_rest (ls : List (List Char)) : ∀ nr : Nat,
    (summaryGo nr ls).2.2.2 = ls.dropWhile (fun c => (indentatorOf c).isNone) := by
  induction ls with
  | nil => intro nr; rfl
  | cons l ls ih =>
    intro nr
    unfold summaryGo
    cases hi : indentatorOf l with
    | some i => simp [hi]
    | none =>
      dsimp only
      have := ih (nr + 1)
      cases ha : summaryGo (nr + 1) ls with
      | mk s1 r1 =>
      obtain ⟨e1, n1, t1⟩ := r1
      rw [ha] at this
      simp only at this
      dsimp only
      rw [List.dropWhile_cons_of_pos (by simp [hi])]
      split <;> exact this

theorem first_indented (ls : List Line) (x : List Char)
    (h : ((ls.map (fun l => decodeGo l.text)).dropWhile (fun c => (indentatorOf c).isNone)).head? = some x) :
    ∃ i, ls.findSome? lineIndentation = some i ∧ indentatorOf x = some (asciiChars i) := by
  induction ls with
  | nil => simp at h
  | cons l ls ih =>
    have hl := indentatorOf_line l
    cases hi : lineIndentation l with
    | none =>
      rw [hi] at hl
      simp only [Option.map_none] at hl
      rw [List.map_cons, List.dropWhile_cons_of_pos (by simp [hl])] at h
      obtain ⟨i, h1, h2⟩ := ih h
      exact ⟨i, by rw [List.findSome?_cons, hi]; exact h1, h2⟩
    | some i =>
      rw [hi] at hl
      simp only [Option.map_some] at hl
      rw [List.map_cons, List.dropWhile_cons_of_neg (by simp [hl])] at h
      simp only [List.head?_cons, Option.some.injEq] at h
      subst h
      exact ⟨i, by rw [List.findSome?_cons, hi], hl⟩

theorem indentatorOf_some_head (l i : List Char) (h : indentatorOf l = some i) :
    ∃ c tl, l = c :: tl ∧ isSpTab c = true := by
  unfold indentatorOf at h
  have hm := List.mem_of_find?_eq_some h
  have hp := List.find?_some h
  simp only [indentations, List.mem_cons, List.not_mem_nil, or_false] at hm
  cases l with
  | nil => rcases hm with rfl | rfl | rfl | rfl <;> simp at hp
  | cons c tl =>
    refine ⟨c, tl, rfl, ?_⟩
    rcases hm with rfl | rfl | rfl | rfl <;>
      (simp only [List.isPrefixOf_cons_cons, Bool.and_eq_true, beq_iff_eq] at hp; rw [← hp.1]; decide)

/-- the headline of a record that is read without error is not indented -/
theorem headline_not_indented (o : Nat) (hl : List Char) (hd : Option Head)
    (h : parseHeadline o hl = .ok (hd, [])) : indentatorOf hl = none := by
  cases hi : indentatorOf hl with
  | none => rfl
  | some i =>
    exfalso
    obtain ⟨c, tl, rfl, hc⟩ := indentatorOf_some_head hl i hi
    rw [parseHeadline_eq] at h
    simp [hc] at h

/-- (AGREE) for a record with entries, the indentation `determine` finds in its block is the one
the parser reads it with -/
theorem determine_agrees (o : Nat) (r : Record) (pre sig post : List Line) (hlL : Line) (restL : List Line)
    (hpre : AllBlank pre) (hsigne : sig = hlL :: restL) (hsig : AllSig sig) (hpost : AllBlank post)
    (hrec : parseRecord o (sig.map (fun l => decodeGo l.text)) = .record r) (x : List Char)
    (hx : (summaryGo (o + 1) (restL.map (fun l => decodeGo l.text))).2.2.2.head? = some x) :
    ∃ i, (determine r (pre ++ sig ++ post)).indentation = (i, true) ∧ indentatorOf x = some (asciiChars i) := by
  rw [summaryGo_rest] at hx
  obtain ⟨i, h1, h2⟩ := first_indented restL x hx
  refine ⟨i, ?_, h2⟩
  rw [determine_indentation]
  have hs : significantLines (pre ++ sig ++ post) = sig := by
    unfold significantLines
    rw [significant_shape pre sig post hpre (by rw [hsigne]; simp) hsig hpost]
  rw [hs, hsigne, List.findSome?_cons]
  have hhl : lineIndentation hlL = none := by
    rw [hsigne, List.map_cons] at hrec
    obtain ⟨hd, e1, _⟩ := (parseRecord_record_iff o _ _ r).mp hrec
    have := headline_not_indented o _ _ e1
    rw [indentatorOf_line] at this
    cases hli : lineIndentation hlL with
    | none => rfl
    | some j => rw [hli] at this; simp at this
  rw [hhl, h1]

end KlogV.RefineLemmas
