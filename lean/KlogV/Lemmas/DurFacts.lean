/- Structure of `Dur.parse`: sign split, shape analysis, admissible characters. -/
import KlogV.Model.Values
namespace KlogV

/-- The shape analysis of `Dur.parse` (hour digits, minute digits). -/
def durShape (s : List Char) : Option (List Char × List Char) :=
  let d1 := s.takeWhile isDigit
  let r1 := s.dropWhile isDigit
  match d1, r1 with
  | [], _ => none
  | _, ['m'] => some ([], d1)
  | _, 'h' :: r2 =>
    let d2 := r2.takeWhile isDigit
    let r3 := r2.dropWhile isDigit
    (match d2, r3 with
      | [], [] => some (d1, [])
      | [], _ => none
      | _, ['m'] => some (d1, d2)
      | _, _ => none)
  | _, _ => none

/-- `Dur.parse` after the sign has been split off. -/
def durCore (sign : Int) (signGiven plus : Bool) (s : List Char) : Res Dur :=
  match durShape s with
  | none => .err
  | some (hd, md) =>
    match (if hd.isEmpty then Res.ok 0 else atoi hd), (if md.isEmpty then Res.ok 0 else atoi md) with
    | .ok h, .ok m =>
      if !hd.isEmpty && m ≥ 60 then .err else
      let zs : Int := if h == 0 && m == 0 && signGiven then sign else 0
      match safeMul (sign * h) 60 with
      | .ok hm => (match safeAdd hm (sign * m) with
        | .ok tot => .ok ⟨tot, plus, zs⟩
        | _ => .panic)
      | _ => .panic
    | _, _ => .panic

theorem Dur.parse_cases2 (s : List Char) :
    ∃ sign sg plus r, (sign = 1 ∨ sign = -1) ∧ (s = '-' :: r ∨ s = '+' :: r ∨ s = r) ∧
      Dur.parse s = durCore sign sg plus r := by
  unfold Dur.parse
  split
  rename_i sign sg plus r heq
  refine ⟨sign, sg, plus, r, ?_, ?_, rfl⟩
  · split at heq <;> simp only [Prod.mk.injEq] at heq <;> simp [heq.1.symm]
  · split at heq <;> simp only [Prod.mk.injEq] at heq <;> simp [heq.2.2.2.symm]

theorem durShape_some (s hd md : List Char) (h : durShape s = some (hd, md)) :
    hd.all isDigit = true ∧ md.all isDigit = true ∧
      (s = md ++ ['m'] ∧ hd = [] ∨ s = hd ++ ['h'] ∧ md = [] ∨ s = hd ++ 'h' :: (md ++ ['m'])) := by
  unfold durShape at h
  simp only [] at h
  have e1 := List.takeWhile_append_dropWhile (p := isDigit) (l := s)
  have a1 : (s.takeWhile isDigit).all isDigit = true := List.all_takeWhile
  generalize s.takeWhile isDigit = d1 at *
  generalize s.dropWhile isDigit = r1 at *
  split at h
  · cases h
  · simp only [Option.some.injEq, Prod.mk.injEq] at h
    obtain ⟨rfl, rfl⟩ := h
    exact ⟨rfl, a1, Or.inl ⟨e1.symm, rfl⟩⟩
  · rename_i r2 hne
    have e2 := List.takeWhile_append_dropWhile (p := isDigit) (l := r2)
    have a2 : (r2.takeWhile isDigit).all isDigit = true := List.all_takeWhile
    split at h
    · rename_i h1 h2
      simp only [Option.some.injEq, Prod.mk.injEq] at h
      obtain ⟨rfl, rfl⟩ := h
      rw [h1, h2] at e2
      subst e2
      exact ⟨a1, rfl, Or.inr (Or.inl ⟨by simpa using e1.symm, rfl⟩)⟩
    · cases h
    · rename_i h2 hne2
      simp only [Option.some.injEq, Prod.mk.injEq] at h
      obtain ⟨rfl, rfl⟩ := h
      rw [h2] at e2
      rw [← e2] at e1
      exact ⟨a1, a2, Or.inr (Or.inr e1.symm)⟩
    · cases h
  · cases h

theorem durCore_shape (sign : Int) (sg plus : Bool) (r : List Char) (h : durCore sign sg plus r ≠ .err) :
    ∃ hd md, durShape r = some (hd, md) := by
  unfold durCore at h
  split at h
  · exact absurd rfl h
  · exact ⟨_, _, by assumption⟩

def isDurChar (c : Char) : Prop := isDigit c = true ∨ c = 'm' ∨ c = 'h' ∨ c = '-' ∨ c = '+'

theorem durShape_chars (s hd md : List Char) (h : durShape s = some (hd, md)) : ∀ c ∈ s, isDurChar c := by
  obtain ⟨a1, a2, h3⟩ := durShape_some s hd md h
  rw [List.all_eq_true] at a1 a2
  intro c hc
  unfold isDurChar
  rcases h3 with ⟨rfl, _⟩ | ⟨rfl, _⟩ | rfl
  · simp only [List.mem_append, List.mem_singleton] at hc
    rcases hc with hc | hc
    · exact Or.inl (a2 c hc)
    · exact Or.inr (Or.inl hc)
  · simp only [List.mem_append, List.mem_singleton] at hc
    rcases hc with hc | hc
    · exact Or.inl (a1 c hc)
    · exact Or.inr (Or.inr (Or.inl hc))
  · simp only [List.mem_append, List.mem_cons, List.not_mem_nil, or_false] at hc
    rcases hc with hc | hc | hc | hc
    · exact Or.inl (a1 c hc)
    · exact Or.inr (Or.inr (Or.inl hc))
    · exact Or.inl (a2 c hc)
    · exact Or.inr (Or.inl hc)

theorem Dur.parse_chars (s : List Char) (h : Dur.parse s ≠ .err) : ∀ c ∈ s, isDurChar c := by
  obtain ⟨sign, sg, plus, r, _, hs, he⟩ := Dur.parse_cases2 s
  rw [he] at h
  obtain ⟨hd, md, hsh⟩ := durCore_shape _ _ _ _ h
  have := durShape_chars r hd md hsh
  intro c hc
  rcases hs with rfl | rfl | rfl
  · rcases List.mem_cons.mp hc with rfl | hc
    · exact Or.inr (Or.inr (Or.inr (Or.inl rfl)))
    · exact this c hc
  · rcases List.mem_cons.mp hc with rfl | hc
    · exact Or.inr (Or.inr (Or.inr (Or.inr rfl)))
    · exact this c hc
  · exact this c hc

theorem not_isDurChar_paren : ¬ isDurChar ')' := by
  unfold isDurChar; decide

end KlogV
