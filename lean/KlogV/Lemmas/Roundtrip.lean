/- Round trip (C09): print → parse gives back the canonicalised records; parser output is
well-formed.  Parts: Roundtrip1 (definitions, fixed point, layout), RoundtripUtf8 (encode/decode),
RoundtripLines (lines, blocks, assemble), RoundtripValues / RoundtripEntry / RoundtripRecord
(record level), RoundtripMain (main theorem), RoundtripWF1–3 (parser output is well-formed). -/
import KlogV.Lemmas.Roundtrip1
import KlogV.Lemmas.RoundtripMain
import KlogV.Lemmas.RoundtripWF3
