/-
Helper lemmas for C04, part 15: the text after a new record was written (in an empty file, in
front of the first record, behind record `i`).
-/
import KlogV.Lemmas.Refine13
namespace KlogV.RefineLemmas
open KlogV.EditLemmas

/-! ## lists of block results -/

theorem map_getElem {α β γ} (f : α → γ) (g : β → γ) (X : List α) (rs : List β) (k : Nat) (x : α)
    (h : X.map f = rs.map g) (hx : X[k]? = some x) : ∃ r, rs[k]? = some r ∧ f x = g r := by
  have h1 : (X.map f)[k]? = some (f x) := by rw [List.getElem?_map, hx]; rfl
  rw [h, List.getElem?_map] at h1
  cases hr : rs[k]? with
  | none => rw [hr] at h1; cases h1
  | some r =>
    rw [hr] at h1
    exact ⟨r, rfl, (Option.some.inj h1).symm⟩

theorem records_insert {α β γ} (f : α → γ) (g : β → γ) (B1 : List α) (b : α) (B2 : List α) (rs : List β)
    (h : (B1 ++ b :: B2).map f = rs.map g) (b1' bn : α) (rec : β) (hb : f b1' = f b) (hn : f bn = g rec) :
    (B1 ++ b1' :: bn :: B2).map f = (rs.take (B1.length + 1) ++ [rec] ++ rs.drop (B1.length + 1)).map g := by
  have e : B1 ++ b :: B2 = (B1 ++ [b]) ++ B2 := by simp
  have hl : (B1 ++ [b]).length = B1.length + 1 := by simp
  have ht : (rs.take (B1.length + 1)).map g = (B1 ++ [b]).map f := by
    rw [List.map_take, ← h, e, List.map_append, ← hl]
    have : (List.map f (B1 ++ [b])).length = (B1 ++ [b]).length := by simp
    rw [← this, List.take_left']
    rfl
  have hd : (rs.drop (B1.length + 1)).map g = B2.map f := by
    rw [List.map_drop, ← h, e, List.map_append, ← hl]
    have : (List.map f (B1 ++ [b])).length = (B1 ++ [b]).length := by simp
    rw [← this, List.drop_left']
    rfl
  simp only [List.map_append, List.map_cons, List.map_nil, ht, hd, hb, hn]
  simp

/-! ## blocks -/

theorem blocks_tail (sig post R2 : List Line) (B2 : List (List Line)) (a2 : sig ≠ []) (a3 : AllSig sig)
    (a4 : AllBlank post) (hR2 : B2 ≠ [] → StartsSig R2) (hB2 : blocksOfLines R2 = B2) (hR2nil : B2 = [] → R2 = [])
    (a6 : B2 ≠ [] → post ≠ []) :
    blocksOfLines (sig ++ post ++ R2) = (sig ++ post) :: B2 := by
  have a1 : AllBlank [] := by intro l hl; cases hl
  by_cases hB : B2 = []
  · rw [hR2nil hB, hB, List.append_nil]
    have := (blocks_single [] sig post a1 a2 a3 a4).1
    simpa using this
  · have := blocks_cons [] sig post R2 a1 a2 a3 a4 (a6 hB) (hR2 hB)
    rw [hB2] at this
    simpa using this

theorem startsSig_of_allSig (s X : List Line) (hne : s ≠ []) (hs : AllSig s) : StartsSig (s ++ X) := by
  obtain ⟨y, ys, rfl⟩ := List.exists_cons_of_ne_nil hne
  exact ⟨y, ys ++ X, rfl, hs y (by simp)⟩

def blankLine (st : Style) : Line := ⟨[], st.lineEnding.1⟩

theorem blankLine_clean (st : Style) (G : GoodStyle st) : Clean (blankLine st) :=
  ⟨by simp [blankLine], G.ending, by simp [blankLine]⟩

theorem blankLine_blank (st : Style) : (blankLine st).isBlank = true := rfl

/-! ## (E) empty file -/

theorem new_record_empty (_file : Bytes) (st : Style)
    (REC : List Line) (hclean : ∀ l ∈ REC, Clean l) (hsig : AllSig REC) (hne : REC ≠ []) :
    blocksOf (joinLines (ins st [] 0 REC)) = [REC] ∧ (joinLines (ins st [] 0 REC)).getLast? ≠ some 13 ∧
      parseBlock REC = parseRecord 0 (REC.map (fun l => decodeGo l.text)) := by
  have hins : ins st [] 0 REC = REC := by simp [ins, fixLast_nil]
  have a1 : AllBlank [] := by intro l hl; cases hl
  refine ⟨?_, ?_, ?_⟩
  · rw [hins]
    unfold blocksOf
    rw [(clean_list REC hclean).1]
    have := (blocks_single [] REC [] a1 hne hsig a1).1
    simpa using this
  · have := insert_noCR [] (by simp) [] (goodLines_nil []) st 0 REC hclean hne
    simpa [ins] using this
  · have := parseBlock_shape [] REC [] a1 hne hsig a1
    simpa using this

/-! ## (F) in front of the first record -/

theorem new_record_front (file : Bytes) (hcr : file.getLast? ≠ some 13) (b0 : List Line) (B : List (List Line))
    (hbs : blocksOf file = b0 :: B) (st : Style) (G : GoodStyle st)
    (REC : List Line) (hclean : ∀ l ∈ REC, Clean l) (hsig : AllSig REC) (hne : REC ≠ []) :
    ∃ bn b0', blocksOf (joinLines (ins st (blocksOf file).flatten 0 (REC ++ [blankLine st]))) = bn :: b0' :: B ∧
      (joinLines (ins st (blocksOf file).flatten 0 (REC ++ [blankLine st]))).getLast? ≠ some 13 ∧
      parseBlock bn = parseRecord 0 (REC.map (fun l => decodeGo l.text)) ∧
      (∀ r, parseBlock b0 = .record r → parseBlock b0' = .record r) := by
  have hne' : blocksOf file ≠ [] := by rw [hbs]; simp
  have hbl := blocksOfLines_flatten_blocksOf file hne'
  rw [hbs] at hbl
  obtain ⟨R2, pre, sig, post, e1, e2, e3, e4, e5, a1, a2, a3, a4, _, a6, _⟩ :=
    blocks_splice (b0 :: B).flatten [] b0 B (by simpa using hbl)
  have hG := goodLines_blocks file hcr
  rw [hbs] at hG ⊢
  have hNEW : ∀ l ∈ REC ++ [blankLine st], Clean l := by
    intro l hl
    rcases List.mem_append.mp hl with h | h
    · exact hclean l h
    · simp only [List.mem_singleton] at h; rw [h]; exact blankLine_clean st G
  have hins : ins st (b0 :: B).flatten 0 (REC ++ [blankLine st]) = REC ++ ([blankLine st] ++ pre) ++ (sig ++ post ++ R2) := by
    unfold ins
    rw [List.take_zero, List.drop_zero, fixLast_nil, e1, e5]
    simp
  have hsp := insert_split file _ hG st G.ending 0 _ hNEW
  have hno := insert_noCR file hcr _ hG st 0 _ hNEW (by simp)
  have a0 : AllBlank [] := by intro l hl; cases hl
  have hbp : AllBlank ([blankLine st] ++ pre) := by
    intro l hl
    rcases List.mem_append.mp hl with h | h
    · simp only [List.mem_singleton] at h; rw [h]; exact blankLine_blank st
    · exact a1 l h
  refine ⟨REC ++ ([blankLine st] ++ pre), sig ++ post, ?_, ?_, ?_, ?_⟩
  · unfold blocksOf
    change splitLines (joinLines (ins st (b0 :: B).flatten 0 (REC ++ [blankLine st]))) = _ at hsp
    rw [hsp]
    change blocksOfLines (ins st (b0 :: B).flatten 0 (REC ++ [blankLine st])) = _
    rw [hins]
    have h1 := blocks_cons [] REC ([blankLine st] ++ pre) (sig ++ post ++ R2) a0 hne hsig hbp (by simp)
      (by rw [List.append_assoc]; exact startsSig_of_allSig sig _ a2 a3)
    simp only [List.nil_append] at h1
    rw [h1, blocks_tail sig post R2 B a2 a3 a4 e3 e4 (by intro h; rw [e2, h]; rfl) a6]
  · exact hno
  · have := parseBlock_shape [] REC ([blankLine st] ++ pre) a0 hne hsig hbp
    simpa using this
  · intro r hr
    rw [e5, parseBlock_shape pre sig post a1 a2 a3 a4] at hr
    have := parseBlock_shape [] sig post a0 a2 a3 a4
    simp only [List.nil_append, List.length_nil] at this
    rw [this]
    exact parseRecord_indep _ 0 _ r hr

/-! ## (A) behind record `i` -/

theorem new_record_after (file : Bytes) (hcr : file.getLast? ≠ some 13) (B1 : List (List Line)) (b : List Line)
    (B2 : List (List Line)) (hbs : blocksOf file = B1 ++ b :: B2) (st : Style) (G : GoodStyle st)
    (REC : List Line) (hclean : ∀ l ∈ REC, Clean l) (hsig : AllSig REC) (hne : REC ≠ []) :
    ∃ b1' bn,
      blocksOf (joinLines (ins st (blocksOf file).flatten (indexOfLastSignificantLine ((B1.map List.length).sum) b)
        (blankLine st :: REC))) = B1 ++ b1' :: bn :: B2 ∧
      (joinLines (ins st (blocksOf file).flatten (indexOfLastSignificantLine ((B1.map List.length).sum) b)
        (blankLine st :: REC))).getLast? ≠ some 13 ∧
      parseBlock bn = parseRecord 0 (REC.map (fun l => decodeGo l.text)) ∧
      parseBlock b1' = parseBlock b := by
  have hNEW : ∀ l ∈ blankLine st :: REC, Clean l := by
    intro l hl
    rcases List.mem_cons.mp hl with h | h
    · rw [h]; exact blankLine_clean st G
    · exact hclean l h
  obtain ⟨R2, pre, sig, post, e1, e2, e3, e4, e5, a1, a2, a3, a4, a5, a6, a7, hins, hsp, hno⟩ :=
    ins_at_block file hcr B1 b B2 hbs st G (blankLine st :: REC) hNEW (by simp)
  have a0 : AllBlank [] := by intro l hl; cases hl
  have hb1 : AllBlank [blankLine st] := by
    intro l hl; simp only [List.mem_singleton] at hl; rw [hl]; exact blankLine_blank st
  refine ⟨pre ++ fixLast st sig ++ [blankLine st], REC ++ post, ?_, ?_, ?_, ?_⟩
  · rw [hins]
    unfold blocksOf
    rw [hsp]
    have hmid : pre ++ fixLast st sig ++ (blankLine st :: REC) ++ post ++ R2 =
        (pre ++ fixLast st sig ++ [blankLine st]) ++ (REC ++ post ++ R2) := by simp
    rw [hmid, a7]
    · rw [blocks_cons pre (fixLast st sig) [blankLine st] (REC ++ post ++ R2) a1 (fixLast_ne_nil st sig a2)
        (fixLast_allSig st sig a3) hb1 (by simp)
        (by rw [List.append_assoc]; exact startsSig_of_allSig REC _ hne hsig),
        blocks_tail REC post R2 B2 hne hsig a4 e3 e4 (by intro h; rw [e2, h]; rfl) a6]
    · intro hB1
      rw [a5 hB1]
      simp only [List.nil_append, List.append_assoc]
      exact startsSig_of_allSig _ _ (fixLast_ne_nil st sig a2) (fixLast_allSig st sig a3)
  · rw [hins]; exact hno
  · have := parseBlock_shape [] REC post a0 hne hsig a4
    simpa using this
  · rw [e5, parseBlock_shape pre sig post a1 a2 a3 a4,
      parseBlock_shape pre (fixLast st sig) [blankLine st] a1 (fixLast_ne_nil st sig a2) (fixLast_allSig st sig a3) hb1,
      fixLast_map_decode]

end KlogV.RefineLemmas
