/-
Helper lemmas for C05: the order of effects in `reconcileFile`, and what success of a command
implies about the new file.
-/
import KlogV.Model.Commands
import KlogV.Lemmas.Edits
namespace KlogV

namespace SafeLemmas

theorem makeResult_ok_valid (r : Reconciler) (text : Bytes) (rec : Record)
    (h : r.makeResult = .ok (text, rec)) : ∃ rs bos, parseDoc text = .records rs bos := by
  have ht := makeResult_text r text rec h
  unfold Reconciler.makeResult at h
  dsimp only at h
  split at h
  · rename_i rs bos hp
    exact ⟨rs, bos, by rw [ht]; exact hp⟩
  · cases h
  · cases h

theorem foldl_bind_err (steps : List (Reconciler → Res Reconciler)) :
    steps.foldl (fun (acc : Res Reconciler) st => acc.bind st) .err = .err := by
  induction steps with
  | nil => rfl
  | cons s ss ih => simpa [List.foldl_cons, Res.bind] using ih

theorem foldl_bind_panic (steps : List (Reconciler → Res Reconciler)) :
    steps.foldl (fun (acc : Res Reconciler) st => acc.bind st) .panic = .panic := by
  induction steps with
  | nil => rfl
  | cons s ss ih => simpa [List.foldl_cons, Res.bind] using ih

/-- What `(reconcileFile …).1 = .ok f'` means. -/
theorem reconcileFile_fst_ok (file : Bytes) (creators : List Record → List BlockOut → Option Reconciler)
    (steps : List (Reconciler → Res Reconciler)) (f' : Bytes)
    (h : (reconcileFile file creators steps).1 = .ok f') :
    ∃ rec, reconcileFile file creators steps = (.ok f', rec) :=
  ⟨(reconcileFile file creators steps).2, by rw [← h]⟩

end SafeLemmas

open SafeLemmas

theorem reconcileFile_ok_valid (file : Bytes) (creators : List Record → List BlockOut → Option Reconciler)
    (steps : List (Reconciler → Res Reconciler)) (f' : Bytes) (rec : Option Record)
    (h : reconcileFile file creators steps = (.ok f', rec)) :
    ∃ rs bos, parseDoc f' = .records rs bos := by
  unfold reconcileFile at h
  repeat' split at h
  all_goals first
    | (cases h; done)
    | (rename_i hm; cases h; exact makeResult_ok_valid _ _ _ hm)

theorem reconcileFile_invalid (file : Bytes) (es : List GErr) (creators : List Record → List BlockOut → Option Reconciler)
    (steps : List (Reconciler → Res Reconciler)) (h : parseDoc file = .errors es) :
    reconcileFile file creators steps = (.fail, none) := by
  unfold reconcileFile
  rw [h]

theorem reconcileFile_no_record (file : Bytes) (rs : List Record) (bos : List BlockOut)
    (creators : List Record → List BlockOut → Option Reconciler) (steps : List (Reconciler → Res Reconciler))
    (h : parseDoc file = .records rs bos) (hc : creators rs bos = none) :
    reconcileFile file creators steps = (.fail, none) := by
  unfold reconcileFile
  rw [h]
  dsimp only
  rw [hc]

theorem reconcileFile_step_fails (file : Bytes) (rs : List Record) (bos : List BlockOut) (r0 : Reconciler)
    (creators : List Record → List BlockOut → Option Reconciler)
    (pre post : List (Reconciler → Res Reconciler)) (bad : Reconciler → Res Reconciler)
    (h : parseDoc file = .records rs bos) (hc : creators rs bos = some r0)
    (hpre : ∃ r, pre.foldl (fun (acc : Res Reconciler) st => acc.bind st) (.ok r0) = .ok r ∧ bad r = .err) :
    reconcileFile file creators (pre ++ bad :: post) = (.fail, none) := by
  obtain ⟨r, hr, hbad⟩ := hpre
  unfold reconcileFile
  rw [h]
  dsimp only
  rw [hc]
  dsimp only
  rw [List.foldl_append, hr, List.foldl_cons]
  have : (Res.ok r).bind bad = .err := by simp [Res.bind, hbad]
  rw [this, foldl_bind_err]

namespace SafeLemmas

theorem reconcileFile_fst_ok_valid (file : Bytes) (creators : List Record → List BlockOut → Option Reconciler)
    (steps : List (Reconciler → Res Reconciler)) (f' : Bytes)
    (h : (reconcileFile file creators steps).1 = .ok f') :
    ∃ rs bos, parseDoc f' = .records rs bos := by
  obtain ⟨rec, hrec⟩ := reconcileFile_fst_ok file creators steps f' h
  exact reconcileFile_ok_valid file creators steps f' rec hrec

theorem reconcileFile_fst_invalid (file : Bytes) (es : List GErr) (creators : List Record → List BlockOut → Option Reconciler)
    (steps : List (Reconciler → Res Reconciler)) (h : parseDoc file = .errors es) :
    (reconcileFile file creators steps).1 = .fail := by
  rw [reconcileFile_invalid file es creators steps h]

theorem pauseLoop_ok (today yesterday : Date) (ticks : List Int) :
    ∀ (captured : Int) (file f' : Bytes), pauseLoop today yesterday ticks captured file = .ok f' →
      f' = file ∨ ∃ rs bos, parseDoc f' = .records rs bos := by
  induction ticks with
  | nil =>
    intro captured file f' h
    unfold pauseLoop at h
    cases h
    exact .inl rfl
  | cons t ts ih =>
    intro captured file f' h
    unfold pauseLoop at h
    dsimp only at h
    split at h
    · split at h
      · rename_i file' hf
        rcases ih _ _ _ h with h1 | h2
        · subst h1
          exact .inr (reconcileFile_fst_ok_valid _ _ _ _ hf)
        · exact .inr h2
      · cases h
      · cases h
    · exact ih _ _ _ h

end SafeLemmas

open SafeLemmas

theorem runCmd_ok_valid (u : UTab) (cfg : Config) (now : Instant) (cmd : Cmd) (file f' : Bytes)
    (h : runCmd u cfg now cmd file = .ok f') : ∃ rs bos, parseDoc f' = .records rs bos := by
  cases cmd with
  | track sel entry =>
    unfold runCmd at h
    dsimp only at h
    split at h
    · cases h
    · exact reconcileFile_fst_ok_valid _ _ _ _ h
  | create sel should summary =>
    unfold runCmd at h
    dsimp only at h
    split at h
    · cases h
    · exact reconcileFile_fst_ok_valid _ _ _ _ h
  | start a s =>
    unfold runCmd at h
    dsimp only at h
    split at h
    · cases h
    · cases h
    · cases h
    · split at h
      · exact reconcileFile_fst_ok_valid _ _ _ _ h
      · cases h
      · cases h
  | stop a summary =>
    unfold runCmd at h
    dsimp only at h
    split at h
    · cases h
    · cases h
    · cases h
    · split at h
      · cases h
      · exact reconcileFile_fst_ok_valid _ _ _ _ h
  | switch a s =>
    unfold runCmd at h
    dsimp only at h
    split at h
    · cases h
    · cases h
    · cases h
    · exact reconcileFile_fst_ok_valid _ _ _ _ h
  | pause summary noTags extend ticks =>
    unfold runCmd at h
    dsimp only at h
    split at h
    · cases h
    · split at h
      · cases h
      · split at h
        · rename_i file' hf
          rcases pauseLoop_ok _ _ _ _ _ _ h with h1 | h2
          · subst h1
            exact reconcileFile_fst_ok_valid _ _ _ _ hf
          · exact h2
        · rename_i o hno
          exact absurd h (hno f')

theorem runCmd_invalid (u : UTab) (cfg : Config) (now : Instant) (cmd : Cmd) (file : Bytes) (es : List GErr)
    (h : parseDoc file = .errors es) : ∀ f', runCmd u cfg now cmd file ≠ .ok f' := by
  intro f' hok
  cases cmd with
  | track sel entry =>
    unfold runCmd at hok
    dsimp only at hok
    split at hok
    · cases hok
    · rw [reconcileFile_fst_invalid file es _ _ h] at hok; cases hok
  | create sel should summary =>
    unfold runCmd at hok
    dsimp only at hok
    split at hok
    · cases hok
    · rw [reconcileFile_fst_invalid file es _ _ h] at hok; cases hok
  | start a s =>
    unfold runCmd at hok
    dsimp only at hok
    split at hok
    · cases hok
    · cases hok
    · cases hok
    · rw [h] at hok; cases hok
  | stop a summary =>
    unfold runCmd at hok
    dsimp only at hok
    split at hok
    · cases hok
    · cases hok
    · cases hok
    · split at hok
      · cases hok
      · rw [reconcileFile_fst_invalid file es _ _ h] at hok; cases hok
  | switch a s =>
    unfold runCmd at hok
    dsimp only at hok
    split at hok
    · cases hok
    · cases hok
    · cases hok
    · rw [reconcileFile_fst_invalid file es _ _ h] at hok; cases hok
  | pause summary noTags extend ticks =>
    unfold runCmd at hok
    dsimp only at hok
    split at hok
    · cases hok
    · split at hok
      · cases hok
      · rw [reconcileFile_fst_invalid file es _ _ h] at hok
        cases hok

end KlogV
