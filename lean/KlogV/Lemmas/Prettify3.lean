/- C10 lemmas, part 3: stripping the coloured block; the spans of the errors of a document. -/
import KlogV.Model.Prettify
import KlogV.Lemmas.ParserErrors
import KlogV.Lemmas.Strip
namespace KlogV.PrettifyLemmas
open StripLemmas

/-! ## the block of one error -/

/-- the text `prettyError` produces, as a function of its parts: line number, quoted line,
caret line, message -/
def block (st : Styler) (origin : List Char) (n : Nat) (Q C M : List Char) : List Char :=
  let red : StyleProps := { color := .red }
  ['\n'] ++
    st.format { color := .red, background := .red } ['['] ++
    st.format { color := .textInverse, background := .red } "SYNTAX ERROR".toList ++
    st.format { color := .red, background := .red } [']'] ++
    (st.seqs red ++ " in line ".toList ++ natDigits n ++ st.reset) ++
    (if origin.isEmpty then [] else st.seqs red ++ " of file ".toList ++ origin ++ st.reset) ++
    ['\n'] ++
    st.format { color := .textSubdued } Q ++ ['\n'] ++
    st.format red C ++ ['\n'] ++
    st.format { color := .yellow } M ++ ['\n']

theorem prettyError_eq (st : Styler) (origin : List Char) (e : GErr) :
    prettyError st origin e =
      match e.lineText with
      | none => none
      | some text =>
        if e.pos < 0 || e.len < 0 then none else
        some (block st origin e.lineNumber (INDENT ++ tabsToSpaces (decodeGo text))
          (INDENT ++ List.replicate e.pos.toNat ' ' ++ List.replicate e.len.toNat '^')
          (reflow 80 [INDENT] (errMessage e.code))) := rfl

theorem seqSt_noColour : SeqSt noColour := ⟨IsSeqs.nil, fun _ => IsSeqs.nil⟩

/-- arbitrary text, then a reset sequence, then the end of the line -/
theorem strip_text_reset_nl (t r X : List Char) (hr : IsSeqs r) :
    strip (t ++ (r ++ '\n' :: X)) = strip t ++ '\n' :: strip X := by
  have hi : Inert ('\n' :: X) := Or.inr ⟨'\n', X, rfl, by decide, by decide, by decide⟩
  rw [← List.append_assoc, strip_insert t r ('\n' :: X) hr (Or.inr hi), strip_append_inert _ _ hi,
    strip_cons_ne _ _ (by decide)]

/-- a styled segment with arbitrary text at the end of a line -/
theorem strip_format_nl (st : Styler) (hs : SeqSt st) (p : StyleProps) (t X : List Char) :
    strip (st.format p t ++ '\n' :: X) = strip t ++ '\n' :: strip X := by
  simp only [Styler.format, List.append_assoc]
  rw [strip_seqs_append _ _ (hs.2 p), strip_text_reset_nl _ _ _ hs.1]

/-- what is left of the block after stripping: the same for all stylers -/
def plainBlock (origin : List Char) (n : Nat) (Q C M : List Char) : List Char :=
  '\n' :: (['['] ++ ("SYNTAX ERROR".toList ++ ([']'] ++ ((" in line ".toList ++ natDigits n) ++
    ((if origin.isEmpty then [] else strip (" of file ".toList ++ origin)) ++
      '\n' :: (strip Q ++ '\n' :: (strip C ++ '\n' :: (strip M ++ ['\n']))))))))

theorem strip_block (st : Styler) (hs : SeqSt st) (origin : List Char) (n : Nat) (Q C M X : List Char) :
    strip (block st origin n Q C M ++ X) = plainBlock origin n Q C M ++ strip X := by
  have e1 : st.seqs { color := .red } ++ " in line ".toList ++ natDigits n ++ st.reset =
      st.format { color := .red } (" in line ".toList ++ natDigits n) := by
    simp only [Styler.format, List.append_assoc]
  have e2 : st.seqs { color := .red } ++ " of file ".toList ++ origin ++ st.reset =
      st.format { color := .red } (" of file ".toList ++ origin) := by
    simp only [Styler.format, List.append_assoc]
  have n1 : NoEscape ['['] := by show ESC ∉ _; decide
  have n2 : NoEscape "SYNTAX ERROR".toList := by show ESC ∉ _; decide
  have n3 : NoEscape [']'] := by show ESC ∉ _; decide
  have n4 : NoEscape (" in line ".toList ++ natDigits n) :=
    noEscape_append _ _ (by show ESC ∉ _; decide) (noEscape_natDigits n)
  unfold block plainBlock
  simp only []
  rw [e1, e2]
  simp only [List.append_assoc, List.cons_append, List.nil_append]
  rw [strip_cons_ne _ _ (by decide), strip_format st hs _ _ _ n1, strip_format st hs _ _ _ n2,
    strip_format st hs _ _ _ n3, strip_format st hs _ _ _ n4]
  have tail : strip ('\n' :: (st.format { color := .textSubdued } Q ++ '\n' ::
      (st.format { color := .red } C ++ '\n' :: (st.format { color := .yellow } M ++ '\n' :: X)))) =
      '\n' :: (strip Q ++ '\n' :: (strip C ++ '\n' :: (strip M ++ '\n' :: strip X))) := by
    rw [strip_cons_ne _ _ (by decide), strip_format_nl st hs, strip_format_nl st hs, strip_format_nl st hs]
  cases ho : origin.isEmpty with
  | true =>
    simp only [if_true, List.nil_append]
    rw [tail]
    simp only [List.append_assoc, List.cons_append, List.nil_append]
  | false =>
    simp only [Bool.false_eq_true, if_false]
    rw [strip_format_nl st hs]
    have := tail
    rw [strip_cons_ne _ _ (by decide)] at this
    injection this with _ this
    rw [this]
    simp only [List.append_assoc, List.cons_append, List.nil_append]

/-- the block without colours -/
theorem block_noColour (origin : List Char) (n : Nat) (Q C M : List Char) :
    block noColour origin n Q C M =
      '\n' :: (("[SYNTAX ERROR] in line ".toList ++ natDigits n ++
        (if origin.isEmpty then [] else " of file ".toList ++ origin)) ++
        '\n' :: (Q ++ '\n' :: (C ++ '\n' :: (M ++ ['\n'])))) := by
  have e : "[SYNTAX ERROR] in line ".toList =
      ['['] ++ "SYNTAX ERROR".toList ++ [']'] ++ " in line ".toList := by decide
  rw [e]
  unfold block
  generalize "SYNTAX ERROR".toList = s1
  generalize " in line ".toList = s2
  generalize " of file ".toList = s3
  cases origin.isEmpty <;> simp [Styler.format, noColour]

/-! ## `prettyErrors` -/

theorem prettyErrors_isSome_of (st : Styler) (origin : List Char) (es : List GErr)
    (h : ∀ e ∈ es, e.lineText.isSome = true ∧ 0 ≤ e.pos ∧ 0 ≤ e.len) :
    (prettyErrors st origin es).isSome = true := by
  induction es with
  | nil => rfl
  | cons e es ih =>
    obtain ⟨h1, h2, h3⟩ := h e List.mem_cons_self
    have ih := ih (fun x hx => h x (List.mem_cons_of_mem _ hx))
    obtain ⟨b, hb⟩ := Option.isSome_iff_exists.mp ih
    obtain ⟨text, ht⟩ := Option.isSome_iff_exists.mp h1
    have hc : (decide (e.pos < 0) || decide (e.len < 0)) = false := by
      simp only [Bool.or_eq_false_iff, decide_eq_false_iff_not]
      omega
    simp only [prettyErrors, hb, prettyError_eq, ht, hc]
    rfl

/-! ## the spans of the errors of a document -/

theorem parseDoc_spans (t : Bytes) (es : List GErr) (h : parseDoc t = .errors es) :
    ∀ e ∈ es, 0 ≤ e.pos ∧ 0 ≤ e.len := by
  unfold parseDoc assemble at h
  simp only [] at h
  split at h
  · cases h
  · split at h
    · simp only [DocOut.errors.injEq] at h
      subst h
      intro e he
      obtain ⟨l, hl, hel⟩ := List.mem_flatten.mp he
      obtain ⟨bo, hbo, rfl⟩ := List.mem_map.mp hl
      have hout : bo.out = parseBlock bo.lines := by
        unfold blockOuts at hbo
        obtain ⟨⟨b, i⟩, _, rfl⟩ := List.mem_map.mp hbo
        rfl
      unfold gerrsOf at hel
      split at hel
      · rename_i es' hes
        obtain ⟨x, hx, rfl⟩ := List.mem_map.mp hel
        rw [hout] at hes
        unfold parseBlock at hes
        generalize significant bo.lines = sg at hes
        obtain ⟨sig, head, tl⟩ := sg
        simp only at hes
        obtain ⟨a, b, _⟩ := parseRecord_span_in_line _ _ _ hes x hx
        exact ⟨a, b⟩
      · cases hel
    · cases h

end KlogV.PrettifyLemmas
