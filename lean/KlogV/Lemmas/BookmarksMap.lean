/-
Lemmas for C19: the bookmark database as a name → path map; sorting; JSON persistence.
-/
import KlogV.Model.Bookmarks
import KlogV.Lemmas.JsonRoundtrip
namespace KlogV

/-! ### definitions used by Props/C19 (moved here unchanged) -/

/-- the plain map a database denotes -/
def denote (bc : Bookmarks) : BName → Option BPath := fun n => bc.get n

/-- the map operations -/
def specSet (m : BName → Option BPath) (n : BName) (p : BPath) : BName → Option BPath := fun k => if k = n then some p else m k
def specUnset (m : BName → Option BPath) (n : BName) : BName → Option BPath := fun k => if k = n then none else m k

/-- databases have at most one entry per name -/
abbrev WF (bc : Bookmarks) : Prop := (bc.map (·.1)).Nodup

def runHistory (bc : Bookmarks) : List BOp → Bookmarks
  | [] => bc
  | op :: ops => runHistory ((bc.apply op).getD bc) ops

def specHistory (m : BName → Option BPath) : List BOp → (BName → Option BPath)
  | [] => m
  | .set n p :: ops => specHistory (specSet m (newName n) p) ops
  | .unset n :: ops => specHistory (specUnset m (newName n)) ops
  | .clear :: ops => specHistory (fun _ => none) ops

def decodeDb : Spec.J → Option Bookmarks
  | .arr xs => xs.mapM (fun x => match x with
      | .obj [(k1, .str n), (k2, .str p)] => if k1 = "name".toList ∧ k2 = "path".toList then some (n, p) else none
      | _ => none)
  | _ => none

theorem newName_spec (s : List Char) :
    newName s ≠ [] ∧ (newName s).head? ≠ some '@' ∧ newName ('@' :: s) = newName s ∧ newName [] = "default".toList := by
  refine ⟨?_, ?_, ?_, rfl⟩
  · unfold newName
    simp only
    split
    · decide
    · rename_i h; intro e; rw [e] at h; exact h rfl
  · unfold newName
    simp only
    split
    · decide
    · intro e
      have := List.head?_dropWhile_not (· == '@') s
      rw [e] at this
      simp at this
  · simp [newName, List.dropWhile]

namespace BookmarkLemmas

theorem get_map (bc : Bookmarks) (n : BName) (p : BPath) (k : BName) :
    Bookmarks.get (bc.map (fun kv => if kv.1 == n then (n, p) else kv)) k =
      if k = n then (if bc.any (·.1 == n) then some p else none) else bc.get k := by
  induction bc with
  | nil => simp [Bookmarks.get]
  | cons kv bc ih =>
    simp only [Bookmarks.get] at ih
    simp only [List.map_cons, Bookmarks.get, List.find?_cons, List.any_cons]
    by_cases h1 : kv.1 = n <;> by_cases hk : k = n
    · subst hk; simp [h1]
    · have : (n == k) = false := by simpa using fun e => hk e.symm
      simp only [h1, beq_self_eq_true, if_true, this, hk, if_false]
      rw [ih]; simp [hk]
    · subst hk
      have : (kv.1 == k) = false := by simpa using h1
      simp only [this, Bool.false_eq_true, if_false, Bool.false_or]
      rw [ih]; simp
    · have : (kv.1 == n) = false := by simpa using h1
      simp only [this, Bool.false_eq_true, if_false, hk]
      split
      · rfl
      · rw [ih]; simp [hk]

theorem get_append (bc : Bookmarks) (n : BName) (p : BPath) (k : BName) (hany : bc.any (·.1 == n) = false) :
    Bookmarks.get (bc ++ [(n, p)]) k = if k = n then some p else bc.get k := by
  simp only [Bookmarks.get, List.find?_append]
  by_cases hk : k = n
  · subst hk
    have : bc.find? (·.1 == k) = none := by
      rw [List.find?_eq_none]
      intro x hx
      rw [List.any_eq_false] at hany
      exact hany x hx
    simp [this]
  · have : (n == k) = false := by simpa using fun e => hk e.symm
    simp only [hk, if_false, List.find?_cons, this, List.find?_nil]
    cases bc.find? (·.1 == k) <;> simp

theorem get_set (bc : Bookmarks) (n : BName) (p : BPath) (k : BName) :
    (bc.set n p).get k = if k = n then some p else bc.get k := by
  unfold Bookmarks.set
  split
  · rename_i hany
    rw [get_map, hany]; simp
  · rename_i hany
    exact get_append bc n p k (Bool.eq_false_iff.mpr hany)

theorem names_map (bc : Bookmarks) (n : BName) (p : BPath) :
    (bc.map (fun kv => if kv.1 == n then (n, p) else kv)).map (·.1) = bc.map (·.1) := by
  rw [List.map_map]
  apply List.map_congr_left
  intro kv _
  simp only [Function.comp]
  split
  · rename_i h; simp at h; exact h.symm
  · rfl

theorem wf_set (bc : Bookmarks) (h : WF bc) (n : BName) (p : BPath) : WF (bc.set n p) := by
  unfold Bookmarks.set
  split
  · unfold WF; rw [names_map]; exact h
  · rename_i hany
    unfold WF at *
    rw [List.map_append, List.nodup_append]
    refine ⟨h, by simp, ?_⟩
    intro a ha b hb
    simp only [List.map_cons, List.map_nil, List.mem_singleton] at hb
    subst hb
    intro e; subst e
    apply hany
    rw [List.mem_map] at ha
    obtain ⟨kv, hkv, e⟩ := ha
    rw [List.any_eq_true]
    exact ⟨kv, hkv, by simpa using e⟩

theorem get_eq_none (bc : Bookmarks) (n : BName) : bc.get n = none ↔ bc.any (·.1 == n) = false := by
  simp only [Bookmarks.get, Option.map_eq_none_iff, List.find?_eq_none, List.any_eq_false]

theorem get_filter (bc : Bookmarks) (n k : BName) :
    Bookmarks.get (bc.filter (·.1 != n)) k = if k = n then none else bc.get k := by
  induction bc with
  | nil => simp [Bookmarks.get]
  | cons kv bc ih =>
    simp only [Bookmarks.get] at ih
    simp only [Bookmarks.get, List.filter_cons]
    by_cases h1 : kv.1 = n
    · simp only [h1, bne_self_eq_false, Bool.false_eq_true, if_false, List.find?_cons]
      rw [ih]
      by_cases hk : k = n
      · simp [hk]
      · have : (n == k) = false := by simpa using fun e => hk e.symm
        simp [hk, this]
    · have : (kv.1 != n) = true := by simpa using h1
      simp only [this, if_true, List.find?_cons]
      by_cases hk : kv.1 = k
      · have : k ≠ n := by rw [← hk]; exact h1
        simp [hk, this]
      · have : (kv.1 == k) = false := by simpa using hk
        simp only [this]
        rw [ih]

theorem wf_filter (bc : Bookmarks) (h : WF bc) (q : BName × BPath → Bool) : WF (bc.filter q) := by
  unfold WF at *
  exact List.Nodup.sublist (List.Sublist.map _ List.filter_sublist) h

/-! ### sorting -/

theorem charsLe_iff (a b : List Char) : charsLe a b = true ↔ a.map Char.toNat ≤ b.map Char.toNat := by
  simp [charsLe]

theorem charsLe_total (a b : List Char) (h : charsLe a b = false) : charsLe b a = true := by
  rw [charsLe_iff]
  rcases List.le_total (a.map Char.toNat) (b.map Char.toNat) with h' | h'
  · rw [← charsLe_iff] at h'; rw [h'] at h; cases h
  · exact h'

theorem charsLe_trans (a b c : List Char) (h1 : charsLe a b = true) (h2 : charsLe b c = true) :
    charsLe a c = true := by
  rw [charsLe_iff] at *
  exact List.le_trans h1 h2

def ins (acc : Bookmarks) (x : BName × BPath) : Bookmarks :=
  let lo := acc.takeWhile (fun y => charsLe y.1 x.1)
  lo ++ [x] ++ acc.drop lo.length

theorem sorted_eq (bc : Bookmarks) : bc.sorted = bc.foldl ins [] := rfl

theorem drop_takeWhile {α} (p : α → Bool) (l : List α) : l.drop (l.takeWhile p).length = l.dropWhile p := by
  conv => lhs; arg 2; rw [← List.takeWhile_append_dropWhile (p := p) (l := l)]
  exact List.drop_left

theorem ins_eq (acc : Bookmarks) (x : BName × BPath) :
    ins acc x = acc.takeWhile (fun y => charsLe y.1 x.1) ++ x :: acc.dropWhile (fun y => charsLe y.1 x.1) := by
  simp only [ins, drop_takeWhile, List.append_assoc, List.singleton_append]

theorem ins_perm (acc : Bookmarks) (x : BName × BPath) : (ins acc x).Perm (x :: acc) := by
  rw [ins_eq]
  refine List.perm_middle.trans ?_
  rw [List.takeWhile_append_dropWhile]

theorem foldl_ins_perm (l : Bookmarks) : ∀ acc, (l.foldl ins acc).Perm (acc ++ l) := by
  induction l with
  | nil => intro acc; simp
  | cons x l ih =>
    intro acc
    rw [List.foldl_cons]
    refine (ih (ins acc x)).trans ?_
    refine ((ins_perm acc x).append_right l).trans ?_
    exact List.perm_middle.symm

abbrev Srt (l : Bookmarks) : Prop := l.Pairwise (fun a b => charsLe a.1 b.1 = true)

theorem ins_sorted (acc : Bookmarks) (x : BName × BPath) (h : Srt acc) : Srt (ins acc x) := by
  rw [ins_eq]
  unfold Srt at *
  have hsplit := List.takeWhile_append_dropWhile (p := fun y : BName × BPath => charsLe y.1 x.1) (l := acc)
  rw [← hsplit, List.pairwise_append] at h
  obtain ⟨hlo, hhi, hcross⟩ := h
  have hlox : ∀ y ∈ acc.takeWhile (fun y => charsLe y.1 x.1), charsLe y.1 x.1 = true :=
    fun y hy => List.all_eq_true.mp (List.all_takeWhile (p := fun y : BName × BPath => charsLe y.1 x.1) (l := acc)) y hy
  have hxhi : ∀ y ∈ acc.dropWhile (fun y => charsLe y.1 x.1), charsLe x.1 y.1 = true := by
    intro y hy
    cases hdw : acc.dropWhile (fun y => charsLe y.1 x.1) with
    | nil => rw [hdw] at hy; cases hy
    | cons h0 t =>
      have hh := List.head?_dropWhile_not (fun y : BName × BPath => charsLe y.1 x.1) acc
      rw [hdw] at hh hy hhi
      simp only [List.head?_cons] at hh
      have hx0 : charsLe x.1 h0.1 = true := charsLe_total _ _ (by simpa using hh)
      rcases List.mem_cons.mp hy with rfl | hy
      · exact hx0
      · exact charsLe_trans _ _ _ hx0 ((List.pairwise_cons.mp hhi).1 y hy)
  rw [List.pairwise_append]
  refine ⟨hlo, List.pairwise_cons.mpr ⟨hxhi, hhi⟩, ?_⟩
  intro a ha b hb
  rcases List.mem_cons.mp hb with rfl | hb
  · exact hlox a ha
  · exact hcross a ha b hb

theorem foldl_ins_sorted (l : Bookmarks) : ∀ acc, Srt acc → Srt (l.foldl ins acc) := by
  induction l with
  | nil => intro acc h; exact h
  | cons x l ih => intro acc h; exact ih _ (ins_sorted acc x h)

/-! ### persistence -/

def entryJ (kv : BName × BPath) : JVal := .obj [("name".toList, .str kv.1), ("path".toList, .str kv.2)]

def decodeEntry (x : Spec.J) : Option (BName × BPath) :=
  match x with
  | .obj [(k1, .str n), (k2, .str p)] => if k1 = "name".toList ∧ k2 = "path".toList then some (n, p) else none
  | _ => none

theorem decodeDb_arr (xs : List Spec.J) : decodeDb (.arr xs) = xs.mapM decodeEntry := rfl

theorem decodeEntry_entryJ (kv : BName × BPath) : decodeEntry (Spec.ofJVal (entryJ kv)) = some kv := by
  simp [entryJ, JsonLemmas.ofJVal_obj, Spec.ofJVal, decodeEntry]

theorem mapM_decode (l : Bookmarks) : ((l.map entryJ).map Spec.ofJVal).mapM decodeEntry = some l := by
  induction l with
  | nil => rfl
  | cons kv l ih =>
    simp only [List.map_cons, List.mapM_cons, decodeEntry_entryJ, ih]
    rfl

end BookmarkLemmas
open BookmarkLemmas

theorem apply_set (bc : Bookmarks) (h : WF bc) (n : List Char) (p : BPath) :
    ∃ bc', bc.apply (.set n p) = some bc' ∧ WF bc' ∧ denote bc' = specSet (denote bc) (newName n) p := by
  refine ⟨_, rfl, wf_set bc h _ p, ?_⟩
  funext k
  simp only [denote, specSet, get_set]

theorem apply_unset (bc : Bookmarks) (h : WF bc) (n : List Char) :
    (denote bc (newName n) = none → bc.apply (.unset n) = none) ∧
    (denote bc (newName n) ≠ none → ∃ bc', bc.apply (.unset n) = some bc' ∧ WF bc' ∧ denote bc' = specUnset (denote bc) (newName n)) := by
  simp only [denote, Bookmarks.apply, Bookmarks.remove]
  constructor
  · intro hn
    rw [get_eq_none] at hn
    simp [hn]
  · intro hn
    rw [Ne, get_eq_none] at hn
    simp only [Bool.not_eq_false] at hn
    rw [if_pos hn]
    refine ⟨_, rfl, wf_filter bc h _, ?_⟩
    funext k
    exact get_filter bc (newName n) k

theorem BookmarkLemmas.history_aux (ops : List BOp) : ∀ bc, WF bc →
    WF (runHistory bc ops) ∧ denote (runHistory bc ops) = specHistory (denote bc) ops := by
  induction ops with
  | nil => intro bc h; exact ⟨h, rfl⟩
  | cons op ops ih =>
    intro bc h
    cases op with
    | set n p =>
      obtain ⟨bc', h1, h2, h3⟩ := apply_set bc h n p
      simp only [runHistory, specHistory, h1, Option.getD_some]
      rw [← h3]; exact ih bc' h2
    | unset n =>
      obtain ⟨ha, hb⟩ := apply_unset bc h n
      simp only [runHistory, specHistory]
      by_cases hn : denote bc (newName n) = none
      · rw [ha hn, Option.getD_none]
        have : specUnset (denote bc) (newName n) = denote bc := by
          funext k
          simp only [specUnset]
          split
          · rename_i e; rw [e, hn]
          · rfl
        rw [this]; exact ih bc h
      · obtain ⟨bc', h1, h2, h3⟩ := hb hn
        rw [h1, Option.getD_some, ← h3]; exact ih bc' h2
    | clear =>
      simp only [runHistory, specHistory, Bookmarks.apply, Option.getD_some]
      have : (fun _ => none : BName → Option BPath) = denote [] := by
        funext k; rfl
      rw [this]
      exact ih [] (by simp [WF])

theorem history_refines (ops : List BOp) :
    WF (runHistory [] ops) ∧ denote (runHistory [] ops) = specHistory (fun _ => none) ops :=
  BookmarkLemmas.history_aux ops [] (by simp [WF])

theorem sorted_spec (bc : Bookmarks) :
    bc.sorted.Perm bc ∧ (bc.sorted.map (·.1)).Pairwise (fun a b => charsLe a b = true) := by
  rw [sorted_eq]
  refine ⟨by simpa using foldl_ins_perm bc [], ?_⟩
  rw [List.pairwise_map]
  exact foldl_ins_sorted bc [] List.Pairwise.nil

theorem toJson_roundtrip (bc : Bookmarks) (h : bc ≠ []) :
    (Spec.readJson bc.toJson).bind decodeDb = some bc.sorted := by
  have he : bc.isEmpty = false := by cases bc with | nil => exact absurd rfl h | cons _ _ => rfl
  have e : bc.toJson = (JVal.arr (bc.sorted.map entryJ)).pretty 0 ++ ['\n'] := by
    simp only [Bookmarks.toJson, he, Bool.false_eq_true, if_false]; rfl
  rw [e, JsonLemmas.readJson_pretty_nl, Option.bind_some, JsonLemmas.ofJVal_arr, decodeDb_arr]
  exact mapM_decode bc.sorted

end KlogV
