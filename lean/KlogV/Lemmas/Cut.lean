/- Cutting a text at line boundaries and inside lines: raw lines, lines, blocks. -/
import KlogV.Model.Lines
import KlogV.Lemmas.Lines
namespace KlogV

/-! ## Raw lines -/

theorem splitRaw_eq_nil {t : Bytes} (h : splitRaw t = []) : t = [] := by
  have := splitRaw_flatten t
  rw [h] at this
  simpa using this.symm

theorem splitRaw_ne_nil {t : Bytes} (h : t ≠ []) : splitRaw t ≠ [] :=
  fun h' => h (splitRaw_eq_nil h')

/-- (F1) cutting after an LF (or before everything) cuts the list of raw lines. -/
theorem splitRaw_append (a b : Bytes) (ha : a = [] ∨ a.getLast? = some LF) :
    splitRaw (a ++ b) = splitRaw a ++ splitRaw b := by
  induction a with
  | nil => simp [splitRaw]
  | cons x a ih =>
    have hlast : (x :: a).getLast? = some LF := by
      rcases ha with h | h
      · cases h
      · exact h
    by_cases hx : x = LF
    · subst hx
      have ha' : a = [] ∨ a.getLast? = some LF := by
        cases a with
        | nil => left; rfl
        | cons y a => right; rwa [List.getLast?_cons_cons] at hlast
      simp only [List.cons_append, splitRaw, if_true]
      rw [ih ha']
    · have hane : a ≠ [] := by
        intro h; subst h; simp at hlast; exact hx hlast
      have ha' : a.getLast? = some LF := by
        cases a with
        | nil => exact absurd rfl hane
        | cons y a => rwa [List.getLast?_cons_cons] at hlast
      have ih' := ih (Or.inr ha')
      simp only [List.cons_append, splitRaw, if_neg hx]
      rw [ih']
      have := splitRaw_ne_nil hane
      cases hs : splitRaw a with
      | nil => exact absurd hs this
      | cons l ls => simp

/-- (R1) the first raw line, when it is not the only one, ends with LF and is cut off cleanly. -/
theorem splitRaw_cons_inv (t a : Bytes) (A : List Bytes) (h : splitRaw t = a :: A) (hA : A ≠ []) :
    ∃ t', t = a ++ t' ∧ a.getLast? = some LF ∧ splitRaw t' = A := by
  induction t generalizing a with
  | nil => simp [splitRaw] at h
  | cons b rest ih =>
    unfold splitRaw at h
    by_cases hb : b = LF
    · simp only [hb, if_true, List.cons.injEq] at h
      refine ⟨rest, ?_, ?_, h.2⟩
      · rw [← h.1, hb]; rfl
      · rw [← h.1]; rfl
    · simp only [hb, if_false] at h
      cases hs : splitRaw rest with
      | nil =>
        rw [hs] at h
        simp only [List.cons.injEq] at h
        exact absurd h.2.symm hA
      | cons l ls =>
        rw [hs] at h
        simp only [List.cons.injEq] at h
        obtain ⟨h1, h2⟩ := h
        subst h2
        obtain ⟨t', ht1, ht2, ht3⟩ := ih l hs
        refine ⟨t', ?_, ?_, ht3⟩
        · rw [← h1, ht1]; rfl
        · rw [← h1]
          cases l with
          | nil => simp at ht2
          | cons y l => rwa [List.getLast?_cons_cons]

/-- (R1') same, and the first raw line is a raw line by itself -/
theorem splitRaw_cons_inv' (t a : Bytes) (A : List Bytes) (h : splitRaw t = a :: A) (hA : A ≠ []) :
    ∃ t', t = a ++ t' ∧ a.getLast? = some LF ∧ splitRaw t' = A ∧ splitRaw a = [a] := by
  obtain ⟨t', h1, h2, h3⟩ := splitRaw_cons_inv t a A h hA
  refine ⟨t', h1, h2, h3, ?_⟩
  have := splitRaw_append a t' (Or.inr h2)
  rw [← h1, h, h3] at this
  have h4 : [a] ++ A = splitRaw a ++ A := by simpa using this
  exact (List.append_cancel_right h4).symm

/-- (R3) any prefix / suffix of the list of raw lines is the list of raw lines of its text. -/
theorem splitRaw_parts (t : Bytes) (A B : List Bytes) (h : splitRaw t = A ++ B) :
    splitRaw A.flatten = A ∧ splitRaw B.flatten = B ∧
      (B ≠ [] → A = [] ∨ A.flatten.getLast? = some LF) := by
  induction A generalizing t with
  | nil =>
    have := splitRaw_flatten t
    rw [h] at this
    simp only [List.nil_append] at this h
    rw [this, h]
    simp [splitRaw]
  | cons a A ih =>
    by_cases hAB : A ++ B = []
    · have hA : A = [] := (List.append_eq_nil_iff.mp hAB).1
      have hB : B = [] := (List.append_eq_nil_iff.mp hAB).2
      subst hA hB
      have := splitRaw_flatten t
      rw [h] at this
      simp only [List.append_nil] at h
      refine ⟨?_, by simp [splitRaw], by simp⟩
      simp only [List.append_nil] at this
      rw [this]; exact h
    · obtain ⟨t', h1, h2, h3, h4⟩ := splitRaw_cons_inv' t a (A ++ B) h hAB
      obtain ⟨i1, i2, i3⟩ := ih t' h3
      refine ⟨?_, i2, fun hB => Or.inr ?_⟩
      · simp only [List.flatten_cons]
        rw [splitRaw_append a A.flatten (Or.inr h2), h4, i1]; rfl
      · simp only [List.flatten_cons]
        by_cases hA : A.flatten = []
        · rw [hA]; simpa using h2
        · rw [List.getLast?_append]
          rcases i3 hB with h | h
          · subst h; simp at hA
          · rw [h]; simp

/-- (R4) a last raw line without LF fuses with the first raw line of what follows. -/
theorem splitRaw_fuse (r z : Bytes) (h : splitRaw r = [r]) (hl : r.getLast? ≠ some LF) :
    splitRaw (r ++ z) = match splitRaw z with
      | [] => [r]
      | l :: ls => (r ++ l) :: ls := by
  induction r with
  | nil => simp [splitRaw] at h
  | cons x r ih =>
    by_cases hx : x = LF
    · subst hx
      simp only [splitRaw, if_true, List.cons.injEq] at h
      have hr : r = [] := by
        have := h.1
        simpa using this
      subst hr
      simp at hl
    · simp only [splitRaw, if_neg hx] at h
      cases hs : splitRaw r with
      | nil =>
        have hr := splitRaw_eq_nil hs
        subst hr
        simp only [List.cons_append, List.nil_append, splitRaw, if_neg hx]
        cases splitRaw z <;> rfl
      | cons l ls =>
        rw [hs] at h
        simp only [List.cons.injEq, List.cons.injEq] at h
        obtain ⟨⟨_, h1⟩, h2⟩ := h
        subst h1 h2
        have hne : l ≠ [] := by
          intro hl0; subst hl0; simp [splitRaw] at hs
        have hl' : l.getLast? ≠ some LF := by
          cases l with
          | nil => exact absurd rfl hne
          | cons y l => rwa [List.getLast?_cons_cons] at hl
        have ih' := ih hs hl'
        simp only [List.cons_append, splitRaw, if_neg hx]
        rw [ih']
        cases splitRaw z <;> rfl

/-! ## `Line.ofRaw` -/

theorem ofRaw_crlf (b : Bytes) : Line.ofRaw (b ++ [CR, LF]) = ⟨b, .crlf⟩ := by
  simp [Line.ofRaw, CR, LF]

theorem ofRaw_lf (b : Bytes) (h : b.getLast? ≠ some CR) : Line.ofRaw (b ++ [LF]) = ⟨b, .lf⟩ := by
  unfold Line.ofRaw
  have hr : b = b.reverse.reverse := by simp
  generalize b.reverse = rv at hr
  subst hr
  simp only [List.reverse_append, List.reverse_cons, List.reverse_nil, List.nil_append,
    List.reverse_reverse, LF, List.singleton_append]
  cases rv with
  | nil => rfl
  | cons c rv =>
    have hc : c ≠ 13 := by
      intro hc; subst hc; simp [CR] at h
    split
    · rename_i heq; simp only [List.cons.injEq] at heq; exact absurd heq.2.1 hc
    · rename_i heq; simp only [List.cons.injEq] at heq; rw [← heq.2]
    · rename_i h1 h2; exact absurd rfl (h2 _)

theorem ofRaw_none (r : Bytes) (h : r.getLast? ≠ some LF) : Line.ofRaw r = ⟨r, .none⟩ := by
  unfold Line.ofRaw
  have hr : r = r.reverse.reverse := by simp
  generalize r.reverse = rv at hr
  subst hr
  cases rv with
  | nil => rfl
  | cons c rv =>
    have hc : c ≠ 10 := by
      intro hc; subst hc; simp [LF] at h
    split
    · rename_i heq; simp only [List.cons.injEq] at heq; exact absurd heq.1 hc
    · rename_i heq; simp only [List.cons.injEq] at heq; exact absurd heq.1 hc
    · rfl

theorem all_append_false {p : UInt8 → Bool} (a b : Bytes) (h : b.all p = false) :
    (a ++ b).all p = false := by
  simp only [List.all_append, h, Bool.and_false]

theorem all_append_false_left {p : UInt8 → Bool} (a b : Bytes) (h : a.all p = false) :
    (a ++ b).all p = false := by
  simp only [List.all_append, h, Bool.false_and]

/-- (NB') a significant complete line stays significant when bytes are put in front of it. -/
theorem ofRaw_prepend_sig (p r : Bytes) (hlf : r.getLast? = some LF)
    (hs : (Line.ofRaw r).isBlank = false) : (Line.ofRaw (p ++ r)).isBlank = false := by
  obtain ⟨body, rfl⟩ : ∃ body, r = body ++ [LF] := by
    rcases List.eq_nil_or_concat r with h | ⟨body, x, h⟩
    · subst h; simp at hlf
    · subst h; simp at hlf; subst hlf; exact ⟨body, by simp⟩
  by_cases hcr : body.getLast? = some CR
  · obtain ⟨b', rfl⟩ : ∃ b', body = b' ++ [CR] := by
      rcases List.eq_nil_or_concat body with h | ⟨b', x, h⟩
      · subst h; simp at hcr
      · subst h; simp at hcr; subst hcr; exact ⟨b', by simp⟩
    have e1 : b' ++ [CR] ++ [LF] = b' ++ [CR, LF] := by simp
    have e2 : p ++ (b' ++ [CR] ++ [LF]) = (p ++ b') ++ [CR, LF] := by simp
    rw [e1, ofRaw_crlf] at hs
    rw [e2, ofRaw_crlf]
    simp only [Line.isBlank] at hs ⊢
    exact all_append_false _ _ hs
  · rw [ofRaw_lf body hcr] at hs
    simp only [Line.isBlank] at hs
    have hne : body ≠ [] := by intro h; subst h; simp at hs
    have e2 : p ++ (body ++ [LF]) = (p ++ body) ++ [LF] := by simp
    rw [e2, ofRaw_lf]
    · simp only [Line.isBlank]; exact all_append_false _ _ hs
    · rw [List.getLast?_append]
      cases hb : body.getLast? with
      | none => simp at hb; exact absurd hb hne
      | some c => rw [hb] at hcr; simpa using hcr

/-- (NB) a significant unfinished line stays significant when bytes are appended, unless it ends
with CR and the appended bytes start with LF. -/
theorem ofRaw_append_sig (r l : Bytes) (hlf : r.getLast? ≠ some LF)
    (hs : (Line.ofRaw r).isBlank = false)
    (hcut : r.getLast? = some CR → l.head? ≠ some LF) :
    (Line.ofRaw (r ++ l)).isBlank = false := by
  rw [ofRaw_none r hlf] at hs
  simp only [Line.isBlank] at hs
  by_cases hl : l = []
  · subst hl; rw [List.append_nil, ofRaw_none r hlf]; exact hs
  have ho := Line.ofRaw_original (r ++ l)
  suffices ∃ z, (Line.ofRaw (r ++ l)).text = r ++ z by
    obtain ⟨z, hz⟩ := this
    simp only [Line.isBlank, hz]
    exact all_append_false_left _ _ hs
  generalize Line.ofRaw (r ++ l) = L at ho
  obtain ⟨text, ending⟩ := L
  simp only [Line.original] at ho ⊢
  obtain ⟨l', x, rfl⟩ : ∃ l' x, l = l' ++ [x] := by
    rcases List.eq_nil_or_concat l with h | ⟨l', x, h⟩
    · exact absurd h hl
    · exact ⟨l', x, by simpa using h⟩
  cases ending with
  | none => exact ⟨l' ++ [x], by simpa [Ending.bytes] using ho⟩
  | lf =>
    simp only [Ending.bytes] at ho
    rw [← List.append_assoc] at ho
    have := List.append_inj' ho (by simp)
    exact ⟨l', this.1⟩
  | crlf =>
    simp only [Ending.bytes] at ho
    have e : text ++ [CR, LF] = (text ++ [CR]) ++ [LF] := by simp
    rw [e, ← List.append_assoc] at ho
    have h1 := List.append_inj' ho (by simp)
    obtain ⟨h1, h2⟩ := h1
    rcases List.eq_nil_or_concat l' with h | ⟨l'', y, h⟩
    · subst h
      simp only [List.append_nil] at h1
      exfalso
      simp only [List.cons.injEq, and_true] at h2
      apply hcut
      · rw [← h1]; simp
      · simp [h2]
    · subst h
      simp only [List.concat_eq_append] at h1
      rw [← List.append_assoc] at h1
      have := List.append_inj' h1 (by simp)
      exact ⟨l'', this.1⟩

/-! ## Modes of the block splitter -/

def stepMode (m : Mode) (l : Line) : Mode :=
  if l.isBlank then (match m with | .pre => .pre | _ => .post) else .sig

def finalMode : Mode → List Line → Mode
  | m, [] => m
  | m, l :: ls => finalMode (stepMode m l) ls

theorem finalMode_append (m : Mode) (xs ys : List Line) :
    finalMode m (xs ++ ys) = finalMode (finalMode m xs) ys := by
  induction xs generalizing m with
  | nil => rfl
  | cons x xs ih => simp [finalMode, ih]

theorem stepMode_sig (m : Mode) (l : Line) (h : l.isBlank = false) : stepMode m l = .sig := by
  simp [stepMode, h]

/-- (MONO) if a run from `pre` ends in `post`, so does a run from any mode. -/
theorem finalMode_mono (m : Mode) (ls : List Line) (h : finalMode .pre ls = .post) :
    finalMode m ls = .post := by
  induction ls generalizing m with
  | nil => simp [finalMode] at h
  | cons l ls ih =>
    simp only [finalMode] at h ⊢
    cases hb : l.isBlank with
    | true =>
      simp only [stepMode, hb, if_true] at h ⊢
      cases m with
      | pre => exact h
      | sig => exact ih .post h
      | post => exact ih .post h
    | false =>
      simp only [stepMode, hb, Bool.false_eq_true, if_false] at h ⊢
      exact h

/-- one step of `blocksGo` without emission -/
theorem blocksGo_cons_noemit (m : Mode) (cur : List Line) (l : Line) (ls : List Line)
    (h : ¬(m = .post ∧ l.isBlank = false)) :
    blocksGo m cur (l :: ls) = blocksGo (stepMode m l) (cur ++ [l]) ls := by
  cases m <;> cases hb : l.isBlank <;> simp_all [blocksGo, stepMode]

theorem blocksGo_post_sig (cur : List Line) (l : Line) (ls : List Line) (h : l.isBlank = false) :
    blocksGo .post cur (l :: ls) = cur :: blocksGo .sig [l] ls := by
  simp [blocksGo, h]

theorem blocksOfLines_cons_sig (l : Line) (ls : List Line) (h : l.isBlank = false) :
    blocksOfLines (l :: ls) = blocksGo .sig [l] ls := by
  simp [blocksOfLines, blocksGo, h]

/-- (CUT) after a run that ends in mode `post`, a significant line starts afresh. -/
theorem blocksGo_cut (m : Mode) (cur xs : List Line) (y : Line) (ys : List Line)
    (hm : finalMode m xs = .post) (hy : y.isBlank = false) :
    blocksGo m cur (xs ++ y :: ys) = blocksGo m cur xs ++ blocksOfLines (y :: ys) := by
  induction xs generalizing m cur with
  | nil =>
    simp only [finalMode] at hm
    subst hm
    rw [List.nil_append, blocksGo_post_sig _ _ _ hy, blocksOfLines_cons_sig _ _ hy]
    simp [blocksGo]
  | cons x xs ih =>
    simp only [finalMode] at hm
    by_cases he : m = .post ∧ x.isBlank = false
    · obtain ⟨rfl, hx⟩ := he
      rw [List.cons_append, blocksGo_post_sig _ _ _ hx, blocksGo_post_sig _ _ _ hx]
      rw [stepMode_sig _ _ hx] at hm
      rw [ih .sig [x] hm]; rfl
    · rw [List.cons_append, blocksGo_cons_noemit _ _ _ _ he, blocksGo_cons_noemit _ _ _ _ he]
      exact ih _ _ hm

/-- (STRUCT) if `blocksGo` yields at least two blocks, the first one is a complete run and the
others are the blocks of the remaining lines, which start with a significant line. -/
theorem blocksGo_struct (m : Mode) (cur ls : List Line) (b : List Line) (B : List (List Line))
    (h : blocksGo m cur ls = b :: B) (hB : B ≠ []) :
    ∃ xs y ys, ls = xs ++ y :: ys ∧ b = cur ++ xs ∧ finalMode m xs = .post ∧
      y.isBlank = false ∧ B = blocksOfLines (y :: ys) := by
  induction ls generalizing m cur with
  | nil =>
    cases m <;> simp [blocksGo] at h
    all_goals exact absurd h.2 hB
  | cons l ls ih =>
    by_cases he : m = .post ∧ l.isBlank = false
    · obtain ⟨rfl, hl⟩ := he
      rw [blocksGo_post_sig _ _ _ hl] at h
      simp only [List.cons.injEq] at h
      refine ⟨[], l, ls, rfl, by simp [h.1], rfl, hl, ?_⟩
      rw [blocksOfLines_cons_sig _ _ hl]; exact h.2.symm
    · rw [blocksGo_cons_noemit _ _ _ _ he] at h
      obtain ⟨xs, y, ys, h1, h2, h3, h4, h5⟩ := ih _ _ h
      exact ⟨l :: xs, y, ys, by simp [h1], by simp [h2], by simpa [finalMode] using h3, h4, h5⟩

/-- the first of several blocks, on its own, is a single block -/
theorem blocksGo_struct_single (m : Mode) (cur xs : List Line) (y : Line) (ys : List Line)
    (b : List Line) (B : List (List Line))
    (h : blocksGo m cur (xs ++ y :: ys) = b :: B) (hm : finalMode m xs = .post)
    (hy : y.isBlank = false) (hB : B = blocksOfLines (y :: ys)) :
    blocksGo m cur xs = [b] := by
  rw [blocksGo_cut m cur xs y ys hm hy, ← hB] at h
  have h4 : blocksGo m cur xs ++ B = [b] ++ B := by simpa using h
  exact List.append_cancel_right h4

theorem blocksOfLines_flatten (ls : List Line) (h : blocksOfLines ls ≠ []) :
    (blocksOfLines ls).flatten = ls := by
  by_cases hall : ∀ l ∈ ls, l.isBlank = true
  · exact absurd (blocksGo_pre_allBlank [] ls hall) h
  · have : ∃ l ∈ ls, l.isBlank = false := by
      apply Classical.byContradiction
      intro hne
      apply hall
      intro l hl
      cases hb : l.isBlank with
      | true => rfl
      | false => exact absurd ⟨l, hl, hb⟩ hne
    have := blocksGo_flatten .pre [] ls (Or.inr this)
    simpa [blocksOfLines] using this

/-! ## Texts -/

theorem joinLines_map_ofRaw (A : List Bytes) : joinLines (A.map Line.ofRaw) = A.flatten := by
  unfold joinLines
  rw [List.map_map]
  have : (Line.original ∘ Line.ofRaw) = id := by
    funext r; simp [Line.ofRaw_original]
  rw [this]; simp

theorem splitLines_append (a b : Bytes) (ha : a = [] ∨ a.getLast? = some LF) :
    splitLines (a ++ b) = splitLines a ++ splitLines b := by
  simp [splitLines, splitRaw_append a b ha]

/-- (LS) prefixes and suffixes of the line list of a text are line lists of their own text. -/
theorem splitLines_parts (t : Bytes) (X Y : List Line) (h : splitLines t = X ++ Y) :
    splitLines (joinLines X) = X ∧ splitLines (joinLines Y) = Y ∧
      (Y ≠ [] → X = [] ∨ (joinLines X).getLast? = some LF) := by
  unfold splitLines at h
  obtain ⟨A, B, h1, rfl, rfl⟩ := List.map_eq_append_iff.mp h
  obtain ⟨r1, r2, r3⟩ := splitRaw_parts t A B h1
  simp only [joinLines_map_ofRaw, splitLines, r1, r2, true_and]
  intro hB
  have hB' : B ≠ [] := by intro h; subst h; simp at hB
  rcases r3 hB' with h | h
  · left; simp [h]
  · right; exact h

/-- the first line of the text exists and is significant -/
def FirstSig (Y : Bytes) : Prop := ∃ y ys, splitLines Y = y :: ys ∧ y.isBlank = false

/-- (K1) a text that ends with a complete blank line after a significant line can be cut off
when the rest starts with a significant line. -/
theorem blocksOf_cut (X Y : Bytes) (hX : X.getLast? = some LF)
    (hm : finalMode .pre (splitLines X) = .post) (hY : FirstSig Y) :
    blocksOf (X ++ Y) = blocksOf X ++ blocksOf Y := by
  obtain ⟨y, ys, h1, h2⟩ := hY
  unfold blocksOf
  rw [splitLines_append X Y (Or.inr hX), h1]
  exact blocksGo_cut .pre [] _ y ys hm h2

theorem head?_of_splitRaw_cons (Y l : Bytes) (ls : List Bytes) (h : splitRaw Y = l :: ls) (c : UInt8)
    (hl : l.head? = some c) : Y.head? = some c := by
  have := splitRaw_flatten Y
  rw [h] at this
  rw [← this]
  cases l with
  | nil => simp at hl
  | cons x l => simpa using hl

/-- (FIRSTSIG) a significant first line stays significant when text is appended at a good cut. -/
theorem firstSig_append (Y1 Y2 : Bytes) (h : FirstSig Y1)
    (hcut : Y1.getLast? = some CR → Y2.head? ≠ some LF) : FirstSig (Y1 ++ Y2) := by
  obtain ⟨y, ys, h1, h2⟩ := h
  unfold splitLines at h1
  obtain ⟨r, rs, hr, rfl, rfl⟩ := List.map_eq_cons_iff.mp h1
  by_cases hrs : rs = []
  · subst hrs
    have hY1 : Y1 = r := by
      have := splitRaw_flatten Y1
      rw [hr] at this; simpa using this.symm
    subst hY1
    by_cases hlf : Y1.getLast? = some LF
    · refine ⟨Line.ofRaw Y1, (splitRaw Y2).map Line.ofRaw, ?_, h2⟩
      simp [splitLines, splitRaw_append Y1 Y2 (Or.inr hlf), hr]
    · have hf := splitRaw_fuse Y1 Y2 hr hlf
      cases hs : splitRaw Y2 with
      | nil =>
        rw [hs] at hf
        exact ⟨Line.ofRaw Y1, [], by simp [splitLines, hf], h2⟩
      | cons l ls =>
        rw [hs] at hf
        refine ⟨Line.ofRaw (Y1 ++ l), ls.map Line.ofRaw, by simp [splitLines, hf], ?_⟩
        apply ofRaw_append_sig Y1 l hlf h2
        intro hcr hl
        exact hcut hcr (head?_of_splitRaw_cons Y2 l ls hs LF hl)
  · obtain ⟨t', e1, e2, e3, e4⟩ := splitRaw_cons_inv' Y1 r rs hr hrs
    refine ⟨Line.ofRaw r, (splitRaw (t' ++ Y2)).map Line.ofRaw, ?_, h2⟩
    rw [e1, List.append_assoc]
    simp [splitLines, splitRaw_append r (t' ++ Y2) (Or.inr e2), e4]

/-- (A) completeness of the end of a text is not affected by text put in front. -/
theorem finalMode_prepend (P H : Bytes) (hH : H.getLast? = some LF)
    (hm : finalMode .pre (splitLines H) = .post) :
    finalMode .pre (splitLines (P ++ H)) = .post := by
  by_cases hP : P = [] ∨ P.getLast? = some LF
  · rw [splitLines_append P H hP, finalMode_append]
    exact finalMode_mono _ _ hm
  · have hPne : P ≠ [] := fun h => hP (Or.inl h)
    have hPlf : P.getLast? ≠ some LF := fun h => hP (Or.inr h)
    rcases List.eq_nil_or_concat (splitRaw P) with h | ⟨A, r, h⟩
    · exact absurd (splitRaw_eq_nil h) hPne
    · simp only [List.concat_eq_append] at h
      obtain ⟨r1, r2, r3⟩ := splitRaw_parts P A [r] h
      simp only [List.flatten_cons, List.flatten_nil, List.append_nil] at r2
      have hPeq : P = A.flatten ++ r := by
        have := splitRaw_flatten P
        rw [h] at this; simpa using this.symm
      have hrne : r ≠ [] := by
        intro h0; subst h0; simp [splitRaw] at r2
      have hrlf : r.getLast? ≠ some LF := by
        rw [hPeq, List.getLast?_append] at hPlf
        cases hr : r.getLast? with
        | none => simp
        | some c => rw [hr] at hPlf; simpa using hPlf
      have hHne : H ≠ [] := by intro h0; subst h0; simp at hH
      cases hs : splitRaw H with
      | nil => exact absurd (splitRaw_eq_nil hs) hHne
      | cons l ls =>
        have hfuse := splitRaw_fuse r H r2 hrlf
        rw [hs] at hfuse
        have hsplit : splitLines (P ++ H) =
            A.map Line.ofRaw ++ Line.ofRaw (r ++ l) :: ls.map Line.ofRaw := by
          have hA : A.flatten = [] ∨ A.flatten.getLast? = some LF := by
            rcases r3 (by simp) with h | h
            · left; simp [h]
            · right; exact h
          rw [hPeq, List.append_assoc]
          simp only [splitLines]
          rw [splitRaw_append A.flatten (r ++ H) hA, r1, hfuse]
          simp
        have hsplitH : splitLines H = Line.ofRaw l :: ls.map Line.ofRaw := by
          simp [splitLines, hs]
        have hllf : l.getLast? = some LF := by
          by_cases hls : ls = []
          · subst hls
            have := splitRaw_flatten H
            rw [hs] at this
            simp at this; rw [this]; exact hH
          · obtain ⟨_, _, e2, _⟩ := splitRaw_cons_inv H l ls hs hls
            exact e2
        rw [hsplit, finalMode_append]
        rw [hsplitH] at hm
        simp only [finalMode] at hm ⊢
        cases hb : (Line.ofRaw l).isBlank with
        | true =>
          simp only [stepMode, hb, if_true] at hm
          exact finalMode_mono _ _ hm
        | false =>
          rw [stepMode_sig _ _ hb] at hm
          rw [stepMode_sig _ _ (ofRaw_prepend_sig r l hllf hb)]
          exact hm

theorem getLast?_append_of_ne_nil {α} (a b : List α) (hb : b ≠ []) :
    (a ++ b).getLast? = b.getLast? := by
  rw [List.getLast?_append]
  cases h : b.getLast? with
  | none => simp at h; exact absurd h hb
  | some c => simp

/-- (DECOMP) a text with at least two blocks: the first block is a complete text of its own. -/
theorem blocksOf_decomp (R : Bytes) (b : List Line) (B : List (List Line))
    (h : blocksOf R = b :: B) (hB : B ≠ []) :
    ∃ R2, R = joinLines b ++ R2 ∧ (joinLines b).getLast? = some LF ∧
      finalMode .pre (splitLines (joinLines b)) = .post ∧ blocksOf (joinLines b) = [b] ∧
      FirstSig R2 ∧ blocksOf R2 = B ∧ R2 ≠ [] := by
  unfold blocksOf blocksOfLines at h
  obtain ⟨xs, y, ys, h1, h2, h3, h4, h5⟩ := blocksGo_struct .pre [] (splitLines R) b B h hB
  simp only [List.nil_append] at h2
  subst h2
  obtain ⟨l1, l2, l3⟩ := splitLines_parts R b (y :: ys) h1
  have hbne : b ≠ [] := by
    intro h0; subst h0; simp [finalMode] at h3
  have hlf : (joinLines b).getLast? = some LF := by
    rcases l3 (by simp) with h0 | h0
    · exact absurd h0 hbne
    · exact h0
  have hsingle := blocksGo_struct_single .pre [] b y ys b B (by rw [← h1]; exact h) h3 h4 h5
  refine ⟨joinLines (y :: ys), ?_, hlf, by rw [l1]; exact h3, ?_, ⟨y, ys, l2, h4⟩, ?_, ?_⟩
  · rw [← joinLines_append, ← h1, joinLines_splitLines]
  · unfold blocksOf blocksOfLines; rw [l1]; exact hsingle
  · unfold blocksOf; rw [l2]; exact h5.symm
  · intro h0
    rw [h0] at l2
    simp [splitLines, splitRaw] at l2

/-- (PEEL) all blocks but the last one of a text are blocks of any extension of the text (at a
good cut); the last block is re-split together with the extension. -/
theorem blocksOf_peel (mid : List (List Line)) (last : List Line) (R S : Bytes)
    (h : blocksOf R = mid ++ [last]) (hcut : R.getLast? = some CR → S.head? ≠ some LF) :
    blocksOf (R ++ S) = mid ++ blocksOf (joinLines last ++ S) := by
  induction mid generalizing R with
  | nil =>
    simp only [List.nil_append] at h ⊢
    have hf := blocksOfLines_flatten (splitLines R) (by
      show blocksOf R ≠ []
      rw [h]; simp)
    have : joinLines last = R := by
      have h' : blocksOfLines (splitLines R) = [last] := h
      rw [h'] at hf
      simp only [List.flatten_cons, List.flatten_nil, List.append_nil] at hf
      rw [hf, joinLines_splitLines]
    rw [this]
  | cons b mid ih =>
    obtain ⟨R2, e1, e2, e3, e4, e5, e6, e7⟩ :=
      blocksOf_decomp R b (mid ++ [last]) (by simpa using h) (by simp)
    have hlast : R2.getLast? = R.getLast? := by
      rw [e1, getLast?_append_of_ne_nil _ _ e7]
    have hcut2 : R2.getLast? = some CR → S.head? ≠ some LF := by
      rw [hlast]; exact hcut
    have := ih R2 e6 hcut2
    rw [e1, List.append_assoc, blocksOf_cut _ _ e2 e3 (firstSig_append R2 S e5 hcut2), e4, this]
    simp

/-- (KEY) a chunk with several local blocks, in context. -/
theorem blocksOf_key (P c S : Bytes) (b1 : List Line) (mid : List (List Line)) (last : List Line)
    (h : blocksOf c = b1 :: (mid ++ [last])) (hcut : c.getLast? = some CR → S.head? ≠ some LF) :
    blocksOf (P ++ c ++ S) = blocksOf (P ++ joinLines b1) ++ mid ++ blocksOf (joinLines last ++ S) := by
  obtain ⟨R2, e1, e2, e3, e4, e5, e6, e7⟩ := blocksOf_decomp c b1 (mid ++ [last]) h (by simp)
  have hlast : R2.getLast? = c.getLast? := by
    rw [e1, getLast?_append_of_ne_nil _ _ e7]
  have hcut2 : R2.getLast? = some CR → S.head? ≠ some LF := by
    rw [hlast]; exact hcut
  have hne : joinLines b1 ≠ [] := by intro h0; rw [h0] at e2; simp at e2
  have hX : (P ++ joinLines b1).getLast? = some LF := by
    rw [getLast?_append_of_ne_nil _ _ hne]; exact e2
  have hcutX := blocksOf_cut (P ++ joinLines b1) (R2 ++ S) hX (finalMode_prepend P _ e2 e3)
    (firstSig_append R2 S e5 hcut2)
  have e : P ++ c ++ S = (P ++ joinLines b1) ++ (R2 ++ S) := by
    rw [e1]; simp
  rw [e, hcutX, blocksOf_peel mid last R2 S e6 hcut2]
  simp

end KlogV
