/-
C04b, part 16: `switch` on the record of block `i`: the open range is closed and a new entry is
written behind the last line of the record.
-/
import KlogV.Lemmas.RefineB15
namespace KlogV.RefineBLemmas
open KlogV KlogV.RefineLemmas KlogV.EditLemmas KlogV.GrammarLemmas

/-- (SWITCH-AT) the value line of the open range is rewritten, then a printed entry is appended -/
theorem switch_at (file : Bytes) (hcr : file.getLast? ≠ some 13) (rs : List Record) (bos : List BlockOut)
    (hp : parseDoc file = .records rs bos) (i : Nat) (r : Record) (bo : BlockOut)
    (hr : rs[i]? = some r) (hbo : bos[i]? = some bo) (E1 E2 : List Entry) (s : Time) (sp : Bool) (x : Nat)
    (sm : List (List Char)) (hE : r.entries = E1 ++ ⟨.openRange s sp x, sm⟩ :: E2)
    (e' : Time) (hw : e'.wf = true) (hord : s.offset ≤ e'.offset)
    (vnew : EntryVal) (hvn : ValWF vnew) (hvopen : ∀ y ∈ E1 ++ E2, isOpen y.val = false)
    (smb : List Bytes) (hs : CleanSummary smb) (rs' : List Record) (bos' : List BlockOut)
    (hp' : parseDoc (joinLines (insertLines (elect (determine r bo.lines) rs (bos.map (·.lines)))
        (closeLines (elect (determine r bo.lines) rs (bos.map (·.lines))) (bos.map (·.lines)).flatten
          (indexOfLastSignificantLine bo.first bo.lines - countLines (r.entries.drop E1.length)) sm
          (bytesOfChars e'.print) [])
        (indexOfLastSignificantLine bo.first bo.lines)
        (toMultilineEntryTexts (bytesOfChars vnew.print) smb))) = .records rs' bos') :
    rs' = rs.take i ++ [{ r with entries := (E1 ++ ⟨.range s e' sp, sm⟩ :: E2) ++
      [⟨vnew, Spec.normSummary (smb.map decodeGo)⟩] }] ++ rs.drop (i + 1) := by
  obtain ⟨B1, R2, pre, post, S1, KLc, CL, lv, hlc, hd, sums, ind, g1, g2, sv, v, texts,
    c1, c2, c3, c4, c5, c6, c7, c8, c9, c10, c11, c12, c13, c14, c15, c16, c17, c18, c19, c20, c21, c22, c23, c24⟩ :=
    open_entry_ctx file hcr rs bos hp i r bo hr hbo E1 E2 s sp x sm hE
  generalize hst : elect (determine r bo.lines) rs (bos.map (·.lines)) = st at hp' c22 c23 ⊢
  obtain ⟨vs', restB, vsOld, d1, d2, d3, d4, d5, d6, d7, d8, d9⟩ :=
    open_line_surgery lv.text ind sv c16 v s sp x e' c8 c9 c10 hw hord
  generalize hX : B1.flatten ++ pre ++ S1 = X at c1 c2 c3 c4
  rw [c1, c4, c3] at hp'
  simp only [closeLines] at hp'
  rw [modifyLine_split, d5] at hp'
  generalize hlv1 : ({ lv with text := encode (ind ++ vs') ++ restB } : Line) = lv1 at hp'
  have hlv1t : lv1.text = encode (ind ++ vs') ++ restB := by rw [← hlv1]
  have hlv1e : lv1.ending = lv.ending := by rw [← hlv1]
  have hlvm : lv ∈ X ++ lv :: (KLc ++ (CL ++ post ++ R2)) := by simp
  have hvsne : encode (ind ++ vs') ≠ [] := by
    obtain ⟨ci, ri, ei, _⟩ := indent_head ind c16
    rw [ei, List.cons_append, encode_cons]
    obtain ⟨b, bs, eb⟩ := encodeChar_cons ci
    rw [eb]; simp
  have hvsLF : LF ∉ encode (ind ++ vs') := by
    apply encode_noLF
    intro c hc
    rcases List.mem_append.mp hc with h | h
    · exact indent_noLF ind c16 c h
    · exact (d6 c h).2.2.1
  have hvsCR : (encode (ind ++ vs')).getLast? ≠ some CR := by
    intro h
    have := encode_getLast_CR _ h
    obtain ⟨c0, r0, e0, _⟩ := d7
    rw [getLast?_append_of_ne_nil _ _ (by rw [e0]; simp)] at this
    exact (d6 _ (List.mem_of_getLast? this)).2.2.2 rfl
  obtain ⟨g1a, g1b⟩ := lineGood_mod file _ c2 lv hlvm (encode (ind ++ vs') ++ restB)
    (by
      intro hm
      rcases List.mem_append.mp hm with h | h
      · exact hvsLF h
      · exact c2.noLF lv hlvm (by rw [d3]; simp [h]))
    (by simp [hvsne])
    (by
      intro hold
      by_cases hrb : restB = []
      · rw [hrb, List.append_nil]; exact hvsCR
      · rw [getLast?_append_of_ne_nil _ _ hrb]
        rw [d3, getLast?_append_of_ne_nil _ _ hrb] at hold
        exact hold)
  rw [hlv1] at g1a g1b
  have G1 := good_replace file _ X (KLc ++ (CL ++ post ++ R2)) lv lv1 c2 rfl hlv1e g1a (by rw [hlv1t]; exact g1b)
  -- the new entry
  obtain ⟨hc1, ⟨b0, tl, hft, hb0⟩, _⟩ := firstText_props vnew smb hs
  rw [toMulti_eq, hft] at hp'
  have hclean : ∀ l ∈ (b0 :: tl) :: smb.drop 1, CleanLine l := by
    intro l hl
    rcases List.mem_cons.mp hl with rfl | hl
    · rw [← hft]; exact hc1
    · exact hs.1 l (List.mem_of_mem_drop hl)
  have hnb : ∀ l ∈ (b0 :: tl) :: smb.drop 1, l.all isBlankByte = false := by
    intro l hl
    rcases List.mem_cons.mp hl with rfl | hl
    · simp [hb0]
    · exact blank_bytes_summary l (hs.2 l hl)
  rw [insertLines_ins, entry_lines_eq st c23 _ _ hclean] at hp'
  have hNEWclean := entry_lines_clean st c23 _ _ hclean
  have hNEWsig := entry_lines_sig st _ _ hnb
  have G2 := good_insert _ _ G1 st c23.ending (X.length + (1 + KLc.length) + CL.length)
    (entryLinesOf st (b0 :: tl) (smb.drop 1)) hNEWclean
  have hins : ins st (X ++ lv1 :: (KLc ++ (CL ++ post ++ R2))) (X.length + (1 + KLc.length) + CL.length)
      (entryLinesOf st (b0 :: tl) (smb.drop 1)) =
      X ++ (fixLast st (lv1 :: (KLc ++ CL)) ++ entryLinesOf st (b0 :: tl) (smb.drop 1)) ++ (post ++ R2) := by
    unfold ins
    have e : X ++ lv1 :: (KLc ++ (CL ++ post ++ R2)) = (X ++ (lv1 :: (KLc ++ CL))) ++ (post ++ R2) := by simp
    have hl : (X ++ (lv1 :: (KLc ++ CL))).length = X.length + (1 + KLc.length) + CL.length := by
      simp only [List.length_append, List.length_cons]; omega
    rw [e, ← hl, List.take_left' rfl, List.drop_left' rfl, fixLast_append st X _ (by simp)]
    simp
  rw [hins] at hp' G2
  have hsigold : ∀ l ∈ S1 ++ lv :: (KLc ++ CL), l.isBlank = false := c5
  have hlv1sig : lv1.isBlank = false := by
    rw [Line.isBlank, hlv1t]
    obtain ⟨cl, hcl1, hcl2⟩ := d8
    have hclm := List.mem_of_getLast? hcl1
    apply all_append_false_left
    rw [encode_append]
    apply all_append_false
    exact encode_not_blank vs' cl hclm (by intro h0; subst h0; simp [isSpTab] at hcl2) (by intro h0; subst h0; simp [isSpTab] at hcl2)
  have hmidsig : AllSig (lv1 :: (KLc ++ CL)) := by
    intro l hl
    rcases List.mem_cons.mp hl with rfl | h
    · exact hlv1sig
    · exact hsigold l (by simp; right; right; simpa using h)
  have hN : X ++ (fixLast st (lv1 :: (KLc ++ CL)) ++ entryLinesOf st (b0 :: tl) (smb.drop 1)) ++ (post ++ R2) =
      B1.flatten ++ (pre ++ (S1 ++ (fixLast st (lv1 :: (KLc ++ CL)) ++ entryLinesOf st (b0 :: tl) (smb.drop 1))) ++ post ++ R2) := by
    rw [← hX]; simp
  rw [hN] at hp' G2
  obtain ⟨r', hr', hrs'⟩ := c24 _ (by
    intro h0
    have := (List.append_eq_nil_iff.mp h0).1
    rw [this] at c6
    simp at c6) (by
    intro l hl
    rcases List.mem_append.mp hl with h | h
    · exact hsigold l (by simp [h])
    · rcases List.mem_append.mp h with h | h
      · exact fixLast_allSig st _ hmidsig l h
      · exact hNEWsig l h) rs' bos' G2.split hp'
  -- the groups
  have hK1 : Grp ind ((ind ++ (vs' ++ v.rest)) :: texts.map (fun t => ind ++ ind ++ t)) ⟨.range s e' sp, sm⟩ := by
    obtain ⟨p, l, hpv⟩ := d9 v.rest d2
    obtain ⟨c, r0, e, hc⟩ := d7
    exact ⟨vs' ++ v.rest, _, texts, rfl, hpv, ⟨c, r0 ++ v.rest, by rw [e]; rfl, hc⟩, by rw [c11], c12⟩
  have hKn := printed_grp ind vnew hvn smb hs
  rw [hft] at hKn
  have hall : AllGrp ind (g1 ++ ((ind ++ (vs' ++ v.rest)) :: texts.map (fun t => ind ++ ind ++ t),
      (⟨.range s e' sp, sm⟩ : Entry)) :: (g2 ++ [((ind ++ decodeGo (b0 :: tl)) :: (smb.drop 1).map (fun l => ind ++ ind ++ decodeGo l),
        (⟨vnew, Spec.normSummary (smb.map decodeGo)⟩ : Entry))])) := by
    intro g hg
    rcases List.mem_append.mp hg with hg | hg
    · exact c17 g hg
    · rcases List.mem_cons.mp hg with rfl | hg
      · exact hK1
      · rcases List.mem_append.mp hg with hg | hg
        · exact c18 g hg
        · simp only [List.mem_singleton] at hg
          subst hg
          exact hKn
  have hcount : (((E1 ++ (⟨.range s e' sp, sm⟩ : Entry) :: E2) ++ [(⟨vnew, Spec.normSummary (smb.map decodeGo)⟩ : Entry)]).filter
      (fun e => isOpen e.val)).length ≤ 1 := by
    have h1 : (E1.filter (fun e => isOpen e.val)) = [] := by
      rw [List.filter_eq_nil_iff]; intro y hy; simp [hvopen y (by simp [hy])]
    have h2 : (E2.filter (fun e => isOpen e.val)) = [] := by
      rw [List.filter_eq_nil_iff]; intro y hy; simp [hvopen y (by simp [hy])]
    rw [List.filter_append, List.filter_append, List.filter_cons_of_neg (by simp [isOpen]), h1, h2]
    simp only [List.nil_append]
    exact List.length_filter_le _ _
  have hnew := rec_gcomplete pre.length hlc hd sums ind _ c7 c15 c16 hall (by
    simpa [c19, c20] using hcount)
  have hchars : (S1 ++ (fixLast st (lv1 :: (KLc ++ CL)) ++ entryLinesOf st (b0 :: tl) (smb.drop 1))).map (fun l => decodeGo l.text) =
      hlc :: (sums ++ flatG (g1 ++ ((ind ++ (vs' ++ v.rest)) :: texts.map (fun t => ind ++ ind ++ t),
        (⟨.range s e' sp, sm⟩ : Entry)) :: (g2 ++ [((ind ++ decodeGo (b0 :: tl)) :: (smb.drop 1).map (fun l => ind ++ ind ++ decodeGo l),
          (⟨vnew, Spec.normSummary (smb.map decodeGo)⟩ : Entry))]))) := by
    have hlvd : decodeGo lv1.text = ind ++ (vs' ++ v.rest) := by
      rw [hlv1t, decodeGo_encode_ascii _ (by
        intro c hc
        rcases List.mem_append.mp hc with h | h
        · exact (indent_chars ind c16 c h).2.2
        · exact (d6 c h).2.1), d1, List.append_assoc]
    simp only [List.map_append, fixLast_map_decode, List.map_cons, c6, c13, c14, hlvd, entry_lines_decode st c23, ← c22,
      flatG_append, flatG_cons, flatG_nil, List.cons_append, List.append_assoc, List.append_nil]
  rw [hchars, hnew] at hr'
  simp only [ParseOut.record.injEq] at hr'
  rw [hrs', ← hr', c21]
  simp [c19, c20]

end KlogV.RefineBLemmas
