/- Helper lemmas for KlogV/Lemmas/Warnings.lean: where warnings come from; the 24h checker. -/
import KlogV.Lemmas.Warnings1
namespace KlogV

/-- provenance of every warning in the output of the fold -/
theorem wfold_prov (now : Instant) (dis : Disabled) (l : List Record) :
    ∀ (out o' : List (Date × WarnKind)) (seen s' : Bool),
      l.foldl (wstep now dis) (.ok (out, seen)) = .ok (o', s') →
      ∀ w ∈ o', w ∈ out ∨ ∃ r ∈ l, ∃ seen0 w1 s1 w2 w4, wU now dis seen0 r = .ok (w1, s1) ∧
        wF now dis r = .ok w2 ∧ wM dis r = .ok w4 ∧ w ∈ wOut [] r.date w1 w2 (wO dis r) w4 := by
  induction l with
  | nil =>
    intro out o' seen s' h w hw
    simp only [List.foldl_nil, Res.ok.injEq, Prod.mk.injEq] at h
    left; rw [h.1]; exact hw
  | cons r l ih =>
    intro out o' seen s' h w hw
    obtain ⟨w1, s1, w2, w4, hU, hF, hM, hl⟩ := wfold_cons_inv now dis r l out o' seen s' h
    rcases ih _ _ _ _ hl w hw with h1 | ⟨r', hr', hx⟩
    · rw [mem_wOut] at h1
      rcases h1 with h1 | h1
      · left; exact h1
      · right
        refine ⟨r, List.mem_cons_self, seen, w1, s1, w2, w4, hU, hF, hM, ?_⟩
        rw [mem_wOut]; right; exact h1
    · right; exact ⟨r', List.mem_cons_of_mem _ hr', hx⟩

theorem checkWarnings_ok_inv (now : Instant) (dis : Disabled) (rs : List Record) (ws : List (Date × WarnKind))
    (h : checkWarnings now dis rs = .ok ws) :
    ∃ s', (sortRecords false rs).foldl (wstep now dis) (.ok ([], false)) = .ok (ws, s') := by
  rw [checkWarnings_eq] at h
  cases hf : (sortRecords false rs).foldl (wstep now dis) (.ok ([], false)) with
  | err => rw [hf] at h; cases h
  | panic => rw [hf] at h; cases h
  | ok p =>
    obtain ⟨o, s⟩ := p
    rw [hf] at h
    simp only [Res.map, Res.ok.injEq] at h
    exact ⟨s, by rw [h]⟩

theorem mem_sortRecords (asc : Bool) (rs : List Record) (r : Record) : r ∈ sortRecords asc rs ↔ r ∈ rs :=
  (sortRecords_perm asc rs).mem_iff

/-- provenance of every warning of `checkWarnings` -/
theorem checkWarnings_prov (now : Instant) (dis : Disabled) (rs : List Record) (ws : List (Date × WarnKind))
    (h : checkWarnings now dis rs = .ok ws) :
    ∀ w ∈ ws, ∃ r ∈ rs, ∃ seen0 w1 s1 w2 w4, wU now dis seen0 r = .ok (w1, s1) ∧
        wF now dis r = .ok w2 ∧ wM dis r = .ok w4 ∧ w ∈ wOut [] r.date w1 w2 (wO dis r) w4 := by
  obtain ⟨s', hf⟩ := checkWarnings_ok_inv now dis rs ws h
  intro w hw
  rcases wfold_prov now dis _ _ _ _ _ hf w hw with h1 | ⟨r, hr, hx⟩
  · cases h1
  · exact ⟨r, (mem_sortRecords _ _ _).mp hr, hx⟩

/-! ## sumRes -/

theorem safeAdd_ok_w (a b t : Int) (h : safeAdd a b = .ok t) : t = a + b := by
  unfold safeAdd at h
  split at h
  · simp only [Res.ok.injEq] at h; exact h.symm
  · cases h

theorem safeAdd_ne_err (a b : Int) : safeAdd a b ≠ .err := by
  unfold safeAdd; split <;> simp

theorem sumRes_foldl_ok (xs : List Int) :
    ∀ (acc : Res Int) (t : Int), xs.foldl (fun (acc : Res Int) x => acc.bind (fun a => safeAdd a x)) acc = .ok t →
      ∃ a, acc = .ok a ∧ t = a + xs.sum := by
  induction xs with
  | nil => intro acc t h; exact ⟨t, by simpa using h, by simp⟩
  | cons x xs ih =>
    intro acc t h
    rw [List.foldl_cons] at h
    obtain ⟨b, hb, ht⟩ := ih _ _ h
    cases acc with
    | err => simp [Res.bind] at hb
    | panic => simp [Res.bind] at hb
    | ok a =>
      simp only [Res.bind] at hb
      have := safeAdd_ok_w _ _ _ hb
      refine ⟨a, rfl, ?_⟩
      rw [List.sum_cons]; omega

theorem sumRes_ok_eq (xs : List Int) (t : Int) (h : sumRes xs = .ok t) : t = xs.sum := by
  obtain ⟨a, ha, ht⟩ := sumRes_foldl_ok xs _ _ h
  simp only [Res.ok.injEq] at ha
  omega

theorem sumRes_foldl_ne_err (xs : List Int) :
    ∀ (acc : Res Int), acc ≠ .err → xs.foldl (fun (acc : Res Int) x => acc.bind (fun a => safeAdd a x)) acc ≠ .err := by
  induction xs with
  | nil => intro acc h; simpa using h
  | cons x xs ih =>
    intro acc h
    rw [List.foldl_cons]
    apply ih
    cases acc with
    | err => exact absurd rfl h
    | panic => simp [Res.bind]
    | ok a => simp only [Res.bind]; exact safeAdd_ne_err a x

theorem sumRes_ne_err (xs : List Int) : sumRes xs ≠ .err :=
  sumRes_foldl_ne_err xs _ (by simp)

theorem warnMoreThan24h_ok (r : Record) (b : Bool) (h : warnMoreThan24h r = .ok b) :
    b = decide (r.total > 1440) := by
  unfold warnMoreThan24h at h
  cases hs : sumRes (r.entries.map Entry.minutes) with
  | err => rw [hs] at h; cases h
  | panic => rw [hs] at h; cases h
  | ok t =>
    rw [hs] at h
    simp only [Res.map, Res.ok.injEq] at h
    have := sumRes_ok_eq _ _ hs
    rw [← h, this]; rfl

/-! ## the 24h checker over the fold -/

theorem wfold_m24 (now : Instant) (dis : Disabled) (hd : dis.moreThan24h = false) (d : Date) (l : List Record) :
    ∀ (out o' : List (Date × WarnKind)) (seen s' : Bool),
      l.foldl (wstep now dis) (.ok (out, seen)) = .ok (o', s') →
      ((d, WarnKind.moreThan24h) ∈ o' ↔
        ((d, WarnKind.moreThan24h) ∈ out ∨ ∃ r ∈ l, r.date = d ∧ r.total > 1440)) := by
  induction l with
  | nil =>
    intro out o' seen s' h
    simp only [List.foldl_nil, Res.ok.injEq, Prod.mk.injEq] at h
    rw [h.1]; simp
  | cons r l ih =>
    intro out o' seen s' h
    obtain ⟨w1, s1, w2, w4, hU, hF, hM, hl⟩ := wfold_cons_inv now dis r l out o' seen s' h
    rw [ih _ _ _ _ hl, mem_wOut]
    have h4 : w4 = decide (r.total > 1440) := by
      unfold wM at hM
      rw [hd] at hM
      exact warnMoreThan24h_ok r w4 (by simpa using hM)
    simp only [Prod.mk.injEq, reduceCtorEq, and_false, false_or, and_true, List.mem_cons]
    constructor
    · rintro ((h1 | ⟨h1, h2⟩) | ⟨r', hr', hx⟩)
      · left; exact h1
      · right
        refine ⟨r, Or.inl rfl, h2.symm, ?_⟩
        rw [h4] at h1; simpa using h1
      · right; exact ⟨r', Or.inr hr', hx⟩
    · rintro (h1 | ⟨r', rfl | hr', hx⟩)
      · left; left; exact h1
      · left; right
        refine ⟨?_, hx.1.symm⟩
        rw [h4]; simpa using hx.2
      · right; exact ⟨r', hr', hx⟩

end KlogV
