/-
Helper lemmas for C04, part 2: decoding of ASCII bytes, and the correspondence between the
reconciler's notion of indentation (bytes) and the parser's (characters).
-/
import KlogV.Model.Reconciler
import KlogV.Lemmas.RoundtripWF1
namespace KlogV.RefineLemmas

theorem char_ofNat_eq (x : Nat) (c : Char) (h : Char.ofNat x = c) (h0 : c.toNat ≠ 0) : x = c.toNat := by
  have h2 : (Char.ofNat x).toNat = c.toNat := by rw [h]
  generalize c.toNat = n at h2 h0 ⊢
  unfold Char.ofNat at h2
  split at h2
  · simpa [Char.ofNatAux, Char.toNat] using h2
  · exact absurd h2.symm h0

theorem runeError_toNat : runeError.toNat = 0xFFFD := by decide

theorem ite_fst_ascii (cnd : Bool) (X w : Nat) (c : Char) (h0 : c.toNat ≠ 0) (h1 : c.toNat < 0x80)
    (h : (if cnd = true then (Char.ofNat X, w) else (runeError, 1)).1 = c) : cnd = true ∧ X = c.toNat := by
  cases cnd with
  | false =>
    exfalso
    have : runeError.toNat = c.toNat := by
      simp only [Bool.false_eq_true, if_false] at h; rw [h]
    rw [runeError_toNat] at this; omega
  | true => exact ⟨rfl, char_ofNat_eq X c h h0⟩

theorem runeError_ne (c : Char) (h1 : c.toNat < 0x80) : runeError ≠ c := by
  intro h
  have : runeError.toNat = c.toNat := by rw [h]
  rw [runeError_toNat] at this; omega

/-- a non-NUL ASCII character is only ever decoded from its own byte -/
theorem decodeRune_ascii (bs : Bytes) (c : Char) (h0 : c.toNat ≠ 0) (h1' : c.toNat < 0x80)
    (h : (decodeRune bs).1 = c) : ∃ b rest, bs = b :: rest ∧ b.toNat = c.toNat := by
  have hre := runeError_ne c h1'
  cases bs with
  | nil => exact absurd h hre
  | cons b0 rest =>
  by_cases h1 : b0.toNat < 0x80
  · simp only [decodeRune, h1, if_true] at h
    have := char_ofNat_eq _ c h h0
    exact ⟨b0, rest, rfl, this⟩
  · exfalso
    by_cases h2 : (b0.toNat < 0xC2 ∨ b0.toNat > 0xF4)
    · simp only [decodeRune, h1, h2, if_true, if_false, Bool.or_eq_true, decide_eq_true_eq] at h
      exact absurd h hre
    · by_cases h3 : b0.toNat < 0xE0
      · cases rest with
        | nil =>
          simp only [decodeRune, h1, h2, h3, if_true, if_false, Bool.or_eq_true, decide_eq_true_eq] at h
          exact absurd h hre
        | cons b1 rest =>
          simp only [decodeRune, h1, h2, h3, if_true, if_false, Bool.or_eq_true, decide_eq_true_eq] at h
          split at h
          · have := char_ofNat_eq _ c h h0; omega
          · exact absurd h hre
      · by_cases h4 : b0.toNat < 0xF0
        · match rest with
          | [] | [_] =>
            simp only [decodeRune, h1, h2, h3, h4, if_false, Bool.or_eq_true, decide_eq_true_eq] at h
            exact absurd h hre
          | b1 :: b2 :: rest =>
            simp only [decodeRune, h1, h2, h3, h4, if_true, if_false, Bool.or_eq_true, decide_eq_true_eq] at h
            obtain ⟨hc, this⟩ := ite_fst_ascii _ _ _ c h0 h1' h
            simp only [Bool.and_eq_true, decide_eq_true_eq] at hc
            obtain ⟨⟨hc1, hc2⟩, hc3⟩ := hc
            have hhi : (if (b0.toNat == 237) = true then 159 else 191) ≤ 191 := by split <;> omega
            by_cases hE : b0.toNat = 0xE0
            · simp [hE] at hc1; omega
            · omega
        · match rest with
          | [] | [_] | [_, _] =>
            simp only [decodeRune, h1, h2, h3, h4, if_false, Bool.or_eq_true, decide_eq_true_eq] at h
            exact absurd h hre
          | b1 :: b2 :: b3 :: rest =>
            simp only [decodeRune, h1, h2, h3, h4, if_false, Bool.or_eq_true, decide_eq_true_eq] at h
            obtain ⟨hc, this⟩ := ite_fst_ascii _ _ _ c h0 h1' h
            simp only [Bool.and_eq_true, decide_eq_true_eq] at hc
            obtain ⟨⟨⟨hc1, hc2⟩, hc3⟩, hc4⟩ := hc
            have hhi : (if (b0.toNat == 244) = true then 143 else 191) ≤ 191 := by split <;> omega
            by_cases hE : b0.toNat = 0xF0
            · simp [hE] at hc1; omega
            · omega

theorem decodeGo_nil : decodeGo [] = [] := rfl

theorem decodeGo_cons (b : UInt8) (ts : Bytes) :
    decodeGo (b :: ts) = (decodeRune (b :: ts)).1 ::
      decodeGoAux ts.length ((b :: ts).drop (max (decodeRune (b :: ts)).2 1)) := rfl

theorem decodeGo_cons_ascii (b : UInt8) (ts : Bytes) (h : b.toNat < 0x80) :
    decodeGo (b :: ts) = Char.ofNat b.toNat :: decodeGo ts := by
  rw [decodeGo_cons]
  have : decodeRune (b :: ts) = (Char.ofNat b.toNat, 1) := by simp [decodeRune, h]
  rw [this]
  rfl

/-- the characters of ASCII bytes -/
def asciiChars (p : Bytes) : List Char := p.map (fun b => Char.ofNat b.toNat)

theorem decodeGo_append_ascii (p : Bytes) (hp : ∀ b ∈ p, b.toNat < 0x80) (rest : Bytes) :
    decodeGo (p ++ rest) = asciiChars p ++ decodeGo rest := by
  induction p with
  | nil => rfl
  | cons b p ih =>
    rw [List.cons_append, decodeGo_cons_ascii _ _ (hp b (by simp)), ih (fun x hx => hp x (by simp [hx]))]
    rfl

theorem decodeGo_head_ascii (bs : Bytes) (c : Char) (cs : List Char) (h0 : c.toNat ≠ 0) (h1 : c.toNat < 0x80)
    (h : decodeGo bs = c :: cs) : ∃ b rest, bs = b :: rest ∧ b.toNat = c.toNat ∧ cs = decodeGo rest := by
  cases bs with
  | nil => simp [decodeGo_nil] at h
  | cons b ts =>
    have hh : (decodeRune (b :: ts)).1 = c := by
      rw [decodeGo_cons] at h
      exact (List.cons.inj h).1
    obtain ⟨b', rest', e, hb⟩ := decodeRune_ascii _ c h0 h1 hh
    obtain ⟨rfl, rfl⟩ := List.cons.inj e
    refine ⟨b, ts, rfl, hb, ?_⟩
    rw [decodeGo_cons_ascii b ts (by omega)] at h
    exact (List.cons.inj h).2.symm

/-- blank bytes: a prefix of blank bytes corresponds to a prefix of blank characters -/
theorem isPrefixOf_decode (p : Bytes) (hp : ∀ b ∈ p, b = 32 ∨ b = 9) (t : Bytes) :
    (asciiChars p).isPrefixOf (decodeGo t) = p.isPrefixOf t := by
  induction p generalizing t with
  | nil => simp [asciiChars]
  | cons a p ih =>
    have ha : a = 32 ∨ a = 9 := hp a (by simp)
    have ha1 : a.toNat < 0x80 := by rcases ha with rfl | rfl <;> decide
    have ha0 : (Char.ofNat a.toNat).toNat ≠ 0 := by rcases ha with rfl | rfl <;> decide
    have ha2 : (Char.ofNat a.toNat).toNat = a.toNat := by rcases ha with rfl | rfl <;> decide
    cases t with
    | nil => simp [asciiChars, decodeGo_nil]
    | cons b ts =>
      by_cases hb : b = a
      · subst hb
        rw [decodeGo_cons_ascii b ts ha1]
        simp only [asciiChars, List.map_cons, List.isPrefixOf_cons_cons, beq_self_eq_true, Bool.true_and]
        exact ih (fun x hx => hp x (by simp [hx])) ts
      · have hr : (a :: p).isPrefixOf (b :: ts) = false := by
          simp only [List.isPrefixOf_cons_cons]
          have : (a == b) = false := by simp; exact fun e => hb e.symm
          rw [this]; rfl
        rw [hr]
        cases hd : decodeGo (b :: ts) with
        | nil => simp [asciiChars]
        | cons c cs =>
          simp only [asciiChars, List.map_cons, List.isPrefixOf_cons_cons]
          by_cases hc : Char.ofNat a.toNat = c
          · exfalso
            subst hc
            obtain ⟨b', rest', e, hb', _⟩ := decodeGo_head_ascii _ _ _ ha0 (by omega) hd
            obtain ⟨rfl, rfl⟩ := List.cons.inj e
            rw [ha2] at hb'
            exact hb (UInt8.toNat_inj.mp hb')
          · have : (Char.ofNat a.toNat == c) = false := by simpa using hc
            rw [this]; rfl

theorem indentations_eq : indentations = indentationBytes.map asciiChars := by decide

theorem indentationBytes_blank : ∀ i ∈ indentationBytes, ∀ b ∈ i, b = 32 ∨ b = 9 := by decide

theorem find?_map_pred {α β} (f : α → β) (p : α → Bool) (q : β → Bool) (l : List α)
    (h : ∀ x ∈ l, q (f x) = p x) : (l.map f).find? q = (l.find? p).map f := by
  induction l with
  | nil => rfl
  | cons a l ih =>
    have ha := h a (by simp)
    simp only [List.map_cons, List.find?_cons, ha]
    cases p a with
    | true => rfl
    | false => exact ih (fun x hx => h x (by simp [hx]))

/-- the parser's indentation of a decoded line is the reconciler's indentation of its bytes -/
theorem indentatorOf_decode (t : Bytes) :
    indentatorOf (decodeGo t) = (indentationBytes.find? (·.isPrefixOf t)).map asciiChars := by
  unfold indentatorOf
  rw [indentations_eq]
  exact find?_map_pred asciiChars (·.isPrefixOf t) (·.isPrefixOf (decodeGo t)) indentationBytes
    (fun i hi => isPrefixOf_decode i (indentationBytes_blank i hi) t)

theorem isPrefixOf_append_of_not_mem (i t e : Bytes) (h : i.isPrefixOf (t ++ e) = true)
    (hd : ∀ x ∈ i, x ∉ e) : i.isPrefixOf t = true := by
  induction i generalizing t with
  | nil => simp
  | cons a i ih =>
    cases t with
    | nil =>
      exfalso
      cases e with
      | nil => simp at h
      | cons x e =>
        simp only [List.nil_append, List.isPrefixOf_cons_cons, Bool.and_eq_true, beq_iff_eq] at h
        exact hd a (by simp) (by simp [h.1])
    | cons b t =>
      simp only [List.cons_append, List.isPrefixOf_cons_cons, Bool.and_eq_true, beq_iff_eq] at h ⊢
      exact ⟨h.1, ih t h.2 (fun x hx => hd x (by simp [hx]))⟩

theorem isPrefixOf_append_left (i t e : Bytes) (h : i.isPrefixOf t = true) : i.isPrefixOf (t ++ e) = true := by
  rw [List.isPrefixOf_iff_prefix] at h ⊢
  exact h.trans (List.prefix_append t e)

theorem find?_congr_mem {α} (p q : α → Bool) (l : List α) (h : ∀ x ∈ l, p x = q x) :
    l.find? p = l.find? q := by
  induction l with
  | nil => rfl
  | cons a as ih =>
    have ha : p a = q a := h a (by simp)
    have ih' := ih (fun x hx => h x (by simp [hx]))
    simp only [List.find?_cons, ha, ih']

/-- `Line.Indentation()` looks at the text only -/
theorem lineIndentation_text (l : Line) :
    lineIndentation l = indentationBytes.find? (·.isPrefixOf l.text) := by
  unfold lineIndentation
  apply find?_congr_mem
  intro i hi
  have hblank := indentationBytes_blank i hi
  have hd : ∀ x ∈ i, x ∉ l.ending.bytes := by
    intro x hx hxe
    have := hblank x hx
    cases he : l.ending <;> rw [he] at hxe <;> simp [Ending.bytes, CR, LF] at hxe <;>
      rcases this with rfl | rfl <;> rcases hxe with h | h <;> cases h
  cases h1 : i.isPrefixOf l.original with
  | true => exact (isPrefixOf_append_of_not_mem i l.text _ h1 hd).symm
  | false =>
    cases h2 : i.isPrefixOf l.text with
    | false => rfl
    | true =>
      have := isPrefixOf_append_left i l.text l.ending.bytes h2
      unfold Line.original at h1
      rw [h1] at this; cases this

theorem indentatorOf_line (l : Line) :
    indentatorOf (decodeGo l.text) = (lineIndentation l).map asciiChars := by
  rw [indentatorOf_decode, lineIndentation_text]

end KlogV.RefineLemmas
