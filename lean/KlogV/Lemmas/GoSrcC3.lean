/- Helper lemmas for KlogV/Lemmas/GoSrcC.lean: `NewDurationFromString` on the groups of a match. Core Lean only. -/
import KlogV.Lemmas.GoSrcC2
namespace KlogV.GoL.C
open KlogV.Go

theorem fin_dur (a b : Int) (fp : Bool) (zs : Int) :
    (GoSrc.NewDurationWithFormat a b ⟨fp, zs⟩).res =
      Res.map Dur.toGo (match safeMul a 60 with
        | .ok hm => (match safeAdd hm b with
          | .ok tot => .ok ⟨tot, fp, zs⟩
          | _ => .panic)
        | _ => .panic) := by
  rw [ndwf_spec]
  cases safeMul a 60 with
  | ok hm =>
    dsimp only
    cases safeAdd hm b <;> rfl
  | err => rfl
  | panic => rfl

theorem ndfs_core (find : Str → List Str) (s s0 g2 g4 sg hd md : Str)
    (hsg : sg = [] ∨ sg = ['-'] ∨ sg = ['+']) (hh : hd.all isDigit = true) (hm : md.all isDigit = true)
    (hfind : find s = [s0, sg, g2, hd, g4, md]) :
    (GoSrc.NewDurationFromString find s).res = (Dur.ofParts sg hd md).map Dur.toGo := by
  simp only [GoSrc.NewDurationFromString, hfind, Dur.ofParts]
  simp only [idx6_1, idx6_3, idx6_5, ok_bind, err_bind, pure_eq, throw_eq, GoSrc.DefaultDurationFormat, neg1]
  have m1 : ∀ v : Nat, (v : Int) ≤ maxInt → Go.mul 1 (v : Int) = v := mul_one_nat
  have mm1 : ∀ v : Nat, (v : Int) ≤ maxInt → Go.mul (-1) (v : Int) = -v := mul_m1_nat
  generalize Go.mul = mulF at *
  rcases hsg with rfl | rfl | rfl <;>
  rcases atoi_tri hd hh with ⟨hhd, v, hv, e1, e2⟩ | ⟨c, cs, hhd, v, hv, e1, e2⟩ | ⟨c, cs, hhd, v, hv, e1, e2⟩ <;>
  rcases atoi_tri md hm with ⟨hmd, w, hw, e3, e4⟩ | ⟨d, ds, hmd, w, hw, e3, e4⟩ | ⟨d, ds, hmd, w, hw, e3, e4⟩
  all_goals simp only [e1, e2, e3, e4]
  all_goals subst hhd hmd
  all_goals simp [ok_bind, isNil, GNil.isNil, Go.ge, m1, mm1, hv, hw, -ite_self]
  all_goals first
    | rfl
    | (by_cases hz : v = 0 ∧ w = 0 <;> by_cases h60 : (60 : Int) ≤ w <;>
        simp [hz, h60, ok_bind, fin_dur, -ite_self] <;> rfl)

end KlogV.GoL.C
