/-
Helper lemmas for C04, part 18: a new record, generically: the records of the new text are the old
ones with the new record at the abstract insert position.
-/
import KlogV.Lemmas.Refine14
import KlogV.Lemmas.Refine17
namespace KlogV.RefineLemmas
open KlogV.EditLemmas

/-- the three ways a new record is written -/
def NewRecordLines (d : Date) (rs : List Record) (bos : List BlockOut) (st : Style) (REC N : List Line) : Prop :=
  (rs = [] ∧ N = ins st (bos.map (·.lines)).flatten 0 REC) ∨
  (rs ≠ [] ∧ newRecordPosition d 0 rs = none ∧ N = ins st (bos.map (·.lines)).flatten 0 (REC ++ [blankLine st])) ∨
  (∃ i, rs ≠ [] ∧ newRecordPosition d 0 rs = some i ∧
    N = ins st (bos.map (·.lines)).flatten
      (match bos[i]? with | some bo => indexOfLastSignificantLine bo.first bo.lines | none => 0) (blankLine st :: REC))

theorem new_record_generic (file : Bytes) (hcr : file.getLast? ≠ some 13) (rs : List Record) (bos : List BlockOut)
    (hp : parseDoc file = .records rs bos) (d : Date) (st : Style) (G : GoodStyle st)
    (REC : List Line) (hclean : ∀ l ∈ REC, Clean l) (hsig : AllSig REC) (hne : REC ≠ [])
    (N : List Line) (hN : NewRecordLines d rs bos st REC N)
    (rs' : List Record) (bos' : List BlockOut) (hp' : parseDoc (joinLines N) = .records rs' bos') :
    ∃ rec, parseRecord 0 (REC.map (fun l => decodeGo l.text)) = .record rec ∧
      Spec.InsertedAt rs (Spec.insertPos rs d) rec rs' ∧ (joinLines N).getLast? ≠ some 13 := by
  obtain ⟨p1, p2, p3, p4⟩ := parseDoc_records file rs bos hp
  obtain ⟨q1, q2, _, _⟩ := parseDoc_records _ rs' bos' hp'
  unfold NewRecordLines at hN
  rw [p3] at hN
  rcases hN with ⟨hrs, rfl⟩ | ⟨hrs, hpos, rfl⟩ | ⟨i, hrs, hpos, rfl⟩
  · -- empty file
    subst hrs
    have hb : blocksOf file = [] := List.length_eq_zero_iff.mp (by simpa using p4.symm)
    rw [hb] at q2 ⊢
    simp only [List.flatten_nil] at q2 ⊢
    obtain ⟨n1, n2, n3⟩ := new_record_empty file st REC hclean hsig hne
    rw [n1] at q2
    obtain ⟨rec, k1, k2⟩ := map_getElem parseBlock ParseOut.record [REC] rs' 0 REC q2 rfl
    have : rs' = [rec] := by
      apply map_record_inj
      rw [← q2]
      simp [k2]
    refine ⟨rec, by rw [← n3]; exact k2, ?_, n2⟩
    rw [this]
    exact ⟨by simp [Spec.insertPos], by simp [Spec.insertPos]⟩
  · -- in front of the first record
    obtain ⟨r0, tl, rfl⟩ := List.exists_cons_of_ne_nil hrs
    cases hbs : blocksOf file with
    | nil => rw [hbs] at p4; simp at p4
    | cons b0 B =>
      rw [hbs] at p2
      simp only [List.map_cons, List.cons.injEq] at p2
      obtain ⟨bn, b0', m1, m2, m3, m4⟩ := new_record_front file hcr b0 B hbs st G REC hclean hsig hne
      rw [m1] at q2
      obtain ⟨rec, k1, k2⟩ := map_getElem parseBlock ParseOut.record _ rs' 0 bn q2 rfl
      have hrs' : rs' = rec :: r0 :: tl := by
        apply map_record_inj
        rw [← q2]
        simp [k2, m4 r0 p2.1, p2.2]
      have hip : Spec.insertPos (r0 :: tl) d = 0 := by
        rcases newRecordPosition_spec d (r0 :: tl) hrs with ⟨_, h0⟩ | ⟨i, hi, _⟩
        · exact h0
        · rw [hpos] at hi; cases hi
      refine ⟨rec, by rw [← m3]; exact k2, ?_, by rw [← hbs]; exact m2⟩
      rw [hip, hrs']
      exact ⟨by simp, by simp⟩
  · -- behind record `i`
    obtain ⟨hip, hilt⟩ : Spec.insertPos rs d = i + 1 ∧ i < rs.length := by
      rcases newRecordPosition_spec d rs hrs with ⟨h0, _⟩ | ⟨j, hj, h1, h2⟩
      · rw [hpos] at h0; cases h0
      · rw [hpos] at hj; cases hj; exact ⟨h1, h2⟩
    have hbl : bos.length = (blocksOf file).length := by rw [← p3]; simp
    have hib : i < bos.length := by omega
    obtain ⟨bo, hbo⟩ : ∃ bo, bos[i]? = some bo := ⟨bos[i], List.getElem?_eq_getElem hib⟩
    rw [hbo] at q2 ⊢
    dsimp only at q2 ⊢
    have hbo' := hbo
    rw [p1] at hbo'
    obtain ⟨c1, c2⟩ := blockOuts_getElem? _ _ _ hbo'
    obtain ⟨hsplit, hlen⟩ := list_split_at _ _ _ c1
    generalize hB1 : (blocksOf file).take i = B1 at hsplit hlen c2
    generalize hB2 : (blocksOf file).drop (i + 1) = B2 at hsplit
    obtain ⟨b1', bn, m1, m2, m3, m4⟩ := new_record_after file hcr B1 bo.lines B2 hsplit st G REC hclean hsig hne
    rw [c2]
    rw [c2, m1] at q2
    have hk : (B1 ++ b1' :: bn :: B2)[i + 1]? = some bn := by
      rw [List.getElem?_append_right (by omega)]
      simp [hlen]
    obtain ⟨rec, k1, k2⟩ := map_getElem parseBlock ParseOut.record _ rs' (i + 1) bn q2 hk
    rw [hsplit] at p2
    have key := records_insert parseBlock ParseOut.record B1 bo.lines B2 rs p2 b1' bn rec m4 k2
    have hrs' : rs' = rs.take (i + 1) ++ [rec] ++ rs.drop (i + 1) := by
      apply map_record_inj
      rw [← q2, key, hlen]
    refine ⟨rec, by rw [← m3]; exact k2, ?_, m2⟩
    rw [hip]
    exact ⟨by omega, hrs'⟩

end KlogV.RefineLemmas
