/- Helper lemmas for KlogV/Lemmas/GoFmt.lean: the word loop of the translated `Reflow` is `reflowWordsB`. Core Lean only. -/
import KlogV.Lemmas.GoFmt1
namespace KlogV.GoL.Fm
open KlogV.Go

def enumFromI {α} : Nat → List α → List (Int × α)
  | _, [] => []
  | k, x :: xs => ((k : Int), x) :: enumFromI (k + 1) xs

theorem enum_range' {α} (xs : List α) : ∀ k, ((List.range' k xs.length).zip xs).map (fun (p : Nat × α) => ((p.1 : Int), p.2)) = enumFromI k xs := by
  induction xs with
  | nil => intro k; rfl
  | cons x xs ih =>
    intro k
    simp only [List.length_cons, List.range'_succ, List.zip_cons_cons, List.map_cons, enumFromI]
    rw [ih]

theorem enumSlice_eq {α} (xs : List α) : enumSlice xs = enumFromI 0 xs := by
  unfold enumSlice
  rw [List.range_eq_range']
  exact enum_range' xs 0

abbrev B : Nat := 9223372036854775807

theorem sub_one (n : Nat) (h0 : 0 < n) (h : n ≤ B) : sub ((n : Nat) : Int) 1 = ((n - 1 : Nat) : Int) := by
  unfold sub
  rw [wrap_id (by unfold inInt64; unfold B at h; omega)]
  omega

theorem add_int (a b : Int) : add a b = wrap (a + b) := rfl

theorem add_nat (a b : Nat) (h : a + b ≤ B) : add ((a : Nat) : Int) ((b : Nat) : Int) = ((a + b : Nat) : Int) := by
  rw [add_int, wrap_id (by unfold inInt64; unfold B at h; omega)]
  omega

theorem add_bstr (a b : BStr) : add a b = a ++ b := rfl

theorem idx_some {α} (xs : List α) (n : Nat) (a : α) (h : xs[n]? = some a) :
    idx xs ((n : Nat) : Int) = pure a := by
  unfold idx
  have : ¬ ((n : Int) < 0) := by omega
  rw [if_neg this, Int.toNat_natCast, h]

theorem idx_last {α} (ls : List α) (v : α) : idx (ls ++ [v]) ((ls.length : Nat) : Int) = pure v := by
  apply idx_some; simp

theorem setIdx_last {α} (ls : List α) (v v' : α) :
    setIdx (ls ++ [v]) ((ls.length : Nat) : Int) v' = pure (ls ++ [v']) := by
  unfold setIdx
  have : ¬ (((ls.length : Nat) : Int) < 0 ∨ ((ls.length : Nat) : Int) ≥ ((ls ++ [v]).length : Nat)) := by
    simp only [List.length_append, List.length_singleton]; omega
  rw [if_neg this, Int.toNat_natCast]
  simp

theorem sub_len_last {α} (ls : List α) (v : α) (h : ls.length + 1 ≤ B) :
    sub (len (ls ++ [v])) 1 = ((ls.length : Nat) : Int) := by
  unfold len
  rw [sub_one _ (by simp) (by simpa using h)]
  simp

def sizeW : List BStr → Nat
  | [] => 0
  | w :: r => w.length + 1 + sizeW r

def stepB (_m : Nat) (ps : List BStr) (w : BStr) (brk : Bool) (ls : List BStr) (cur pfx : BStr) : List BStr × BStr :=
  if (if brk then [] else cur).isEmpty then
    ((if brk then ls ++ [cur] else ls) ++ [(ps[(if brk then ls ++ [cur] else ls).length]?).getD pfx ++ w],
      (ps[(if brk then ls ++ [cur] else ls).length]?).getD pfx)
  else ((if brk then ls ++ [cur] else ls) ++ [(if brk then [] else cur) ++ [32] ++ w], pfx)

abbrev St := List BStr × BStr
abbrev Body := Int × BStr → St → G (ForInStep St)

def BodyOK (F : Body) (m : Nat) (ps words : List BStr) : Prop :=
  ∀ (k : Nat) (w : BStr) (rest ls : List BStr) (cur pfx : BStr), words.drop k = w :: rest →
    ls.length + 2 ≤ B → cur.length + sizeW (w :: rest) ≤ B →
    F ((k : Int), w) (ls ++ [cur], pfx) = .ok (.yield (stepB m ps w (brkB m cur rest) ls cur pfx))

theorem loop_eq (F : Body) (m : Nat) (ps words : List BStr) (P : Nat) (hF : BodyOK F m ps words)
    (hps : ∀ p ∈ ps, p.length ≤ P) :
    ∀ (suf : List BStr) (k : Nat) (ls : List BStr) (cur pfx : BStr), words.drop k = suf →
      ls.length + suf.length + 2 ≤ B → cur.length + sizeW suf ≤ B → pfx.length ≤ P → P + sizeW suf ≤ B →
      ∃ p', forIn (enumFromI k suf) ((ls ++ [cur], pfx) : St) F = .ok (reflowWordsB m ps suf ls cur pfx, p') := by
  intro suf
  induction suf with
  | nil => intro k ls cur pfx _ _ _ _ _; exact ⟨pfx, rfl⟩
  | cons w rest ih =>
    intro k ls cur pfx hd h1 h2 h3 h4
    have hd' : words.drop (k + 1) = rest := by
      rw [← List.drop_drop, hd]; rfl
    simp only [List.length_cons, sizeW] at h1 h2 h4
    rw [enumFromI, List.forIn_cons, hF k w rest ls cur pfx hd (by omega) (by simpa [sizeW] using h2),
      reflowWordsB_cons]
    simp only [stepB, bind, Except.bind]
    generalize brkB m cur rest = brk
    have hg : ∀ n : Nat, (ps[n]?.getD pfx).length ≤ P := by
      intro n
      cases e : ps[n]? with
      | none => exact h3
      | some a => exact hps a (List.mem_of_getElem? e)
    cases brk with
    | true =>
      simp only [if_true, List.isEmpty_nil]
      exact ih (k + 1) _ _ _ hd' (by simp only [List.length_append, List.length_singleton]; omega)
        (by have := hg (ls ++ [cur]).length; simp only [List.length_append] at this ⊢; omega) (hg _) (by omega)
    | false =>
      simp only [Bool.false_eq_true, if_false]
      cases hc : cur.isEmpty with
      | true =>
        simp only [if_true]
        exact ih (k + 1) _ _ _ hd' (by omega)
          (by have := hg ls.length; simp only [List.length_append] at this ⊢; omega) (hg _) (by omega)
      | false =>
        simp only [Bool.false_eq_true, if_false]
        exact ih (k + 1) _ _ _ hd' (by omega)
          (by simp only [List.length_append, List.length_singleton]; omega) h3 (by omega)

end KlogV.GoL.Fm
