import KlogV.Model.Warnings
import KlogV.Lemmas.Calendar
import KlogV.Lemmas.Query
import KlogV.Lemmas.Warnings4
namespace KlogV

theorem checkWarnings_no_panic (now : Instant) (dis : Disabled) (rs : List Record)
    (hnv : now.date.valid = true)
    (hnow : (now.date.plusDays (-2)).isSome = true ∧ (now.date.plusDays 2).isSome = true)
    (hv : ∀ r ∈ rs, r.date.valid = true)
    (ht : ∀ r ∈ rs, sumRes (r.entries.map Entry.minutes) ≠ .panic) :
    ∃ ws, checkWarnings now dis rs = .ok ws := by
  have hlo : 2 ≤ dayNumber now.date := by
    have h1 := plusDays_none_iff now.date (-2) hnv
    cases hp : now.date.plusDays (-2) with
    | none => rw [hp] at hnow; simp at hnow
    | some d => have := dayNumber_range _ hnv; rw [hp] at h1; simp at h1; omega
  have hhi : dayNumber now.date ≤ 3652422 := by
    have h1 := plusDays_none_iff now.date 2 hnv
    cases hp : now.date.plusDays 2 with
    | none => rw [hp] at hnow; simp at hnow
    | some d => have := dayNumber_range _ hnv; rw [hp] at h1; simp at h1; omega
  obtain ⟨⟨o, s⟩, hp⟩ := wfold_ok now dis hnv hlo hhi (sortRecords false rs)
    (fun r hr => hv r ((mem_sortRecords _ _ _).mp hr)) (fun r hr => ht r ((mem_sortRecords _ _ _).mp hr)) [] false
  rw [checkWarnings_eq, hp]
  exact ⟨o, rfl⟩

theorem checkWarnings_dates (now : Instant) (dis : Disabled) (rs : List Record) (ws : List (Date × WarnKind))
    (h : checkWarnings now dis rs = .ok ws) : ∀ w ∈ ws, ∃ r ∈ rs, w.1 = r.date := by
  intro w hw
  obtain ⟨r, hr, _, w1, _, w2, w4, _, _, _, hm⟩ := checkWarnings_prov now dis rs ws h w hw
  refine ⟨r, hr, ?_⟩
  rw [mem_wOut] at hm
  rcases hm with hm | ⟨_, rfl⟩ | ⟨_, rfl⟩ | ⟨_, rfl⟩ | ⟨_, rfl⟩
  · cases hm
  all_goals rfl

theorem checkWarnings_disabled (now : Instant) (dis : Disabled) (rs : List Record) (ws : List (Date × WarnKind))
    (h : checkWarnings now dis rs = .ok ws) :
    (dis.unclosed = true → ∀ w ∈ ws, w.2 ≠ .unclosedOpenRange) ∧
    (dis.future = true → ∀ w ∈ ws, w.2 ≠ .futureEntries) ∧
    (dis.overlapping = true → ∀ w ∈ ws, w.2 ≠ .overlappingRanges) ∧
    (dis.moreThan24h = true → ∀ w ∈ ws, w.2 ≠ .moreThan24h) := by
  refine ⟨?_, ?_, ?_, ?_⟩
  all_goals
    intro hd w hw
    obtain ⟨r, hr, s0, w1, s1, w2, w4, hU, hF, hM, hm⟩ := checkWarnings_prov now dis rs ws h w hw
    rw [mem_wOut] at hm
    simp only [wU, wF, wM, wO, hd, if_true, Res.ok.injEq, Prod.mk.injEq] at hU hF hM hm
    rcases hm with hm | ⟨e, rfl⟩ | ⟨e, rfl⟩ | ⟨e, rfl⟩ | ⟨e, rfl⟩
    · cases hm
    all_goals first
      | (intro hc; cases hc; done)
      | (exfalso; first
          | (rw [← hU.1] at e; cases e)
          | (rw [← hF] at e; cases e)
          | (rw [← hM] at e; cases e)
          | cases e)

theorem checkWarnings_moreThan24h (now : Instant) (dis : Disabled) (rs : List Record) (ws : List (Date × WarnKind))
    (h : checkWarnings now dis rs = .ok ws) (hd : dis.moreThan24h = false) (d : Date) :
    (d, WarnKind.moreThan24h) ∈ ws ↔ ∃ r ∈ rs, r.date = d ∧ r.total > 1440 := by
  obtain ⟨s', hf⟩ := checkWarnings_ok_inv now dis rs ws h
  rw [wfold_m24 now dis hd d _ _ _ _ _ hf]
  simp only [List.not_mem_nil, false_or, mem_sortRecords]

/-- general form: it suffices that yesterday is not on or after today in the order of
`Date.afterOrEqual` (which fails only for an invalid `now.date`, e.g. 0000-01-00 ↦ 0000-12-31) -/
theorem checkWarnings_unclosed_of_lt (now : Instant) (dis : Disabled) (rs : List Record) (ws : List (Date × WarnKind))
    (h : checkWarnings now dis rs = .ok ws) (hd : dis.unclosed = false)
    (y : Date) (hy : now.date.plusDays (-1) = some y) (hlt : y.afterOrEqual now.date = false) (d : Date) :
    (d, WarnKind.unclosedOpenRange) ∈ ws ↔
      ∃ r ∈ rs, r.date = d ∧ r.hasOpen = true ∧ r.date.sameDay now.date = false ∧
        (r.date.sameDay y = true → ∃ r' ∈ rs, r'.date.sameDay now.date = true) := by
  obtain ⟨s', hf⟩ := checkWarnings_ok_inv now dis rs ws h
  rw [wfold_unclosed now dis hd y hy hlt d _ _ _ _ _ (sortRecords_sorted_desc rs) hf]
  simp only [List.not_mem_nil, false_or, mem_sortRecords, Bool.false_eq_true]

/-- CHANGED SIGNATURE (extra hypothesis `hnv`): the original statement is false for an invalid
`now.date` such as 0000-01-00, whose "yesterday" `prevDay` is 0000-12-31, i.e. later in the year. -/
theorem checkWarnings_unclosed (now : Instant) (dis : Disabled) (rs : List Record) (ws : List (Date × WarnKind))
    (h : checkWarnings now dis rs = .ok ws) (hd : dis.unclosed = false) (hnv : now.date.valid = true)
    (y : Date) (hy : now.date.plusDays (-1) = some y) (d : Date) :
    (d, WarnKind.unclosedOpenRange) ∈ ws ↔
      ∃ r ∈ rs, r.date = d ∧ r.hasOpen = true ∧ r.date.sameDay now.date = false ∧
        (r.date.sameDay y = true → ∃ r' ∈ rs, r'.date.sameDay now.date = true) :=
  checkWarnings_unclosed_of_lt now dis rs ws h hd y hy (prev_lt now.date y hnv hy) d

end KlogV
