/- Helper lemmas for KlogV/Lemmas/GoTxt.lean: the loop of ParseBlock over the runes computes the first run of lines. Core Lean only. -/
import KlogV.Lemmas.GoTxt6
set_option linter.unusedSimpArgs false
namespace KlogV.GoL.T
open KlogV.Go

theorem lastW_fuel (f1 : Nat) : ∀ (f2 : Nat) (bs : Bytes), bs.length ≤ f1 → bs.length ≤ f2 → lastW f1 bs = lastW f2 bs := by
  induction f1 with
  | zero =>
    intro f2 bs h1 _
    have : bs = [] := List.eq_nil_of_length_eq_zero (by omega)
    subst this
    cases f2 <;> rfl
  | succ f1 ih =>
    intro f2 bs h1 h2
    cases bs with
    | nil => cases f2 <;> rfl
    | cons b rest =>
      cases f2 with
      | zero => simp at h2
      | succ f2 =>
        unfold lastW
        have hw := W_le b rest
        split
        · rfl
        · apply ih
          · simp only [List.length_drop]; simp only [List.length_cons] at h1 hw ⊢; omega
          · simp only [List.length_drop]; simp only [List.length_cons] at h2 hw ⊢; omega

theorem lastW_step (b : UInt8) (rest : Bytes) (h : (b :: rest).drop (W (b :: rest)) ≠ []) :
    lastW (b :: rest).length (b :: rest) =
      lastW ((b :: rest).drop (W (b :: rest))).length ((b :: rest).drop (W (b :: rest))) := by
  have hw := W_le b rest
  show lastW (rest.length + 1) (b :: rest) = _
  conv => lhs; unfold lastW
  rw [if_neg h]
  apply lastW_fuel
  · simp only [List.length_drop, List.length_cons] at hw ⊢; omega
  · exact Nat.le_refl _

theorem lastW_last (b : UInt8) (rest : Bytes) (h : (b :: rest).drop (W (b :: rest)) = []) :
    lastW (b :: rest).length (b :: rest) = W (b :: rest) := by
  show lastW (rest.length + 1) (b :: rest) = _
  unfold lastW
  rw [if_pos h]

theorem splitRaw_noLF (x : Bytes) (hne : x ≠ []) (h : LF ∉ x) : splitRaw x = [x] := by
  induction x with
  | nil => exact absurd rfl hne
  | cons a x ih =>
    have ha : a ≠ LF := fun e => h (by simp [e])
    have hx : LF ∉ x := fun e => h (by simp [e])
    unfold splitRaw
    rw [if_neg ha]
    cases x with
    | nil => rfl
    | cons c x => rw [ih (by simp) hx]

theorem splitRaw_LF (x rest : Bytes) (h : LF ∉ x) : splitRaw (x ++ LF :: rest) = (x ++ [LF]) :: splitRaw rest := by
  induction x with
  | nil => simp [splitRaw]
  | cons a x ih =>
    have ha : a ≠ LF := fun e => h (by simp [e])
    have hx : LF ∉ x := fun e => h (by simp [e])
    simp only [List.cons_append]
    conv => lhs; unfold splitRaw
    rw [if_neg ha, ih hx]

theorem firstRun_cons (m : Mode) (acc : List Line) (l : Line) (ls : List Line) :
    firstRun m acc (l :: ls) =
      if m = .post ∧ l.isBlank = false then (.post, acc) else firstRun (stepMode' m l.isBlank) (acc ++ [l]) ls := by
  cases m <;> cases hb : l.isBlank <;> simp [firstRun, stepMode', hb]

def finalState (r : Mode × List Line) : PbState :=
  (r.2.map Line.toGo, (countBytes r.2 : Int), (countBytes r.2 : Int), modeInt r.1)

theorem rangeStrAux_cons (fuel off : Nat) (b : UInt8) (rest : Bytes) :
    rangeStrAux (fuel + 1) off (b :: rest) =
      ((off : Int), ((decodeRune (b :: rest)).1.toNat : Int)) ::
        rangeStrAux fuel (off + W (b :: rest)) ((b :: rest).drop (W (b :: rest))) := rfl

theorem pb_loop (fuel : Nat) : ∀ (t : Bytes) (lrs : Int) (off : Nat) (acc : List Line) (seg bs : Bytes) (m : Mode),
    bs.length ≤ fuel →
    t = joinLines acc ++ (seg ++ bs) →
    off = countBytes acc + seg.length →
    (bs ≠ [] → lrs = (lastW bs.length bs : Int)) →
    (bs = [] → seg = []) →
    LF ∉ seg →
    (t.length : Int) < 9223372036854775808 →
    forIn (rangeStrAux fuel off bs) (acc.map Line.toGo, (countBytes acc : Int), (countBytes acc : Int), modeInt m)
        (pbBody t lrs) =
      .ok (finalState (firstRun m acc ((splitRaw (seg ++ bs)).map Line.ofRaw))) := by
  induction fuel with
  | zero =>
    intro t lrs off acc seg bs m hf ht hoff hlrs hseg hLF hlen
    have : bs = [] := List.eq_nil_of_length_eq_zero (by omega)
    subst this
    rw [hseg rfl]
    rfl
  | succ fuel ih =>
    intro t lrs off acc seg bs m hf ht hoff hlrs hseg hLF hlen
    cases bs with
    | nil => rw [hseg rfl]; rfl
    | cons b rest =>
      have hw := W_le b rest
      have hlrs' := hlrs (by simp)
      have hcA : countBytes acc = (joinLines acc).length := rfl
      have htl : t.length = countBytes acc + seg.length + (b :: rest).length := by
        rw [ht, hcA]; simp only [List.length_append]; omega
      have hlw := lastW_le (b :: rest).length (b :: rest)
      rw [rangeStrAux_cons, List.forIn_cons]
      have hcode : ((decodeRune (b :: rest)).1.toNat : Int) = 10 ↔ b.toNat = 10 :=
        decodeRune_code_iff b rest 10 (by omega) (by omega)
      have hsplit : (b :: rest).take (W (b :: rest)) ++ (b :: rest).drop (W (b :: rest)) = b :: rest :=
        List.take_append_drop _ _
      by_cases hcond : (((decodeRune (b :: rest)).1.toNat : Int) ≠ 10 ∧ add (off : Int) lrs ≠ len t)
      · -- the rune is skipped
        obtain ⟨hc, hl⟩ := hcond
        rw [pbBody_skip t lrs _ _ _ hc hl]
        simp only [bind, Except.bind]
        have hbLF : b ≠ LF := by
          intro e; apply hc; rw [hcode, e]; rfl
        have hdrop : (b :: rest).drop (W (b :: rest)) ≠ [] := by
          intro hd
          apply hl
          have h1 := lastW_last b rest hd
          have h2 : W (b :: rest) = (b :: rest).length := by
            have := congrArg List.length hd
            simp only [List.length_drop, List.length_nil] at this
            omega
          rw [hlrs', h1, h2, addI_eq _ _ (by unfold inInt64; omega)]
          unfold len; omega
        have := ih t lrs (off + W (b :: rest)) acc (seg ++ (b :: rest).take (W (b :: rest)))
          ((b :: rest).drop (W (b :: rest))) m
          (by simp only [List.length_drop]; omega)
          (by rw [List.append_assoc, hsplit]; exact ht)
          (by rw [List.length_append, List.length_take]; omega)
          (fun _ => by rw [hlrs', lastW_step b rest hdrop])
          (fun h => absurd h hdrop)
          (by
            intro hm
            rcases List.mem_append.mp hm with h | h
            · exact hLF h
            · exact LF_not_mem_take b rest hbLF h)
          hlen
        rw [this, List.append_assoc, hsplit]
      · -- the rune ends a line
        have hraw : splitRaw (seg ++ (b :: rest)) =
            (seg ++ (b :: rest).take (W (b :: rest))) :: splitRaw ((b :: rest).drop (W (b :: rest))) := by
          by_cases hc : ((decodeRune (b :: rest)).1.toNat : Int) = 10
          · have hb : b = LF := by
              have := hcode.mp hc
              apply UInt8.toNat_inj.mp
              rw [this]; rfl
            have hw1 : W (b :: rest) = 1 := by
              rw [W_cons]; exact decodeRune_width_ascii b rest (by rw [hb]; decide)
            rw [hw1, hb]
            exact splitRaw_LF seg rest hLF
          · have hl : add (off : Int) lrs = len t := by
              apply Classical.byContradiction
              intro hl; exact hcond ⟨hc, hl⟩
            have hbLF : b ≠ LF := by
              intro e; apply hc; rw [hcode, e]; rfl
            have hd : (b :: rest).drop (W (b :: rest)) = [] := by
              apply Classical.byContradiction
              intro hd
              have h1 := lastW_step b rest hd
              have h2 := lastW_le ((b :: rest).drop (W (b :: rest))).length ((b :: rest).drop (W (b :: rest)))
              simp only [List.length_drop] at h2
              rw [hlrs', h1, addI_eq _ _ (by unfold inInt64; simp only [List.length_drop]; omega)] at hl
              unfold len at hl
              simp only [List.length_drop] at hl
              omega
            have ht' : (b :: rest).take (W (b :: rest)) = b :: rest := by
              have := hsplit; rw [hd, List.append_nil] at this; exact this
            rw [hd, ht']
            have : LF ∉ seg ++ (b :: rest) := by
              intro hm
              rcases List.mem_append.mp hm with h | h
              · exact hLF h
              · rw [← ht'] at h; exact LF_not_mem_take b rest hbLF h
            rw [splitRaw_noLF _ (by simp) this]
            rfl
        have hcond' : ¬ (((decodeRune (b :: rest)).1.toNat : Int) ≠ 10 ∧
            add ((countBytes acc + seg.length : Nat) : Int) lrs ≠ len (joinLines acc ++ (seg ++ (b :: rest)))) := by
          rw [← ht, ← hoff]; exact hcond
        have hstep := pbBody_line acc seg (b :: rest) lrs _ m b rest rfl (by rw [← ht]; exact hlen) hcond'
        rw [← ht, ← hoff] at hstep
        rw [hstep, hraw, List.map_cons, firstRun_cons]
        unfold lineStep
        simp only
        by_cases hdone : m = .post ∧ (Line.ofRaw (seg ++ (b :: rest).take (W (b :: rest)))).isBlank = false
        · rw [if_pos hdone, if_pos hdone]
          simp only [bind, Except.bind, pure, Except.pure]
          rw [hdone.1]; rfl
        · rw [if_neg hdone, if_neg hdone]
          simp only [bind, Except.bind]
          have hrawlen : (seg ++ (b :: rest).take (W (b :: rest))).length = seg.length + W (b :: rest) := by
            rw [List.length_append, List.length_take]; omega
          have hjl : joinLines (acc ++ [Line.ofRaw (seg ++ (b :: rest).take (W (b :: rest)))]) =
              joinLines acc ++ (seg ++ (b :: rest).take (W (b :: rest))) := by
            rw [joinLines_append]; simp [joinLines, Line.ofRaw_original]
          have := ih t lrs (off + W (b :: rest)) (acc ++ [Line.ofRaw (seg ++ (b :: rest).take (W (b :: rest)))]) []
            ((b :: rest).drop (W (b :: rest))) (stepMode' m (Line.ofRaw (seg ++ (b :: rest).take (W (b :: rest)))).isBlank)
            (by simp only [List.length_drop]; omega)
            (by rw [hjl, List.nil_append, List.append_assoc, List.append_assoc, hsplit]; exact ht)
            (by rw [countBytes_snoc, hrawlen, List.length_nil]; omega)
            (fun hne => by rw [hlrs', lastW_step b rest hne])
            (fun _ => rfl)
            (by simp)
            hlen
          rw [List.nil_append] at this
          exact this

end KlogV.GoL.T
