/-
Lemmas about sorting, grouping and the report rows (KlogV/Model/Query.lean `sortRecords`,
KlogV/Model/Report.lean), used by KlogV/Props/C12.lean and KlogV/Props/C13.lean.
-/
import KlogV.Model.Report
import KlogV.Lemmas.Calendar
import KlogV.Lemmas.Eval
namespace KlogV

/-! ## `afterOrEqual` is a total preorder on (y, m, d) -/

theorem afterOrEqual_iff_lex (a b : Date) :
    a.afterOrEqual b = true ↔ (b.y < a.y ∨ (b.y = a.y ∧ (b.m < a.m ∨ (b.m = a.m ∧ b.d ≤ a.d)))) := by
  unfold Date.afterOrEqual
  by_cases hy : a.y = b.y
  · by_cases hm : a.m = b.m
    · simp [hy, hm]
    · simp [hy, hm]; omega
  · simp [hy]; omega

theorem afterOrEqual_refl (a : Date) : a.afterOrEqual a = true := by
  rw [afterOrEqual_iff_lex]; omega

theorem afterOrEqual_total (a b : Date) : a.afterOrEqual b = true ∨ b.afterOrEqual a = true := by
  rw [afterOrEqual_iff_lex, afterOrEqual_iff_lex]; omega

theorem afterOrEqual_trans (a b c : Date) (h1 : a.afterOrEqual b = true) (h2 : b.afterOrEqual c = true) :
    a.afterOrEqual c = true := by
  rw [afterOrEqual_iff_lex] at *; omega

theorem afterOrEqual_iff_dayNumber (a b : Date) (ha : a.valid = true) (hb : b.valid = true) :
    a.afterOrEqual b = true ↔ dayNumber b ≤ dayNumber a := by
  constructor
  · intro h
    rw [afterOrEqual_iff_lex] at h
    by_cases he : b.y = a.y ∧ b.m = a.m ∧ b.d = a.d
    · have : b.sameDay a = true := by rw [sameDay_iff]; exact he
      have := dayNumber_of_sameDay b a this
      omega
    · have := dayNumber_lt_of_lt b a hb ha (by omega)
      omega
  · intro h
    rcases afterOrEqual_total a b with h' | h'
    · exact h'
    · rw [afterOrEqual_iff_lex] at h'
      by_cases he : b.y = a.y ∧ b.m = a.m ∧ b.d = a.d
      · rw [afterOrEqual_iff_lex]; omega
      · have := dayNumber_lt_of_lt a b ha hb (by omega)
        omega

/-! ## Sorting -/

theorem insertSorted_perm {α} (less : α → α → Bool) (x : α) (l : List α) :
    (insertSorted less x l).Perm (x :: l) := by
  induction l with
  | nil => simp [insertSorted]
  | cons y ys ih =>
    unfold insertSorted
    split
    · exact (List.Perm.cons y ih).trans (List.Perm.swap x y ys)
    · exact List.Perm.refl _

theorem foldl_insertSorted_perm {α} (less : α → α → Bool) (xs acc : List α) :
    (xs.foldl (fun accRev x => insertSorted less x accRev) acc).Perm (xs ++ acc) := by
  induction xs generalizing acc with
  | nil => simp
  | cons x xs ih =>
    rw [List.foldl_cons]
    refine (ih _).trans ?_
    refine (List.Perm.append_left xs (insertSorted_perm less x acc)).trans ?_
    simp

theorem insertionSort_perm {α} (less : α → α → Bool) (xs : List α) :
    (insertionSort less xs).Perm xs := by
  unfold insertionSort
  refine (List.reverse_perm _).trans ?_
  simpa using foldl_insertSorted_perm less xs []

theorem sortRecords_perm (asc : Bool) (rs : List Record) : (sortRecords asc rs).Perm rs := by
  unfold sortRecords
  exact insertionSort_perm _ rs

theorem insertSorted_pairwise {α} (less : α → α → Bool) (R : α → α → Prop)
    (htrans : ∀ a b c, R a b → R b c → R a c)
    (h1 : ∀ x y, less x y = true → R y x) (h2 : ∀ x y, less x y = false → R x y)
    (x : α) (l : List α) (hl : l.Pairwise R) : (insertSorted less x l).Pairwise R := by
  induction l with
  | nil => simp [insertSorted]
  | cons y ys ih =>
    rw [List.pairwise_cons] at hl
    unfold insertSorted
    cases hxy : less x y with
    | true =>
      simp only [if_true]
      rw [List.pairwise_cons]
      refine ⟨?_, ih hl.2⟩
      intro z hz
      have := (insertSorted_perm less x ys).mem_iff.mp hz
      rcases List.mem_cons.mp this with rfl | hz'
      · exact h1 _ _ hxy
      · exact hl.1 z hz'
    | false =>
      simp only [Bool.false_eq_true, if_false]
      rw [List.pairwise_cons]
      refine ⟨?_, List.pairwise_cons.mpr hl⟩
      intro z hz
      rcases List.mem_cons.mp hz with rfl | hz'
      · exact h2 _ _ hxy
      · exact htrans _ _ _ (h2 _ _ hxy) (hl.1 z hz')

theorem foldl_insertSorted_pairwise {α} (less : α → α → Bool) (R : α → α → Prop)
    (htrans : ∀ a b c, R a b → R b c → R a c)
    (h1 : ∀ x y, less x y = true → R y x) (h2 : ∀ x y, less x y = false → R x y)
    (xs acc : List α) (hl : acc.Pairwise R) :
    (xs.foldl (fun accRev x => insertSorted less x accRev) acc).Pairwise R := by
  induction xs generalizing acc with
  | nil => simpa using hl
  | cons x xs ih =>
    rw [List.foldl_cons]
    exact ih _ (insertSorted_pairwise less R htrans h1 h2 x acc hl)

theorem sortRecords_sorted (rs : List Record) :
    (sortRecords true rs).Pairwise (fun a b => b.date.afterOrEqual a.date = true) := by
  unfold sortRecords insertionSort
  rw [List.pairwise_reverse]
  apply foldl_insertSorted_pairwise _ (fun a b : Record => a.date.afterOrEqual b.date = true)
  · intro a b c; exact afterOrEqual_trans _ _ _
  · intro x y h; simpa using h
  · intro x y h
    rcases afterOrEqual_total x.date y.date with h' | h'
    · exact h'
    · simp [h'] at h
  · exact List.Pairwise.nil

theorem sortRecords_sorted_desc (rs : List Record) :
    (sortRecords false rs).Pairwise (fun a b => a.date.afterOrEqual b.date = true) := by
  unfold sortRecords insertionSort
  rw [List.pairwise_reverse]
  apply foldl_insertSorted_pairwise _ (fun a b : Record => b.date.afterOrEqual a.date = true)
  · intro a b c h1 h2; exact afterOrEqual_trans _ _ _ h2 h1
  · intro x y h
    rcases afterOrEqual_total x.date y.date with h' | h'
    · exact h'
    · simp [h'] at h
  · intro x y h; simpa using h
  · exact List.Pairwise.nil

/-! ## Sums are invariant under permutation -/

theorem int_sum_perm {l₁ l₂ : List Int} (h : l₁.Perm l₂) : l₁.sum = l₂.sum := by
  induction h with
  | nil => rfl
  | cons x _ ih => simp [ih]
  | swap x y l => simp only [List.sum_cons]; omega
  | trans _ _ ih1 ih2 => exact ih1.trans ih2

theorem totalMins_perm {a b : List Record} (h : a.Perm b) : totalMins a = totalMins b :=
  int_sum_perm (h.map _)

theorem shouldSum_perm {a b : List Record} (h : a.Perm b) : shouldSum a = shouldSum b :=
  int_sum_perm (h.map _)

theorem shouldSum_append (a b : List Record) : shouldSum (a ++ b) = shouldSum a + shouldSum b := by
  simp [shouldSum]

/-! ## Grouping -/

abbrev Group := Nat × Date × List Record

/-- one step of `groupByHash` -/
def gstep (k : PeriodKind) (acc : List Group) (r : Record) : List Group :=
  let h := hashOf k r.date
  if acc.any (·.1 == h) then acc.map (fun g => if g.1 == h then (g.1, g.2.1, g.2.2 ++ [r]) else g)
  else acc ++ [(h, r.date, [r])]

theorem groupByHash_eq (k : PeriodKind) (rs : List Record) :
    groupByHash k rs = rs.foldl (gstep k) [] := rfl

/-- the invariant of the grouping loop, `l` = the records processed so far -/
structure GInv (k : PeriodKind) (acc : List Group) (l : List Record) : Prop where
  perm : (acc.flatMap (·.2.2)).Perm l
  mem : ∀ g ∈ acc, g.2.2 ≠ [] ∧ ∀ r ∈ g.2.2, hashOf k r.date = g.1
  nodup : (acc.map (·.1)).Nodup
  first : ∀ g ∈ acc, hashOf k g.2.1 = g.1

theorem map_upd_id (h : Nat) (r : Record) (acc : List Group) (hn : ∀ g ∈ acc, g.1 ≠ h) :
    acc.map (fun g => if g.1 == h then (g.1, g.2.1, g.2.2 ++ [r]) else g) = acc := by
  induction acc with
  | nil => rfl
  | cons g gs ih =>
    have hg : (g.1 == h) = false := by simpa using hn g (by simp)
    simp only [List.map_cons, hg, Bool.false_eq_true, if_false]
    rw [ih (fun g' hg' => hn g' (List.mem_cons_of_mem _ hg'))]

theorem flatMap_upd_perm (h : Nat) (r : Record) (acc : List Group)
    (hnd : (acc.map (·.1)).Nodup) (hex : ∃ g ∈ acc, g.1 = h) :
    ((acc.map (fun g => if g.1 == h then (g.1, g.2.1, g.2.2 ++ [r]) else g)).flatMap (·.2.2)).Perm
      (acc.flatMap (·.2.2) ++ [r]) := by
  induction acc with
  | nil => obtain ⟨g, hg, _⟩ := hex; simp at hg
  | cons g gs ih =>
    rw [List.map_cons, List.nodup_cons] at hnd
    by_cases hg : g.1 = h
    · have hn : ∀ g' ∈ gs, g'.1 ≠ h := by
        intro g' hg' e
        exact hnd.1 (by rw [hg, ← e]; exact List.mem_map_of_mem hg')
      rw [List.map_cons, map_upd_id h r gs hn]
      simp only [hg, beq_self_eq_true, if_true, List.flatMap_cons]
      rw [List.append_assoc, List.append_assoc]
      exact List.Perm.append_left _ List.perm_append_comm
    · have hex' : ∃ g' ∈ gs, g'.1 = h := by
        obtain ⟨g', hg', e⟩ := hex
        rcases List.mem_cons.mp hg' with rfl | hg''
        · exact absurd e hg
        · exact ⟨g', hg'', e⟩
      have hgb : (g.1 == h) = false := by simpa using hg
      simp only [List.map_cons, hgb, Bool.false_eq_true, if_false, List.flatMap_cons]
      rw [List.append_assoc]
      exact List.Perm.append_left _ (ih hnd.2 hex')

theorem gstep_inv (k : PeriodKind) (acc : List Group) (l : List Record) (r : Record)
    (inv : GInv k acc l) : GInv k (gstep k acc r) (l ++ [r]) := by
  unfold gstep
  simp only
  by_cases hany : acc.any (·.1 == hashOf k r.date) = true
  · rw [if_pos hany]
    have hex : ∃ g ∈ acc, g.1 = hashOf k r.date := by simpa using hany
    refine ⟨?_, ?_, ?_, ?_⟩
    · exact (flatMap_upd_perm _ r acc inv.nodup hex).trans (List.Perm.append_right _ inv.perm)
    · intro g' hg'
      obtain ⟨g, hg, rfl⟩ := List.mem_map.mp hg'
      by_cases e : g.1 = hashOf k r.date
      · simp only [e, beq_self_eq_true, if_true]
        refine ⟨by simp, ?_⟩
        intro r' hr'
        rcases List.mem_append.mp hr' with h1 | h1
        · rw [(inv.mem g hg).2 r' h1, e]
        · simp at h1; rw [h1]
      · have eb : (g.1 == hashOf k r.date) = false := by simpa using e
        simp only [eb, Bool.false_eq_true, if_false]
        exact inv.mem g hg
    · have : (acc.map (fun g => if g.1 == hashOf k r.date then (g.1, g.2.1, g.2.2 ++ [r]) else g)).map (·.1)
          = acc.map (·.1) := by
        rw [List.map_map]
        apply List.map_congr_left
        intro g _
        simp only [Function.comp]
        split <;> rfl
      rw [this]; exact inv.nodup
    · intro g' hg'
      obtain ⟨g, hg, rfl⟩ := List.mem_map.mp hg'
      have := inv.first g hg
      split <;> exact this
  · rw [if_neg hany]
    have hno : ∀ g ∈ acc, g.1 ≠ hashOf k r.date := by
      intro g hg e
      exact hany (List.any_eq_true.mpr ⟨g, hg, by simpa using e⟩)
    refine ⟨?_, ?_, ?_, ?_⟩
    · simp only [List.flatMap_append, List.flatMap_cons, List.flatMap_nil, List.append_nil]
      exact List.Perm.append_right _ inv.perm
    · intro g hg
      rcases List.mem_append.mp hg with h1 | h1
      · exact inv.mem g h1
      · simp at h1; subst h1; simp
    · rw [List.map_append, List.nodup_append]
      refine ⟨inv.nodup, by simp, ?_⟩
      intro a ha b hb
      simp at hb; subst hb
      obtain ⟨g, hg, rfl⟩ := List.mem_map.mp ha
      exact hno g hg
    · intro g hg
      rcases List.mem_append.mp hg with h1 | h1
      · exact inv.first g h1
      · simp at h1; subst h1; rfl

theorem foldl_gstep_inv (k : PeriodKind) (rs : List Record) (acc : List Group) (l : List Record)
    (inv : GInv k acc l) : GInv k (rs.foldl (gstep k) acc) (l ++ rs) := by
  induction rs generalizing acc l with
  | nil => simpa using inv
  | cons r rs ih =>
    rw [List.foldl_cons]
    have := ih _ _ (gstep_inv k acc l r inv)
    simpa using this

theorem groupByHash_inv (k : PeriodKind) (rs : List Record) : GInv k (groupByHash k rs) rs := by
  have := foldl_gstep_inv k rs [] [] ⟨by simp, by simp, by simp, by simp⟩
  simpa [groupByHash_eq] using this

theorem groupByHash_partition (k : PeriodKind) (rs : List Record) :
    ((groupByHash k rs).flatMap (·.2.2)).Perm rs ∧
    (∀ g ∈ groupByHash k rs, g.2.2 ≠ [] ∧ ∀ r ∈ g.2.2, hashOf k r.date = g.1) ∧
    ((groupByHash k rs).map (·.1)).Nodup :=
  ⟨(groupByHash_inv k rs).perm, (groupByHash_inv k rs).mem, (groupByHash_inv k rs).nodup⟩

/-! ## Report rows -/

/-- one step of the row loop of `reportRows` -/
def rstep (k : PeriodKind) (groups : List Group) (acc : List Nat × List Row) (d : Date) : List Nat × List Row :=
  let h := hashOf k d
  if acc.1.contains h then acc else
  let row : Row := match groups.find? (fun g => g.1 == h) with
    | some g => ⟨d, some (totalMins g.2.2, shouldSum g.2.2)⟩
    | none => ⟨d, none⟩
  (h :: acc.1, acc.2 ++ [row])

theorem reportRows_nil (k : PeriodKind) (fill : Bool) (rs : List Record) (h : sortRecords true rs = []) :
    reportRows k fill rs = some [] := by
  unfold reportRows
  simp only [h]

theorem reportRows_cons (k : PeriodKind) (fill : Bool) (rs : List Record) (first : Record) (rest : List Record)
    (last : Record)
    (h : sortRecords true rs = first :: rest) (hl : (first :: rest).getLast? = some last) :
    reportRows k fill rs =
      (if fill then allDatesRange first.date last.date ((dayNumber last.date - dayNumber first.date).toNat + 1)
        else some ((groupByHash k (first :: rest)).map (·.2.1))).map
        (fun ds => (ds.foldl (rstep k (groupByHash k (first :: rest))) ([], [])).2) := by
  unfold reportRows
  simp only [h, hl]
  rfl
def mkRow (g : Group) : Row := ⟨g.2.1, some (totalMins g.2.2, shouldSum g.2.2)⟩

theorem find_unique (groups : List Group) (g : Group) (hg : g ∈ groups)
    (hnd : (groups.map (·.1)).Nodup) :
    groups.find? (fun g' => g'.1 == g.1) = some g := by
  induction groups with
  | nil => simp at hg
  | cons a as ih =>
    rw [List.map_cons, List.nodup_cons] at hnd
    rcases List.mem_cons.mp hg with rfl | hg'
    · simp
    · have : a.1 ≠ g.1 := by
        intro e; exact hnd.1 (by rw [e]; exact List.mem_map_of_mem hg')
      have hb : (a.1 == g.1) = false := by simpa using this
      rw [List.find?_cons, hb]
      exact ih hg' hnd.2

theorem foldl_rstep_groups (k : PeriodKind) (groups : List Group)
    (hnd : (groups.map (·.1)).Nodup) (hfirst : ∀ g ∈ groups, hashOf k g.2.1 = g.1)
    (pre suf : List Group) (hsplit : groups = pre ++ suf) (acc : List Nat × List Row)
    (hacc : ∀ h ∈ acc.1, h ∈ pre.map (·.1)) :
    ((suf.map (·.2.1)).foldl (rstep k groups) acc).2 = acc.2 ++ suf.map mkRow := by
  induction suf generalizing pre acc with
  | nil => simp
  | cons g suf ih =>
    have hg : g ∈ groups := by rw [hsplit]; simp
    have hnot : g.1 ∉ pre.map (·.1) := by
      rw [hsplit, List.map_append, List.nodup_append] at hnd
      intro hm
      exact hnd.2.2 _ hm _ (by simp) rfl
    have hc : acc.1.contains g.1 = false := by
      cases hcc : acc.1.contains g.1 with
      | false => rfl
      | true => exact absurd (hacc _ (by simpa using hcc)) hnot
    rw [List.map_cons, List.foldl_cons]
    have hstep : rstep k groups acc g.2.1 = (g.1 :: acc.1, acc.2 ++ [mkRow g]) := by
      unfold rstep
      simp only [hfirst g hg, hc, Bool.false_eq_true, if_false, find_unique groups g hg hnd]
      rfl
    rw [hstep, ih (pre ++ [g]) (by rw [hsplit]; simp)]
    · simp
    · intro h hh
      rcases List.mem_cons.mp hh with rfl | hh'
      · simp
      · have := hacc h hh'
        simp only [List.map_append, List.mem_append]
        exact Or.inl this

theorem reportRows_nofill (k : PeriodKind) (rs : List Record) :
    reportRows k false rs = some ((groupByHash k (sortRecords true rs)).map
      (fun g => ⟨g.2.1, some (totalMins g.2.2, shouldSum g.2.2)⟩)) := by
  cases hs : sortRecords true rs with
  | nil => rw [reportRows_nil k false rs hs]; rfl
  | cons first rest =>
    obtain ⟨last, hl⟩ : ∃ last, (first :: rest).getLast? = some last := by
      cases h : (first :: rest).getLast? with
      | none => simp at h
      | some l => exact ⟨l, rfl⟩
    rw [reportRows_cons k false rs first rest last hs hl]
    simp only [Bool.false_eq_true, if_false, Option.map_some]
    have inv := groupByHash_inv k (first :: rest)
    generalize groupByHash k (first :: rest) = G at *
    rw [foldl_rstep_groups k G inv.nodup inv.first [] G (List.nil_append G).symm ([], []) (by simp)]
    simp [mkRow]

theorem sum_totalMins_groups (G : List Group) :
    (G.map (fun g => totalMins g.2.2)).sum = totalMins (G.flatMap (·.2.2)) := by
  induction G with
  | nil => rfl
  | cons g gs ih => rw [List.map_cons, List.sum_cons, List.flatMap_cons, totalMins_append, ih]

theorem sum_shouldSum_groups (G : List Group) :
    (G.map (fun g => shouldSum g.2.2)).sum = shouldSum (G.flatMap (·.2.2)) := by
  induction G with
  | nil => rfl
  | cons g gs ih => rw [List.map_cons, List.sum_cons, List.flatMap_cons, shouldSum_append, ih]

theorem groups_total (k : PeriodKind) (rs : List Record) :
    ((groupByHash k (sortRecords true rs)).map (fun g => totalMins g.2.2)).sum = totalMins rs ∧
    ((groupByHash k (sortRecords true rs)).map (fun g => shouldSum g.2.2)).sum = shouldSum rs := by
  have inv := groupByHash_inv k (sortRecords true rs)
  have hp := inv.perm.trans (sortRecords_perm true rs)
  rw [sum_totalMins_groups, sum_shouldSum_groups]
  exact ⟨totalMins_perm hp, shouldSum_perm hp⟩

theorem reportRows_sum (k : PeriodKind) (rs : List Record) (rows : List Row)
    (h : reportRows k false rs = some rows) :
    ((rows.filterMap (·.total)).map (·.1)).sum = totalMins rs ∧
    ((rows.filterMap (·.total)).map (·.2)).sum = shouldSum rs := by
  rw [reportRows_nofill] at h
  injection h with h
  subst h
  have := groups_total k rs
  simp only [List.filterMap_map, List.map_filterMap]
  simpa [Function.comp] using this

/-! ### gap filling -/

def gval (g : Group) : Int × Int := (totalMins g.2.2, shouldSum g.2.2)

def sumSeen (φ : Int × Int → Int) (groups : List Group) (seen : List Nat) : Int :=
  ((groups.filter (fun g => seen.contains g.1)).map (fun g => φ (gval g))).sum

def sumRows (φ : Int × Int → Int) (rows : List Row) : Int := ((rows.filterMap (·.total)).map φ).sum

theorem sumSeen_cons (φ : Int × Int → Int) (groups : List Group) (hnd : (groups.map (·.1)).Nodup)
    (seen : List Nat) (h : Nat) (hh : h ∉ seen) :
    sumSeen φ groups (h :: seen) = sumSeen φ groups seen +
      (match groups.find? (fun g => g.1 == h) with | some g => φ (gval g) | none => 0) := by
  induction groups with
  | nil => simp [sumSeen]
  | cons a as ih =>
    rw [List.map_cons, List.nodup_cons] at hnd
    have ih' := ih hnd.2
    unfold sumSeen at *
    by_cases e : a.1 = h
    · have hs : seen.contains a.1 = false := by
        cases hc : seen.contains a.1 with
        | false => rfl
        | true => rw [e] at hc; exact absurd (by simpa using hc) hh
      have hcong : as.filter (fun g => (h :: seen).contains g.1) = as.filter (fun g => seen.contains g.1) := by
        apply List.filter_congr
        intro g hg
        have : g.1 ≠ h := by
          intro e'; exact hnd.1 (by rw [e, ← e']; exact List.mem_map_of_mem hg)
        simp [this]
      have hb : (a.1 == h) = true := by simpa using e
      rw [List.find?_cons, hb]
      simp only [List.filter_cons, hs, Bool.false_eq_true, if_false, hcong]
      have : (h :: seen).contains a.1 = true := by simp [e]
      simp only [this, if_true, List.map_cons, List.sum_cons]
      omega
    · have hb : (a.1 == h) = false := by simpa using e
      have hc : (h :: seen).contains a.1 = seen.contains a.1 := by simp [e]
      rw [List.find?_cons, hb]
      simp only [List.filter_cons, hc]
      cases seen.contains a.1 with
      | true => simp only [if_true, List.map_cons, List.sum_cons, ih']; omega
      | false => simpa using ih'

theorem rstep_sum (k : PeriodKind) (groups : List Group) (hnd : (groups.map (·.1)).Nodup)
    (φ : Int × Int → Int) (acc : List Nat × List Row) (d : Date)
    (h : sumRows φ acc.2 = sumSeen φ groups acc.1) :
    sumRows φ (rstep k groups acc d).2 = sumSeen φ groups (rstep k groups acc d).1 := by
  unfold rstep
  simp only
  cases hc : acc.1.contains (hashOf k d) with
  | true => simpa using h
  | false =>
    simp only [Bool.false_eq_true, if_false]
    rw [sumSeen_cons φ groups hnd acc.1 _ (by simpa using hc), ← h]
    unfold sumRows
    cases groups.find? (fun g => g.1 == hashOf k d) with
    | none => simp
    | some g => simp [gval]

theorem foldl_rstep_sum (k : PeriodKind) (groups : List Group) (hnd : (groups.map (·.1)).Nodup)
    (φ : Int × Int → Int) (ds : List Date) (acc : List Nat × List Row)
    (h : sumRows φ acc.2 = sumSeen φ groups acc.1) :
    sumRows φ (ds.foldl (rstep k groups) acc).2 = sumSeen φ groups (ds.foldl (rstep k groups) acc).1 := by
  induction ds generalizing acc with
  | nil => simpa using h
  | cons d ds ih => rw [List.foldl_cons]; exact ih _ (rstep_sum k groups hnd φ acc d h)

theorem rstep_seen_mono (k : PeriodKind) (groups : List Group) (acc : List Nat × List Row) (d : Date) :
    (∀ h ∈ acc.1, h ∈ (rstep k groups acc d).1) ∧ hashOf k d ∈ (rstep k groups acc d).1 := by
  unfold rstep
  simp only
  cases hc : acc.1.contains (hashOf k d) with
  | true => simp only [if_true]; exact ⟨fun _ h => h, by simpa using hc⟩
  | false => simp only [Bool.false_eq_true, if_false]; exact ⟨fun _ h => List.mem_cons_of_mem _ h, by simp⟩

theorem foldl_rstep_seen (k : PeriodKind) (groups : List Group) (ds : List Date) (acc : List Nat × List Row) :
    (∀ h ∈ acc.1, h ∈ (ds.foldl (rstep k groups) acc).1) ∧
    (∀ d ∈ ds, hashOf k d ∈ (ds.foldl (rstep k groups) acc).1) := by
  induction ds generalizing acc with
  | nil => simp
  | cons d ds ih =>
    rw [List.foldl_cons]
    have h1 := rstep_seen_mono k groups acc d
    have h2 := ih (rstep k groups acc d)
    refine ⟨fun h hh => h2.1 _ (h1.1 _ hh), ?_⟩
    intro d' hd'
    rcases List.mem_cons.mp hd' with rfl | hd''
    · exact h2.1 _ h1.2
    · exact h2.2 _ hd''

theorem sumSeen_all (φ : Int × Int → Int) (groups : List Group) (seen : List Nat)
    (h : ∀ g ∈ groups, g.1 ∈ seen) :
    sumSeen φ groups seen = (groups.map (fun g => φ (gval g))).sum := by
  unfold sumSeen
  rw [List.filter_eq_self.mpr]
  intro g hg
  simpa using h g hg

/-- The rows sum to the groups' total as soon as every group's bucket is hit by some date. -/
theorem rows_sum_of_cover (k : PeriodKind) (groups : List Group) (hnd : (groups.map (·.1)).Nodup)
    (φ : Int × Int → Int) (ds : List Date) (hcov : ∀ g ∈ groups, ∃ d ∈ ds, hashOf k d = g.1) :
    sumRows φ (ds.foldl (rstep k groups) ([], [])).2 = (groups.map (fun g => φ (gval g))).sum := by
  rw [foldl_rstep_sum k groups hnd φ ds ([], []) (by
    have : groups.filter (fun _ => false) = [] := List.filter_eq_nil_iff.mpr (by simp)
    simp [sumRows, sumSeen, this])]
  apply sumSeen_all
  intro g hg
  obtain ⟨d, hd, e⟩ := hcov g hg
  rw [← e]
  exact (foldl_rstep_seen k groups ds ([], [])).2 d hd

theorem hashOf_sameDay (k : PeriodKind) (a b : Date) (h : a.sameDay b = true) : hashOf k a = hashOf k b := by
  rw [sameDay_iff] at h
  obtain ⟨ay, am, ad, af⟩ := a
  obtain ⟨by_, bm, bd, bf⟩ := b
  simp only at h
  obtain ⟨rfl, rfl, rfl⟩ := h
  cases k <;> simp [hashOf, Date.isoWeek, Date.weekday, dayNumber, Date.quarter]

theorem allDatesRange_cover (b : Date) (hb : b.valid = true) (fuel : Nat) (a : Date) (ha : a.valid = true)
    (hf : dayNumber b - dayNumber a ≤ fuel) (ds : List Date) (h : allDatesRange a b fuel = some ds)
    (n : Int) (h1 : dayNumber a ≤ n) (h2 : n ≤ dayNumber b) :
    ∃ d ∈ ds, d.valid = true ∧ dayNumber d = n := by
  induction fuel generalizing a ds with
  | zero =>
    simp only [allDatesRange, Option.some.injEq] at h
    subst h
    exact ⟨a, by simp, ha, by omega⟩
  | succ fuel ih =>
    unfold allDatesRange at h
    by_cases hab : a.afterOrEqual b = true
    · rw [if_pos hab] at h
      simp only [Option.some.injEq] at h
      subst h
      rw [afterOrEqual_iff_dayNumber a b ha hb] at hab
      exact ⟨a, by simp, ha, by omega⟩
    · rw [if_neg hab] at h
      rw [afterOrEqual_iff_dayNumber a b ha hb] at hab
      cases hp : a.plusDays 1 with
      | none => simp [hp] at h
      | some nx =>
        simp only [hp, Option.map_eq_some_iff] at h
        obtain ⟨ds', hds', rfl⟩ := h
        have hnx := plusDays_some a nx 1 ha hp
        by_cases hn : n = dayNumber a
        · exact ⟨a, by simp, ha, hn.symm⟩
        · obtain ⟨d, hd, hv⟩ := ih nx hnx.1 (by omega) ds' hds' (by omega)
          exact ⟨d, List.mem_cons_of_mem _ hd, hv⟩

theorem reportRows_sum_fill (k : PeriodKind) (rs : List Record) (rows : List Row)
    (hv : ∀ r ∈ rs, r.date.valid = true) (h : reportRows k true rs = some rows) :
    ((rows.filterMap (·.total)).map (·.1)).sum = totalMins rs ∧
    ((rows.filterMap (·.total)).map (·.2)).sum = shouldSum rs := by
  have hperm := sortRecords_perm true rs
  have hsorted := sortRecords_sorted rs
  have htot := groups_total k rs
  have inv := groupByHash_inv k (sortRecords true rs)
  cases hs : sortRecords true rs with
  | nil =>
    rw [reportRows_nil k true rs hs] at h
    injection h with h
    subst h
    rw [hs] at hperm
    have : rs = [] := List.perm_nil.mp hperm.symm
    subst this
    exact ⟨rfl, rfl⟩
  | cons first rest =>
    obtain ⟨last, hl⟩ : ∃ last, (first :: rest).getLast? = some last := by
      cases h : (first :: rest).getLast? with
      | none => simp at h
      | some l => exact ⟨l, rfl⟩
    rw [reportRows_cons k true rs first rest last hs hl] at h
    rw [hs] at hperm hsorted htot inv
    simp only [if_true, Option.map_eq_some_iff] at h
    obtain ⟨ds, hds, rfl⟩ := h
    have hvs : ∀ r ∈ first :: rest, r.date.valid = true := fun r hr => hv r (hperm.mem_iff.mp hr)
    have hfirst : ∀ r ∈ first :: rest, r.date.afterOrEqual first.date = true := by
      intro r hr
      rcases List.mem_cons.mp hr with rfl | hr'
      · exact afterOrEqual_refl _
      · exact (List.pairwise_cons.mp hsorted).1 r hr'
    have hlast : ∀ r ∈ first :: rest, last.date.afterOrEqual r.date = true := by
      obtain ⟨init, hinit⟩ : ∃ init, first :: rest = init ++ [last] := by
        have := List.getLast?_eq_some_iff.mp hl
        exact this
      rw [hinit] at hsorted
      intro r hr
      rw [hinit] at hr
      rcases List.mem_append.mp hr with hr' | hr'
      · exact (List.pairwise_append.mp hsorted).2.2 r hr' last (by simp)
      · simp at hr'; subst hr'; exact afterOrEqual_refl _
    have hlmem : last ∈ first :: rest := List.mem_of_getLast? hl
    have hcov : ∀ g ∈ groupByHash k (first :: rest), ∃ d ∈ ds, hashOf k d = g.1 := by
      intro g hg
      obtain ⟨hne, hh⟩ := inv.mem g hg
      obtain ⟨r, hr⟩ := List.exists_mem_of_ne_nil _ hne
      have hrs : r ∈ first :: rest := inv.perm.mem_iff.mp (List.mem_flatMap.mpr ⟨g, hg, hr⟩)
      have hrv := hvs r hrs
      have h1 := (afterOrEqual_iff_dayNumber _ _ hrv (hvs first (by simp))).mp (hfirst r hrs)
      have h2 := (afterOrEqual_iff_dayNumber _ _ (hvs last hlmem) hrv).mp (hlast r hrs)
      obtain ⟨d, hd, hdv, hdn⟩ := allDatesRange_cover last.date (hvs last hlmem) _ first.date
        (hvs first (by simp)) (by omega) ds hds (dayNumber r.date) h1 h2
      refine ⟨d, hd, ?_⟩
      rw [hashOf_sameDay k d r.date (dayNumber_inj d r.date hdv hrv hdn)]
      exact hh r hr
    have s1 := rows_sum_of_cover k _ inv.nodup (·.1) ds hcov
    have s2 := rows_sum_of_cover k _ inv.nodup (·.2) ds hcov
    unfold sumRows at s1 s2
    simp only [gval] at s1 s2
    exact ⟨s1.trans htot.1, s2.trans htot.2⟩

/-! ## `klog today` -/

theorem filter_three_perm {α} (p q : α → Bool) (l : List α) :
    (l.filter p ++ (l.filter (fun a => !p a && !q a) ++ l.filter (fun a => !p a && q a))).Perm l := by
  have h1 := List.filter_append_perm p l
  have h2 := List.filter_append_perm q (l.filter (fun a => !p a))
  rw [List.filter_filter, List.filter_filter] at h2
  have e1 : l.filter (fun a => q a && !p a) = l.filter (fun a => !p a && q a) :=
    List.filter_congr (fun a _ => Bool.and_comm _ _)
  have e2 : l.filter (fun a => !q a && !p a) = l.filter (fun a => !p a && !q a) :=
    List.filter_congr (fun a _ => Bool.and_comm _ _)
  rw [e1, e2] at h2
  refine List.Perm.trans ?_ h1
  exact List.Perm.append_left _ (List.perm_append_comm.trans h2)

theorem splitCurrentOther_spec (today : Date) (rs c o : List Record) (y : Bool)
    (h : splitCurrentOther today rs = some (c, o, y)) :
    (c ++ o).Perm rs ∧ totalMins c + totalMins o = totalMins rs ∧ shouldSum c + shouldSum o = shouldSum rs := by
  have key : (c ++ o).Perm rs := by
    unfold splitCurrentOther at h
    simp only [Option.map_eq_some_iff] at h
    obtain ⟨yd, _, h⟩ := h
    have h3 := filter_three_perm (fun r : Record => r.date.sameDay today) (fun r => r.date.sameDay yd) rs
    generalize ht : rs.filter (fun r => r.date.sameDay today) = T at h h3
    generalize hy : rs.filter (fun r => !r.date.sameDay today && r.date.sameDay yd) = Y at h h3
    generalize ho : rs.filter (fun r => !r.date.sameDay today && !r.date.sameDay yd) = O at h h3
    cases T with
    | cons t ts =>
      simp only [List.isEmpty_cons, Bool.not_false, if_true, Prod.mk.injEq] at h
      obtain ⟨rfl, rfl, _⟩ := h
      exact h3
    | nil =>
      cases Y with
      | cons y' ys =>
        simp only [List.isEmpty_nil, List.isEmpty_cons, Bool.not_true, Bool.not_false, Bool.false_eq_true,
          if_false, if_true, Prod.mk.injEq] at h
        obtain ⟨rfl, rfl, _⟩ := h
        exact List.perm_append_comm.trans (by simpa using h3)
      | nil =>
        simp only [List.isEmpty_nil, Bool.not_true, Bool.false_eq_true, if_false, Prod.mk.injEq] at h
        obtain ⟨rfl, rfl, _⟩ := h
        simpa using h3
  refine ⟨key, ?_, ?_⟩
  · rw [← totalMins_append]; exact totalMins_perm key
  · rw [← shouldSum_append]; exact shouldSum_perm key

end KlogV
