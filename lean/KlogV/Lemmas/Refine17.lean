/-
Helper lemmas for C04, part 17: the lines of the reconciler for a new record.
-/
import KlogV.Lemmas.Refine15
import KlogV.Lemmas.Refine16
import KlogV.Lemmas.ParserErrors
namespace KlogV.RefineLemmas
open KlogV.EditLemmas

/-- the date as it is written -/
def writtenDate (d : Date) (fmt : Reformat Bool) (st : Style) : Date :=
  match fmt.pick st.dateDashes.1 with
  | some dashes => { d with dashes := dashes }
  | none => d

theorem writtenDate_same (d : Date) (fmt : Reformat Bool) (st : Style) :
    Spec.SameDate (writtenDate d fmt st) d ∧ (writtenDate d fmt st).valid = d.valid := by
  unfold writtenDate
  split
  · exact ⟨⟨rfl, rfl, rfl⟩, rfl⟩
  · exact ⟨⟨rfl, rfl, rfl⟩, rfl⟩

/-- the lines of the new record itself -/
def recordLinesOf (st : Style) (x : Date) (should : Option Int) (summary : List Bytes) : List Line :=
  ⟨encode (hlChars x should), st.lineEnding.1⟩ :: summary.map (fun s => (⟨s, st.lineEnding.1⟩ : Line))

theorem headline_bytes (x : Date) (should : Option Int) :
    bytesOfChars x.print ++
      (match should with
       | some s => bytesOfChars ([' ', '('] ++ (Dur.print ⟨s, false, 0⟩) ++ ['!', ')'])
       | none => []) = encode (hlChars x should) := by
  unfold hlChars bytesOfChars
  cases should with
  | none => simp
  | some s => rw [encode_append]

theorem recordText_lines (st : Style) (G : GoodStyle st) (x : Date) (should : Option Int) (summary : List Bytes)
    (hc : ∀ s ∈ summary, CleanLine s) :
    (((encode (hlChars x should), 0) : Insertable) :: summary.map (fun s => ((s, 0) : Insertable))).map (mkLine st) =
      recordLinesOf st x should summary := by
  simp only [List.map_cons, List.map_map, recordLinesOf]
  rw [mkLine_level0 st G _ (hlChars_clean x should)]
  congr 1
  apply List.map_congr_left
  intro s hs
  exact mkLine_level0 st G s (hc s hs)

theorem ptr_le (file : Bytes) (B1 : List (List Line)) (b : List Line) (B2 : List (List Line))
    (hbs : blocksOf file = B1 ++ b :: B2) :
    indexOfLastSignificantLine ((B1.map List.length).sum) b ≤ (blocksOf file).flatten.length := by
  have := significant_bound b
  unfold indexOfLastSignificantLine
  rw [hbs]
  simp only [List.flatten_append, List.flatten_cons, List.length_append, List.length_flatten]
  generalize significant b = sg at *
  obtain ⟨sig, head, tl⟩ := sg
  simp only at this ⊢
  omega

/-- (NEWREC) the reconciler for a new record, case by case -/
theorem reconcilerForNewRecord_lines (d : Date) (fmt : Reformat Bool) (ad : AdditionalData)
    (rs : List Record) (bos : List BlockOut) (hc : ∀ s ∈ ad.summary.getD [], CleanLine s) :
    let st := elect {} rs (bos.map (·.lines))
    let x := writtenDate d fmt st
    let REC := recordLinesOf st x ad.should (ad.summary.getD [])
    (reconcilerForNewRecord d fmt ad rs bos).style = st ∧
    ((rs = [] ∧ (reconcilerForNewRecord d fmt ad rs bos).lines = ins st (bos.map (·.lines)).flatten 0 REC ∧ (reconcilerForNewRecord d fmt ad rs bos).lastLine = 1) ∨
     (rs ≠ [] ∧ newRecordPosition d 0 rs = none ∧
        (reconcilerForNewRecord d fmt ad rs bos).lines = ins st (bos.map (·.lines)).flatten 0 (REC ++ [blankLine st]) ∧ (reconcilerForNewRecord d fmt ad rs bos).lastLine = 1) ∨
     (∃ i, rs ≠ [] ∧ newRecordPosition d 0 rs = some i ∧
        (reconcilerForNewRecord d fmt ad rs bos).lines = ins st (bos.map (·.lines)).flatten
          (match bos[i]? with | some bo => indexOfLastSignificantLine bo.first bo.lines | none => 0) (blankLine st :: REC) ∧
        (reconcilerForNewRecord d fmt ad rs bos).lastLine = (match bos[i]? with | some bo => indexOfLastSignificantLine bo.first bo.lines | none => 0) + 2)) := by
  intro st x REC
  have G : GoodStyle st := goodStyle_new rs _
  have hblank : mkLine st ([], 0) = blankLine st := mkLine_blank st G
  have hREC := recordText_lines st G x ad.should (ad.summary.getD []) hc
  have hhl := headline_bytes x ad.should
  unfold reconcilerForNewRecord
  dsimp only
  generalize hhlq : (bytesOfChars _ ++ _ : Bytes) = headline
  have hh : headline = encode (hlChars x ad.should) := by
    rw [← hhlq, ← hhl]
    show _ = bytesOfChars (writtenDate d fmt st).print ++ _
    unfold writtenDate
    cases fmt.pick st.dateDashes.1 <;> rfl
  rw [hh]
  by_cases hrs : rs.isEmpty = true
  · simp only [hrs, if_true]
    refine ⟨rfl, Or.inl ⟨List.isEmpty_iff.mp hrs, ?_, trivial⟩⟩
    show insertLines st _ 0 _ = _
    rw [insertLines_ins, hREC]
  · have hne : rs ≠ [] := fun h => hrs (List.isEmpty_iff.mpr h)
    simp only [hrs, Bool.false_eq_true, if_false]
    cases hpos : newRecordPosition d 0 rs with
    | none =>
      dsimp only
      refine ⟨rfl, Or.inr (Or.inl ⟨hne, rfl, ?_, rfl⟩)⟩
      show insertLines st _ 0 _ = _
      rw [insertLines_ins, List.map_append, hREC]
      simp only [List.map_cons, List.map_nil, hblank]
      rfl
    | some i =>
      dsimp only
      refine ⟨rfl, Or.inr (Or.inr ⟨i, hne, rfl, ?_, rfl⟩)⟩
      show insertLines st _ _ _ = _
      rw [insertLines_ins, List.map_cons, hREC, hblank]
      rfl

end KlogV.RefineLemmas
