/- Round trip (C09), part 4: character classes of printed values; `parseValue` of a printed value. -/
import KlogV.Lemmas.Roundtrip1
import KlogV.Model.Parser
namespace KlogV

/-! ## takeWhile / dropWhile on a run -/

theorem takeWhile_stop {α} (q : α → Bool) (a : List α) (c : α) (rest : List α)
    (ha : ∀ x ∈ a, q x = true) (hc : q c = false) :
    (a ++ c :: rest).takeWhile q = a ∧ (a ++ c :: rest).dropWhile q = c :: rest := by
  induction a with
  | nil => simp [hc]
  | cons x a ih =>
    have := ih (fun y hy => ha y (by simp [hy]))
    simp [ha x (by simp), this]

theorem takeWhile_end {α} (q : α → Bool) (a : List α) (ha : ∀ x ∈ a, q x = true) :
    a.takeWhile q = a ∧ a.dropWhile q = [] := by
  induction a with
  | nil => simp
  | cons x a ih =>
    have := ih (fun y hy => ha y (by simp [hy]))
    simp [ha x (by simp), this]

/-- `peekUntil` over a run `a` followed by nothing or by a stop character -/
theorem peekUntil_run (p : Char → Bool) (a sfx : List Char) (ha : ∀ x ∈ a, p x = false)
    (hs : sfx = [] ∨ ∃ c r, sfx = c :: r ∧ p c = true) : peekUntil p (a ++ sfx) = a := by
  unfold peekUntil
  rcases hs with rfl | ⟨c, r, rfl, hc⟩
  · rw [List.append_nil]; exact (takeWhile_end _ a (by simpa using ha)).1
  · exact (takeWhile_stop _ a c r (by simpa using ha) (by simp [hc])).1

/-! ## characters of printed times and durations -/

def timeChar (c : Char) : Bool :=
  isDigit c || c == ':' || c == '<' || c == '>' || c == 'a' || c == 'p' || c == 'm'

def durChar (c : Char) : Bool := isDigit c || c == 'h' || c == 'm' || c == '-' || c == '+'

theorem isSpTab_iff (c : Char) : isSpTab c = true ↔ c = ' ' ∨ c = '\t' := by
  simp [isSpTab]

theorem timeChar_not_spTab (c : Char) (h : timeChar c = true) : isSpTab c = false := by
  cases hs : isSpTab c with
  | false => rfl
  | true =>
    rcases (isSpTab_iff c).mp hs with rfl | rfl <;> exact absurd h (by decide)

theorem durChar_not_spTab (c : Char) (h : durChar c = true) : isSpTab c = false := by
  cases hs : isSpTab c with
  | false => rfl
  | true =>
    rcases (isSpTab_iff c).mp hs with rfl | rfl <;> exact absurd h (by decide)

theorem timeChar_not_sep (c : Char) (h : timeChar c = true) : (c == '-' || c == ' ') = false := by
  cases hs : (c == '-' || c == ' ') with
  | false => rfl
  | true =>
    simp only [Bool.or_eq_true, beq_iff_eq] at hs
    rcases hs with rfl | rfl <;> exact absurd h (by decide)

theorem digit_timeChar (c : Char) (h : isDigit c = true) : timeChar c = true := by
  simp [timeChar, h]

theorem digit_durChar (c : Char) (h : isDigit c = true) : durChar c = true := by
  simp [durChar, h]

theorem all_digits_mem (n : Nat) : ∀ c ∈ natDigits n, isDigit c = true := by
  have := natDigits_all n
  simpa [List.all_eq_true] using this

theorem apChars_timeChar (o : Option Bool) : ∀ c ∈ Time.apChars o, timeChar c = true := by
  intro c hc
  cases o with
  | none => simp [Time.apChars] at hc
  | some b =>
    cases b <;> simp [Time.apChars] at hc <;> rcases hc with rfl | rfl <;> decide

theorem Time.print_all (t : Time) : ∀ c ∈ t.print, timeChar c = true := by
  intro c hc
  rw [Time.print_eq] at hc
  simp only [List.mem_append, List.mem_cons, List.not_mem_nil, or_false] at hc
  rcases hc with ((((h | h) | h) | h) | h) | h
  · split at h
    · simp at h; subst h; decide
    · simp at h
  · exact digit_timeChar c (all_digits_mem _ c h)
  · subst h; decide
  · rcases h with rfl | rfl <;> exact digit_timeChar _ (isDigit_digitChar _)
  · exact apChars_timeChar _ c h
  · split at h
    · simp at h; subst h; decide
    · simp at h

/-- A printed time is `<`? digits `:` … -/
theorem Time.print_shape (t : Time) : ∃ pre c cs rest, t.print = pre ++ (c :: cs) ++ ':' :: rest ∧
    (pre = [] ∨ pre = ['<']) ∧ (c :: cs).all isDigit = true := by
  obtain ⟨c, cs, e, hc⟩ := natDigits_cons' t.printHour
  refine ⟨if decide (t.shift < 0) then ['<'] else [], c, cs,
    [digitChar (t.min / 10), digitChar t.min] ++ Time.apChars t.printAp ++ (if decide (t.shift > 0) then ['>'] else []), ?_, ?_, hc⟩
  · rw [Time.print_eq, e]
    simp only [List.append_assoc, List.cons_append, List.nil_append]
  · split
    · right; rfl
    · left; rfl

theorem Time.print_head (t : Time) : ∃ c r, t.print = c :: r ∧ timeChar c = true ∧ c ≠ '-' ∧ c ≠ '+' := by
  have hall := Time.print_all t
  obtain ⟨pre, c, cs, rest, e, hp, _⟩ := Time.print_shape t
  rcases hp with rfl | rfl
  · refine ⟨c, cs ++ ':' :: rest, by rw [e]; simp, ?_⟩
    have hc : timeChar c = true := hall c (by rw [e]; simp)
    refine ⟨hc, ?_, ?_⟩ <;> (intro h; subst h; exact absurd hc (by decide))
  · exact ⟨'<', (c :: cs) ++ ':' :: rest, by rw [e]; simp, by decide, by decide, by decide⟩

theorem Dur.shape_time (t : Time) (x : List Char) : Dur.shape (t.print ++ x) = none := by
  obtain ⟨pre, c, cs, rest, e, hp, hd⟩ := Time.print_shape t
  rw [e]
  rcases hp with rfl | rfl
  · have k := takeWhile_digits (c :: cs) ':' (rest ++ x) hd (by decide)
    simp only [List.nil_append, List.append_assoc, List.cons_append] at k ⊢
    unfold Dur.shape
    simp only [k.1, k.2]
    split
    · rename_i h1; cases h1
    · rename_i h1 h2; simp at h1
    · rename_i h1 h2; simp at h1
    · rfl
  · unfold Dur.shape
    have : ¬ isDigit '<' = true := by decide
    simp [this]

theorem Dur.parse_time (t : Time) (x : List Char) : Dur.parse (t.print ++ x) = .err := by
  obtain ⟨c, r, e, _, h1, h2⟩ := Time.print_head t
  have h := Dur.shape_time t x
  rw [e, List.cons_append] at h ⊢
  rw [Dur.parse_nosign c _ h1 h2]
  unfold Dur.parseS
  rw [h]

theorem Dur.body_all (H M : Nat) : ∀ c ∈ Dur.body H M, durChar c = true := by
  intro c hc
  unfold Dur.body at hc
  simp only [List.mem_append] at hc
  rcases hc with h | h <;> split at h
  · simp only [List.mem_append, List.mem_singleton] at h
    rcases h with h | rfl
    · exact digit_durChar c (all_digits_mem _ c h)
    · decide
  · simp at h
  · simp only [List.mem_append, List.mem_singleton] at h
    rcases h with h | rfl
    · exact digit_durChar c (all_digits_mem _ c h)
    · decide
  · simp at h

theorem Dur.print_all (d : Dur) : ∀ c ∈ d.print, durChar c = true := by
  intro c hc
  by_cases hz : d.mins = 0
  · unfold Dur.print at hc
    simp only [hz, beq_self_eq_true, if_true, List.mem_append, List.mem_cons, List.not_mem_nil, or_false] at hc
    rcases hc with h | rfl | rfl
    · split at h
      · simp at h; subst h; decide
      · split at h
        · simp at h; subst h; decide
        · simp at h
    · decide
    · decide
  · rw [Dur.print_nonzero d hz, List.mem_append] at hc
    rcases hc with h | h
    · split at h
      · simp at h; subst h; decide
      · split at h
        · simp at h; subst h; decide
        · simp at h
    · exact Dur.body_all _ _ c h

theorem Dur.print_ne_nil (d : Dur) : d.print ≠ [] := by
  by_cases hz : d.mins = 0
  · unfold Dur.print
    simp [hz]
  · rw [Dur.print_nonzero d hz]
    have hpos : d.mins.natAbs / 60 > 0 ∨ d.mins.natAbs % 60 > 0 := by omega
    obtain ⟨c, r, e, _⟩ := Dur.body_cons _ _ hpos
    rw [e]; simp

theorem Dur.print_head (d : Dur) : ∃ c r, d.print = c :: r ∧ durChar c = true := by
  cases h : d.print with
  | nil => exact absurd h (Dur.print_ne_nil d)
  | cons c r => exact ⟨c, r, rfl, Dur.print_all d c (by rw [h]; simp)⟩

/-- every printed value starts with a character that is neither a space nor a tab -/
theorem EntryVal.print_head (v : EntryVal) : ∃ c r, v.print = c :: r ∧ isSpTab c = false := by
  cases v with
  | range s t sp =>
    obtain ⟨c, r, e, hc, _⟩ := Time.print_head s
    exact ⟨c, _, by simp only [EntryVal.print, e, List.cons_append]; rfl, timeChar_not_spTab c hc⟩
  | dur d =>
    obtain ⟨c, r, e, hc⟩ := Dur.print_head d
    exact ⟨c, r, e, durChar_not_spTab c hc⟩
  | openRange s sp x =>
    obtain ⟨c, r, e, hc, _⟩ := Time.print_head s
    exact ⟨c, _, by simp only [EntryVal.print, e, List.cons_append]; rfl, timeChar_not_spTab c hc⟩

end KlogV
