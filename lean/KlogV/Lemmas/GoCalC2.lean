/- Helper lemmas for KlogV/Lemmas/GoCalC.lean: `atoi`, `strings.Split` on the shaped period patterns. Core Lean only. -/
import KlogV.GoSem.AbsCal
import KlogV.Lemmas.Values
set_option linter.unusedSimpArgs false
namespace KlogV.GoL.C
open KlogV.Go

theorem c_digit_ne_dash (c : Char) (h : isDigit c = true) : c ≠ '-' := by
  intro e; subst e; revert h; decide

theorem c_digit_ne_plus (c : Char) (h : isDigit c = true) : c ≠ '+' := by
  intro e; subst e; revert h; decide

theorem c_atoi (c : Char) (t : List Char) (hall : (c :: t).all isDigit = true)
    (hb : digitsVal (c :: t) ≤ 9223372036854775807) : Go.atoi (c :: t) = .ok ((digitsVal (c :: t) : Nat) : Int) := by
  have hc : isDigit c = true := by simp at hall; exact hall.1
  have h1 := c_digit_ne_dash c hc
  have h2 := c_digit_ne_plus c hc
  unfold Go.atoi
  split
  · rename_i negv ds heq
    split at heq
    · rename_i r hs; simp only [List.cons.injEq] at hs; exact absurd hs.1 h1
    · rename_i r hs; simp only [List.cons.injEq] at hs; exact absurd hs.1 h2
    · simp only [Prod.mk.injEq] at heq
      obtain ⟨e1, e2⟩ := heq
      subst e1 e2
      have hb' : ((digitsVal (c :: t) : Nat) : Int) ≤ 9223372036854775807 := by omega
      simp [hall, hb', pure, Except.pure]

theorem c_dv1 (a : Char) : digitsVal [a] = digitVal a := by simp [digitsVal]
theorem c_dv2 (a b : Char) : digitsVal [a, b] = digitVal a * 10 + digitVal b := by simp [digitsVal]
theorem c_dv4 (a b c d : Char) : digitsVal [a, b, c, d] = ((digitVal a * 10 + digitVal b) * 10 + digitVal c) * 10 + digitVal d := by
  simp [digitsVal]

theorem c_atoi1 (a : Char) (ha : isDigit a = true) : Go.atoi [a] = .ok ((digitsVal [a] : Nat) : Int) := by
  have := digitVal_lt a ha
  exact c_atoi a [] (by simp [ha]) (by rw [c_dv1]; omega)

theorem c_atoi2 (a b : Char) (ha : isDigit a = true) (hb : isDigit b = true) :
    Go.atoi [a, b] = .ok ((digitsVal [a, b] : Nat) : Int) := by
  have := digitVal_lt a ha
  have := digitVal_lt b hb
  exact c_atoi a [b] (by simp [ha, hb]) (by rw [c_dv2]; omega)

theorem c_atoi4 (a b c d : Char) (ha : isDigit a = true) (hb : isDigit b = true) (hc : isDigit c = true) (hd : isDigit d = true) :
    Go.atoi [a, b, c, d] = .ok ((digitsVal [a, b, c, d] : Nat) : Int) := by
  have := digitVal_lt a ha
  have := digitVal_lt b hb
  have := digitVal_lt c hc
  have := digitVal_lt d hd
  exact c_atoi a [b, c, d] (by simp [ha, hb, hc, hd]) (by rw [c_dv4]; omega)

theorem c_dv4_le (a b c d : Char) (ha : isDigit a = true) (hb : isDigit b = true) (hc : isDigit c = true) (hd : isDigit d = true) :
    digitsVal [a, b, c, d] ≤ 9999 := by
  have := digitVal_lt a ha
  have := digitVal_lt b hb
  have := digitVal_lt c hc
  have := digitVal_lt d hd
  rw [c_dv4]; omega

/-- `strings.Split(s, "-")` where `s` is four digits, a dash and a dash-free rest -/
theorem c_split (a b c d : Char) (rest : List Char) (ha : isDigit a = true) (hb : isDigit b = true) (hc : isDigit c = true)
    (hd : isDigit d = true) (hr : ∀ x ∈ rest, x ≠ '-') :
    stringsSplit (a :: b :: c :: d :: '-' :: rest) ['-'] = .ok [[a, b, c, d], rest] := by
  have h1 := c_digit_ne_dash a ha
  have h2 := c_digit_ne_dash b hb
  have h3 := c_digit_ne_dash c hc
  have h4 := c_digit_ne_dash d hd
  have key : ∀ (l cur : List Char), (∀ x ∈ l, x ≠ '-') → stringsSplit1.go '-' l cur = [cur.reverse ++ l] := by
    intro l
    induction l with
    | nil => intro cur _; simp [stringsSplit1.go]
    | cons x l ih =>
      intro cur hx
      have hx1 : x ≠ '-' := hx x (by simp)
      simp only [stringsSplit1.go, beq_iff_eq, hx1, if_false]
      rw [ih (x :: cur) (fun y hy => hx y (by simp [hy]))]
      simp
  simp only [stringsSplit, stringsSplit1, pure, Except.pure, stringsSplit1.go, beq_iff_eq, h1, h2, h3, h4, if_false, if_true]
  rw [key rest [] hr]
  simp

theorem c_idx0 {α} (a : α) (l : List α) : idx (a :: l) 0 = .ok a := by
  simp [idx, pure, Except.pure]
theorem c_idx1 {α} (a b : α) (l : List α) : idx (a :: b :: l) 1 = .ok b := by
  simp [idx, pure, Except.pure]
theorem c_trim (c : Char) (l : List Char) : stringsTrimPrefix (c :: l) [c] = l := by
  simp [stringsTrimPrefix]

theorem c_mul3i (k : Int) (h0 : 0 ≤ k) (h : k ≤ 9) : mul k 3 = k * 3 := by
  unfold mul wrap; omega

theorem c_len4 (s : List Char) (h : s.length = 4) : ∃ a b c d, s = [a, b, c, d] := by
  match s, h with
  | [a, b, c, d], _ => exact ⟨a, b, c, d, rfl⟩

end KlogV.GoL.C
