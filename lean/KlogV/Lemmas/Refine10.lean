/-
Helper lemmas for C04, part 10: from the document to its blocks and back; what a successful
`track` / `create` run consists of.
-/
import KlogV.Lemmas.Refine1
import KlogV.Lemmas.Refine4
import KlogV.Lemmas.CommandsSafe
import KlogV.Lemmas.Totality
import KlogV.Lemmas.RoundtripLines
namespace KlogV.RefineLemmas
open KlogV.EditLemmas

/-! ## document ↔ blocks -/

theorem outs_of_no_err (bos : List BlockOut) (f : BlockOut → Bool) (g : BlockOut → Option Record)
    (hf : ∀ bo es, bo.out = .errors es → f bo = true)
    (hg : ∀ bo r, bo.out = .record r → g bo = some r)
    (h1 : bos.any (fun bo => bo.out == .panic) = false)
    (h2 : bos.any f = false) :
    bos.map (·.out) = (bos.filterMap g).map ParseOut.record := by
  induction bos with
  | nil => rfl
  | cons bo bos ih =>
    simp only [List.any_cons, Bool.or_eq_false_iff] at h1 h2
    have ih' := ih h1.2 h2.2
    cases ho : bo.out with
    | record r => simp [ho, ih', hg bo r ho]
    | errors es => rw [hf bo es ho] at h2; simp at h2
    | panic => rw [ho] at h1; simp at h1

/-- (DOC) a document that is read without error: every block yields its record -/
theorem parseDoc_records (t : Bytes) (rs : List Record) (bos : List BlockOut)
    (h : parseDoc t = .records rs bos) :
    bos = blockOuts (blocksOf t) ∧ (blocksOf t).map parseBlock = rs.map ParseOut.record ∧
      bos.map (·.lines) = blocksOf t ∧ rs.length = (blocksOf t).length := by
  unfold parseDoc assemble at h
  dsimp only at h
  split at h
  · cases h
  · rename_i hnp
    split at h
    · cases h
    · rename_i hne
      simp only [DocOut.records.injEq] at h
      obtain ⟨h1, h2⟩ := h
      have key : (blocksOf t).map parseBlock = rs.map ParseOut.record := by
        rw [← h1, ← blockOuts_out]
        exact outs_of_no_err (blockOuts (blocksOf t)) _ _
          (by intro bo es h; simp only [h]) (by intro bo r h; simp only [h])
          (by simpa using hnp) (Bool.eq_false_iff.mpr hne)
      refine ⟨h2.symm, key, by rw [← h2]; exact blockOuts_lines _, ?_⟩
      have := congrArg List.length key
      simpa using this.symm

theorem parseDoc_of_blocks (t : Bytes) (bs : List (List Line)) (rs : List Record)
    (hb : blocksOf t = bs) (h : bs.map parseBlock = rs.map ParseOut.record) :
    parseDoc t = .records rs (blockOuts bs) := by
  unfold parseDoc
  rw [hb]
  exact assemble_records bs rs h

theorem blockOuts_getElem? (bs : List (List Line)) (i : Nat) (bo : BlockOut)
    (h : (blockOuts bs)[i]? = some bo) :
    bs[i]? = some bo.lines ∧ bo.first = ((bs.take i).map List.length).sum := by
  unfold blockOuts at h
  rw [List.getElem?_map] at h
  cases hz : (bs.zip (firstLineIndices 0 bs))[i]? with
  | none => rw [hz] at h; cases h
  | some p =>
    rw [hz] at h
    simp only [Option.map_some, Option.some.injEq] at h
    obtain ⟨b, n⟩ := p
    rw [List.getElem?_zip_eq_some] at hz
    obtain ⟨z1, z2⟩ := hz
    simp only at z1 z2
    have hi : i < bs.length := by
      apply Classical.byContradiction
      intro hn
      rw [List.getElem?_eq_none (by omega)] at z1
      cases z1
    rw [firstLineIndices_spec 0 bs i hi] at z2
    simp only [Nat.zero_add, Option.some.injEq] at z2
    subst h
    exact ⟨z1, z2.symm⟩

theorem map_record_inj (a b : List Record) (h : a.map ParseOut.record = b.map ParseOut.record) : a = b := by
  induction a generalizing b with
  | nil => cases b with
    | nil => rfl
    | cons y b => simp at h
  | cons x a ih => cases b with
    | nil => simp at h
    | cons y b =>
      simp only [List.map_cons, List.cons.injEq, ParseOut.record.injEq] at h
      rw [h.1, ih b h.2]

/-- one block replaced by another -/
theorem records_replace (B1 : List (List Line)) (b b' : List Line) (B2 : List (List Line))
    (rs rs' : List Record)
    (h : (B1 ++ b :: B2).map parseBlock = rs.map ParseOut.record)
    (h' : (B1 ++ b' :: B2).map parseBlock = rs'.map ParseOut.record) :
    ∃ r r', rs[B1.length]? = some r ∧ parseBlock b = .record r ∧ parseBlock b' = .record r' ∧
      rs' = rs.take B1.length ++ [r'] ++ rs.drop (B1.length + 1) := by
  simp only [List.map_append, List.map_cons] at h h'
  have hlen : rs.length = B1.length + 1 + B2.length := by
    have := congrArg List.length h
    simp at this; omega
  have hlen' : rs'.length = B1.length + 1 + B2.length := by
    have := congrArg List.length h'
    simp at this; omega
  have e : rs = rs.take B1.length ++ (rs.drop B1.length) := (List.take_append_drop _ _).symm
  have e' : rs' = rs'.take B1.length ++ (rs'.drop B1.length) := (List.take_append_drop _ _).symm
  rw [e, List.map_append] at h
  rw [e', List.map_append] at h'
  have l1 : (B1.map parseBlock).length = ((rs.take B1.length).map ParseOut.record).length := by
    simp; omega
  have l1' : (B1.map parseBlock).length = ((rs'.take B1.length).map ParseOut.record).length := by
    simp; omega
  obtain ⟨a1, a2⟩ := List.append_inj h l1
  obtain ⟨a1', a2'⟩ := List.append_inj h' l1'
  cases hd : rs.drop B1.length with
  | nil => have := congrArg List.length hd; simp at this; omega
  | cons r tl =>
    cases hd' : rs'.drop B1.length with
    | nil => have := congrArg List.length hd'; simp at this; omega
    | cons r' tl' =>
      rw [hd] at a2
      rw [hd'] at a2'
      simp only [List.map_cons, List.cons.injEq] at a2 a2'
      have t1 : rs.take B1.length = rs'.take B1.length := map_record_inj _ _ (a1.symm.trans a1')
      have t2 : tl = tl' := map_record_inj _ _ (a2.2.symm.trans a2'.2)
      refine ⟨r, r', ?_, a2.1, a2'.1, ?_⟩
      · have := congrArg List.head? hd
        simpa [List.head?_drop] using this
      · have hdrop : rs.drop (B1.length + 1) = tl := by
          have := congrArg (List.drop 1) hd
          simpa [List.drop_drop, Nat.add_comm] using this
        rw [e', hd', ← t1, ← t2, hdrop]
        simp

/-! ## the reconciler at an existing record -/

theorem find_zip (d : Date) (rs : List Record) : ∀ (bos : List BlockOut) (k : Nat), rs.length = bos.length →
    match ((rs.zip bos).zipIdx k).find? (fun x => x.1.1.date.sameDay d) with
    | none => (rs.zipIdx k).find? (fun p => p.1.date.sameDay d) = none
    | some ((r, bo), i) => (rs.zipIdx k).find? (fun p => p.1.date.sameDay d) = some (r, i) ∧ k ≤ i ∧
        rs[i - k]? = some r ∧ bos[i - k]? = some bo := by
  induction rs with
  | nil => intro bos k _; simp
  | cons r rs ih =>
    intro bos k hlen
    cases bos with
    | nil => simp at hlen
    | cons bo bos =>
      simp only [List.zip_cons_cons, List.zipIdx_cons, List.find?_cons]
      cases hr : r.date.sameDay d with
      | true => simp
      | false =>
        dsimp only
        have := ih bos (k + 1) (by simpa using hlen)
        split
        · rename_i heq
          rw [heq] at this
          exact this
        · rename_i r' bo' i heq
          rw [heq] at this
          obtain ⟨t1, t2, t3, t4⟩ := this
          have : i - k = (i - (k + 1)) + 1 := by omega
          refine ⟨t1, by omega, ?_, ?_⟩
          · rw [this, List.getElem?_cons_succ]; exact t3
          · rw [this, List.getElem?_cons_succ]; exact t4

theorem reconcilerAtRecord_cases (d : Date) (rs : List Record) (bos : List BlockOut) (hlen : rs.length = bos.length) :
    (reconcilerAtRecord d rs bos = none ∧ Spec.targetIdx rs d = none) ∨
    (∃ r bo i, Spec.targetIdx rs d = some i ∧ rs[i]? = some r ∧ bos[i]? = some bo ∧
      reconcilerAtRecord d rs bos = some (Reconciler.mk r (elect (determine r bo.lines) rs (bos.map (·.lines)))
        (indexOfLastSignificantLine bo.first bo.lines) (bos.map (·.lines)).flatten i)) := by
  have key := find_zip d rs bos 0 hlen
  unfold reconcilerAtRecord Spec.targetIdx
  have hfun : (fun (x : (Record × BlockOut) × Nat) => match x with | ((r, _), _) => r.date.sameDay d)
      = (fun x => x.1.1.date.sameDay d) := by
    funext ⟨⟨r, bo⟩, i⟩; rfl
  rw [hfun]
  cases hf : ((rs.zip bos).zipIdx).find? (fun x => x.1.1.date.sameDay d) with
  | none =>
    rw [hf] at key
    left
    exact ⟨rfl, by rw [key]; rfl⟩
  | some p =>
    obtain ⟨⟨r, bo⟩, i⟩ := p
    rw [hf] at key
    obtain ⟨t1, _, t3, t4⟩ := key
    right
    exact ⟨r, bo, i, by rw [t1]; rfl, by simpa using t3, by simpa using t4, rfl⟩

/-! ## what a successful run consists of -/

theorem runCmd_track_inv (u : UTab) (cfg : Config) (now : Instant) (sel : DateSel) (entry : List Bytes)
    (file file' : Bytes) (rs : List Record) (bos : List BlockOut) (d : Date)
    (hp : parseDoc file = .records rs bos) (hd : atDate sel now.date = some d)
    (h : runCmd u cfg now (.track sel entry) file = .ok file') :
    ∃ r0 r1 rs' bos',
      firstCreator [reconcilerAtRecord d rs bos,
        some (reconcilerForNewRecord d (dateFormatOf sel cfg) { should := cfg.should } rs bos)] = some r0 ∧
      r0.appendEntry entry = some r1 ∧ file' = joinLines r1.lines ∧ parseDoc file' = .records rs' bos' := by
  unfold runCmd at h
  simp only [hd] at h
  unfold reconcileFile at h
  rw [hp] at h
  dsimp only at h
  split at h
  · cases h
  · rename_i r0 hc
    simp only [List.foldl_cons, List.foldl_nil, Res.bind] at h
    cases ha : r0.appendEntry entry with
    | none => rw [ha] at h; simp [optRes] at h
    | some r1 =>
      rw [ha] at h
      simp only [optRes] at h
      cases hm : r1.makeResult with
      | err => rw [hm] at h; cases h
      | panic => rw [hm] at h; cases h
      | ok p =>
        obtain ⟨text, rec⟩ := p
        rw [hm] at h
        simp only [CmdOut.ok.injEq] at h
        subst h
        obtain ⟨rs', bos', hp'⟩ := SafeLemmas.makeResult_ok_valid r1 text rec hm
        exact ⟨r0, r1, rs', bos', hc, ha, makeResult_text r1 text rec hm, hp'⟩

theorem runCmd_create_inv (u : UTab) (cfg : Config) (now : Instant) (sel : DateSel) (should : Option Int)
    (summary : Option (List Bytes)) (file file' : Bytes) (rs : List Record) (bos : List BlockOut) (d : Date)
    (hp : parseDoc file = .records rs bos) (hd : atDate sel now.date = some d)
    (h : runCmd u cfg now (.create sel should summary) file = .ok file') :
    ∃ rs' bos',
      file' = joinLines (reconcilerForNewRecord d (dateFormatOf sel cfg)
        { should := (match should with | some s => some s | none => cfg.should), summary := summary } rs bos).lines ∧
      parseDoc file' = .records rs' bos' := by
  unfold runCmd at h
  simp only [hd] at h
  unfold reconcileFile at h
  rw [hp] at h
  dsimp only at h
  simp only [List.foldl_nil] at h
  generalize hr : reconcilerForNewRecord d (dateFormatOf sel cfg) _ rs bos = r1 at h
  cases hm : r1.makeResult with
  | err => rw [hm] at h; cases h
  | panic => rw [hm] at h; cases h
  | ok p =>
    obtain ⟨text, rec⟩ := p
    rw [hm] at h
    simp only [CmdOut.ok.injEq] at h
    subst h
    obtain ⟨rs', bos', hp'⟩ := SafeLemmas.makeResult_ok_valid r1 text rec hm
    exact ⟨rs', bos', makeResult_text r1 text rec hm, hp'⟩

/-! ## splicing lines -/

/-- `insertLines` on lists of lines -/
def ins (st : Style) (L : List Line) (idx : Nat) (new : List Line) : List Line :=
  fixLast st (L.take idx) ++ new ++ L.drop idx

theorem insertLines_ins (st : Style) (L : List Line) (idx : Nat) (texts : List Insertable) :
    insertLines st L idx texts = ins st L idx (texts.map (mkLine st)) := rfl

theorem fixLast_of_ending (st : Style) (A : List Line) (h : ∀ l, A.getLast? = some l → l.ending ≠ .none) :
    fixLast st A = A := by
  rcases eq_nil_or_snoc A with rfl | ⟨D, l, rfl⟩
  · exact fixLast_nil st
  · rw [fixLast_snoc, setEndingIfNone_eq]
    have := h l (by simp)
    simp [this]

/-- inserting behind the first lines of an earlier insertion -/
theorem ins_ins (st : Style) (L : List Line) (idx : Nat) (A0 B0 new : List Line) (hidx : idx ≤ L.length)
    (hA : A0 ≠ []) (hend : ∀ l, A0.getLast? = some l → l.ending ≠ .none) :
    ins st (ins st L idx (A0 ++ B0)) (idx + A0.length) new = ins st L idx (A0 ++ new ++ B0) := by
  unfold ins
  have hlen : (fixLast st (L.take idx)).length = idx := by
    rw [fixLast_length, List.length_take]; omega
  have e : fixLast st (L.take idx) ++ (A0 ++ B0) ++ L.drop idx =
      (fixLast st (L.take idx) ++ A0) ++ (B0 ++ L.drop idx) := by simp
  have hl2 : (fixLast st (L.take idx) ++ A0).length = idx + A0.length := by simp [hlen]
  rw [e, ← hl2, List.take_left', List.drop_left', fixLast_append st _ A0 hA, fixLast_of_ending st A0 hend]
  · simp
  · rfl
  · rfl

end KlogV.RefineLemmas
