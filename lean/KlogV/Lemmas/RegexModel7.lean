/-
Regular expressions vs. model, part 7: `Expect.pauseValue` (`^([ \t]*)[^ \t]+`, anchored at the start only)
and `replaceFirstToken` of the reconciler.  The facts are proved once for an arbitrary alphabet with a
code map (`Char.toNat` for strings, `UInt8.toNat` for the byte lines of the reconciler).
-/
import KlogV.Lemmas.RegexModel1
import KlogV.Model.Reconciler
namespace KlogV.RxM
open KlogV.Rx

variable {env : Env}

theorem blank_code {a : Nat} : (∃ c ∈ [' ', '\t'], c.toNat = a) ↔ (a = 32 ∨ a = 9) := by
  simp only [List.mem_cons, List.not_mem_nil, or_false]
  constructor
  · rintro ⟨c, (rfl | rfl), rfl⟩
    · exact .inl rfl
    · exact .inr rfl
  · rintro (rfl | rfl)
    · exact ⟨' ', .inl rfl, rfl⟩
    · exact ⟨'\t', .inr rfl, rfl⟩

/-- the words of the language: blanks, then a non-empty word of non-blank code points -/
theorem pauseValue_word (w : List Nat) :
    Matches env Expect.pauseValue w ↔
      ∃ b t, w = b ++ t ∧ (∀ a ∈ b, a = 32 ∨ a = 9) ∧ t ≠ [] ∧ ∀ a ∈ t, a < maxRune ∧ ¬ (a = 32 ∨ a = 9) := by
  simp only [Expect.pauseValue, Expect.oneOf, Expect.noneOf, matches_cat, matches_group, m_star_cls, m_plus_cls,
    mem_oneOf, mem_noneOf, blank_code]
  constructor
  · rintro ⟨b, t, hb, ⟨hne, ht⟩, rfl⟩; exact ⟨b, t, rfl, hb, hne, ht⟩
  · rintro ⟨b, t, rfl, hb, hne, ht⟩; exact ⟨b, t, hb, ⟨hne, ht⟩, rfl⟩

theorem mark_pauseValue : mark Expect.pauseValue =
    .cat (G 1 (.star (Expect.oneOf [' ', '\t']))) (Re.plus (Expect.noneOf [' ', '\t'])) := rfl

theorem pauseValue_marked_word (m : List Nat) :
    Matches env (mark Expect.pauseValue) m ↔
      ∃ b t, m = grp 1 b ++ t ∧ (∀ a ∈ b, a = 32 ∨ a = 9) ∧ t ≠ [] ∧ ∀ a ∈ t, a < maxRune ∧ ¬ (a = 32 ∨ a = 9) := by
  rw [mark_pauseValue]
  simp only [Expect.oneOf, Expect.noneOf, matches_cat, m_G, m_star_cls, m_plus_cls, mem_oneOf, mem_noneOf, blank_code]
  constructor
  · rintro ⟨_, t, ⟨b, hb, rfl⟩, ⟨hne, ht⟩, rfl⟩; exact ⟨b, t, rfl, hb, hne, ht⟩
  · rintro ⟨b, t, rfl, hb, hne, ht⟩; exact ⟨_, t, ⟨b, hb, rfl⟩, ⟨hne, ht⟩, rfl⟩

section Generic
variable {α : Type} {f : α → Nat} {bl : α → Bool}

/-- "blanks, then at least one non-blank" -/
def BlankTok (bl : α → Bool) (p : List α) : Prop :=
  ∃ b t, p = b ++ t ∧ (∀ x ∈ b, bl x = true) ∧ t ≠ [] ∧ ∀ x ∈ t, bl x = false

theorem pause_map (hf : ∀ x, f x < maxRune) (hbl : ∀ x, bl x = true ↔ (f x = 32 ∨ f x = 9)) (l : List α) :
    Matches env Expect.pauseValue (l.map f) ↔ BlankTok bl l := by
  rw [pauseValue_word]
  constructor
  · rintro ⟨wb, wt, e, hb, hne, ht⟩
    obtain ⟨b, t, rfl, rfl, rfl⟩ := List.map_eq_append_iff.1 e
    refine ⟨b, t, rfl, ?_, ?_, ?_⟩
    · intro x hx; exact (hbl x).2 (hb _ (List.mem_map.2 ⟨x, hx, rfl⟩))
    · intro h; apply hne; rw [h]; rfl
    · intro x hx
      have := (ht _ (List.mem_map.2 ⟨x, hx, rfl⟩)).2
      cases hb' : bl x with
      | false => rfl
      | true => exact absurd ((hbl x).1 hb') this
  · rintro ⟨b, t, rfl, hb, hne, ht⟩
    refine ⟨b.map f, t.map f, List.map_append, ?_, ?_, ?_⟩
    · intro a ha
      obtain ⟨x, hx, rfl⟩ := List.mem_map.1 ha
      exact (hbl x).1 (hb x hx)
    · intro h; apply hne; exact List.map_eq_nil_iff.1 h
    · intro a ha
      obtain ⟨x, hx, rfl⟩ := List.mem_map.1 ha
      refine ⟨hf x, ?_⟩
      intro h
      have := (hbl x).2 h
      rw [ht x hx] at this; cases this

theorem takeWhile_nonblank_cons {t r : List α} (hne : t ≠ []) (ht : ∀ x ∈ t, bl x = false) :
    (t ++ r).takeWhile bl = [] ∧ (t ++ r).dropWhile bl = t ++ r := by
  cases t with
  | nil => exact absurd rfl hne
  | cons x t =>
    have : ¬ bl x = true := by rw [ht x (by simp)]; exact Bool.false_ne_true
    exact ⟨List.takeWhile_cons_of_neg this, List.dropWhile_cons_of_neg this⟩

theorem split_unique {b t r : List α} (hb : ∀ x ∈ b, bl x = true) (hne : t ≠ []) (ht : ∀ x ∈ t, bl x = false) :
    (b ++ (t ++ r)).takeWhile bl = b ∧ (b ++ (t ++ r)).dropWhile bl = t ++ r := by
  rw [List.takeWhile_append_of_pos hb, List.dropWhile_append_of_pos hb, (takeWhile_nonblank_cons hne ht).1,
    (takeWhile_nonblank_cons hne ht).2]
  simp

theorem nb_all {t : List α} (ht : ∀ x ∈ t, bl x = false) : ∀ x ∈ t, (fun x => !bl x) x = true := by
  intro x hx; simp [ht x hx]

/-- a matching word is split in exactly one way: group 1 is its maximal run of leading blanks -/
theorem blankTok_iff (p : List α) :
    BlankTok bl p ↔ p.dropWhile bl ≠ [] ∧ ∀ x ∈ p.dropWhile bl, bl x = false := by
  constructor
  · rintro ⟨b, t, rfl, hb, hne, ht⟩
    have := split_unique (r := []) hb hne ht
    rw [List.append_nil] at this
    rw [this.2]
    exact ⟨hne, ht⟩
  · rintro ⟨hne, ht⟩
    exact ⟨p.takeWhile bl, p.dropWhile bl, List.takeWhile_append_dropWhile.symm,
      fun x hx => List.all_eq_true.1 List.all_takeWhile x hx, hne, ht⟩

/-- the prefixes of a line that match: all leading blanks, then a non-empty prefix of the first run of non-blanks -/
theorem blankTok_prefixes (l p : List α) :
    (p <+: l ∧ BlankTok bl p) ↔
      ∃ t, t ≠ [] ∧ t <+: (l.dropWhile bl).takeWhile (fun x => !bl x) ∧ p = l.takeWhile bl ++ t := by
  constructor
  · rintro ⟨⟨r, rfl⟩, b, t, rfl, hb, hne, ht⟩
    have h1 := split_unique (r := r) hb hne ht
    rw [List.append_assoc, h1.1, h1.2, List.takeWhile_append_of_pos (nb_all ht)]
    exact ⟨t, hne, ⟨_, rfl⟩, rfl⟩
  · rintro ⟨t, hne, ⟨t', e⟩, rfl⟩
    have hl : l = l.takeWhile bl ++ (t ++ (t' ++ (l.dropWhile bl).dropWhile (fun x => !bl x))) := by
      rw [← List.append_assoc t, e, List.takeWhile_append_dropWhile, List.takeWhile_append_dropWhile]
    refine ⟨⟨t' ++ (l.dropWhile bl).dropWhile (fun x => !bl x), by rw [List.append_assoc]; exact hl.symm⟩,
      l.takeWhile bl, t, rfl, fun x hx => List.all_eq_true.1 List.all_takeWhile x hx, hne, ?_⟩
    intro x hx
    have : x ∈ (l.dropWhile bl).takeWhile (fun x => !bl x) := by rw [← e]; exact List.mem_append_left _ hx
    have := List.all_eq_true.1 List.all_takeWhile x this
    simpa using this

/-- the greedy match: the longest matching prefix -/
theorem blankTok_longest (l : List α) (h : l.dropWhile bl ≠ []) :
    let p := l.takeWhile bl ++ (l.dropWhile bl).takeWhile (fun x => !bl x)
    p <+: l ∧ BlankTok bl p ∧ ∀ p', p' <+: l → BlankTok bl p' → p'.length ≤ p.length := by
  have hne : (l.dropWhile bl).takeWhile (fun x => !bl x) ≠ [] := by
    cases hd : l.dropWhile bl with
    | nil => exact absurd hd h
    | cons x r =>
      have := List.head?_dropWhile_not bl l
      rw [hd] at this
      simp only [List.head?_cons] at this
      simp [this]
  refine ⟨?_, ?_, ?_⟩
  · exact ((blankTok_prefixes l _).2 ⟨_, hne, List.prefix_refl _, rfl⟩).1
  · exact ((blankTok_prefixes l _).2 ⟨_, hne, List.prefix_refl _, rfl⟩).2
  · intro p' hp' hm
    obtain ⟨t, _, ht, rfl⟩ := (blankTok_prefixes l p').1 ⟨hp', hm⟩
    simp only [List.length_append]
    have := ht.length_le
    omega

theorem no_blankTok (l : List α) (h : l.dropWhile bl = []) : ¬ ∃ p, p <+: l ∧ BlankTok bl p := by
  rintro ⟨p, hp, hm⟩
  obtain ⟨t, hne, ⟨t', e⟩, _⟩ := (blankTok_prefixes l p).1 ⟨hp, hm⟩
  rw [h] at e
  simp at e
  exact hne e.1

/-- the model's rewrite, for an arbitrary alphabet -/
def replTok (bl : α → Bool) (l repl : List α) : List α :=
  let lead := l.takeWhile bl
  let rest := l.drop lead.length
  if rest.isEmpty then l else lead ++ repl ++ rest.dropWhile (fun b => !bl b)

theorem drop_takeWhile_length (l : List α) : l.drop (l.takeWhile bl).length = l.dropWhile bl := by
  have h : l = l.takeWhile bl ++ l.dropWhile bl := List.takeWhile_append_dropWhile.symm
  conv => lhs; arg 2; rw [h]
  exact List.drop_left

theorem replTok_none (l repl : List α) (h : ¬ ∃ p, p <+: l ∧ BlankTok bl p) : replTok bl l repl = l := by
  unfold replTok
  simp only [drop_takeWhile_length]
  cases hd : l.dropWhile bl with
  | nil => rfl
  | cons x r =>
    exfalso
    apply h
    have := blankTok_longest l (by rw [hd]; simp)
    exact ⟨_, this.1, this.2.1⟩

/-- if `p` is the longest matching prefix of the line `p ++ r`, the rewrite yields group 1 of the match
(the leading blanks of `p`), the replacement, and the unmatched rest `r` -/
theorem replTok_longest (p r repl : List α) (hm : BlankTok bl p)
    (hmax : ∀ p', p' <+: p ++ r → BlankTok bl p' → p'.length ≤ p.length) :
    replTok bl (p ++ r) repl = p.takeWhile bl ++ repl ++ r := by
  obtain ⟨b, t0, rfl, hb, hne0, ht0⟩ := hm
  have h1 := split_unique (r := r) hb hne0 ht0
  have h3 := split_unique (r := []) hb hne0 ht0
  rw [List.append_nil] at h3
  have hr2 : r.dropWhile (fun x => !bl x) = r := by
    cases r with
    | nil => rfl
    | cons x r' =>
      cases hx : bl x with
      | true => exact List.dropWhile_cons_of_neg (by simp [hx])
      | false =>
        exfalso
        have hpre : (b ++ (t0 ++ [x])) <+: b ++ t0 ++ x :: r' := ⟨r', by simp⟩
        have hbt : BlankTok bl (b ++ (t0 ++ [x])) := by
          refine ⟨b, t0 ++ [x], rfl, hb, by simp, ?_⟩
          intro y hy
          rcases List.mem_append.1 hy with hy | hy
          · exact ht0 y hy
          · simp only [List.mem_singleton] at hy; rw [hy]; exact hx
        have := hmax _ hpre hbt
        simp only [List.length_append, List.length_cons, List.length_nil] at this
        omega
  unfold replTok
  simp only [drop_takeWhile_length]
  rw [List.append_assoc, h1.1, h1.2, h3.1]
  cases htr : t0 ++ r with
  | nil =>
    have : t0 = [] := (List.append_eq_nil_iff.1 htr).1
    exact absurd this hne0
  | cons x y =>
    rw [← htr, List.dropWhile_append_of_pos (nb_all ht0), hr2, htr]
    rfl

theorem split_agree (hbl : ∀ x, bl x = true ↔ (f x = 32 ∨ f x = 9)) {wt : List Nat} {t : List α}
    (hwne : wt ≠ []) (hwt : ∀ a ∈ wt, ¬ (a = 32 ∨ a = 9)) (hne : t ≠ []) (ht : ∀ x ∈ t, bl x = false) :
    ∀ (wb : List Nat) (b : List α), (∀ a ∈ wb, a = 32 ∨ a = 9) → (∀ x ∈ b, bl x = true) →
      wb ++ wt = b.map f ++ t.map f → wb = b.map f ∧ wt = t.map f := by
  intro wb
  induction wb with
  | nil =>
    intro b _ hb he
    cases b with
    | nil => exact ⟨rfl, by simpa using he⟩
    | cons x b =>
      exfalso
      cases wt with
      | nil => exact hwne rfl
      | cons a wt =>
        simp only [List.nil_append, List.map_cons, List.cons_append, List.cons.injEq] at he
        have h1 := hwt a (by simp)
        rw [he.1] at h1
        exact h1 ((hbl x).1 (hb x (by simp)))
  | cons a wb ih =>
    intro b hwb hb he
    cases b with
    | nil =>
      exfalso
      cases t with
      | nil => exact hne rfl
      | cons x t =>
        simp only [List.map_nil, List.nil_append, List.map_cons, List.cons_append, List.cons.injEq] at he
        have h1 := hwb a (by simp)
        rw [he.1] at h1
        have := (hbl x).2 h1
        rw [ht x (by simp)] at this; cases this
    | cons x b =>
      simp only [List.map_cons, List.cons_append, List.cons.injEq] at he
      have := ih b (fun a ha => hwb a (by simp [ha])) (fun y hy => hb y (by simp [hy])) he.2
      exact ⟨by rw [he.1, this.1]; rfl, this.2⟩

/-- the marked words over a given word: exactly one, with group 1 = the leading blanks -/
theorem pause_marked_map (hf : ∀ x, f x < maxRune) (hbl : ∀ x, bl x = true ↔ (f x = 32 ∨ f x = 9)) (l : List α) (m : List Nat) :
    (Matches env (mark Expect.pauseValue) m ∧ erase m = l.map f) ↔
      (BlankTok bl l ∧ m = openSym 1 :: (l.takeWhile bl).map f ++ closeSym 1 :: (l.dropWhile bl).map f) := by
  rw [pauseValue_marked_word]
  constructor
  · rintro ⟨⟨wb, wt, rfl, hb, hne, ht⟩, he⟩
    have e1 : erase (grp 1 wb ++ wt) = wb ++ wt := by
      rw [erase_append, erase_grp, erase_of_lt, erase_of_lt]
      · intro a ha; exact (ht a ha).1
      · intro a ha; rcases hb a ha with rfl | rfl <;> decide
    rw [e1] at he
    have hm : Matches env Expect.pauseValue (l.map f) := by
      rw [← he]; exact (pauseValue_word _).2 ⟨wb, wt, rfl, hb, hne, ht⟩
    have hbt := (pause_map hf hbl l).1 hm
    refine ⟨hbt, ?_⟩
    obtain ⟨b, t, rfl, hb', hne', ht'⟩ := hbt
    have h3 := split_unique (r := []) hb' hne' ht'
    rw [List.append_nil] at h3
    rw [h3.1, h3.2]
    rw [List.map_append] at he
    have key := split_agree hbl hne (fun a ha => (ht a ha).2) hne' ht' wb b hb hb' he
    rw [key.1, key.2]
    simp [grp]
  · rintro ⟨hbt, rfl⟩
    obtain ⟨b, t, rfl, hb, hne, ht⟩ := hbt
    have h3 := split_unique (r := []) hb hne ht
    rw [List.append_nil] at h3
    rw [h3.1, h3.2]
    have hbc : ∀ a ∈ b.map f, a = 32 ∨ a = 9 := by
      intro a ha
      obtain ⟨x, hx, rfl⟩ := List.mem_map.1 ha
      exact (hbl x).1 (hb x hx)
    have htc : ∀ a ∈ t.map f, a < maxRune ∧ ¬ (a = 32 ∨ a = 9) := by
      intro a ha
      obtain ⟨x, hx, rfl⟩ := List.mem_map.1 ha
      refine ⟨hf x, ?_⟩
      intro h
      have := (hbl x).2 h
      rw [ht x hx] at this; cases this
    refine ⟨⟨b.map f, t.map f, by simp [grp], hbc, ?_, htc⟩, ?_⟩
    · intro h; exact hne (List.map_eq_nil_iff.1 h)
    · have : openSym 1 :: List.map f b ++ closeSym 1 :: List.map f t = grp 1 (b.map f) ++ t.map f := by simp [grp]
      rw [this, erase_append, erase_grp, erase_of_lt, erase_of_lt, List.map_append]
      · intro a ha; exact (htc a ha).1
      · intro a ha; rcases hbc a ha with rfl | rfl <;> decide

end Generic

/-! ### Strings -/

theorem isSpTab_code (c : Char) : isSpTab c = true ↔ (c.toNat = 32 ∨ c.toNat = 9) := by
  simp only [isSpTab, Bool.or_eq_true, beq_iff_eq, ← Char.toNat_inj]
  rfl

theorem pauseValue_shape (s : List Char) :
    Matches env Expect.pauseValue (codes s) ↔
      ∃ b t, s = b ++ t ∧ (∀ c ∈ b, isSpTab c = true) ∧ t ≠ [] ∧ ∀ c ∈ t, isSpTab c = false :=
  pause_map toNat_lt_maxRune isSpTab_code s

theorem pauseValue_prefixes (l p : List Char) :
    (p <+: l ∧ Matches env Expect.pauseValue (codes p)) ↔
      ∃ t, t ≠ [] ∧ t <+: (l.dropWhile isSpTab).takeWhile (fun c => !isSpTab c) ∧ p = l.takeWhile isSpTab ++ t := by
  rw [show codes p = p.map Char.toNat from rfl, pause_map toNat_lt_maxRune isSpTab_code p]
  exact blankTok_prefixes l p

theorem pauseValue_longest (l : List Char) (h : l.dropWhile isSpTab ≠ []) :
    l.takeWhile isSpTab ++ (l.dropWhile isSpTab).takeWhile (fun c => !isSpTab c) <+: l ∧
    Matches env Expect.pauseValue (codes (l.takeWhile isSpTab ++ (l.dropWhile isSpTab).takeWhile (fun c => !isSpTab c))) ∧
    ∀ p', p' <+: l → Matches env Expect.pauseValue (codes p') →
      p'.length ≤ (l.takeWhile isSpTab ++ (l.dropWhile isSpTab).takeWhile (fun c => !isSpTab c)).length := by
  have := blankTok_longest l h
  refine ⟨this.1, (pause_map toNat_lt_maxRune isSpTab_code _).2 this.2.1, ?_⟩
  intro p' hp hm
  exact this.2.2 p' hp ((pause_map toNat_lt_maxRune isSpTab_code p').1 hm)

theorem pauseValue_no_match (l : List Char) (h : l.dropWhile isSpTab = []) :
    ¬ ∃ p, p <+: l ∧ Matches env Expect.pauseValue (codes p) := by
  rintro ⟨p, hp, hm⟩
  exact no_blankTok l h ⟨p, hp, (pause_map toNat_lt_maxRune isSpTab_code p).1 hm⟩

theorem pauseValue_marked (p : List Char) (m : List Nat) :
    (Matches env (mark Expect.pauseValue) m ∧ erase m = codes p) ↔
      (Matches env Expect.pauseValue (codes p) ∧
        m = openSym 1 :: codes (p.takeWhile isSpTab) ++ closeSym 1 :: codes (p.dropWhile isSpTab)) := by
  rw [show codes p = p.map Char.toNat from rfl, pause_map toNat_lt_maxRune isSpTab_code p]
  exact pause_marked_map toNat_lt_maxRune isSpTab_code p m

/-! ### Byte lines -/

theorem byte_lt (b : UInt8) : b.toNat < maxRune := by
  have := b.toNat_lt
  unfold maxRune; omega

theorem isBlankByte_code (b : UInt8) : isBlankByte b = true ↔ (b.toNat = 32 ∨ b.toNat = 9) := by
  simp only [isBlankByte, SP, TAB, Bool.or_eq_true, beq_iff_eq, ← UInt8.toNat_inj]
  rfl

theorem replaceFirstToken_eq (text repl : Bytes) : replaceFirstToken text repl = replTok isBlankByte text repl := rfl

theorem pauseValue_bytes_shape (p : Bytes) :
    Matches env Expect.pauseValue (p.map UInt8.toNat) ↔
      ∃ b t, p = b ++ t ∧ (∀ x ∈ b, isBlankByte x = true) ∧ t ≠ [] ∧ ∀ x ∈ t, isBlankByte x = false :=
  pause_map byte_lt isBlankByte_code p

theorem pauseValue_bytes_marked (p : Bytes) (m : List Nat) :
    (Matches env (mark Expect.pauseValue) m ∧ erase m = p.map UInt8.toNat) ↔
      (Matches env Expect.pauseValue (p.map UInt8.toNat) ∧
        m = openSym 1 :: (p.takeWhile isBlankByte).map UInt8.toNat ++ closeSym 1 :: (p.dropWhile isBlankByte).map UInt8.toNat) := by
  rw [pause_map byte_lt isBlankByte_code p]
  exact pause_marked_map byte_lt isBlankByte_code p m

theorem pause_replace_longest (p r repl : Bytes) (hm : Matches env Expect.pauseValue (p.map UInt8.toNat))
    (hmax : ∀ p', p' <+: p ++ r → Matches env Expect.pauseValue (p'.map UInt8.toNat) → p'.length ≤ p.length) :
    replaceFirstToken (p ++ r) repl = p.takeWhile isBlankByte ++ repl ++ r := by
  rw [replaceFirstToken_eq]
  apply replTok_longest p r repl ((pause_map byte_lt isBlankByte_code p).1 hm)
  intro p' hp hbt
  exact hmax p' hp ((pause_map byte_lt isBlankByte_code p').2 hbt)

theorem pause_replace_none (text repl : Bytes)
    (h : ¬ ∃ p, p <+: text ∧ Matches env Expect.pauseValue (p.map UInt8.toNat)) :
    replaceFirstToken text repl = text := by
  rw [replaceFirstToken_eq]
  apply replTok_none
  rintro ⟨p, hp, hbt⟩
  exact h ⟨p, hp, (pause_map byte_lt isBlankByte_code p).2 hbt⟩

end KlogV.RxM
