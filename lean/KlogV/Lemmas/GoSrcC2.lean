/- Helper lemmas for KlogV/Lemmas/GoSrcC.lean: `NewDurationWithFormat`, `atoi` trichotomy. Core Lean only. -/
import KlogV.Lemmas.GoSrcC1
namespace KlogV.GoL.C
open KlogV.Go

theorem ndwf_spec (a b : Int) (f : GoSrc.DurationFormat) :
    (GoSrc.NewDurationWithFormat a b f).res =
      match safeMul a 60 with
      | .ok hm => (match safeAdd hm b with
        | .ok tot => .ok ⟨tot, f⟩
        | _ => .panic)
      | _ => .panic := by
  simp only [GoSrc.NewDurationWithFormat, safemathMultiply, safemathAdd]
  cases h1 : safeMul a 60 <;> simp only [pure_eq, throw_eq, try2, ok_bind]
  · rename_i x
    cases h2 : safeAdd x b <;> simp [ok_bind, err_bind, isNil, GNil.isNil, G.res]
  · cases h2 : safeAdd default b <;> simp [ok_bind, err_bind, isNil, GNil.isNil, G.res]
  · cases h2 : safeAdd default b <;> simp [ok_bind, err_bind, isNil, GNil.isNil, G.res]


theorem try2_atoi_nil : try2 (Go.atoi []) = .ok ((0 : Int), some (.err "strconv.Atoi: invalid syntax")) := rfl

theorem try2_atoi_ok (ds : List Char) (hne : ds ≠ []) (hd : ds.all isDigit = true) (h : (digitsVal ds : Int) ≤ maxInt) :
    try2 (Go.atoi ds) = .ok ((digitsVal ds : Int), none) ∧ KlogV.atoi ds = .ok (digitsVal ds : Int) := by
  have h' : (digitsVal ds : Int) ≤ 9223372036854775807 := h
  constructor
  · rw [atoi_digits ds hne hd, if_pos h']; rfl
  · show (if (digitsVal ds : Int) ≤ maxInt then _ else _) = _
    rw [if_pos h]

theorem try2_atoi_big (ds : List Char) (hne : ds ≠ []) (hd : ds.all isDigit = true) (h : ¬ (digitsVal ds : Int) ≤ maxInt) :
    try2 (Go.atoi ds) = .ok ((0 : Int), some (.err "strconv.Atoi: value out of range")) ∧ KlogV.atoi ds = .panic := by
  have h' : ¬ (digitsVal ds : Int) ≤ 9223372036854775807 := h
  constructor
  · rw [atoi_digits ds hne hd, if_neg h']; rfl
  · show (if (digitsVal ds : Int) ≤ maxInt then _ else _) = _
    rw [if_neg h]

theorem atoi_tri (ds : List Char) (hd : ds.all isDigit = true) :
    (ds = [] ∧ ∃ v : Nat, (v : Int) ≤ maxInt ∧
      try2 (Go.atoi ds) = .ok ((v : Int), some (.err "strconv.Atoi: invalid syntax")) ∧
      (if ds.isEmpty then Res.ok 0 else KlogV.atoi ds) = Res.ok (v : Int)) ∨
    (∃ c cs, ds = c :: cs ∧ ∃ v : Nat, (v : Int) ≤ maxInt ∧
      try2 (Go.atoi ds) = .ok ((v : Int), none) ∧
      (if ds.isEmpty then Res.ok 0 else KlogV.atoi ds) = Res.ok (v : Int)) ∨
    (∃ c cs, ds = c :: cs ∧ ∃ v : Nat, (v : Int) ≤ maxInt ∧
      try2 (Go.atoi ds) = .ok ((v : Int), some (.err "strconv.Atoi: value out of range")) ∧
      (if ds.isEmpty then Res.ok 0 else KlogV.atoi ds) = Res.panic) := by
  cases ds with
  | nil => exact .inl ⟨rfl, 0, by decide, rfl, rfl⟩
  | cons c cs =>
    by_cases h : (digitsVal (c :: cs) : Int) ≤ maxInt
    · have := try2_atoi_ok (c :: cs) (by simp) hd h
      exact .inr (.inl ⟨c, cs, rfl, _, h, this.1, this.2⟩)
    · have := try2_atoi_big (c :: cs) (by simp) hd h
      exact .inr (.inr ⟨c, cs, rfl, 0, by decide, this.1, this.2⟩)

theorem mul_one_nat (v : Nat) (h : (v : Int) ≤ maxInt) : mul 1 (v : Int) = v := by
  unfold maxInt at h
  show wrap _ = _
  unfold wrap; omega

theorem mul_neg1_nat (v : Nat) (h : (v : Int) ≤ maxInt) : mul (neg 1) (v : Int) = -v := by
  unfold maxInt at h
  rw [neg1]
  show wrap _ = _
  unfold wrap; omega

theorem mul_m1_nat (v : Nat) (h : (v : Int) ≤ maxInt) : mul (-1) (v : Int) = -v := by
  rw [← neg1]; exact mul_neg1_nat v h


end KlogV.GoL.C
