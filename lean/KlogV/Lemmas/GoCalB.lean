/- Helper lemmas for KlogV/Props/GoCal.lean (the translated date / period code computes the model's calendar), part B. Core Lean only. -/
import KlogV.GoSem.AbsCal
import KlogV.Lemmas.GoCalB5
namespace KlogV.GoL
open KlogV.Go KlogV.GoL.B

theorem week_period_eq (x : Date) (h : x.valid = true) :
    (GoCal.Week.Period ⟨x.toGo⟩).res = match weekPeriod x with | some p => .ok p.toGo | none => .panic := by
  rw [week_period_go x h]
  cases weekPeriod x <;> rfl

theorem month_period_eq (x : Date) (h : x.valid = true) :
    (GoCal.Month.Period ⟨x.toGo⟩).res = .ok (monthPeriod x).toGo := by
  rw [month_period_go x h]; rfl

theorem quarter_period_eq (x : Date) (h : x.valid = true) :
    (GoCal.Quarter.Period ⟨x.toGo⟩).res = .ok (quarterPeriod x).toGo := by
  rw [quarter_period_go x h]; rfl

theorem year_period_eq (x : Date) (h : x.valid = true) :
    (GoCal.Year.Period ⟨x.toGo⟩).res = .ok (yearPeriod x).toGo := by
  rw [year_period_go x h]; rfl

theorem week_previous_eq (x : Date) (h : x.valid = true) :
    (GoCal.Week.Previous ⟨x.toGo⟩).res = match previousDate .week x with | some r => .ok ⟨r.toGo⟩ | none => .panic := by
  rw [week_previous_go x h]
  unfold previousDate
  simp only
  cases x.plusDays (-7) <;> rfl

theorem month_previous_eq (x : Date) (h : x.valid = true) :
    (GoCal.Month.Previous ⟨x.toGo⟩).res = match previousDate .month x with | some r => .ok ⟨r.toGo⟩ | none => .panic := by
  rw [month_previous_go x h]
  cases previousDate .month x <;> rfl

theorem quarter_previous_eq (x : Date) (h : x.valid = true) :
    (GoCal.Quarter.Previous ⟨x.toGo⟩).res = match previousDate .quarter x with | some r => .ok ⟨r.toGo⟩ | none => .panic := by
  rw [quarter_previous_go x h]
  cases previousDate .quarter x <;> rfl

theorem year_previous_eq (x : Date) (h : x.valid = true) :
    (GoCal.Year.Previous ⟨x.toGo⟩).res = match previousDate .year x with | some r => .ok ⟨r.toGo⟩ | none => .panic := by
  rw [year_previous_go x h]
  cases previousDate .year x <;> rfl

end KlogV.GoL
