/- Lemmas about evaluation: time offsets, checked sums, totals, closing open ranges. -/
import KlogV.Model.Eval
namespace KlogV

/-! ## Time offsets -/

theorem Time.offset_spec (t : Time) (h : t.wf = true) :
    t.offset = 1440 * t.shift + 60 * t.h + t.min := by
  unfold Time.wf at h
  simp only [Bool.and_eq_true, Bool.or_eq_true, decide_eq_true_eq, beq_iff_eq] at h
  obtain ⟨_, hs⟩ := h
  unfold Time.offset
  rcases hs with (hs | hs) | hs <;> rw [hs] <;> simp <;> omega

/-! ## Checked sums -/

theorem safeAdd_ok_of_inRange (a b : Int) (ha : inRange a = true) (hb : inRange b = true)
    (hab : inRange (a + b) = true) : safeAdd a b = .ok (a + b) := by
  simp [safeAdd, ha, hb, hab]

theorem foldl_safeAdd_ok (xs : List Int) :
    ∀ (a : Int), inRange a = true → (∀ n, inRange (a + (xs.take n).sum) = true) →
      (∀ x ∈ xs, inRange x = true) →
      xs.foldl (fun (acc : Res Int) x => acc.bind (fun a => safeAdd a x)) (Res.ok a)
        = Res.ok (a + xs.sum) := by
  induction xs with
  | nil => intro a _ _ _; simp
  | cons x xs ih =>
    intro a ha h hx
    have h1 : inRange (a + x) = true := by
      have := h 1
      simpa using this
    have hs : safeAdd a x = .ok (a + x) := safeAdd_ok_of_inRange a x ha (hx x (by simp)) h1
    have hb : (Res.ok a).bind (fun a => safeAdd a x) = Res.ok (a + x) := hs
    rw [List.foldl_cons, hb, ih (a + x) h1]
    · simp [Int.add_assoc]
    · intro n
      have := h (n + 1)
      simpa [Int.add_assoc] using this
    · intro y hy
      exact hx y (by simp [hy])

theorem sumRes_ok' (xs : List Int) (h : ∀ n, inRange ((xs.take n).sum) = true)
    (hx : ∀ x ∈ xs, inRange x = true) : sumRes xs = .ok xs.sum := by
  unfold sumRes
  rw [foldl_safeAdd_ok xs 0 (by decide) (by simpa using h) hx]
  simp

/-! ## Totals -/

theorem totalMins_cons (r : Record) (rs : List Record) :
    totalMins (r :: rs) = (r.entries.map Entry.minutes).sum + totalMins rs := by
  simp [totalMins, Record.total]

theorem totalMins_append (a b : List Record) : totalMins (a ++ b) = totalMins a + totalMins b := by
  induction a with
  | nil => simp [totalMins]
  | cons r rs ih =>
    rw [List.cons_append, totalMins_cons, totalMins_cons, ih, Int.add_assoc]

theorem sum_flatMap_minutes (rs : List Record) :
    (rs.flatMap (fun r => r.entries.map Entry.minutes)).sum = totalMins rs := by
  induction rs with
  | nil => simp [totalMins]
  | cons r rs ih =>
    rw [List.flatMap_cons, List.sum_append, ih, totalMins_cons]

theorem totalRes_eq (rs : List Record)
    (h : ∀ n, inRange (((rs.flatMap (fun r => r.entries.map Entry.minutes)).take n).sum) = true)
    (hx : ∀ x ∈ rs.flatMap (fun r => r.entries.map Entry.minutes), inRange x = true) :
    totalRes rs = .ok (totalMins rs) := by
  unfold totalRes
  rw [sumRes_ok' _ h hx, sum_flatMap_minutes]

theorem shouldRes_eq (rs : List Record)
    (h : ∀ n, inRange (((rs.map Record.shouldMins).take n).sum) = true)
    (hx : ∀ x ∈ rs.map Record.shouldMins, inRange x = true) :
    shouldRes rs = .ok (shouldSum rs) := by
  unfold shouldRes shouldSum
  exact sumRes_ok' _ h hx

theorem inRange_neg (s : Int) (hs : inRange s = true) : inRange (-s) = true := by
  simp only [inRange, Bool.and_eq_true, decide_eq_true_eq] at *
  omega

theorem diffRes_eq (s t : Int) (hs : inRange s = true) (ht : inRange t = true)
    (hd : inRange (t - s) = true) : diffRes s t = .ok (t - s) := by
  unfold diffRes
  rw [safeAdd_ok_of_inRange t (-s) ht (inRange_neg s hs) (by simpa [Int.sub_eq_add_neg] using hd)]
  simp [Int.sub_eq_add_neg]

/-! ## Closing one open range -/

theorem endOpenRange_spec (e : Time) (es es' : List Entry) (h : endOpenRange e es = some es') :
    ∃ (pre post : List Entry) (s : Time) (sp : Bool) (x : Nat) (sm : List (List Char)),
      es = pre ++ ⟨.openRange s sp x, sm⟩ :: post ∧ es' = pre ++ ⟨.range s e true, sm⟩ :: post ∧
      s.offset ≤ e.offset ∧ (∀ p ∈ pre, isOpen p.val = false) ∧
      (es'.map Entry.minutes).sum = (es.map Entry.minutes).sum + (e.offset - s.offset) := by
  induction es generalizing es' with
  | nil => simp [endOpenRange] at h
  | cons a as ih =>
    obtain ⟨v, sm⟩ := a
    cases v with
    | openRange s sp x =>
      simp only [endOpenRange] at h
      split at h
      · rename_i hge
        injection h with h
        subst h
        refine ⟨[], as, s, sp, x, sm, rfl, rfl, ?_, by simp, ?_⟩
        · simpa [Time.afterOrEqual] using hge
        · simp [Entry.minutes, EntryVal.minutes]
          omega
      · cases h
    | range s t b =>
      simp only [endOpenRange, Option.map_eq_some_iff] at h
      obtain ⟨es'', h1, h2⟩ := h
      obtain ⟨pre, post, s', sp, x, sm', e1, e2, e3, e4, e5⟩ := ih es'' h1
      subst h2
      refine ⟨⟨.range s t b, sm⟩ :: pre, post, s', sp, x, sm', by simp [e1], by simp [e2], e3, ?_, ?_⟩
      · intro p hp
        rcases List.mem_cons.1 hp with rfl | hp
        · rfl
        · exact e4 p hp
      · simp only [List.map_cons, List.sum_cons, e5]
        omega
    | dur d =>
      simp only [endOpenRange, Option.map_eq_some_iff] at h
      obtain ⟨es'', h1, h2⟩ := h
      obtain ⟨pre, post, s', sp, x, sm', e1, e2, e3, e4, e5⟩ := ih es'' h1
      subst h2
      refine ⟨⟨.dur d, sm⟩ :: pre, post, s', sp, x, sm', by simp [e1], by simp [e2], e3, ?_, ?_⟩
      · intro p hp
        rcases List.mem_cons.1 hp with rfl | hp
        · rfl
        · exact e4 p hp
      · simp only [List.map_cons, List.sum_cons, e5]
        omega

theorem endOpenRange_none_iff (e : Time) (es : List Entry) :
    endOpenRange e es = none ↔ (∀ x ∈ es, isOpen x.val = false) ∨
      (∃ pre post s sp x sm, es = pre ++ ⟨.openRange s sp x, sm⟩ :: post ∧
        (∀ p ∈ pre, isOpen p.val = false) ∧ e.offset < s.offset) := by
  induction es with
  | nil => simp [endOpenRange]
  | cons a as ih =>
    obtain ⟨v, sm⟩ := a
    have hclosed : isOpen v = false →
        (endOpenRange e (⟨v, sm⟩ :: as) = none ↔ endOpenRange e as = none) := by
      intro hv
      cases v with
      | openRange s sp x => simp [isOpen] at hv
      | range s t b => simp [endOpenRange]
      | dur d => simp [endOpenRange]
    by_cases hv : isOpen v = false
    · rw [hclosed hv, ih]
      constructor
      · rintro (h | ⟨pre, post, s, sp, x, sm', e1, e2, e3⟩)
        · left
          intro y hy
          rcases List.mem_cons.1 hy with rfl | hy
          · exact hv
          · exact h y hy
        · right
          refine ⟨⟨v, sm⟩ :: pre, post, s, sp, x, sm', by simp [e1], ?_, e3⟩
          intro p hp
          rcases List.mem_cons.1 hp with rfl | hp
          · exact hv
          · exact e2 p hp
      · rintro (h | ⟨pre, post, s, sp, x, sm', e1, e2, e3⟩)
        · left
          intro y hy
          exact h y (List.mem_cons_of_mem _ hy)
        · right
          cases pre with
          | nil =>
            simp only [List.nil_append, List.cons.injEq, Entry.mk.injEq] at e1
            rw [e1.1.1] at hv
            simp [isOpen] at hv
          | cons p pre =>
            simp only [List.cons_append, List.cons.injEq] at e1
            exact ⟨pre, post, s, sp, x, sm', e1.2, fun q hq => e2 q (List.mem_cons_of_mem _ hq), e3⟩
    · cases v with
      | range s t b => simp [isOpen] at hv
      | dur d => simp [isOpen] at hv
      | openRange s sp x =>
        simp only [endOpenRange]
        by_cases hge : e.afterOrEqual s = true
        · rw [if_pos hge]
          have hge' : s.offset ≤ e.offset := by simpa [Time.afterOrEqual] using hge
          constructor
          · intro h; cases h
          · rintro (h | ⟨pre, post, s', sp', x', sm', e1, e2, e3⟩)
            · have := h ⟨.openRange s sp x, sm⟩ (by simp)
              simp [isOpen] at this
            · cases pre with
              | nil =>
                simp only [List.nil_append, List.cons.injEq, Entry.mk.injEq,
                  EntryVal.openRange.injEq] at e1
                obtain ⟨⟨⟨rfl, _, _⟩, _⟩, _⟩ := e1
                omega
              | cons p pre =>
                simp only [List.cons_append, List.cons.injEq] at e1
                have := e2 p (by simp)
                rw [← e1.1] at this
                simp [isOpen] at this
        · rw [if_neg hge]
          have hlt : e.offset < s.offset := by
            simp only [Time.afterOrEqual, ge_iff_le, decide_eq_true_eq] at hge
            omega
          refine ⟨fun _ => Or.inr ⟨[], as, s, sp, x, sm, rfl, by simp, hlt⟩, fun _ => rfl⟩

/-! ## Closing open ranges in a list of records -/

/-- The per-record step of `closeOpenRanges` (a top-level copy of its local `step`). -/
def stepFn (now : Instant) (dayBefore : Date) (acc : Res (List Record × Bool)) (r : Record) :
    Res (List Record × Bool) :=
  acc.bind fun (done, closed) =>
    if !r.hasOpen then .ok (done ++ [r], closed) else
    let endT : Option Time :=
      if r.date.sameDay now.date then some now.time
      else if r.date.sameDay dayBefore then now.time.plus 1440
      else none
    match endT with
    | none => .err
    | some e => match endOpenRange e r.entries with
      | none => .err
      | some es => .ok (done ++ [{ r with entries := es }], true)

theorem closeOpenRanges_eq (now : Instant) (rs : List Record) (y : Date)
    (hy : now.date.plusDays (-1) = some y) :
    closeOpenRanges now rs = rs.foldl (stepFn now y) (.ok ([], false)) := by
  unfold closeOpenRanges
  rw [hy]
  rfl

theorem foldl_stepFn_err (now : Instant) (y : Date) (rs : List Record) :
    rs.foldl (stepFn now y) .err = .err := by
  induction rs with
  | nil => rfl
  | cons r rs ih => simpa [stepFn, Res.bind] using ih

/-- One step either refuses or appends one record with the same date, which is the old record
when that has no open range. -/
theorem stepFn_ok (now : Instant) (y : Date) (done : List Record) (c : Bool) (r : Record) :
    stepFn now y (.ok (done, c)) r = .err ∨
    ∃ r' c', stepFn now y (.ok (done, c)) r = .ok (done ++ [r'], c') ∧ r'.date = r.date ∧
      (r.hasOpen = false → r' = r) := by
  simp only [stepFn, Res.bind]
  by_cases ho : r.hasOpen = false
  · right
    exact ⟨r, c, by simp [ho], rfl, fun _ => rfl⟩
  · have ho' : r.hasOpen = true := by simpa using ho
    simp only [ho', Bool.not_true, Bool.false_eq_true, if_false]
    split
    · left; rfl
    · split
      · left; rfl
      · rename_i es _
        right
        exact ⟨{ r with entries := es }, true, rfl, rfl, fun h => by cases h⟩

theorem foldl_stepFn_spec (now : Instant) (y : Date) (rs : List Record) :
    ∀ (done : List Record) (c : Bool),
      rs.foldl (stepFn now y) (.ok (done, c)) ≠ .panic ∧
      ∀ rs' c', rs.foldl (stepFn now y) (.ok (done, c)) = .ok (rs', c') →
        ∃ new : List Record, rs' = done ++ new ∧ new.length = rs.length ∧
          ∀ i (hi : i < rs.length) (hi' : i < new.length),
            (new[i]).date = (rs[i]).date ∧ ((rs[i]).hasOpen = false → new[i] = rs[i]) := by
  induction rs with
  | nil =>
    intro done c
    refine ⟨by simp, ?_⟩
    intro rs' c' h
    simp only [List.foldl_nil, Res.ok.injEq, Prod.mk.injEq] at h
    exact ⟨[], by simp [h.1], rfl, fun i hi => absurd hi (by simp)⟩
  | cons r rs ih =>
    intro done c
    rw [List.foldl_cons]
    rcases stepFn_ok now y done c r with he | ⟨r', c'', he, hd, hu⟩
    · rw [he, foldl_stepFn_err]
      exact ⟨by simp, fun rs' c' h => by cases h⟩
    · rw [he]
      obtain ⟨hp, hok⟩ := ih (done ++ [r']) c''
      refine ⟨hp, ?_⟩
      intro rs' c' h
      obtain ⟨new, e1, e2, e3⟩ := hok rs' c' h
      refine ⟨r' :: new, by simp [e1], by simp [e2], ?_⟩
      intro i hi hi'
      cases i with
      | zero => exact ⟨hd, hu⟩
      | succ i =>
        simp only [List.getElem_cons_succ]
        exact e3 i (by simpa using hi) (by simpa using hi')

theorem closeOpenRanges_spec (now : Instant) (rs : List Record) (y : Date)
    (hy : now.date.plusDays (-1) = some y) :
    closeOpenRanges now rs ≠ .panic ∧
    (∀ rs' c, closeOpenRanges now rs = .ok (rs', c) → rs'.length = rs.length ∧
      ∀ i (hi : i < rs.length) (hi' : i < rs'.length),
        (rs'[i]).date = (rs[i]).date ∧ ((rs[i]).hasOpen = false → rs'[i] = rs[i])) := by
  rw [closeOpenRanges_eq now rs y hy]
  obtain ⟨hp, hok⟩ := foldl_stepFn_spec now y rs [] false
  refine ⟨hp, ?_⟩
  intro rs' c h
  obtain ⟨new, e1, e2, e3⟩ := hok rs' c h
  simp only [List.nil_append] at e1
  subst e1
  exact ⟨e2, fun i hi hi' => e3 i hi hi'⟩

end KlogV
