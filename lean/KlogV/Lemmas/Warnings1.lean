/- Helper lemmas for KlogV/Lemmas/Warnings.lean: the fold of `checkWarnings`, step by step. -/
import KlogV.Model.Warnings
import KlogV.Lemmas.Calendar
import KlogV.Lemmas.Report
namespace KlogV

/-- the unclosed-open-range checker as `checkWarnings` calls it -/
def wU (now : Instant) (dis : Disabled) (seen : Bool) (r : Record) : Res (Bool × Bool) :=
  if dis.unclosed then Res.ok (false, seen) else warnUnclosed now.date seen r
def wF (now : Instant) (dis : Disabled) (r : Record) : Res Bool :=
  if dis.future then Res.ok false else warnFuture now r
def wO (dis : Disabled) (r : Record) : Bool := if dis.overlapping then false else warnOverlap r
def wM (dis : Disabled) (r : Record) : Res Bool :=
  if dis.moreThan24h then Res.ok false else warnMoreThan24h r

/-- what one record adds to the output -/
def wOut (out : List (Date × WarnKind)) (d : Date) (w1 w2 w3 w4 : Bool) : List (Date × WarnKind) :=
  out ++ (if w1 then [(d, WarnKind.unclosedOpenRange)] else [])
      ++ (if w2 then [(d, WarnKind.futureEntries)] else [])
      ++ (if w3 then [(d, WarnKind.overlappingRanges)] else [])
      ++ (if w4 then [(d, WarnKind.moreThan24h)] else [])

/-- the step function of `checkWarnings` -/
def wstep (now : Instant) (dis : Disabled) (acc : Res (List (Date × WarnKind) × Bool)) (r : Record) :
    Res (List (Date × WarnKind) × Bool) :=
  acc.bind fun (out, seen) =>
    (wU now dis seen r).bind fun (w1, seen') =>
    (wF now dis r).bind fun w2 =>
    (wM dis r).bind fun w4 =>
      .ok (wOut out r.date w1 w2 (wO dis r) w4, seen')

theorem checkWarnings_eq (now : Instant) (dis : Disabled) (rs : List Record) :
    checkWarnings now dis rs =
      ((sortRecords false rs).foldl (wstep now dis) (.ok ([], false))).map (·.1) := rfl

theorem mem_wOut (w : Date × WarnKind) (out : List (Date × WarnKind)) (d : Date) (w1 w2 w3 w4 : Bool) :
    w ∈ wOut out d w1 w2 w3 w4 ↔
      (w ∈ out ∨ (w1 = true ∧ w = (d, WarnKind.unclosedOpenRange)) ∨ (w2 = true ∧ w = (d, WarnKind.futureEntries)) ∨
        (w3 = true ∧ w = (d, WarnKind.overlappingRanges)) ∨ (w4 = true ∧ w = (d, WarnKind.moreThan24h))) := by
  unfold wOut
  cases w1 <;> cases w2 <;> cases w3 <;> cases w4 <;> simp

theorem wstep_ok (now : Instant) (dis : Disabled) (out : List (Date × WarnKind)) (seen : Bool) (r : Record)
    (w1 s1 w2 w4 : Bool) (hU : wU now dis seen r = .ok (w1, s1)) (hF : wF now dis r = .ok w2)
    (hM : wM dis r = .ok w4) :
    wstep now dis (.ok (out, seen)) r = .ok (wOut out r.date w1 w2 (wO dis r) w4, s1) := by
  simp only [wstep, Res.bind, hU, hF, hM]

theorem wstep_ok_inv (now : Instant) (dis : Disabled) (out out2 : List (Date × WarnKind)) (seen seen2 : Bool)
    (r : Record) (h : wstep now dis (.ok (out, seen)) r = .ok (out2, seen2)) :
    ∃ w1 w2 w4, wU now dis seen r = .ok (w1, seen2) ∧ wF now dis r = .ok w2 ∧ wM dis r = .ok w4 ∧
      out2 = wOut out r.date w1 w2 (wO dis r) w4 := by
  simp only [wstep, Res.bind] at h
  cases hU : wU now dis seen r with
  | err => simp [hU] at h
  | panic => simp [hU] at h
  | ok p =>
    obtain ⟨w1, s1⟩ := p
    cases hF : wF now dis r with
    | err => simp [hU, hF] at h
    | panic => simp [hU, hF] at h
    | ok w2 =>
      cases hM : wM dis r with
      | err => simp [hU, hF, hM] at h
      | panic => simp [hU, hF, hM] at h
      | ok w4 =>
        simp only [hU, hF, hM, Res.ok.injEq, Prod.mk.injEq] at h
        exact ⟨w1, w2, w4, by rw [h.2], rfl, rfl, h.1.symm⟩

theorem wfold_err (now : Instant) (dis : Disabled) (l : List Record) :
    l.foldl (wstep now dis) .err = .err := by
  induction l with
  | nil => rfl
  | cons r l ih => simpa [List.foldl_cons, wstep, Res.bind] using ih

theorem wfold_panic (now : Instant) (dis : Disabled) (l : List Record) :
    l.foldl (wstep now dis) .panic = .panic := by
  induction l with
  | nil => rfl
  | cons r l ih => simpa [List.foldl_cons, wstep, Res.bind] using ih

theorem wfold_cons_inv (now : Instant) (dis : Disabled) (r : Record) (l : List Record)
    (out o' : List (Date × WarnKind)) (seen s' : Bool)
    (h : (r :: l).foldl (wstep now dis) (.ok (out, seen)) = .ok (o', s')) :
    ∃ w1 s1 w2 w4, wU now dis seen r = .ok (w1, s1) ∧ wF now dis r = .ok w2 ∧ wM dis r = .ok w4 ∧
      l.foldl (wstep now dis) (.ok (wOut out r.date w1 w2 (wO dis r) w4, s1)) = .ok (o', s') := by
  rw [List.foldl_cons] at h
  cases hs : wstep now dis (.ok (out, seen)) r with
  | err => rw [hs, wfold_err] at h; cases h
  | panic => rw [hs, wfold_panic] at h; cases h
  | ok p =>
    obtain ⟨o2, s2⟩ := p
    obtain ⟨w1, w2, w4, hU, hF, hM, rfl⟩ := wstep_ok_inv now dis out o2 seen s2 r hs
    rw [hs] at h
    exact ⟨w1, s2, w2, w4, hU, hF, hM, h⟩

end KlogV
