/- Helper lemmas for KlogV/Lemmas/GoCalC.lean: `NewWeekFromString` (the loop back to Monday, the reference date). Core Lean only. -/
import KlogV.Lemmas.GoCalC1
import KlogV.Lemmas.GoCalC2
set_option linter.unusedSimpArgs false
set_option linter.unusedVariables false
namespace KlogV.GoL.C
open KlogV.Go
open KlogV.PatternLemmas

/-- the body of the loop of `NewWeekFromString` that walks back to Monday -/
def c_weekStep (_x : Nat) (s : GoCal.date × Bool) : G (ForInStep (GoCal.date × Bool)) :=
  Except.bind s.fst.Weekday fun w =>
    if (!(w != 1)) = true then Except.ok (ForInStep.done (s.fst, true))
    else Except.bind (s.fst.PlusDays (neg 1)) fun r => Except.ok (ForInStep.yield (r, s.snd))

/-- the block of `NewWeekFromString` that computes the reference date -/
def c_weekRef (year week : Int) : G GoCal.date :=
  Except.bind (try2 (GoCal.NewDate year 7 1)) fun x =>
    if (!isNil x.2) = true then Except.error (Exc.err "INVALID_WEEK_PERIOD")
    else Except.bind (forIn (List.range 64) (x.1, false) c_weekStep) fun s =>
      if (!s.snd) = true then Except.error (Exc.err "klogv: loop fuel exhausted")
      else Except.bind s.fst.WeekNumber fun yw =>
        Except.bind (s.fst.PlusDays (mul (sub week yw.2) 7)) fun r => Except.ok r

def c_weekTail (year week : Int) : G GoCal.Week :=
  if lt week 1 = true then Except.error (Exc.err "INVALID_WEEK_PERIOD")
  else Except.bind (try2 (c_weekRef year week)) fun x =>
    if (!isNil x.2) = true then
      match x.2 with
      | some e => Except.error e
      | none => Except.ok default
    else Except.bind x.1.WeekNumber fun yw =>
      if (yw.2 != week) = true then Except.error (Exc.err "INVALID_WEEK_PERIOD")
      else Except.ok ⟨x.1⟩

def c_week (mt : Str → Bool) (s : Str) : G GoCal.Week :=
  if (!mt s) = true then Except.error (Exc.err "INVALID_WEEK_PERIOD")
  else Except.bind (stringsSplit s ['-']) fun parts =>
    Except.bind (idx parts 0) fun p0 =>
    Except.bind (try2 (Go.atoi p0)) fun y =>
    Except.bind (idx parts 1) fun p1 =>
    Except.bind (try2 (Go.atoi (stringsTrimPrefix p1 ['W']))) fun w =>
    c_weekTail y.1 w.1

theorem c_week_eq (mt : Str → Bool) (s : Str) : GoCal.NewWeekFromString mt s = c_week mt s := by
  unfold GoCal.NewWeekFromString c_week c_weekTail c_weekRef
  by_cases h : (!mt s) = true
  · simp only [h, if_true]; rfl
  · simp only [h, if_false]; rfl

theorem c_neg1 : neg 1 = -1 := by decide

theorem c_weekStep_spec (i : Nat) (x : Date) (hv : x.valid = true) (hd : x.dashes = true) :
    c_weekStep i (x.toGo, false) =
      if x.weekday = 1 then .ok (ForInStep.done (x.toGo, true))
      else match x.plusDays (-1) with
        | some r => .ok (ForInStep.yield (r.toGo, false))
        | none => .error .panic := by
  simp only [c_weekStep, c_weekday x hd, c_plusDays x _ hv hd, c_neg1, Except.bind]
  by_cases h1 : x.weekday = 1
  · simp [h1]
  · have : ¬ ((x.weekday : Int) = 1) := by omega
    have hb : (!((x.weekday : Int) != 1)) = false := by simp [this]
    simp only [h1, if_false, hb, Bool.false_eq_true]
    cases x.plusDays (-1) <;> rfl

theorem c_loop (k : Nat) : ∀ (l : List Nat) (x : Date), x.valid = true → x.dashes = true → x.weekday ≤ k → k ≤ l.length →
    forIn l (x.toGo, false) c_weekStep =
      match toMonday k x with
      | some r => (.ok (r.toGo, true) : G (GoCal.date × Bool))
      | none => .error .panic := by
  induction k with
  | zero => intro l x _ _ hw _; have := weekday_bounds x; omega
  | succ k ih =>
    intro l x hv hd hw hl
    match l, hl with
    | a :: l, hl =>
      rw [List.forIn_cons, c_weekStep_spec a x hv hd]
      unfold toMonday
      by_cases h1 : x.weekday = 1
      · simp [h1, bind, Except.bind, pure, Except.pure]
      · have hb : (x.weekday == 1) = false := by simp [h1]
        simp only [h1, if_false, hb, Bool.false_eq_true]
        cases hp : x.plusDays (-1) with
        | none => simp [bind, Except.bind]
        | some r =>
          have hr := plusDays_some x r _ hv hp
          have hrd : r.dashes = true := by rw [c_plusDays_dashes x r _ hp, hd]
          have hwx := weekday_eq x
          have hwr := weekday_eq r
          have hwb := weekday_bounds x
          have hwr' : r.weekday ≤ k := by omega
          simp only [bind, Except.bind, Option.bind_some]
          exact ih l r hr.1 hrd hwr' (by simpa using hl)


theorem c_toMonday_some (n : Nat) : ∀ (x r : Date), x.valid = true → toMonday n x = some r →
    r.valid = true ∧ r.dashes = x.dashes := by
  induction n with
  | zero => intro x r hv h; simp [toMonday] at h; subst h; exact ⟨hv, rfl⟩
  | succ n ih =>
    intro x r hv h
    unfold toMonday at h
    split at h
    · simp at h; subst h; exact ⟨hv, rfl⟩
    · cases hp : x.plusDays (-1) with
      | none => rw [hp] at h; simp at h
      | some y =>
        rw [hp] at h; simp only [Option.bind_some] at h
        have hy := plusDays_some x y _ hv hp
        have := ih y r hy.1 h
        exact ⟨this.1, by rw [this.2, c_plusDays_dashes x y _ hp]⟩

theorem c_mulsub (w iw : Int) (h1 : 0 ≤ w) (h2 : w ≤ 99) (h3 : 0 ≤ iw) (h4 : iw ≤ 53) :
    mul (sub w iw) 7 = (w - iw) * 7 := by
  unfold mul sub wrap; omega

theorem c_weekRef_spec (y w : Nat) (hw : w ≤ 99) :
    c_weekRef (y : Int) (w : Int) =
      match mkDate y 7 1 with
      | none => .error (.err "INVALID_WEEK_PERIOD")
      | some ref0 =>
        match toMonday 7 ref0 with
        | none => .error .panic
        | some ref1 =>
          match ref1.plusDays (((w : Int) - ref1.isoWeek.2) * 7) with
          | none => .error .panic
          | some ref2 => .ok ref2.toGo := by
  have nd : GoCal.NewDate (y : Int) 7 1 = _ := c_newDate y 7 1
  unfold c_weekRef
  rw [nd]
  cases hmk : mkDate y 7 1 with
  | none => simp [try2, Except.bind, pure, Except.pure, isNil, GNil.isNil]
  | some ref0 =>
    have h0 := mkDate_valid y 7 1 ref0 hmk
    have hd0 : ref0.dashes = true := by rw [h0.2]
    have hl := c_loop 7 (List.range 64) ref0 h0.1 hd0 (weekday_bounds ref0).2 (by simp)
    simp only [try2, Except.bind, pure, Except.pure, isNil, GNil.isNil, Option.isNone_none, Bool.not_true, Bool.false_eq_true, if_false, hl]
    cases hm : toMonday 7 ref0 with
    | none => rfl
    | some ref1 =>
      have h1 := c_toMonday_some 7 ref0 ref1 h0.1 hm
      have hd1 : ref1.dashes = true := by rw [h1.2, hd0]
      have hiso := isoWeek_spec ref1 h1.1
      simp only at hiso
      obtain ⟨_, _, hi1, hi2, _, _⟩ := hiso
      have hms : mul (sub (w : Int) (ref1.isoWeek.2 : Int)) 7 = ((w : Int) - ref1.isoWeek.2) * 7 :=
        c_mulsub _ _ (by omega) (by omega) (by omega) (by omega)
      simp only [Bool.not_true, Bool.false_eq_true, if_false, c_weekNumber ref1 hd1, hms, c_plusDays ref1 _ h1.1 hd1]
      cases ref1.plusDays (((w : Int) - ref1.isoWeek.2) * 7) <;> rfl


theorem c_weekTail_spec (y w : Nat) (hw : w ≤ 99) :
    (c_weekTail (y : Int) (w : Int)).res = (weekBody y w).map (fun d => (⟨d.toGo⟩ : GoCal.Week)) := by
  unfold c_weekTail weekBody
  by_cases hw1 : w < 1
  · have : lt (w : Int) 1 = true := by simp [lt]; omega
    simp only [this, if_true, hw1]; rfl
  · have : lt (w : Int) 1 = false := by simp [lt]; omega
    simp only [this, Bool.false_eq_true, if_false, hw1, c_weekRef_spec y w hw]
    cases hmk : mkDate y 7 1 with
    | none => rfl
    | some ref0 =>
      have h0 := mkDate_valid y 7 1 ref0 hmk
      have hd0 : ref0.dashes = true := by rw [h0.2]
      simp only []
      cases hm : toMonday 7 ref0 with
      | none => rfl
      | some ref1 =>
        have h1 := c_toMonday_some 7 ref0 ref1 h0.1 hm
        have hd1 : ref1.dashes = true := by rw [h1.2, hd0]
        simp only []
        cases hp : ref1.plusDays (((w : Int) - ref1.isoWeek.2) * 7) with
        | none => rfl
        | some ref2 =>
          have h2 := plusDays_some ref1 ref2 _ h1.1 hp
          have hd2 : ref2.dashes = true := by rw [c_plusDays_dashes ref1 ref2 _ hp, hd1]
          simp only [try2, Except.bind, pure, Except.pure, isNil, GNil.isNil, Option.isNone_none, Bool.not_true, Bool.false_eq_true, if_false, c_weekNumber ref2 hd2]
          by_cases he : ref2.isoWeek.2 = w
          · have e1 : ((ref2.isoWeek.2 : Int) != (w : Int)) = false := by simp; omega
            have e2 : (ref2.isoWeek.2 != w) = false := by simp [he]
            simp only [e1, e2, Bool.false_eq_true, if_false]; rfl
          · have e1 : ((ref2.isoWeek.2 : Int) != (w : Int)) = true := by simp; omega
            have e2 : (ref2.isoWeek.2 != w) = true := by simp [he]
            simp only [e1, e2, if_true]; rfl


theorem c_week_shaped (mt : Str → Bool) (hm : ∀ s, mt s = weekShape s) (a b c d : Char) (ws : List Char)
    (ha : isDigit a = true) (hb : isDigit b = true) (hc : isDigit c = true) (hd : isDigit d = true)
    (hws : ws.all isDigit = true) (hl : ws.length = 1 ∨ ws.length = 2) :
    (c_week mt (a :: b :: c :: d :: '-' :: 'W' :: ws)).res =
      (weekBody (digitsVal [a, b, c, d]) (digitsVal ws)).map (fun d => (⟨d.toGo⟩ : GoCal.Week)) := by
  have hsh : weekShape (a :: b :: c :: d :: '-' :: 'W' :: ws) = true := by
    rcases hl with hl | hl <;> simp [weekShape, ha, hb, hc, hd, hws, hl]
  have hsp := c_split a b c d ('W' :: ws) ha hb hc hd (by
    intro x hx; simp only [List.mem_cons] at hx; rcases hx with rfl | hx
    · decide
    · exact c_digit_ne_dash _ (List.all_eq_true.mp hws x hx))
  obtain ⟨wi, hwi, hwb⟩ : ∃ wi : Nat, Go.atoi ws = .ok (wi : Int) ∧ wi = digitsVal ws ∧ wi ≤ 99 := by
    rcases hl with hl | hl
    · match ws, hl, hws with
      | [w1], _, hws =>
        simp only [List.all_cons, List.all_nil, Bool.and_true] at hws
        have := digitVal_lt w1 hws
        exact ⟨_, c_atoi1 w1 hws, rfl, by rw [c_dv1]; omega⟩
    · match ws, hl, hws with
      | [w1, w2], _, hws =>
        simp only [List.all_cons, List.all_nil, Bool.and_true, Bool.and_eq_true] at hws
        have := digitVal_lt w1 hws.1
        have := digitVal_lt w2 hws.2
        exact ⟨_, c_atoi2 w1 w2 hws.1 hws.2, rfl, by rw [c_dv2]; omega⟩
  simp only [c_week, hm, hsh, hsp, c_idx0, c_idx1, c_trim, c_atoi4 a b c d ha hb hc hd, hwi, try2, Except.bind, pure, Except.pure,
    Bool.not_true, Bool.false_eq_true, if_false]
  rw [c_weekTail_spec _ _ hwb.2, hwb.1]

end KlogV.GoL.C
