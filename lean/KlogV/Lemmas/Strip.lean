/-
Lemmas for C18: the ANSI stripper, complete sequences, dangling beginnings, tag wrapping,
the styled serialiser, tables.
-/
import KlogV.Model.Styler
import KlogV.Lemmas.Values
namespace KlogV

/-! ## Definitions -/

/-- `s` is a concatenation of complete matches of `\x1b\[[\d;]+m`. -/
inductive IsSeqs : List Char → Prop where
  | nil : IsSeqs []
  | cons (s t : List Char) : matchSeq s = some s.length → s ≠ [] → IsSeqs t → IsSeqs (s ++ t)

namespace StripLemmas
def isSeqsAux : Nat → List Char → Bool
  | _, [] => true
  | 0, _ :: _ => false
  | fuel + 1, c :: r =>
    match matchSeq (c :: r) with
    | some n => isSeqsAux fuel ((c :: r).drop n)
    | none => false
end StripLemmas
open StripLemmas

def isSeqsB (s : List Char) : Bool := isSeqsAux s.length s

/-- the beginning of a sequence: `ESC`, or `ESC [` followed by body characters -/
def StripLemmas.Dangling (p : List Char) : Prop :=
  p = [ESC] ∨ ∃ body, p = ESC :: '[' :: body ∧ ∀ c ∈ body, isSeqBodyChar c = true

/-- `a` does not end in the beginning of a sequence -/
def NoDangling (a : List Char) : Prop := ∀ pre p, a = pre ++ p → ¬ Dangling p

/-- `b` is empty or starts with a character that cannot continue the beginning of a sequence -/
def StripLemmas.Inert (b : List Char) : Prop :=
  b = [] ∨ ∃ c r, b = c :: r ∧ c ≠ '[' ∧ c ≠ 'm' ∧ isSeqBodyChar c = false

def SafeJoin (a b : List Char) : Prop :=
  NoDangling a ∨ b = [] ∨ (∃ c r, b = c :: r ∧ c ≠ '[' ∧ c ≠ 'm' ∧ isSeqBodyChar c = false)

def NoEscape (s : List Char) : Prop := ESC ∉ s

namespace StripLemmas

/-! ## lists -/

theorem drop_length_takeWhile {α} (p : α → Bool) (l : List α) :
    l.drop (l.takeWhile p).length = l.dropWhile p := by
  induction l with
  | nil => rfl
  | cons a l ih =>
    simp only [List.takeWhile_cons, List.dropWhile_cons]
    split
    · simpa using ih
    · rfl

theorem mem_takeWhile {α} (p : α → Bool) (l : List α) : ∀ c ∈ l.takeWhile p, p c = true := by
  induction l with
  | nil => simp
  | cons a l ih =>
    simp only [List.takeWhile_cons]
    split
    · intro c hc
      rcases List.mem_cons.1 hc with h | h
      · subst h; assumption
      · exact ih c h
    · simp

theorem dropWhile_head {α} (p : α → Bool) (l : List α) (c : α) (t : List α)
    (h : l.dropWhile p = c :: t) : p c = false := by
  induction l with
  | nil => simp at h
  | cons a l ih =>
    simp only [List.dropWhile_cons] at h
    split at h
    · exact ih h
    · rename_i hp
      cases h
      simpa using hp

theorem split_takeWhile {α} (p : α → Bool) (l : List α) :
    l = l.takeWhile p ++ l.drop (l.takeWhile p).length := by
  rw [drop_length_takeWhile]; exact List.takeWhile_append_dropWhile.symm

/-! ## `matchSeq` -/

theorem body_ESC : isSeqBodyChar ESC = false := by decide
theorem body_m : isSeqBodyChar 'm' = false := by decide
theorem body_lb : isSeqBodyChar '[' = false := by decide

theorem matchSeq_some (s : List Char) (n : Nat) (h : matchSeq s = some n) :
    ∃ body rest, s = ESC :: '[' :: (body ++ 'm' :: rest) ∧ body ≠ [] ∧
      (∀ c ∈ body, isSeqBodyChar c = true) ∧ n = body.length + 3 := by
  unfold matchSeq at h
  split at h
  · rename_i e r
    split at h
    · cases h
    · rename_i he
      simp only [bne_iff_ne, ne_eq, Decidable.not_not] at he
      subst he
      simp only at h
      split at h
      · cases h
      · rename_i hb
        split at h
        · rename_i tl heq
          refine ⟨r.takeWhile isSeqBodyChar, tl, ?_, ?_, ?_, ?_⟩
          · have := split_takeWhile isSeqBodyChar r
            rw [heq] at this
            rw [← this]
          · simpa using hb
          · intro c hc; exact mem_takeWhile _ _ c hc
          · cases h; omega
        · cases h
  · cases h

theorem takeWhile_body (body rest : List Char) (hb : ∀ c ∈ body, isSeqBodyChar c = true) :
    (body ++ 'm' :: rest).takeWhile isSeqBodyChar = body := by
  rw [List.takeWhile_append_of_pos hb]
  simp [body_m]

theorem matchSeq_shape (body rest : List Char) (hne : body ≠ [])
    (hb : ∀ c ∈ body, isSeqBodyChar c = true) :
    matchSeq (ESC :: '[' :: (body ++ 'm' :: rest)) = some (body.length + 3) := by
  simp only [matchSeq, takeWhile_body body rest hb]
  simp [hne]
  omega

theorem matchSeq_le (s : List Char) (n : Nat) (h : matchSeq s = some n) : 1 ≤ n ∧ n ≤ s.length := by
  obtain ⟨body, rest, rfl, _, _, rfl⟩ := matchSeq_some s n h
  simp

theorem matchSeq_append (s y : List Char) (n : Nat) (h : matchSeq s = some n) :
    matchSeq (s ++ y) = some n := by
  obtain ⟨body, rest, rfl, hne, hb, rfl⟩ := matchSeq_some s n h
  have := matchSeq_shape body (rest ++ y) hne hb
  simpa using this

theorem matchSeq_take (s : List Char) (n : Nat) (h : matchSeq s = some n) :
    matchSeq (s.take n) = some n := by
  obtain ⟨body, rest, rfl, hne, hb, rfl⟩ := matchSeq_some s n h
  have := matchSeq_shape body [] hne hb
  have e : (ESC :: '[' :: (body ++ 'm' :: rest)).take (body.length + 3) = ESC :: '[' :: (body ++ ['m']) := by
    simp [List.take_append, List.take_of_length_le]
  rw [e]; exact this

theorem matchSeq_ne_ESC (c : Char) (r : List Char) (h : c ≠ ESC) : matchSeq (c :: r) = none := by
  cases hm : matchSeq (c :: r) with
  | none => rfl
  | some n =>
    obtain ⟨body, rest, e, _⟩ := matchSeq_some _ n hm
    cases e
    exact absurd rfl h

/-- a proper non-empty prefix of a complete sequence dangles, and what follows it is a character
of the sequence -/
theorem prefix_of_seq (a y' body : List Char) (ha : a ≠ []) (hy : y' ≠ [])
    (hb : ∀ c ∈ body, isSeqBodyChar c = true)
    (e : a ++ y' = ESC :: '[' :: (body ++ ['m'])) :
    Dangling a ∧ ∃ c r, y' = c :: r ∧ (c = '[' ∨ c = 'm' ∨ isSeqBodyChar c = true) := by
  match a, ha with
  | [x], _ =>
    simp only [List.cons_append, List.nil_append, List.cons.injEq] at e
    obtain ⟨rfl, rfl⟩ := e
    exact ⟨Or.inl rfl, '[', _, rfl, Or.inl rfl⟩
  | x :: x2 :: a2, _ =>
    simp only [List.cons_append, List.cons.injEq] at e
    obtain ⟨rfl, rfl, e⟩ := e
    rcases List.append_eq_append_iff.1 e with ⟨a', h1, h2⟩ | ⟨c', h1, h2⟩
    · -- body = a2 ++ a', y' = a' ++ ['m']
      refine ⟨Or.inr ⟨a2, rfl, fun c hc => hb c (by rw [h1]; simp [hc])⟩, ?_⟩
      cases a' with
      | nil => exact ⟨'m', [], by simpa using h2, Or.inr (Or.inl rfl)⟩
      | cons d a' =>
        exact ⟨d, a' ++ ['m'], by simpa using h2, Or.inr (Or.inr (hb d (by rw [h1]; simp)))⟩
    · -- a2 = body ++ c', ['m'] = c' ++ y'
      cases c' with
      | nil =>
        simp only [List.append_nil] at h1
        subst h1
        exact ⟨Or.inr ⟨a2, rfl, hb⟩, 'm', [], by simpa using h2.symm, Or.inr (Or.inl rfl)⟩
      | cons d c' =>
        have : (['m'] : List Char).length = (d :: c' ++ y').length := by rw [← h2]
        cases y' with
        | nil => exact absurd rfl hy
        | cons _ _ => simp at this

theorem matchSeq_append_none (a y : List Char) (ha : a ≠ []) (hm : matchSeq a = none)
    (h : ¬ Dangling a ∨ Inert y) : matchSeq (a ++ y) = none := by
  cases hm' : matchSeq (a ++ y) with
  | none => rfl
  | some n =>
    exfalso
    obtain ⟨body, rest, e, hne, hb, rfl⟩ := matchSeq_some _ n hm'
    have e' : a ++ y = (ESC :: '[' :: (body ++ ['m'])) ++ rest := by simpa using e
    rcases List.append_eq_append_iff.1 e' with ⟨a', h1, h2⟩ | ⟨c', h1, h2⟩
    · -- the sequence reaches into `y` (or ends exactly at the end of `a`)
      cases a' with
      | nil =>
        simp only [List.append_nil] at h1
        rw [← h1] at hm
        have := matchSeq_shape body [] hne hb
        rw [hm] at this; cases this
      | cons d a' =>
        obtain ⟨hd, c, r, hc, hcc⟩ := prefix_of_seq a (d :: a') body ha (by simp) hb h1.symm
        cases hc
        rcases h with h | h
        · exact h hd
        · rcases h with h | ⟨c2, r2, h, n1, n2, n3⟩
          · rw [h] at h2; cases h2
          · rw [h] at h2
            simp only [List.cons_append, List.cons.injEq] at h2
            obtain ⟨rfl, _⟩ := h2
            rcases hcc with rfl | rfl | hcc
            · exact n1 rfl
            · exact n2 rfl
            · rw [hcc] at n3; cases n3
    · rw [h1] at hm
      have := matchSeq_shape body (c') hne hb
      simp only [List.cons_append, List.append_assoc, List.nil_append] at hm
      rw [hm] at this; cases this

/-! ## `strip`: equations independent of the fuel -/

theorem stripAux_fuel : ∀ (f1 f2 : Nat) (s : List Char), s.length < f1 → s.length < f2 →
    stripAux f1 s = stripAux f2 s := by
  intro f1
  induction f1 with
  | zero => intro f2 s h; omega
  | succ f1 ih =>
    intro f2 s h1 h2
    cases f2 with
    | zero => omega
    | succ f2 =>
      cases s with
      | nil => simp [stripAux]
      | cons c r =>
        simp only [stripAux]
        simp only [List.length_cons] at h1 h2
        cases hm : matchSeq (c :: r) with
        | none =>
          simp only
          rw [ih f2 r (by omega) (by omega)]
        | some n =>
          simp only
          obtain ⟨h1n, h2n⟩ := matchSeq_le _ _ hm
          simp only [List.length_cons] at h2n
          apply ih <;> simp only [List.length_drop, List.length_cons] <;> omega

theorem strip_nil : strip [] = [] := rfl

theorem strip_cons_some (c : Char) (r : List Char) (n : Nat) (h : matchSeq (c :: r) = some n) :
    strip (c :: r) = strip ((c :: r).drop n) := by
  obtain ⟨h1n, h2n⟩ := matchSeq_le _ _ h
  simp only [List.length_cons] at h2n
  simp only [strip, stripAux, h]
  apply stripAux_fuel <;> simp only [List.length_drop, List.length_cons] <;> omega

theorem strip_cons_none (c : Char) (r : List Char) (h : matchSeq (c :: r) = none) :
    strip (c :: r) = c :: strip r := by
  simp only [strip, stripAux, h]
  rfl

theorem strip_cons_ne (c : Char) (r : List Char) (h : c ≠ ESC) : strip (c :: r) = c :: strip r :=
  strip_cons_none c r (matchSeq_ne_ESC c r h)

theorem strip_length_le : ∀ (n : Nat) (s : List Char), s.length ≤ n → (strip s).length ≤ s.length := by
  intro n
  induction n with
  | zero => intro s h; cases s with
    | nil => simp [strip_nil]
    | cons => simp at h
  | succ n ih =>
    intro s h
    cases s with
    | nil => simp [strip_nil]
    | cons c r =>
      simp only [List.length_cons] at h
      cases hm : matchSeq (c :: r) with
      | none =>
        rw [strip_cons_none _ _ hm]
        have := ih r (by omega)
        simp only [List.length_cons]; omega
      | some k =>
        rw [strip_cons_some _ _ _ hm]
        obtain ⟨h1n, h2n⟩ := matchSeq_le _ _ hm
        have := ih ((c :: r).drop k) (by simp only [List.length_drop, List.length_cons]; omega)
        simp only [List.length_drop, List.length_cons] at this ⊢
        omega

/-! ## dangling beginnings -/

theorem noDangling_suffix (p a : List Char) (h : NoDangling (p ++ a)) : NoDangling a := by
  intro pre q e
  exact h (p ++ pre) q (by rw [e, List.append_assoc])

theorem noDangling_nil : NoDangling [] := by
  intro pre p e
  have : p = [] := by
    have := congrArg List.length e
    simp at this
    cases p with
    | nil => rfl
    | cons => simp at this
  subst this
  rintro (h | ⟨b, h, _⟩) <;> cases h

/-- the key lemma: `strip` distributes over a join at which no sequence can be completed -/
theorem strip_append_aux : ∀ (n : Nat) (a y : List Char), a.length ≤ n → (NoDangling a ∨ Inert y) →
    strip (a ++ y) = strip a ++ strip y := by
  intro n
  induction n with
  | zero =>
    intro a y h _
    cases a with
    | nil => simp [strip_nil]
    | cons => simp at h
  | succ n ih =>
    intro a y hl h
    cases a with
    | nil => simp [strip_nil]
    | cons c r =>
      simp only [List.length_cons] at hl
      cases hm : matchSeq (c :: r) with
      | none =>
        have hm' := matchSeq_append_none (c :: r) y (by simp) hm (h.imp (fun hnd => hnd [] _ rfl) id)
        rw [List.cons_append] at hm' ⊢
        rw [strip_cons_none _ _ hm', strip_cons_none _ _ hm,
          ih r y (by omega) (h.imp (noDangling_suffix [c] r) id)]
        rfl
      | some k =>
        have hm' := matchSeq_append _ y _ hm
        obtain ⟨h1n, h2n⟩ := matchSeq_le _ _ hm
        rw [List.cons_append] at hm' ⊢
        rw [strip_cons_some _ _ _ hm', strip_cons_some _ _ _ hm, ← List.cons_append,
          List.drop_append_of_le_length h2n]
        apply ih
        · simp only [List.length_drop, List.length_cons]; omega
        · refine h.imp (fun hnd => ?_) id
          apply noDangling_suffix ((c :: r).take k)
          rw [List.take_append_drop]; exact hnd

theorem strip_append (a y : List Char) (h : NoDangling a ∨ Inert y) :
    strip (a ++ y) = strip a ++ strip y := strip_append_aux a.length a y (Nat.le_refl _) h

theorem strip_append_inert (a y : List Char) (h : Inert y) : strip (a ++ y) = strip a ++ strip y :=
  strip_append a y (Or.inr h)

theorem strip_append_nd (a y : List Char) (h : NoDangling a) : strip (a ++ y) = strip a ++ strip y :=
  strip_append a y (Or.inl h)

/-! ## complete sequences -/

theorem isSeqs_head (s : List Char) (h : IsSeqs s) : s = [] ∨ ∃ r, s = ESC :: r := by
  cases h with
  | nil => exact Or.inl rfl
  | cons s t hm hne ht =>
    obtain ⟨body, rest, rfl, _⟩ := matchSeq_some _ _ hm
    exact Or.inr ⟨_, rfl⟩

theorem inert_ESC (r : List Char) : Inert (ESC :: r) :=
  Or.inr ⟨ESC, r, rfl, by decide, by decide, body_ESC⟩

theorem inert_seqs_append (s b : List Char) (h : IsSeqs s) (hb : Inert b) : Inert (s ++ b) := by
  rcases isSeqs_head s h with rfl | ⟨r, rfl⟩
  · simpa using hb
  · exact inert_ESC _

theorem isSeqs_append (a b : List Char) (ha : IsSeqs a) (hb : IsSeqs b) : IsSeqs (a ++ b) := by
  induction ha with
  | nil => simpa using hb
  | cons s t hm hne _ ih => rw [List.append_assoc]; exact IsSeqs.cons s _ hm hne ih

theorem isSeqsAux_sound : ∀ (fuel : Nat) (s : List Char), isSeqsAux fuel s = true → IsSeqs s := by
  intro fuel
  induction fuel with
  | zero =>
    intro s h
    cases s with
    | nil => exact IsSeqs.nil
    | cons => simp [isSeqsAux] at h
  | succ fuel ih =>
    intro s h
    cases s with
    | nil => exact IsSeqs.nil
    | cons c r =>
      simp only [isSeqsAux] at h
      cases hm : matchSeq (c :: r) with
      | none => rw [hm] at h; cases h
      | some n =>
        rw [hm] at h
        simp only at h
        obtain ⟨h1n, h2n⟩ := matchSeq_le _ _ hm
        have := IsSeqs.cons ((c :: r).take n) ((c :: r).drop n)
          (by rw [matchSeq_take _ _ hm, List.length_take, Nat.min_eq_left h2n])
          (by intro e
              have := congrArg List.length e
              rw [List.length_take, Nat.min_eq_left h2n] at this
              simp at this; omega)
          (ih _ h)
        rwa [List.take_append_drop] at this

theorem isSeqsAux_complete (s : List Char) (h : IsSeqs s) :
    ∀ fuel, s.length ≤ fuel → isSeqsAux fuel s = true := by
  induction h with
  | nil => intro fuel _; cases fuel <;> rfl
  | cons s t hm hne _ ih =>
    intro fuel hf
    cases s with
    | nil => exact absurd rfl hne
    | cons c r =>
      cases fuel with
      | zero => simp at hf
      | succ fuel =>
        have hm' := matchSeq_append _ t _ hm
        rw [List.cons_append] at hm' ⊢
        simp only [isSeqsAux, hm']
        rw [← List.cons_append, List.drop_left]
        apply ih
        simp only [List.length_append, List.length_cons] at hf
        omega

end StripLemmas

open StripLemmas

theorem isSeqsB_iff (s : List Char) : isSeqsB s = true ↔ IsSeqs s :=
  ⟨isSeqsAux_sound _ s, fun h => isSeqsAux_complete s h _ (Nat.le_refl _)⟩

theorem strip_seqs_append (s rest : List Char) (h : IsSeqs s) : strip (s ++ rest) = strip rest := by
  induction h with
  | nil => rfl
  | cons s t hm hne _ ih =>
    cases s with
    | nil => exact absurd rfl hne
    | cons c r =>
      have hm' := matchSeq_append _ (t ++ rest) _ hm
      rw [List.append_assoc]
      rw [List.cons_append] at hm' ⊢
      rw [strip_cons_some _ _ _ hm', ← List.cons_append, List.drop_left]
      exact ih

theorem strip_insert (a s b : List Char) (hs : IsSeqs s) (hj : SafeJoin a b) :
    strip (a ++ s ++ b) = strip (a ++ b) := by
  have hj' : NoDangling a ∨ Inert b := hj
  rw [strip_append a b hj', List.append_assoc]
  rcases isSeqs_head s hs with rfl | ⟨r, rfl⟩
  · rw [List.nil_append]; exact strip_append a b hj'
  · rw [strip_append_inert a _ (by rw [List.cons_append]; exact inert_ESC _), strip_seqs_append _ b hs]

/-! ## styling disabled -/

namespace StripLemmas

theorem wrapTagsAux_nil (u : UTab) : ∀ (fuel : Nat) (s : List Char), wrapTagsAux u [] [] fuel s = s := by
  intro fuel
  induction fuel with
  | zero => intro s; rfl
  | succ fuel ih =>
    intro s
    cases s with
    | nil => rfl
    | cons c rest =>
      simp only [wrapTagsAux]
      split
      · simp only [List.nil_append, List.append_nil, ih, List.take_append_drop]
      · rw [ih]

theorem styledSummary_noColour (u : UTab) : styledSummary u noColour = id := by
  funext line
  simp [styledSummary, Styler.format, noColour, wrapTags, wrapTagsAux_nil]

theorem styledValue_noColour (v : EntryVal) : styledValue noColour v = v.print := by
  cases v <;> simp [styledValue, Styler.format, noColour, EntryVal.print]

theorem styledEntryLines_noColour (u : UTab) : styledEntryLines u noColour = entryLines := by
  funext e
  obtain ⟨v, sm⟩ := e
  cases sm <;>
    simp only [styledEntryLines, entryLines, styledSummary_noColour, styledValue_noColour, id]

theorem styledRecordLines_noColour (u : UTab) : styledRecordLines u noColour = recordLines := by
  funext r
  simp only [styledRecordLines, recordLines, styledSummary_noColour, styledEntryLines_noColour,
    List.map_id]
  simp [Styler.format, noColour]

end StripLemmas

theorem styledPrint_noColour (u : UTab) (rs : List Record) :
    styledPrintRecords u noColour rs = printRecords rs := by
  induction rs with
  | nil => rfl
  | cons r rs ih =>
    cases rs with
    | nil => simp only [styledPrintRecords, printRecords, styledRecordLines_noColour]
    | cons r' rs =>
      simp only [styledPrintRecords, printRecords, styledRecordLines_noColour] at ih ⊢
      rw [ih]

/-! ## tags -/

namespace StripLemmas

theorem noDangling_of_noEscape (t : List Char) (h : NoEscape t) : NoDangling t := by
  intro pre p e hd
  apply h
  rw [e]
  rcases hd with rfl | ⟨b, rfl, _⟩ <;> simp

theorem dangling_mem (p : List Char) (h : Dangling p) :
    ∀ x ∈ p, x = ESC ∨ x = '[' ∨ isSeqBodyChar x = true := by
  rcases h with rfl | ⟨b, rfl, hb⟩
  · intro x hx; simp at hx; exact Or.inl hx
  · intro x hx
    simp only [List.mem_cons] at hx
    rcases hx with rfl | rfl | hx
    · exact Or.inl rfl
    · exact Or.inr (Or.inl rfl)
    · exact Or.inr (Or.inr (hb x hx))

theorem dangling_ne_nil (p : List Char) (h : Dangling p) : p ≠ [] := by
  rcases h with rfl | ⟨b, rfl, hb⟩ <;> simp

theorem noDangling_of_last (t : List Char) (c : Char) (h1 : c ≠ ESC) (h2 : c ≠ '[')
    (h3 : isSeqBodyChar c = false) : NoDangling (t ++ [c]) := by
  intro pre p e hd
  have hc : c ∈ p := by
    rcases List.append_eq_append_iff.1 e with ⟨a', _, h⟩ | ⟨c', _, h⟩
    · cases a' with
      | nil => simp at h; rw [← h]; simp
      | cons d a' =>
        have := congrArg List.length h
        simp at this
        have : p = [] := by cases p with
          | nil => rfl
          | cons => simp at this
        exact absurd this (dangling_ne_nil p hd)
    · rw [h]; simp
  rcases dangling_mem p hd c hc with h | h | h
  · exact h1 h
  · exact h2 h
  · rw [h] at h3; cases h3

theorem isNameChar_ESC (u : UTab) (hu : u.isLetter ESC = false) : u.isNameChar ESC = false := by
  have h1 : isDigit ESC = false := by decide
  have h2 : (ESC == '_') = false := by decide
  have h3 : (ESC == '-') = false := by decide
  simp [UTab.isNameChar, hu, h1, h2, h3]

theorem noEscape_of_nameChars (u : UTab) (hu : u.isLetter ESC = false) (l : List Char)
    (h : ∀ c ∈ l, u.isNameChar c = true) : NoEscape l := by
  intro hm
  have := h _ hm
  rw [isNameChar_ESC u hu] at this
  cases this

theorem length_takeWhile_le {α} (p : α → Bool) (l : List α) : (l.takeWhile p).length ≤ l.length := by
  have := congrArg List.length (split_takeWhile p l)
  rw [List.length_append] at this
  omega

theorem take_length_takeWhile {α} (p : α → Bool) (l : List α) :
    l.take (l.takeWhile p).length = l.takeWhile p := by
  conv => lhs; arg 2; rw [split_takeWhile p l]
  exact List.take_left

theorem scanValue_shape (u : UTab) (hu : u.isLetter ESC = false) (s : List Char) :
    (scanValue u s).2 ≤ s.length ∧
      (NoEscape (s.take (scanValue u s).2) ∨
        ∃ pre q, s.take (scanValue u s).2 = pre ++ [q] ∧ (q = '"' ∨ q = '\'')) := by
  have quoted : ∀ (q : Char) (r : List Char),
      ((r.takeWhile (· != q)).length < r.length →
        ∃ pre, (q :: r).take ((r.takeWhile (· != q)).length + 2) = pre ++ [q]) := by
    intro q r hlt
    have hs := split_takeWhile (· != q) r
    rw [drop_length_takeWhile] at hs
    cases hd : r.dropWhile (· != q) with
    | nil =>
      rw [hd, List.append_nil] at hs
      have := congrArg List.length hs
      omega
    | cons d t =>
      have hq := dropWhile_head _ _ _ _ hd
      simp only [bne_eq_false_iff_eq] at hq
      have hq := hq.symm
      subst hq
      refine ⟨q :: r.takeWhile (· != q), ?_⟩
      rw [hd] at hs
      conv => lhs; arg 2; rw [hs]
      simp [List.take_append, List.take_of_length_le]
  unfold scanValue
  split
  · rename_i r
    simp only
    split
    · rename_i x heq
      split at heq
      · rename_i hlt
        cases heq
        simp only [List.length_cons]
        refine ⟨by omega, Or.inr ?_⟩
        obtain ⟨pre, hp⟩ := quoted '"' r hlt
        exact ⟨pre, '"', hp, Or.inl rfl⟩
      · cases heq
    · simp [NoEscape]
  · rename_i r
    simp only
    split
    · rename_i x heq
      split at heq
      · rename_i hlt
        cases heq
        simp only [List.length_cons]
        refine ⟨by omega, Or.inr ?_⟩
        obtain ⟨pre, hp⟩ := quoted '\'' r hlt
        exact ⟨pre, '\'', hp, Or.inr rfl⟩
      · cases heq
    · simp [NoEscape]
  · simp only
    refine ⟨length_takeWhile_le _ _, Or.inl ?_⟩
    rw [take_length_takeWhile]
    exact noEscape_of_nameChars u hu _ (mem_takeWhile _ _)

theorem noEscape_hash_name (u : UTab) (hu : u.isLetter ESC = false) (r : List Char) :
    NoEscape ('#' :: r.takeWhile u.isNameChar) := by
  intro hm
  rcases List.mem_cons.1 hm with h | h
  · exact absurd h (by decide)
  · exact noEscape_of_nameChars u hu _ (mem_takeWhile _ _) h

theorem matchTag_shape (u : UTab) (hu : u.isLetter ESC = false) (s : List Char) (t : Tag) (n : Nat)
    (h : matchTag u s = some (t, n)) :
    1 ≤ n ∧ n ≤ s.length ∧ (∃ tl, s.take n = '#' :: tl) ∧ NoDangling (s.take n) := by
  unfold matchTag at h
  split at h
  · rename_i r
    simp only at h
    split at h
    · cases h
    · have hs := split_takeWhile u.isNameChar r
      have hle := length_takeWhile_le u.isNameChar r
      split at h
      · rename_i r2 heq
        simp only [Option.some.injEq, Prod.mk.injEq] at h
        obtain ⟨_, rfl⟩ := h
        obtain ⟨hk, hv⟩ := scanValue_shape u hu r2
        rw [heq] at hs
        have hlen := congrArg List.length hs
        simp only [List.length_append, List.length_cons] at hlen
        have htake : ('#' :: r).take (1 + (r.takeWhile u.isNameChar).length + 1 + (scanValue u r2).2) =
            '#' :: (r.takeWhile u.isNameChar ++ '=' :: r2.take (scanValue u r2).2) := by
          conv => lhs; arg 2; rw [hs]
          have e : 1 + (r.takeWhile u.isNameChar).length + 1 + (scanValue u r2).2 =
              ((r.takeWhile u.isNameChar).length + (1 + (scanValue u r2).2)) + 1 := by omega
          rw [e, List.take_succ_cons, List.take_append]
          simp [List.take_of_length_le]
          rw [Nat.add_comm 1, List.take_succ_cons]
        refine ⟨by omega, by simp only [List.length_cons]; omega, ⟨_, htake⟩, ?_⟩
        rw [htake]
        rcases hv with hv | ⟨pre, q, hp, hq⟩
        · apply noDangling_of_noEscape
          intro hm
          simp only [List.mem_cons, List.mem_append] at hm
          rcases hm with hm | hm | hm | hm
          · exact absurd hm (by decide)
          · exact noEscape_of_nameChars u hu _ (mem_takeWhile _ _) hm
          · exact absurd hm (by decide)
          · exact hv hm
        · rw [hp]
          have : '#' :: (r.takeWhile u.isNameChar ++ '=' :: (pre ++ [q])) =
              ('#' :: (r.takeWhile u.isNameChar ++ '=' :: pre)) ++ [q] := by simp
          rw [this]
          rcases hq with rfl | rfl
          · exact noDangling_of_last _ _ (by decide) (by decide) (by decide)
          · exact noDangling_of_last _ _ (by decide) (by decide) (by decide)
      · simp only [Option.some.injEq, Prod.mk.injEq] at h
        obtain ⟨_, rfl⟩ := h
        have htake : ('#' :: r).take (1 + (r.takeWhile u.isNameChar).length) =
            '#' :: r.takeWhile u.isNameChar := by
          rw [Nat.add_comm, List.take_succ_cons, take_length_takeWhile]
        refine ⟨by omega, by simp only [List.length_cons]; omega, ⟨_, htake⟩, ?_⟩
        rw [htake]
        exact noDangling_of_noEscape _ (noEscape_hash_name u hu r)
  · cases h

theorem inert_hash (tl : List Char) : Inert ('#' :: tl) :=
  Or.inr ⟨'#', tl, rfl, by decide, by decide, by decide⟩

theorem noDangling_append_hash (A tl : List Char) (hnd : NoDangling ('#' :: tl)) :
    NoDangling (A ++ '#' :: tl) := by
  intro pre p e hd
  rcases List.append_eq_append_iff.1 e with ⟨a', _, h⟩ | ⟨c', _, h⟩
  · exact hnd a' p h hd
  · cases c' with
    | nil => exact hnd [] p (by simpa using h.symm) hd
    | cons d c' =>
      rcases dangling_mem p hd '#' (by rw [h]; simp) with h | h | h
      · exact absurd h (by decide)
      · exact absurd h (by decide)
      · exact absurd h (by decide)

theorem strip_wrapTagsAux (u : UTab) (l r : List Char) (hl : IsSeqs l) (hr : IsSeqs r)
    (hu : u.isLetter ESC = false) :
    ∀ (fuel : Nat) (s A : List Char), s.length < fuel →
      strip (A ++ wrapTagsAux u l r fuel s) = strip (A ++ s) := by
  intro fuel
  induction fuel with
  | zero => intro s A h; omega
  | succ fuel ih =>
    intro s A hf
    cases s with
    | nil => rfl
    | cons c rest =>
      simp only [List.length_cons] at hf
      simp only [wrapTagsAux]
      split
      · rename_i t n hm
        obtain ⟨h1, h2, ⟨tl, htl⟩, hnd⟩ := matchTag_shape u hu _ t n hm
        simp only [List.length_cons] at h2
        rw [htl] at hnd ⊢
        have e1 : A ++ (l ++ '#' :: tl ++ r ++ wrapTagsAux u l r fuel ((c :: rest).drop n)) =
            A ++ l ++ ('#' :: tl ++ r ++ wrapTagsAux u l r fuel ((c :: rest).drop n)) := by
          simp only [List.append_assoc]
        rw [e1, strip_insert A l _ hl (Or.inr (Or.inr ⟨'#', tl ++ r ++ wrapTagsAux u l r fuel ((c :: rest).drop n),
          by simp, by decide, by decide, by decide⟩))]
        have e2 : A ++ ('#' :: tl ++ r ++ wrapTagsAux u l r fuel ((c :: rest).drop n)) =
            (A ++ '#' :: tl) ++ r ++ wrapTagsAux u l r fuel ((c :: rest).drop n) := by
          simp only [List.append_assoc]
        rw [e2, strip_insert _ r _ hr (Or.inl (noDangling_append_hash A tl hnd)),
          ih _ _ (by simp only [List.length_drop, List.length_cons]; omega),
          List.append_assoc, ← htl, List.take_append_drop]
      · have e : A ++ c :: wrapTagsAux u l r fuel rest = (A ++ [c]) ++ wrapTagsAux u l r fuel rest := by
          simp
        rw [e, ih rest (A ++ [c]) (by omega)]
        simp

end StripLemmas

open StripLemmas in
theorem strip_wrapTags (u : UTab) (l r : List Char) (hl : IsSeqs l) (hr : IsSeqs r) (line : List Char)
    (hu : u.isLetter ESC = false ∧ u.isLetter '[' = false) :
    strip (wrapTags u l r line) = strip line := by
  have := strip_wrapTagsAux u l r hl hr hu.1 (line.length + 1) line [] (Nat.lt_succ_self _)
  simpa [wrapTags] using this

/-! ## the styled serialiser -/

namespace StripLemmas

theorem strip_noEscape_append (a X : List Char) (h : NoEscape a) : strip (a ++ X) = a ++ strip X := by
  induction a with
  | nil => rfl
  | cons c a ih =>
    have hc : c ≠ ESC := fun e => h (by rw [e]; simp)
    rw [List.cons_append, strip_cons_ne _ _ hc, ih (fun hm => h (List.mem_cons_of_mem _ hm))]
    rfl

theorem strip_noEscape (a : List Char) (h : NoEscape a) : strip a = a := by
  have := strip_noEscape_append a [] h
  simpa [strip_nil] using this

theorem noEscape_nil : NoEscape [] := by simp [NoEscape]

theorem noEscape_append (a b : List Char) (ha : NoEscape a) (hb : NoEscape b) : NoEscape (a ++ b) := by
  intro h
  rcases List.mem_append.1 h with h | h
  · exact ha h
  · exact hb h

theorem noEscape_cons (c : Char) (a : List Char) (hc : c ≠ ESC) (ha : NoEscape a) : NoEscape (c :: a) := by
  intro h
  rcases List.mem_cons.1 h with h | h
  · exact hc h.symm
  · exact ha h

theorem digitChar_ne_ESC (n : Nat) : digitChar n ≠ ESC := by
  intro e
  have := isDigit_digitChar n
  rw [e] at this
  exact absurd this (by decide)

theorem noEscape_digits (l : List Char) (h : l.all isDigit = true) : NoEscape l := by
  intro hm
  have := List.all_eq_true.1 h _ hm
  exact absurd this (by decide)

theorem noEscape_natDigits (n : Nat) : NoEscape (natDigits n) := noEscape_digits _ (natDigits_all n)

theorem noEscape_pad2 (n : Nat) : NoEscape (pad2 n) :=
  noEscape_cons _ _ (digitChar_ne_ESC _) (noEscape_cons _ _ (digitChar_ne_ESC _) noEscape_nil)

theorem noEscape_pad4 (n : Nat) : NoEscape (pad4 n) :=
  noEscape_cons _ _ (digitChar_ne_ESC _) (noEscape_cons _ _ (digitChar_ne_ESC _)
    (noEscape_cons _ _ (digitChar_ne_ESC _) (noEscape_cons _ _ (digitChar_ne_ESC _) noEscape_nil)))

theorem noEscape_date (x : Date) : NoEscape x.print := by
  unfold Date.print
  have hsep : (if x.dashes then '-' else '/') ≠ ESC := by split <;> decide
  exact noEscape_append _ _ (noEscape_append _ _ (noEscape_append _ _ (noEscape_append _ _
    (noEscape_pad4 _) (noEscape_cons _ _ hsep noEscape_nil)) (noEscape_pad2 _))
    (noEscape_cons _ _ hsep noEscape_nil)) (noEscape_pad2 _)

theorem noEscape_time (t : Time) : NoEscape t.print := by
  rw [Time.print_eq]
  refine noEscape_append _ _ (noEscape_append _ _ (noEscape_append _ _ (noEscape_append _ _
    (noEscape_append _ _ ?_ (noEscape_natDigits _)) ?_) ?_) ?_) ?_
  · split
    · exact noEscape_cons _ _ (by decide) noEscape_nil
    · exact noEscape_nil
  · exact noEscape_cons _ _ (by decide) noEscape_nil
  · exact noEscape_pad2 _
  · cases t.printAp with
    | none => exact noEscape_nil
    | some b => cases b <;> exact noEscape_cons _ _ (by decide) (noEscape_cons _ _ (by decide) noEscape_nil)
  · split
    · exact noEscape_cons _ _ (by decide) noEscape_nil
    · exact noEscape_nil

theorem noEscape_dur (d : Dur) : NoEscape d.print := by
  unfold Dur.print
  split
  · refine noEscape_append _ _ ?_ (noEscape_cons _ _ (by decide) (noEscape_cons _ _ (by decide) noEscape_nil))
    split
    · exact noEscape_cons _ _ (by decide) noEscape_nil
    · split
      · exact noEscape_cons _ _ (by decide) noEscape_nil
      · exact noEscape_nil
  · simp only
    refine noEscape_append _ _ (noEscape_append _ _ ?_ ?_) ?_
    · split
      · exact noEscape_cons _ _ (by decide) noEscape_nil
      · split
        · exact noEscape_cons _ _ (by decide) noEscape_nil
        · exact noEscape_nil
    · split
      · exact noEscape_append _ _ (noEscape_natDigits _) (noEscape_cons _ _ (by decide) noEscape_nil)
      · exact noEscape_nil
    · split
      · exact noEscape_append _ _ (noEscape_natDigits _) (noEscape_cons _ _ (by decide) noEscape_nil)
      · exact noEscape_nil

theorem noEscape_sp (b : Bool) : NoEscape (if b then [' '] else []) := by
  cases b
  · exact noEscape_nil
  · exact noEscape_cons _ _ (by decide) noEscape_nil

theorem noEscape_val (v : EntryVal) : NoEscape v.print := by
  cases v with
  | range s e sp =>
    simp only [EntryVal.print]
    exact noEscape_append _ _ (noEscape_append _ _ (noEscape_append _ _ (noEscape_append _ _
      (noEscape_time s) (noEscape_sp sp)) (noEscape_cons _ _ (by decide) noEscape_nil)) (noEscape_sp sp))
      (noEscape_time e)
  | dur d => exact noEscape_dur d
  | openRange s sp x =>
    simp only [EntryVal.print]
    refine noEscape_append _ _ (noEscape_append _ _ (noEscape_append _ _ (noEscape_append _ _
      (noEscape_time s) (noEscape_sp sp)) (noEscape_cons _ _ (by decide) noEscape_nil)) (noEscape_sp sp)) ?_
    intro h
    have := List.eq_of_mem_replicate h
    exact absurd this (by decide)

/-- all strings a styler emits are concatenations of complete sequences -/
def SeqSt (st : Styler) : Prop := IsSeqs st.reset ∧ ∀ p, IsSeqs (st.seqs p)

theorem strip_format (st : Styler) (hs : SeqSt st) (p : StyleProps) (text X : List Char)
    (ht : NoEscape text) : strip (st.format p text ++ X) = text ++ strip X := by
  simp only [Styler.format, List.append_assoc]
  rw [strip_seqs_append _ _ (hs.2 p), strip_noEscape_append _ _ ht, strip_seqs_append _ _ hs.1]

theorem inert_nl : Inert ['\n'] := Or.inr ⟨'\n', [], rfl, by decide, by decide, by decide⟩

theorem strip_summary_append (u : UTab) (st : Styler) (hs : SeqSt st) (line X : List Char)
    (hu : u.isLetter ESC = false ∧ u.isLetter '[' = false) (hX : Inert X) :
    strip (styledSummary u st line ++ X) = strip line ++ strip X := by
  simp only [styledSummary, Styler.format, List.append_assoc]
  rw [strip_seqs_append _ _ (hs.2 _), ← List.append_assoc,
    strip_insert _ _ _ hs.1 (Or.inr hX), strip_append_inert _ _ hX,
    strip_wrapTags u _ _ (hs.2 _) (isSeqs_append _ _ hs.1 (hs.2 _)) line hu]

theorem strip_summary (u : UTab) (st : Styler) (hs : SeqSt st) (line : List Char)
    (hu : u.isLetter ESC = false ∧ u.isLetter '[' = false) :
    strip (styledSummary u st line) = strip line := by
  have := strip_summary_append u st hs line [] hu (Or.inl rfl)
  simpa [strip_nil] using this

end StripLemmas

open StripLemmas in
theorem styledSummary_strip (u : UTab) (st : Styler) (hs : IsSeqs st.reset ∧ ∀ p, IsSeqs (st.seqs p))
    (line : List Char) (hu : u.isLetter ESC = false ∧ u.isLetter '[' = false) :
    strip (styledSummary u st line ++ ['\n']) = strip (line ++ ['\n']) := by
  rw [strip_summary_append u st hs line _ hu inert_nl, strip_append_inert _ _ inert_nl]

namespace StripLemmas

theorem styledValue_format (st : Styler) (v : EntryVal) : ∃ p, styledValue st v = st.format p v.print := by
  cases v with
  | range s e sp => exact ⟨_, rfl⟩
  | dur d => exact ⟨_, rfl⟩
  | openRange s sp x => exact ⟨_, rfl⟩

theorem noEscape_indent : NoEscape canonicalIndent := by
  intro h; simp [canonicalIndent] at h; exact absurd h (by decide)

theorem strip_entryLines (u : UTab) (st : Styler) (hs : SeqSt st)
    (hu : u.isLetter ESC = false ∧ u.isLetter '[' = false) (e : Entry) :
    (styledEntryLines u st e).map strip = (entryLines e).map strip := by
  obtain ⟨v, sm⟩ := e
  obtain ⟨p, hp⟩ := styledValue_format st v
  simp only [styledEntryLines, entryLines, List.map_cons, List.map_map, hp]
  congr 1
  · simp only [List.append_assoc]
    rw [strip_noEscape_append _ _ noEscape_indent, strip_noEscape_append _ _ noEscape_indent,
      strip_format st hs p _ _ (noEscape_val v), strip_noEscape_append _ _ (noEscape_val v)]
    congr 2
    cases sm with
    | nil => rfl
    | cons l tl =>
      simp only
      split
      · rfl
      · rw [strip_cons_ne _ _ (by decide), strip_cons_ne _ _ (by decide), strip_summary u st hs l hu]
  · apply List.map_congr_left
    intro l _
    simp only [Function.comp, List.append_assoc]
    rw [strip_noEscape_append _ _ noEscape_indent, strip_noEscape_append _ _ noEscape_indent,
      strip_noEscape_append _ _ noEscape_indent, strip_noEscape_append _ _ noEscape_indent,
      strip_summary u st hs l hu]

theorem strip_recordLines (u : UTab) (st : Styler) (hs : SeqSt st)
    (hu : u.isLetter ESC = false ∧ u.isLetter '[' = false) (r : Record) :
    (styledRecordLines u st r).map strip = (recordLines r).map strip := by
  have h1 : List.map (strip ∘ styledSummary u st) r.summary = List.map strip r.summary := by
    apply List.map_congr_left
    intro l _
    exact strip_summary u st hs l hu
  have h2 : (fun a => List.map strip (styledEntryLines u st a)) = fun a => List.map strip (entryLines a) := by
    funext e
    exact strip_entryLines u st hs hu e
  simp only [styledRecordLines, recordLines, List.map_cons, List.map_append, List.map_map,
    List.map_flatMap]
  rw [h1, h2]
  congr 1
  rw [strip_format st hs _ _ _ (noEscape_date _), strip_noEscape_append _ _ (noEscape_date _)]
  congr 1
  split
  · have hd := noEscape_dur ⟨r.shouldMins, false, 0⟩
    have e1 : [' ', '('] ++ st.format { color := .purple } ((Dur.print ⟨r.shouldMins, false, 0⟩) ++ ['!']) ++ [')']
        = [' ', '('] ++ (st.format { color := .purple } ((Dur.print ⟨r.shouldMins, false, 0⟩) ++ ['!']) ++ [')']) := by
      simp only [List.append_assoc]
    have hsp : NoEscape [' ', '('] := noEscape_cons _ _ (by decide) (noEscape_cons _ _ (by decide) noEscape_nil)
    have hbang : NoEscape (Dur.print ⟨r.shouldMins, false, 0⟩ ++ ['!']) :=
      noEscape_append _ _ hd (noEscape_cons _ _ (by decide) noEscape_nil)
    rw [e1, strip_noEscape_append _ _ hsp, strip_format st hs _ _ _ hbang]
    have e2 : [' ', '('] ++ Dur.print ⟨r.shouldMins, false, 0⟩ ++ ['!', ')'] =
        [' ', '('] ++ ((Dur.print ⟨r.shouldMins, false, 0⟩ ++ ['!']) ++ [')']) := by simp
    rw [e2, strip_noEscape_append _ _ hsp, strip_noEscape_append _ _ hbang]
  · rfl

theorem strip_lines (ls : List (List Char)) (X : List Char) :
    strip (ls.flatMap (· ++ ['\n']) ++ X) = (ls.map strip).flatMap (· ++ ['\n']) ++ strip X := by
  induction ls with
  | nil => rfl
  | cons l ls ih =>
    simp only [List.flatMap_cons, List.map_cons, List.append_assoc, List.cons_append, List.nil_append]
    rw [strip_append_inert l _ (Or.inr ⟨'\n', _, rfl, by decide, by decide, by decide⟩)]
    rw [strip_cons_ne _ _ (by decide), ih]

end StripLemmas

open StripLemmas in
theorem styledPrint_strip (u : UTab) (st : Styler) (hs : IsSeqs st.reset ∧ ∀ p, IsSeqs (st.seqs p))
    (rs : List Record) (hu : u.isLetter ESC = false ∧ u.isLetter '[' = false) :
    strip (styledPrintRecords u st rs) = strip (printRecords rs) := by
  induction rs with
  | nil => rfl
  | cons r rs ih =>
    cases rs with
    | nil =>
      simp only [styledPrintRecords, printRecords]
      have h1 := strip_lines (styledRecordLines u st r) []
      have h2 := strip_lines (recordLines r) []
      simp only [List.append_nil] at h1 h2
      rw [h1, h2, strip_recordLines u st hs hu r]
    | cons r' rs =>
      simp only [styledPrintRecords, printRecords, List.append_assoc] at ih ⊢
      rw [strip_lines, strip_lines, strip_recordLines u st hs hu r]
      simp only [List.cons_append, List.nil_append]
      rw [strip_cons_ne _ _ (by decide), strip_cons_ne _ _ (by decide), ih]

/-! ## tables -/

namespace StripLemmas

theorem dangling_head (p : List Char) (h : Dangling p) : ∃ t, p = ESC :: t := by
  rcases h with rfl | ⟨b, rfl, _⟩ <;> exact ⟨_, rfl⟩

theorem dangling_prefix (c' b : List Char) (hne : c' ≠ []) (h : Dangling (c' ++ b)) : Dangling c' := by
  rcases h with h | ⟨body, h, hb⟩
  · match c', hne with
    | x :: c'', _ =>
      simp only [List.cons_append, List.cons.injEq, List.append_eq_nil_iff] at h
      obtain ⟨rfl, rfl, _⟩ := h
      exact Or.inl rfl
  · match c', hne with
    | [x], _ =>
      simp only [List.cons_append, List.cons.injEq] at h
      rw [h.1]; exact Or.inl rfl
    | x :: y :: c'', _ =>
      simp only [List.cons_append, List.cons.injEq] at h
      obtain ⟨rfl, rfl, rfl⟩ := h
      exact Or.inr ⟨c'', rfl, fun c hc => hb c (by simp [hc])⟩

theorem noDangling_append_noEscape (a b : List Char) (ha : NoDangling a) (hb : NoEscape b) :
    NoDangling (a ++ b) := by
  intro pre p e hd
  obtain ⟨t, ht⟩ := dangling_head p hd
  rcases List.append_eq_append_iff.1 e with ⟨a', _, h⟩ | ⟨c', h1, h⟩
  · exact hb (by rw [h, ht]; simp)
  · cases c' with
    | nil => exact hb (by rw [List.nil_append] at h; rw [← h, ht]; simp)
    | cons d c' =>
      rw [h] at hd
      exact ha pre _ h1 (dangling_prefix _ b (by simp) hd)

theorem noEscape_append_noDangling (a b : List Char) (ha : NoEscape a) (hb : NoDangling b) :
    NoDangling (a ++ b) := by
  intro pre p e hd
  obtain ⟨t, ht⟩ := dangling_head p hd
  rcases List.append_eq_append_iff.1 e with ⟨a', _, h⟩ | ⟨c', h1, h⟩
  · exact hb a' p h hd
  · cases c' with
    | nil => exact hb [] p (by simpa using h.symm) hd
    | cons d c' =>
      rw [ht] at h
      simp only [List.cons_append, List.cons.injEq] at h
      exact ha (by rw [h1, ← h.1]; simp)

theorem noEscape_replicate (k : Nat) : NoEscape (List.replicate k ' ') := by
  intro h
  exact absurd (List.eq_of_mem_replicate h) (by decide)

theorem renderCell_spec (w : Nat) (c : Cell) (hf : c.fill = false) (hnd : NoDangling c.value) :
    NoDangling (renderCell w c) ∧ (c.len ≤ w → (strip (renderCell w c)).length = w) := by
  simp only [renderCell, hf, Bool.false_eq_true, if_false]
  split
  · refine ⟨noEscape_append_noDangling _ _ (noEscape_replicate _) hnd, fun hle => ?_⟩
    rw [strip_noEscape_append _ _ (noEscape_replicate _)]
    simp only [List.length_append, List.length_replicate, Cell.len] at hle ⊢
    omega
  · refine ⟨noDangling_append_noEscape _ _ hnd (noEscape_replicate _), fun hle => ?_⟩
    rw [strip_append_nd _ _ hnd, strip_noEscape _ (noEscape_replicate _)]
    simp only [List.length_append, List.length_replicate, Cell.len] at hle ⊢
    omega

theorem row_len (sep : List Char) (hsep : NoEscape sep) :
    ∀ (row : List Cell) (ws : List Nat), row.length = ws.length → row ≠ [] →
      (∀ (i : Nat) (c : Cell) (w : Nat), row[i]? = some c → ws[i]? = some w → c.len ≤ w) →
      (∀ c ∈ row, c.fill = false ∧ NoDangling c.value) →
      (strip (((row.zip ws).map (fun x => renderCell x.snd x.fst)).intersperse sep).flatten).length =
        ws.sum + (row.length - 1) * sep.length := by
  intro row
  induction row with
  | nil => intro ws _ h; exact absurd rfl h
  | cons c row ih =>
    intro ws hlen _ hle hc
    cases ws with
    | nil => simp at hlen
    | cons w ws =>
      obtain ⟨hnd, hl⟩ := renderCell_spec w c (hc c (by simp)).1 (hc c (by simp)).2
      have hl := hl (hle 0 c w rfl rfl)
      cases row with
      | nil =>
        cases ws with
        | nil =>
          simp only [List.zip_cons_cons, List.zip_nil_right, List.map_cons, List.map_nil,
            List.intersperse_singleton, List.flatten_cons, List.flatten_nil, List.append_nil, hl]
          simp
        | cons => simp at hlen
      | cons c2 row =>
        cases ws with
        | nil => simp at hlen
        | cons w2 ws =>
          have ih' := ih (w2 :: ws) (by simpa using hlen) (by simp)
            (fun i c w h1 h2 => hle (i + 1) c w (by simpa using h1) (by simpa using h2))
            (fun c hm => hc c (List.mem_cons_of_mem _ hm))
          simp only [List.zip_cons_cons, List.map_cons, List.intersperse_cons_cons,
            List.flatten_cons] at ih' ⊢
          rw [strip_append_nd _ _ hnd, strip_noEscape_append _ _ hsep]
          simp only [List.length_append, hl, ih', List.sum_cons, List.length_cons]
          simp only [Nat.add_sub_cancel, Nat.succ_mul]
          omega

def Inv (ncols : Nat) (ws : List Nat) (cs : List Cell) : Prop :=
  cs.length % ncols = 0 ∧
  (∀ (i : Nat) (c : Cell) (w : Nat), cs[i]? = some c → ws[i % ncols]? = some w → c.len ≤ w) ∧
  (∀ c ∈ cs, c.fill = false ∧ NoDangling c.value)

theorem go_aligned (ncols : Nat) (sep : List Char) (ws : List Nat) (hn : 0 < ncols)
    (hws : ws.length = ncols) (hsep : NoEscape sep) :
    ∀ (fuel : Nat) (cs : List Cell), Inv ncols ws cs →
      ∀ row ∈ renderRows.go ncols sep ws fuel cs,
        (strip row).length = ws.sum + (ncols - 1) * sep.length := by
  intro fuel
  induction fuel with
  | zero => intro cs _ row h; simp [renderRows.go] at h
  | succ fuel ih =>
    intro cs hinv row hrow
    cases cs with
    | nil => simp [renderRows.go] at hrow
    | cons c0 cs0 =>
      simp only [renderRows.go, List.mem_cons] at hrow
      obtain ⟨h1, h2, h3⟩ := hinv
      have hge : ncols ≤ (c0 :: cs0).length := by
        apply Nat.le_of_not_lt
        intro hlt
        rw [Nat.mod_eq_of_lt hlt] at h1
        simp at h1
      rcases hrow with rfl | hrow
      · have htl : ((c0 :: cs0).take ncols).length = ncols := by
          rw [List.length_take]; omega
        have := row_len sep hsep ((c0 :: cs0).take ncols) ws (by rw [htl, hws])
          (by intro e; rw [e] at htl; simp at htl; omega)
          (fun i c w hi hw => by
            rw [List.getElem?_take] at hi
            split at hi
            · rename_i hlt
              exact h2 i c w hi (by rw [Nat.mod_eq_of_lt hlt]; exact hw)
            · cases hi)
          (fun c hm => h3 c (List.mem_of_mem_take hm))
        rw [htl] at this
        exact this
      · apply ih ((c0 :: cs0).drop ncols) ?_ row hrow
        refine ⟨?_, ?_, ?_⟩
        · rw [List.length_drop, ← Nat.mod_eq_sub_mod hge]; exact h1
        · intro i c w hi hw
          rw [List.getElem?_drop] at hi
          exact h2 (ncols + i) c w hi (by rw [Nat.add_mod_left]; exact hw)
        · exact fun c hm => h3 c (List.mem_of_mem_drop hm)

theorem le_foldl_max (l : List Nat) : ∀ (init : Nat), init ≤ l.foldl max init ∧ ∀ x ∈ l, x ≤ l.foldl max init := by
  induction l with
  | nil => intro init; simp
  | cons a l ih =>
    intro init
    simp only [List.foldl_cons]
    obtain ⟨h1, h2⟩ := ih (max init a)
    refine ⟨by omega, fun x hx => ?_⟩
    rcases List.mem_cons.1 hx with rfl | hx
    · omega
    · exact h2 x hx

theorem columnWidths_length (ncols : Nat) (cells : List Cell) : (columnWidths ncols cells).length = ncols := by
  simp [columnWidths]

theorem columnWidths_le (ncols : Nat) (cells : List Cell) (i : Nat) (c : Cell) (w : Nat)
    (hc : cells[i]? = some c) (hw : (columnWidths ncols cells)[i % ncols]? = some w) : c.len ≤ w := by
  simp only [columnWidths, List.getElem?_map] at hw
  cases hr : (List.range ncols)[i % ncols]? with
  | none => rw [hr] at hw; cases hw
  | some j =>
    rw [hr] at hw
    simp only [Option.map_some, Option.some.injEq] at hw
    have hj : j = i % ncols := by
      have := List.getElem?_eq_some_iff.1 hr
      obtain ⟨_, h⟩ := this
      simpa using h.symm
    subst hj
    rw [← hw]
    apply (le_foldl_max _ 0).2
    apply List.mem_map.2
    refine ⟨(c, i), ?_, rfl⟩
    apply List.mem_filter.2
    refine ⟨List.mem_zipIdx_iff_getElem?.2 hc, by simp⟩

end StripLemmas

open StripLemmas in
theorem renderRows_aligned (ncols : Nat) (sep : List Char) (cells : List Cell) (hn : 0 < ncols)
    (hfull : cells.length % ncols = 0) (hsep : strip sep = sep ∧ NoEscape sep)
    (hc : ∀ c ∈ cells, c.fill = false ∧ NoDangling c.value) :
    ∀ row ∈ renderRows ncols sep cells,
      (strip row).length = (columnWidths ncols cells).sum + (ncols - 1) * sep.length := by
  intro row hrow
  simp only [renderRows] at hrow
  exact go_aligned ncols sep (columnWidths ncols cells) hn (columnWidths_length _ _) hsep.2
    cells.length cells ⟨hfull, columnWidths_le ncols cells, hc⟩ row hrow

end KlogV
