/- Helper lemmas for KlogV/Lemmas/GoCalC.lean: spec lemmas of the translated date functions on `x.toGo`. Core Lean only. -/
import KlogV.GoSem.AbsCal
import KlogV.Lemmas.Patterns3
set_option linter.unusedSimpArgs false
namespace KlogV.GoL.C
open KlogV.Go
open KlogV.PatternLemmas

theorem c_daysInInt (y m : Nat) : daysInInt (y : Int) (m : Int) = (daysIn y m : Int) := by
  unfold daysInInt daysIn isLeapInt isLeap
  have e1 : (((y:Int) % 4 == 0) = (y % 4 == 0)) := by
    rw [Bool.eq_iff_iff]; simp only [beq_iff_eq]; omega
  have e2 : (((y:Int) % 100 != 0) = (y % 100 != 0)) := by
    rw [Bool.eq_iff_iff]; simp only [bne_iff_ne, ne_eq]; omega
  have e3 : (((y:Int) % 400 == 0) = (y % 400 == 0)) := by
    rw [Bool.eq_iff_iff]; simp only [beq_iff_eq]; omega
  have f2 : (((m:Int) == 2) = (m == 2)) := by rw [Bool.eq_iff_iff]; simp only [beq_iff_eq]; omega
  have f4 : (((m:Int) == 4) = (m == 4)) := by rw [Bool.eq_iff_iff]; simp only [beq_iff_eq]; omega
  have f6 : (((m:Int) == 6) = (m == 6)) := by rw [Bool.eq_iff_iff]; simp only [beq_iff_eq]; omega
  have f9 : (((m:Int) == 9) = (m == 9)) := by rw [Bool.eq_iff_iff]; simp only [beq_iff_eq]; omega
  have f11 : (((m:Int) == 11) = (m == 11)) := by rw [Bool.eq_iff_iff]; simp only [beq_iff_eq]; omega
  rw [e1, e2, e3, f2, f4, f6, f9, f11]
  split
  · split <;> rfl
  · split <;> rfl

theorem c_newDate (y m d : Nat) :
    GoCal.NewDate y m d = match mkDate y m d with
      | some x => .ok x.toGo
      | none => .error (.err "UNREPRESENTABLE_DATE") := by
  simp only [GoCal.NewDate, GoCal.civil2Date, GoCal.DefaultDateFormat, CivilDate.IsValid, c_daysInInt, bind, Except.bind, pure, Except.pure, mkDate, Date.valid, lt, gt, toInt, GToInt.toInt, id, throw, throwThe, MonadExceptOf.throw]
  by_cases h : (1 ≤ m ∧ m ≤ 12 ∧ 1 ≤ d ∧ d ≤ daysIn y m)
  · have h' : ((1:Int) ≤ m ∧ (m:Int) ≤ 12 ∧ (1:Int) ≤ d ∧ (d:Int) ≤ daysIn y m) := by omega
    by_cases hy : y ≤ 9999
    · simp [h, h', hy, Date.toGo]; omega
    · simp [h, h', hy, Date.toGo]; omega
  · have h' : ¬ ((1:Int) ≤ m ∧ (m:Int) ≤ 12 ∧ (1:Int) ≤ d ∧ (d:Int) ≤ daysIn y m) := by omega
    have h2 : ¬ ((((y ≤ 9999 ∧ 1 ≤ m) ∧ m ≤ 12) ∧ 1 ≤ d) ∧ d ≤ daysIn y m) := by omega
    simp [h', h2]
    omega

/-- the civil date of `x.toGo`, read back as a model date, is `x` (for the default format) -/
theorem c_toModel (x : Date) (hd : x.dashes = true) :
    (CivilDate.mk x.y x.m x.d).toModel = x := by
  cases x with
  | mk y m d ds => simp at hd; subst hd; simp [CivilDate.toModel]

theorem c_weekday (x : Date) (hd : x.dashes = true) : x.toGo.Weekday = .ok (x.weekday : Int) := by
  have hw := weekday_bounds x
  simp only [GoCal.date.Weekday, GoCal.date2Civil, CivilDate.In, GoTime.Weekday, Date.toGo, c_toModel x hd, bind, Except.bind, pure, Except.pure, toInt, GToInt.toInt, id]
  by_cases h7 : x.weekday = 7
  · simp [h7]
  · have : ¬ ((x.weekday : Int) = 0) := by omega
    simp [h7, this]; omega

theorem c_weekNumber (x : Date) (hd : x.dashes = true) :
    x.toGo.WeekNumber = .ok (x.isoWeek.1, (x.isoWeek.2 : Int)) := by
  simp only [GoCal.date.WeekNumber, GoCal.date2Civil, CivilDate.In, GoTime.ISOWeek, Date.toGo, c_toModel x hd, bind, Except.bind, pure, Except.pure]

theorem c_nextDay_dashes (x : Date) : (nextDay x).dashes = x.dashes := by
  unfold nextDay; split
  · rfl
  · split <;> rfl

theorem c_prevDay_dashes (x : Date) : (prevDay x).dashes = x.dashes := by
  unfold prevDay; split
  · rfl
  · split <;> rfl

theorem c_fwd_dashes (n : Nat) (x r : Date) (h : plusDaysFwd n x = some r) : r.dashes = x.dashes := by
  induction n generalizing x with
  | zero => simp [plusDaysFwd] at h; subst h; rfl
  | succ n ih =>
    unfold plusDaysFwd at h
    split at h
    · cases h
    · rw [ih _ h, c_nextDay_dashes]

theorem c_bwd_dashes (n : Nat) (x r : Date) (h : plusDaysBwd n x = some r) : r.dashes = x.dashes := by
  induction n generalizing x with
  | zero => simp [plusDaysBwd] at h; subst h; rfl
  | succ n ih =>
    unfold plusDaysBwd at h
    split at h
    · cases h
    · rw [ih _ h, c_prevDay_dashes]

theorem c_plusDays_dashes (x r : Date) (n : Int) (h : x.plusDays n = some r) : r.dashes = x.dashes := by
  unfold Date.plusDays at h
  split at h
  · exact c_fwd_dashes _ _ _ h
  · exact c_bwd_dashes _ _ _ h

theorem c_civil2Date (r : Date) (hv : r.valid = true) (hd : r.dashes = true) :
    GoCal.civil2Date (CivilDate.ofModel r) ⟨true⟩ = .ok r.toGo := by
  have hv' := hv
  simp only [Date.valid, Bool.and_eq_true, decide_eq_true_eq] at hv'
  have h' : ((1:Int) ≤ r.m ∧ (r.m:Int) ≤ 12 ∧ (1:Int) ≤ r.d ∧ (r.d:Int) ≤ daysIn r.y r.m) := by omega
  have hy : ¬ ((r.y : Int) < 0 ∨ 9999 < (r.y : Int)) := by omega
  show GoCal.civil2Date ⟨r.y, r.m, r.d⟩ ⟨true⟩ = _
  simp only [GoCal.civil2Date, CivilDate.IsValid, c_daysInInt, bind, Except.bind, pure, Except.pure, lt, gt, toInt, GToInt.toInt, id, throw, throwThe, MonadExceptOf.throw]
  simp [h', Date.toGo, hd]
  omega

theorem c_plusDays (x : Date) (n : Int) (hv : x.valid = true) (hd : x.dashes = true) :
    x.toGo.PlusDays n = match x.plusDays n with
      | some r => .ok r.toGo
      | none => .error .panic := by
  have hv' := hv
  simp only [Date.valid, Bool.and_eq_true, decide_eq_true_eq] at hv'
  have hy : (0:Int) ≤ x.y ∧ (x.y:Int) ≤ 9999 := by omega
  simp only [GoCal.date.PlusDays, GoCal.date2Civil, CivilDate.AddDays, Date.toGo, c_toModel x hd, hy, and_self, if_true, bind, Except.bind, pure, Except.pure]
  cases hp : x.plusDays n with
  | some r =>
    have hr := plusDays_some x r n hv hp
    have hrd : r.dashes = true := by rw [c_plusDays_dashes x r n hp, hd]
    simp only [pure, Except.pure, hd, c_civil2Date r hr.1 hrd, try2]
    simp [isNil, GNil.isNil, Date.toGo]
  | none =>
    simp only [pure, Except.pure, GoCal.civil2Date, CivilDate.IsValid, bind, Except.bind, lt, gt, toInt, GToInt.toInt, id, throw, throwThe, MonadExceptOf.throw]
    by_cases hn : n < 0
    · simp [hn, daysInInt, try2, isNil, GNil.isNil, pure, Except.pure]
    · simp [hn, daysInInt, try2, isNil, GNil.isNil, pure, Except.pure]

end KlogV.GoL.C
