/-
C03 lemmas, command level, part 1: a parsed record has at most as many entry lines (summary lines of
its entries) as its block has significant lines after the headline.
-/
import KlogV.Model.Reconciler
import KlogV.Model.Commands
namespace KlogV.CommandEditsLemmas

def pendLen (st : PState) : Nat :=
  match st.pending with
  | none => 0
  | some p => p.summary.length

theorem countLines_snoc (es : List Entry) (e : Entry) : countLines (es ++ [e]) = countLines es + e.summary.length := by
  simp [countLines, List.sum_append]

theorem commit_count (st : PState) :
    countLines st.commit.entries + pendLen st.commit ≤ countLines st.entries + pendLen st := by
  unfold PState.commit
  cases hp : st.pending with
  | none => simp [pendLen, hp]
  | some p =>
    dsimp only
    split
    · simp [pendLen, hp]
    · simp [pendLen, hp, countLines_snoc]

theorem commit_pending (st : PState) : st.commit.pending = none := by
  unfold PState.commit
  cases hp : st.pending with
  | none => simp [hp]
  | some p =>
    dsimp only
    split <;> rfl

theorem commit_count' (st : PState) :
    countLines st.commit.entries ≤ countLines st.entries + pendLen st := by
  have := commit_count st
  omega

theorem pendLen_none (st : PState) (h : st.pending = none) : pendLen st = 0 := by
  simp [pendLen, h]

theorem pendLen_some (st : PState) (p : Pending) (h : st.pending = some p) : pendLen st = p.summary.length := by
  simp [pendLen, h]

theorem step_aux (x st : PState) (h1 : x.pending = none) (h2 : x.entries = st.commit.entries) :
    countLines x.entries + pendLen x ≤ countLines st.entries + pendLen st + 1 := by
  have hc := commit_count' st
  rw [pendLen_none _ h1, h2]
  omega

theorem step_count (style : List Char) (st : PState) (nr : Nat) (l : List Char) :
    countLines (entryStep style st nr l).entries + pendLen (entryStep style st nr l) ≤
      countLines st.entries + pendLen st + 1 := by
  have hc := commit_count' st
  have hcp := commit_pending st
  unfold entryStep
  split
  · omega
  · dsimp only
    split
    · rename_i p hp1 hp2
      have e := pendLen_some st p hp1
      split
      · rw [pendLen_some _ _ rfl]
        simp only [List.length_append, List.length_cons, List.length_nil]
        omega
      · exact step_aux _ st hcp rfl
    · repeat' split
      all_goals first
        | exact step_aux _ st hcp rfl
        | (rw [pendLen_some _ _ rfl]; simp only [List.length_cons, List.length_nil]; omega)

theorem go_count (style : List Char) : ∀ (ls : List (List Char)) (st : PState) (nr : Nat),
    countLines (entriesGo style st nr ls).entries ≤ countLines st.entries + pendLen st + ls.length
  | [], st, nr => by
    unfold entriesGo
    have := commit_count' st
    simpa using this
  | l :: ls, st, nr => by
    unfold entriesGo
    have h1 := go_count style ls (entryStep style st nr l) (nr + 1)
    have h2 := step_count style st nr l
    simp only [List.length_cons]
    omega

theorem summaryGo_rest : ∀ (ls : List (List Char)) (nr : Nat), (summaryGo nr ls).2.2.2.length ≤ ls.length
  | [], nr => by simp [summaryGo]
  | l :: ls, nr => by
    unfold summaryGo
    have ih := summaryGo_rest ls (nr + 1)
    split
    · simp
    · generalize summaryGo (nr + 1) ls = sg at ih ⊢
      obtain ⟨sum, errs, nr', rest⟩ := sg
      dsimp only at ih ⊢
      split <;> (simp only [List.length_cons]; omega)

theorem parseRecord_count (off : Nat) (lines : List (List Char)) (r : Record)
    (h : parseRecord off lines = .record r) : countLines r.entries + 1 ≤ lines.length := by
  unfold parseRecord at h
  cases lines with
  | nil => cases h
  | cons hl rest =>
    dsimp only at h
    split at h
    · cases h
    · cases h
    · rename_i head herrs _
      have hs := summaryGo_rest rest (off + 1)
      generalize summaryGo (off + 1) rest = sg at h hs
      obtain ⟨sum, serrs, nr, rest2⟩ := sg
      dsimp only at h hs
      have hg := go_count ((rest2.head?.bind indentatorOf).getD []) rest2 {} nr
      split at h
      · cases h
      · split at h
        · cases h
          simp only [List.length_cons]
          simp only [pendLen, countLines, List.map_nil, List.sum_nil] at hg
          dsimp only [countLines] at hg ⊢
          omega
        · cases h

theorem parseBlock_count (b : List Line) (r : Record) (h : parseBlock b = .record r) :
    countLines r.entries + 1 ≤ (significant b).1.length := by
  unfold parseBlock at h
  generalize significant b = sg at h ⊢
  obtain ⟨sig, head, tl⟩ := sg
  dsimp only at h ⊢
  have := parseRecord_count _ _ _ h
  simpa using this

/-! ## entries -/

theorem countLines_cons (e : Entry) (es : List Entry) : countLines (e :: es) = e.summary.length + countLines es := by
  simp [countLines]

theorem countLines_drop_le : ∀ (es : List Entry) (k : Nat), countLines (es.drop k) ≤ countLines es
  | [], k => by simp
  | e :: es, 0 => by simp
  | e :: es, k + 1 => by
    have := countLines_drop_le es k
    rw [List.drop_succ_cons, countLines_cons]
    omega

theorem countLines_drop_ge (es : List Entry) (k : Nat) (e : Entry) (h : es[k]? = some e) :
    e.summary.length ≤ countLines (es.drop k) := by
  induction es generalizing k with
  | nil => simp at h
  | cons x es ih =>
    cases k with
    | zero =>
      simp at h; subst h
      rw [List.drop_zero, countLines_cons]; omega
    | succ k =>
      rw [List.drop_succ_cons]
      exact ih k (by simpa using h)

theorem endOpenRange_summary (e : Time) : ∀ (es es' : List Entry), endOpenRange e es = some es' →
    es'.map (·.summary) = es.map (·.summary)
  | [], es', h => by simp [endOpenRange] at h
  | x :: xs, es', h => by
    unfold endOpenRange at h
    split at h
    · split at h
      · cases h; rfl
      · cases h
    · cases hx : endOpenRange e xs with
      | none => rw [hx] at h; cases h
      | some ys =>
        rw [hx] at h
        simp only [Option.map_some, Option.some.injEq] at h
        subst h
        simp only [List.map_cons]
        rw [endOpenRange_summary e xs ys hx]

end KlogV.CommandEditsLemmas
