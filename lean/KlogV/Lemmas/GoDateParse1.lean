/- Helper lemmas for KlogV/Lemmas/GoDateParse.lean, part 1: the submatch contract of the date pattern. Core Lean only. -/
import KlogV.GoSem.AbsDate
import KlogV.Props.GoRx
import KlogV.Props.Rx.Values
import KlogV.Props.Rx.Model
namespace KlogV.GoL.DP
open KlogV.Go KlogV.Rx KlogV.RxM KlogV.GoL.Rx

set_option linter.unusedSimpArgs false

/-- the pattern of the code denotes the expected marked language (decided in the kernel by the verified checker) -/

theorem range3 : List.range 3 = [0, 1, 2] := by decide

theorem erase_date_marked (y1 y2 y3 y4 a m1 m2 b d1 d2 : Char) :
    erase (openSym 1 :: codes [y1, y2, y3, y4] ++ closeSym 1 :: a.toNat ::
            openSym 2 :: codes [m1, m2] ++ closeSym 2 :: b.toNat ::
            openSym 3 :: codes [d1, d2] ++ [closeSym 3]) = codes [y1, y2, y3, y4, a, m1, m2, b, d1, d2] := by
  simp only [codes_cons, codes_nil, List.cons_append, List.nil_append, erase_cons_ge (openSym_ge _),
    erase_cons_ge (closeSym_ge _), erase_toNat, erase_nil]

theorem date_groupTexts (y1 y2 y3 y4 a m1 m2 b d1 d2 : Char) :
    (List.range 3).map (fun i => groupText
      (openSym 1 :: codes [y1, y2, y3, y4] ++ closeSym 1 :: a.toNat ::
            openSym 2 :: codes [m1, m2] ++ closeSym 2 :: b.toNat ::
            openSym 3 :: codes [d1, d2] ++ [closeSym 3]) (i + 1)) =
    [[y1, y2, y3, y4], [m1, m2], [d1, d2]] := by
  rw [range3]
  simp (disch := decide) only [List.map_cons, List.map_nil, groupText_eq, List.nil_append,
      List.cons_append, List.append_assoc, codes_cons, codes_nil,
      List.append_nil, Nat.zero_add, Nat.reduceAdd,
      dw_nil, dw_cons_eq, tw_nil, tw_cons_eq, List.drop_one, List.tail_cons,
      List.drop_succ_cons, List.drop_zero, List.drop_nil, List.tail_nil,
      dw_open_open, dw_close_open, dw_toNat_open, tw_open_close, tw_close_close, tw_toNat_close,
      erase_append, erase_cons_ge (openSym_ge _), erase_cons_ge (closeSym_ge _), erase_toNat, erase_nil,
      List.map_append, Char.ofNat_toNat]

theorem dateFind_of_spec (env : Env) (re : Re) (hre : ∀ env m, Matches env (mark re) m ↔ Matches env (mark Expect.date) m)
    (find : Str → List Str) (h : SubmatchSpec env re 3 find) :
    DateFind find := by
  refine ⟨?_, ?_⟩
  · intro y1 y2 y3 y4 a m1 m2 b d1 d2 hdig ha hb
    have hm := (Regexes.date_marked env _).2 ⟨y1, y2, y3, y4, a, m1, m2, b, d1, d2, hdig, ha, hb, rfl⟩
    have hf := (h _).1 _ ((hre env _).2 hm) (erase_date_marked y1 y2 y3 y4 a m1 m2 b d1 d2)
    rw [date_groupTexts] at hf
    exact hf
  · intro s hs
    refine (h s).2 ?_
    rintro ⟨m, hm, he⟩
    obtain ⟨y1, y2, y3, y4, a, m1, m2, b, d1, d2, hdig, ha, hb, rfl⟩ :=
      (Regexes.date_marked env m).1 ((hre env m).1 hm)
    rw [erase_date_marked, codes_inj] at he
    exact hs env ((Regexes.date_shape env s).2 ⟨y1, y2, y3, y4, a, m1, m2, b, d1, d2, he.symm, hdig, ha, hb⟩)

end KlogV.GoL.DP
