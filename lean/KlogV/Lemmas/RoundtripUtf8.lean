/- Round trip (C09), part 2: UTF-8 encode/decode. -/
import KlogV.Model.Utf8
import KlogV.Lemmas.Cut
namespace KlogV

theorem u8 (n : Nat) (h : n < 256) : n.toUInt8.toNat = n := by
  simp [Nat.toUInt8_eq, UInt8.toNat_ofNat', Nat.mod_eq_of_lt h]

theorem char_valid (c : Char) : c.toNat < 0xD800 ∨ (0xDFFF < c.toNat ∧ c.toNat < 0x110000) := by
  have := c.valid
  simp only [UInt32.isValidChar, Nat.isValidChar] at this
  exact this

theorem isCont_u8 (n : Nat) (h1 : 0x80 ≤ n) (h2 : n ≤ 0xBF) : isCont n.toUInt8 = true := by
  unfold isCont
  simp only [Bool.and_eq_true, decide_eq_true_eq, UInt8.le_iff_toNat_le, u8 n (by omega)]
  exact ⟨h1, h2⟩

theorem decodeRune1 (n : Nat) (rest : Bytes) (h : n < 0x80) :
    decodeRune (n.toUInt8 :: rest) = (Char.ofNat n, 1) := by
  simp only [decodeRune, u8 n (by omega), h, if_true]


theorem decodeRune2 (a b : Nat) (rest : Bytes) (ha1 : 0xC2 ≤ a) (ha2 : a < 0xE0)
    (hb1 : 0x80 ≤ b) (hb2 : b ≤ 0xBF) :
    decodeRune (a.toUInt8 :: b.toUInt8 :: rest) = (Char.ofNat ((a % 32) * 64 + b % 64), 2) := by
  have c1 : ¬ a < 0x80 := by omega
  have c2 : ¬ (a < 0xC2 ∨ a > 0xF4) := by omega
  simp only [decodeRune, u8 a (by omega), u8 b (by omega), c1, c2, ha2, isCont_u8 b hb1 hb2,
    if_true, if_false, Bool.or_eq_true, decide_eq_true_eq]

theorem decodeRune3 (a b c : Nat) (rest : Bytes) (ha1 : 0xE0 ≤ a) (ha2 : a < 0xF0)
    (hb1 : 0x80 ≤ b) (hb2 : b ≤ 0xBF) (hc1 : 0x80 ≤ c) (hc2 : c ≤ 0xBF)
    (hlo : a = 0xE0 → 0xA0 ≤ b) (hhi : a = 0xED → b ≤ 0x9F) :
    decodeRune (a.toUInt8 :: b.toUInt8 :: c.toUInt8 :: rest) =
      (Char.ofNat ((a % 16) * 4096 + (b % 64) * 64 + c % 64), 3) := by
  have c1 : ¬ a < 0x80 := by omega
  have c2 : ¬ (a < 0xC2 ∨ a > 0xF4) := by omega
  have c3 : ¬ a < 0xE0 := by omega
  have c4 : ((if (a == 0xE0) = true then 0xA0 else 0x80) ≤ b) := by
    split
    · rename_i h; exact hlo (by simpa using h)
    · exact hb1
  have c5 : (b ≤ (if (a == 0xED) = true then 0x9F else 0xBF)) := by
    split
    · rename_i h; exact hhi (by simpa using h)
    · exact hb2
  simp only [decodeRune, u8 a (by omega), u8 b (by omega), u8 c (by omega), c1, c2, c3, ha2,
    isCont_u8 c hc1 hc2, c4, c5,
    if_true, if_false, Bool.or_eq_true, Bool.and_eq_true, decide_eq_true_eq, and_self]

theorem decodeRune4 (a b c d : Nat) (rest : Bytes) (ha1 : 0xF0 ≤ a) (ha2 : a ≤ 0xF4)
    (hb1 : 0x80 ≤ b) (hb2 : b ≤ 0xBF) (hc1 : 0x80 ≤ c) (hc2 : c ≤ 0xBF) (hd1 : 0x80 ≤ d) (hd2 : d ≤ 0xBF)
    (hlo : a = 0xF0 → 0x90 ≤ b) (hhi : a = 0xF4 → b ≤ 0x8F) :
    decodeRune (a.toUInt8 :: b.toUInt8 :: c.toUInt8 :: d.toUInt8 :: rest) =
      (Char.ofNat ((a % 8) * 262144 + (b % 64) * 4096 + (c % 64) * 64 + d % 64), 4) := by
  have c1 : ¬ a < 0x80 := by omega
  have c2 : ¬ (a < 0xC2 ∨ a > 0xF4) := by omega
  have c3 : ¬ a < 0xE0 := by omega
  have c3' : ¬ a < 0xF0 := by omega
  have c4 : ((if (a == 0xF0) = true then 0x90 else 0x80) ≤ b) := by
    split
    · rename_i h; exact hlo (by simpa using h)
    · exact hb1
  have c5 : (b ≤ (if (a == 0xF4) = true then 0x8F else 0xBF)) := by
    split
    · rename_i h; exact hhi (by simpa using h)
    · exact hb2
  simp only [decodeRune, u8 a (by omega), u8 b (by omega), u8 c (by omega), u8 d (by omega),
    c1, c2, c3, c3', isCont_u8 c hc1 hc2, isCont_u8 d hd1 hd2, c4, c5,
    if_true, if_false, Bool.or_eq_true, Bool.and_eq_true, decide_eq_true_eq, and_self]

theorem decodeRune_encodeChar (c : Char) (rest : Bytes) :
    decodeRune (encodeChar c ++ rest) = (c, (encodeChar c).length) := by
  have hv := char_valid c
  have hc : Char.ofNat c.toNat = c := Char.ofNat_toNat c
  unfold encodeChar
  dsimp only
  generalize c.toNat = n at hv hc
  by_cases h1 : n < 0x80
  · simp only [h1, if_true, List.cons_append, List.nil_append, List.length_cons, List.length_nil]
    rw [decodeRune1 n rest h1, hc]
  · by_cases h2 : n < 0x800
    · simp only [h1, h2, if_true, if_false, List.cons_append, List.nil_append, List.length_cons, List.length_nil]
      rw [decodeRune2 _ _ rest (by omega) (by omega) (by omega) (by omega)]
      have : (0xC0 + n / 64) % 32 * 64 + (0x80 + n % 64) % 64 = n := by omega
      rw [this, hc]
    · by_cases h3 : n < 0x10000
      · simp only [h1, h2, h3, if_true, if_false, List.cons_append, List.nil_append, List.length_cons, List.length_nil]
        rw [decodeRune3 _ _ _ rest (by omega) (by omega) (by omega) (by omega) (by omega) (by omega)
          (by omega) (by omega)]
        have : (0xE0 + n / 4096) % 16 * 4096 + (0x80 + n / 64 % 64) % 64 * 64 + (0x80 + n % 64) % 64 = n := by
          omega
        rw [this, hc]
      · simp only [h1, h2, h3, if_false, List.cons_append, List.nil_append, List.length_cons, List.length_nil]
        rw [decodeRune4 _ _ _ _ rest (by omega) (by omega) (by omega) (by omega) (by omega) (by omega)
          (by omega) (by omega) (by omega) (by omega)]
        have : (0xF0 + n / 262144) % 8 * 262144 + (0x80 + n / 4096 % 64) % 64 * 4096 +
            (0x80 + n / 64 % 64) % 64 * 64 + (0x80 + n % 64) % 64 = n := by
          omega
        rw [this, hc]


theorem encode_nil : encode [] = [] := rfl
theorem encode_cons (c : Char) (cs : List Char) : encode (c :: cs) = encodeChar c ++ encode cs := by
  simp [encode]
theorem encode_append (a b : List Char) : encode (a ++ b) = encode a ++ encode b := by
  simp [encode]

theorem encodeChar_cons (c : Char) : ∃ b bs, encodeChar c = b :: bs := by
  unfold encodeChar
  dsimp only
  split
  · exact ⟨_, _, rfl⟩
  · split
    · exact ⟨_, _, rfl⟩
    · split <;> exact ⟨_, _, rfl⟩

theorem decodeGoAux_encode (cs : List Char) : ∀ fuel, (encode cs).length ≤ fuel →
    decodeGoAux fuel (encode cs) = cs := by
  induction cs with
  | nil => intro fuel _; cases fuel <;> rfl
  | cons c cs ih =>
    intro fuel hf
    rw [encode_cons] at hf ⊢
    obtain ⟨b, bs, e⟩ := encodeChar_cons c
    have hl : 1 ≤ (encodeChar c).length := by rw [e]; simp
    cases fuel with
    | zero => rw [e] at hf; simp at hf
    | succ fuel =>
      have hd := decodeRune_encodeChar c (encode cs)
      rw [e, List.cons_append] at hd ⊢
      unfold decodeGoAux
      rw [hd]
      dsimp only
      rw [Nat.max_eq_left (by rw [← e]; exact hl)]
      have : List.drop (b :: bs).length (b :: (bs ++ encode cs)) = encode cs := by
        rw [← List.cons_append, List.drop_left]
      rw [this, ih fuel (by rw [List.length_append] at hf; omega)]

/-- (U) decoding inverts encoding. -/
theorem decodeGo_encode (cs : List Char) : decodeGo (encode cs) = cs :=
  decodeGoAux_encode cs _ (Nat.le_refl _)

theorem toNat_u8_lt (n b : Nat) (h : n < 256) (hb : n.toUInt8.toNat = b) : n = b := by
  rw [u8 n h] at hb; exact hb

/-- An ASCII byte in the encoding of a character is that character. -/
theorem encodeChar_mem_ascii (c : Char) (b : UInt8) (hb : b ∈ encodeChar c) (h : b.toNat < 0x80) :
    c.toNat = b.toNat ∧ encodeChar c = [b] := by
  have hv := char_valid c
  unfold encodeChar at hb ⊢
  dsimp only at hb ⊢
  generalize c.toNat = n at hv hb ⊢
  by_cases h1 : n < 0x80
  · simp only [h1, if_true, List.mem_singleton] at hb ⊢
    subst hb
    rw [u8 n (by omega)]
    exact ⟨rfl, rfl⟩
  · exfalso
    by_cases h2 : n < 0x800
    · simp only [h1, h2, if_true, if_false, List.mem_cons, List.not_mem_nil, or_false] at hb
      rcases hb with rfl | rfl
      · rw [u8 _ (by omega)] at h; omega
      · rw [u8 _ (by omega)] at h; omega
    · by_cases h3 : n < 0x10000
      · simp only [h1, h2, h3, if_true, if_false, List.mem_cons, List.not_mem_nil, or_false] at hb
        rcases hb with rfl | rfl | rfl
        · rw [u8 _ (by omega)] at h; omega
        · rw [u8 _ (by omega)] at h; omega
        · rw [u8 _ (by omega)] at h; omega
      · simp only [h1, h2, h3, if_false, List.mem_cons, List.not_mem_nil, or_false] at hb
        rcases hb with rfl | rfl | rfl | rfl
        · rw [u8 _ (by omega)] at h; omega
        · rw [u8 _ (by omega)] at h; omega
        · rw [u8 _ (by omega)] at h; omega
        · rw [u8 _ (by omega)] at h; omega

theorem char_eq_of_toNat (c d : Char) (h : c.toNat = d.toNat) : c = d := by
  rw [← Char.ofNat_toNat c, ← Char.ofNat_toNat d, h]

theorem mem_encode (l : List Char) (b : UInt8) : b ∈ encode l ↔ ∃ c ∈ l, b ∈ encodeChar c := by
  unfold encode
  rw [← List.flatMap_def]
  exact List.mem_flatMap

theorem LF_mem_encode (l : List Char) (h : LF ∈ encode l) : '\n' ∈ l := by
  obtain ⟨c, hc, hb⟩ := (mem_encode l LF).mp h
  have := (encodeChar_mem_ascii c LF hb (by decide)).1
  have : c = '\n' := char_eq_of_toNat _ _ (by rw [this]; rfl)
  rw [← this]; exact hc

theorem encode_getLast_CR (l : List Char) (h : (encode l).getLast? = some CR) : l.getLast? = some '\r' := by
  induction l with
  | nil => simp [encode] at h
  | cons c l ih =>
    rw [encode_cons] at h
    cases l with
    | nil =>
      rw [encode_nil, List.append_nil] at h
      have hb : CR ∈ encodeChar c := List.mem_of_getLast? h
      have := (encodeChar_mem_ascii c CR hb (by decide)).1
      have : c = '\r' := char_eq_of_toNat _ _ (by rw [this]; rfl)
      rw [this]; rfl
    | cons d l =>
      obtain ⟨b, bs, e⟩ := encodeChar_cons d
      have hne : encode (d :: l) ≠ [] := by rw [encode_cons, e]; simp
      rw [getLast?_append_of_ne_nil _ _ hne] at h
      rw [List.getLast?_cons_cons]
      exact ih h

/-- a character that is neither space nor tab makes the encoded line non-blank -/
theorem encode_not_blank (l : List Char) (c : Char) (hc : c ∈ l) (h1 : c ≠ ' ') (h2 : c ≠ '\t') :
    (encode l).all isBlankByte = false := by
  obtain ⟨b, bs, e⟩ := encodeChar_cons c
  have hb : b ∈ encodeChar c := by rw [e]; simp
  have hbl : b ∈ encode l := (mem_encode l b).mpr ⟨c, hc, hb⟩
  have : isBlankByte b = false := by
    cases hbb : isBlankByte b with
    | false => rfl
    | true =>
      exfalso
      simp only [isBlankByte, Bool.or_eq_true, beq_iff_eq] at hbb
      rcases hbb with rfl | rfl
      · have := (encodeChar_mem_ascii c SP hb (by decide)).1
        exact h1 (char_eq_of_toNat _ _ (by rw [this]; rfl))
      · have := (encodeChar_mem_ascii c TAB hb (by decide)).1
        exact h2 (char_eq_of_toNat _ _ (by rw [this]; rfl))
  rw [List.all_eq_false]
  exact ⟨b, hbl, by simp [this]⟩

end KlogV
