/-
Helper lemmas for C04 (KlogV/Props/C04.lean): the statements the property theorems refer to.
The proofs are in Refine1.lean … Refine24.lean.
-/
import KlogV.Lemmas.Refine22
import KlogV.Lemmas.Refine23
import KlogV.Lemmas.Refine24
namespace KlogV
open RefineLemmas

/-- `create` (corrected: the date must be a valid calendar date — an invalid one is written with
digits cut off and read back as another date — and the file must not end in a carriage return
without line feed — the reconciler completes that line, which turns the CR into part of a CRLF
line ending and changes the text of the line) -/
theorem create_refines (u : UTab) (cfg : Config) (now : Instant) (sel : DateSel) (should : Option Int)
    (summary : Option (List Bytes)) (file file' : Bytes) (rs : List Record) (bos : List BlockOut) (d : Date)
    (hp : parseDoc file = .records rs bos) (hd : atDate sel now.date = some d)
    (hclean : ∀ l ∈ summary.getD [], CleanLine l ∧ okRecordSummaryLine (decodeGo l) = true)
    (hv : d.valid = true) (hcr : file.getLast? ≠ some 13)
    (sh : Option Int) (hsh : sh = (match should with | some s => some s | none => cfg.should))
    (h : runCmd u cfg now (.create sel should summary) file = .ok file') :
    ∃ rs' bos', parseDoc file' = .records rs' bos' ∧ Spec.Create rs d sh ((summary.getD []).map decodeGo) rs' :=
  (create_refines_strong u cfg now sel should summary file file' rs bos d hp hd hclean hv hcr sh hsh h).2

/-- `track` (corrected: at least one line, no line of blanks only, the date valid if a record has
to be created, no lone carriage return at the end of the file) -/
theorem track_refines (u : UTab) (cfg : Config) (now : Instant) (sel : DateSel) (entry : List Bytes)
    (file file' : Bytes) (rs : List Record) (bos : List BlockOut) (d : Date)
    (hp : parseDoc file = .records rs bos) (hd : atDate sel now.date = some d)
    (hclean : ∀ l ∈ entry, CleanLine l) (hne : entry ≠ []) (hnb : ∀ l ∈ entry, l.all isBlankByte = false)
    (hv : Spec.targetIdx rs d = none → d.valid = true) (hcr : file.getLast? ≠ some 13)
    (h : runCmd u cfg now (.track sel entry) file = .ok file') :
    ∃ rs' bos' ind e, parseDoc file' = .records rs' bos' ∧ Spec.Indent ind ∧ Denotes ind entry e ∧
      Spec.AddEntry rs d cfg.should e rs' :=
  (track_refines_strong u cfg now sel entry file file' rs bos d hp hd hclean hne hnb hv hcr h).2

/-- `track` of an open range into a record that already has one is rejected — proved for files
that do not end in a lone carriage return (the general case is open: there the reconciler changes
the text of the last line, and the re-read record is no longer the old one plus new lines) -/
theorem track_second_open_rejected_partial (u : UTab) (cfg : Config) (now : Instant) (sel : DateSel) (entry : List Bytes)
    (file : Bytes) (rs : List Record) (bos : List BlockOut) (d : Date) (i : Nat) (r : Record) (ind : List Char) (e : Entry)
    (hp : parseDoc file = .records rs bos) (hd : atDate sel now.date = some d)
    (ht : Spec.targetIdx rs d = some i) (hr : rs[i]? = some r) (ho : r.hasOpen = true)
    (hden : Denotes ind entry e) (hopen : isOpen e.val = true) (hi : Spec.Indent ind) (hclean : ∀ l ∈ entry, CleanLine l)
    (hcr : file.getLast? ≠ some 13) :
    ∀ f', runCmd u cfg now (.track sel entry) file ≠ .ok f' :=
  track_second_open_rejected_core u cfg now sel entry file rs bos d i r ind e hp hd ht hr ho hden hopen hi hclean hcr

/-- the last byte of the file: a lone carriage return does not appear by `create` / `track` -/
theorem create_track_no_lone_cr (u : UTab) (cfg : Config) (now : Instant) (c : Cmd) (file file' : Bytes)
    (rs : List Record) (bos : List BlockOut) (hp : parseDoc file = .records rs bos)
    (hc : CleanCmd c ∧ HistCmd c ∧
      (∃ d, atDate (match c with | .create s _ _ => s | .track s _ => s | _ => .default) now.date = some d ∧ d.valid = true))
    (hcr : file.getLast? ≠ some 13) (h : runCmd u cfg now c file = .ok file') : file'.getLast? ≠ some 13 := by
  obtain ⟨hclean, hcmd, d, hd, hv⟩ := hc
  cases c with
  | create sel should summary =>
    exact (create_refines_strong u cfg now sel should summary file file' rs bos d hp hd hclean hv hcr _ rfl h).1
  | track sel entry =>
    exact (track_refines_strong u cfg now sel entry file file' rs bos d hp hd hclean hcmd.1 hcmd.2 (fun _ => hv) hcr h).1
  | start a s => exact absurd hcmd (by simp [HistCmd])
  | stop a s => exact absurd hcmd (by simp [HistCmd])
  | switch a s => exact absurd hcmd (by simp [HistCmd])
  | pause a b c d => exact absurd hcmd (by simp [HistCmd])

theorem history_refines_create_track (u : UTab) (cfg : Config) (hist : List (Instant × Cmd)) (file file' : Bytes)
    (rs : List Record) (bos : List BlockOut) (hp : parseDoc file = .records rs bos)
    (hc : ∀ p ∈ hist, CleanCmd p.2 ∧ HistCmd p.2 ∧
      (∃ d, atDate (match p.2 with | .create s _ _ => s | .track s _ => s | _ => .default) p.1.date = some d ∧ d.valid = true))
    (hcr : file.getLast? ≠ some 13)
    (h : runCmdHistory u cfg hist file = some file') :
    ∃ states : List (List Record), states.length = hist.length + 1 ∧ states.head? = some rs ∧
      (∃ bos', parseDoc file' = .records (states.getLast?.getD []) bos') ∧
      ∀ k (hk : k < hist.length), AbstractStep u cfg (hist[k]).1 (hist[k]).2 (states[k]?.getD []) (states[k + 1]?.getD []) :=
  history_gen u cfg hist file file' rs bos hp hc hcr h

end KlogV
