/- Round trip (C09), part 1: definitions, the fixed-point and the layout theorems. -/
import KlogV.Model.Serialiser
import KlogV.Model.Document
import KlogV.Lemmas.Values
namespace KlogV

/-- A line the serialiser can reproduce: no LF inside, no CR at its end. -/
def LineOK (l : List Char) : Prop := '\n' ∉ l ∧ l.getLast? ≠ some '\r'

/-- Well-formed entry value. -/
def ValWF : EntryVal → Prop
  | .range s t _ => s.wf = true ∧ t.wf = true ∧ s.offset ≤ t.offset
  | .dur d => Dur.WF d
  | .openRange s _ _ => s.wf = true

def EntryWF (e : Entry) : Prop :=
  ValWF e.val ∧ e.summary ≠ [] ∧ (∀ l ∈ e.summary, LineOK l) ∧
    (∀ l ∈ e.summary.drop 1, okEntrySummaryCont l = true)

def RecordWF (r : Record) : Prop :=
  r.date.valid = true ∧ (∀ s, r.should = some s → inRange s = true) ∧
  (∀ l ∈ r.summary, okRecordSummaryLine l = true ∧ LineOK l) ∧
  (∀ e ∈ r.entries, EntryWF e) ∧
  (r.entries.filter (fun e => isOpen e.val)).length ≤ 1

def Record.canon (r : Record) : Record :=
  { r with should := if r.shouldMins = 0 then none else r.should }

def NoTrailingCR (r : Record) : Prop :=
  (∀ l ∈ r.summary, l.getLast? ≠ some '\r') ∧
  (∀ e ∈ r.entries, ∀ l ∈ e.summary, l.getLast? ≠ some '\r')

theorem Record.canon_shouldMins (r : Record) : r.canon.shouldMins = r.shouldMins := by
  unfold Record.canon Record.shouldMins
  dsimp only
  split
  · rename_i h; exact h.symm
  · rfl

theorem recordLines_canon (r : Record) : recordLines r.canon = recordLines r := by
  unfold recordLines
  rw [Record.canon_shouldMins]
  rfl

theorem printRecords_canon (rs : List Record) : printRecords (rs.map Record.canon) = printRecords rs := by
  induction rs with
  | nil => rfl
  | cons r rs ih =>
    cases rs with
    | nil => simp [printRecords, recordLines_canon]
    | cons r' rs' =>
      simp only [List.map_cons, printRecords, recordLines_canon] at ih ⊢
      rw [ih]

theorem entryLines_indent (e : Entry) : ∀ l ∈ entryLines e, canonicalIndent.isPrefixOf l = true := by
  intro l hl
  unfold entryLines at hl
  simp only [List.mem_cons, List.mem_map] at hl
  rcases hl with rfl | ⟨x, _, rfl⟩
  · simp [canonicalIndent]
  · simp [canonicalIndent]

theorem recordLines_layout (r : Record) (_h : RecordWF r) :
    ∀ l ∈ recordLines r, l = (recordLines r).headD [] ∨ l ∈ r.summary ∨
      (∃ e ∈ r.entries, l ∈ entryLines e ∧ canonicalIndent.isPrefixOf l = true) := by
  intro l hl
  unfold recordLines at hl ⊢
  simp only [List.mem_cons, List.mem_append, List.mem_flatMap] at hl
  rcases hl with (rfl | h) | ⟨e, he, hle⟩
  · left; rfl
  · right; left; exact h
  · right; right; exact ⟨e, he, hle, entryLines_indent e l hle⟩

end KlogV
