/-
C04b, part 10: the text `klog pause` writes: the tags of the open range, the lines of the new
entry, and the entry they are read back as.
-/
import KlogV.Lemmas.RefineB9
namespace KlogV.RefineBLemmas
open KlogV KlogV.RefineLemmas KlogV.EditLemmas KlogV.GrammarLemmas

/-! ## tags as text -/

/-- what every scanned tag looks like: a non-empty name (case-folded), a value taken from the line -/
def TagOf (u : UTab) (s : List Char) (t : Tag) : Prop :=
  (∃ nm : List Char, nm ≠ [] ∧ t.name = nm.map u.lower) ∧ ∀ c ∈ t.value, c ∈ s

theorem scanValue_mem (u : UTab) (s : List Char) : ∀ c ∈ (scanValue u s).1, c ∈ s := by
  intro c hc
  unfold scanValue at hc
  dsimp only at hc
  split at hc
  · rename_i r
    split at hc
    · rename_i x hx
      split at hx
      · simp only [Option.some.injEq] at hx
        subst hx
        exact List.mem_cons_of_mem _ ((List.takeWhile_sublist _).subset hc)
      · cases hx
    · cases hc
  · rename_i r
    split at hc
    · rename_i x hx
      split at hx
      · simp only [Option.some.injEq] at hx
        subst hx
        exact List.mem_cons_of_mem _ ((List.takeWhile_sublist _).subset hc)
      · cases hx
    · cases hc
  · exact (List.takeWhile_sublist _).subset hc

theorem matchTag_of (u : UTab) (s : List Char) (t : Tag) (n : Nat) (h : matchTag u s = some (t, n)) : TagOf u s t := by
  unfold matchTag at h
  split at h
  · rename_i r
    dsimp only at h
    split at h
    · cases h
    · rename_i hne
      have hnm : r.takeWhile u.isNameChar ≠ [] := by
        intro h0; rw [h0] at hne; simp at hne
      split at h
      · rename_i r2 hr2
        simp only [Option.some.injEq, Prod.mk.injEq] at h
        obtain ⟨rfl, _⟩ := h
        refine ⟨⟨_, hnm, rfl⟩, ?_⟩
        intro c hc
        have h1 := scanValue_mem u r2 c hc
        have h2 : c ∈ r.drop (r.takeWhile u.isNameChar).length := by rw [hr2]; exact List.mem_cons_of_mem _ h1
        exact List.mem_cons_of_mem _ (List.mem_of_mem_drop h2)
      · simp only [Option.some.injEq, Prod.mk.injEq] at h
        obtain ⟨rfl, _⟩ := h
        exact ⟨⟨_, hnm, rfl⟩, by intro c hc; cases hc⟩
  · cases h

theorem scanTagsAux_of (u : UTab) : ∀ (fuel : Nat) (s : List Char), ∀ t ∈ scanTagsAux u fuel s, TagOf u s t := by
  intro fuel
  induction fuel with
  | zero => intro s t ht; simp [scanTagsAux] at ht
  | succ fuel ih =>
    intro s t ht
    cases s with
    | nil => simp [scanTagsAux] at ht
    | cons c r =>
      unfold scanTagsAux at ht
      split at ht
      · rename_i t0 n hm
        rcases List.mem_cons.mp ht with rfl | ht
        · exact matchTag_of u _ _ n hm
        · obtain ⟨h1, h2⟩ := ih _ t ht
          exact ⟨h1, fun x hx => List.mem_of_mem_drop (h2 x hx)⟩
      · obtain ⟨h1, h2⟩ := ih _ t ht
        exact ⟨h1, fun x hx => List.mem_cons_of_mem _ (h2 x hx)⟩

/-- the printed tag: no line feed, no carriage return at its end -/
theorem tag_print_clean (u : UTab) (hu : u.isLetter '\r' = false ∧ ∀ c, u.lower c ≠ '\n' ∧ u.lower c ≠ '\r')
    (s : List Char) (hs : '\n' ∉ s) (t : Tag) (ht : TagOf u s t) :
    '\n' ∉ t.print u ∧ (t.print u).getLast? ≠ some '\r' ∧ t.print u ≠ [] := by
  obtain ⟨⟨nm, hnm, hname⟩, hval⟩ := ht
  have hnmLF : '\n' ∉ t.name := by
    rw [hname]
    intro hm
    obtain ⟨c, _, hc⟩ := List.mem_map.mp hm
    exact (hu.2 c).1 hc
  have hvalLF : '\n' ∉ t.value := fun hm => hs (hval _ hm)
  unfold Tag.print
  refine ⟨?_, ?_, by simp⟩
  · intro hm
    rcases List.mem_cons.mp hm with hm | hm
    · cases hm
    · rcases List.mem_append.mp hm with hm | hm
      · exact hnmLF hm
      · split at hm
        · cases hm
        · dsimp only at hm
          rcases List.mem_cons.mp hm with hm | hm
          · cases hm
          · rcases List.mem_append.mp hm with hm | hm
            · rcases List.mem_append.mp hm with hm | hm
              · split at hm
                · cases hm
                · split at hm <;> simp at hm
              · exact hvalLF hm
            · split at hm
              · cases hm
              · split at hm <;> simp at hm
  · split
    · -- no value: the name ends the text
      rw [List.append_nil]
      obtain ⟨c, cs, e⟩ := List.exists_cons_of_ne_nil hnm
      have hne : t.name ≠ [] := by rw [hname, e]; simp
      rw [show '#' :: t.name = ['#'] ++ t.name from rfl, getLast?_append_of_ne_nil _ _ hne]
      intro hl
      have := List.mem_of_getLast? hl
      rw [hname] at this
      obtain ⟨c', _, hc'⟩ := List.mem_map.mp this
      exact (hu.2 c').2 hc'
    · rename_i hv
      dsimp only
      have hvne : t.value ≠ [] := by intro h0; rw [h0] at hv; simp at hv
      intro hl
      by_cases hq : isUnquotedValue u t.value = true
      · simp only [hq, if_true, List.append_nil] at hl
        have e : '#' :: t.name ++ (['='] ++ t.value) = ('#' :: t.name ++ ['=']) ++ t.value := by simp
        rw [e, getLast?_append_of_ne_nil _ _ hvne] at hl
        have hm := List.mem_of_getLast? hl
        unfold isUnquotedValue at hq
        simp only [Bool.and_eq_true, List.all_eq_true] at hq
        have := hq.2 _ hm
        simp [UTab.isNameChar, hu.1, isDigit] at this
      · simp only [hq, Bool.false_eq_true, if_false] at hl
        split at hl
        · have e : '#' :: t.name ++ (['=', '\''] ++ t.value ++ ['\'']) = ('#' :: t.name ++ (['=', '\''] ++ t.value)) ++ ['\''] := by simp
          rw [e, getLast?_append_of_ne_nil _ _ (by simp)] at hl
          simp at hl
        · have e : '#' :: t.name ++ (['=', '"'] ++ t.value ++ ['"']) = ('#' :: t.name ++ (['=', '"'] ++ t.value)) ++ ['"'] := by simp
          rw [e, getLast?_append_of_ne_nil _ _ (by simp)] at hl
          simp at hl

/-- texts joined by single spaces -/
theorem join_clean (ls : List (List Char)) (h : ∀ l ∈ ls, '\n' ∉ l ∧ l.getLast? ≠ some '\r' ∧ l ≠ []) :
    '\n' ∉ (ls.intersperse [' ']).flatten ∧ ((ls.intersperse [' ']).flatten).getLast? ≠ some '\r' := by
  induction ls with
  | nil => simp
  | cons a ls ih =>
    cases ls with
    | nil =>
      simp only [List.intersperse_singleton, List.flatten_cons, List.flatten_nil, List.append_nil]
      exact ⟨(h a (by simp)).1, (h a (by simp)).2.1⟩
    | cons b ls =>
      obtain ⟨i1, i2⟩ := ih (fun l hl => h l (by simp [hl]))
      rw [List.intersperse_cons_cons, List.flatten_cons, List.flatten_cons]
      have hne : ((b :: ls).intersperse [' ']).flatten ≠ [] := by
        cases ls with
        | nil => simpa using (h b (by simp)).2.2
        | cons c ls =>
          rw [List.intersperse_cons_cons, List.flatten_cons]
          intro h0
          exact (h b (by simp)).2.2 (List.append_eq_nil_iff.mp h0).1
      constructor
      · intro hm
        rcases List.mem_append.mp hm with hm | hm
        · exact (h a (by simp)).1 hm
        · rcases List.mem_append.mp hm with hm | hm
          · simp at hm
          · exact i1 hm
      · rw [← List.append_assoc, getLast?_append_of_ne_nil _ _ hne]
        exact i2

theorem encode_join (ls : List (List Char)) :
    ((ls.map bytesOfChars).intersperse [SP]).flatten = encode ((ls.intersperse [' ']).flatten) := by
  induction ls with
  | nil => rfl
  | cons a ls ih =>
    cases ls with
    | nil => simp [bytesOfChars]
    | cons b ls =>
      rw [List.map_cons, List.map_cons, List.intersperse_cons_cons, List.intersperse_cons_cons, List.flatten_cons, List.flatten_cons,
        List.flatten_cons, List.flatten_cons, encode_append, encode_append]
      rw [← List.map_cons, ih]
      rfl

/-- the tags of a summary, as `klog pause` writes them -/
def tagsText (u : UTab) (summary : List (List Char)) : List Char :=
  (((summaryTags u summary).map (fun (t : Tag) => t.print u)).intersperse [' ']).flatten

theorem tagsText_bytes (u : UTab) (summary : List (List Char)) :
    (((summaryTags u summary).map (fun (t : Tag) => bytesOfChars (t.print u))).intersperse [SP]).flatten =
      encode (tagsText u summary) := by
  unfold tagsText
  rw [← encode_join, List.map_map]
  rfl

theorem tagsText_clean (u : UTab) (hu : u.isLetter '\r' = false ∧ ∀ c, u.lower c ≠ '\n' ∧ u.lower c ≠ '\r')
    (summary : List (List Char)) (hs : ∀ l ∈ summary, '\n' ∉ l) : CleanLine (encode (tagsText u summary)) := by
  have := join_clean ((summaryTags u summary).map (fun (t : Tag) => t.print u)) (by
    intro l hl
    obtain ⟨t, ht, rfl⟩ := List.mem_map.mp hl
    unfold summaryTags at ht
    obtain ⟨line, hline, htl⟩ := List.mem_flatMap.mp ht
    exact tag_print_clean u hu line (hs line hline) t (scanTagsAux_of u _ line t htl))
  exact ⟨fun hm => this.1 (LF_mem_encode _ hm), fun hm => this.2 (encode_getLast_CR _ hm)⟩

/-! ## the lines of the pause entry -/

/-- the summary `appendPause` hands to `appendEntry` -/
def pauseTexts (summary : List Bytes) (tags : Option Bytes) : List Bytes :=
  let summary := if summary.isEmpty then [[]] else summary
  let s0 := summary.headD []
  let first : Bytes := bytesOfChars ['-', '0', 'm'] ++ (if s0.isEmpty then [] else [SP]) ++ s0
  let summary := first :: summary.drop 1
  match tags with
  | some joined =>
    (match summary.getLast? with
     | some l => summary.dropLast ++ [l ++ (if l.isEmpty then [] else [SP]) ++ joined]
     | none => [joined])
  | none => summary

theorem appendPause_inv (u : UTab) (r r' : Reconciler) (summary : List Bytes) (appendTags : Bool)
    (h : r.appendPause u summary appendTags = some r') :
    ∃ oi oe, findOpenRangeIndex r.record = some oi ∧ r.record.entries[oi]? = some oe ∧ isOpen oe.val = true ∧
      r.appendEntry (pauseTexts summary (if appendTags then some (encode (tagsText u oe.summary)) else none)) = some r' := by
  unfold Reconciler.appendPause at h
  split at h
  · cases h
  · rename_i oi hoi
    obtain ⟨oe, hsplit, hlen, hopen, _⟩ := findLastIdx_some _ _ oi hoi
    have hget : r.record.entries[oi]? = some oe := by
      rw [hsplit, List.getElem?_append_right (by omega), hlen]
      simp
    refine ⟨oi, oe, hoi, hget, hopen, ?_⟩
    rw [← h]
    dsimp only
    rw [hget]
    dsimp only
    cases appendTags with
    | false => rfl
    | true =>
      simp only [if_true]
      rw [tagsText_bytes]
      rfl

theorem dur0 : Dur.print ⟨0, false, -1⟩ = ['-', '0', 'm'] := by decide

theorem dur0_wf : Dur.WF ⟨0, false, -1⟩ := by
  refine ⟨by decide, ?_, ?_⟩
  · intro _; exact ⟨Or.inl rfl, by decide⟩
  · intro h; exact absurd rfl h

theorem okCont_append (a b : List Char) (h : okEntrySummaryCont a = true) : okEntrySummaryCont (a ++ b) = true := by
  unfold okEntrySummaryCont at h ⊢
  simp only [Bool.and_eq_true, Bool.not_eq_true', List.isEmpty_eq_false_iff] at h ⊢
  obtain ⟨h1, h2⟩ := h
  refine ⟨by simp [h1], ?_⟩
  rw [List.all_eq_false] at h2 ⊢
  obtain ⟨c, hc, hz⟩ := h2
  exact ⟨c, by simp [hc], hz⟩

theorem cleanLine_append_sp (a b : Bytes) (ha : CleanLine a) (hb : CleanLine b) : CleanLine (a ++ SP :: b) := by
  obtain ⟨a1, _⟩ := ha
  obtain ⟨b1, b2⟩ := cleanLine_cons_sp b hb
  constructor
  · intro hm
    rcases List.mem_append.mp hm with hm | hm
    · exact a1 hm
    · exact b1 hm
  · rw [getLast?_append_of_ne_nil _ _ (by simp)]
    exact b2

theorem pauseSummary_empty (s : List (List Char)) (tg : List Char) (h : Spec.normSummary s = [[]]) :
    Spec.pauseSummary s (some tg) = [tg] := by
  unfold Spec.pauseSummary
  simp only [h]

theorem pauseSummary_snoc (s : List (List Char)) (tg : List Char) (A : List (List Char)) (l : List Char)
    (h : Spec.normSummary s = A ++ [l]) (hne : A ≠ [] ∨ l ≠ []) :
    Spec.pauseSummary s (some tg) = A ++ [l ++ ' ' :: tg] := by
  unfold Spec.pauseSummary
  simp only [h]
  split
  · rename_i heq
    exfalso
    cases A with
    | nil =>
      simp only [List.nil_append, List.cons.injEq, and_true] at heq
      rcases hne with h1 | h1
      · exact h1 rfl
      · exact h1 heq
    | cons a A' =>
      simp only [List.cons_append, List.cons.injEq] at heq
      have := heq.2
      simp at this
  · simp

/-- (PAUSE-LINES) the lines of the pause entry: clean, not blank, and a group denoting a `-0m`
entry with the abstract pause summary -/
theorem pause_lines (ind : List Char) (summary : List Bytes) (hs : CleanSummary summary) (tags : Option Bytes)
    (ht : ∀ j, tags = some j → CleanLine j) :
    ∃ b0 tl rest, pauseTexts summary tags = (b0 :: tl) :: rest ∧ isBlankByte b0 = false ∧
      (∀ l ∈ (b0 :: tl) :: rest, CleanLine l) ∧ (∀ l ∈ (b0 :: tl) :: rest, l.all isBlankByte = false) ∧
      Grp ind ((ind ++ decodeGo (b0 :: tl)) :: rest.map (fun l => ind ++ ind ++ decodeGo l))
        ⟨.dur ⟨0, false, -1⟩, Spec.pauseSummary (summary.map decodeGo) (tags.map decodeGo)⟩ := by
  have hv : ValWF (.dur ⟨0, false, -1⟩) := dur0_wf
  -- the value, and how a first line is read
  have hfirst : ∀ (sfxB : Bytes) (sfx : List Char), decodeGo sfxB = sfx → TailOK sfx → CleanLine sfxB →
      ∀ (texts : List Bytes), (∀ t ∈ texts, CleanLine t ∧ okEntrySummaryCont (decodeGo t) = true) →
      ∃ b0 tl, bytesOfChars ['-', '0', 'm'] ++ sfxB = b0 :: tl ∧ isBlankByte b0 = false ∧
        (∀ l ∈ (b0 :: tl) :: texts, CleanLine l) ∧ (∀ l ∈ (b0 :: tl) :: texts, l.all isBlankByte = false) ∧
        Grp ind ((ind ++ decodeGo (b0 :: tl)) :: texts.map (fun l => ind ++ ind ++ decodeGo l))
          ⟨.dur ⟨0, false, -1⟩, firstOf sfx :: texts.map decodeGo⟩ := by
    intro sfxB sfx hdec htail hclean texts htexts
    have hb : bytesOfChars ['-', '0', 'm'] = [45, 48, 109] := by decide
    refine ⟨45, [48, 109] ++ sfxB, by rw [hb]; rfl, by decide, ?_, ?_, ?_⟩
    · intro l hl
      rcases List.mem_cons.mp hl with rfl | hl
      · have := value_bytes_clean (.dur ⟨0, false, -1⟩) sfxB hclean
        simpa [EntryVal.print, dur0, hb] using this
      · exact (htexts l hl).1
    · intro l hl
      rcases List.mem_cons.mp hl with rfl | hl
      · simp [isBlankByte, SP, TAB]
      · exact blank_bytes_summary l (htexts l hl).2
    · have hd : decodeGo (45 :: ([48, 109] ++ sfxB)) = ['-', '0', 'm'] ++ sfx := by
        have := decodeGo_encode_ascii ['-', '0', 'm'] (by decide) sfxB
        rw [hdec] at this
        rw [← this]
        rfl
      obtain ⟨sp, sl, hpv⟩ := parseValue_dur' ⟨0, false, -1⟩ dur0_wf sfx htail ind.length
      rw [dur0] at hpv
      refine ⟨['-', '0', 'm'] ++ sfx, ⟨_, sfx, sp, sl⟩, texts.map decodeGo, ?_, hpv, ⟨'-', ['0', 'm'] ++ sfx, rfl, by decide⟩,
        rfl, ?_⟩
      · rw [hd]; simp [List.map_map, Function.comp_def]
      · intro t ht'
        obtain ⟨l, hl, rfl⟩ := List.mem_map.mp ht'
        exact (htexts l hl).2
  -- the summary lines
  have hcont : ∀ t ∈ summary.drop 1, CleanLine t ∧ okEntrySummaryCont (decodeGo t) = true :=
    fun t ht' => ⟨hs.1 t (List.mem_of_mem_drop ht'), hs.2 t ht'⟩
  have hs0 : CleanLine (summary.headD []) := by
    cases summary with
    | nil => exact cleanLine_nil
    | cons a _ => exact hs.1 a (by simp)
  have hS : ((if summary.isEmpty then [[]] else summary) : List Bytes).headD [] = summary.headD [] ∧
      ((if summary.isEmpty then [[]] else summary) : List Bytes).drop 1 = summary.drop 1 := by
    cases summary <;> simp
  have hnorm : Spec.normSummary (summary.map decodeGo) = decodeGo (summary.headD []) :: (summary.drop 1).map decodeGo := by
    cases summary with
    | nil => simp [Spec.normSummary, decodeGo_nil]
    | cons a tl => simp [Spec.normSummary]
  have hsep : ∀ (s0 : Bytes), CleanLine s0 → ∃ sfx, decodeGo ((if s0.isEmpty then [] else [SP]) ++ s0) = sfx ∧ TailOK sfx ∧
      firstOf sfx = decodeGo s0 ∧ CleanLine ((if s0.isEmpty then [] else [SP]) ++ s0) ∧ (s0 ≠ [] → sfx = ' ' :: decodeGo s0) := by
    intro s0 hc
    by_cases h0 : s0 = []
    · subst h0
      exact ⟨[], by simp [decodeGo_nil], Or.inl rfl, by simp [firstOf, decodeGo_nil], by simpa using cleanLine_nil,
        fun h => absurd rfl h⟩
    · have hne : s0.isEmpty = false := by cases s0 <;> simp_all
      refine ⟨' ' :: decodeGo s0, ?_, Or.inr ⟨' ', _, rfl, by decide⟩, by simp [firstOf, isSpTab], ?_, fun _ => rfl⟩
      · simp only [hne, Bool.false_eq_true, if_false, List.cons_append, List.nil_append]
        rw [decodeGo_cons_ascii SP s0 (by decide)]; rfl
      · simp only [hne, Bool.false_eq_true, if_false, List.cons_append, List.nil_append]
        exact cleanLine_cons_sp s0 hc
  unfold pauseTexts
  simp only [hS.1, hS.2]
  generalize hs0d : summary.headD [] = s0 at hs0 hnorm
  generalize htld : summary.drop 1 = tl at hcont hnorm
  cases tags with
  | none =>
    dsimp only
    obtain ⟨sfx, e1, e2, e3, e4, _⟩ := hsep s0 hs0
    obtain ⟨b0, tl0, f1, f2, f3, f4, f5⟩ := hfirst _ sfx e1 e2 e4 tl hcont
    refine ⟨b0, tl0, tl, by rw [← f1]; simp, f2, f3, f4, ?_⟩
    simp only [Spec.pauseSummary, Option.map_none, hnorm, ← e3]
    exact f5
  | some J =>
    have hJ := ht J rfl
    dsimp only
    simp only [Option.map_some]
    rcases eq_nil_or_snoc tl with rfl | ⟨tl', l, rfl⟩
    · -- a single line: the tags go behind the first line
      have hne1 : (bytesOfChars ['-', '0', 'm'] ++ (if s0.isEmpty then [] else [SP]) ++ s0).isEmpty = false := by
        have hb : bytesOfChars ['-', '0', 'm'] = [45, 48, 109] := by decide
        rw [hb]; rfl
      simp only [List.getLast?_singleton, List.dropLast_singleton, List.nil_append, hne1, Bool.false_eq_true, if_false]
      simp only [List.map_nil] at hnorm
      by_cases h0 : s0 = []
      · subst h0
        obtain ⟨b0, tl0, f1, f2, f3, f4, f5⟩ := hfirst (SP :: J) (' ' :: decodeGo J)
          (by rw [decodeGo_cons_ascii SP J (by decide)]; rfl) (Or.inr ⟨' ', _, rfl, by decide⟩) (cleanLine_cons_sp J hJ) []
          (by intro t ht'; cases ht')
        refine ⟨b0, tl0, [], by rw [← f1]; simp, f2, f3, f4, ?_⟩
        rw [pauseSummary_empty _ _ (by rw [hnorm, decodeGo_nil])]
        simpa [firstOf, isSpTab] using f5
      · have hne : s0.isEmpty = false := by cases s0 <;> simp_all
        have hd0 : decodeGo s0 ≠ [] := fun h => h0 (decodeGo_eq_nil s0 h)
        obtain ⟨b0, tl0, f1, f2, f3, f4, f5⟩ := hfirst (SP :: (s0 ++ SP :: J)) (' ' :: (decodeGo s0 ++ ' ' :: decodeGo J))
          (by rw [decodeGo_cons_ascii SP _ (by decide), decodeGo_mid_sp]; rfl) (Or.inr ⟨' ', _, rfl, by decide⟩)
          (cleanLine_cons_sp _ (cleanLine_append_sp s0 J hs0 hJ)) [] (by intro t ht'; cases ht')
        refine ⟨b0, tl0, [], by rw [← f1]; simp [hne], f2, f3, f4, ?_⟩
        rw [pauseSummary_snoc _ _ [] (decodeGo s0) (by rw [hnorm]; rfl) (Or.inr hd0)]
        simpa [firstOf, isSpTab] using f5
    · -- several lines: the tags go behind the last one
      have hl := hcont l (by simp)
      have hlne : l.isEmpty = false := by
        have := blank_bytes_summary l hl.2
        cases l <;> simp_all
      obtain ⟨sfx, e1, e2, e3, e4, _⟩ := hsep s0 hs0
      have hlast : ∀ a : Bytes, (a :: (tl' ++ [l])).getLast? = some l := by
        intro a
        have e : a :: (tl' ++ [l]) = (a :: tl') ++ [l] := rfl
        rw [e, List.getLast?_concat]
      have hdl : ∀ a : Bytes, (a :: (tl' ++ [l])).dropLast = a :: tl' := by
        intro a
        have e : a :: (tl' ++ [l]) = (a :: tl') ++ [l] := rfl
        rw [e, List.dropLast_concat]
      simp only [hlast, hdl, hlne, Bool.false_eq_true, if_false]
      have hd : decodeGo (l ++ [SP] ++ J) = decodeGo l ++ ' ' :: decodeGo J := by
        rw [List.append_assoc]; exact decodeGo_mid_sp l J
      have htexts : ∀ t ∈ tl' ++ [l ++ [SP] ++ J], CleanLine t ∧ okEntrySummaryCont (decodeGo t) = true := by
        intro t ht'
        rcases List.mem_append.mp ht' with h | h
        · exact hcont t (by simp [h])
        · simp only [List.mem_singleton] at h
          subst h
          refine ⟨by rw [List.append_assoc]; exact cleanLine_append_sp l J hl.1 hJ, ?_⟩
          rw [hd]
          exact okCont_append _ _ hl.2
      obtain ⟨b0, tl0, f1, f2, f3, f4, f5⟩ := hfirst _ sfx e1 e2 e4 _ htexts
      refine ⟨b0, tl0, tl' ++ [l ++ [SP] ++ J], by rw [← f1]; simp, f2, f3, f4, ?_⟩
      rw [pauseSummary_snoc _ _ (decodeGo s0 :: tl'.map decodeGo) (decodeGo l) (by rw [hnorm]; simp) (Or.inl (by simp))]
      have hm : (decodeGo s0 :: tl'.map decodeGo) ++ [decodeGo l ++ ' ' :: decodeGo J] =
          firstOf sfx :: List.map decodeGo (tl' ++ [l ++ [SP] ++ J]) := by
        rw [e3]
        simp only [List.map_append, List.map_cons, List.map_nil, hd, List.cons_append]
      rw [hm]
      exact f5

end KlogV.RefineBLemmas
