/- Parser output is well-formed (C09), part 3: from blocks to the document. -/
import KlogV.Lemmas.RoundtripWF1
import KlogV.Lemmas.RoundtripWF2
namespace KlogV

theorem assemble_inv (bos bos' : List BlockOut) (rs : List Record) (h : assemble bos = .records rs bos') :
    ∀ r ∈ rs, ∃ bo ∈ bos, bo.out = .record r := by
  unfold assemble at h
  split at h
  · cases h
  · dsimp only at h
    split at h
    · cases h
    · simp only [DocOut.records.injEq] at h
      obtain ⟨rfl, _⟩ := h
      intro r hr
      obtain ⟨bo, hbo, hf⟩ := List.mem_filterMap.mp hr
      refine ⟨bo, hbo, ?_⟩
      split at hf
      · rename_i r' hout
        simp only [Option.some.injEq] at hf
        rw [hout, hf]
      · cases hf

theorem rt_blockOuts_mem (bs : List (List Line)) (bo : BlockOut) (h : bo ∈ blockOuts bs) :
    ∃ b ∈ bs, bo.out = parseBlock b := by
  unfold blockOuts at h
  obtain ⟨⟨b, i⟩, hz, rfl⟩ := List.mem_map.mp h
  exact ⟨b, (List.of_mem_zip hz).1, rfl⟩

theorem parseBlock_inv (b : List Line) (r : Record) (hb : ∀ l ∈ b, LF ∉ l.text)
    (h : parseBlock b = .record r) : RecordWF0 r := by
  unfold parseBlock significant at h
  dsimp only at h
  refine parseRecord_inv _ _ r h ?_
  intro l hl
  obtain ⟨x, hx, rfl⟩ := List.mem_map.mp hl
  have hxb : x ∈ b :=
    (List.dropWhile_sublist _).subset ((List.takeWhile_sublist _).subset hx)
  exact decodeGo_noLF _ (hb x hxb)

theorem RecordWF_of_WF0 (r : Record) (h : RecordWF0 r) (hcr : NoTrailingCR r) : RecordWF r := by
  obtain ⟨h1, h2, h3, h4, h5⟩ := h
  obtain ⟨c1, c2⟩ := hcr
  refine ⟨h1, h2, ?_, ?_, h5⟩
  · intro l hl
    exact ⟨(h3 l hl).1, (h3 l hl).2, c1 l hl⟩
  · intro e he
    obtain ⟨k1, k2, k3, k4⟩ := h4 e he
    exact ⟨k1, k2, fun l hl => ⟨k3 l hl, c2 e he l hl⟩, k4⟩

theorem parseDoc_output_wf (t : Bytes) (rs : List Record) (bos : List BlockOut)
    (h : parseDoc t = .records rs bos) (hcr : ∀ r ∈ rs, NoTrailingCR r) : ∀ r ∈ rs, RecordWF r := by
  intro r hr
  unfold parseDoc at h
  obtain ⟨bo, hbo, hout⟩ := assemble_inv _ _ _ h r hr
  obtain ⟨b, hb, hpb⟩ := rt_blockOuts_mem _ bo hbo
  rw [hpb] at hout
  exact RecordWF_of_WF0 r (parseBlock_inv b r (blocksOf_text_noLF t b hb) hout) (hcr r hr)

end KlogV
