/- Helper lemmas for KlogV/Lemmas/GoFmt.lean: encoding facts, byte-level model of the word loop. Core Lean only. -/
import KlogV.Gen.GoFmt
import KlogV.Model.Prettify
import KlogV.Lemmas.RoundtripUtf8
import KlogV.Lemmas.Prettify1
namespace KlogV.GoL.Fm
open KlogV.Go

theorem encode_length (s : List Char) : (encode s).length = byteLen s := by
  induction s with
  | nil => rfl
  | cons c s ih => rw [encode_cons, List.length_append, ih]; simp [byteLen]

theorem encode_isEmpty (s : List Char) : (encode s).isEmpty = s.isEmpty := by
  cases s with
  | nil => rfl
  | cons c s =>
    obtain ⟨b, bs, e⟩ := encodeChar_cons c
    rw [encode_cons, e]; rfl

theorem encodeChar_ascii' (c : Char) (h : c.toNat < 0x80) : encodeChar c = [c.toNat.toUInt8] := by
  unfold encodeChar; simp only [h, if_true]

theorem go_append (c : UInt8) (pre : BStr) (h : c ∉ pre) : ∀ (rest cur : BStr),
    stringsSplitB1.go c (pre ++ rest) cur = stringsSplitB1.go c rest (pre.reverse ++ cur) := by
  induction pre with
  | nil => intro rest cur; rfl
  | cons x pre ih =>
    intro rest cur
    have hx : (x == c) = false := by
      apply beq_false_of_ne; intro e; apply h; rw [e]; exact List.mem_cons_self
    rw [List.cons_append, stringsSplitB1.go, hx]
    simp only [Bool.false_eq_true, if_false]
    rw [ih (fun hm => h (List.mem_cons_of_mem _ hm))]
    simp

theorem split_encode (c : Char) (hc : c.toNat < 0x80) (s : List Char) :
    ∃ p ps, splitOnChar c s = p :: ps ∧
      ∀ cur, stringsSplitB1.go c.toNat.toUInt8 (encode s) cur = (cur.reverse ++ encode p) :: ps.map encode := by
  induction s with
  | nil => exact ⟨[], [], rfl, fun cur => by simp [encode_nil, stringsSplitB1.go]⟩
  | cons d r ih =>
    obtain ⟨p, ps, e, h⟩ := ih
    by_cases hd : d = c
    · subst hd
      refine ⟨[], p :: ps, by rw [PrettifyLemmas.splitOnChar_sep, e], fun cur => ?_⟩
      rw [encode_cons, encodeChar_ascii' d hc]
      simp [stringsSplitB1.go, h, encode_nil]
    · refine ⟨d :: p, ps, PrettifyLemmas.splitOnChar_cons_ne c d r p ps hd e, fun cur => ?_⟩
      have hn : c.toNat.toUInt8 ∉ encodeChar d := by
        intro hm
        have h1 := (encodeChar_mem_ascii d _ hm (by rw [u8 _ (by omega)]; exact hc)).1
        rw [u8 _ (by omega)] at h1
        exact hd (char_eq_of_toNat _ _ h1)
      rw [encode_cons, go_append _ _ hn, h, encode_cons]
      simp

theorem splitB1_encode (c : Char) (hc : c.toNat < 0x80) (s : List Char) :
    stringsSplitB1 (encode s) c.toNat.toUInt8 = (splitOnChar c s).map encode := by
  obtain ⟨p, ps, e, h⟩ := split_encode c hc s
  unfold stringsSplitB1
  rw [h, e]; simp

theorem join_encode (sep : List Char) (ls : List (List Char)) :
    stringsJoin (ls.map encode) (encode sep) = encode (joinWith sep ls) := by
  induction ls with
  | nil => rfl
  | cons p ls ih =>
    cases ls with
    | nil => rfl
    | cons q ls =>
      rw [PrettifyLemmas.joinWith_cons_cons, encode_append, encode_append, ← ih]
      rfl

/-- the word loop on bytes -/
def reflowWordsB (maxLen : Nat) (prefixes : List BStr) :
    List BStr → List BStr → BStr → BStr → List BStr
  | [], done, cur, _ => done ++ [cur]
  | w :: rest, done, cur, pfx =>
    let brk : Bool := match rest with
      | nxt :: _ => decide (cur.length + nxt.length > maxLen)
      | [] => false
    let done' := if brk then done ++ [cur] else done
    let cur' := if brk then [] else cur
    if cur'.isEmpty then
      let pfx' := (prefixes[done'.length]?).getD pfx
      reflowWordsB maxLen prefixes rest done' (pfx' ++ w) pfx'
    else
      reflowWordsB maxLen prefixes rest done' (cur' ++ [32] ++ w) pfx

def brkB (m : Nat) (cur : BStr) : List BStr → Bool
  | nxt :: _ => decide (cur.length + nxt.length > m)
  | [] => false
def brkC (m : Nat) (cur : List Char) : List (List Char) → Bool
  | nxt :: _ => decide (byteLen cur + byteLen nxt > m)
  | [] => false

theorem reflowWordsB_cons (m : Nat) (ps : List BStr) (w : BStr) (rest done : List BStr) (cur pfx : BStr) :
    reflowWordsB m ps (w :: rest) done cur pfx =
      if (if brkB m cur rest then [] else cur).isEmpty then
        reflowWordsB m ps rest (if brkB m cur rest then done ++ [cur] else done)
          ((ps[(if brkB m cur rest then done ++ [cur] else done).length]?).getD pfx ++ w)
          ((ps[(if brkB m cur rest then done ++ [cur] else done).length]?).getD pfx)
      else reflowWordsB m ps rest (if brkB m cur rest then done ++ [cur] else done)
        ((if brkB m cur rest then [] else cur) ++ [32] ++ w) pfx := by
  cases rest <;> rfl

theorem reflowWords_cons (m : Nat) (ps : List (List Char)) (w : List Char) (rest done : List (List Char))
    (cur pfx : List Char) :
    reflowWords m ps (w :: rest) done cur pfx =
      if (if brkC m cur rest then [] else cur).isEmpty then
        reflowWords m ps rest (if brkC m cur rest then done ++ [cur] else done)
          ((ps[(if brkC m cur rest then done ++ [cur] else done).length]?).getD pfx ++ w)
          ((ps[(if brkC m cur rest then done ++ [cur] else done).length]?).getD pfx)
      else reflowWords m ps rest (if brkC m cur rest then done ++ [cur] else done)
        ((if brkC m cur rest then [] else cur) ++ [' '] ++ w) pfx := by
  cases rest <;> rfl

theorem reflowWordsB_encode (m : Nat) (ps : List (List Char)) (ws : List (List Char)) :
    ∀ (done : List (List Char)) (cur pfx : List Char),
    reflowWordsB m (ps.map encode) (ws.map encode) (done.map encode) (encode cur) (encode pfx) =
      (reflowWords m ps ws done cur pfx).map encode := by
  induction ws with
  | nil => intro done cur pfx; simp [reflowWordsB, reflowWords]
  | cons w rest ih =>
    intro done cur pfx
    have hb : brkB m (encode cur) (rest.map encode) = brkC m cur rest := by
      cases rest with
      | nil => rfl
      | cons n r => simp only [List.map_cons, brkB, brkC, encode_length]
    rw [List.map_cons, reflowWordsB_cons, reflowWords_cons, hb]
    generalize brkC m cur rest = brk
    have e32 : ([32] : BStr) = encode [' '] := by decide
    have hg : ∀ n : Nat, ((ps.map encode)[n]?).getD (encode pfx) = encode ((ps[n]?).getD pfx) := by
      intro n; rw [List.getElem?_map]; cases ps[n]? <;> rfl
    cases brk with
    | true =>
      simp only [if_true, List.isEmpty_nil]
      have : done.map encode ++ [encode cur] = (done ++ [cur]).map encode := by simp
      rw [this, List.length_map, hg, ← encode_append, ih]
    | false =>
      simp only [Bool.false_eq_true, if_false, encode_isEmpty]
      cases cur.isEmpty with
      | true =>
        simp only [if_true]
        rw [List.length_map, hg, ← encode_append, ih]
      | false =>
        simp only [Bool.false_eq_true, if_false]
        rw [e32, ← encode_append, ← encode_append, ih]

end KlogV.GoL.Fm
