/-
Helper lemmas for C04, part 4: how the list of blocks changes when lines are spliced into a
list of lines.
-/
import KlogV.Lemmas.Edits
import KlogV.Lemmas.Cut
import KlogV.Lemmas.RoundtripLines
import KlogV.Lemmas.Totality
namespace KlogV.RefineLemmas
open KlogV.EditLemmas

def AllBlank (ls : List Line) : Prop := ∀ l ∈ ls, l.isBlank = true
def AllSig (ls : List Line) : Prop := ∀ l ∈ ls, l.isBlank = false
def StartsSig (ls : List Line) : Prop := ∃ y ys, ls = y :: ys ∧ y.isBlank = false

theorem blocksGo_pre_run (cur xs rest : List Line) (h : AllBlank xs) :
    blocksGo .pre cur (xs ++ rest) = blocksGo .pre (cur ++ xs) rest := by
  induction xs generalizing cur with
  | nil => simp
  | cons x xs ih =>
    have hx := h x (by simp)
    rw [List.cons_append, blocksGo_cons_noemit _ _ _ _ (by simp)]
    simp only [stepMode, hx, if_true]
    rw [ih _ (fun l hl => h l (by simp [hl]))]
    simp

theorem blocksGo_post_run (cur xs : List Line) (h : AllBlank xs) :
    blocksGo .post cur xs = [cur ++ xs] := by
  induction xs generalizing cur with
  | nil => simp [blocksGo]
  | cons x xs ih =>
    have hx := h x (by simp)
    rw [blocksGo_cons_noemit _ _ _ _ (by simp [hx])]
    simp only [stepMode, hx, if_true]
    rw [ih _ (fun l hl => h l (by simp [hl]))]
    simp

theorem finalMode_pre_run (xs : List Line) (h : AllBlank xs) : finalMode .pre xs = .pre := by
  induction xs with
  | nil => rfl
  | cons x xs ih =>
    simp only [finalMode, stepMode, h x (by simp), if_true]
    exact ih (fun l hl => h l (by simp [hl]))

theorem finalMode_post_run (xs : List Line) (h : AllBlank xs) : finalMode .post xs = .post := by
  induction xs with
  | nil => rfl
  | cons x xs ih =>
    simp only [finalMode, stepMode, h x (by simp), if_true]
    exact ih (fun l hl => h l (by simp [hl]))

/-- (S0) a run blank* sig+ blank* is a single block -/
theorem blocks_single (pre sig post : List Line) (hpre : AllBlank pre) (hne : sig ≠ [])
    (hsig : AllSig sig) (hpost : AllBlank post) :
    blocksOfLines (pre ++ sig ++ post) = [pre ++ sig ++ post] ∧
      (post ≠ [] → finalMode .pre (pre ++ sig ++ post) = .post) := by
  obtain ⟨y, ys, rfl⟩ := List.exists_cons_of_ne_nil hne
  have hy : y.isBlank = false := hsig y (by simp)
  have hys : ∀ l ∈ ys, l.isBlank = false := fun l hl => hsig l (by simp [hl])
  constructor
  · unfold blocksOfLines
    rw [List.append_assoc, blocksGo_pre_run _ _ _ hpre, List.nil_append, List.cons_append,
      blocksGo_cons_noemit _ _ _ _ (by simp), stepMode_sig _ _ hy, blocksGo_sig_run _ _ _ hys]
    cases post with
    | nil => simp [blocksGo]
    | cons q qs =>
      have hq := hpost q (by simp)
      rw [blocksGo_cons_noemit _ _ _ _ (by simp)]
      simp only [stepMode, hq, if_true]
      rw [blocksGo_post_run _ _ (fun l hl => hpost l (by simp [hl]))]
      simp
  · intro hp
    obtain ⟨q, qs, rfl⟩ := List.exists_cons_of_ne_nil hp
    have hq := hpost q (by simp)
    rw [List.append_assoc, finalMode_append, finalMode_pre_run _ hpre, List.cons_append]
    simp only [finalMode, stepMode_sig _ _ hy]
    rw [finalMode_append, finalMode_sig_run _ hys]
    simp only [finalMode, stepMode, hq, if_true]
    exact finalMode_post_run _ (fun l hl => hpost l (by simp [hl]))

/-- (E1) a complete block in front of a text that starts with a significant line -/
theorem blocks_cons (pre sig post rest : List Line) (hpre : AllBlank pre) (hne : sig ≠ [])
    (hsig : AllSig sig) (hpost : AllBlank post) (hp : post ≠ []) (hrest : StartsSig rest) :
    blocksOfLines (pre ++ sig ++ post ++ rest) = (pre ++ sig ++ post) :: blocksOfLines rest := by
  obtain ⟨y, ys, rfl, hy⟩ := hrest
  obtain ⟨s1, s2⟩ := blocks_single pre sig post hpre hne hsig hpost
  have := blocksGo_cut .pre [] (pre ++ sig ++ post) y ys (s2 hp) hy
  unfold blocksOfLines at s1 ⊢
  rw [this, s1]
  rfl

/-- (I) the first of several blocks -/
theorem blocks_first (ls b : List Line) (B : List (List Line)) (h : blocksOfLines ls = b :: B) (hB : B ≠ []) :
    ∃ rest, ls = b ++ rest ∧ StartsSig rest ∧ blocksOfLines rest = B ∧ b ≠ [] ∧
      (∀ rest', StartsSig rest' → blocksOfLines (b ++ rest') = b :: blocksOfLines rest') ∧
      finalMode .pre b = .post := by
  unfold blocksOfLines at h
  obtain ⟨xs, y, ys, h1, h2, h3, h4, h5⟩ := blocksGo_struct .pre [] ls b B h hB
  simp only [List.nil_append] at h2
  subst h2
  have hsingle := blocksGo_struct_single .pre [] b y ys b B (by rw [← h1]; exact h) h3 h4 h5
  refine ⟨y :: ys, h1, ⟨y, ys, rfl, h4⟩, h5.symm, ?_, ?_, h3⟩
  · intro h0; subst h0; simp [finalMode] at h3
  · rintro rest' ⟨y', ys', rfl, hy'⟩
    have := blocksGo_cut .pre [] b y' ys' h3 hy'
    unfold blocksOfLines
    rw [this, hsingle]
    rfl

theorem startsSig_append (a b : List Line) (h : StartsSig a) : StartsSig (a ++ b) := by
  obtain ⟨y, ys, rfl, hy⟩ := h
  exact ⟨y, ys ++ b, rfl, hy⟩

/-- (PREFIX) the blocks in front of a given block are not affected by changes behind them -/
theorem blocks_prefix (B1 B : List (List Line)) (hB : B ≠ []) : ∀ ls, blocksOfLines ls = B1 ++ B →
    ∃ rest, ls = B1.flatten ++ rest ∧ blocksOfLines rest = B ∧ (B1 ≠ [] → StartsSig rest) ∧
      ∀ rest', (B1 ≠ [] → StartsSig rest') → blocksOfLines (B1.flatten ++ rest') = B1 ++ blocksOfLines rest' := by
  induction B1 with
  | nil =>
    intro ls h
    exact ⟨ls, by simp, by simpa using h, fun h => absurd rfl h, fun rest' _ => by simp⟩
  | cons c B1' ih =>
    intro ls h
    obtain ⟨rest0, e1, e2, e3, e4, e5, _⟩ := blocks_first ls c (B1' ++ B) (by simpa using h) (by simp [hB])
    obtain ⟨rest, i1, i2, i3, i5⟩ := ih rest0 e3
    have hss : ∀ rest', StartsSig rest' → StartsSig (B1'.flatten ++ rest') := by
      intro rest' hr
      by_cases hB1 : B1' = []
      · subst hB1; simpa using hr
      · obtain ⟨c', B1'', rfl⟩ := List.exists_cons_of_ne_nil hB1
        obtain ⟨rest1, f1, f2, f3, f4, f5, _⟩ := blocks_first rest0 c' (B1'' ++ B) (by simpa using e3) (by simp [hB])
        obtain ⟨z, zs, rfl⟩ := List.exists_cons_of_ne_nil f4
        obtain ⟨y, ys, hy1, hy2⟩ := e2
        rw [hy1] at f1
        have hz : y = z := by
          simp only [List.cons_append] at f1
          exact (List.cons.inj f1).1
        exact ⟨z, zs ++ B1''.flatten ++ rest', by simp, by rw [← hz]; exact hy2⟩
    refine ⟨rest, by rw [e1, i1]; simp, i2, ?_, ?_⟩
    · intro _
      by_cases hB1 : B1' = []
      · subst hB1
        simp only [List.flatten_nil, List.nil_append] at i1
        rw [← i1]; exact e2
      · exact i3 hB1
    · intro rest' hr
      have hr' : StartsSig rest' := hr (by simp)
      rw [List.flatten_cons, List.append_assoc, e5 _ (hss rest' hr'), i5 rest' (fun _ => hr')]
      rfl

theorem finalMode_pre_sig (pre sig : List Line) (hpre : AllBlank pre) (hne : sig ≠ []) (hsig : AllSig sig) :
    finalMode .pre (pre ++ sig) = .sig := by
  obtain ⟨y, ys, rfl⟩ := List.exists_cons_of_ne_nil hne
  rw [finalMode_append, finalMode_pre_run _ hpre]
  simp only [finalMode, stepMode_sig _ _ (hsig y (by simp))]
  exact finalMode_sig_run _ (fun l hl => hsig l (by simp [hl]))

/-- every block is blank* sig+ blank* -/
theorem block_shape (ls b : List Line) (hb : b ∈ blocksOfLines ls) :
    ∃ pre sig post, b = pre ++ sig ++ post ∧ AllBlank pre ∧ sig ≠ [] ∧ AllSig sig ∧ AllBlank post := by
  unfold blocksOfLines at hb
  have key : BlockShape true b := by
    rcases blocksGo_shape true .pre [] ls ⟨rfl, fun l hl => (by cases hl)⟩ with h | ⟨b0, bs, h, h1, h2⟩
    · rw [h] at hb; cases hb
    · rw [h] at hb
      rcases List.mem_cons.mp hb with rfl | hb
      · exact h1
      · obtain ⟨p, s, q, e, a1, a2, a3, a4, _⟩ := h2 b hb
        exact ⟨p, s, q, e, a1, a2, a3, a4, fun h => by cases h⟩
  obtain ⟨p, s, q, e, a1, a2, a3, a4, _⟩ := key
  exact ⟨p, s, q, e, a1, a2, a3, a4⟩

theorem startsSig_pre_nil (pre sig X : List Line) (hpre : AllBlank pre) (h : StartsSig (pre ++ sig ++ X)) :
    pre = [] := by
  cases pre with
  | nil => rfl
  | cons p ps =>
    obtain ⟨y, ys, e, hy⟩ := h
    simp only [List.cons_append] at e
    have := (List.cons.inj e).1
    rw [← this, hpre p (by simp)] at hy
    cases hy

/-- (SPLICE) the context of one block: everything needed to recompute the blocks after an edit
inside or directly after that block -/
theorem blocks_splice (Lr : List Line) (B1 : List (List Line)) (b : List Line) (B2 : List (List Line))
    (h : blocksOfLines Lr = B1 ++ b :: B2) :
    ∃ R2 pre sig post, Lr = B1.flatten ++ b ++ R2 ∧ R2 = B2.flatten ∧ (B2 ≠ [] → StartsSig R2) ∧
      blocksOfLines R2 = B2 ∧
      b = pre ++ sig ++ post ∧ AllBlank pre ∧ sig ≠ [] ∧ AllSig sig ∧ AllBlank post ∧
      (B1 ≠ [] → pre = []) ∧ (B2 ≠ [] → post ≠ []) ∧
      ∀ mid, (B1 ≠ [] → StartsSig mid) → blocksOfLines (B1.flatten ++ mid) = B1 ++ blocksOfLines mid := by
  obtain ⟨rest, e1, e2, e3, e4⟩ := blocks_prefix B1 (b :: B2) (by simp) Lr h
  obtain ⟨pre, sig, post, hb, a1, a2, a3, a4⟩ := block_shape rest b (by rw [e2]; simp)
  by_cases hB2 : B2 = []
  · subst hB2
    have hrest : rest = b := by
      have := blocksOfLines_flatten rest (by rw [e2]; simp)
      rw [e2] at this
      simpa using this.symm
    refine ⟨[], pre, sig, post, by rw [e1, hrest]; simp, rfl, fun h => absurd rfl h, rfl, hb, a1, a2, a3, a4, ?_,
      fun h => absurd rfl h, e4⟩
    intro hB1
    have := e3 hB1
    rw [hrest, hb] at this
    exact startsSig_pre_nil pre sig post a1 this
  · obtain ⟨R2, f1, f2, f3, f4, f5, f6⟩ := blocks_first rest b B2 e2 hB2
    have hflat : B2.flatten = R2 := by
      have := blocksOfLines_flatten R2 (by rw [f3]; exact hB2)
      rw [f3] at this; exact this
    refine ⟨R2, pre, sig, post, by rw [e1, f1]; simp, hflat.symm, fun _ => f2, f3, hb, a1, a2, a3, a4, ?_, ?_, e4⟩
    · intro hB1
      have := e3 hB1
      rw [f1, hb] at this
      exact startsSig_pre_nil pre sig (post ++ R2) a1 (by simpa using this)
    · intro _ hp
      subst hp
      rw [hb, List.append_nil, finalMode_pre_sig pre sig a1 a2 a3] at f6
      cases f6

/-! ## significant lines of a block -/

theorem significant_shape (pre sig post : List Line) (hpre : AllBlank pre) (hne : sig ≠ [])
    (hsig : AllSig sig) (hpost : AllBlank post) :
    significant (pre ++ sig ++ post) = (sig, pre.length, post.length) := by
  obtain ⟨y, ys, rfl⟩ := List.exists_cons_of_ne_nil hne
  have hy : y.isBlank = false := hsig y (by simp)
  have h1 : (pre ++ (y :: ys) ++ post).takeWhile Line.isBlank = pre := by
    rw [List.append_assoc]
    exact takeWhile_run _ _ _ hpre (Or.inr ⟨y, ys ++ post, rfl, hy⟩)
  have h2 : (pre ++ (y :: ys) ++ post).dropWhile Line.isBlank = (y :: ys) ++ post := by
    rw [List.append_assoc, List.dropWhile_append_of_pos hpre]
    simp [hy]
  have h3 : ((y :: ys) ++ post).takeWhile (fun l => !l.isBlank) = y :: ys := by
    apply takeWhile_run _ _ _ (fun l hl => by simp [hsig l hl])
    cases post with
    | nil => left; rfl
    | cons q qs => right; exact ⟨q, qs, rfl, by simp [hpost q (by simp)]⟩
  unfold significant
  simp only [h1, h2, h3]
  simp only [List.length_append, Prod.mk.injEq, true_and]
  omega

/-! ## `fixLast` -/

theorem fixLast_append (st : Style) (A s : List Line) (hs : s ≠ []) :
    fixLast st (A ++ s) = A ++ fixLast st s := by
  rcases eq_nil_or_snoc s with rfl | ⟨d, l, rfl⟩
  · exact absurd rfl hs
  · rw [← List.append_assoc, fixLast_snoc, fixLast_snoc, List.append_assoc]

theorem setEndingIfNone_text (st : Style) (l : Line) : (setEndingIfNone st l).text = l.text := by
  rw [setEndingIfNone_eq]

theorem setEndingIfNone_isBlank (st : Style) (l : Line) : (setEndingIfNone st l).isBlank = l.isBlank := by
  simp [Line.isBlank, setEndingIfNone_text]

theorem fixLast_map_text (st : Style) (s : List Line) : (fixLast st s).map (·.text) = s.map (·.text) := by
  rcases eq_nil_or_snoc s with rfl | ⟨d, l, rfl⟩
  · rw [fixLast_nil]
  · rw [fixLast_snoc]; simp [setEndingIfNone_text]

theorem fixLast_allSig (st : Style) (s : List Line) (h : AllSig s) : AllSig (fixLast st s) := by
  rcases eq_nil_or_snoc s with rfl | ⟨d, l, rfl⟩
  · rw [fixLast_nil]; exact h
  · rw [fixLast_snoc]
    intro x hx
    rcases List.mem_append.mp hx with hx | hx
    · exact h x (by simp [hx])
    · simp only [List.mem_singleton] at hx
      rw [hx, setEndingIfNone_isBlank]; exact h l (by simp)

theorem fixLast_ne_nil (st : Style) (s : List Line) (h : s ≠ []) : fixLast st s ≠ [] := by
  intro h0
  have := congrArg List.length h0
  rw [fixLast_length] at this
  exact h (List.length_eq_zero_iff.mp this)

theorem fixLast_map_decode (st : Style) (s : List Line) :
    (fixLast st s).map (fun l => decodeGo l.text) = s.map (fun l => decodeGo l.text) := by
  have := congrArg (List.map decodeGo) (fixLast_map_text st s)
  simpa [List.map_map, Function.comp_def] using this

end KlogV.RefineLemmas
