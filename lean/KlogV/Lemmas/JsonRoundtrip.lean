/-
Lemmas for C20: the RFC 8259 reader (`KlogV/Spec/JsonRfc.lean`) reads back every text the
encoder model (`KlogV/Model/Json.lean`) writes, compact or indented; field lookups in the views.
-/
import KlogV.Spec.JsonRfc
import KlogV.Model.JsonView
import KlogV.Lemmas.Values
namespace KlogV.JsonLemmas
open KlogV KlogV.Spec

theorem hex4_ctrl : ∀ n : Fin 32, hex4 '0' '0' (hexLower (n.val / 16)) (hexLower (n.val % 16)) = some n.val := by decide

theorem readString_quote (f : Nat) (acc rest : List Char) :
    readString (f + 1) acc ('"' :: rest) = some (acc.reverse, rest) := by
  simp [readString]

theorem eq_ofNat_of_toNat {c : Char} {n : Nat} (h : c.toNat = n) : c = Char.ofNat n := by
  rw [← h, Char.ofNat_toNat]

theorem readString_esc (f : Nat) (acc : List Char) (c : Char) (tail : List Char) :
    readString (f + 1) acc (jsonEscapeChar c ++ tail) = readString f (c :: acc) tail := by
  unfold jsonEscapeChar
  split
  · rename_i h; simp at h; subst h; simp [readString]
  split
  · rename_i h; simp at h; subst h; simp [readString]
  split
  · rename_i h; simp at h
    have := eq_ofNat_of_toNat h
    subst this; simp [readString]
  split
  · rename_i h; simp at h
    have := eq_ofNat_of_toNat h
    subst this; simp [readString]
  split
  · rename_i h; simp at h; subst h; simp [readString]
  split
  · rename_i h; simp at h; subst h; simp [readString]
  split
  · rename_i h; simp at h; subst h; simp [readString]
  split
  · rename_i h1 h2 h3 h4 h5 h6 h7 h
    have hx := hex4_ctrl ⟨c.toNat, h⟩
    simp only at hx
    have hlt : c.toNat < 32 := h
    simp [readString, hx, Char.ofNat_toNat]
    rw [if_neg (by omega), if_neg (by omega)]
  split
  · rename_i h; simp at h
    have := eq_ofNat_of_toNat h
    have hx : hex4 '2' '0' '2' '8' = some 0x2028 := by decide
    subst this; simp [readString, hx]
  split
  · rename_i h; simp at h
    have := eq_ofNat_of_toNat h
    have hx : hex4 '2' '0' '2' '9' = some 0x2029 := by decide
    subst this; simp [readString, hx]
  · rename_i h1 h2 h3 h4 h5 h6 h7 h8 h9 h10
    simp at h1 h2 h8
    simp [readString, h1, h2]
    omega


theorem length_flatMap_esc (s : List Char) : s.length ≤ (s.flatMap jsonEscapeChar).length := by
  induction s with
  | nil => simp
  | cons c s ih =>
    have : 1 ≤ (jsonEscapeChar c).length := by
      unfold jsonEscapeChar; repeat' split
      all_goals simp
    simp only [List.flatMap_cons, List.length_append, List.length_cons]; omega

theorem readString_body (s : List Char) : ∀ (fuel : Nat) (acc rest : List Char), s.length + 1 ≤ fuel →
    readString fuel acc (s.flatMap jsonEscapeChar ++ '"' :: rest) = some (acc.reverse ++ s, rest) := by
  induction s with
  | nil =>
    intro fuel acc rest h
    obtain ⟨f, rfl⟩ : ∃ f, fuel = f + 1 := ⟨fuel - 1, by omega⟩
    simp [readString_quote]
  | cons c s ih =>
    intro fuel acc rest h
    obtain ⟨f, rfl⟩ : ∃ f, fuel = f + 1 := ⟨fuel - 1, by omega⟩
    simp only [List.flatMap_cons, List.append_assoc]
    rw [readString_esc, ih f (c :: acc) rest (by simp at h; omega)]
    simp

theorem jsonString_eq (s : List Char) : jsonString s = '"' :: (s.flatMap jsonEscapeChar ++ ['"']) := by
  simp [jsonString]

def contOk : List Char → Bool
  | [] => true
  | c :: _ => c == ',' || c == ']' || c == '}' || c == '\n'

def readIntCore (neg : Bool) (s : List Char) : Option (Int × List Char) :=
  let ds := s.takeWhile isDigit
  let rest := s.drop ds.length
  if ds.isEmpty then none
  else if ds.length > 1 && ds.head? == some '0' then none
  else match rest with
    | '.' :: _ => none
    | 'e' :: _ => none
    | 'E' :: _ => none
    | _ => some ((if neg then -(digitsVal ds : Int) else digitsVal ds), rest)

theorem readInt_neg (r : List Char) : readInt ('-' :: r) = readIntCore true r := rfl

theorem readInt_pos (c : Char) (r : List Char) (h : c ≠ '-') : readInt (c :: r) = readIntCore false (c :: r) := by
  unfold readInt readIntCore
  split
  rename_i heq
  split at heq
  · rename_i h2; simp at h2; exact absurd h2.1 h
  · cases heq; rfl

theorem contOk_cases (rest : List Char) (h : contOk rest = true) :
    rest = [] ∨ ∃ c r, rest = c :: r ∧ isDigit c = false ∧ c ≠ '.' ∧ c ≠ 'e' ∧ c ≠ 'E' := by
  cases rest with
  | nil => exact Or.inl rfl
  | cons c r =>
    right
    refine ⟨c, r, rfl, ?_⟩
    simp [contOk] at h
    rcases h with ((h | h) | h) | h <;> subst h <;> decide

theorem takeWhile_natDigits (m : Nat) (rest : List Char) (h : contOk rest = true) :
    (natDigits m ++ rest).takeWhile isDigit = natDigits m := by
  rcases contOk_cases rest h with rfl | ⟨c, r, rfl, hd, -⟩
  · simpa using (takeWhile_digits_nil _ (natDigits_all m)).1
  · exact (takeWhile_digits _ c r (natDigits_all m) hd).1

theorem natDigits_head_zero' (m : Nat) : (natDigits m).head? = some '0' → m = 0 := by
  induction m using Nat.strongRecOn with
  | _ m ih =>
    intro h
    by_cases hm : m < 10
    · rw [natDigits_lt m hm] at h
      simp only [List.head?_cons, Option.some.injEq] at h
      have := digitVal_digitChar m
      rw [h] at this
      have h0 : digitVal '0' = 0 := by decide
      omega
    · rw [natDigits_ge m hm] at h
      have hne := natDigits_ne_nil (m / 10)
      have hh : (natDigits (m / 10) ++ [digitChar m]).head? = (natDigits (m / 10)).head? := by
        cases hq : natDigits (m / 10) with
        | nil => exact absurd hq hne
        | cons a b => rfl
      rw [hh] at h
      have := ih (m / 10) (by omega) h
      omega

theorem natDigits_head_zero (m : Nat) (h : (natDigits m).head? = some '0') : (natDigits m).length ≤ 1 := by
  have := natDigits_head_zero' m h
  subst this; decide

theorem readIntCore_natDigits (neg : Bool) (m : Nat) (rest : List Char) (h : contOk rest = true) :
    readIntCore neg (natDigits m ++ rest) = some ((if neg then -(m : Int) else m), rest) := by
  unfold readIntCore
  simp only [takeWhile_natDigits m rest h, List.drop_left, digitsVal_natDigits]
  have hne := natDigits_ne_nil m
  have hz := natDigits_head_zero m
  rw [if_neg (by simpa using hne)]
  rw [if_neg (by
    intro hc
    simp only [Bool.and_eq_true, decide_eq_true_eq, beq_iff_eq] at hc
    have := hz hc.2; omega)]
  rcases contOk_cases rest h with rfl | ⟨c, r, rfl, hd, h1, h2, h3⟩
  · rfl
  · split <;> simp_all


theorem readInt_intDigits (n : Int) (rest : List Char) (h : contOk rest = true) :
    readInt (intDigits n ++ rest) = some (n, rest) := by
  unfold intDigits
  split
  · rename_i hn
    rw [List.cons_append, readInt_neg, readIntCore_natDigits true _ rest h]
    simp only [if_true]
    congr 2; omega
  · rename_i hn
    obtain ⟨c, cs, hc, hd, -⟩ := natDigits_cons n.toNat
    have hne : c ≠ '-' := by intro e; subst e; revert hd; decide
    have := readIntCore_natDigits false n.toNat rest h
    rw [hc] at this ⊢
    rw [List.cons_append, readInt_pos c _ hne, ← List.cons_append, this]
    simp only [Bool.false_eq_true, if_false]
    congr 2; omega

/-- first characters of a value -/
def startOk (c : Char) : Bool := c == 'n' || c == '-' || isDigit c || c == '"' || c == '[' || c == '{'

theorem startOk_facts {c : Char} (h : startOk c = true) : isWs c = false ∧ c ≠ ']' ∧ c ≠ '}' := by
  simp only [startOk, Bool.or_eq_true, beq_iff_eq] at h
  rcases h with ((((h | h) | h) | h) | h) | h
  any_goals (subst h; decide)
  rw [isDigit_iff] at h
  refine ⟨?_, ?_, ?_⟩
  · simp only [isWs, Bool.or_eq_false_iff, beq_eq_false_iff_ne, ne_eq]
    refine ⟨⟨⟨?_, ?_⟩, ?_⟩, ?_⟩ <;> (intro e; subst e; revert h; decide)
  all_goals (intro e; subst e; revert h; decide)

theorem intDigits_start (n : Int) : ∃ c cs, intDigits n = c :: cs ∧ (c = '-' ∨ isDigit c = true) := by
  unfold intDigits
  split
  · exact ⟨_, _, rfl, Or.inl rfl⟩
  · obtain ⟨c, cs, hc, hd, -⟩ := natDigits_cons n.toNat
    exact ⟨c, cs, hc, Or.inr hd⟩

theorem skipWs_cons_of_not {c : Char} (r : List Char) (h : isWs c = false) : skipWs (c :: r) = c :: r := by
  simp [skipWs, List.dropWhile, h]

theorem readValue_num (f : Nat) (n : Int) (rest : List Char) (h : contOk rest = true) :
    readValue (f + 1) (intDigits n ++ rest) = some (.num n, rest) := by
  obtain ⟨c, cs, hc, hd⟩ := intDigits_start n
  have hri := readInt_intDigits n rest h
  rw [hc] at hri ⊢
  have hws : isWs c = false := by
    rcases hd with rfl | hd
    · decide
    · exact (startOk_facts (c := c) (by simp [startOk, hd])).1
  rw [readValue, List.cons_append, skipWs_cons_of_not _ hws]
  have hcne : c ≠ 'n' ∧ c ≠ 't' ∧ c ≠ 'f' ∧ c ≠ '"' ∧ c ≠ '[' ∧ c ≠ '{' := by
    rcases hd with rfl | hd
    · decide
    · rw [isDigit_iff] at hd
      refine ⟨?_, ?_, ?_, ?_, ?_, ?_⟩ <;> (intro e; subst e; revert hd; decide)
  split
  all_goals (try (rename_i heq; simp only [List.cons.injEq] at heq; exact absurd heq.1 (by simp [hcne])))
  rename_i s' _ _ _ _ _ _
  rw [List.cons_append] at hri
  rw [hri]; rfl
theorem ofJVal_arr (xs : List JVal) : ofJVal (.arr xs) = .arr (xs.map ofJVal) := by
  rw [ofJVal]
  congr 1
  rw [List.map_attach_eq_pmap]
  simp [List.pmap_eq_map]

theorem ofJVal_obj (kvs : List (List Char × JVal)) :
    ofJVal (.obj kvs) = .obj (kvs.map (fun kv => (kv.1, ofJVal kv.2))) := by
  rw [ofJVal]
  congr 1
  rw [List.map_attach_eq_pmap]
  simp [List.pmap_eq_map]



/-! ### compact -/

theorem readValue_str (f : Nat) (s rest : List Char) :
    readValue (f + 1) (jsonString s ++ rest) = some (.str s, rest) := by
  rw [jsonString_eq, readValue, List.cons_append, skipWs_cons_of_not _ (by decide)]
  simp only [List.append_assoc, List.singleton_append]
  rw [readString_body s _ [] rest (by
    have := length_flatMap_esc s
    simp only [List.length_cons, List.length_append]; omega)]
  rfl

theorem readValue_null (f : Nat) (rest : List Char) :
    readValue (f + 1) ("null".toList ++ rest) = some (.null, rest) := by
  have e : "null".toList ++ rest = 'n' :: 'u' :: 'l' :: 'l' :: rest := rfl
  rw [readValue, e, skipWs_cons_of_not _ (by decide)]; rfl

def PC (x : JVal) : Prop := ∀ fuel rest, x.compact.length < fuel → contOk rest = true →
  readValue fuel (x.compact ++ rest) = some (ofJVal x, rest)

theorem compact_start (x : JVal) : ∃ c cs, x.compact = c :: cs ∧ startOk c = true := by
  cases x with
  | null => exact ⟨'n', _, rfl, by decide⟩
  | num n =>
    obtain ⟨c, cs, hc, hd⟩ := intDigits_start n
    refine ⟨c, cs, by simpa [JVal.compact] using hc, ?_⟩
    rcases hd with rfl | hd
    · decide
    · simp [startOk, hd]
  | str s => exact ⟨'"', _, by simp only [JVal.compact, jsonString_eq]; rfl, by decide⟩
  | arr xs => exact ⟨'[', _, by simp only [JVal.compact, List.cons_append]; rfl, by decide⟩
  | obj kvs => exact ⟨'{', _, by simp only [JVal.compact, List.cons_append]; rfl, by decide⟩


theorem compactList_cons2 (x y : JVal) (ys : List JVal) :
    compactList (x :: y :: ys) = x.compact ++ ',' :: compactList (y :: ys) := by
  simp [compactList]

theorem compactFields_cons2 (k : List Char) (v : JVal) (kv : List Char × JVal) (kvs : List (List Char × JVal)) :
    compactFields ((k, v) :: kv :: kvs) = jsonString k ++ ':' :: (v.compact ++ ',' :: compactFields (kv :: kvs)) := by
  simp [compactFields]

theorem readElems_compact (xs : List JVal) (hne : xs ≠ []) (ih : ∀ x ∈ xs, PC x) :
    ∀ fuel rest, (compactList xs).length + 1 < fuel →
      readElems fuel (compactList xs ++ ']' :: rest) = some (xs.map ofJVal, rest) := by
  induction xs with
  | nil => exact absurd rfl hne
  | cons x xs ihx =>
    intro fuel rest hf
    obtain ⟨g, rfl⟩ : ∃ g, fuel = g + 1 := ⟨fuel - 1, by omega⟩
    cases xs with
    | nil =>
      simp only [compactList] at hf ⊢
      rw [readElems, ih x (by simp) g (']' :: rest) (by omega) rfl]
      simp only
      rw [skipWs_cons_of_not _ (by decide)]
      rfl
    | cons y ys =>
      rw [compactList_cons2] at hf ⊢
      simp only [List.length_append, List.length_cons] at hf
      rw [readElems, List.append_assoc, ih x (by simp) g _ (by omega) rfl]
      simp only [List.cons_append]
      rw [skipWs_cons_of_not _ (by decide)]
      simp only
      rw [ihx (by simp) (fun z hz => ih z (by simp [hz])) g rest (by omega)]
      rfl

def jstr (s : List Char) : List Char := s.flatMap jsonEscapeChar ++ ['"']

theorem readMembers_compact (kvs : List (List Char × JVal)) (hne : kvs ≠ []) (ih : ∀ kv ∈ kvs, PC kv.2) :
    ∀ fuel rest, (compactFields kvs).length + 1 < fuel →
      readMembers fuel (compactFields kvs ++ '}' :: rest) = some (kvs.map (fun kv => (kv.1, ofJVal kv.2)), rest) := by
  induction kvs with
  | nil => exact absurd rfl hne
  | cons kv kvs ihx =>
    intro fuel rest hf
    obtain ⟨g, rfl⟩ : ∃ g, fuel = g + 1 := ⟨fuel - 1, by omega⟩
    obtain ⟨k, v⟩ := kv
    cases kvs with
    | nil =>
      simp only [compactFields] at hf ⊢
      simp only [List.length_append, List.length_cons] at hf
      rw [readMembers, jsonString_eq]
      simp only [List.cons_append, List.append_assoc, List.nil_append]
      rw [skipWs_cons_of_not _ (by decide)]
      simp only
      rw [readString_body k _ [] _ (by
        have := length_flatMap_esc k
        simp only [List.length_cons, List.length_append]; omega)]
      simp only
      rw [skipWs_cons_of_not _ (by decide)]
      simp only
      rw [ih (k, v) (by simp) g ('}' :: rest) (by simp only []; omega) rfl]
      simp only
      rw [skipWs_cons_of_not _ (by decide)]
      rfl
    | cons kv2 kvs2 =>
      rw [compactFields_cons2] at hf ⊢
      simp only [List.length_append, List.length_cons] at hf
      rw [readMembers, jsonString_eq]
      simp only [List.cons_append, List.append_assoc, List.nil_append]
      rw [skipWs_cons_of_not _ (by decide)]
      simp only
      rw [readString_body k _ [] _ (by
        have := length_flatMap_esc k
        simp only [List.length_cons, List.length_append]; omega)]
      simp only
      rw [skipWs_cons_of_not _ (by decide)]
      simp only
      rw [ih (k, v) (by simp) g _ (by simp only []; omega) rfl]
      simp only
      rw [skipWs_cons_of_not _ (by decide)]
      simp only
      rw [ihx (by simp) (fun z hz => ih z (by simp [hz])) g rest (by omega)]
      rfl


theorem compactList_start (x : JVal) (xs : List JVal) :
    ∃ c cs, compactList (x :: xs) = c :: cs ∧ startOk c = true := by
  obtain ⟨c, cs, hc, hs⟩ := compact_start x
  cases xs with
  | nil => exact ⟨c, cs, by simpa [compactList] using hc, hs⟩
  | cons y ys => exact ⟨c, _, by rw [compactList_cons2, hc]; rfl, hs⟩

theorem compactFields_start (kv : List Char × JVal) (kvs : List (List Char × JVal)) :
    ∃ cs, compactFields (kv :: kvs) = '"' :: cs := by
  obtain ⟨k, v⟩ := kv
  cases kvs with
  | nil => exact ⟨_, by simp only [compactFields, jsonString_eq]; rfl⟩
  | cons y ys => exact ⟨_, by rw [compactFields_cons2, jsonString_eq]; rfl⟩

theorem compact_PC : ∀ x, PC x
  | .null => by
    intro fuel rest hf _
    obtain ⟨g, rfl⟩ : ∃ g, fuel = g + 1 := ⟨fuel - 1, by omega⟩
    rw [ofJVal, JVal.compact]; exact readValue_null g rest
  | .num n => by
    intro fuel rest hf hr
    obtain ⟨g, rfl⟩ : ∃ g, fuel = g + 1 := ⟨fuel - 1, by omega⟩
    rw [ofJVal, JVal.compact]; exact readValue_num g n rest hr
  | .str s => by
    intro fuel rest hf hr
    obtain ⟨g, rfl⟩ : ∃ g, fuel = g + 1 := ⟨fuel - 1, by omega⟩
    rw [ofJVal, JVal.compact]; exact readValue_str g s rest
  | .arr xs => by
    have ih : ∀ x ∈ xs, PC x := fun x _ => compact_PC x
    intro fuel rest hf hr
    obtain ⟨g, rfl⟩ : ∃ g, fuel = g + 1 := ⟨fuel - 1, by omega⟩
    rw [ofJVal_arr]
    simp only [JVal.compact, List.cons_append, List.nil_append, List.append_assoc, List.length_cons, List.length_append] at hf ⊢
    rw [readValue, skipWs_cons_of_not _ (by decide)]
    cases xs with
    | nil =>
      simp only [compactList, List.nil_append]
      rw [skipWs_cons_of_not _ (by decide)]
      rfl
    | cons x xs =>
      obtain ⟨c, cs, hc, hs⟩ := compactList_start x xs
      have hel := readElems_compact (x :: xs) (by simp) ih g rest (by simp only [List.length_nil] at hf; omega)
      obtain ⟨h1, h2, -⟩ := startOk_facts hs
      simp only
      rw [hc] at hel ⊢
      rw [List.cons_append] at hel ⊢
      rw [skipWs_cons_of_not _ h1]
      split
      · rename_i heq; simp only [List.cons.injEq] at heq; exact absurd heq.1 h2
      · rw [hel]; rfl
  | .obj kvs => by
    have ih : ∀ kv ∈ kvs, PC kv.2 := fun kv _ => compact_PC kv.2
    intro fuel rest hf hr
    obtain ⟨g, rfl⟩ : ∃ g, fuel = g + 1 := ⟨fuel - 1, by omega⟩
    rw [ofJVal_obj]
    simp only [JVal.compact, List.cons_append, List.nil_append, List.append_assoc, List.length_cons, List.length_append] at hf ⊢
    rw [readValue, skipWs_cons_of_not _ (by decide)]
    cases kvs with
    | nil =>
      simp only [compactFields, List.nil_append]
      rw [skipWs_cons_of_not _ (by decide)]
      rfl
    | cons kv kvs =>
      obtain ⟨cs, hc⟩ := compactFields_start kv kvs
      have hel := readMembers_compact (kv :: kvs) (by simp) ih g rest (by simp only [List.length_nil] at hf; omega)
      simp only
      rw [hc] at hel ⊢
      rw [List.cons_append] at hel ⊢
      rw [skipWs_cons_of_not _ (by decide)]
      rw [hel]; rfl
termination_by x => sizeOf x
decreasing_by
  · have := List.sizeOf_lt_of_mem ‹_ ∈ xs›; simp; omega
  · have h := List.sizeOf_lt_of_mem ‹_ ∈ kvs›
    have : sizeOf kv.2 < sizeOf kv := by cases kv; simp; omega
    simp; omega


/-! ### pretty -/

theorem skipWs_nl (s : List Char) : skipWs ('\n' :: s) = skipWs s := by
  simp [skipWs, List.dropWhile, isWs]

theorem skipWs_sp (s : List Char) : skipWs (' ' :: s) = skipWs s := by
  simp [skipWs, List.dropWhile, isWs]

theorem skipWs_replicate (n : Nat) (s : List Char) : skipWs (List.replicate n ' ' ++ s) = skipWs s := by
  induction n with
  | zero => rfl
  | succ n ih => rw [List.replicate_succ, List.cons_append, skipWs_sp, ih]

theorem skipWs_indent (d : Nat) (s : List Char) : skipWs (indentOf d ++ s) = skipWs s :=
  skipWs_replicate _ s

theorem readValue_congr {s s' : List Char} (h : skipWs s = skipWs s') (fuel : Nat) :
    readValue fuel s = readValue fuel s' := by
  cases fuel with
  | zero => simp [readValue]
  | succ f => rw [readValue, readValue, h]

theorem readElems_congr {s s' : List Char} (h : skipWs s = skipWs s') (fuel : Nat) :
    readElems fuel s = readElems fuel s' := by
  cases fuel with
  | zero => simp [readElems]
  | succ f => rw [readElems, readElems, readValue_congr h]

theorem readMembers_congr {s s' : List Char} (h : skipWs s = skipWs s') (fuel : Nat) :
    readMembers fuel s = readMembers fuel s' := by
  cases fuel with
  | zero => simp [readMembers]
  | succ f => rw [readMembers, readMembers, h]

def PP (x : JVal) : Prop := ∀ d fuel rest, (x.pretty d).length < fuel → contOk rest = true →
  readValue fuel (x.pretty d ++ rest) = some (ofJVal x, rest)

theorem pretty_start (x : JVal) (d : Nat) : ∃ c cs, x.pretty d = c :: cs ∧ startOk c = true := by
  match x with
  | .null => exact ⟨'n', _, rfl, by decide⟩
  | .num n =>
    obtain ⟨c, cs, hc, hd⟩ := intDigits_start n
    refine ⟨c, cs, by simpa [JVal.pretty] using hc, ?_⟩
    rcases hd with rfl | hd
    · decide
    · simp [startOk, hd]
  | .str s => exact ⟨'"', _, by simp only [JVal.pretty, jsonString_eq]; rfl, by decide⟩
  | .arr [] => exact ⟨'[', _, by simp only [JVal.pretty]; rfl, by decide⟩
  | .arr (x :: xs) => exact ⟨'[', _, by simp only [JVal.pretty, List.cons_append]; rfl, by decide⟩
  | .obj [] => exact ⟨'{', _, by simp only [JVal.pretty]; rfl, by decide⟩
  | .obj (x :: xs) => exact ⟨'{', _, by simp only [JVal.pretty, List.cons_append]; rfl, by decide⟩

theorem prettyList_cons2 (d : Nat) (x y : JVal) (ys : List JVal) :
    prettyList d (x :: y :: ys) = indentOf d ++ (x.pretty d ++ ',' :: '\n' :: prettyList d (y :: ys)) := by
  simp [prettyList]

theorem prettyFields_cons2 (d : Nat) (k : List Char) (v : JVal) (kv : List Char × JVal) (kvs : List (List Char × JVal)) :
    prettyFields d ((k, v) :: kv :: kvs) =
      indentOf d ++ (jsonString k ++ ':' :: ' ' :: (v.pretty d ++ ',' :: '\n' :: prettyFields d (kv :: kvs))) := by
  simp [prettyFields]

theorem readElems_pretty (xs : List JVal) (hne : xs ≠ []) (ih : ∀ x ∈ xs, PP x) :
    ∀ d d' fuel rest, (prettyList d xs).length + 1 < fuel →
      readElems fuel (prettyList d xs ++ '\n' :: (indentOf d' ++ ']' :: rest)) = some (xs.map ofJVal, rest) := by
  induction xs with
  | nil => exact absurd rfl hne
  | cons x xs ihx =>
    intro d d' fuel rest hf
    obtain ⟨g, rfl⟩ : ∃ g, fuel = g + 1 := ⟨fuel - 1, by omega⟩
    cases xs with
    | nil =>
      simp only [prettyList, List.length_append] at hf ⊢
      rw [readElems, List.append_assoc, readValue_congr (skipWs_indent _ _),
        ih x (by simp) d g _ (by omega) rfl]
      simp only
      rw [skipWs_nl, skipWs_indent, skipWs_cons_of_not _ (by decide)]
      rfl
    | cons y ys =>
      rw [prettyList_cons2] at hf ⊢
      simp only [List.length_append, List.length_cons] at hf
      rw [readElems, List.append_assoc, readValue_congr (skipWs_indent _ _), List.append_assoc,
        ih x (by simp) d g _ (by omega) rfl]
      simp only [List.cons_append]
      rw [skipWs_cons_of_not _ (by decide)]
      simp only
      rw [readElems_congr (skipWs_nl _), ihx (by simp) (fun z hz => ih z (by simp [hz])) d d' g rest (by omega)]
      rfl

theorem readMembers_pretty (kvs : List (List Char × JVal)) (hne : kvs ≠ []) (ih : ∀ kv ∈ kvs, PP kv.2) :
    ∀ d d' fuel rest, (prettyFields d kvs).length + 1 < fuel →
      readMembers fuel (prettyFields d kvs ++ '\n' :: (indentOf d' ++ '}' :: rest)) =
        some (kvs.map (fun kv => (kv.1, ofJVal kv.2)), rest) := by
  induction kvs with
  | nil => exact absurd rfl hne
  | cons kv kvs ihx =>
    intro d d' fuel rest hf
    obtain ⟨g, rfl⟩ : ∃ g, fuel = g + 1 := ⟨fuel - 1, by omega⟩
    obtain ⟨k, v⟩ := kv
    cases kvs with
    | nil =>
      simp only [prettyFields] at hf ⊢
      simp only [List.length_append, List.length_cons] at hf
      rw [readMembers, jsonString_eq]
      simp only [List.cons_append, List.append_assoc, List.nil_append]
      rw [skipWs_indent, skipWs_cons_of_not _ (by decide)]
      simp only
      rw [readString_body k _ [] _ (by
        have := length_flatMap_esc k
        simp only [List.length_cons, List.length_append]; omega)]
      simp only
      rw [skipWs_cons_of_not _ (by decide)]
      simp only
      rw [readValue_congr (skipWs_sp _), ih (k, v) (by simp) d g _ (by simp only []; omega) rfl]
      simp only
      rw [skipWs_nl, skipWs_indent, skipWs_cons_of_not _ (by decide)]
      rfl
    | cons kv2 kvs2 =>
      rw [prettyFields_cons2] at hf ⊢
      simp only [List.length_append, List.length_cons] at hf
      rw [readMembers, jsonString_eq]
      simp only [List.cons_append, List.append_assoc, List.nil_append]
      rw [skipWs_indent, skipWs_cons_of_not _ (by decide)]
      simp only
      rw [readString_body k _ [] _ (by
        have := length_flatMap_esc k
        simp only [List.length_cons, List.length_append]; omega)]
      simp only
      rw [skipWs_cons_of_not _ (by decide)]
      simp only
      rw [readValue_congr (skipWs_sp _), ih (k, v) (by simp) d g _ (by simp only []; omega) rfl]
      simp only
      rw [skipWs_cons_of_not _ (by decide)]
      simp only
      rw [readMembers_congr (skipWs_nl _), ihx (by simp) (fun z hz => ih z (by simp [hz])) d d' g rest (by omega)]
      rfl


theorem prettyList_start (d : Nat) (x : JVal) (xs : List JVal) (t : List Char) :
    ∃ c cs, skipWs (prettyList d (x :: xs) ++ t) = c :: cs ∧ startOk c = true := by
  obtain ⟨c, cs, hc, hs⟩ := pretty_start x d
  have h1 := (startOk_facts hs).1
  cases xs with
  | nil =>
    refine ⟨c, cs ++ t, ?_, hs⟩
    simp only [prettyList, List.append_assoc]
    rw [skipWs_indent, hc, List.cons_append, skipWs_cons_of_not _ h1]
  | cons y ys =>
    exact ⟨c, _, by rw [prettyList_cons2, List.append_assoc, skipWs_indent, hc, List.cons_append, List.cons_append,
      skipWs_cons_of_not _ h1], hs⟩

theorem prettyFields_start (d : Nat) (kv : List Char × JVal) (kvs : List (List Char × JVal)) (t : List Char) :
    ∃ cs, skipWs (prettyFields d (kv :: kvs) ++ t) = '"' :: cs := by
  obtain ⟨k, v⟩ := kv
  cases kvs with
  | nil =>
    exact ⟨_, by
      simp only [prettyFields, List.append_assoc]
      rw [skipWs_indent, jsonString_eq, List.cons_append, skipWs_cons_of_not _ (by decide)]⟩
  | cons y ys =>
    exact ⟨_, by rw [prettyFields_cons2, List.append_assoc, skipWs_indent, jsonString_eq, List.cons_append, List.cons_append,
      skipWs_cons_of_not _ (by decide)]⟩

theorem pretty_PP : ∀ x, PP x
  | .null => by
    intro d fuel rest hf _
    obtain ⟨g, rfl⟩ : ∃ g, fuel = g + 1 := ⟨fuel - 1, by omega⟩
    rw [ofJVal, JVal.pretty]; exact readValue_null g rest
  | .num n => by
    intro d fuel rest hf hr
    obtain ⟨g, rfl⟩ : ∃ g, fuel = g + 1 := ⟨fuel - 1, by omega⟩
    rw [ofJVal, JVal.pretty]; exact readValue_num g n rest hr
  | .str s => by
    intro d fuel rest hf hr
    obtain ⟨g, rfl⟩ : ∃ g, fuel = g + 1 := ⟨fuel - 1, by omega⟩
    rw [ofJVal, JVal.pretty]; exact readValue_str g s rest
  | .arr [] => by
    intro d fuel rest hf hr
    obtain ⟨g, rfl⟩ : ∃ g, fuel = g + 1 := ⟨fuel - 1, by omega⟩
    rw [ofJVal_arr, JVal.pretty, readValue]
    simp only [List.cons_append, List.nil_append]
    rw [skipWs_cons_of_not _ (by decide)]
    simp only
    rw [skipWs_cons_of_not _ (by decide)]
    rfl
  | .arr (x :: xs) => by
    have ih : ∀ z ∈ x :: xs, PP z := fun z _ => pretty_PP z
    intro d fuel rest hf hr
    obtain ⟨g, rfl⟩ : ∃ g, fuel = g + 1 := ⟨fuel - 1, by omega⟩
    rw [ofJVal_arr]
    simp only [JVal.pretty, List.cons_append, List.nil_append, List.append_assoc, List.length_cons, List.length_append] at hf ⊢
    rw [readValue, skipWs_cons_of_not _ (by decide)]
    obtain ⟨c, cs, hc, hs⟩ := prettyList_start (d + 1) x xs ('\n' :: (indentOf d ++ ']' :: rest))
    have hel := readElems_pretty (x :: xs) (by simp) ih (d + 1) d g rest (by omega)
    obtain ⟨h1, h2, -⟩ := startOk_facts hs
    simp only
    rw [skipWs_nl, hc, readElems_congr (skipWs_nl _), hel]
    split
    · rename_i heq; simp only [List.cons.injEq] at heq; exact absurd heq.1 h2
    · rfl
  | .obj [] => by
    intro d fuel rest hf hr
    obtain ⟨g, rfl⟩ : ∃ g, fuel = g + 1 := ⟨fuel - 1, by omega⟩
    rw [ofJVal_obj, JVal.pretty, readValue]
    simp only [List.cons_append, List.nil_append]
    rw [skipWs_cons_of_not _ (by decide)]
    simp only
    rw [skipWs_cons_of_not _ (by decide)]
    rfl
  | .obj (kv :: kvs) => by
    have ih : ∀ z ∈ kv :: kvs, PP z.2 := fun z _ => pretty_PP z.2
    intro d fuel rest hf hr
    obtain ⟨g, rfl⟩ : ∃ g, fuel = g + 1 := ⟨fuel - 1, by omega⟩
    rw [ofJVal_obj]
    simp only [JVal.pretty, List.cons_append, List.nil_append, List.append_assoc, List.length_cons, List.length_append] at hf ⊢
    rw [readValue, skipWs_cons_of_not _ (by decide)]
    obtain ⟨cs, hc⟩ := prettyFields_start (d + 1) kv kvs ('\n' :: (indentOf d ++ '}' :: rest))
    have hel := readMembers_pretty (kv :: kvs) (by simp) ih (d + 1) d g rest (by omega)
    simp only
    rw [skipWs_nl, hc, readMembers_congr (skipWs_nl _), hel]
    rfl
termination_by x => sizeOf x
decreasing_by
  · have := List.sizeOf_lt_of_mem ‹_ ∈ x :: xs›; simp at *; omega
  · have h := List.sizeOf_lt_of_mem ‹_ ∈ kv :: kvs›
    have : sizeOf z.2 < sizeOf z := by cases z; simp; omega
    simp at *; omega

end KlogV.JsonLemmas
namespace KlogV
open Spec JsonLemmas
theorem readString_jsonString (s rest : List Char) :
    Spec.readString ((jsonString s).length + rest.length + 1) [] ((jsonString s).drop 1 ++ rest) = some (s, rest) := by
  have := readString_body s ((jsonString s).length + rest.length + 1) [] rest (by
    have := length_flatMap_esc s
    simp only [jsonString_eq, List.length_cons, List.length_append, List.length_nil]; omega)
  simpa [jsonString_eq] using this

theorem readJson_compact (v : JVal) : Spec.readJson v.compact = some (Spec.ofJVal v) := by
  have := compact_PC v (v.compact.length + 1) [] (by omega) rfl
  rw [List.append_nil] at this
  rw [readJson, this]; rfl

theorem readJson_pretty (v : JVal) : Spec.readJson (v.pretty 0) = some (Spec.ofJVal v) := by
  have := pretty_PP v 0 ((v.pretty 0).length + 1) [] (by omega) rfl
  rw [List.append_nil] at this
  rw [readJson, this]; rfl

theorem JsonLemmas.readJson_pretty_nl (v : JVal) : Spec.readJson (v.pretty 0 ++ ['\n']) = some (Spec.ofJVal v) := by
  have := pretty_PP v 0 ((v.pretty 0 ++ ['\n']).length + 1) ['\n'] (by simp only [List.length_append]; omega) rfl
  rw [readJson, this]; rfl

theorem toJson_wellformed (u : UTab) (file : List Char) (pretty : Bool) (t : Bytes) (out : List Char)
    (h : toJson u file pretty (parseDoc t) = some out) : ∃ j, Spec.readJson out = some j := by
  unfold toJson at h
  cases hv : envelope u file (parseDoc t) with
  | none => rw [hv] at h; simp at h
  | some v =>
    rw [hv] at h
    simp only [Option.map_some, Option.some.injEq] at h
    subst h
    cases pretty with
    | true => exact ⟨_, readJson_pretty v⟩
    | false => exact ⟨_, readJson_compact v⟩

/-- lookup of a field in an object view -/
def field (k : String) : JVal → Option JVal
  | .obj kvs => (kvs.find? (fun kv => kv.1 == k.toList)).map (·.2)
  | _ => none

theorem envelope_shape (u : UTab) (file : List Char) (d : DocOut) (v : JVal) (h : envelope u file d = some v) :
    (∃ rs, v = .obj [("records".toList, .arr rs), ("errors".toList, .null)]) ∨
    (∃ es, v = .obj [("records".toList, .null), ("errors".toList, .arr es)]) := by
  cases d with
  | records rs bs => simp only [envelope, Option.some.injEq] at h; exact Or.inl ⟨_, h.symm⟩
  | errors es => simp only [envelope, Option.some.injEq] at h; exact Or.inr ⟨_, h.symm⟩
  | panic => simp [envelope] at h

theorem recordView_fields (u : UTab) (r : Record) :
    field "date" (recordView u r) = some (.str r.date.print) ∧
    field "summary" (recordView u r) = some (.str (joinNL r.summary)) ∧
    field "should_total_mins" (recordView u r) = some (.num r.shouldMins) ∧
    field "total_mins" (recordView u r) = some (.num ((r.entries.map Entry.minutes).sum)) ∧
    field "diff_mins" (recordView u r) = some (.num ((r.entries.map Entry.minutes).sum - r.shouldMins)) ∧
    field "entries" (recordView u r) = some (.arr (r.entries.map (entryView u))) := by
  refine ⟨?_, ?_, ?_, ?_, ?_, ?_⟩ <;> rfl

theorem entryView_fields (u : UTab) (e : Entry) :
    field "summary" (entryView u e) = some (.str (joinNL e.summary)) ∧
    field "total_mins" (entryView u e) = some (.num e.minutes) ∧
    (match e.val with
     | .dur _ => field "type" (entryView u e) = some (.str "duration".toList)
     | .openRange s _ _ => field "type" (entryView u e) = some (.str "open_range".toList) ∧
         field "start" (entryView u e) = some (.str s.print) ∧ field "start_mins" (entryView u e) = some (.num s.offset)
     | .range s t _ => field "type" (entryView u e) = some (.str "range".toList) ∧
         field "start_mins" (entryView u e) = some (.num s.offset) ∧ field "end_mins" (entryView u e) = some (.num t.offset) ∧
         field "start" (entryView u e) = some (.str s.print) ∧ field "end" (entryView u e) = some (.str t.print) ∧
         e.minutes = t.offset - s.offset) := by
  obtain ⟨val, summ⟩ := e
  cases val with
  | dur d => exact ⟨rfl, rfl, rfl⟩
  | openRange s b q => exact ⟨rfl, rfl, rfl, rfl, rfl⟩
  | range s t b => exact ⟨rfl, rfl, rfl, rfl, rfl, rfl, rfl, rfl⟩

theorem errorView_fields (file : List Char) (e : GErr) :
    field "line" (errorView file e) = some (.num e.lineNumber) ∧
    field "column" (errorView file e) = some (.num (e.pos + 1)) ∧
    field "length" (errorView file e) = some (.num e.len) := ⟨rfl, rfl, rfl⟩

end KlogV

