/-
Helper lemmas for C04b, part 1: the entries pass in terms of GROUPS of lines (one per entry), in
both directions: what a successful pass consists of, and what a pass over given groups yields.
Unlike the grammar (C01) the groups refer to `parseValue` directly, so no hypothesis on long digit
runs is needed.
-/
import KlogV.Lemmas.Refine
import KlogV.Lemmas.Grammar
namespace KlogV.RefineBLemmas
open KlogV KlogV.RefineLemmas KlogV.GrammarLemmas

/-- the lines `K` are the lines of entry `e`, read with indentation `ind` -/
def Grp (ind : List Char) (K : List (List Char)) (e : Entry) : Prop :=
  ∃ (s : List Char) (v : ValueOk) (texts : List (List Char)),
    K = (ind ++ s) :: texts.map (fun t => ind ++ ind ++ t) ∧
    parseValue ind.length s = .ok v ∧ (∃ c r, s = c :: r ∧ isSpTab c = false) ∧
    e = ⟨v.val, firstOf v.rest :: texts⟩ ∧ ∀ t ∈ texts, okEntrySummaryCont t = true

abbrev G := List (List Char) × Entry

def flatG (gs : List G) : List (List Char) := (gs.map Prod.fst).flatten

def AllGrp (ind : List Char) (gs : List G) : Prop := ∀ g ∈ gs, Grp ind g.1 g.2

theorem flatG_nil : flatG [] = [] := rfl
theorem flatG_cons (g : G) (gs : List G) : flatG (g :: gs) = g.1 ++ flatG gs := by simp [flatG]
theorem flatG_append (a b : List G) : flatG (a ++ b) = flatG a ++ flatG b := by simp [flatG]

theorem grp_ne_nil {ind : List Char} {K : List (List Char)} {e : Entry} (h : Grp ind K e) : K ≠ [] := by
  obtain ⟨s, v, texts, rfl, _⟩ := h
  simp

theorem grp_length {ind : List Char} {K : List (List Char)} {e : Entry} (h : Grp ind K e) :
    K.length = e.summary.length := by
  obtain ⟨s, v, texts, rfl, _, _, rfl, _⟩ := h
  simp

/-! ## soundness: a pass without errors consists of groups -/

def GInv (ind : List Char) (pre : List (List Char)) (st : PState) : Prop :=
  st.errs = [] ∧ st.stopped = false ∧ st.panicked = false ∧
  ∃ (gs : List G) (B : List (List Char)), pre = flatG gs ++ B ∧ st.entries = gs.map Prod.snd ∧ AllGrp ind gs ∧
    ((st.pending = none ∧ B = []) ∨ ∃ p, st.pending = some p ∧ Grp ind B ⟨p.val, p.summary⟩)

theorem commit_gsound {ind : List Char} {pre : List (List Char)} {st : PState} (h : GInv ind pre st)
    (he : st.commit.errs = []) : GInv ind pre st.commit ∧ st.commit.pending = none := by
  obtain ⟨h1, h2, h3, gs, B, hpre, hE, hG, hB⟩ := h
  unfold PState.commit at he ⊢
  split
  · rename_i hp
    exact ⟨⟨h1, h2, h3, gs, B, hpre, hE, hG, hB⟩, hp⟩
  · rename_i p hp
    rw [hp] at he
    rcases hB with ⟨hn, _⟩ | ⟨p', hp', hB⟩
    · rw [hn] at hp; cases hp
    · rw [hp] at hp'
      simp only [Option.some.injEq] at hp'
      subst hp'
      dsimp only at he
      split
      · rename_i hdup
        rw [if_pos hdup] at he
        simp at he
      · refine ⟨⟨h1, h2, h3, gs ++ [(B, ⟨p.val, p.summary⟩)], [], ?_, ?_, ?_, Or.inl ⟨rfl, rfl⟩⟩, rfl⟩
        · rw [hpre, flatG_append]; simp [flatG]
        · simp [hE]
        · intro g hg
          rcases List.mem_append.mp hg with hg | hg
          · exact hG g hg
          · simp only [List.mem_singleton] at hg
            subst hg
            exact hB

theorem entryStepB_ok' {ind : List Char} {st : PState} {nr : Nat} {l : List Char}
    (he : (entryStepB ind st nr l).errs = []) (hpan : (entryStepB ind st nr l).panicked = false) :
    ∃ s v, l = ind ++ s ∧ parseValue ind.length s = .ok v ∧ (∃ c r, s = c :: r ∧ isSpTab c = false) ∧
      entryStepB ind st nr l = { st with pending := some ⟨v.val, [firstOf v.rest], nr, v.startPos, v.spanLen⟩ } := by
  rw [entryStepB_eq'] at he hpan ⊢
  by_cases hpre : (!ind.isPrefixOf l) = true
  · rw [if_pos hpre] at he; simp at he
  · rw [if_neg hpre] at he hpan ⊢
    simp only [Bool.not_eq_true, Bool.not_eq_false'] at hpre
    obtain ⟨s, hs⟩ := List.isPrefixOf_iff_prefix.mp hpre
    have hdrop : l.drop ind.length = s := by rw [← hs, List.drop_left]
    rw [hdrop] at he hpan ⊢
    by_cases hb : headBlank s = true
    · rw [if_pos hb] at he; simp at he
    · rw [if_neg hb] at he hpan ⊢
      cases hv : parseValue ind.length s with
      | panic => rw [hv] at hpan; simp [stepV] at hpan
      | bad pos len => rw [hv] at he; simp [stepV] at he
      | illegalRange pos len => rw [hv] at he; simp [stepV] at he
      | ok v =>
        refine ⟨s, v, hs.symm, hv, ?_, rfl⟩
        cases s with
        | nil =>
          obtain ⟨a, b, hbad⟩ := parseValue_nil (ind.length : Int)
          rw [hbad] at hv; cases hv
        | cons c r =>
          refine ⟨c, r, rfl, ?_⟩
          simpa [headBlank] using hb

theorem entryStepB_gsound {ind : List Char} {A : List (List Char)} {st : PState} {nr : Nat} {l : List Char}
    (h : GInv ind A st) (hp : st.pending = none)
    (he : (entryStepB ind st nr l).errs = []) (hpan : (entryStepB ind st nr l).panicked = false) :
    GInv ind (A ++ [l]) (entryStepB ind st nr l) := by
  obtain ⟨h1, h2, h3, gs, B, hpre, hE, hG, hB⟩ := h
  have hBnil : B = [] := by
    rcases hB with ⟨_, hb⟩ | ⟨p, hp', _⟩
    · exact hb
    · rw [hp] at hp'; cases hp'
  subst hBnil
  obtain ⟨s, v, hs, hv, hc, hE'⟩ := entryStepB_ok' he hpan
  rw [hE']
  refine ⟨h1, h2, h3, gs, [l], by rw [hpre]; simp, hE, hG, Or.inr ⟨_, rfl, ?_⟩⟩
  exact ⟨s, v, [], by simp [hs], hv, hc, rfl, by simp⟩

theorem grp_snoc {ind : List Char} {B : List (List Char)} {e : Entry} {l : List Char}
    (h : Grp ind B e) (hdbl : (ind ++ ind).isPrefixOf l = true)
    (hok : okEntrySummaryCont (l.drop (ind ++ ind).length) = true) :
    Grp ind (B ++ [l]) ⟨e.val, e.summary ++ [l.drop (ind ++ ind).length]⟩ := by
  obtain ⟨s, v, texts, rfl, hv, hc, rfl, ht⟩ := h
  obtain ⟨t, ht'⟩ := List.isPrefixOf_iff_prefix.mp hdbl
  have hdrop : l.drop (ind ++ ind).length = t := by rw [← ht', List.drop_left]
  rw [hdrop] at hok ⊢
  refine ⟨s, v, texts ++ [t], ?_, hv, hc, by simp, ?_⟩
  · simp [← ht']
  · intro x hx
    rcases List.mem_append.mp hx with hx | hx
    · exact ht x hx
    · simp only [List.mem_singleton] at hx; rw [hx]; exact hok

theorem entryStep_gsound {ind : List Char} {pre : List (List Char)} {st : PState} {nr : Nat} {l : List Char}
    (h : GInv ind pre st) (he : (entryStep ind st nr l).errs = []) (hpan : (entryStep ind st nr l).panicked = false) :
    GInv ind (pre ++ [l]) (entryStep ind st nr l) := by
  have h' := h
  obtain ⟨h1, h2, h3, gs, B, hpre, hE, hG, hB⟩ := h
  have hsp : (st.stopped || st.panicked) = false := by rw [h2, h3]; rfl
  rcases entryStep_cases ind st nr l hsp with ⟨p, hp, hdbl, hEq⟩ | hEq
  · rw [hEq] at he ⊢
    rcases hB with ⟨hn, _⟩ | ⟨p', hp', hB⟩
    · rw [hn] at hp; cases hp
    · rw [hp] at hp'
      simp only [Option.some.injEq] at hp'
      subst hp'
      by_cases hok : okEntrySummaryCont (l.drop (ind ++ ind).length) = true
      · rw [if_pos hok]
        refine ⟨h1, h2, h3, gs, B ++ [l], by rw [hpre, List.append_assoc], hE, hG, Or.inr ⟨_, rfl, ?_⟩⟩
        exact grp_snoc hB hdbl hok
      · rw [if_neg hok] at he
        simp at he
  · rw [hEq] at he hpan ⊢
    obtain ⟨⟨x, hx⟩, _⟩ := entryStepB_errs ind st.commit nr l
    have hce : st.commit.errs = [] := nil_of_append_nil hx he
    obtain ⟨hc, hcp⟩ := commit_gsound h' hce
    exact entryStepB_gsound hc hcp he hpan

theorem entriesGo_gsound {ind : List Char} (ls : List (List Char)) : ∀ (pre : List (List Char)) (st : PState) (nr : Nat),
    GInv ind pre st → (entriesGo ind st nr ls).errs = [] → (entriesGo ind st nr ls).panicked = false →
    ∃ gs : List G, pre ++ ls = flatG gs ∧ (entriesGo ind st nr ls).entries = gs.map Prod.snd ∧ AllGrp ind gs := by
  induction ls with
  | nil =>
    intro pre st nr h he _
    unfold entriesGo at he ⊢
    obtain ⟨hc, hcp⟩ := commit_gsound h he
    obtain ⟨_, _, _, gs, B, hpre, hE, hG, hB⟩ := hc
    rcases hB with ⟨_, rfl⟩ | ⟨p, hp, _⟩
    · exact ⟨gs, by simpa using hpre, hE, hG⟩
    · rw [hcp] at hp; cases hp
  | cons l ls ih =>
    intro pre st nr h he hpan
    unfold entriesGo at he hpan ⊢
    obtain ⟨⟨x, hx⟩, hq⟩ := entriesGo_errs ind ls (entryStep ind st nr l) (nr + 1)
    have hse : (entryStep ind st nr l).errs = [] := nil_of_append_nil hx he
    have hsp : (entryStep ind st nr l).panicked = false := bool_false_of_imp hq hpan
    have := ih (pre ++ [l]) _ (nr + 1) (entryStep_gsound h hse hsp) he hpan
    simpa using this

theorem GInv_init (ind : List Char) : GInv ind [] {} :=
  ⟨rfl, rfl, rfl, [], [], rfl, rfl, (fun g hg => by cases hg), Or.inl ⟨rfl, rfl⟩⟩

/-! ## completeness: a pass over groups -/

theorem entriesGo_texts (ind : List Char) (texts : List (List Char)) : ∀ (st : PState) (nr : Nat) (p : Pending)
    (rest : List (List Char)), st.pending = some p → (∀ t ∈ texts, okEntrySummaryCont t = true) →
    st.stopped = false → st.panicked = false →
    entriesGo ind st nr (texts.map (fun t => ind ++ ind ++ t) ++ rest) =
      entriesGo ind { st with pending := some { p with summary := p.summary ++ texts } }
        (nr + texts.length) rest := by
  induction texts with
  | nil =>
    intro st nr p rest hp _ _ _
    simp only [List.map_nil, List.nil_append, List.append_nil, List.length_nil, Nat.add_zero]
    congr 1
    cases st
    simp only at hp
    subst hp
    rfl
  | cons t ts ih =>
    intro st nr p rest hp hok h1 h2
    simp only [List.map_cons, List.cons_append, entriesGo]
    rw [entryStep_cont' ind st nr p t hp (hok t (by simp)) h1 h2]
    rw [ih { st with pending := some { p with summary := p.summary ++ [t] } } (nr + 1)
      { p with summary := p.summary ++ [t] } rest rfl (fun x hx => hok x (by simp [hx])) h1 h2]
    simp only [List.append_assoc, List.cons_append, List.nil_append, List.length_cons]
    congr 1
    omega

theorem entriesGo_grp {ind : List Char} {K : List (List Char)} {e : Entry} (hi : Spec.Indent ind)
    (hg : Grp ind K e) (st : PState) (nr : Nat) (rest : List (List Char))
    (h1 : st.stopped = false) (h2 : st.panicked = false) :
    ∃ nr' sp sl, entriesGo ind st nr (K ++ rest) =
      entriesGo ind { st.commit with pending := some ⟨e.val, e.summary, nr, sp, sl⟩ } nr' rest := by
  obtain ⟨s, v, texts, rfl, hv, ⟨c, r, rfl, hc⟩, rfl, ht⟩ := hg
  obtain ⟨hc1, hc2⟩ := commit_flags st
  have hdbl : (ind ++ ind).isPrefixOf (ind ++ c :: r) = false := dbl_not_prefix hi c r hc
  have hstep : entryStep ind st nr (ind ++ c :: r) =
      { st.commit with pending := some ⟨v.val, [firstOf v.rest], nr, v.startPos, v.spanLen⟩ } := by
    rw [entryStep_eq]
    simp only [h1, h2, Bool.or_self, Bool.false_eq_true, if_false, hdbl]
    have : entryStepB ind st.commit nr (ind ++ c :: r) =
        { st.commit with pending := some ⟨v.val, [firstOf v.rest], nr, v.startPos, v.spanLen⟩ } := by
      rw [entryStepB_prefix]
      have hh : headSpTab (c :: r) = false := by simpa [headSpTab] using hc
      rw [hh]
      simp only [Bool.false_eq_true, if_false, hv]
      rfl
    split
    · rename_i heq; cases heq
    · exact this
  refine ⟨nr + 1 + texts.length, v.startPos, v.spanLen, ?_⟩
  simp only [List.cons_append, entriesGo]
  rw [hstep]
  rw [entriesGo_texts ind texts { st.commit with pending := some ⟨v.val, [firstOf v.rest], nr, v.startPos, v.spanLen⟩ }
    (nr + 1) ⟨v.val, [firstOf v.rest], nr, v.startPos, v.spanLen⟩ rest rfl ht
    (by rw [← h1]; exact hc1) (by rw [← h2]; exact hc2)]
  rfl

theorem entriesGo_groups {ind : List Char} (hi : Spec.Indent ind) (gs : List G) : ∀ (done : List Entry) (st : PState) (nr : Nat),
    AllGrp ind gs → st.stopped = false → st.panicked = false → st.commit = doneState done →
    ((done ++ gs.map Prod.snd).filter (fun e => isOpen e.val)).length ≤ 1 →
    entriesGo ind st nr (flatG gs) = doneState (done ++ gs.map Prod.snd) := by
  induction gs with
  | nil =>
    intro done st nr _ _ _ hc _
    simp only [flatG_nil, entriesGo, List.map_nil, List.append_nil]
    exact hc
  | cons g gs ih =>
    intro done st nr hG h1 h2 hc hopen
    obtain ⟨K, e⟩ := g
    have hg : Grp ind K e := hG (K, e) (by simp)
    obtain ⟨nr', sp, sl, hgo⟩ := entriesGo_grp hi hg st nr (flatG gs) h1 h2
    rw [flatG_cons]
    dsimp only
    rw [hgo, hc]
    have := ih (done ++ [e]) { doneState done with pending := some ⟨e.val, e.summary, nr, sp, sl⟩ } nr'
      (fun x hx => hG x (by simp [hx])) rfl rfl ?_ (by simpa using hopen)
    · simpa using this
    · unfold PState.commit
      simp only [doneState]
      have hno : (isOpen e.val && done.any (fun e => isOpen e.val)) = false := by
        cases ho : isOpen e.val with
        | false => rfl
        | true =>
          have := filter_open_any done e (gs.map Prod.snd) (by simpa using hopen) ho
          simp [this]
      simp only [hno, Bool.false_eq_true, if_false, List.any_append, List.any_cons, List.any_nil,
        Bool.or_false]

/-! ## records -/

theorem grp_first_indent {ind : List Char} (hi : Spec.Indent ind) {K : List (List Char)} {e : Entry}
    (hg : Grp ind K e) : ∃ l ls, K = l :: ls ∧ indentatorOf l = some ind := by
  obtain ⟨s, v, texts, rfl, _, ⟨c, r, rfl, hc⟩, _, _⟩ := hg
  exact ⟨_, _, rfl, indentatorOf_indent' hi c r hc⟩

theorem flatG_start {ind : List Char} (hi : Spec.Indent ind) {gs : List G} (hG : AllGrp ind gs) :
    (flatG gs = [] ∧ gs = []) ∨ ∃ l ls, flatG gs = l :: ls ∧ indentatorOf l = some ind := by
  cases gs with
  | nil => exact Or.inl ⟨rfl, rfl⟩
  | cons g gs =>
    right
    obtain ⟨l, ls, e, h⟩ := grp_first_indent hi (hG g (by simp))
    exact ⟨l, ls ++ flatG gs, by rw [flatG_cons, e]; rfl, h⟩

/-- what a record that is read without error consists of -/
theorem rec_gsound (o : Nat) (hl : List Char) (rest : List (List Char)) (r : Record)
    (h : parseRecord o (hl :: rest) = .record r) :
    ∃ (hd : Head) (sums : List (List Char)) (ind : List Char) (gs : List G),
      parseHeadline o hl = .ok (some hd, []) ∧ rest = sums ++ flatG gs ∧
      (∀ l ∈ sums, okRecordSummaryLine l = true) ∧ Spec.Indent ind ∧ AllGrp ind gs ∧
      r = ⟨hd.date, hd.should, sums, gs.map Prod.snd⟩ := by
  obtain ⟨hd, e1, e2, e3, e4, e5⟩ := (parseRecord_record_iff o hl rest r).mp h
  cases hsg : summaryGo (o + 1) rest with
  | mk sum r0 =>
  obtain ⟨serrs, nr, rest2⟩ := r0
  rw [hsg] at e2 e3 e4 e5
  simp only at e2 e3 e4 e5
  subst e2
  obtain ⟨f1, hS, hE⟩ := summaryGo_sound rest _ _ _ _ hsg
  have hsum : ∀ l ∈ sum, okRecordSummaryLine l = true := fun l hl' => summaryLine_ok (hS l hl')
  rcases hE with rfl | ⟨l, ls', ind, rfl, hi⟩
  · refine ⟨hd, sum, [' ', ' ', ' ', ' '], [], e1, by simpa [flatG] using f1, hsum, Or.inl rfl,
      (fun g hg => by cases hg), ?_⟩
    rw [e5]
    simp [entriesGo, PState.commit]
  · have hst : ((l :: ls').head?.bind indentatorOf).getD [] = ind := by simp [hi]
    rw [hst] at e3 e4 e5
    obtain ⟨hind, _⟩ := indentatorOf_some hi
    obtain ⟨gs, g1, g2, g3⟩ := entriesGo_gsound (l :: ls') [] {} nr (GInv_init ind) e3 e4
    refine ⟨hd, sum, ind, gs, e1, by rw [f1, ← g1]; rfl, hsum, hind, g3, ?_⟩
    rw [e5, g2]

/-- a record made of a headline, summary lines and groups -/
theorem rec_gcomplete (o : Nat) (hl : List Char) (hd : Head) (sums : List (List Char)) (ind : List Char) (gs : List G)
    (hh : parseHeadline o hl = .ok (some hd, []))
    (hs : ∀ l ∈ sums, okRecordSummaryLine l = true) (hi : Spec.Indent ind) (hG : AllGrp ind gs)
    (hopen : ((gs.map Prod.snd).filter (fun e => isOpen e.val)).length ≤ 1) :
    parseRecord o (hl :: (sums ++ flatG gs)) = .record ⟨hd.date, hd.should, sums, gs.map Prod.snd⟩ := by
  have hstart := flatG_start hi hG
  have hE : EntriesStart (flatG gs) := by
    rcases hstart with ⟨h0, _⟩ | ⟨l, ls', h1, h2⟩
    · exact Or.inl h0
    · exact Or.inr ⟨l, ls', ind, h1, h2⟩
  have hsg := summaryGo_complete sums (flatG gs) hs hE (o + 1)
  have hgo : ∀ nr, entriesGo (((flatG gs).head?.bind indentatorOf).getD []) {} nr (flatG gs) =
      doneState (gs.map Prod.snd) := by
    intro nr
    rcases hstart with ⟨h0, rfl⟩ | ⟨l, ls', h1, h2⟩
    · rfl
    · have hst : ((flatG gs).head?.bind indentatorOf).getD [] = ind := by
        rw [h1]; simp [h2]
      rw [hst]
      have := entriesGo_groups hi gs [] {} nr hG rfl rfl rfl (by simpa using hopen)
      simpa using this
  unfold parseRecord
  simp only [hh, hsg, hgo]
  simp [doneState]

end KlogV.RefineBLemmas
