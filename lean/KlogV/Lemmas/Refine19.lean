/-
C04, part 19: `create`.
-/
import KlogV.Lemmas.Refine18
namespace KlogV.RefineLemmas
open KlogV.EditLemmas

theorem summary_line_not_blank (s : Bytes) (h : okRecordSummaryLine (decodeGo s) = true) :
    s.all isBlankByte = false := by
  cases s with
  | nil => simp [decodeGo_nil, okRecordSummaryLine] at h
  | cons b tl =>
    cases hb : isBlankByte b with
    | false => simp [hb]
    | true =>
      exfalso
      simp only [isBlankByte, Bool.or_eq_true, beq_iff_eq] at hb
      rcases hb with rfl | rfl
      · rw [decodeGo_cons_ascii _ _ (by decide)] at h
        have : Char.ofNat SP.toNat = ' ' := by decide
        rw [this] at h
        simp [okRecordSummaryLine, isZsTab_sp] at h
      · rw [decodeGo_cons_ascii _ _ (by decide)] at h
        have : Char.ofNat TAB.toNat = '\t' := by decide
        rw [this] at h
        simp [okRecordSummaryLine, isZsTab_tab] at h

theorem recordLinesOf_clean (st : Style) (G : GoodStyle st) (x : Date) (should : Option Int) (summary : List Bytes)
    (hc : ∀ s ∈ summary, CleanLine s) : ∀ l ∈ recordLinesOf st x should summary, Clean l := by
  intro l hl
  rcases List.mem_cons.mp hl with rfl | hl
  · obtain ⟨h1, h2⟩ := hlChars_clean x should
    exact ⟨h1, G.ending, fun _ => h2⟩
  · obtain ⟨s, hs, rfl⟩ := List.mem_map.mp hl
    obtain ⟨h1, h2⟩ := hc s hs
    exact ⟨h1, G.ending, fun _ => h2⟩

theorem recordLinesOf_sig (st : Style) (x : Date) (should : Option Int) (summary : List Bytes)
    (hc : ∀ s ∈ summary, s.all isBlankByte = false) : AllSig (recordLinesOf st x should summary) := by
  intro l hl
  rcases List.mem_cons.mp hl with rfl | hl
  · exact hlChars_not_blank x should
  · obtain ⟨s, hs, rfl⟩ := List.mem_map.mp hl
    exact hc s hs

theorem recordLinesOf_decode (st : Style) (x : Date) (should : Option Int) (summary : List Bytes) :
    (recordLinesOf st x should summary).map (fun l => decodeGo l.text) = hlChars x should :: summary.map decodeGo := by
  simp [recordLinesOf, decodeGo_encode, Function.comp_def]

theorem create_core (fmt : Reformat Bool) (sh : Option Int)
    (summary : Option (List Bytes)) (file file' : Bytes) (rs : List Record) (bos : List BlockOut) (d : Date)
    (hp : parseDoc file = .records rs bos)
    (hclean : ∀ l ∈ summary.getD [], CleanLine l ∧ okRecordSummaryLine (decodeGo l) = true)
    (hv : d.valid = true) (hcr : file.getLast? ≠ some 13) (rs' : List Record) (bos' : List BlockOut)
    (hf : file' = joinLines (reconcilerForNewRecord d fmt { should := sh, summary := summary } rs bos).lines)
    (hp' : parseDoc file' = .records rs' bos') :
    file'.getLast? ≠ some 13 ∧ Spec.Create rs d sh ((summary.getD []).map decodeGo) rs' := by
  have hl := reconcilerForNewRecord_lines d fmt { should := sh, summary := summary } rs bos
    (fun s hs => (hclean s hs).1)
  dsimp only at hl
  obtain ⟨_, hlines⟩ := hl
  generalize hst : elect {} rs (bos.map (·.lines)) = st at hlines
  have G : GoodStyle st := by rw [← hst]; exact goodStyle_new rs _
  generalize hx : writtenDate d fmt st = x at hlines
  obtain ⟨xs, xv⟩ : Spec.SameDate x d ∧ x.valid = d.valid := by rw [← hx]; exact writtenDate_same _ _ _
  generalize hR : reconcilerForNewRecord d fmt { should := sh, summary := summary } rs bos = R at hlines hf
  have hN : NewRecordLines d rs bos st (recordLinesOf st x sh (summary.getD [])) R.lines := by
    rcases hlines with ⟨a, b, _⟩ | ⟨a, b, c, _⟩ | ⟨i, a, b, c, _⟩
    · exact Or.inl ⟨a, b⟩
    · exact Or.inr (Or.inl ⟨a, b, c⟩)
    · exact Or.inr (Or.inr ⟨i, a, b, c⟩)
  subst hf
  obtain ⟨rec, k1, k2, k3⟩ := new_record_generic file hcr rs bos hp d st G _
    (recordLinesOf_clean st G x sh _ (fun s hs => (hclean s hs).1))
    (recordLinesOf_sig st x sh _ (fun s hs => summary_line_not_blank s (hclean s hs).2))
    (by simp [recordLinesOf]) R.lines hN rs' bos' hp'
  refine ⟨k3, ?_⟩
  rw [recordLinesOf_decode] at k1
  obtain ⟨hd', e1, _, _, _⟩ := parseRecord_headline_only 0 _ _ rec k1
  have hsum : ∀ l ∈ (summary.getD []).map decodeGo, okRecordSummaryLine l = true := by
    intro l hl
    obtain ⟨s, hs, rfl⟩ := List.mem_map.mp hl
    exact (hclean s hs).2
  have hrec := parseRecord_create 0 _ _ hd' e1 hsum
  rw [k1] at hrec
  simp only [ParseOut.record.injEq] at hrec
  obtain ⟨f1, f2⟩ := parseHeadline_hlChars 0 x (by rw [xv]; exact hv) sh hd' e1
  refine ⟨_, rec, rfl, k2, ?_, ?_, ?_, ?_⟩
  · rw [hrec]; simp only; rw [f1]; exact xs
  · rw [hrec]; simp only [Record.shouldMins]; exact f2
  · rw [hrec]
  · rw [hrec]

/-- `create`, with the position of the last byte of the new file for use in histories -/
theorem create_refines_strong (u : UTab) (cfg : Config) (now : Instant) (sel : DateSel) (should : Option Int)
    (summary : Option (List Bytes)) (file file' : Bytes) (rs : List Record) (bos : List BlockOut) (d : Date)
    (hp : parseDoc file = .records rs bos) (hd : atDate sel now.date = some d)
    (hclean : ∀ l ∈ summary.getD [], CleanLine l ∧ okRecordSummaryLine (decodeGo l) = true)
    (hv : d.valid = true) (hcr : file.getLast? ≠ some 13)
    (sh : Option Int) (hsh : sh = (match should with | some s => some s | none => cfg.should))
    (h : runCmd u cfg now (.create sel should summary) file = .ok file') :
    file'.getLast? ≠ some 13 ∧ ∃ rs' bos', parseDoc file' = .records rs' bos' ∧
      Spec.Create rs d sh ((summary.getD []).map decodeGo) rs' := by
  obtain ⟨rs', bos', hf, hp'⟩ := runCmd_create_inv u cfg now sel should summary file file' rs bos d hp hd h
  subst hsh
  cases should with
  | none =>
    obtain ⟨c1, c2⟩ := create_core (dateFormatOf sel cfg) cfg.should summary file file' rs bos d hp hclean hv hcr rs' bos' hf hp'
    exact ⟨c1, rs', bos', hp', c2⟩
  | some s =>
    obtain ⟨c1, c2⟩ := create_core (dateFormatOf sel cfg) (some s) summary file file' rs bos d hp hclean hv hcr rs' bos' hf hp'
    exact ⟨c1, rs', bos', hp', c2⟩

end KlogV.RefineLemmas
