/- Fuelled loops of the translated period code, used by GoCalB.lean. Core Lean only. -/
import KlogV.Lemmas.GoCalB1
set_option linter.unusedSimpArgs false
namespace KlogV.GoL.B
open KlogV.Go

/-- a loop whose body does not look at the element -/
def loopN {σ : Type} (g : σ → G (ForInStep σ)) : Nat → σ → G σ
  | 0, s => .ok s
  | n + 1, s =>
    match g s with
    | .ok (.done s') => .ok s'
    | .ok (.yield s') => loopN g n s'
    | .error e => .error e

theorem forIn_const {α σ : Type} (l : List α) (s : σ) (g : σ → G (ForInStep σ)) :
    forIn l s (fun _ r => g r) = loopN g l.length s := by
  induction l generalizing s with
  | nil => rfl
  | cons a l ih =>
    rw [List.forIn_cons]
    simp only [List.length_cons, loopN, bind, Except.bind]
    cases g s with
    | error e => rfl
    | ok v =>
      cases v with
      | done s' => rfl
      | yield s' => exact ih s'

theorem neg1 : neg (1 : Int) = -1 := by decide
theorem neg7 : neg (7 : Int) = -7 := by decide
theorem neg25 : neg (25 : Int) = -25 := by decide
theorem neg80 : neg (80 : Int) = -80 := by decide

/-! ### Week.Period -/

def wkBack (s : GoCal.date × Bool) : G (ForInStep (GoCal.date × Bool)) := do
  let w ← s.1.Weekday
  if (w == 1) = true then pure (ForInStep.done (s.1, true))
  else do
    let r ← s.1.PlusDays (neg 1)
    pure (ForInStep.yield (r, s.2))

def wkFwd (s : GoCal.date × Bool) : G (ForInStep (GoCal.date × Bool)) := do
  let w ← s.1.Weekday
  if (w == 7) = true then pure (ForInStep.done (s.1, true))
  else do
    let r ← s.1.PlusDays 1
    pure (ForInStep.yield (r, s.2))

theorem week_period_unfold (w : GoCal.Week) :
    GoCal.Week.Period w =
      match loopN wkBack 64 (w.date, false) with
      | .error e => .error e
      | .ok s =>
        if s.2 = false then .error (Exc.err "klogv: loop fuel exhausted") else
        match loopN wkFwd 64 (w.date, false) with
        | .error e => .error e
        | .ok u => if u.2 = false then .error (Exc.err "klogv: loop fuel exhausted") else .ok ⟨s.1, u.1⟩ := by
  have e1 := forIn_const (List.range 64) (w.date, false) wkBack
  have e2 := forIn_const (List.range 64) (w.date, false) wkFwd
  rw [List.length_range] at e1 e2
  unfold GoCal.Week.Period
  conv at e1 => lhs; unfold wkBack
  conv at e2 => lhs; unfold wkFwd
  simp only [] at e1 e2 ⊢
  rw [e1, e2]
  cases loopN wkBack 64 (w.date, false) with
  | error e => rfl
  | ok s =>
    obtain ⟨s1, s2⟩ := s
    cases s2
    · rfl
    · cases loopN wkFwd 64 (w.date, false) with
      | error e => rfl
      | ok u =>
        obtain ⟨u1, u2⟩ := u
        cases u2 <;> rfl

theorem wkBack_loop (k : Nat) : ∀ (y : Date) (n : Nat) (b : Bool), y.valid = true → y.weekday ≤ k → y.weekday ≤ n + 1 →
    loopN wkBack k (y.toGo, b) = match toMonday n y with | some s => .ok (s.toGo, true) | none => .error .panic := by
  induction k with
  | zero => intro y n b _ h; have := weekday_bounds y; omega
  | succ k ih =>
    intro y n b hv hk hn
    have hw := weekday_bounds y
    unfold loopN
    by_cases h1 : y.weekday = 1
    · have tm : toMonday n y = some y := by
        cases n with
        | zero => rfl
        | succ n => unfold toMonday; simp [h1]
      simp [wkBack, date_weekday_eq', h1, tm, bind, Except.bind, pure, Except.pure]
    · obtain ⟨n', rfl⟩ : ∃ n', n = n' + 1 := ⟨n - 1, by omega⟩
      have c : ((y.weekday : Int) == 1) = false := by rw [beq_eq_false_iff_ne]; omega
      have c' : (y.weekday == 1) = false := by rw [beq_eq_false_iff_ne]; exact h1
      have pd := date_plusDays_eq' y (-1) hv
      unfold toMonday
      rw [c']
      cases hp : y.plusDays (-1) with
      | none =>
        rw [hp] at pd
        simp [wkBack, date_weekday_eq', c, neg1, pd, bind, Except.bind, pure, Except.pure]
      | some r =>
        rw [hp] at pd
        have hr := plusDays_some y r _ hv hp
        have w1 := weekday_eq y
        have w2 := weekday_eq r
        have := ih r n' b hr.1 (by omega) (by omega)
        simp [wkBack, date_weekday_eq', c, neg1, pd, bind, Except.bind, pure, Except.pure, this]

theorem wkFwd_loop (k : Nat) : ∀ (y : Date) (n : Nat) (b : Bool), y.valid = true → 8 ≤ k + y.weekday → 7 ≤ n + y.weekday →
    loopN wkFwd k (y.toGo, b) = match toSunday n y with | some s => .ok (s.toGo, true) | none => .error .panic := by
  induction k with
  | zero => intro y n b _ h; have := weekday_bounds y; omega
  | succ k ih =>
    intro y n b hv hk hn
    have hw := weekday_bounds y
    unfold loopN
    by_cases h1 : y.weekday = 7
    · have tm : toSunday n y = some y := by
        cases n with
        | zero => rfl
        | succ n => unfold toSunday; simp [h1]
      simp [wkFwd, date_weekday_eq', h1, tm, bind, Except.bind, pure, Except.pure]
    · obtain ⟨n', rfl⟩ : ∃ n', n = n' + 1 := ⟨n - 1, by omega⟩
      have c : ((y.weekday : Int) == 7) = false := by rw [beq_eq_false_iff_ne]; omega
      have c' : (y.weekday == 7) = false := by rw [beq_eq_false_iff_ne]; exact h1
      have pd := date_plusDays_eq' y 1 hv
      unfold toSunday
      rw [c']
      cases hp : y.plusDays 1 with
      | none =>
        rw [hp] at pd
        simp [wkFwd, date_weekday_eq', c, pd, bind, Except.bind, pure, Except.pure]
      | some r =>
        rw [hp] at pd
        have hr := plusDays_some y r _ hv hp
        have w1 := weekday_eq y
        have w2 := weekday_eq r
        have := ih r n' b hr.1 (by omega) (by omega)
        simp [wkFwd, date_weekday_eq', c, pd, bind, Except.bind, pure, Except.pure, this]

theorem week_period_go (x : Date) (h : x.valid = true) :
    GoCal.Week.Period ⟨x.toGo⟩ = match weekPeriod x with | some p => .ok p.toGo | none => .error .panic := by
  have hw := weekday_bounds x
  rw [week_period_unfold]
  simp only
  rw [wkBack_loop 64 x 7 false h (by omega) (by omega), wkFwd_loop 64 x 7 false h (by omega) (by omega)]
  unfold weekPeriod
  cases toMonday 7 x with
  | none => rfl
  | some s =>
    cases toSunday 7 x with
    | none => rfl
    | some u => rfl

end KlogV.GoL.B
