/-
Helper lemmas for C04, part 5: the record parser does not depend on line numbers except for the
positions of its errors; the entries pass is compositional.
-/
import KlogV.Lemmas.RoundtripWF2
import KlogV.Lemmas.RoundtripRecord
namespace KlogV.RefineLemmas

/-! ## headline -/

def setLine (nr : Nat) (e : Err) : Err := { e with line := nr }

def mapLine (nr : Nat) : Res (Option Head × List Err) → Res (Option Head × List Err)
  | .ok (h, es) => .ok (h, es.map (setLine nr))
  | .err => .err
  | .panic => .panic

theorem phRest_nr (nr : Nat) (total : Int) (d : Date) (rest : List Char) :
    phRest nr total d rest = mapLine nr (phRest 0 total d rest) := by
  unfold phRest
  dsimp only
  repeat' split
  all_goals (first | rfl | simp_all [mapLine, setLine])

theorem parseHeadline_nr (nr : Nat) (hl : List Char) :
    parseHeadline nr hl = mapLine nr (parseHeadline 0 hl) := by
  rw [parseHeadline_eq, parseHeadline_eq]
  split
  · rfl
  · split
    · rfl
    · split
      · rfl
      · exact phRest_nr _ _ _ _

theorem parseHeadline_indep (nr nr' : Nat) (hl : List Char) :
    (∀ h es, parseHeadline nr hl = .ok (h, es) →
      ∃ es', parseHeadline nr' hl = .ok (h, es') ∧ (es' = [] ↔ es = [])) ∧
    (parseHeadline nr hl = .panic → parseHeadline nr' hl = .panic) ∧
    (parseHeadline nr hl = .err → parseHeadline nr' hl = .err) := by
  rw [parseHeadline_nr nr, parseHeadline_nr nr']
  cases parseHeadline 0 hl with
  | ok p =>
    obtain ⟨h0, es0⟩ := p
    refine ⟨?_, by simp [mapLine], by simp [mapLine]⟩
    intro h es hp
    simp only [mapLine, Res.ok.injEq, Prod.mk.injEq] at hp
    obtain ⟨rfl, rfl⟩ := hp
    exact ⟨_, rfl, by simp⟩
  | err => simp [mapLine]
  | panic => simp [mapLine]

/-! ## record summary -/

theorem summaryGo_indep (ls : List (List Char)) : ∀ nr nr' : Nat,
    (summaryGo nr ls).1 = (summaryGo nr' ls).1 ∧
    ((summaryGo nr ls).2.1 = [] ↔ (summaryGo nr' ls).2.1 = []) ∧
    (summaryGo nr ls).2.2.2 = (summaryGo nr' ls).2.2.2 := by
  induction ls with
  | nil => intro nr nr'; simp [summaryGo]
  | cons l ls ih =>
    intro nr nr'
    unfold summaryGo
    cases hi : indentatorOf l with
    | some i => simp
    | none =>
      obtain ⟨i1, i2, i3⟩ := ih (nr + 1) (nr' + 1)
      cases ha : summaryGo (nr + 1) ls with
      | mk s1 r1 =>
      obtain ⟨e1, n1, t1⟩ := r1
      cases hb : summaryGo (nr' + 1) ls with
      | mk s2 r2 =>
      obtain ⟨e2, n2, t2⟩ := r2
      rw [ha, hb] at i1 i2 i3
      simp only at i1 i2 i3
      subst i1 i3
      dsimp only
      split
      · exact ⟨rfl, i2, rfl⟩
      · exact ⟨rfl, by simp, rfl⟩

/-- lines appended behind the entries (or, when there are none, starting with an indented line)
do not change the record summary -/
theorem summaryGo_append (ls new : List (List Char))
    (hnew : new = [] ∨ ∃ l t, new = l :: t ∧ (indentatorOf l).isSome = true) : ∀ nr : Nat,
    summaryGo nr (ls ++ new) =
      ((summaryGo nr ls).1, (summaryGo nr ls).2.1, (summaryGo nr ls).2.2.1, (summaryGo nr ls).2.2.2 ++ new) := by
  induction ls with
  | nil =>
    intro nr
    rcases hnew with rfl | ⟨l, t, rfl, hl⟩
    · simp [summaryGo]
    · cases hi : indentatorOf l with
      | none => rw [hi] at hl; cases hl
      | some i => simp [summaryGo, hi]
  | cons l ls ih =>
    intro nr
    rw [List.cons_append]
    unfold summaryGo
    cases hi : indentatorOf l with
    | some i => simp
    | none =>
      dsimp only
      rw [ih (nr + 1)]
      cases ha : summaryGo (nr + 1) ls with
      | mk s1 r1 =>
      obtain ⟨e1, n1, t1⟩ := r1
      dsimp only
      split <;> rfl

/-! ## the entries pass, step by step -/

def stepsGo (style : List Char) : PState → Nat → List (List Char) → PState
  | st, _, [] => st
  | st, nr, l :: ls => stepsGo style (entryStep style st nr l) (nr + 1) ls

theorem entriesGo_eq (style : List Char) (ls : List (List Char)) : ∀ (st : PState) (nr : Nat),
    entriesGo style st nr ls = (stepsGo style st nr ls).commit := by
  induction ls with
  | nil => intro st nr; rfl
  | cons l ls ih => intro st nr; simp only [entriesGo, stepsGo]; exact ih _ _

theorem stepsGo_append (style : List Char) (a b : List (List Char)) : ∀ (st : PState) (nr : Nat),
    stepsGo style st nr (a ++ b) = stepsGo style (stepsGo style st nr a) (nr + a.length) b := by
  induction a with
  | nil => intro st nr; rfl
  | cons l a ih =>
    intro st nr
    simp only [List.cons_append, stepsGo, List.length_cons]
    rw [ih]
    congr 1
    omega

/-! ### monotonicity -/

theorem commit_errs_mono (st : PState) (h : st.errs ≠ []) : st.commit.errs ≠ [] := by
  unfold PState.commit
  split
  · exact h
  · split <;> simp_all

theorem commit_panicked (st : PState) : st.commit.panicked = st.panicked := by
  unfold PState.commit
  split
  · rfl
  · split <;> rfl

theorem commit_stopped (st : PState) : st.commit.stopped = st.stopped := by
  unfold PState.commit
  split
  · rfl
  · split <;> rfl

/-- errors are only ever added; a stopped pass has an error; a panic stays -/
def Mono (a b : PState) : Prop :=
  (a.errs ≠ [] → b.errs ≠ []) ∧ (a.panicked = true → b.panicked = true) ∧
  ((a.stopped = true → a.errs ≠ []) → (b.stopped = true → b.errs ≠ []))

theorem Mono.refl (a : PState) : Mono a a := ⟨id, id, id⟩

theorem Mono.trans {a b c : PState} (h1 : Mono a b) (h2 : Mono b c) : Mono a c :=
  ⟨fun h => h2.1 (h1.1 h), fun h => h2.2.1 (h1.2.1 h), fun h => h2.2.2 (h1.2.2 h)⟩

theorem commit_mono (st : PState) : Mono st st.commit := by
  refine ⟨commit_errs_mono st, by rw [commit_panicked]; exact id, ?_⟩
  intro h hs
  rw [commit_stopped] at hs
  exact commit_errs_mono st (h hs)

theorem entryStepB_mono (style : List Char) (st : PState) (nr : Nat) (l : List Char) :
    Mono st (entryStepB style st nr l) := by
  unfold entryStepB
  dsimp only
  repeat' split
  all_goals
    refine ⟨?_, ?_, ?_⟩ <;> simp_all

theorem entryStep_mono (style : List Char) (st : PState) (nr : Nat) (l : List Char) :
    Mono st (entryStep style st nr l) := by
  rw [entryStep_eq]
  split
  · exact Mono.refl st
  · split
    · split
      · exact ⟨id, id, id⟩
      · refine ⟨?_, ?_, ?_⟩ <;> simp_all
    · exact (commit_mono st).trans (entryStepB_mono style _ nr l)

theorem stepsGo_mono (style : List Char) (ls : List (List Char)) : ∀ (st : PState) (nr : Nat),
    Mono st (stepsGo style st nr ls) := by
  induction ls with
  | nil => intro st nr; exact Mono.refl st
  | cons l ls ih => intro st nr; exact (entryStep_mono style st nr l).trans (ih _ _)

theorem entriesGo_mono (style : List Char) (ls : List (List Char)) (st : PState) (nr : Nat) :
    Mono st (entriesGo style st nr ls) := by
  rw [entriesGo_eq]
  exact (stepsGo_mono style ls st nr).trans (commit_mono _)

end KlogV.RefineLemmas
