/- C01 lemmas, part 1: literals of the grammar vs. `Date.parse` and `Time.parse`. -/
import KlogV.Lemmas.Totality
import KlogV.Lemmas.RoundtripWF3
import KlogV.Spec.Grammar
namespace KlogV.GrammarLemmas
open KlogV

theorem len1 {α} (l : List α) (h : l.length = 1) : ∃ a, l = [a] := by
  match l, h with
  | [a], _ => exact ⟨a, rfl⟩

theorem len2 {α} (l : List α) (h : l.length = 2) : ∃ a b, l = [a, b] := by
  match l, h with
  | [a, b], _ => exact ⟨a, b, rfl⟩

theorem len4 {α} (l : List α) (h : l.length = 4) : ∃ a b c d, l = [a, b, c, d] := by
  match l, h with
  | [a, b, c, d], _ => exact ⟨a, b, c, d, rfl⟩

theorem all_of_forall {s : List Char} (h : ∀ c ∈ s, isDigit c = true) : s.all isDigit = true :=
  List.all_eq_true.mpr h

theorem forall_of_all {s : List Char} (h : s.all isDigit = true) : ∀ c ∈ s, isDigit c = true :=
  List.all_eq_true.mp h

/-! ## Date -/

theorem dateLit_parse {s : List Char} {d : Date} (h : Spec.DateLit s d) : Date.parse s = some d := by
  cases h with
  | mk ys ms ds y m d sep hy hm hd hsep hvalid =>
    obtain ⟨⟨_, hy1, hy2⟩, hyl⟩ := hy
    obtain ⟨⟨_, hm1, hm2⟩, hml⟩ := hm
    obtain ⟨⟨_, hd1, hd2⟩, hdl⟩ := hd
    obtain ⟨a, b, c, e, rfl⟩ := len4 ys hyl
    obtain ⟨m1, m2, rfl⟩ := len2 ms hml
    obtain ⟨d1, d2, rfl⟩ := len2 ds hdl
    have hylt := digitsVal_lt [a, b, c, e] (all_of_forall hy1)
    simp only [List.length_cons, List.length_nil] at hylt
    have hyle : y ≤ 9999 := by omega
    have hs : (sep == '-' || sep == '/') = true := by
      rcases hsep with rfl | rfl <;> decide
    simp only [List.mem_cons, List.not_mem_nil, or_false, forall_eq_or_imp, forall_eq] at hy1 hm1 hd1
    subst hy2 hm2 hd2
    have hv : Date.valid ⟨digitsVal [a, b, c, e], digitsVal [m1, m2], digitsVal [d1, d2], sep == '-'⟩ = true := by
      simp only [Date.valid, Bool.and_eq_true, decide_eq_true_eq]
      omega
    simp [Date.parse, hy1, hm1, hd1, hs, hv]

theorem parse_dateLit {s : List Char} {x : Date} (h : Date.parse s = some x) : Spec.DateLit s x := by
  unfold Date.parse at h
  split at h
  · rename_i y1 y2 y3 y4 s1 m1 m2 s2 d1 d2
    split at h
    · rename_i hc
      simp only [List.all_cons, List.all_nil, Bool.and_true, Bool.and_eq_true, Bool.or_eq_true,
        beq_iff_eq] at hc
      obtain ⟨⟨⟨⟨hy1, hy2, hy3, hy4, hm1, hm2, hd1, hd2⟩, hs1⟩, _⟩, hs12⟩ := hc
      dsimp only at h
      split at h
      · rename_i hv
        simp only [Option.some.injEq] at h
        subst h
        subst hs12
        simp only [Date.valid, Bool.and_eq_true, decide_eq_true_eq] at hv
        have := Spec.DateLit.mk [y1, y2, y3, y4] [m1, m2] [d1, d2] _ _ _ s1
          ⟨⟨by simp, by simp [hy1, hy2, hy3, hy4], rfl⟩, rfl⟩
          ⟨⟨by simp, by simp [hm1, hm2], rfl⟩, rfl⟩
          ⟨⟨by simp, by simp [hd1, hd2], rfl⟩, rfl⟩ hs1 (by omega)
        simpa using this
      · cases h
    · cases h
  · cases h

/-- characters of a date literal are not blank -/
theorem parse_date_chars {s : List Char} {x : Date} (h : Date.parse s = some x) :
    (∀ c ∈ s, isSpTab c = false) ∧ ∃ c r, s = c :: r := by
  have h2 := (Date.parse_sound s x h).2
  subst h2
  exact ⟨Date.print_all x, by obtain ⟨tl, e⟩ := Date.print_cons x; exact ⟨_, _, e⟩⟩

/-! ## Time -/

/-- the general form of a string accepted by `Time.parse` -/
def timeStr (lt : Bool) (hd : List Char) (m1 m2 : Char) (ap : Option Bool) (gt : Bool) : List Char :=
  (if lt then ['<'] else []) ++ hd ++ [':'] ++ [m1, m2] ++ Time.apChars ap ++ (if gt then ['>'] else [])

def shiftOf (lt gt : Bool) : Int := if lt then -1 else if gt then 1 else 0

theorem parseD_nil {lt : Bool} {hd : List Char} {m1 m2 : Char} {ap : Option Bool} {gt : Bool} {r : List Char}
    {t : Time} (h : Time.parseD lt hd m1 m2 ap gt r = some t) : r = [] ∧ (lt && gt) = false := by
  unfold Time.parseD at h
  split at h
  · cases h
  · rename_i hc
    simp only [Bool.or_eq_true, Bool.not_eq_true', not_or, Bool.not_eq_false] at hc
    refine ⟨List.isEmpty_iff.mp hc.1, ?_⟩
    cases hh : (lt && gt)
    · rfl
    · exact absurd hh hc.2

theorem parseB_shape {lt : Bool} {hd : List Char} {m1 m2 : Char} {rest : List Char} {t : Time}
    (h : Time.parseB lt hd m1 m2 rest = some t) :
    ∃ ap gt, rest = Time.apChars ap ++ (if gt then ['>'] else []) ∧ Time.parseD lt hd m1 m2 ap gt [] = some t := by
  unfold Time.parseB at h
  split at h
  rename_i ampm rest1 heq
  split at h
  rename_i gt rest2 heq2
  obtain ⟨hnil, _⟩ := parseD_nil h
  subst hnil
  refine ⟨ampm, gt, ?_, h⟩
  split at heq <;> split at heq2 <;> simp only [Prod.mk.injEq] at heq heq2 <;>
    obtain ⟨rfl, rfl⟩ := heq <;> obtain ⟨rfl, h2⟩ := heq2 <;> subst h2 <;> rfl

theorem parseA_shape {lt : Bool} {s : List Char} {t : Time} (h : Time.parseA lt s = some t) :
    ∃ c cs m1 m2 ap gt, s = (c :: cs) ++ [':'] ++ [m1, m2] ++ Time.apChars ap ++ (if gt then ['>'] else []) ∧
      isDigit c = true ∧ cs.all isDigit = true ∧ cs.length ≤ 1 ∧ isDigit m1 = true ∧ isDigit m2 = true ∧
      Time.parseD lt (c :: cs) m1 m2 ap gt [] = some t := by
  unfold Time.parseA at h
  dsimp only at h
  have e1 := List.takeWhile_append_dropWhile (p := isDigit) (l := s)
  have a1 : (s.takeWhile isDigit).all isDigit = true := List.all_takeWhile
  generalize s.takeWhile isDigit = hd at *
  generalize s.dropWhile isDigit = s2 at *
  split at h
  · cases h
  · rename_i hlen
    simp only [Bool.or_eq_true, decide_eq_true_eq, not_or, Nat.not_lt] at hlen
    split at h
    · rename_i m1 m2 rest
      split at h
      · cases h
      · rename_i hm
        simp only [Bool.not_eq_true, Bool.not_eq_false', Bool.and_eq_true] at hm
        obtain ⟨ap, gt, rfl, hD⟩ := parseB_shape h
        cases hd with
        | nil => simp at hlen
        | cons c cs =>
          simp only [List.all_cons, Bool.and_eq_true] at a1
          simp only [List.length_cons] at hlen
          refine ⟨c, cs, m1, m2, ap, gt, ?_, a1.1, a1.2, by omega, hm.1, hm.2, hD⟩
          rw [← e1]; simp
    · cases h

theorem parse_shape {s : List Char} {t : Time} (h : Time.parse s = some t) :
    ∃ lt c cs m1 m2 ap gt, s = timeStr lt (c :: cs) m1 m2 ap gt ∧
      isDigit c = true ∧ cs.all isDigit = true ∧ cs.length ≤ 1 ∧ isDigit m1 = true ∧ isDigit m2 = true ∧
      Time.parseD lt (c :: cs) m1 m2 ap gt [] = some t := by
  cases s with
  | nil => have e : Time.parse [] = none := rfl
           rw [e] at h; cases h
  | cons c0 r =>
    by_cases hc : c0 = '<'
    · subst hc
      rw [Time.parse_lt] at h
      obtain ⟨c, cs, m1, m2, ap, gt, rfl, k⟩ := parseA_shape h
      exact ⟨true, c, cs, m1, m2, ap, gt, by simp [timeStr], k⟩
    · rw [Time.parse_nlt c0 r hc] at h
      obtain ⟨c, cs, m1, m2, ap, gt, e, k⟩ := parseA_shape h
      exact ⟨false, c, cs, m1, m2, ap, gt, by rw [e]; simp [timeStr], k⟩

theorem timeStr_parse (lt gt : Bool) (c : Char) (cs : List Char) (m1 m2 : Char)
    (hc : isDigit c = true) (hcs : cs.all isDigit = true) (hlen : cs.length ≤ 1)
    (hm1 : isDigit m1 = true) (hm2 : isDigit m2 = true) (ap : Option Bool) :
    Time.parse (timeStr lt (c :: cs) m1 m2 ap gt) = Time.parseD lt (c :: cs) m1 m2 ap gt [] :=
  Time.parse_core lt gt c cs m1 m2 hc hcs hlen hm1 hm2 ap

theorem mk'_inv {h m : Nat} {sh : Int} {b : Bool} {t : Time} (e : Time.mk' h m sh b = some t) :
    (h = 24 ∧ m = 0 ∧ sh ≤ 0 ∧ t = ⟨0, 0, sh + 1, b⟩) ∨ (h < 24 ∧ m < 60 ∧ t = ⟨h, m, sh, b⟩) := by
  by_cases c : h = 24 ∧ m = 0 ∧ sh ≤ 0
  · obtain ⟨rfl, rfl, c3⟩ := c
    rw [Time.mk'_24 _ _ c3] at e
    simp only [Option.some.injEq] at e
    exact Or.inl ⟨rfl, rfl, c3, e.symm⟩
  · have c' : (h == 24 && m == 0 && decide (sh ≤ 0)) = false := by
      simp only [Bool.and_eq_false_iff, beq_eq_false_iff_ne, decide_eq_false_iff_not]; omega
    simp only [Time.mk', c', Bool.false_eq_true, if_false] at e
    split at e
    · rename_i hlt
      simp only [Bool.and_eq_true, decide_eq_true_eq] at hlt
      simp only [Option.some.injEq] at e
      exact Or.inr ⟨hlt.1, hlt.2, e.symm⟩
    · cases e

theorem shifted_timeStr (lt gt : Bool) (hd : List Char) (m1 m2 : Char) (ap : Option Bool) (h : (lt && gt) = false) :
    Spec.Shifted (hd ++ [':'] ++ [m1, m2] ++ Time.apChars ap) (timeStr lt hd m1 m2 ap gt) (shiftOf lt gt) := by
  cases lt <;> cases gt
  · have : timeStr false hd m1 m2 ap false = hd ++ [':'] ++ [m1, m2] ++ Time.apChars ap := by simp [timeStr]
    rw [this]; exact Spec.Shifted.none _
  · have : timeStr false hd m1 m2 ap true = (hd ++ [':'] ++ [m1, m2] ++ Time.apChars ap) ++ ['>'] := by simp [timeStr]
    rw [this]; exact Spec.Shifted.after _
  · have : timeStr true hd m1 m2 ap false = '<' :: (hd ++ [':'] ++ [m1, m2] ++ Time.apChars ap) := by simp [timeStr]
    rw [this]; exact Spec.Shifted.before _
  · cases h

theorem timeStr_of_shifted {core full : List Char} {shift : Int} (hd : List Char) (m1 m2 : Char) (ap : Option Bool)
    (h : Spec.Shifted core full shift) (hc : core = hd ++ [':'] ++ [m1, m2] ++ Time.apChars ap) :
    ∃ lt gt, (lt && gt) = false ∧ shift = shiftOf lt gt ∧ full = timeStr lt hd m1 m2 ap gt := by
  subst hc
  cases h with
  | none => exact ⟨false, false, rfl, rfl, by simp [timeStr]⟩
  | before => exact ⟨true, false, rfl, rfl, by simp [timeStr]⟩
  | after => exact ⟨false, true, rfl, rfl, by simp [timeStr]⟩

theorem digits2_eq (a b : Char) (ha : isDigit a = true) (hb : isDigit b = true) (n : Nat)
    (h : digitsVal [a, b] = n) : [a, b] = pad2 n := by
  rw [← h, pad2_digits a b ha hb]

theorem digitsVal_one (a : Char) (ha : isDigit a = true) : digitsVal [a] < 10 := by
  have := digitVal_lt a ha
  simp [digitsVal]; omega

theorem parseD_none_eq (lt gt : Bool) (hd : List Char) (m1 m2 : Char) (h : (lt && gt) = false) :
    Time.parseD lt hd m1 m2 none gt [] = Time.mk' (digitsVal hd) (digitsVal [m1, m2]) (shiftOf lt gt) true := by
  simp [Time.parseD, h, shiftOf]

theorem parseD_some_eq (lt gt : Bool) (hd : List Char) (m1 m2 : Char) (pm : Bool) (h : (lt && gt) = false) :
    Time.parseD lt hd m1 m2 (some pm) gt [] =
      if digitsVal hd < 1 ∨ digitsVal hd > 12 then none else
        Time.mk' (Time.hour12 pm (digitsVal hd)) (digitsVal [m1, m2]) (shiftOf lt gt) false := by
  simp [Time.parseD, h, shiftOf, Time.hour12]

theorem hour12_eq (pm : Bool) (h : Nat) (h1 : 1 ≤ h) (h2 : h ≤ 12) :
    Time.hour12 pm h = (if pm then (if h = 12 then 12 else h + 12) else (if h = 12 then 0 else h)) := by
  unfold Time.hour12
  cases pm
  · by_cases e : h = 12 <;> simp [e]
  · by_cases e : h = 12
    · simp [e]
    · have : h < 12 := by omega
      simp [e, this]

theorem apChars_some (pm : Bool) : Time.apChars (some pm) = (if pm then ['p', 'm'] else ['a', 'm']) := by
  cases pm <;> rfl

theorem shiftOf_le (lt gt : Bool) (h : shiftOf lt gt ≤ 0) : gt = false ∨ lt = true := by
  cases lt <;> cases gt <;> simp [shiftOf] at h ⊢

/-- Soundness of `Time.parse` w.r.t. the grammar. -/
theorem parse_timeLit {s : List Char} {t : Time} (h : Time.parse s = some t) : Spec.TimeLit s t := by
  obtain ⟨lt, c, cs, m1, m2, ap, gt, rfl, hc, hcs, hlen, hm1, hm2, hD⟩ := parse_shape h
  obtain ⟨_, hlg⟩ := parseD_nil hD
  have hall : ∀ x ∈ c :: cs, isDigit x = true := by
    intro x hx
    rcases List.mem_cons.mp hx with rfl | hx
    · exact hc
    · exact forall_of_all hcs x hx
  have hl12 : (c :: cs).length = 1 ∨ (c :: cs).length = 2 := by
    simp only [List.length_cons]; omega
  have hms : ∀ x ∈ [m1, m2], isDigit x = true := by
    intro x hx
    simp only [List.mem_cons, List.not_mem_nil, or_false] at hx
    rcases hx with rfl | rfl <;> assumption
  cases ap with
  | none =>
    rw [parseD_none_eq _ _ _ _ _ hlg] at hD
    rcases mk'_inv hD with ⟨h24, hm0, hsh, rfl⟩ | ⟨hlt, hmlt, rfl⟩
    · -- the `24:00` spellings
      have e2 : [m1, m2] = ['0', '0'] := digits2_eq m1 m2 hm1 hm2 0 hm0
      simp only [List.cons.injEq, and_true] at e2
      obtain ⟨rfl, rfl⟩ := e2
      have ecs : c :: cs = ['2', '4'] := by
        cases cs with
        | nil => have := digitsVal_one c hc; omega
        | cons c' cs' =>
          cases cs' with
          | nil =>
            simp only [List.all_cons, List.all_nil, Bool.and_true] at hcs
            exact digits2_eq c c' hc hcs 24 h24
          | cons _ _ => simp at hlen
      rw [ecs]
      rcases shiftOf_le lt gt hsh with rfl | rfl
      · cases lt
        · exact Spec.TimeLit.h2400
        · exact Spec.TimeLit.h2400before
      · cases gt
        · exact Spec.TimeLit.h2400before
        · cases hlg
    · exact Spec.TimeLit.h24 (c :: cs) [m1, m2] _ _ _ _ _
        ⟨⟨by simp, hall, rfl⟩, hl12, by omega⟩ ⟨⟨by simp, hms, rfl⟩, rfl, by omega⟩ rfl
        (by simpa [Time.apChars] using shifted_timeStr lt gt (c :: cs) m1 m2 none hlg)
  | some pm =>
    rw [parseD_some_eq _ _ _ _ _ _ hlg] at hD
    split at hD
    · cases hD
    · rename_i hr
      have h1 : 1 ≤ digitsVal (c :: cs) := by omega
      have h2 : digitsVal (c :: cs) ≤ 12 := by omega
      have hh : Time.hour12 pm (digitsVal (c :: cs)) < 24 := by
        rw [hour12_eq pm _ h1 h2]; (repeat' split) <;> omega
      rcases mk'_inv hD with ⟨h24, _⟩ | ⟨_, hmlt, rfl⟩
      · omega
      · rw [hour12_eq pm _ h1 h2]
        exact Spec.TimeLit.h12 (c :: cs) [m1, m2] _ _ _ _ pm _
          ⟨⟨by simp, hall, rfl⟩, hl12, h1, h2⟩ ⟨⟨by simp, hms, rfl⟩, rfl, by omega⟩ rfl
          (by simpa [apChars_some] using shifted_timeStr lt gt (c :: cs) m1 m2 (some pm) hlg)

theorem digits_12 {hs : List Char} (hd : ∀ c ∈ hs, isDigit c = true) (hl : hs.length = 1 ∨ hs.length = 2) :
    ∃ c cs, hs = c :: cs ∧ isDigit c = true ∧ cs.all isDigit = true ∧ cs.length ≤ 1 := by
  cases hs with
  | nil => simp at hl
  | cons c cs =>
    refine ⟨c, cs, rfl, hd c (by simp), all_of_forall (fun x hx => hd x (by simp [hx])), ?_⟩
    simp only [List.length_cons] at hl; omega

/-- Completeness of `Time.parse` w.r.t. the grammar. -/
theorem timeLit_parse {s : List Char} {t : Time} (h : Spec.TimeLit s t) : Time.parse s = some t := by
  cases h with
  | h2400 => decide
  | h2400before => decide
  | h24 hs ms core full h m shift hh hm hc hsft =>
    obtain ⟨⟨_, hhd, hhv⟩, hhl, hle⟩ := hh
    obtain ⟨⟨_, hmd, hmv⟩, hml, hmle⟩ := hm
    obtain ⟨c, cs, rfl, hc1, hcs, hlen⟩ := digits_12 hhd hhl
    obtain ⟨m1, m2, rfl⟩ := len2 ms hml
    obtain ⟨lt, gt, hlg, rfl, rfl⟩ := timeStr_of_shifted (c :: cs) m1 m2 none hsft (by simp [hc, Time.apChars])
    have hm1 : isDigit m1 = true := hmd m1 (by simp)
    have hm2 : isDigit m2 = true := hmd m2 (by simp)
    rw [timeStr_parse lt gt c cs m1 m2 hc1 hcs hlen hm1 hm2, parseD_none_eq _ _ _ _ _ hlg, hhv, hmv]
    exact Time.mk'_lt _ _ _ _ (by omega) (by omega)
  | h12 hs ms core full h m pm shift hh hm hc hsft =>
    obtain ⟨⟨_, hhd, hhv⟩, hhl, h1, h2⟩ := hh
    obtain ⟨⟨_, hmd, hmv⟩, hml, hmle⟩ := hm
    obtain ⟨c, cs, rfl, hc1, hcs, hlen⟩ := digits_12 hhd hhl
    obtain ⟨m1, m2, rfl⟩ := len2 ms hml
    obtain ⟨lt, gt, hlg, rfl, rfl⟩ := timeStr_of_shifted (c :: cs) m1 m2 (some pm) hsft (by simp [hc, apChars_some])
    have hm1 : isDigit m1 = true := hmd m1 (by simp)
    have hm2 : isDigit m2 = true := hmd m2 (by simp)
    rw [timeStr_parse lt gt c cs m1 m2 hc1 hcs hlen hm1 hm2, parseD_some_eq _ _ _ _ _ _ hlg, hhv, hmv]
    have hr : ¬ (h < 1 ∨ h > 12) := by omega
    rw [if_neg hr, hour12_eq pm h h1 h2]
    exact Time.mk'_lt _ _ _ _ (by (repeat' split) <;> omega) (by omega)

/-! ### characters of a time literal -/

theorem timeStr_chars (lt gt : Bool) (c : Char) (cs : List Char) (m1 m2 : Char) (ap : Option Bool)
    (hc : isDigit c = true) (hcs : cs.all isDigit = true) (hm1 : isDigit m1 = true) (hm2 : isDigit m2 = true) :
    (∀ x ∈ timeStr lt (c :: cs) m1 m2 ap gt, timeChar x = true) ∧ ':' ∈ timeStr lt (c :: cs) m1 m2 ap gt ∧
    ∃ x r, timeStr lt (c :: cs) m1 m2 ap gt = x :: r ∧ (x = '<' ∨ isDigit x = true) := by
  refine ⟨?_, by simp [timeStr], ?_⟩
  · intro x hx
    simp only [timeStr, List.mem_append, List.mem_cons, List.not_mem_nil, or_false] at hx
    rcases hx with ((((hx | hx) | hx) | hx) | hx) | hx
    · split at hx
      · simp at hx; subst hx; decide
      · simp at hx
    · rcases hx with rfl | hx
      · exact digit_timeChar _ hc
      · exact digit_timeChar _ (forall_of_all hcs x hx)
    · subst hx; decide
    · rcases hx with rfl | rfl
      · exact digit_timeChar _ hm1
      · exact digit_timeChar _ hm2
    · exact apChars_timeChar _ x hx
    · split at hx
      · simp at hx; subst hx; decide
      · simp at hx
  · cases lt
    · exact ⟨c, cs ++ [':'] ++ [m1, m2] ++ Time.apChars ap ++ (if gt then ['>'] else []), by simp [timeStr], Or.inr hc⟩
    · exact ⟨'<', (c :: cs) ++ [':'] ++ [m1, m2] ++ Time.apChars ap ++ (if gt then ['>'] else []), by simp [timeStr], Or.inl rfl⟩

theorem parse_time_chars {s : List Char} {t : Time} (h : Time.parse s = some t) :
    (∀ x ∈ s, timeChar x = true) ∧ ':' ∈ s ∧ ∃ x r, s = x :: r ∧ (x = '<' ∨ isDigit x = true) := by
  obtain ⟨lt, c, cs, m1, m2, ap, gt, rfl, hc, hcs, hlen, hm1, hm2, hD⟩ := parse_shape h
  exact timeStr_chars lt gt c cs m1 m2 ap hc hcs hm1 hm2

end KlogV.GrammarLemmas
