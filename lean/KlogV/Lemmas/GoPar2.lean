/- Helper lemmas for KlogV/Lemmas/GoPar.lean: the outer loop of the translated `splitIntoChunks` computes `chunksGo`.  Core Lean only. -/
import KlogV.Lemmas.GoPar1
namespace KlogV.GoL.Par
open KlogV.Go KlogV

theorem skipCut_le (prev : UInt8) (r : Bytes) : skipCut prev r ≤ r.length := by
  induction r generalizing prev with
  | nil => simp [skipCut]
  | cons b r ih =>
    unfold skipCut
    split
    · have := ih b; simp only [List.length_cons]; omega
    · omega

def outerBody (fuel : Nat) (t : BStr) (size : Int) (i : Int) (s : List BStr × Int) : G (ForInStep (List BStr × Int)) := do
  let r ← loopN (innerBody t) fuel (add s.2 size, false)
  if (!r.2) = true then throw (Exc.err "klogv: loop fuel exhausted") else
  if gt r.1 (len t) = true then do
    let x ← slice t s.2 (len t)
    let b ← setIdx s.1 i x
    pure (ForInStep.done (b, s.2))
  else do
    let x ← slice t s.2 r.1
    let b ← setIdx s.1 i x
    pure (ForInStep.yield (b, r.1))

theorem split_unfold (fuel : Nat) (t : BStr) (n : Int) :
    GoPar.splitIntoChunks fuel t n = (do
      let b ← makeSlice (α := BStr) n
      let s ← forIn (intRange 0 n) (b, (0:Int)) (outerBody fuel t (intOfF64 (mathCeil (fdiv (f64OfInt (len t)) (f64OfInt n)))))
      pure s.1) := by
  unfold GoPar.splitIntoChunks
  simp only [forIn_const, List.length_range]
  rfl

theorem slice_nat (t : BStr) (p q : Nat) (h1 : p ≤ q) (h2 : q ≤ t.length) :
    slice t (p : Int) (q : Int) = .ok ((t.drop p).take (q - p)) := by
  unfold slice
  rw [if_pos (by omega)]
  have : ((q : Int) - (p : Int)).toNat = q - p := by omega
  simp only [Int.toNat_natCast, this]
  rfl

theorem setIdx_mid (pre : List BStr) (a v : BStr) (rest : List BStr) (i : Nat) (h : pre.length = i) :
    setIdx (pre ++ a :: rest) ((0 : Int) + (i : Int)) v = .ok (pre ++ v :: rest) := by
  unfold setIdx
  rw [if_neg (by simp only [List.length_append, List.length_cons]; omega)]
  have : ((0 : Int) + (i : Int)).toNat = pre.length := by omega
  rw [this]
  simp
  rfl


theorem outer_loop (t : BStr) (size fuel : Nat) (hlen : t.length < 9007199254740992) (hf : t.length < fuel)
    (hs1 : t ≠ [] → 1 ≤ size) (hs2 : size ≤ t.length) :
    ∀ (m i : Nat) (pre : List BStr) (p : Nat), pre.length = i → p ≤ t.length →
      ∃ q, forIn ((List.range' i m).map (fun (k : Nat) => (0 : Int) + (k : Int))) (pre ++ List.replicate m [], (p : Int))
          (outerBody fuel t (size : Int)) = .ok (pre ++ chunksGo size m (t.drop p), q) := by
  intro m
  induction m with
  | zero =>
    intro i pre p _ _
    exact ⟨(p : Int), by simp [chunksGo]; rfl⟩
  | succ m ih =>
    intro i pre p hi hp
    rw [List.range'_succ, List.map_cons, List.forIn_cons, List.replicate_succ]
    have hinner := inner_loop t hlen fuel (p + size) ((t.drop (p + size - 1)).headD 0) false (by omega) (by omega)
      (by
        intro h
        have hne : t ≠ [] := by intro h0; subst h0; simp at h
        have := hs1 hne
        refine ⟨by omega, ?_⟩
        rw [← List.head?_drop]
        cases hd : t.drop (p + size - 1) with
        | nil => have := congrArg List.length hd; simp at this; omega
        | cons a r => rfl)
    have hsk := skipCut_le ((t.drop (p + size - 1)).headD 0) (t.drop (p + size))
    rw [List.length_drop] at hsk
    unfold chunksGo
    simp only [List.length_drop, List.drop_drop]
    by_cases hc : size > t.length - p
    · -- the last non-empty chunk
      rw [if_pos hc]
      refine ⟨(p : Int), ?_⟩
      have hr : p + size + skipCut ((t.drop (p + size - 1)).headD 0) (t.drop (p + size)) > t.length := by omega
      generalize p + size + skipCut ((t.drop (p + size - 1)).headD 0) (t.drop (p + size)) = r at hinner hr
      have g : gt (r : Int) (len t) = true := by unfold gt len; simp; omega
      have hsl : slice t (p : Int) (len t) = .ok (t.drop p) := by
        have := slice_nat t p t.length hp (Nat.le_refl _)
        rw [List.take_of_length_le (by simp)] at this
        exact this
      simp only [outerBody, add_nat p size (by omega), hinner, g, hsl, setIdx_mid pre [] (t.drop p) _ i hi,
        bind, Except.bind, pure, Except.pure, Bool.not_true, Bool.false_eq_true, if_false, if_true]
    · rw [if_neg hc]
      have eprev : (t.drop (p + (size - 1))).headD 0 = (t.drop (p + size - 1)).headD 0 := by
        rcases Nat.eq_zero_or_pos size with h | h
        · have : t = [] := by
            apply Classical.byContradiction
            intro h0; have := hs1 h0; omega
          subst this; simp
        · congr 2; omega
      rw [eprev]
      generalize skipCut ((t.drop (p + size - 1)).headD 0) (t.drop (p + size)) = sk at hinner hsk
      have g : gt (((p + size + sk : Nat)) : Int) (len t) = false := by unfold gt len; simp; omega
      have hsl := slice_nat t p (p + size + sk) (by omega) (by omega)
      have e2 : p + size + sk - p = size + sk := by omega
      rw [e2] at hsl
      obtain ⟨q, hq⟩ := ih (i + 1) (pre ++ [(t.drop p).take (size + sk)]) (p + size + sk) (by simp [hi]) (by omega)
      refine ⟨q, ?_⟩
      simp only [List.append_assoc, List.singleton_append] at hq
      have e3 : p + (size + sk) = p + size + sk := by omega
      simp only [outerBody, add_nat p size (by omega), hinner, g, hsl, setIdx_mid pre [] _ _ i hi,
        bind, Except.bind, pure, Except.pure, Bool.not_true, Bool.false_eq_true, if_false, e3]
      exact hq

theorem split_eq (t : Bytes) (n fuel : Nat) (hn : 1 ≤ n) (hn2 : n < 9007199254740992)
    (hlen : t.length < 9007199254740992) (hf : t.length < fuel) :
    GoPar.splitIntoChunks fuel t (n : Int) = .ok (splitIntoChunks t n) := by
  rw [split_unfold]
  have hlt : len t = ((t.length : Nat) : Int) := rfl
  rw [hlt, ceil_eq t.length n hn]
  have hm : makeSlice (α := BStr) (n : Int) = .ok (List.replicate n []) := by
    unfold makeSlice
    rw [if_neg (by omega)]
    simp only [Int.toNat_natCast]
    rfl
  have hr : intRange 0 (n : Int) = (List.range' 0 n).map (fun (k : Nat) => (0 : Int) + (k : Int)) := by
    unfold intRange
    rw [List.range_eq_range']
    congr 2
  have hq := Nat.div_add_mod (t.length + n - 1) n
  have hmod := Nat.mod_lt (t.length + n - 1) (show n > 0 by omega)
  have hs1 : t ≠ [] → 1 ≤ (t.length + n - 1) / n := by
    intro h0
    have : 0 < t.length := List.length_pos_iff.mpr h0
    apply Nat.div_pos <;> omega
  have hs2 : (t.length + n - 1) / n ≤ t.length := by
    rcases Nat.eq_zero_or_pos t.length with h | h
    · rw [h]; simp; omega
    · apply Nat.div_le_of_le_mul
      obtain ⟨l, hl⟩ : ∃ l, t.length = l + 1 := ⟨t.length - 1, by omega⟩
      rw [hl, Nat.mul_succ]
      have : l ≤ n * l := Nat.le_mul_of_pos_left _ (by omega)
      omega
  obtain ⟨q, hq⟩ := outer_loop t ((t.length + n - 1) / n) fuel hlen hf hs1 hs2 n 0 [] 0 rfl (Nat.zero_le _)
  simp only [List.nil_append, List.drop_zero] at hq
  rw [hm, hr]
  simp only [bind, Except.bind, pure, Except.pure]
  have e0 : ((0 : Nat) : Int) = (0 : Int) := rfl
  rw [e0] at hq
  rw [hq]
  rfl
end KlogV.GoL.Par
