/- Round trip (C09), part 6: headline, record summary, whole record. -/
import KlogV.Lemmas.RoundtripEntry
import KlogV.Lemmas.RoundtripLines
namespace KlogV

theorem Date.print_all (x : Date) : ∀ c ∈ x.print, isSpTab c = false := by
  intro c hc
  have hd : ∀ n, isSpTab (digitChar n) = false := fun n =>
    timeChar_not_spTab _ (digit_timeChar _ (isDigit_digitChar n))
  unfold Date.print pad4 pad2 at hc
  simp only [List.mem_append, List.mem_cons, List.not_mem_nil, or_false] at hc
  have hsep : isSpTab (if x.dashes = true then '-' else '/') = false := by
    split <;> decide
  rcases hc with (((((h | h | h | h) | h) | (h | h)) | h) | (h | h)) <;> subst h <;>
    first | exact hd _ | exact hsep

theorem Date.print_cons (x : Date) : ∃ tl, x.print = digitChar (x.y / 1000) :: tl := by
  exact ⟨_, rfl⟩

/-- the part of `parseHeadline` after the date -/
def phRest (nr : Nat) (total : Int) (date : Date) (rest : List Char) : Res (Option Head × List Err) :=
    let pos (r : List Char) : Int := total - r.length
    let finish (should : Option Int) (r : List Char) : Res (Option Head × List Err) :=
      let r := r.dropWhile isSpTab
      if r.length > 0 then .ok (some ⟨date, should⟩, [⟨nr, pos r, r.length, .unrecognisedTextInHeadline⟩])
      else .ok (some ⟨date, should⟩, [])
    match rest with
    | '(' :: r1 =>
      let r2 := r1.dropWhile isSpTab
      let allProps := peekUntil (· == ')') r2
      if allProps.length == r2.length then   -- no closing parenthesis
        .ok (some ⟨date, none⟩, [⟨nr, total, 1, .malformedPropertiesSyntax⟩])
      else if allProps.length == 0 then
        .ok (some ⟨date, none⟩, [⟨nr, pos r2, 1, .malformedPropertiesSyntax⟩])
      else
        let shouldText := peekUntil (· == '!') r2
        if shouldText.length == r2.length then   -- no exclamation mark
          .ok (some ⟨date, none⟩, [⟨nr, pos r2, (shouldText.length : Int) - 1, .unrecognisedProperty⟩])
        else match Dur.parse shouldText with
          | .panic => .panic
          | .err => .ok (some ⟨date, none⟩, [⟨nr, pos r2, shouldText.length, .malformedShouldTotal⟩])
          | .ok d =>
            let r3 := ((r2.drop shouldText.length).drop 1).dropWhile isSpTab
            match r3 with
            | ')' :: r4 => finish (some d.mins) r4
            | _ => .ok (some ⟨date, some d.mins⟩, [⟨nr, pos r3, (r3.length : Int) - 1, .unrecognisedProperty⟩])
    | _ => finish none rest

theorem parseHeadline_date (nr : Nat) (x : Date) (hx : x.valid = true) (sfx : List Char)
    (hs : sfx = [] ∨ ∃ c r, sfx = c :: r ∧ isSpTab c = true) :
    parseHeadline nr (x.print ++ sfx) =
      phRest nr (x.print ++ sfx).length x (sfx.dropWhile isSpTab) := by
  have hpeek : peekUntil isSpTab (x.print ++ sfx) = x.print := peekUntil_run _ _ _ (Date.print_all x) hs
  obtain ⟨tl, e⟩ := Date.print_cons x
  have h0 : isSpTab (digitChar (x.y / 1000)) = false :=
    timeChar_not_spTab _ (digit_timeChar _ (isDigit_digitChar _))
  unfold parseHeadline
  split
  · rename_i heq; rw [e] at heq; simp at heq
  · rename_i c0 tail heq
    have hc0 : c0 = digitChar (x.y / 1000) := by
      rw [e] at heq; simp only [List.cons_append, List.cons.injEq] at heq; exact heq.1.symm
    simp only [hc0, h0, Bool.false_eq_true, if_false, hpeek, Date.parse_print x hx, List.drop_left]
    rfl


theorem phRest_nil (nr : Nat) (total : Int) (x : Date) :
    phRest nr total x [] = .ok (some ⟨x, none⟩, []) := by
  simp [phRest]

theorem phRest_should (nr : Nat) (total : Int) (x : Date) (d : Dur) (hd : Dur.WF d) :
    phRest nr total x ('(' :: (d.print ++ ['!', ')'])) = .ok (some ⟨x, some d.mins⟩, []) := by
  obtain ⟨c, r, e, hc⟩ := Dur.print_head d
  have hr2 : (d.print ++ ['!', ')']).dropWhile isSpTab = d.print ++ ['!', ')'] := by
    rw [e, List.cons_append, List.dropWhile_cons_of_neg (by simp [durChar_not_spTab c hc])]
  have hall : peekUntil (· == ')') (d.print ++ ['!', ')']) = d.print ++ ['!'] := by
    have := peekUntil_run (· == ')') (d.print ++ ['!']) [')'] (by
      intro y hy
      simp only [List.mem_append, List.mem_singleton] at hy
      rcases hy with hy | rfl
      · have := Dur.print_all d y hy
        cases hq : (y == ')') with
        | false => rfl
        | true => rw [beq_iff_eq] at hq; subst hq; exact absurd this (by decide)
      · decide) (Or.inr ⟨')', [], rfl, by decide⟩)
    simpa using this
  have hsh : peekUntil (· == '!') (d.print ++ ['!', ')']) = d.print :=
    peekUntil_run (· == '!') d.print ['!', ')'] (by
      intro y hy
      have := Dur.print_all d y hy
      cases hq : (y == '!') with
      | false => rfl
      | true => rw [beq_iff_eq] at hq; subst hq; exact absurd this (by decide))
      (Or.inr ⟨'!', [')'], rfl, by decide⟩)
  have l1 : ((d.print ++ ['!']).length == (d.print ++ ['!', ')']).length) = false := by simp
  have l2 : ((d.print ++ ['!']).length == 0) = false := by simp
  have l3 : (d.print.length == (d.print ++ ['!', ')']).length) = false := by simp
  unfold phRest
  simp only [hr2, hall, hsh, l1, l2, l3, Bool.false_eq_true, if_false, Dur.parse_print d hd, List.drop_left]
  have : List.dropWhile isSpTab [')'] = [')'] := by decide
  simp [this]

theorem Dur.wf_should (s : Int) (h0 : s ≠ 0) (hr : inRange s = true) : Dur.WF ⟨s, false, 0⟩ := by
  refine ⟨hr, fun h => absurd h h0, fun _ => ⟨rfl, fun h => by cases h⟩⟩

def headOf (r : Record) : List Char :=
  r.date.print ++
    (if r.shouldMins != 0 then [' ', '('] ++ (Dur.print ⟨r.shouldMins, false, 0⟩) ++ ['!', ')'] else [])

theorem parseHeadline_print (r : Record) (h : RecordWF r) (nr : Nat) :
    parseHeadline nr (headOf r) = .ok (some ⟨r.date, r.canon.should⟩, []) := by
  obtain ⟨hdate, hshould, _⟩ := h
  unfold headOf
  by_cases hz : r.shouldMins = 0
  · have : (r.shouldMins != 0) = false := by simp [hz]
    simp only [this, Bool.false_eq_true, if_false]
    rw [parseHeadline_date nr r.date hdate [] (Or.inl rfl)]
    simp only [List.dropWhile_nil, phRest_nil, Record.canon, hz, if_true]
  · have : (r.shouldMins != 0) = true := by simp [hz]
    simp only [this, if_true]
    rw [parseHeadline_date nr r.date hdate _ (Or.inr ⟨' ', _, by simp only [List.cons_append, List.nil_append]; rfl, by decide⟩)]
    have hs : r.should = some r.shouldMins := by
      unfold Record.shouldMins at hz ⊢
      cases hsh : r.should with
      | none => rw [hsh] at hz; simp at hz
      | some s => rfl
    have hwf : Dur.WF ⟨r.shouldMins, false, 0⟩ := Dur.wf_should _ hz (hshould _ hs)
    have hdw : ([' ', '('] ++ (Dur.print ⟨r.shouldMins, false, 0⟩) ++ ['!', ')']).dropWhile isSpTab =
        '(' :: ((Dur.print ⟨r.shouldMins, false, 0⟩) ++ ['!', ')']) := by
      simp only [List.cons_append, List.nil_append]
      rw [List.dropWhile_cons_of_pos (by decide), List.dropWhile_cons_of_neg (by decide)]
    rw [hdw, phRest_should _ _ _ _ hwf]
    simp only [Record.canon, hz, if_false, hs]


theorem isZsTab_sp : isZsTab ' ' = true := by decide
theorem isZsTab_tab : isZsTab '\t' = true := by decide

theorem okRecordSummaryLine_head (l : List Char) (h : okRecordSummaryLine l = true) :
    ∃ c r, l = c :: r ∧ c ≠ ' ' ∧ c ≠ '\t' := by
  cases l with
  | nil => simp [okRecordSummaryLine] at h
  | cons c r =>
    simp only [okRecordSummaryLine, Bool.not_eq_true'] at h
    refine ⟨c, r, rfl, ?_, ?_⟩
    · intro hc; subst hc; rw [isZsTab_sp] at h; cases h
    · intro hc; subst hc; rw [isZsTab_tab] at h; cases h

theorem indentatorOf_none (l : List Char) (h : okRecordSummaryLine l = true) : indentatorOf l = none := by
  obtain ⟨c, r, rfl, h1, h2⟩ := okRecordSummaryLine_head l h
  have h1' : ¬ ' ' = c := fun e => h1 e.symm
  have h2' : ¬ '\t' = c := fun e => h2 e.symm
  simp [indentatorOf, indentations, List.isPrefixOf, h1', h2']

theorem indentatorOf_indent (x : List Char) : indentatorOf (canonicalIndent ++ x) = some canonicalIndent := by
  simp [indentatorOf, indentations, canonicalIndent, List.isPrefixOf]

theorem summaryGo_print (sum : List (List Char)) (E : List (List Char))
    (hsum : ∀ l ∈ sum, okRecordSummaryLine l = true)
    (hE : E = [] ∨ ∃ x ls, E = (canonicalIndent ++ x) :: ls) : ∀ nr,
    summaryGo nr (sum ++ E) = (sum, [], nr + sum.length, E) := by
  induction sum with
  | nil =>
    intro nr
    rcases hE with rfl | ⟨x, ls, rfl⟩
    · rfl
    · simp only [List.nil_append, summaryGo, indentatorOf_indent]; rfl
  | cons l sum ih =>
    intro nr
    have hl := hsum l (by simp)
    simp only [List.cons_append, summaryGo, indentatorOf_none l hl, hl, if_true,
      ih (fun x hx => hsum x (by simp [hx])) (nr + 1), List.length_cons]
    congr 3
    omega

theorem entryLines_head (e : Entry) : ∃ x ls, entryLines e = (canonicalIndent ++ x) :: ls := by
  unfold entryLines
  exact ⟨_, _, by rw [List.append_assoc]⟩

/-- (R) record-level round trip -/
theorem record_roundtrip (r : Record) (h : RecordWF r) :
    parseRecord 0 (recordLines r) = .record r.canon := by
  have hhead := parseHeadline_print r h 0
  obtain ⟨_, _, hsum, hent, hopen⟩ := h
  have hE : r.entries.flatMap entryLines = [] ∨
      ∃ x ls, r.entries.flatMap entryLines = (canonicalIndent ++ x) :: ls := by
    cases r.entries with
    | nil => left; rfl
    | cons e es =>
      right
      obtain ⟨x, ls, e1⟩ := entryLines_head e
      exact ⟨x, ls ++ es.flatMap entryLines, by rw [List.flatMap_cons, e1]; rfl⟩
  have hsg := summaryGo_print r.summary _ (fun l hl => (hsum l hl).1) hE (0 + 1)
  have hlines : recordLines r = headOf r :: (r.summary ++ r.entries.flatMap entryLines) := by
    unfold recordLines headOf; rfl
  rw [hlines]
  unfold parseRecord
  simp only [hhead, hsg]
  have hgo : ∀ nr, entriesGo ((List.head? (r.entries.flatMap entryLines)).bind indentatorOf |>.getD []) {} nr
      (r.entries.flatMap entryLines) = doneState r.entries := by
    intro nr
    rcases hE with h0 | ⟨x, ls, h1⟩
    · have : r.entries = [] := by
        cases hes : r.entries with
        | nil => rfl
        | cons e es =>
          rw [hes, List.flatMap_cons] at h0
          obtain ⟨x, ls, e1⟩ := entryLines_head e
          rw [e1] at h0; simp at h0
      rw [this]; rfl
    · rw [h1]
      simp only [List.head?_cons, Option.bind_some, indentatorOf_indent, Option.getD_some]
      rw [← h1]
      have := entriesGo_entries r.entries [] {} nr rfl rfl rfl hent (by simpa using hopen)
      simpa using this
  rw [hgo]
  simp [doneState, Record.canon]

end KlogV
