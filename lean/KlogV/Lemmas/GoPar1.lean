/- Helper lemmas for KlogV/Lemmas/GoPar.lean: the fuelled inner loop of the translated `splitIntoChunks` computes
`skipCut`, and small facts about the Go integer / float64 fragment.  Core Lean only. -/
import KlogV.Gen.GoPar
import KlogV.Model.Parallel
namespace KlogV.GoL.Par
open KlogV.Go KlogV

/-- a loop whose body does not look at the element -/
def loopN {σ : Type} (g : σ → G (ForInStep σ)) : Nat → σ → G σ
  | 0, s => .ok s
  | n + 1, s =>
    match g s with
    | .ok (.done s') => .ok s'
    | .ok (.yield s') => loopN g n s'
    | .error e => .error e

theorem forIn_const {α σ : Type} (l : List α) (s : σ) (g : σ → G (ForInStep σ)) :
    forIn l s (fun _ r => g r) = loopN g l.length s := by
  induction l generalizing s with
  | nil => rfl
  | cons a l ih =>
    rw [List.forIn_cons]
    simp only [List.length_cons, loopN, bind, Except.bind]
    cases g s with
    | error e => rfl
    | ok v =>
      cases v with
      | done s' => rfl
      | yield s' => exact ih s'

/-! ### integers, float64 -/

theorem add_small (a b : Int) (h : inInt64 (a + b)) : add a b = a + b := by
  show wrap (a + b) = a + b
  exact wrap_id h

theorem sub_small (a b : Int) (h : inInt64 (a - b)) : sub a b = a - b := by
  show wrap (a - b) = a - b
  exact wrap_id h

theorem add_nat (a b : Nat) (h : a + b < 9223372036854775807) : add (a : Int) (b : Int) = ((a + b : Nat) : Int) := by
  rw [add_small]
  · omega
  · unfold inInt64; omega

theorem add_nat1 (a : Nat) (h : a + 1 < 9223372036854775807) : add (a : Int) (1 : Int) = ((a + 1 : Nat) : Int) := by
  rw [add_small]
  · omega
  · unfold inInt64; omega

/-- `int(math.Ceil(float64(l) / float64(n)))` in the rational model -/
theorem ceil_eq (l n : Nat) (hn : 1 ≤ n) :
    intOfF64 (mathCeil (fdiv (f64OfInt (l : Int)) (f64OfInt (n : Int)))) = (((l + n - 1) / n : Nat) : Int) := by
  simp only [intOfF64, mathCeil, fdiv, f64OfInt, Int.tdiv_one, Int.mul_one, Int.one_mul]
  have hq := Nat.div_add_mod (l + n - 1) n
  have hr := Nat.mod_lt (l + n - 1) (show n > 0 by omega)
  generalize (l + n - 1) / n = q at *
  generalize (l + n - 1) % n = r at *
  have : (-(l:Int)) / (n:Int) = -(q:Int) := by
    have := (Int.ediv_emod_unique (a := -(l:Int)) (b := (n:Int)) (q := -(q:Int)) (r := (n:Int) * q - l) (by omega)).2
      ⟨by rw [Int.mul_neg]; omega, by
        have : ((n * q : Nat) : Int) = (n:Int) * q := by simp
        omega, by
        have : ((n * q : Nat) : Int) = (n:Int) * q := by simp
        omega⟩
    exact this.1
  rw [this]; omega

/-! ### bytes -/

set_option maxRecDepth 100000 in
theorem runeStart_aux : ∀ k : Nat, k < 256 → utf8RuneStart (k : Int) = isRuneStart (UInt8.ofNat k) := by
  decide

theorem runeStart_eq (b : UInt8) : utf8RuneStart (b.toNat : Int) = isRuneStart b := by
  have := runeStart_aux b.toNat (UInt8.toNat_lt b)
  rw [this]; congr 1
  exact UInt8.ofNat_toNat

theorem byte_beq10 (b : UInt8) : ((b.toNat:Int) == 10) = (b == LF) := by
  rw [Bool.eq_iff_iff]; simp [LF, ← UInt8.toNat_inj]; omega
theorem byte_beq13 (b : UInt8) : ((b.toNat:Int) == 13) = (b == CR) := by
  rw [Bool.eq_iff_iff]; simp [CR, ← UInt8.toNat_inj]; omega

theorem idxByte_nat (t : BStr) (p : Nat) (b : UInt8) (h : t[p]? = some b) : idxByte t (p : Int) = .ok (b.toNat : Int) := by
  unfold idxByte
  rw [if_neg (by omega)]
  simp only [Int.toNat_natCast, h]
  rfl

theorem crlf_eq (t : BStr) (p : Nat) (prev b : UInt8) (hp : 1 ≤ p) (hlen : t.length < 9007199254740992)
    (h1 : t[p]? = some b) (h0 : t[p-1]? = some prev) :
    GoPar.isWithinCrLf t (p : Int) = .ok (b == LF && prev == CR) := by
  have hpl : p < t.length := by
    rcases Nat.lt_or_ge p t.length with h | h
    · exact h
    · rw [List.getElem?_eq_none h] at h1; cases h1
  have e : sub (p : Int) 1 = ((p - 1 : Nat) : Int) := by
    rw [sub_small]
    · omega
    · unfold inInt64; omega
  unfold GoPar.isWithinCrLf
  have g : gt (p : Int) 0 = true := by unfold gt; simp; omega
  simp only [g, if_true, e, idxByte_nat t p b h1, idxByte_nat t (p-1) prev h0, bind, Except.bind, pure, Except.pure]
  rw [byte_beq10, byte_beq13]
  cases (b == LF) <;> rfl

/-! ### the inner loop -/

def innerBody (t : BStr) (s : Int × Bool) : G (ForInStep (Int × Bool)) := do
  let c ← (if lt s.1 (len t) = true then do
             let b ← idxByte t s.1
             if (!utf8RuneStart b) = true then pure true else GoPar.isWithinCrLf t s.1
           else pure false)
  if (!c) = true then pure (ForInStep.done (s.1, true)) else pure (ForInStep.yield (add s.1 1, s.2))

theorem innerBody_end (t : BStr) (p : Nat) (b : Bool) (h : t.length ≤ p) :
    innerBody t ((p : Int), b) = .ok (ForInStep.done ((p : Int), true)) := by
  unfold innerBody
  have g : lt (p : Int) (len t) = false := by unfold lt len; simp; omega
  simp only [g]
  rfl

theorem innerBody_step (t : BStr) (p : Nat) (prev c : UInt8) (b : Bool) (hlen : t.length < 9007199254740992)
    (hp : 1 ≤ p) (h1 : t[p]? = some c) (h0 : t[p-1]? = some prev) :
    innerBody t ((p : Int), b) =
      if badCut prev c then .ok (ForInStep.yield (((p + 1 : Nat) : Int), b)) else .ok (ForInStep.done ((p : Int), true)) := by
  have hpl : p < t.length := by
    rcases Nat.lt_or_ge p t.length with h | h
    · exact h
    · rw [List.getElem?_eq_none h] at h1; cases h1
  unfold innerBody
  have g : lt (p : Int) (len t) = true := by unfold lt len; simp; omega
  simp only [g, if_true, idxByte_nat t p c h1, crlf_eq t p prev c hp hlen h1 h0, runeStart_eq,
    add_nat1 p (by omega), bind, Except.bind, pure, Except.pure]
  unfold badCut
  cases isRuneStart c <;> cases (c == LF && prev == CR) <;> rfl

theorem inner_loop (t : BStr) (hlen : t.length < 9007199254740992) : ∀ (k p : Nat) (prev : UInt8) (b : Bool),
    1 ≤ k → t.length < k + p → (p < t.length → 1 ≤ p ∧ t[p-1]? = some prev) →
    loopN (innerBody t) k ((p:Int), b) = .ok (((p + skipCut prev (t.drop p) : Nat) : Int), true) := by
  intro k
  induction k with
  | zero => intro p prev b h; omega
  | succ k ih =>
    intro p prev b _ hk hp
    unfold loopN
    rcases Nat.lt_or_ge p t.length with h | h
    · obtain ⟨hp1, h0⟩ := hp h
      have h1 : t[p]? = some t[p] := List.getElem?_eq_getElem h
      have hd : t.drop p = t[p] :: t.drop (p + 1) := List.drop_eq_getElem_cons h
      rw [innerBody_step t p prev t[p] b hlen hp1 h1 h0, hd]
      unfold skipCut
      cases hb : badCut prev t[p]
      · simp
      · simp only [if_true]
        rw [ih (p + 1) t[p] b (by omega) (by omega) (fun _ => ⟨by omega, by simp⟩)]
        congr 3; omega
    · rw [innerBody_end t p b h, List.drop_eq_nil_of_le h]
      rfl

end KlogV.GoL.Par
