/-
C04b, part 12: `closeOpenRange`: what it does to the reconciler; the value line of the open
range, before and after.
-/
import KlogV.Lemmas.RefineB11
namespace KlogV.RefineBLemmas
open KlogV KlogV.RefineLemmas KlogV.EditLemmas KlogV.GrammarLemmas

/-! ## the record -/

theorem endOpenRange_spec (e : Time) : ∀ (es0 es : List Entry), endOpenRange e es0 = some es →
    ∃ pre post s sp x sm, es0 = pre ++ ⟨.openRange s sp x, sm⟩ :: post ∧ (∀ p ∈ pre, isOpen p.val = false) ∧
      s.offset ≤ e.offset ∧ es = pre ++ ⟨.range s e true, sm⟩ :: post := by
  intro es0
  induction es0 with
  | nil => intro es h; simp [endOpenRange] at h
  | cons a rest ih =>
    intro es h
    obtain ⟨val, sm⟩ := a
    cases val with
    | openRange s sp x =>
      simp only [endOpenRange] at h
      split at h
      · rename_i hae
        simp only [Option.some.injEq] at h
        refine ⟨[], rest, s, sp, x, sm, rfl, by simp, ?_, h.symm⟩
        simpa [Time.afterOrEqual] using hae
      · cases h
    | range s t sp =>
      simp only [endOpenRange, Option.map_eq_some_iff] at h
      obtain ⟨es', h1, rfl⟩ := h
      obtain ⟨pre, post, s', sp', x, sm', e1, e2, e3, e4⟩ := ih es' h1
      refine ⟨⟨.range s t sp, sm⟩ :: pre, post, s', sp', x, sm', by rw [e1]; rfl, ?_, e3, by rw [e4]; rfl⟩
      intro p hp
      rcases List.mem_cons.mp hp with rfl | hp
      · rfl
      · exact e2 p hp
    | dur d =>
      simp only [endOpenRange, Option.map_eq_some_iff] at h
      obtain ⟨es', h1, rfl⟩ := h
      obtain ⟨pre, post, s', sp', x, sm', e1, e2, e3, e4⟩ := ih es' h1
      refine ⟨⟨.dur d, sm⟩ :: pre, post, s', sp', x, sm', by rw [e1]; rfl, ?_, e3, by rw [e4]; rfl⟩
      intro p hp
      rcases List.mem_cons.mp hp with rfl | hp
      · rfl
      · exact e2 p hp

/-- with at most one element satisfying `p`, the list splits at it in one way only -/
theorem split_unique_count {α} (p : α → Bool) (L A B A' B' : List α) (x y : α) (hc : (L.filter p).length ≤ 1)
    (h1 : L = A ++ x :: B) (h2 : L = A' ++ y :: B') (hx : p x = true) (hy : p y = true) : A = A' ∧ x = y ∧ B = B' := by
  have h : A ++ x :: B = A' ++ y :: B' := by rw [← h1, h2]
  rcases List.append_eq_append_iff.mp h with ⟨c, e1, e2⟩ | ⟨c, e1, e2⟩
  · cases c with
    | nil =>
      simp only [List.append_nil, List.nil_append, List.cons.injEq] at e1 e2
      exact ⟨e1.symm, e2.1, e2.2⟩
    | cons z c =>
      exfalso
      simp only [List.cons_append, List.cons.injEq] at e2
      obtain ⟨rfl, rfl⟩ := e2
      rw [h1] at hc
      simp [List.filter_append, hx, hy] at hc
      omega
  · cases c with
    | nil =>
      simp only [List.append_nil, List.nil_append, List.cons.injEq] at e1 e2
      exact ⟨e1, e2.1.symm, e2.2.symm⟩
    | cons z c =>
      exfalso
      simp only [List.cons_append, List.cons.injEq] at e2
      obtain ⟨rfl, rfl⟩ := e2
      rw [h2] at hc
      simp [List.filter_append, hx, hy] at hc
      omega

/-- is the last byte a blank? -/
def lastBlank (t : Bytes) : Bool := match t.getLast? with | some b => isBlankByte b | none => false

/-- does line `k` end in a blank? -/
def lineLastBlank (L : List Line) (k : Nat) : Bool :=
  match L[k]? with
  | some l => lastBlank l.text
  | none => false

theorem lineLastBlank_eq (L : List Line) (k : Nat) (l : Line) (h : L[k]? = some l) : lineLastBlank L k = lastBlank l.text := by
  unfold lineLastBlank; rw [h]

/-- the lines after `closeOpenRange`: the value line at `valueLine`, the entry's summary `sm` -/
def closeLines (st : Style) (lines : List Line) (valueLine : Nat) (sm : List (List Char)) (endB : Bytes) :
    List Bytes → List Line
  | [] => modifyLine lines valueLine (fun t => replaceQuestionMarks t endB)
  | a0 :: rest =>
    let L1 := modifyLine lines valueLine (fun t => replaceQuestionMarks t endB)
    let last := valueLine + sm.length - 1
    let sep : Bytes := if a0.isEmpty || (sm == [[]] && lineLastBlank L1 last) then [] else [SP]
    let L2 := modifyLine L1 last (fun t => t ++ (sep ++ a0))
    if rest.isEmpty then L2 else insertLines st L2 (last + 1) (rest.map (fun s => (s, 2)))

/-- the end time as it is written -/
def timeAs (e : Time) (o : Option Bool) : Time :=
  match o with
  | some b => { e with is24 := b }
  | none => e

theorem timeAs_props (e : Time) (o : Option Bool) : (timeAs e o).offset = e.offset ∧ (timeAs e o).wf = e.wf := by
  cases o <;> exact ⟨rfl, rfl⟩

/-- what `closeOpenRange` does -/
theorem closeOpenRange_inv (r r' : Reconciler) (e : Time) (fmt : Reformat Bool) (add : List Bytes)
    (hcount : (r.record.entries.filter (fun en => isOpen en.val)).length ≤ 1)
    (h : r.closeOpenRange e fmt add = some r') :
    ∃ (E1 E2 : List Entry) (s : Time) (sp : Bool) (x : Nat) (sm : List (List Char)),
      r.record.entries = E1 ++ ⟨.openRange s sp x, sm⟩ :: E2 ∧ (∀ p ∈ E1, isOpen p.val = false) ∧
      s.offset ≤ e.offset ∧
      r'.record = { r.record with entries := E1 ++ ⟨.range s e true, sm⟩ :: E2 } ∧ r'.style = r.style ∧
      r'.lastLine = r.lastLine ∧ r'.recIdx = r.recIdx ∧
      r'.lines = closeLines r.style r.lines (r.lastLine - countLines (r.record.entries.drop E1.length)) sm
        (bytesOfChars (timeAs e (fmt.pick r.style.time24.1)).print) add := by
  unfold Reconciler.closeOpenRange at h
  generalize hpk : fmt.pick r.style.time24.1 = pk at h ⊢
  cases pk
  all_goals
    dsimp only at h
    split at h
    · cases h
    · rename_i oi hoi
      split at h
      · cases h
      · rename_i es hes
        obtain ⟨pre, post, s, sp, x, sm, e1, e2, e3, e4⟩ := endOpenRange_spec e _ es hes
        obtain ⟨oe, hsplit, hlen, hopen, _⟩ := findLastIdx_some _ _ oi hoi
        obtain ⟨u1, u2, u3⟩ := split_unique_count (fun en => isOpen en.val) _ _ _ _ _ _ _ hcount hsplit e1 hopen rfl
        have hoi' : oi = pre.length := by rw [← u1, hlen]
        subst hoi'
        have hget : es[pre.length]? = some ⟨.range s e true, sm⟩ := by
          rw [e4, List.getElem?_append_right (Nat.le_refl _)]
          simp
        rw [hget] at h
        dsimp only at h
        cases add with
        | nil =>
          simp only [Option.some.injEq] at h
          subst h
          exact ⟨pre, post, s, sp, x, sm, e1, e2, e3, by rw [e4], rfl, rfl, rfl, rfl⟩
        | cons a0 rest =>
          dsimp only at h
          have hds : ∀ (L : List Line) (k : Nat),
              hasDanglingSeparator ⟨{ r.record with entries := es }, r.style, r.lastLine, L, r.recIdx⟩ pre.length k =
              (sm == [[]] && lineLastBlank L k) := by
            intro L k
            unfold hasDanglingSeparator lineLastBlank lastBlank
            dsimp only
            rw [hget]
            cases L[k]? with
            | none => simp
            | some l => rfl
          rw [hds] at h
          split at h
          · simp only [Option.some.injEq] at h
            subst h
            rename_i hre
            refine ⟨pre, post, s, sp, x, sm, e1, e2, e3, by rw [e4], rfl, rfl, rfl, ?_⟩
            simp only [closeLines]
            rw [if_pos hre]
            rfl
          · simp only [Option.some.injEq] at h
            subst h
            rename_i hre
            refine ⟨pre, post, s, sp, x, sm, e1, e2, e3, by subst e4; rfl, rfl, rfl, rfl, ?_⟩
            simp only [closeLines]
            rw [if_neg hre]
            rfl

/-! ## the value line -/

theorem entryValue_open_inv (vs : List Char) (s : Time) (sp : Bool) (x : Nat)
    (h : Spec.EntryValue vs (.openRange s sp x)) :
    ∃ s1 sp1 sp2, vs = s1 ++ sp1 ++ ['-'] ++ sp2 ++ List.replicate (x + 1) '?' ∧ Spec.TimeLit s1 s ∧
      Spec.Spaces sp1 ∧ Spec.Spaces sp2 ∧ sp = decide (sp1 ≠ []) := by
  cases h with
  | openRange s1 sp1 sp2 t1 extra h1 hsp => exact ⟨s1, sp1, sp2, rfl, h1, hsp.1, hsp.2, rfl⟩

theorem time_print_ascii (t : Time) : ∀ c ∈ t.print, c.toNat ≠ 0 ∧ c.toNat < 0x80 ∧ c ≠ '?' ∧ c ≠ '\n' ∧ c ≠ '\r' ∧ isSpTab c = false := by
  intro c hc
  have h := Time.print_all t c hc
  refine ⟨?_, timeChar_ascii c h, ?_, ?_, ?_, timeChar_not_spTab c h⟩
  · intro h0
    have : c = Char.ofNat 0 := by apply char_eq_of_toNat; rw [h0]; rfl
    subst this
    exact absurd h (by decide)
  all_goals (intro e; subst e; exact absurd h (by decide))

theorem timeChar_props (c : Char) (h : timeChar c = true) :
    c.toNat ≠ 0 ∧ c.toNat < 0x80 ∧ c ≠ '?' ∧ c ≠ '\n' ∧ c ≠ '\r' ∧ isSpTab c = false := by
  refine ⟨?_, timeChar_ascii c h, ?_, ?_, ?_, timeChar_not_spTab c h⟩
  · intro h0
    have : c = Char.ofNat 0 := by apply char_eq_of_toNat; rw [h0]; rfl
    subst this
    exact absurd h (by decide)
  all_goals (intro e; subst e; exact absurd h (by decide))

/-- the characters in front of the placeholder of an open range -/
def OpenPre (c : Char) : Prop := c.toNat ≠ 0 ∧ c.toNat < 0x80 ∧ c ≠ '?' ∧ c ≠ '\n' ∧ c ≠ '\r'

theorem encode_replicate_q (n : Nat) : encode (List.replicate n '?') = List.replicate n 63 := by
  induction n with
  | zero => rfl
  | succ n ih => rw [List.replicate_succ, encode_cons, ih]; rfl

/-- (OPEN-LINE) the line of an open range: the placeholder is replaced by an end time -/
theorem open_line_surgery (text : Bytes) (ind sv : List Char) (hi : Spec.Indent ind) (v : ValueOk) (s : Time) (sp : Bool) (x : Nat)
    (e' : Time) (hdec : decodeGo text = ind ++ sv) (hpv : parseValue ind.length sv = .ok v)
    (hv : v.val = .openRange s sp x) (hw : e'.wf = true) (hord : s.offset ≤ e'.offset) :
    ∃ (vs' : List Char) (restB : Bytes) (vsOld : List Char),
      decodeGo restB = v.rest ∧ TailOK v.rest ∧
      text = encode (ind ++ vsOld) ++ restB ∧ (∀ c ∈ vsOld, c ≠ '\n') ∧
      replaceQuestionMarks text (bytesOfChars e'.print) = encode (ind ++ vs') ++ restB ∧
      (∀ c ∈ vs', c.toNat ≠ 0 ∧ c.toNat < 0x80 ∧ c ≠ '\n' ∧ c ≠ '\r') ∧
      (∃ c r, vs' = c :: r ∧ isSpTab c = false) ∧
      (∃ c, vs'.getLast? = some c ∧ isSpTab c = false) ∧
      ∀ tail', TailOK tail' → ∃ p l, parseValue ind.length (vs' ++ tail') = .ok ⟨.range s e' sp, tail', p, l⟩ := by
  obtain ⟨vs, hsv, hval, htail⟩ := parseValue_sound hpv
  rw [hv] at hval
  obtain ⟨s1, sp1, sp2, hvs, hlit, hsp1, hsp2, hspd⟩ := entryValue_open_inv vs s sp x hval
  have p1 := timeLit_parse hlit
  obtain ⟨hall, _, c1, r1, ec1, hc1⟩ := parse_time_chars p1
  have hP : ∀ c ∈ ind ++ s1 ++ sp1 ++ ['-'] ++ sp2, OpenPre c := by
    intro c hc
    simp only [List.mem_append, List.mem_singleton] at hc
    rcases hc with (((h | h) | h) | h) | h
    · obtain ⟨a, b, c'⟩ := indent_chars ind hi c h
      refine ⟨b, c', ?_, ?_, ?_⟩ <;> (intro e; subst e; simp [isSpTab] at a)
    · obtain ⟨a, b, c', d, e, _⟩ := timeChar_props c (hall c h)
      exact ⟨a, b, c', d, e⟩
    · rw [hsp1 c h]; exact ⟨by decide, by decide, by decide, by decide, by decide⟩
    · subst h; exact ⟨by decide, by decide, by decide, by decide, by decide⟩
    · rw [hsp2 c h]; exact ⟨by decide, by decide, by decide, by decide, by decide⟩
  have hPQ : ∀ c ∈ (ind ++ s1 ++ sp1 ++ ['-'] ++ sp2) ++ List.replicate (x + 1) '?', c.toNat ≠ 0 ∧ c.toNat < 0x80 := by
    intro c hc
    rcases List.mem_append.mp hc with h | h
    · exact ⟨(hP c h).1, (hP c h).2.1⟩
    · rw [List.eq_of_mem_replicate h]; decide
  obtain ⟨restB, e1, e2⟩ := decode_ascii_prefix _ hPQ text v.rest (by rw [hdec, hsv, hvs]; simp)
  rw [encode_append, encode_replicate_q] at e1
  have hpre63 : ∀ b ∈ encode (ind ++ s1 ++ sp1 ++ ['-'] ++ sp2), b ≠ 63 := by
    intro b hb
    obtain ⟨c, hc, _, hbc⟩ := mem_encode_ascii _ (fun c hc => (hP c hc).2.1) b hb
    intro h63
    have : c = '?' := by apply char_eq_of_toNat; rw [← hbc, h63]; rfl
    exact (hP c hc).2.2.1 this
  have hrest := tail_bytes restB v.rest e2 htail
  have hrest63 : restB.head? ≠ some 63 := by
    rcases hrest with h | ⟨b, r, h1, h2⟩
    · rw [h]; simp
    · rw [h1]
      simp only [List.head?_cons, ne_eq, Option.some.injEq]
      intro h63; subst h63
      exact absurd h2 (by decide)
  obtain ⟨ce, re, ece, hce1, hce2, hce3⟩ := Time.print_head e'
  have hce_sp : ce ≠ ' ' := by
    intro h; subst h; exact absurd hce1 (by decide)
  refine ⟨s1 ++ sp1 ++ ['-'] ++ sp2 ++ e'.print, restB, s1 ++ sp1 ++ ['-'] ++ sp2 ++ List.replicate (x + 1) '?', e2, htail, ?_, ?_, ?_, ?_, ?_, ?_, ?_⟩
  · rw [e1, ← encode_replicate_q, ← encode_append]
    simp
  · intro c hc
    simp only [List.mem_append, List.mem_singleton] at hc
    rcases hc with (((h | h) | h) | h) | h
    · exact (timeChar_props c (hall c h)).2.2.2.1
    · rw [hsp1 c h]; decide
    · subst h; decide
    · rw [hsp2 c h]; decide
    · rw [List.eq_of_mem_replicate h]; decide
  · rw [e1]
    rw [replaceQuestionMarks_spec _ _ restB _ hpre63 ⟨by simp, fun b hb => List.eq_of_mem_replicate hb⟩ hrest63]
    unfold bytesOfChars
    rw [← encode_append]
    simp
  · intro c hc
    simp only [List.mem_append, List.mem_singleton] at hc
    rcases hc with (((h | h) | h) | h) | h
    · obtain ⟨a, b, _, d, e, _⟩ := timeChar_props c (hall c h); exact ⟨a, b, d, e⟩
    · rw [hsp1 c h]; decide
    · subst h; decide
    · rw [hsp2 c h]; decide
    · obtain ⟨a, b, _, d, e, _⟩ := time_print_ascii e' c h; exact ⟨a, b, d, e⟩
  · refine ⟨c1, r1 ++ sp1 ++ ['-'] ++ sp2 ++ e'.print, by rw [ec1]; simp, ?_⟩
    rcases hc1 with rfl | hc1
    · decide
    · exact timeChar_not_spTab c1 (digit_timeChar c1 hc1)
  · have hne : e'.print ≠ [] := Time.print_ne_nil e'
    obtain ⟨c, hc⟩ : ∃ c, e'.print.getLast? = some c := by
      cases hl : e'.print.getLast? with
      | none => exact absurd (List.getLast?_eq_none_iff.mp hl) hne
      | some c => exact ⟨c, rfl⟩
    refine ⟨c, ?_, (time_print_ascii e' c (List.mem_of_getLast? hc)).2.2.2.2.2⟩
    rw [getLast?_append_of_ne_nil _ _ hne]; exact hc
  · intro tail' ht'
    have hform : s1 ++ sp1 ++ ['-'] ++ sp2 ++ e'.print ++ tail' = s1 ++ (sp1 ++ '-' :: (sp2 ++ ce :: (re ++ tail'))) := by
      rw [ece]; simp
    rw [hform]
    cases hsplit : sp1 ++ '-' :: (sp2 ++ ce :: (re ++ tail')) with
    | nil => simp at hsplit
    | cons c rest =>
      have hc : (c == '-' || c == ' ') = true := by
        cases sp1 with
        | nil => simp at hsplit; rw [← hsplit.1]; decide
        | cons a sp1' =>
          simp at hsplit
          rw [← hsplit.1, hsp1 a (by simp)]; decide
      rw [parseValue_start' s1 s p1 c rest hc, ← hsplit, pvTail_dash _ _ _ _ _ _ _ hsp1 hsp2 hce_sp]
      have := pvEnd_time' ind.length (ind.length + ↑(s1 ++ (sp1 ++ '-' :: (sp2 ++ ce :: (re ++ tail')))).length) s e' e'.print
        (Time.parse_print e' hw) hord (decide (sp1 ≠ [])) tail' ht'
      rw [ece] at this
      rw [hspd]
      exact this

end KlogV.RefineBLemmas
