/- Helper lemmas for KlogV/Lemmas/Warnings.lean: the unclosed-open-range checker. -/
import KlogV.Lemmas.Warnings2
namespace KlogV

theorem sameDay_comm (a b : Date) : a.sameDay b = b.sameDay a := by
  rw [Bool.eq_iff_iff, sameDay_iff, sameDay_iff]; omega

theorem wU_spec (now : Instant) (dis : Disabled) (hd : dis.unclosed = false) (y : Date)
    (hy : now.date.plusDays (-1) = some y) (seen : Bool) (r : Record) :
    wU now dis seen r = .ok (if r.date.sameDay now.date then (false, true)
      else (r.hasOpen && (seen || !(r.date.sameDay y)), seen)) := by
  unfold wU warnUnclosed
  simp only [hd, hy, Bool.false_eq_true, if_false]
  rw [sameDay_comm y r.date]
  cases h1 : r.date.sameDay now.date <;> cases seen <;> cases h2 : r.date.sameDay y <;> simp

/-- yesterday is not after today, and nobody can be both -/
theorem yesterday_lt (a b t y : Date) (hlt : y.afterOrEqual t = false)
    (ha : a.sameDay y = true) (hb : b.sameDay t = true) : a.afterOrEqual b = false := by
  rw [Bool.eq_false_iff] at *
  rw [Ne, afterOrEqual_iff_lex] at *
  rw [sameDay_iff] at ha hb
  omega

theorem prev_lt (t y : Date) (hv : t.valid = true) (hy : t.plusDays (-1) = some y) :
    y.afterOrEqual t = false := by
  have h := plusDays_some t y (-1) hv hy
  rw [Bool.eq_false_iff, Ne, afterOrEqual_iff_dayNumber y t h.1 hv]
  omega

theorem wfold_unclosed (now : Instant) (dis : Disabled) (hd : dis.unclosed = false) (y : Date)
    (hy : now.date.plusDays (-1) = some y) (hlt : y.afterOrEqual now.date = false) (d : Date) (l : List Record) :
    ∀ (out o' : List (Date × WarnKind)) (seen s' : Bool),
      l.Pairwise (fun a b => a.date.afterOrEqual b.date = true) →
      l.foldl (wstep now dis) (.ok (out, seen)) = .ok (o', s') →
      ((d, WarnKind.unclosedOpenRange) ∈ o' ↔
        ((d, WarnKind.unclosedOpenRange) ∈ out ∨ ∃ r ∈ l, r.date = d ∧ r.hasOpen = true ∧
          r.date.sameDay now.date = false ∧
          (r.date.sameDay y = true → seen = true ∨ ∃ r' ∈ l, r'.date.sameDay now.date = true))) := by
  induction l with
  | nil =>
    intro out o' seen s' _ h
    simp only [List.foldl_nil, Res.ok.injEq, Prod.mk.injEq] at h
    rw [h.1]; simp
  | cons r l ih =>
    intro out o' seen s' hp h
    rw [List.pairwise_cons] at hp
    obtain ⟨w1, s1, w2, w4, hU, hF, hM, hl⟩ := wfold_cons_inv now dis r l out o' seen s' h
    rw [wU_spec now dis hd y hy] at hU
    rw [ih _ _ _ _ hp.2 hl, mem_wOut]
    simp only [Prod.mk.injEq, reduceCtorEq, and_false, or_false, and_true]
    cases hA : r.date.sameDay now.date with
    | true =>
      simp only [hA, if_true, Res.ok.injEq, Prod.mk.injEq] at hU
      obtain ⟨hw1, hs1⟩ := hU
      subst hw1; subst hs1
      constructor
      · rintro ((h1 | ⟨h1, _⟩) | ⟨r2, hr2, e1, e2, e3, _⟩)
        · left; exact h1
        · cases h1
        · right
          exact ⟨r2, List.mem_cons_of_mem _ hr2, e1, e2, e3, fun _ => Or.inr ⟨r, List.mem_cons_self, hA⟩⟩
      · rintro (h1 | ⟨r2, hr2, e1, e2, e3, _⟩)
        · left; left; exact h1
        · rcases List.mem_cons.mp hr2 with rfl | hr2
          · rw [hA] at e3; cases e3
          · right; exact ⟨r2, hr2, e1, e2, e3, fun _ => Or.inl rfl⟩
    | false =>
      simp only [hA, Bool.false_eq_true, if_false, Res.ok.injEq, Prod.mk.injEq] at hU
      obtain ⟨hw1, hs1⟩ := hU
      subst hs1
      constructor
      · rintro ((h1 | ⟨h1, h2⟩) | ⟨r2, hr2, e1, e2, e3, e4⟩)
        · left; exact h1
        · right
          rw [← hw1] at h1
          simp only [Bool.and_eq_true, Bool.or_eq_true, Bool.not_eq_true'] at h1
          refine ⟨r, List.mem_cons_self, h2.symm, h1.1, hA, ?_⟩
          intro hy'
          rcases h1.2 with h3 | h3
          · left; exact h3
          · rw [hy'] at h3; cases h3
        · right
          refine ⟨r2, List.mem_cons_of_mem _ hr2, e1, e2, e3, ?_⟩
          intro hy'
          rcases e4 hy' with h3 | ⟨r', hr', h3⟩
          · left; exact h3
          · right; exact ⟨r', List.mem_cons_of_mem _ hr', h3⟩
      · rintro (h1 | ⟨r2, hr2, e1, e2, e3, e4⟩)
        · left; left; exact h1
        · rcases List.mem_cons.mp hr2 with rfl | hr2
          · left; right
            refine ⟨?_, e1.symm⟩
            rw [← hw1, e2]
            simp only [Bool.true_and, Bool.or_eq_true, Bool.not_eq_true']
            cases hy' : r2.date.sameDay y with
            | false => right; rfl
            | true =>
              left
              rcases e4 hy' with h3 | ⟨r', hr', h3⟩
              · exact h3
              · rcases List.mem_cons.mp hr' with rfl | hr'
                · rw [hA] at h3; cases h3
                · have h5 := hp.1 r' hr'
                  rw [yesterday_lt r2.date r'.date now.date y hlt hy' h3] at h5
                  cases h5
          · right
            refine ⟨r2, hr2, e1, e2, e3, ?_⟩
            intro hy'
            rcases e4 hy' with h3 | ⟨r', hr', h3⟩
            · left; exact h3
            · rcases List.mem_cons.mp hr' with rfl | hr'
              · rw [hA] at h3; cases h3
              · right; exact ⟨r', hr', h3⟩

end KlogV
