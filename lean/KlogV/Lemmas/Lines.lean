/- Lemmas about the text layer (lines and blocks). -/
import KlogV.Model.Lines
namespace KlogV

theorem splitRaw_flatten (t : Bytes) : (splitRaw t).flatten = t := by
  induction t with
  | nil => rfl
  | cons b rest ih =>
    unfold splitRaw
    split
    · rename_i h; simp [ih, h]
    · split
      · rename_i h; rw [h] at ih; simp at ih; simp [← ih]
      · rename_i l ls h; rw [h] at ih; simp at ih; simp [← ih]

theorem Line.ofRaw_original (raw : Bytes) : (Line.ofRaw raw).original = raw := by
  unfold Line.ofRaw
  have hr : raw = raw.reverse.reverse := by simp
  generalize raw.reverse = rv at hr
  subst hr
  match rv with
  | [] => simp [Line.original, Ending.bytes]
  | [x] =>
    by_cases hx : x = 10
    · subst hx; simp [Line.original, Ending.bytes, LF]
    · have : ∀ (y : UInt8), (match [y] with
          | 10 :: 13 :: r => (⟨r.reverse, .crlf⟩ : Line)
          | 10 :: r => ⟨r.reverse, .lf⟩
          | _ => ⟨[y].reverse, .none⟩) = if y = 10 then ⟨[], .lf⟩ else ⟨[y], .none⟩ := by
        intro y; split <;> simp_all
      simp only [List.reverse_cons, List.reverse_nil, List.nil_append] at *
      split <;> simp_all [Line.original, Ending.bytes]
  | x :: y :: r =>
    by_cases hx : x = 10
    · subst hx
      by_cases hy : y = 13
      · subst hy; simp [Line.original, Ending.bytes, CR, LF]
      · split <;> simp_all [Line.original, Ending.bytes, LF]
    · split <;> simp_all [Line.original, Ending.bytes]

theorem joinLines_splitLines (t : Bytes) : joinLines (splitLines t) = t := by
  unfold joinLines splitLines
  rw [List.map_map]
  have : (Line.original ∘ Line.ofRaw) = id := by
    funext r; simp [Line.ofRaw_original]
  rw [this]; simp [splitRaw_flatten]

theorem joinLines_append (a b : List Line) : joinLines (a ++ b) = joinLines a ++ joinLines b := by
  simp [joinLines]

/-- The blocks of `blocksGo`, flattened, are the current block followed by the remaining lines,
unless the pass ends in mode `pre` (no significant line at all). -/
theorem blocksGo_flatten (m : Mode) (cur ls : List Line)
    (h : m ≠ .pre ∨ ∃ l ∈ ls, l.isBlank = false) :
    (blocksGo m cur ls).flatten = cur ++ ls := by
  induction ls generalizing m cur with
  | nil =>
    cases m with
    | pre => rcases h with h | ⟨l, hl, _⟩; exact absurd rfl h; cases hl
    | sig => simp [blocksGo]
    | post => simp [blocksGo]
  | cons l ls ih =>
    cases m with
    | pre =>
      unfold blocksGo
      cases hb : l.isBlank with
      | true =>
        simp only [if_true]
        have : ∃ l' ∈ ls, l'.isBlank = false := by
          rcases h with h | ⟨l', hl', hb'⟩
          · exact absurd rfl h
          · rcases List.mem_cons.mp hl' with rfl | hm
            · simp [hb] at hb'
            · exact ⟨l', hm, hb'⟩
        rw [ih .pre _ (Or.inr this)]; simp
      | false =>
        simp only [Bool.false_eq_true, if_false]
        rw [ih .sig _ (Or.inl (by decide))]; simp
    | sig =>
      unfold blocksGo
      cases hb : l.isBlank with
      | true => simp only [if_true]; rw [ih .post _ (Or.inl (by decide))]; simp
      | false => simp only [Bool.false_eq_true, if_false]; rw [ih .sig _ (Or.inl (by decide))]; simp
    | post =>
      unfold blocksGo
      cases hb : l.isBlank with
      | true => simp only [if_true]; rw [ih .post _ (Or.inl (by decide))]; simp
      | false =>
        simp only [Bool.false_eq_true, if_false, List.flatten_cons]
        rw [ih .sig _ (Or.inl (by decide))]; simp

theorem blocksGo_pre_allBlank (cur ls : List Line) (h : ∀ l ∈ ls, l.isBlank = true) :
    blocksGo .pre cur ls = [] := by
  induction ls generalizing cur with
  | nil => simp [blocksGo]
  | cons l ls ih =>
    unfold blocksGo
    have hl : l.isBlank = true := h l (List.mem_cons_self)
    simp only [hl, if_true]
    exact ih _ (fun l' hl' => h l' (List.mem_cons_of_mem _ hl'))

/-- Shape of a block: blank lines, then at least one significant line, then blank lines. -/
def BlockShape (leadingAllowed : Bool) (b : List Line) : Prop :=
  ∃ pre sig post, b = pre ++ sig ++ post ∧ (∀ l ∈ pre, l.isBlank = true) ∧ sig ≠ [] ∧
    (∀ l ∈ sig, l.isBlank = false) ∧ (∀ l ∈ post, l.isBlank = true) ∧ (leadingAllowed = false → pre = [])

end KlogV

namespace KlogV

/-- Invariant of the current block in `blocksGo`, per mode. -/
def CurInv (lead : Bool) : Mode → List Line → Prop
  | .pre, cur => lead = true ∧ ∀ l ∈ cur, l.isBlank = true
  | .sig, cur => ∃ p s, cur = p ++ s ∧ (∀ l ∈ p, l.isBlank = true) ∧ s ≠ [] ∧
      (∀ l ∈ s, l.isBlank = false) ∧ (lead = false → p = [])
  | .post, cur => ∃ p s q, cur = p ++ s ++ q ∧ (∀ l ∈ p, l.isBlank = true) ∧ s ≠ [] ∧
      (∀ l ∈ s, l.isBlank = false) ∧ (∀ l ∈ q, l.isBlank = true) ∧ (lead = false → p = [])

theorem blocksGo_shape (lead : Bool) (m : Mode) (cur ls : List Line) (inv : CurInv lead m cur) :
    blocksGo m cur ls = [] ∨ ∃ b bs, blocksGo m cur ls = b :: bs ∧ BlockShape lead b ∧
      ∀ b' ∈ bs, BlockShape false b' := by
  induction ls generalizing lead m cur with
  | nil =>
    cases m with
    | pre => left; simp [blocksGo]
    | sig =>
      right
      obtain ⟨p, s, hc, hp, hs, hss, hl⟩ := inv
      refine ⟨cur, [], by simp [blocksGo], ⟨p, s, [], by simp [hc], hp, hs, hss, by simp, hl⟩, by simp⟩
    | post =>
      right
      obtain ⟨p, s, q, hc, hp, hs, hss, hq, hl⟩ := inv
      exact ⟨cur, [], by simp [blocksGo], ⟨p, s, q, hc, hp, hs, hss, hq, hl⟩, by simp⟩
  | cons l ls ih =>
    cases m with
    | pre =>
      obtain ⟨hlead, hcur⟩ := inv
      unfold blocksGo
      cases hb : l.isBlank with
      | true =>
        simp only [if_true]
        apply ih lead .pre
        refine ⟨hlead, ?_⟩
        intro l' hl'
        rcases List.mem_append.mp hl' with h | h
        · exact hcur _ h
        · simp at h; rw [h]; exact hb
      | false =>
        simp only [Bool.false_eq_true, if_false]
        apply ih lead .sig
        refine ⟨cur, [l], rfl, hcur, by simp, ?_, ?_⟩
        · intro l' hl'; simp at hl'; rw [hl']; exact hb
        · intro h; rw [hlead] at h; cases h
    | sig =>
      obtain ⟨p, s, hc, hp, hs, hss, hl⟩ := inv
      unfold blocksGo
      cases hb : l.isBlank with
      | true =>
        simp only [if_true]
        apply ih lead .post
        exact ⟨p, s, [l], by simp [hc], hp, hs, hss, by simpa using hb, hl⟩
      | false =>
        simp only [Bool.false_eq_true, if_false]
        apply ih lead .sig
        refine ⟨p, s ++ [l], by simp [hc], hp, by simp, ?_, hl⟩
        intro l' hl'
        rcases List.mem_append.mp hl' with h | h
        · exact hss _ h
        · simp at h; rw [h]; exact hb
    | post =>
      obtain ⟨p, s, q, hc, hp, hs, hss, hq, hl⟩ := inv
      unfold blocksGo
      cases hb : l.isBlank with
      | true =>
        simp only [if_true]
        apply ih lead .post
        refine ⟨p, s, q ++ [l], by simp [hc], hp, hs, hss, ?_, hl⟩
        intro l' hl'
        rcases List.mem_append.mp hl' with h | h
        · exact hq _ h
        · simp at h; rw [h]; exact hb
      | false =>
        simp only [Bool.false_eq_true, if_false]
        right
        have hnew : CurInv false .sig [l] :=
          ⟨[], [l], rfl, by simp, by simp, by intro l' hl'; simp at hl'; rw [hl']; exact hb, fun _ => rfl⟩
        refine ⟨cur, blocksGo .sig [l] ls, rfl, ⟨p, s, q, hc, hp, hs, hss, hq, hl⟩, ?_⟩
        rcases ih false .sig [l] hnew with h | ⟨b, bs, hbs, hb1, hb2⟩
        · rw [h]; simp
        · rw [hbs]
          intro b' hb'
          rcases List.mem_cons.mp hb' with rfl | h
          · exact hb1
          · exact hb2 _ h

/-- Global index of the first line of each block = number of lines in all earlier blocks. -/
theorem firstLineIndices_spec (n : Nat) (bs : List (List Line)) (i : Nat) (h : i < bs.length) :
    (firstLineIndices n bs)[i]? = some (n + ((bs.take i).map List.length).sum) := by
  induction bs generalizing n i with
  | nil => cases h
  | cons b bs ih =>
    cases i with
    | zero => simp [firstLineIndices]
    | succ i =>
      simp only [firstLineIndices, List.getElem?_cons_succ, List.take_succ_cons, List.map_cons, List.sum_cons]
      rw [ih (n + b.length) i (by simpa using h)]
      simp [Nat.add_assoc]

end KlogV
