/-
C04b, part 7: one step of `extendPause` on a file (`pause --extend`, every tick of `pause`).
-/
import KlogV.Lemmas.RefineB6
namespace KlogV.RefineBLemmas
open KlogV KlogV.RefineLemmas KlogV.EditLemmas KlogV.GrammarLemmas

/-! ## `findLastIdx` -/

theorem findLastIdx_aux {α} (p : α → Bool) (xs : List α) : ∀ (k i : Nat),
    (((xs.zipIdx k).filter (fun q => p q.1)).getLast?.map (·.2)) = some i →
    k ≤ i ∧ ∃ x, xs[i - k]? = some x ∧ p x = true ∧ ∀ j y, i - k < j → xs[j]? = some y → p y = false := by
  induction xs with
  | nil => intro k i h; simp at h
  | cons a as ih =>
    intro k i h
    rw [List.zipIdx_cons] at h
    cases hF : ((as.zipIdx (k + 1)).filter (fun q => p q.1)).getLast? with
    | some q =>
      have hq : (((a, k) :: as.zipIdx (k + 1)).filter (fun q => p q.1)).getLast? = some q := by
        have hne : (as.zipIdx (k + 1)).filter (fun q => p q.1) ≠ [] := by
          intro h0; rw [h0] at hF; cases hF
        obtain ⟨y, ys, e⟩ := List.exists_cons_of_ne_nil hne
        by_cases hpa : p a = true
        · rw [List.filter_cons_of_pos (by simpa using hpa), e, List.getLast?_cons_cons, ← e]; exact hF
        · rw [List.filter_cons_of_neg (by simpa using hpa)]; exact hF
      rw [hq] at h
      have := ih (k + 1) i (by rw [hF]; exact h)
      obtain ⟨h1, x, h2, h3, h4⟩ := this
      have e : i - k = (i - (k + 1)) + 1 := by omega
      refine ⟨by omega, x, by rw [e, List.getElem?_cons_succ]; exact h2, h3, ?_⟩
      intro j y hj hy
      obtain ⟨j', rfl⟩ : ∃ j', j = j' + 1 := ⟨j - 1, by omega⟩
      rw [List.getElem?_cons_succ] at hy
      exact h4 j' y (by omega) hy
    | none =>
      have hnil : (as.zipIdx (k + 1)).filter (fun q => p q.1) = [] := List.getLast?_eq_none_iff.mp hF
      by_cases hpa : p a = true
      · rw [List.filter_cons_of_pos (by simpa using hpa), hnil] at h
        simp only [List.getLast?_singleton, Option.map_some, Option.some.injEq] at h
        subst h
        refine ⟨Nat.le_refl _, a, by simp, hpa, ?_⟩
        intro j y hj hy
        obtain ⟨j', rfl⟩ : ∃ j', j = j' + 1 := ⟨j - 1, by omega⟩
        rw [List.getElem?_cons_succ] at hy
        have hmem : (y, j' + (k + 1)) ∈ as.zipIdx (k + 1) := by
          rw [List.mem_zipIdx_iff_le_and_getElem?_sub]
          exact ⟨by omega, by simpa using hy⟩
        have : (y, j' + (k + 1)) ∉ (as.zipIdx (k + 1)).filter (fun q => p q.1) := by rw [hnil]; simp
        rw [List.mem_filter] at this
        cases hpy : p y with
        | false => rfl
        | true => exact absurd ⟨hmem, hpy⟩ this
      · rw [List.filter_cons_of_neg (by simpa using hpa), hnil] at h
        simp at h

/-- the last element satisfying `p` -/
theorem findLastIdx_some {α} (p : α → Bool) (xs : List α) (i : Nat) (h : findLastIdx p xs = some i) :
    ∃ x, xs = xs.take i ++ x :: xs.drop (i + 1) ∧ (xs.take i).length = i ∧ p x = true ∧
      ∀ y ∈ xs.drop (i + 1), p y = false := by
  have hfun : (fun (x : α × Nat) => match x with | (x, _) => p x) = (fun q => p q.1) := by
    funext ⟨a, b⟩; rfl
  unfold findLastIdx at h
  rw [hfun] at h
  obtain ⟨_, x, h2, h3, h4⟩ := findLastIdx_aux p xs 0 i h
  simp only [Nat.sub_zero] at h2 h4
  obtain ⟨s1, s2⟩ := list_split_at xs i x h2
  refine ⟨x, s1, s2, h3, ?_⟩
  intro y hy
  obtain ⟨j, hj, rfl⟩ := List.getElem_of_mem hy
  rw [List.getElem_drop]
  exact h4 (i + 1 + j) _ (by omega) (List.getElem?_eq_getElem _)

/-! ## the creators of `pause` -/

theorem pause_creator_cases (file : Bytes) (rs : List Record) (bos : List BlockOut) (hp : parseDoc file = .records rs bos)
    (today yesterday : Date) (hy : today.plusDays (-1) = some yesterday) (r0 : Reconciler)
    (hc : firstCreator [reconcilerAtRecord today rs bos, reconcilerAtRecord yesterday rs bos] = some r0) :
    ∃ r bo i, PauseTarget rs today i ∧ rs[i]? = some r ∧ bos[i]? = some bo ∧
      r0 = Reconciler.mk r (elect (determine r bo.lines) rs (bos.map (·.lines)))
        (indexOfLastSignificantLine bo.first bo.lines) (bos.map (·.lines)).flatten i := by
  have hlen := bos_length file rs bos hp
  rcases reconcilerAtRecord_cases today rs bos hlen with ⟨c1, c2⟩ | ⟨r, bo, i, c1, c2, c3, c4⟩
  · rcases reconcilerAtRecord_cases yesterday rs bos hlen with ⟨d1, d2⟩ | ⟨r, bo, i, d1, d2, d3, d4⟩
    · rw [c1, d1] at hc
      cases hc
    · rw [c1, d4] at hc
      cases hc
      exact ⟨r, bo, i, Or.inr ⟨c2, yesterday, hy, d1⟩, d2, d3, rfl⟩
  · rw [c4, firstCreator_some] at hc
    cases hc
    exact ⟨r, bo, i, Or.inl c1, c2, c3, rfl⟩

/-! ## `extendPause` -/

def isPauseEntry (e : Entry) : Bool := match e.val with | .dur d => d.mins ≤ 0 | _ => false

theorem extendPause_inv (r r' : Reconciler) (x : Int) (h : r.extendPause x = .ok r') :
    r.record.hasOpen = true ∧ ∃ (E1 E2 : List Entry) (d : Dur) (sm : List (List Char)),
      r.record.entries = E1 ++ ⟨.dur d, sm⟩ :: E2 ∧ d.mins ≤ 0 ∧
      (∀ p ∈ E2, match p.val with | .dur y => y.mins > 0 | _ => True) ∧
      inRange (d.mins + x) = true ∧
      ((d.mins + x = 0 ∧ r' = r) ∨
       (d.mins + x ≠ 0 ∧ r' = Reconciler.mk r.record r.style r.lastLine
          (modifyLine r.lines (r.lastLine - countLines (r.record.entries.drop E1.length))
            (fun t => replaceFirstToken t (bytesOfChars (Dur.print ⟨d.mins + x, false, 0⟩)))) r.recIdx)) := by
  unfold Reconciler.extendPause at h
  split at h
  · cases h
  · rename_i hopen
    have ho : r.record.hasOpen = true := by
      cases hh : r.record.hasOpen with
      | true => rfl
      | false =>
        rw [← findOpen_none_iff] at hh
        rw [hh] at hopen
        simp at hopen
    refine ⟨ho, ?_⟩
    split at h
    · cases h
    · rename_i pi hpi
      obtain ⟨ek, hsplit, hlen, hpk, hafter⟩ := findLastIdx_some _ _ pi hpi
      obtain ⟨val, sm⟩ := ek
      cases val with
      | range _ _ _ => simp at hpk
      | openRange _ _ _ => simp at hpk
      | dur d =>
        simp only [decide_eq_true_eq] at hpk
        have hget : r.record.entries[pi]? = some ⟨.dur d, sm⟩ := by
          rw [hsplit, List.getElem?_append_right (by omega), hlen]
          simp
        rw [hget] at h
        dsimp only at h
        have hmin : (⟨.dur d, sm⟩ : Entry).minutes = d.mins := rfl
        rw [hmin] at h
        split at h
        · rename_i ext hadd
          obtain ⟨rfl, hr⟩ := safeAdd_ok _ _ _ hadd
          refine ⟨_, _, d, sm, hsplit, hpk, ?_, hr, ?_⟩
          · intro p hp
            have := hafter p hp
            cases hv : p.val with
            | dur y =>
              rw [hv] at this
              simp only [decide_eq_false_iff_not] at this
              dsimp only
              omega
            | range _ _ _ => trivial
            | openRange _ _ _ => trivial
          · rw [hlen]
            split at h
            · rename_i hne
              simp only [Res.ok.injEq] at h
              right
              exact ⟨by simpa using hne, h.symm⟩
            · rename_i hne
              simp only [Res.ok.injEq] at h
              left
              exact ⟨by simpa using hne, h.symm⟩
        · cases h

theorem dur_print_getLast (d : Dur) : (encode d.print).getLast? ≠ some CR := by
  intro h
  have := encode_getLast_CR _ h
  have := Dur.print_all d _ (List.mem_of_getLast? this)
  exact absurd this (by decide)

theorem dur_print_noLF (d : Dur) : LF ∉ encode d.print := by
  intro h
  have := Dur.print_all d _ (LF_mem_encode _ h)
  exact absurd this (by decide)

theorem dur_print_not_blank (d : Dur) (tl : Bytes) : (encode d.print ++ tl).all isBlankByte = false := by
  obtain ⟨c, r, e, hc⟩ := Dur.print_head d
  have hasc := durChar_ascii c hc
  rw [e, encode_cons, encodeChar_ascii c hasc]
  have := ascii_not_blank c hasc (durChar_not_spTab c hc)
  simp [this]

theorem filter_open_replace (E1 E2 : List Entry) (a b : Entry) (ha : isOpen a.val = false) (hb : isOpen b.val = false) :
    (E1 ++ b :: E2).filter (fun e => isOpen e.val) = (E1 ++ a :: E2).filter (fun e => isOpen e.val) := by
  simp [List.filter_append, ha, hb]

theorem map_eq_cons_split {α β} (f : α → β) (l : List α) (b : β) (bs : List β) (h : l.map f = b :: bs) :
    ∃ a as, l = a :: as ∧ f a = b ∧ as.map f = bs := by
  cases l with
  | nil => cases h
  | cons a as =>
    simp only [List.map_cons, List.cons.injEq] at h
    exact ⟨a, as, rfl, h.1, h.2⟩

theorem map_eq_append_split {α β} (f : α → β) (l : List α) (a b : List β) (h : l.map f = a ++ b) :
    ∃ l1 l2, l = l1 ++ l2 ∧ l1.map f = a ∧ l2.map f = b :=
  List.map_eq_append_iff.mp h

/-- (EXT) one `extendPause x` step (`x ≤ 0`) through `reconcileFile` -/
theorem extend_step (today yesterday : Date) (hy : today.plusDays (-1) = some yesterday) (x : Int) (hx : x ≤ 0)
    (file file' : Bytes) (rs : List Record) (bos : List BlockOut)
    (hp : parseDoc file = .records rs bos) (hcr : file.getLast? ≠ some 13)
    (h : (reconcileFile file
        (fun rs bos => firstCreator [reconcilerAtRecord today rs bos, reconcilerAtRecord yesterday rs bos])
        [fun r => r.extendPause x]).1 = .ok file') :
    file'.getLast? ≠ some 13 ∧ ∃ rs' bos' i, parseDoc file' = .records rs' bos' ∧ PauseTarget rs today i ∧
      Spec.PauseExtend rs i (-x) rs' := by
  obtain ⟨r0, r1, rs', bos', hc, hf, hfile, hp'⟩ := reconcileFile_inv file _ _ rs bos file' hp h
  simp only [List.foldl_cons, List.foldl_nil, Res.bind] at hf
  obtain ⟨r, bo, i, hT, hr, hbo, hr0⟩ := pause_creator_cases file rs bos hp today yesterday hy r0 hc
  obtain ⟨hopen, E1, E2, d, sm, hE, hd0, hpost, hrange, hcase⟩ := extendPause_inv r0 r1 x hf
  subst hr0
  dsimp only at hopen hE hcase
  have hilt : i < rs.length := by
    apply Classical.byContradiction
    intro hn
    rw [List.getElem?_eq_none (by omega)] at hr
    cases hr
  obtain ⟨B1, B2, R2, pre, sig, post, b1, b2, b3, b4, b5, b6, b7, b8, b9, b10, b11⟩ :=
    block_setup file hcr rs bos hp i r bo hr hbo
  rcases hcase with ⟨hz, rfl⟩ | ⟨hnz, rfl⟩
  · -- nothing to write
    dsimp only at hfile
    have hfl : file' = file := by
      rw [hfile, b3]
      rcases b4.join with h0 | h0
      · exfalso
        obtain ⟨y, ys, e⟩ := List.exists_cons_of_ne_nil b6
        rw [e] at h0
        simp at h0
      · exact h0
    subst hfl
    rw [hp] at hp'
    simp only [DocOut.records.injEq] at hp'
    obtain ⟨rfl, rfl⟩ := hp'
    refine ⟨hcr, rs, bos, i, hp, hT, r, E1, E2, d, sm, ⟨.dur d, sm⟩, hr, hopen, hE, hd0, hpost, ⟨?_, rfl⟩, hilt, ?_⟩
    · show d.mins = d.mins - -x
      omega
    · have : ({ r with entries := E1 ++ ⟨.dur d, sm⟩ :: E2 } : Record) = r := by rw [← hE]
      rw [this]
      obtain ⟨s1, _⟩ := list_split_at rs i r hr
      simpa using s1
  · -- the duration token is rewritten
    dsimp only at hfile
    obtain ⟨hlL, restL, hsig⟩ := List.exists_cons_of_ne_nil b6
    rw [hsig, List.map_cons] at b8
    obtain ⟨hd, sums, ind, g1, g2, K, c1, c2, c3, c4, c5, c6, c7, c8, c9, c10, c11⟩ :=
      rec_loc pre.length _ _ r E1 E2 ⟨.dur d, sm⟩ b8 hE
    obtain ⟨SL, L2, e1, m1, m2⟩ := map_eq_append_split _ restL _ _ c2
    obtain ⟨AL, L3, e2, m3, m4⟩ := map_eq_append_split _ L2 _ _ m2
    obtain ⟨KL, CL, e3, m5, m6⟩ := map_eq_append_split _ L3 _ _ m4
    obtain ⟨s, v, texts, k1, k2, ⟨c0, r0', k3, k3'⟩, k4, k5⟩ := c6
    rw [k1] at m5
    obtain ⟨lv, KLc, e4, m7, m8⟩ := map_eq_cons_split _ KL _ _ m5
    simp only [Entry.mk.injEq] at k4
    obtain ⟨k4a, k4b⟩ := k4
    have hw : Dur.WF ⟨d.mins + x, false, 0⟩ := Dur.wf_should _ hnz hrange
    obtain ⟨restB, t1, t2, t3, ⟨sp, sl, t4⟩, t5, ⟨cand, t6a, t6⟩⟩ :=
      dur_line_surgery lv.text ind s c4 v d ⟨d.mins + x, false, 0⟩ m7 k2 k4a.symm hw
    -- the lines
    have hsigS : sig = (hlL :: (SL ++ AL)) ++ lv :: (KLc ++ CL) := by
      rw [hsig, e1, e2, e3, e4]; simp
    have hLsplit : B1.flatten ++ (pre ++ sig ++ post ++ R2) =
        (B1.flatten ++ pre ++ (hlL :: (SL ++ AL))) ++ lv :: ((KLc ++ CL) ++ post ++ R2) := by
      rw [hsigS]; simp
    have hidx : (B1.flatten ++ pre ++ sig).length - countLines (r.entries.drop E1.length) =
        (B1.flatten ++ pre ++ (hlL :: (SL ++ AL))).length := by
      rw [c11, hsigS]
      have l1 : K.length = (lv :: KLc).length := by rw [k1, ← m5, e4]; simp
      have l2 : (flatG g2).length = CL.length := by rw [← m6]; simp
      simp only [List.length_append, List.length_cons] at l1 ⊢
      omega
    rw [b3, b5, hidx, hLsplit, modifyLine_split, t2] at hfile
    generalize hlv' : ({ lv with text := encode ind ++ encode (Dur.print ⟨d.mins + x, false, 0⟩) ++ restB } : Line) = lv' at hfile
    subst hfile
    have hlvm : lv ∈ B1.flatten ++ (pre ++ sig ++ post ++ R2) := by rw [hLsplit]; simp
    have hlvg := lineGood_of_good file _ b4 lv hlvm
    have hlastCR : lv.ending ≠ .crlf → lv.text.getLast? ≠ some CR := by
      intro hne
      cases hle : lv.ending with
      | crlf => exact absurd hle hne
      | lf => exact hlvg.2.1 hle
      | none => exact b4.noCR lv hlvm hle
    have hlast' : lv.ending ≠ .crlf → lv'.text.getLast? ≠ some CR := by
      intro hne
      rw [← hlv']
      dsimp only
      by_cases hrb : restB = []
      · subst hrb
        rw [List.append_nil]
        rw [getLast?_append_of_ne_nil _ _ (by
          obtain ⟨c, r', e, _⟩ := Dur.print_head ⟨d.mins + x, false, 0⟩
          rw [e, encode_cons]
          obtain ⟨b, bs, e'⟩ := encodeChar_cons c
          rw [e']; simp)]
        exact dur_print_getLast _
      · rw [t5 hrb]; exact hlastCR hne
    have hG' : GoodLines _ _ := good_replace file _ _ _ lv lv' b4 hLsplit (by rw [← hlv'])
      ⟨by
        rw [← hlv']
        dsimp only
        intro hm
        rcases List.mem_append.mp hm with hm | hm
        · rcases List.mem_append.mp hm with hm | hm
          · exact hlvg.1 (by rw [t6]; simp [hm])
          · exact dur_print_noLF _ hm
        · exact hlvg.1 (by rw [t6]; simp [hm]),
       by
        intro hle
        apply hlast'
        rw [← hlv'] at hle
        dsimp only at hle
        rw [hle]; simp,
       by
        intro _
        rw [← hlv']
        dsimp only
        intro h0
        have := dur_print_not_blank ⟨d.mins + x, false, 0⟩ restB
        rw [List.append_assoc] at h0
        rw [(List.append_eq_nil_iff.mp h0).2] at this
        simp at this⟩
      (by
        intro hle
        apply hlast'
        rw [← hlv'] at hle
        dsimp only at hle
        rw [hle]; simp)
    refine ⟨good_noCR_end _ _ hG', rs', bos', i, hp', hT, ?_⟩
    -- the new block
    have hsig'ne : (hlL :: (SL ++ AL)) ++ lv' :: (KLc ++ CL) ≠ [] := by simp
    have hsig'sig : AllSig ((hlL :: (SL ++ AL)) ++ lv' :: (KLc ++ CL)) := by
      intro l hl
      have hold : ∀ l ∈ sig, l.isBlank = false := b7
      rcases List.mem_append.mp hl with hl | hl
      · exact hold l (by rw [hsigS]; exact List.mem_append_left _ hl)
      · rcases List.mem_cons.mp hl with rfl | hl
        · rw [← hlv']
          show (encode ind ++ encode _ ++ restB).all isBlankByte = false
          rw [List.append_assoc]
          exact all_append_false _ _ (dur_print_not_blank _ restB)
        · exact hold l (by rw [hsigS]; exact List.mem_append_right _ (List.mem_cons_of_mem _ hl))
    obtain ⟨_, _, hdoc⟩ := b11 _ hsig'ne hsig'sig
    have hN : B1.flatten ++ (pre ++ ((hlL :: (SL ++ AL)) ++ lv' :: (KLc ++ CL)) ++ post ++ R2) =
        (B1.flatten ++ pre ++ (hlL :: (SL ++ AL))) ++ lv' :: ((KLc ++ CL) ++ post ++ R2) := by simp
    rw [← hN] at hp' hG'
    obtain ⟨r', hr', hrs'⟩ := hdoc rs' bos' hG'.split hp'
    -- the new record
    have hgK' : Grp ind ((ind ++ (Dur.print ⟨d.mins + x, false, 0⟩ ++ v.rest)) :: texts.map (fun t => ind ++ ind ++ t))
        ⟨.dur ⟨d.mins + x, false, 0⟩, firstOf v.rest :: texts⟩ := by
      obtain ⟨c, rr, e, hc⟩ := Dur.print_head ⟨d.mins + x, false, 0⟩
      exact ⟨_, _, texts, rfl, t4, ⟨c, rr ++ v.rest, by rw [e]; rfl, durChar_not_spTab c hc⟩, rfl, k5⟩
    have hwf0 := parseDoc_wf0 file rs bos hp r (List.mem_of_getElem? hr)
    have hcount : ((E1 ++ (⟨.dur ⟨d.mins + x, false, 0⟩, firstOf v.rest :: texts⟩ : Entry) :: E2).filter
        (fun e => isOpen e.val)).length ≤ 1 := by
      rw [filter_open_replace E1 E2 ⟨.dur d, sm⟩ _ rfl rfl, ← hE]
      exact hwf0.2.2.2.2
    have hall : AllGrp ind (g1 ++ ((ind ++ (Dur.print ⟨d.mins + x, false, 0⟩ ++ v.rest)) :: texts.map (fun t => ind ++ ind ++ t),
        (⟨.dur ⟨d.mins + x, false, 0⟩, firstOf v.rest :: texts⟩ : Entry)) :: g2) := by
      intro g hg
      rcases List.mem_append.mp hg with hg | hg
      · exact c5 g hg
      · rcases List.mem_cons.mp hg with rfl | hg
        · exact hgK'
        · exact c7 g hg
    have hnew := rec_gcomplete pre.length (decodeGo hlL.text) hd sums ind _ c1 c3 c4 hall
      (by simpa [c8, c9] using hcount)
    have hchars : (((hlL :: (SL ++ AL)) ++ lv' :: (KLc ++ CL)).map (fun l => decodeGo l.text)) =
        decodeGo hlL.text :: (sums ++ flatG (g1 ++ ((ind ++ (Dur.print ⟨d.mins + x, false, 0⟩ ++ v.rest)) ::
          texts.map (fun t => ind ++ ind ++ t), (⟨.dur ⟨d.mins + x, false, 0⟩, firstOf v.rest :: texts⟩ : Entry)) :: g2)) := by
      have hlvd : decodeGo lv'.text = ind ++ (Dur.print ⟨d.mins + x, false, 0⟩ ++ v.rest) := by
        rw [← hlv']; exact t3
      simp only [List.map_append, List.map_cons, m1, m3, m6, m8, hlvd, flatG_append, flatG_cons, List.cons_append,
        List.append_assoc]
    rw [hchars, hnew] at hr'
    simp only [ParseOut.record.injEq] at hr'
    refine ⟨r, E1, E2, d, sm, ⟨.dur ⟨d.mins + x, false, 0⟩, firstOf v.rest :: texts⟩, hr, hopen, hE, hd0, hpost,
      ⟨?_, k4b.symm⟩, hilt, ?_⟩
    · show d.mins + x = d.mins - -x
      omega
    · rw [hrs', ← hr', c10]
      simp [c8, c9]

end KlogV.RefineBLemmas
