/- Lemmas for C06: the modelled panic sites are reachable only through huge numbers. -/
import KlogV.Lemmas.ParserErrors
import KlogV.Model.Tags
namespace KlogV

/-- A line has a run of at least 18 decimal digits. -/
def HasLongDigitRun (l : List Char) : Prop :=
  ∃ pre ds post, l = pre ++ ds ++ post ∧ 18 ≤ ds.length ∧ ds.all isDigit = true

theorem HasLongDigitRun.of_infix {t l : List Char} (hi : t <:+: l) (h : HasLongDigitRun t) :
    HasLongDigitRun l := by
  obtain ⟨a, b, rfl⟩ := hi
  obtain ⟨pre, ds, post, rfl, h1, h2⟩ := h
  exact ⟨a ++ pre, ds, post ++ b, by simp, h1, h2⟩

theorem digitVal_le (c : Char) (h : isDigit c = true) : digitVal c ≤ 9 := by
  unfold isDigit at h
  unfold digitVal
  simp only [Bool.and_eq_true, decide_eq_true_eq] at h
  have h2 := h.2
  rw [Char.le_def, UInt32.le_iff_toNat_le] at h2
  have : c.toNat = c.val.toNat := rfl
  have e9 : '9'.val.toNat = 57 := rfl
  have e0 : '0'.toNat = 48 := rfl
  omega

theorem digitsVal_foldl_lt (ds : List Char) (h : ds.all isDigit = true) (acc : Nat) :
    ds.foldl (fun acc c => acc * 10 + digitVal c) acc < (acc + 1) * 10 ^ ds.length := by
  induction ds generalizing acc with
  | nil => simp
  | cons c ds ih =>
    simp only [List.all_cons, Bool.and_eq_true] at h
    have hc := digitVal_le c h.1
    have := ih h.2 (acc * 10 + digitVal c)
    simp only [List.foldl_cons, List.length_cons]
    calc _ < (acc * 10 + digitVal c + 1) * 10 ^ ds.length := this
      _ ≤ ((acc + 1) * 10) * 10 ^ ds.length := Nat.mul_le_mul_right _ (by omega)
      _ = (acc + 1) * 10 ^ (ds.length + 1) := by rw [Nat.pow_succ, Nat.mul_assoc, Nat.mul_comm 10]

theorem digitsVal_lt (ds : List Char) (h : ds.all isDigit = true) : digitsVal ds < 10 ^ ds.length := by
  have := digitsVal_foldl_lt ds h 0
  simpa [digitsVal] using this

theorem digitsVal_small (ds : List Char) (h : ds.all isDigit = true) (hl : ds.length < 18) :
    digitsVal ds < 100000000000000000 := by
  have h1 := digitsVal_lt ds h
  have h2 : 10 ^ ds.length ≤ 10 ^ 17 := Nat.pow_le_pow_right (by decide) (by omega)
  have h3 : (10 : Nat) ^ 17 = 100000000000000000 := rfl
  omega

theorem atoi_small (ds : List Char) (h : ds.all isDigit = true) (hl : ds.length < 18) :
    ∃ v : Int, (if ds.isEmpty then Res.ok 0 else atoi ds) = .ok v ∧ 0 ≤ v ∧ v < 100000000000000000 := by
  split
  · exact ⟨0, rfl, by decide, by decide⟩
  · have := digitsVal_small ds h hl
    refine ⟨(digitsVal ds : Int), ?_, by omega, by omega⟩
    unfold atoi
    simp only []
    rw [if_pos]
    unfold maxInt; omega

theorem durCore_panic (sign : Int) (sg plus : Bool) (r hd md : List Char)
    (hs : sign = 1 ∨ sign = -1) (hsh : durShape r = some (hd, md))
    (h : durCore sign sg plus r = .panic) : 18 ≤ hd.length ∨ 18 ≤ md.length := by
  obtain ⟨a1, a2, _⟩ := durShape_some r hd md hsh
  rcases Nat.lt_or_ge hd.length 18 with h1 | h1
  · rcases Nat.lt_or_ge md.length 18 with h2 | h2
    · exfalso
      obtain ⟨vh, eh, ph, qh⟩ := atoi_small hd a1 h1
      obtain ⟨vm, em, pm, qm⟩ := atoi_small md a2 h2
      unfold durCore at h
      rw [hsh] at h
      simp only [eh, em] at h
      split at h
      · cases h
      · have hmul : safeMul (sign * vh) 60 = .ok (sign * vh * 60) := by
          unfold safeMul inRange maxInt
          rw [if_pos]
          rcases hs with rfl | rfl <;> simp only [Bool.and_eq_true, decide_eq_true_eq] <;> omega
        have hadd : safeAdd (sign * vh * 60) (sign * vm) = .ok (sign * vh * 60 + sign * vm) := by
          unfold safeAdd inRange maxInt
          rw [if_pos]
          rcases hs with rfl | rfl <;> simp only [Bool.and_eq_true, decide_eq_true_eq] <;> omega
        simp only [hmul, hadd] at h
        cases h
    · exact Or.inr h2
  · exact Or.inl h1

theorem durShape_infix (r hd md : List Char) (h : durShape r = some (hd, md)) : hd <:+: r ∧ md <:+: r := by
  obtain ⟨_, _, h3⟩ := durShape_some r hd md h
  rcases h3 with ⟨rfl, rfl⟩ | ⟨rfl, rfl⟩ | rfl
  · exact ⟨List.nil_infix, (List.prefix_append _ _).isInfix⟩
  · exact ⟨(List.prefix_append _ _).isInfix, List.nil_infix⟩
  · exact ⟨(List.prefix_append _ _).isInfix, ⟨hd ++ ['h'], ['m'], by simp⟩⟩

theorem dur_panic_only_huge (s : List Char) (h : Dur.parse s = .panic) : HasLongDigitRun s := by
  obtain ⟨sign, sg, plus, r, hsign, hs, he⟩ := Dur.parse_cases2 s
  rw [he] at h
  obtain ⟨hd, md, hsh⟩ := durCore_shape sign sg plus r (by rw [h]; exact fun h => by cases h)
  obtain ⟨a1, a2, _⟩ := durShape_some r hd md hsh
  obtain ⟨i1, i2⟩ := durShape_infix r hd md hsh
  have hr : r <:+: s := by
    rcases hs with rfl | rfl | rfl
    · exact (List.suffix_cons _ _).isInfix
    · exact (List.suffix_cons _ _).isInfix
    · exact List.infix_rfl
  rcases durCore_panic sign sg plus r hd md hsign hsh h with h18 | h18
  · exact HasLongDigitRun.of_infix (i1.trans hr) ⟨[], hd, [], by simp, h18, a1⟩
  · exact HasLongDigitRun.of_infix (i2.trans hr) ⟨[], md, [], by simp, h18, a2⟩

/-! ## sumRes -/

theorem sumRes_foldl (xs : List Int) (a : Int) (ha : inRange a = true)
    (h : ∀ n, inRange (a + (xs.take n).sum) = true) (hx : ∀ x ∈ xs, inRange x = true) :
    xs.foldl (fun (acc : Res Int) x => acc.bind (fun a => safeAdd a x)) (Res.ok a) = Res.ok (a + xs.sum) := by
  induction xs generalizing a with
  | nil => simp
  | cons x xs ih =>
    have hx0 := hx x List.mem_cons_self
    have h1 := h 1
    simp only [List.take_succ_cons, List.take_zero, List.sum_cons, List.sum_nil, Int.add_zero] at h1
    have hstep : (Res.ok a).bind (fun a => safeAdd a x) = Res.ok (a + x) := by
      simp [Res.bind, safeAdd, ha, hx0, h1]
    simp only [List.foldl_cons]
    rw [hstep]
    rw [ih (a + x) h1 ?_ (fun y hy => hx y (List.mem_cons_of_mem _ hy))]
    · simp [Int.add_assoc]
    · intro n
      have := h (n + 1)
      simpa [Int.add_assoc] using this

theorem sumRes_ok (xs : List Int) (h : ∀ n, inRange ((xs.take n).sum) = true)
    (hx : ∀ x ∈ xs, inRange x = true) : sumRes xs = .ok xs.sum := by
  have := sumRes_foldl xs 0 (by decide) (by simpa using h) hx
  simpa [sumRes] using this

/-! ## Tags -/

theorem not_mem_takeWhile_ne (q : Char) (r : List Char) : q ∉ r.takeWhile (· != q) := by
  intro h
  have := (List.all_eq_true.mp (List.all_takeWhile (p := (· != q)) (l := r))) _ h
  simp at this

theorem scanValue_not_both (u : UTab) (hq : u.isLetter '"' = false ∨ u.isLetter '\'' = false) (s : List Char) :
    ¬ ((scanValue u s).1.contains '"' = true ∧ (scanValue u s).1.contains '\'' = true) := by
  unfold scanValue
  simp only []
  split
  · split
    · rename_i x hx
      split at hx
      · simp only [Option.some.injEq] at hx
        subst hx
        intro ⟨h1, _⟩
        simp only [List.contains_iff_mem] at h1
        exact not_mem_takeWhile_ne _ _ h1
      · cases hx
    · simp
  · split
    · rename_i x hx
      split at hx
      · simp only [Option.some.injEq] at hx
        subst hx
        intro ⟨_, h2⟩
        simp only [List.contains_iff_mem] at h2
        exact not_mem_takeWhile_ne _ _ h2
      · cases hx
    · simp
  · intro ⟨h1, h2⟩
    simp only [List.contains_iff_mem] at h1 h2
    have n1 := (List.all_eq_true.mp (List.all_takeWhile (p := u.isNameChar) (l := s))) _ h1
    have n2 := (List.all_eq_true.mp (List.all_takeWhile (p := u.isNameChar) (l := s))) _ h2
    unfold UTab.isNameChar at n1 n2
    have d1 : isDigit '"' = false := by decide
    have d2 : isDigit '\'' = false := by decide
    rcases hq with hq | hq
    · simp [hq, d1] at n1
    · simp [hq, d2] at n2

theorem matchTag_not_both_quotes (u : UTab) (s : List Char) (t : Tag) (n : Nat)
    (hq : u.isLetter '"' = false ∨ u.isLetter '\'' = false) (h : matchTag u s = some (t, n)) :
    ¬ (t.value.contains '"' = true ∧ t.value.contains '\'' = true) := by
  unfold matchTag at h
  split at h
  · simp only [] at h
    split at h
    · cases h
    · split at h
      · rename_i r2 _
        have := scanValue_not_both u hq r2
        generalize scanValue u r2 = sv at *
        obtain ⟨v, k⟩ := sv
        simp only [Option.some.injEq, Prod.mk.injEq] at h
        obtain ⟨rfl, _⟩ := h
        exact this
      · simp only [Option.some.injEq, Prod.mk.injEq] at h
        obtain ⟨rfl, _⟩ := h
        simp
  · cases h
/-! ## No panic in the record parser -/

theorem parseValue_panic (p0 : Int) (s : List Char) (h : parseValue p0 s = .panic) :
    Dur.parse (peekUntil isSpTab s) = .panic := by
  unfold parseValue at h
  simp only [] at h
  split at h
  · assumption
  · cases h
  · repeat' (split at h)
    all_goals cases h

theorem PState.commit_panicked (st : PState) : st.commit.panicked = st.panicked := by
  unfold PState.commit
  split
  · rfl
  · split <;> rfl

theorem entryStep_panicked (style : List Char) (st : PState) (nr : Nat) (l : List Char)
    (h : (entryStep style st nr l).panicked = true) : st.panicked = true ∨ HasLongDigitRun l := by
  unfold entryStep at h
  split at h
  · exact Or.inl h
  · simp only [] at h
    have hc := st.commit_panicked
    split at h
    · split at h
      · exact Or.inl h
      · exact Or.inl (hc ▸ h)
    · split at h
      · exact Or.inl (hc ▸ h)
      · have hrest : (match parseValue style.length (l.drop style.length) with
            | .panic => ({ st.commit with panicked := true } : PState)
            | .bad pos len => { st.commit with errs := st.commit.errs ++ [(⟨nr, pos, len, .malformedEntry⟩ : Err)] }
            | .illegalRange pos len => { st.commit with errs := st.commit.errs ++ [(⟨nr, pos, len, .illegalRange⟩ : Err)] }
            | .ok v =>
              let first : List Char := match v.rest with
                | c :: r => if isSpTab c then r else []
                | [] => []
              ({ st.commit with pending := some ⟨v.val, [first], nr, v.startPos, v.spanLen⟩ } : PState)).panicked = true →
            st.panicked = true ∨ HasLongDigitRun l := by
          intro h
          split at h
          · rename_i hv
            right
            have := dur_panic_only_huge _ (parseValue_panic _ _ hv)
            exact HasLongDigitRun.of_infix
              ((List.takeWhile_prefix _).isInfix.trans (List.drop_suffix _ _).isInfix) this
          · exact Or.inl (hc ▸ h)
          · exact Or.inl (hc ▸ h)
          · exact Or.inl (hc ▸ h)
        split at h
        · split at h
          · exact Or.inl (hc ▸ h)
          · exact hrest h
        · simp only [Bool.false_eq_true, if_false] at h
          exact hrest h

theorem entriesGo_panicked (style : List Char) (ls : List (List Char)) (st : PState) (nr : Nat)
    (h : (entriesGo style st nr ls).panicked = true) : st.panicked = true ∨ ∃ l ∈ ls, HasLongDigitRun l := by
  induction ls generalizing st nr with
  | nil =>
    unfold entriesGo at h
    rw [PState.commit_panicked] at h
    exact Or.inl h
  | cons l ls ih =>
    unfold entriesGo at h
    rcases ih _ _ h with h1 | ⟨l', hl', h2⟩
    · rcases entryStep_panicked style st nr l h1 with h3 | h3
      · exact Or.inl h3
      · exact Or.inr ⟨l, List.mem_cons_self, h3⟩
    · exact Or.inr ⟨l', List.mem_cons_of_mem _ hl', h2⟩

theorem parseRecord_no_panic (offset : Nat) (lines : List (List Char))
    (h : ∀ l ∈ lines, ¬ HasLongDigitRun l) : parseRecord offset lines ≠ .panic := by
  intro hp
  cases lines with
  | nil => simp [parseRecord] at hp
  | cons hl rest =>
    unfold parseRecord at hp
    simp only [] at hp
    have hg := parseHeadline_good offset hl
    split at hp
    · rename_i hh
      rw [hh] at hg
      obtain ⟨t, ht, hpan⟩ := hg
      exact h hl List.mem_cons_self (HasLongDigitRun.of_infix ht (dur_panic_only_huge t hpan))
    · rename_i hh
      rw [hh] at hg
      exact hg
    · obtain ⟨k, _, s2, _, _, _⟩ := summaryGo_spec (offset + 1) rest
      generalize summaryGo (offset + 1) rest = r at *
      obtain ⟨sum, serrs, nr, rest2⟩ := r
      simp only at hp s2
      split at hp
      · rename_i hpanic
        rcases entriesGo_panicked _ _ _ _ hpanic with h1 | ⟨l, hl', h2⟩
        · cases h1
        · rw [s2] at hl'
          exact h l (List.mem_cons_of_mem _ (List.mem_of_mem_drop hl')) h2
      · split at hp <;> cases hp
/-! ## Shape of the document result -/

theorem significant_ne_nil (b : List Line) (h : ∃ l ∈ b, l.isBlank = false) : (significant b).1 ≠ [] := by
  obtain ⟨l, hl, hb⟩ := h
  unfold significant
  simp only []
  have hmem := mem_dropWhile_of_false Line.isBlank l b hl hb
  have hne : b.dropWhile Line.isBlank ≠ [] := List.ne_nil_of_mem hmem
  have hh := List.head_dropWhile_not Line.isBlank hne
  generalize b.dropWhile Line.isBlank = D at *
  cases D with
  | nil => exact absurd rfl hne
  | cons x xs =>
    simp only [List.head_cons] at hh
    simp [hh]

theorem blockShape_has_sig {lead : Bool} {b : List Line} (h : BlockShape lead b) :
    ∃ l ∈ b, l.isBlank = false := by
  obtain ⟨pre, sig, post, rfl, _, hs, hss, _, _⟩ := h
  cases sig with
  | nil => exact absurd rfl hs
  | cons x xs => exact ⟨x, by simp, hss x List.mem_cons_self⟩

theorem blocksOf_has_sig (t : Bytes) (b : List Line) (hb : b ∈ blocksOf t) : ∃ l ∈ b, l.isBlank = false := by
  unfold blocksOf blocksOfLines at hb
  rcases blocksGo_shape true .pre [] (splitLines t) ⟨rfl, fun l hl => (by cases hl)⟩ with h | ⟨b0, bs, h, h1, h2⟩
  · rw [h] at hb; cases hb
  · rw [h] at hb
    rcases List.mem_cons.mp hb with rfl | hb
    · exact blockShape_has_sig h1
    · exact blockShape_has_sig (h2 b hb)

theorem firstLineIndices_length (n : Nat) (bs : List (List Line)) : (firstLineIndices n bs).length = bs.length := by
  induction bs generalizing n with
  | nil => rfl
  | cons b bs ih => simp [firstLineIndices, ih]

theorem blockOuts_lines (bs : List (List Line)) : (blockOuts bs).map (·.lines) = bs := by
  unfold blockOuts
  rw [List.map_map]
  have : ((fun x : BlockOut => x.lines) ∘ fun (x : List Line × Nat) => (⟨x.1, x.2, parseBlock x.1⟩ : BlockOut))
      = Prod.fst := rfl
  rw [this]
  exact List.map_fst_zip (by rw [firstLineIndices_length]; exact Nat.le_refl _)

theorem blockOuts_mem (bs : List (List Line)) (bo : BlockOut) (h : bo ∈ blockOuts bs) :
    bo.out = parseBlock bo.lines ∧ bo.lines ∈ bs := by
  unfold blockOuts at h
  obtain ⟨⟨b, i⟩, hm, rfl⟩ := List.mem_map.mp h
  exact ⟨rfl, (List.of_mem_zip hm).1⟩

theorem filterMap_records_length (bos : List BlockOut)
    (h : ∀ bo ∈ bos, ∃ r, bo.out = .record r) :
    (bos.filterMap (fun bo => match bo.out with | .record r => some r | _ => none)).length = bos.length := by
  induction bos with
  | nil => rfl
  | cons bo bos ih =>
    obtain ⟨r, hr⟩ := h bo List.mem_cons_self
    rw [List.filterMap_cons]
    simp only [hr, List.length_cons]
    rw [ih (fun bo' hbo' => h bo' (List.mem_cons_of_mem _ hbo'))]

theorem parseDoc_shape (t : Bytes) :
    (∃ rs bos, parseDoc t = .records rs bos ∧ rs.length = bos.length ∧ bos.map (·.lines) = blocksOf t) ∨
    (∃ es, parseDoc t = .errors es ∧ es ≠ []) ∨ parseDoc t = .panic := by
  unfold parseDoc assemble
  simp only []
  split
  · exact Or.inr (Or.inr rfl)
  · rename_i hnp
    split
    · rename_i herr
      refine Or.inr (Or.inl ⟨_, rfl, ?_⟩)
      rw [List.any_eq_true] at herr
      obtain ⟨bo, hbo, hout⟩ := herr
      split at hout
      · rename_i es hes
        obtain ⟨ho, hl⟩ := blockOuts_mem _ _ hbo
        have hsig := significant_ne_nil _ (blocksOf_has_sig t _ hl)
        have hne : es ≠ [] := by
          rw [ho] at hes
          unfold parseBlock at hes
          generalize significant bo.lines = sg at *
          obtain ⟨sig, head, tl⟩ := sg
          simp only at hes hsig
          exact parseRecord_errors_nonempty _ _ _ (by simpa using hsig) hes
        intro hflat
        rw [List.flatten_eq_nil_iff] at hflat
        have := hflat (gerrsOf bo) (List.mem_map_of_mem hbo)
        unfold gerrsOf at this
        rw [hes] at this
        simp only [List.map_eq_nil_iff] at this
        exact hne this
      · cases hout
    · rename_i hne
      refine Or.inl ⟨_, _, rfl, ?_, blockOuts_lines _⟩
      apply filterMap_records_length
      intro bo hbo
      cases ho : bo.out with
      | record r => exact ⟨r, rfl⟩
      | errors es =>
        exfalso; apply hne
        rw [List.any_eq_true]
        exact ⟨bo, hbo, by rw [ho]⟩
      | panic =>
        exfalso; apply hnp
        rw [List.any_eq_true]
        exact ⟨bo, hbo, by rw [ho]; rfl⟩
end KlogV
