/-
Lemmas about filtering and the translation of the CLI filter flags (KlogV/Model/Query.lean),
used by KlogV/Props/C13.lean.  Sorting lemmas live in KlogV/Lemmas/Report.lean.
-/
import KlogV.Lemmas.Report
namespace KlogV

/-! ## Shape of a filtered record -/

theorem reduceTags_eq (u : UTab) (q : List Tag) (r : Record) :
    reduceTags u q r =
      if isSubsetOfTags q (summaryTags u r.summary) then some r
      else if (r.entries.filter (fun e => isSubsetOfTags q (summaryTags u r.summary ++ summaryTags u e.summary))).isEmpty then none
      else some { r with entries := r.entries.filter (fun e => isSubsetOfTags q (summaryTags u r.summary ++ summaryTags u e.summary)) } := rfl

theorem reduceTags_shape (u : UTab) (q : List Tag) (r r' : Record) (h : reduceTags u q r = some r') :
    r'.date = r.date ∧ r'.should = r.should ∧ r'.summary = r.summary ∧ r'.entries.Sublist r.entries ∧
      (r'.entries ≠ [] ∨ r' = r) := by
  rw [reduceTags_eq] at h
  split at h
  · injection h with h; subst h
    exact ⟨rfl, rfl, rfl, List.Sublist.refl _, Or.inr rfl⟩
  · split at h
    · exact absurd h (by simp)
    · rename_i hne
      injection h with h; subst h
      refine ⟨rfl, rfl, rfl, List.filter_sublist, Or.inl ?_⟩
      intro e; simp only at e; rw [e] at hne; exact hne rfl

theorem reduceType_shape (t : EntryType) (r r' : Record) (h : reduceType t r = some r') :
    r'.date = r.date ∧ r'.should = r.should ∧ r'.summary = r.summary ∧ r'.entries.Sublist r.entries ∧
      r'.entries ≠ [] := by
  unfold reduceType at h
  simp only at h
  split at h
  · exact absurd h (by simp)
  · rename_i hne
    injection h with h; subst h
    refine ⟨rfl, rfl, rfl, List.filter_sublist, ?_⟩
    intro e; simp only at e; rw [e] at hne; exact hne rfl

/-- `filterOne` = date test, then the tag clause, then the entry-type clause -/
def datePass (q : Query) (r : Record) : Bool :=
  (match q.atDate with | some d => d.sameDay r.date | none => true) &&
  (match q.beforeOrEqual with | some d => d.afterOrEqual r.date | none => true) &&
  (match q.afterOrEqual with | some d => r.date.afterOrEqual d | none => true)

def tagStage (u : UTab) (tags : List Tag) (r : Record) : Option Record :=
  if tags.isEmpty then some r else reduceTags u tags r

def typeStage (et : Option EntryType) (r : Record) : Option Record :=
  match et with
  | none => some r
  | some t => reduceType t r

theorem filterOne_eq (u : UTab) (q : Query) (r : Record) :
    filterOne u q r = if datePass q r then (tagStage u q.tags r).bind (typeStage q.etype) else none := by
  obtain ⟨tags, b, a, at_, et⟩ := q
  unfold filterOne datePass tagStage
  simp only []
  generalize (if tags.isEmpty = true then some r else reduceTags u tags r) = o
  have hb : ∀ (c : Bool) (x : Option Record), (if (!c) = true then none else x) = if c = true then x else none := by
    intro c x; cases c <;> rfl
  have hand : ∀ (c d : Bool) (x : Option Record),
      (if c = true then (if d = true then x else none) else none) = if (c && d) = true then x else none := by
    intro c d x; cases c <;> cases d <;> rfl
  cases o <;> cases et <;> cases at_ <;> cases b <;> cases a <;>
    simp only [hb, hand, typeStage, Option.bind_some, Option.bind_none, Bool.true_and, Bool.and_true, if_true,
      Bool.false_eq_true, if_false, Bool.and_assoc]

theorem filterOne_some (u : UTab) (q : Query) (r r' : Record) (h : filterOne u q r = some r') :
    datePass q r = true ∧ ∃ r1, tagStage u q.tags r = some r1 ∧ typeStage q.etype r1 = some r' := by
  rw [filterOne_eq] at h
  cases hd : datePass q r with
  | false => simp [hd] at h
  | true =>
    simp only [hd, if_true] at h
    exact ⟨rfl, Option.bind_eq_some_iff.mp h⟩

theorem filterOne_shape_strong (u : UTab) (q : Query) (r r' : Record) (h : filterOne u q r = some r') :
    r'.date = r.date ∧ r'.should = r.should ∧ r'.summary = r.summary ∧ r'.entries.Sublist r.entries ∧
      (r'.entries ≠ [] ∨ r' = r) := by
  obtain ⟨_, r1, h1, h2⟩ := filterOne_some u q r r' h
  have s1 : r1.date = r.date ∧ r1.should = r.should ∧ r1.summary = r.summary ∧ r1.entries.Sublist r.entries ∧
      (r1.entries ≠ [] ∨ r1 = r) := by
    unfold tagStage at h1
    split at h1
    · injection h1 with h1; subst h1
      exact ⟨rfl, rfl, rfl, List.Sublist.refl _, Or.inr rfl⟩
    · exact reduceTags_shape u _ r r1 h1
  unfold typeStage at h2
  split at h2
  · injection h2 with h2; subst h2; exact s1
  · have s2 := reduceType_shape _ r1 r' h2
    exact ⟨s2.1.trans s1.1, s2.2.1.trans s1.2.1, s2.2.2.1.trans s1.2.2.1, s2.2.2.2.1.trans s1.2.2.2.1,
      Or.inl s2.2.2.2.2⟩

/-- The form used by `C13.filter_record_shape`: `∧` binds tighter than `∨`, so the statement reads
`(date ∧ should ∧ summary ∧ sublist ∧ entries ≠ []) ∨ r' = r`; equivalent to the strong form since
`r' = r` implies the first four conjuncts. -/
theorem filterOne_shape (u : UTab) (q : Query) (r r' : Record) (h : filterOne u q r = some r') :
    r'.date = r.date ∧ r'.should = r.should ∧ r'.summary = r.summary ∧ r'.entries.Sublist r.entries ∧
      r'.entries ≠ [] ∨ r' = r := by
  obtain ⟨h1, h2, h3, h4, h5 | h5⟩ := filterOne_shape_strong u q r r' h
  · exact Or.inl ⟨h1, h2, h3, h4, h5⟩
  · exact Or.inr h5

theorem filterOne_date (u : UTab) (at_ before after : Option Date) (r : Record) :
    (filterOne u { atDate := at_, beforeOrEqual := before, afterOrEqual := after } r).isSome =
      ((match at_ with | some d => d.sameDay r.date | none => true) &&
       (match before with | some d => d.afterOrEqual r.date | none => true) &&
       (match after with | some d => r.date.afterOrEqual d | none => true)) := by
  have hi : ∀ (c : Bool) (x : Record), (if c = true then some x else none).isSome = c := by
    intro c x; cases c <;> rfl
  rw [filterOne_eq]
  cases at_ <;> cases before <;> cases after <;>
    simp only [datePass, tagStage, typeStage, List.isEmpty_nil, if_true, Option.bind_some, hi,
      Bool.and_true, Bool.true_and, Option.isSome_some]

/-! ## Flags -/

theorem flags_after (today d : Date) (q : Query) (r : Record) (hd : d.valid = true) (hr : r.date.valid = true)
    (h : flagsToQuery today { after := some d } = .ok q) :
    (∃ d', q.afterOrEqual = some d' ∧ (r.date.afterOrEqual d' = true ↔ dayNumber d < dayNumber r.date)) := by
  unfold flagsToQuery at h
  cases hp : d.plusDays 1 with
  | none => simp [hp, bind, Res.bind] at h
  | some d' =>
    simp [hp, bind, Res.bind] at h
    subst h
    have hd' := plusDays_some d d' 1 hd hp
    refine ⟨d', rfl, ?_⟩
    rw [afterOrEqual_iff_dayNumber _ _ hr hd'.1]
    omega

theorem flags_before (today d : Date) (q : Query) (r : Record) (hd : d.valid = true) (hr : r.date.valid = true)
    (h : flagsToQuery today { before := some d } = .ok q) :
    (∃ d', q.beforeOrEqual = some d' ∧ (d'.afterOrEqual r.date = true ↔ dayNumber r.date < dayNumber d)) := by
  unfold flagsToQuery at h
  cases hp : d.plusDays (-1) with
  | none => simp [hp, bind, Res.bind] at h
  | some d' =>
    simp [hp, bind, Res.bind] at h
    subst h
    have hd' := plusDays_some d d' (-1) hd hp
    refine ⟨d', rfl, ?_⟩
    rw [afterOrEqual_iff_dayNumber _ _ hd'.1 hr]
    omega

theorem flags_shortcut (today : Date) (k : PeriodKind) (prev : Bool) (q : Query)
    (h : flagsToQuery today { shortcut := some (k, prev) } = .ok q) :
    ∃ d p, (if prev then previousDate k today else some today) = some d ∧ periodOf k d = some p ∧
      q.afterOrEqual = some p.since ∧ q.beforeOrEqual = some p.until_ := by
  unfold flagsToQuery at h
  simp only [bind, Res.bind, Bool.false_eq_true, if_false] at h
  cases hb : (if prev = true then previousDate k today else some today) with
  | none => simp [hb] at h
  | some d =>
    simp only [hb] at h
    cases hp : periodOf k d with
    | none => simp [hp] at h
    | some p =>
      simp only [hp] at h
      injection h with h
      subst h
      exact ⟨d, p, rfl, hp, rfl, rfl⟩

/-! ## Tags -/

theorem tagSetContains_bare (ts : List Tag) (t : Tag) (h : t ∈ ts) :
    tagSetContains ts t = true ∧ tagSetContains ts ⟨t.name, []⟩ = true := by
  unfold tagSetContains lookupSet
  simp only [List.contains_iff_mem, List.mem_eraseDups, List.mem_flatMap]
  exact ⟨⟨t, h, by simp⟩, ⟨t, h, by simp⟩⟩

/-! ## Conjunction -/

theorem filterMap_congr' {α β} (f g : α → Option β) (l : List α) (h : ∀ a ∈ l, f a = g a) :
    l.filterMap f = l.filterMap g := by
  induction l with
  | nil => rfl
  | cons a as ih =>
    rw [List.filterMap_cons, List.filterMap_cons, h a (by simp), ih (fun b hb => h b (List.mem_cons_of_mem _ hb))]

theorem filter_conjunction (u : UTab) (at_ before after : Option Date) (tags : List Tag) (et : Option EntryType)
    (rs : List Record) :
    filterRecords u { atDate := at_, beforeOrEqual := before, afterOrEqual := after, tags := tags, etype := et } rs =
      filterRecords u { etype := et } (filterRecords u { tags := tags }
        (filterRecords u { atDate := at_, beforeOrEqual := before, afterOrEqual := after } rs)) := by
  unfold filterRecords
  rw [List.filterMap_filterMap, List.filterMap_filterMap]
  apply filterMap_congr'
  intro r _
  have hE : ∀ x, filterOne u { etype := et } x = typeStage et x := by
    intro x; rw [filterOne_eq]; rfl
  have hT : ∀ x, filterOne u { tags := tags } x = tagStage u tags x := by
    intro x; rw [filterOne_eq]
    show (tagStage u tags x).bind (fun y => some y) = _
    cases tagStage u tags x <;> rfl
  have hD : filterOne u { atDate := at_, beforeOrEqual := before, afterOrEqual := after } r =
      if datePass { atDate := at_, beforeOrEqual := before, afterOrEqual := after } r then some r else none := by
    rw [filterOne_eq]; rfl
  have e1 : datePass { atDate := at_, beforeOrEqual := before, afterOrEqual := after, tags := tags, etype := et } r
      = datePass { atDate := at_, beforeOrEqual := before, afterOrEqual := after } r := rfl
  rw [hD, filterOne_eq, e1]
  cases datePass { atDate := at_, beforeOrEqual := before, afterOrEqual := after } r with
  | false => rfl
  | true =>
    simp only [if_true, Option.bind_some, hT]
    cases tagStage u tags r with
    | none => rfl
    | some r1 => simp only [Option.bind_some, hE]

end KlogV
