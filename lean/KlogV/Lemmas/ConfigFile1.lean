/-
Helper lemmas for KlogV/Lemmas/ConfigFile.lean, part 1: the INI reader on one well-formed line.
-/
import KlogV.Model.ConfigFile
namespace KlogV.ConfigLemmas
open KlogV

theorem dropCrBeforeLf_noCR : ∀ (t : Bytes), (∀ b ∈ t, b ≠ CR) → dropCrBeforeLf t = t
  | [], _ => rfl
  | [a], _ => rfl
  | a :: b :: rest, h => by
    have ha : (a == CR) = false := by
      have := h a (by simp)
      simpa using this
    have ih := dropCrBeforeLf_noCR (b :: rest) (fun x hx => h x (by simp [hx]))
    rw [dropCrBeforeLf]
    simp only [ha, Bool.false_and, Bool.false_eq_true, if_false, ih]

theorem splitOnLf_go_append_lf (l : Bytes) (hl : ∀ b ∈ l, b ≠ LF) (cur : Bytes) :
    splitOnLf.go (l ++ [LF]) cur = [cur.reverse ++ l, []] := by
  induction l generalizing cur with
  | nil =>
    simp [splitOnLf.go]
  | cons a l ih =>
    have ha : (a == LF) = false := by
      have := hl a (by simp)
      simpa using this
    rw [List.cons_append, splitOnLf.go]
    simp only [ha, Bool.false_eq_true, if_false]
    rw [ih (fun x hx => hl x (by simp [hx]))]
    simp

theorem splitOnLf_append_lf (l : Bytes) (hl : ∀ b ∈ l, b ≠ LF) : splitOnLf (l ++ [LF]) = [l, []] := by
  unfold splitOnLf
  rw [splitOnLf_go_append_lf l hl []]
  rfl

theorem splitAtEq_first (k rest : Bytes) (hk : ∀ b ∈ k, b ≠ 61) : splitAtEq (k ++ 61 :: rest) = some (k, rest) := by
  induction k with
  | nil => simp [splitAtEq]
  | cons a k ih =>
    have ha : (a == 61) = false := by
      have := hk a (by simp)
      simpa using this
    rw [List.cons_append, splitAtEq]
    simp only [ha, Bool.false_eq_true, if_false]
    rw [ih (fun x hx => hk x (by simp [hx]))]
    rfl

theorem dropWhile_none {α} (p : α → Bool) (l : List α) (h : ∀ b ∈ l, p b = false) : l.dropWhile p = l := by
  cases l with
  | nil => rfl
  | cons a l => simp [List.dropWhile, h a (by simp)]

theorem trimRightBy_append_one (p : UInt8 → Bool) (k : Bytes) (s : UInt8) (hs : p s = true) (hk : ∀ b ∈ k, p b = false) :
    trimRightBy p (k ++ [s]) = k := by
  unfold trimRightBy
  rw [List.reverse_append]
  simp only [List.reverse_cons, List.reverse_nil, List.nil_append, List.singleton_append]
  rw [List.dropWhile_cons]
  simp only [hs, if_true]
  rw [dropWhile_none p k.reverse (fun b hb => hk b (by simpa using hb))]
  simp

theorem contains_false (k : Bytes) (s : UInt8) (hk : ∀ b ∈ k, b ≠ s) : k.contains s = false := by
  rw [Bool.eq_false_iff]
  intro h
  rw [List.contains_iff_mem] at h
  exact hk s h rfl

theorem iniLine_pair (key value : Bytes)
    (hk : key ≠ [] ∧ ∀ b ∈ key, b ≠ SP ∧ b ≠ TAB ∧ b ≠ 61 ∧ b ≠ LF ∧ b ≠ CR) (hk0 : key.head? ≠ some 35 ∧ key.head? ≠ some 91) :
    iniLine (key ++ [SP, 61, SP] ++ value) = .pair key value := by
  obtain ⟨hne, hk⟩ := hk
  obtain ⟨k0, ks, rfl⟩ := List.exists_cons_of_ne_nil hne
  have hk0a : k0 ≠ 35 := by
    intro h; apply hk0.1; simp [h]
  have hk0b : k0 ≠ 91 := by
    intro h; apply hk0.2; simp [h]
  have hb : isBlankByte k0 = false := by
    have := hk k0 (by simp)
    simp [isBlankByte, this.1, this.2.1]
  have hsplit : splitAtEq (k0 :: ks ++ [SP, 61, SP] ++ value) = some (k0 :: ks ++ [SP], SP :: value) := by
    have := splitAtEq_first (k0 :: ks ++ [SP]) (SP :: value) (by
      intro b hb
      rw [List.mem_append] at hb
      rcases hb with hb | hb
      · exact (hk b hb).2.2.1
      · simp at hb; subst hb; decide)
    rw [← this]
    simp
  have htrim : trimRightBy (· == SP) (k0 :: ks ++ [SP]) = k0 :: ks :=
    trimRightBy_append_one _ _ SP (by simp) (fun b hb => by simpa using (hk b hb).1)
  have hc1 : (k0 :: ks).contains SP = false := contains_false _ _ (fun b hb => (hk b hb).1)
  have hc2 : (k0 :: ks).contains TAB = false := contains_false _ _ (fun b hb => (hk b hb).2.1)
  unfold iniLine
  rw [hsplit]
  have e1 : (k0 :: ks ++ [SP, 61, SP] ++ value).isEmpty = false := by simp
  have e2 : (k0 :: ks ++ [SP, 61, SP] ++ value).head? = some k0 := by simp
  have e3 : (k0 :: ks ++ [SP, 61, SP] ++ value).all isBlankByte = false := by
    simp only [List.cons_append, List.all_cons, hb, Bool.false_and]
  have e4 : (k0 :: ks ++ [SP]).getLast? = some SP := List.getLast?_concat
  simp only [e1, e2, e3, e4, htrim, hc1, hc2]
  simp [hk0a, hk0b]

theorem iniLine_nil : iniLine [] = .skip := rfl

theorem iniEntries_single' (key value : Bytes)
    (hk : key ≠ [] ∧ ∀ b ∈ key, b ≠ SP ∧ b ≠ TAB ∧ b ≠ 61 ∧ b ≠ LF ∧ b ≠ CR) (hk0 : key.head? ≠ some 35 ∧ key.head? ≠ some 91)
    (hv : ∀ b ∈ value, b ≠ LF ∧ b ≠ CR) :
    iniEntries (key ++ [SP, 61, SP] ++ value ++ [LF]) = some [(key, value)] := by
  have hcr : ∀ b ∈ key ++ [SP, 61, SP] ++ value ++ [LF], b ≠ CR := by
    intro b hb
    simp only [List.mem_append, List.mem_cons, List.not_mem_nil, or_false] at hb
    rcases hb with ((hb | hb) | hb) | hb
    · exact (hk.2 b hb).2.2.2.2
    · rcases hb with rfl | rfl | rfl <;> decide
    · exact (hv b hb).2
    · subst hb; decide
  have hlf : ∀ b ∈ key ++ [SP, 61, SP] ++ value, b ≠ LF := by
    intro b hb
    simp only [List.mem_append, List.mem_cons, List.not_mem_nil, or_false] at hb
    rcases hb with (hb | hb) | hb
    · exact (hk.2 b hb).2.2.2.1
    · rcases hb with rfl | rfl | rfl <;> decide
    · exact (hv b hb).1
  unfold iniEntries
  rw [dropCrBeforeLf_noCR _ hcr, splitOnLf_append_lf _ hlf]
  simp only [iniEntries.go, iniLine_pair key value hk hk0, iniLine_nil, if_true, List.reverse_cons, List.reverse_nil,
    List.nil_append]

end KlogV.ConfigLemmas
