/- Helper lemmas for KlogV/Props/GoSpec16.lean (end-to-end corollaries about the translated time.go / range.go). Core Lean only. -/
import KlogV.GoSem.SpecDefs
import KlogV.Props.GoSrc
import KlogV.Props.C16
namespace KlogV.GoL
open KlogV.Go KlogV.GoTie

theorem res_ok {α} {x : G α} {a : α} (h : x.res = .ok a) : x = .ok a := by
  cases x with
  | ok b => simp only [G.res] at h; cases h; rfl
  | error e => cases e <;> simp [G.res] at h

theorem goTime_lift (t : GoSrc.time) (ht : GoTimeWF t) :
    ∃ t' : Time, t'.wf = true ∧ t'.toGo = t ∧ t'.offset = goTimeOffset t ∧ t'.is24 = t.format.Use24HourClock := by
  obtain ⟨h, m, s, ⟨f⟩⟩ := t
  obtain ⟨h0, h1, m0, m1, hs⟩ := ht
  simp only at h0 h1 m0 m1 hs
  refine ⟨⟨h.toNat, m.toNat, s, f⟩, ?_, ?_, ?_, rfl⟩
  · simp only [Time.wf, Bool.and_eq_true, Bool.or_eq_true, decide_eq_true_eq, beq_iff_eq]
    omega
  · simp only [Time.toGo, Int.toNat_of_nonneg h0, Int.toNat_of_nonneg m0]
  · simp only [Time.offset, goTimeOffset, Int.toNat_of_nonneg h0, Int.toNat_of_nonneg m0]
    rcases hs with hs | hs | hs <;> subst hs <;> simp <;> omega

/-- a well-formed model time, translated, is well-formed and has the same offset -/
theorem toGo_timeWF (t : Time) (h : t.wf = true) :
    GoTimeWF t.toGo ∧ goTimeOffset t.toGo = t.offset := by
  obtain ⟨hh, m, s, f⟩ := t
  simp only [Time.wf, Bool.and_eq_true, Bool.or_eq_true, decide_eq_true_eq, beq_iff_eq] at h
  obtain ⟨⟨h1, h2⟩, hs⟩ := h
  refine ⟨?_, ?_⟩
  · simp only [GoTimeWF, Time.toGo]; omega
  · simp only [Time.offset, goTimeOffset, Time.toGo]
    rcases hs with (hs | hs) | hs <;> subst hs <;> simp <;> omega

example : GoTimeWF ⟨0, 1, 0, ⟨true⟩⟩ ∧ inRange (9223372036854775807 : Int) = true ∧
    ((⟨0, 1, 0, ⟨true⟩⟩ : GoSrc.time).Plus ⟨9223372036854775807, ⟨false, 0⟩⟩).res = .panic := by decide

/-- the corrected statement (the refusal is an error only while the checked addition goes through;
beyond the 64-bit range it is a panic) -/
theorem go_time_plus (t : GoSrc.time) (d : GoSrc.duration) (ht : GoTimeWF t) (hd : inRange d.minutes = true) :
    ((-1440 ≤ goTimeOffset t + d.minutes ∧ goTimeOffset t + d.minutes < 2880) →
        ∃ r, t.Plus d = .ok r ∧ GoTimeWF r ∧ goTimeOffset r = goTimeOffset t + d.minutes ∧ r.format = t.format) ∧
    (¬ (-1440 ≤ goTimeOffset t + d.minutes ∧ goTimeOffset t + d.minutes < 2880) →
        inRange (goTimeOffset t + d.minutes) = true → (t.Plus d).res = .err) ∧
    (inRange (goTimeOffset t + d.minutes) = false → (t.Plus d).res = .panic) := by
  obtain ⟨t', hwf, rfl, hoff, h24⟩ := goTime_lift t ht
  rw [← hoff]
  refine ⟨fun hr => ?_, fun hr hin => ?_, fun hin => ?_⟩
  · obtain ⟨r', hp, hrwf, hroff, hr24⟩ := (C16.time_plus_spec t' d.minutes hwf).2 hr
    have hin : inRange (t'.offset + d.minutes) = true := by
      simp only [inRange, maxInt, Bool.and_eq_true]
      exact ⟨decide_eq_true (by omega), decide_eq_true (by omega)⟩
    have h := time_plus_eq t' d hwf hd hin
    rw [hp] at h
    refine ⟨r'.toGo, res_ok h, (toGo_timeWF r' hrwf).1, ?_, ?_⟩
    · rw [(toGo_timeWF r' hrwf).2, hroff]
    · simp only [Time.toGo, hr24]
  · have hp := (C16.time_plus_none t' d.minutes hwf).2 hr
    have h := time_plus_eq t' d hwf hd hin
    rw [hp] at h
    exact h
  · exact time_plus_overflow t' d hwf (fun h => by rw [h.2] at hin; cases hin)

theorem go_range (s e : GoSrc.time) (f : GoSrc.RangeFormat) (hs : GoTimeWF s) (he : GoTimeWF e) :
    (goTimeOffset s ≤ goTimeOffset e →
        GoSrc.NewRangeWithFormat s e f = .ok ⟨s, e, f⟩ ∧
        (⟨s, e, f⟩ : GoSrc.timeRange).Duration = .ok ⟨goTimeOffset e - goTimeOffset s, ⟨false, 0⟩⟩) ∧
    (¬ goTimeOffset s ≤ goTimeOffset e → (GoSrc.NewRangeWithFormat s e f).res = .err) := by
  obtain ⟨s', hswf, rfl, hsoff, _⟩ := goTime_lift s hs
  obtain ⟨e', hewf, rfl, heoff, _⟩ := goTime_lift e he
  obtain ⟨sp⟩ := f
  rw [← hsoff, ← heoff]
  have h := newRange_eq s' e' sp hswf hewf
  refine ⟨fun hle => ⟨?_, ?_⟩, fun hle => ?_⟩
  · rw [if_pos ((C16.range_valid_iff s' e').2 hle)] at h
    exact res_ok h
  · rw [range_duration_eq s' e' sp hswf hewf, C16.range_minutes]; rfl
  · rw [if_neg (fun c => hle ((C16.range_valid_iff s' e').1 c))] at h
    exact h

theorem go_midnightOffset (t : GoSrc.time) (ht : GoTimeWF t) : t.MidnightOffset = .ok ⟨goTimeOffset t, ⟨false, 0⟩⟩ := by
  obtain ⟨t', hwf, rfl, hoff, _⟩ := goTime_lift t ht
  rw [midnightOffset_eq t' hwf, hoff]; rfl


end KlogV.GoL
