/- C15 pattern lemmas, part 2: ISO weeks reached from the Monday of the week of 1 July. -/
import KlogV.Lemmas.Patterns1
namespace KlogV.PatternLemmas
open KlogV

theorem dby_le (a b : Int) (h : a ≤ b) : daysBeforeYear a ≤ daysBeforeYear b := by
  unfold daysBeforeYear; omega

/-- The defining inequalities determine ISO year and week. -/
theorem isoWeek_unique (x : Date) (hx : x.valid = true) (Y : Int) (w : Nat)
    (h1 : daysBeforeYear Y ≤ dayNumber x + 4 - (x.weekday : Int))
    (h2 : dayNumber x + 4 - (x.weekday : Int) < daysBeforeYear (Y + 1))
    (h3 : 7 * ((w : Int) - 1) ≤ dayNumber x + 4 - (x.weekday : Int) - daysBeforeYear Y)
    (h4 : dayNumber x + 4 - (x.weekday : Int) - daysBeforeYear Y < 7 * w) :
    x.isoWeek = (Y, w) := by
  have s := isoWeek_spec x hx
  simp only at s
  have e : x.isoWeek.1 = Y := by
    apply Classical.byContradiction; intro hn
    rcases Int.lt_or_gt_of_ne hn with g | g
    · have := dby_le (x.isoWeek.1 + 1) Y (by omega); omega
    · have := dby_le (Y + 1) x.isoWeek.1 (by omega); omega
  have e2 : x.isoWeek.2 = w := by rw [e] at s; omega
  exact Prod.ext e e2

theorem isoWeek_year_unique (x : Date) (hx : x.valid = true) (Y : Int)
    (h1 : daysBeforeYear Y ≤ dayNumber x + 4 - (x.weekday : Int))
    (h2 : dayNumber x + 4 - (x.weekday : Int) < daysBeforeYear (Y + 1)) : x.isoWeek.1 = Y := by
  have s := isoWeek_spec x hx
  simp only at s
  apply Classical.byContradiction; intro hn
  rcases Int.lt_or_gt_of_ne hn with g | g
  · have := dby_le (x.isoWeek.1 + 1) Y (by omega); omega
  · have := dby_le (Y + 1) x.isoWeek.1 (by omega); omega

theorem isoWeek_year_gt (x : Date) (hx : x.valid = true) (Y : Int)
    (h : daysBeforeYear (Y + 1) ≤ dayNumber x + 4 - (x.weekday : Int)) : Y + 1 ≤ x.isoWeek.1 := by
  have s := isoWeek_spec x hx
  simp only at s
  apply Classical.byContradiction; intro hn
  have := dby_le (x.isoWeek.1 + 1) (Y + 1) (by omega); omega

/-- What `weekFromString` does once year and week number are read. -/
def weekBody (year week : Nat) : Res Date :=
  if week < 1 then .err else
  match mkDate year 7 1 with
  | none => .err
  | some ref0 =>
    match toMonday 7 ref0 with
    | none => .panic
    | some ref1 =>
      let w := ref1.isoWeek.2
      match ref1.plusDays (((week : Int) - w) * 7) with
      | none => .panic
      | some ref2 => if ref2.isoWeek.2 != week then .err else .ok ref2

theorem week_W (a b c d : Char) (ws : List Char) : weekFromString (a :: b :: c :: d :: '-' :: 'W' :: ws) =
    if !(allDigits [a, b, c, d] && allDigits ws && (ws.length == 1 || ws.length == 2)) then .err
    else weekBody (digitsVal [a, b, c, d]) (digitsVal ws) := by
  simp only [weekFromString, weekBody]
  rfl

/-- the two notations of a week number: `W07` and `W7` (same as `KlogV.WeekDigits`) -/
def WeekDigits' (w : Nat) (ws : List Char) : Prop := ws = pad2 w ∨ (w < 10 ∧ ws = [digitChar w])

theorem pfp_week (y w : Nat) (ws : List Char) (hy : y ≤ 9999) (hw : w ≤ 99) (hws : WeekDigits' w ws) :
    periodFromPattern (pad4 y ++ "-W".toList ++ ws) =
      match weekBody y w with
      | .ok d => (match weekPeriod d with | some p => .ok p | none => .panic)
      | .err => .err
      | .panic => .panic := by
  have hv := pad4_val y hy
  have hWd : isDigit 'W' = false := by decide
  have hQ : 'W' ≠ 'Q' := by decide
  rw [pfp_eq, toList_W]; unfold pad4
  rcases hws with e | ⟨h9, e⟩
  · subst e
    have hv2 := pad2_val w hw
    unfold pad2
    simp only [List.cons_append, List.nil_append, yearAlt_long, monthAlt_8, quarterAlt_8, weekAlt, week_W, allDigits,
      List.all_cons, List.all_nil, isDigit_dc, Bool.and_self, hv, hv2, List.length_cons, List.length_nil]
    rfl
  · subst e
    have hv2 := pad1_val w (by omega)
    simp only [List.cons_append, List.nil_append, yearAlt_long, monthAlt_7, quarterAlt_ne _ _ _ _ _ _ hQ, weekAlt, week_W, allDigits,
      List.all_cons, List.all_nil, isDigit_dc, hWd, Bool.and_self, Bool.and_false, Bool.false_and, Bool.false_eq_true, if_false,
      hv, hv2, List.length_cons, List.length_nil]
    rfl

/-- The reference Monday: the Monday of the week of 1 July of year `y`. -/
theorem weekBody_spec (y w : Nat) (hy : y ≤ 9999) (hw1 : 1 ≤ w) :
    ∃ ref1 : Date, ref1.valid = true ∧ ref1.weekday = 1 ∧
      175 ≤ dayNumber ref1 - daysBeforeYear y ∧ dayNumber ref1 - daysBeforeYear y ≤ 182 ∧
      7 * ((ref1.isoWeek.2 : Int) - 1) ≤ dayNumber ref1 + 3 - daysBeforeYear y ∧
      dayNumber ref1 + 3 - daysBeforeYear y < 7 * ref1.isoWeek.2 ∧
      weekBody y w = match ref1.plusDays (((w : Int) - ref1.isoWeek.2) * 7) with
        | none => .panic
        | some ref2 => if ref2.isoWeek.2 != w then .err else .ok ref2 := by
  have hval : (⟨y, 7, 1, true⟩ : Date).valid = true := by
    rw [valid_iff]; have := daysIn_pos y 7; simp only; omega
  have hmk := mkDate_some _ _ _ hval
  have hdn : dayNumber ⟨y, 7, 1, true⟩ = daysBeforeYear y + 181 + leap y := by
    unfold dayNumber; simp only; rw [(dbm_q y).2.2.1]; omega
  have hL := leap_le y
  have hwd := weekday_bounds ⟨y, 7, 1, true⟩
  have hD0 : 0 ≤ daysBeforeYear y := by unfold daysBeforeYear; omega
  obtain ⟨ref1, hm, hv1, hd1⟩ := (toMonday_spec 7 _ hval (by omega)).2 (by omega)
  have e0 := weekday_eq ⟨y, 7, 1, true⟩
  have e1 := weekday_eq ref1
  have hwd1 : ref1.weekday = 1 := by omega
  have hstep := dby_step y
  have hiso := isoWeek_spec ref1 hv1
  simp only at hiso
  have hY : ref1.isoWeek.1 = (y : Int) := isoWeek_year_unique ref1 hv1 y (by omega) (by omega)
  rw [hY] at hiso
  refine ⟨ref1, hv1, hwd1, by omega, by omega, by omega, by omega, ?_⟩
  unfold weekBody
  rw [if_neg (by omega), hmk]
  simp only [hm]

/-- The date reached from the reference Monday. -/
theorem ref2_spec (y w : Nat) (ref1 ref2 : Date) (hw1 : 1 ≤ w) (hv1 : ref1.valid = true) (hwd1 : ref1.weekday = 1)
    (h5 : 7 * ((ref1.isoWeek.2 : Int) - 1) ≤ dayNumber ref1 + 3 - daysBeforeYear y)
    (h6 : dayNumber ref1 + 3 - daysBeforeYear y < 7 * ref1.isoWeek.2)
    (h2 : ref1.plusDays (((w : Int) - ref1.isoWeek.2) * 7) = some ref2) :
    ref2.valid = true ∧ ref2.weekday = 1 ∧ dayNumber ref2 = dayNumber ref1 + ((w : Int) - ref1.isoWeek.2) * 7 ∧
      7 * ((w : Int) - 1) ≤ dayNumber ref2 + 3 - daysBeforeYear y ∧ dayNumber ref2 + 3 - daysBeforeYear y < 7 * w ∧
      (dayNumber ref2 + 3 < daysBeforeYear ((y : Int) + 1) → ref2.isoWeek = ((y : Int), w)) ∧
      (daysBeforeYear ((y : Int) + 1) ≤ dayNumber ref2 + 3 → ref2.isoWeek.2 < w) := by
  obtain ⟨hv2, hd2⟩ := plusDays_some ref1 ref2 _ hv1 h2
  have e1 := weekday_eq ref1
  have e2 := weekday_eq ref2
  have hwd2 : ref2.weekday = 1 := by omega
  have hstep := dby_step y
  have hD : daysBeforeYear y ≤ dayNumber ref2 + 3 := by omega
  refine ⟨hv2, hwd2, hd2, by omega, by omega, ?_, ?_⟩
  · intro hlt
    apply isoWeek_unique ref2 hv2 <;> omega
  · intro hge
    have g := isoWeek_year_gt ref2 hv2 y (by omega)
    have s := isoWeek_spec ref2 hv2
    simp only at s
    have := dby_le _ _ g
    omega

end KlogV.PatternLemmas
